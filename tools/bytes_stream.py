#!/usr/bin/env python3
"""S-BYTES: arbitrary byte strings as HCL files through the real hclrs binary (`--check FILE`, and a short run).

Writes lines `<request>\t<observed result>`; the request carries the bytes (hex) so that a failure replays.
"""
import os
import random
import shutil
import subprocess

SAMPLES = [
    b"register cC { n:8 = 0; } c_n = C_n + 1; pc = 0; Stat = [C_n == 2 : STAT_HLT; 1 : STAT_AOK];\n",
    b"wire a : 8, b : 4;\na = 1; b = a[0..4];\npc = 0; Stat = STAT_AOK;\n",
    b"pc = 0;\nStat = STAT_AOK;\nmem_addr = 0; mem_readbit = 1;\nwire v : 64; v = mem_output;\n",
    b"register fF { pc : 64 = 0; }\npc = F_pc; f_pc = F_pc + 1;\nStat = [ i10bytes[0..8] == 0 : STAT_HLT; 1 : STAT_AOK ];\n",
    "wire é : 8; é = 1; pc = 0; Stat = STAT_AOK; # commentaire\n".encode(),
    b"/* c */ wire x : 1; x = 1 in { 1, 2 }; pc = 0; Stat = STAT_AOK;\r\n",
]
PIECES = [b"wire", b"const", b"register", b" ", b"\n", b"\r\n", b"\r", b"\t", b";", b":", b"=", b"==", b"[", b"]", b"{", b"}", b"(", b")",
          b"..", b",", b"0x", b"0b", b"0b102", b"12ab", b"/*", b"*/", b"//", b"#", b"x", b"Stat", b"pc", b"\xc3\xa9", b"\xe2\x82\xac",
          b"\xff", b"\xc3", b"\xe2\x82", b"\xc2\xa0", b"\xe2\x80\xa8", b"\xe3\x80\x80", b"\xc2\x85", b"\xf0\x9f\x98\x80", b"\x00", b"\xef\xbb\xbf", b"340282366920938463463374607431768211456",
          b"&&", b"||", b"!", b"~", b"<<", b"in", b"1", b"0", "\u00b2".encode(), "\u0663".encode(), "\u00bd".encode(), "\u2167".encode(), b"\"", b"'", b"$", b"@", b"\\"]


def deep(rnd):
    """expressions nested thousands deep: a long chain of one left-associative operator, nested case expressions, a
    long run of unary operators, deep parentheses"""
    n = rnd.choice([50, 300, 1000, 3000, 6000, 20000])
    kind = rnd.choice(["sum", "mux", "unary", "parens", "and"])
    if kind == "sum":
        e = "+".join(["1"] * n)
    elif kind == "and":
        e = " && ".join(["1"] * n)
    elif kind == "mux":
        e = "[1:" * n + "1" + "]" * n
    elif kind == "unary":
        e = "-" * n + "1"
    else:
        e = "(" * n + "1" + ")" * n
    return ("pc = %s;\nStat = STAT_HLT;\n" % e).encode(), "deep-%s-%d" % (kind, n)


def gen(rnd):
    if rnd.random() < 0.02:
        return deep(rnd)
    mode = rnd.randrange(8)
    if mode == 0:
        return bytes(rnd.randrange(256) for _ in range(rnd.randrange(0, 60))), "random-bytes"
    if mode == 1:
        return b"".join(rnd.choice(PIECES) + (b" " if rnd.random() < 0.5 else b"") for _ in range(rnd.randrange(0, 40))), "token-soup"
    s = bytearray(rnd.choice(SAMPLES))
    if mode == 2:
        return bytes(s[:rnd.randrange(len(s) + 1)]), "truncated"
    if mode == 3:
        pos = rnd.randrange(len(s) + 1)
        s[pos:pos] = rnd.choice(PIECES)
        return bytes(s), "inserted"
    if mode == 4:
        pos = rnd.randrange(len(s))
        del s[pos:pos + rnd.randrange(1, 6)]
        return bytes(s), "deleted"
    if mode == 5:
        pos = rnd.randrange(len(s))
        s[pos] = rnd.randrange(256)
        return bytes(s), "byte-substituted"
    if mode == 6:
        return bytes(s).replace(b"\n", rnd.choice([b"\r\n", b"\r"])), "line-endings"
    return bytes(s) + rnd.choice([b" x = 0x", b" x = 0b", b" /* open", b" x = y\xe2\x82", b" x = y\xe2\x82\xac", b" # c", b"/",
                                   b" x = 1 +\xc2\xa0\n\n", b" x = 1 +\xe2\x80\xa8 \n", b" x = (\xe3\x80\x80  ", b" wire q\xc2\xa0\xc2\xa0",
                                   b" register qR {\n  a : 8 = 0\n", b" x = 1 + # c\n\n", b" x = [ 1 : 2;\xc2\x85\n"]), "ends-inside-a-token"


def generate(binary, seed, count, outfile, workdir):
    rnd = random.Random(seed)
    shutil.rmtree(workdir, ignore_errors=True)
    os.makedirs(workdir)
    open(os.path.join(workdir, "h.yo"), "w").write("0x000: 00                   |   halt\n")
    with open(outfile, "w", encoding="utf-8") as f:
        for i in range(count):
            data, how = gen(rnd)
            path = os.path.join(workdir, "f.hcl")
            open(path, "wb").write(data)
            run_it = rnd.random() < 0.3
            args = [binary, "-q", "f.hcl", "h.yo", "3"] if run_it else [binary, "--check", "f.hcl"]
            try:
                p = subprocess.run(args, cwd=workdir, stdin=subprocess.DEVNULL, stdout=subprocess.PIPE, stderr=subprocess.PIPE, timeout=60)
                out = p.stdout.decode("utf-8", "replace")
                err = p.stderr.decode("utf-8", "replace")
                rc = p.returncode
                hang = 0
            except subprocess.TimeoutExpired:
                out, err, rc, hang = "", "", -1, 1
            nerr = 1 if any(l.startswith("error:") for l in err.splitlines()) else 0
            impl = "exit=%d errors=%d panic=%d internal=%d hang=%d" % (
                rc, nerr, 1 if ("panicked at" in err or "RUST_BACKTRACE" in err) else 0,
                1 if ("nternal" in err or "parser bug" in err) else 0, hang)
            f.write("(rawfile (how %s) (mode %s) (hex %s))\t%s\n" % (how, "run" if run_it else "check", data.hex() or "-", impl))
