import Hcl.Model.Errors
import Hcl.Proofs.RegionTotal
open Rust

/-! Theorems about the model of `Error::format_for_contents` (`Hcl/Model/Errors.lean`): it is total on well-formed
    error values, prints the wire names it is given, shows exactly the regions of the spans the error carries, in
    order, and renders a batch of errors one after the other. -/

namespace Errors

/-! ### Plumbing: the `Except` monad, `mapR`, induction over nested error values -/

@[simp] theorem bind_ok {α β : Type} (a : α) (f : α → R β) : (Except.ok a >>= f) = f a := rfl
@[simp] theorem bind_error {α β : Type} (e : Fail) (f : α → R β) : ((Except.error e : R α) >>= f) = Except.error e := rfl
@[simp] theorem pure_eq_ok {α : Type} (a : α) : (pure a : R α) = Except.ok a := rfl

theorem mapR_append {α β : Type} (f : α → R β) (l1 l2 : List α) :
    mapR f (l1 ++ l2) = (do let a ← mapR f l1; let b ← mapR f l2; pure (a ++ b)) := by
  induction l1 with
  | nil => simp only [mapR, List.nil_append, pure_eq_ok, bind_ok]; cases mapR f l2 <;> rfl
  | cons x xs ih =>
    simp only [List.cons_append, mapR, ih]
    cases f x with
    | error e => rfl
    | ok y =>
      simp only [bind_ok]
      cases mapR f xs with
      | error e => rfl
      | ok ys =>
        simp only [bind_ok]
        cases mapR f l2 with
        | error e => rfl
        | ok zs => rfl

theorem mapR_ok_of_forall {α β : Type} (f : α → R β) (l : List α) (h : ∀ x ∈ l, ∃ y, f x = .ok y) :
    ∃ ys, mapR f l = .ok ys := by
  induction l with
  | nil => exact ⟨[], rfl⟩
  | cons x xs ih =>
    obtain ⟨y, hy⟩ := h x (List.mem_cons_self ..)
    obtain ⟨ys, hys⟩ := ih (fun z hz => h z (List.mem_cons_of_mem _ hz))
    exact ⟨y :: ys, by simp only [mapR, hy, hys, bind_ok, pure_eq_ok]⟩

/-- the result of a successful `mapR`, item by item -/
theorem mapR_ok_zip {α β : Type} (f : α → R β) (l : List α) (ys : List β) (h : mapR f l = .ok ys) :
    l.length = ys.length ∧ ∀ p ∈ l.zip ys, f p.1 = .ok p.2 := by
  induction l generalizing ys with
  | nil => simp only [mapR, pure_eq_ok, Except.ok.injEq] at h; subst h; simp
  | cons x xs ih =>
    simp only [mapR] at h
    cases hx : f x with
    | error e => rw [hx] at h; simp at h
    | ok y =>
      rw [hx] at h; simp only [bind_ok] at h
      cases hxs : mapR f xs with
      | error e => rw [hxs] at h; simp at h
      | ok zs =>
        rw [hxs] at h; simp only [bind_ok, pure_eq_ok, Except.ok.injEq] at h
        subst h
        obtain ⟨h1, h2⟩ := ih zs hxs
        refine ⟨by simp [h1], ?_⟩
        intro p hp
        simp only [List.zip_cons_cons, List.mem_cons] at hp
        rcases hp with rfl | hp
        · exact hx
        · exact h2 p hp

/-- the result of a successful `mapR`, by position -/
theorem mapR_ok_get {α β : Type} (f : α → R β) (l : List α) (ys : List β) (h : mapR f l = .ok ys) (i : Nat) (x : α)
    (hx : l[i]? = some x) : ∃ y, ys[i]? = some y ∧ f x = .ok y := by
  induction l generalizing ys i with
  | nil => simp at hx
  | cons a as ih =>
    simp only [mapR] at h
    cases ha : f a with
    | error e => rw [ha] at h; simp at h
    | ok y0 =>
      rw [ha] at h; simp only [bind_ok] at h
      cases has : mapR f as with
      | error e => rw [has] at h; simp at h
      | ok zs =>
        rw [has] at h; simp only [bind_ok, pure_eq_ok, Except.ok.injEq] at h
        subst h
        cases i with
        | zero =>
          simp only [List.getElem?_cons_zero, Option.some.injEq] at hx
          subst hx
          exact ⟨y0, rfl, ha⟩
        | succ j =>
          simp only [List.getElem?_cons_succ] at hx ⊢
          exact ih zs has j hx

def isMultiple : ErrV → Bool
  | .multiple _ => true
  | _ => false

theorem render_single (fc : Io.FileContents) (v : ErrV) (h : isMultiple v = false) : render fc v = renderOne fc v := by
  cases v <;> first | rfl | (simp [isMultiple] at h)

/-- induction over error values: the single errors, and batches of error values for which the claim holds -/
theorem ErrV.induct {motive : ErrV → Prop} (single : ∀ v, isMultiple v = false → motive v)
    (multi : ∀ vs, (∀ v ∈ vs, motive v) → motive (.multiple vs)) (v : ErrV) : motive v := by
  apply ErrV.rec (motive_1 := motive) (motive_2 := fun vs => ∀ v ∈ vs, motive v)
  case multiple => intro vs ih; exact multi vs ih
  case nil => intro v h; cases h
  case cons =>
    intro x xs hx hxs v h
    rcases List.mem_cons.1 h with rfl | h
    · exact hx
    · exact hxs v h
  all_goals (intros; apply single; rfl)

mutual
/-- the single errors of an error value, in order (a batch is flattened, batches inside batches as well) -/
def leaves : ErrV → List ErrV
  | .multiple vs => leavesList vs
  | .mismatchedMuxWidths o w => [.mismatchedMuxWidths o w]
  | .mismatchedExprWidths a b c d => [.mismatchedExprWidths a b c d]
  | .mismatchedWireWidths a b c d => [.mismatchedWireWidths a b c d]
  | .mismatchedRegisterDefaultWidths a b c d e => [.mismatchedRegisterDefaultWidths a b c d e]
  | .duplicateRegister a b => [.duplicateRegister a b]
  | .runtimeMismatchedWidths => [.runtimeMismatchedWidths]
  | .divideByZero => [.divideByZero]
  | .undeclaredWireAssigned a b c => [.undeclaredWireAssigned a b c]
  | .undeclaredWireRead a b c => [.undeclaredWireRead a b c]
  | .nonConstantWireRead a b => [.nonConstantWireRead a b]
  | .unsetWire a b => [.unsetWire a b]
  | .unsetBuiltinWire a => [.unsetBuiltinWire a]
  | .unsetUndeclaredWire a => [.unsetUndeclaredWire a]
  | .unsetRegisterInputWire a b => [.unsetRegisterInputWire a b]
  | .redeclaredWire a b c => [.redeclaredWire a b c]
  | .doubleAssignedWire a b c => [.doubleAssignedWire a b c]
  | .doubleAssignedRegisterWire a b c => [.doubleAssignedRegisterWire a b c]
  | .doubleDeclaredRegisterOutWire a b c => [.doubleDeclaredRegisterOutWire a b c]
  | .doubleAssignedFixedOutWire a b c => [.doubleAssignedFixedOutWire a b c]
  | .assignedConstant a b c => [.assignedConstant a b c]
  | .redeclaredBuiltinWire a b c => [.redeclaredBuiltinWire a b c]
  | .partialFixedInput a b c => [.partialFixedInput a b c]
  | .wireLoop a => [.wireLoop a]
  | .invalidWireWidth a => [.invalidWireWidth a]
  | .invalidRegisterBankName a b => [.invalidRegisterBankName a b]
  | .invalidBitIndex a b => [.invalidBitIndex a b]
  | .nonBooleanWidth a => [.nonBooleanWidth a]
  | .noBitWidth a => [.noBitWidth a]
  | .misorderedBitIndexes a => [.misorderedBitIndexes a]
  | .invalidConstant a => [.invalidConstant a]
  | .wireTooWide a => [.wireTooWide a]
  | .expectedStatementFoundExpr a => [.expectedStatementFoundExpr a]
  | .unterminatedComment a => [.unterminatedComment a]
  | .lexicalError a => [.lexicalError a]
  | .internalParserErrorNear a b => [.internalParserErrorNear a b]
  | .missingWireWidth a => [.missingWireWidth a]
  | .wireAssignedInDeclaration a => [.wireAssignedInDeclaration a]
  | .missingRegisterWidth a => [.missingRegisterWidth a]
  | .addedConstWidth a => [.addedConstWidth a]
  | .missingAssignmentMux a => [.missingAssignmentMux a]
  | .registerDeclaredWithWire a => [.registerDeclaredWithWire a]
  | .noMuxDefaultOption a => [.noMuxDefaultOption a]
  | .multipleMuxDefaultOption a => [.multipleMuxDefaultOption a]
  | .unreachableOptions a => [.unreachableOptions a]
  | .emptyFile => [.emptyFile]
  | .unparseableLine a => [.unparseableLine a]
  | .invalidToken a => [.invalidToken a]
  | .unrecognizedToken a b => [.unrecognizedToken a b]
  | .extraToken a => [.extraToken a]
  | .ioError a => [.ioError a]
  | .fmtError a => [.fmtError a]
def leavesList : List ErrV → List ErrV
  | [] => []
  | v :: vs => leaves v ++ leavesList vs
end

theorem leaves_single (v : ErrV) (h : isMultiple v = false) : leaves v = [v] := by
  cases v <;> first | rfl | (simp [isMultiple] at h)

theorem leavesList_eq (vs : List ErrV) : leavesList vs = vs.flatMap leaves := by
  induction vs with
  | nil => rfl
  | cons v vs ih => simp only [leavesList, ih, List.flatMap_cons]

theorem leaves_multiple (vs : List ErrV) : leaves (.multiple vs) = vs.flatMap leaves := by
  rw [leaves, leavesList_eq]

/-- every leaf is a single error -/
theorem leaves_isSingle (v : ErrV) : ∀ l ∈ leaves v, isMultiple l = false := by
  induction v using ErrV.induct with
  | single v h => intro l hl; rw [leaves_single v h] at hl; simp only [List.mem_singleton] at hl; subst hl; exact h
  | multi vs ih =>
    intro l hl
    rw [leaves_multiple] at hl
    obtain ⟨v, hv, hl⟩ := List.mem_flatMap.1 hl
    exact ih v hv l hl

/-! ### `render_multiple`: a batch is rendered item by item, in order -/

theorem renderList_eq (fc : Io.FileContents) (vs : List ErrV) :
    renderList fc vs = (do let outs ← mapR (render fc) vs; pure outs.flatten) := by
  induction vs with
  | nil => rfl
  | cons v vs ih =>
    simp only [renderList, mapR, ih]
    cases render fc v with
    | error e => rfl
    | ok a =>
      simp only [bind_ok]
      cases mapR (render fc) vs with
      | error e => rfl
      | ok outs => simp only [bind_ok, pure_eq_ok, List.flatten_cons]

/-- **a batch of errors is rendered as the concatenation of the renderings of its items, in order**: no item is
    dropped, none is added, and the first item that cannot be rendered makes the whole rendering fail -/
theorem render_multiple (fc : Io.FileContents) (vs : List ErrV) :
    render fc (.multiple vs) = (do let outs ← mapR (render fc) vs; pure outs.flatten) := by
  rw [render, renderList_eq]

/-- the same down to the single errors: rendering an error value is rendering its leaves one after the other -/
theorem render_leaves (fc : Io.FileContents) (v : ErrV) :
    render fc v = (do let outs ← mapR (renderOne fc) (leaves v); pure outs.flatten) := by
  induction v using ErrV.induct with
  | single v h =>
    rw [render_single fc v h, leaves_single v h]
    simp only [mapR]
    cases renderOne fc v with
    | error e => rfl
    | ok a => simp only [bind_ok, pure_eq_ok, List.flatten_cons, List.flatten_nil, List.append_nil]
  | multi vs ih =>
    rw [render_multiple, leaves_multiple]
    induction vs with
    | nil => rfl
    | cons v vs ihvs =>
      have ih1 := ih v (List.mem_cons_self ..)
      have ih2 := ihvs (fun w hw => ih w (List.mem_cons_of_mem _ hw))
      simp only [mapR, List.flatMap_cons, mapR_append, ih1]
      cases mapR (renderOne fc) (leaves v) with
      | error e => rfl
      | ok a =>
        simp only [bind_ok, pure_eq_ok]
        cases h2 : mapR (render fc) vs with
        | error e =>
          rw [h2] at ih2
          simp only [bind_error] at ih2 ⊢
          cases h3 : mapR (renderOne fc) (List.flatMap leaves vs) with
          | error e' => rw [h3] at ih2; simp only [bind_error] at ih2; rw [ih2]; rfl
          | ok b => rw [h3] at ih2; simp at ih2
        | ok outs =>
          rw [h2] at ih2
          simp only [bind_ok, pure_eq_ok] at ih2 ⊢
          cases h3 : mapR (renderOne fc) (List.flatMap leaves vs) with
          | error e' => rw [h3] at ih2; simp at ih2
          | ok b =>
            rw [h3] at ih2
            simp only [bind_ok, pure_eq_ok, Except.ok.injEq] at ih2
            simp only [bind_ok, List.flatten_cons, List.flatten_append, ih2]

/-! ### `render_regions`: the text is the messages interleaved with the regions of the spans the error carries -/

/-- the region of one span, as `show_region` prints it -/
def region (fc : Io.FileContents) (s : Span) : R Bytes := Io.showRegion fc s.1 s.2

/-- `m₀ ++ r₁ ++ m₁ ++ r₂ ++ … ++ rₖ ++ mₖ` -/
def interleave : List Bytes → List Bytes → Bytes
  | [], _ => []
  | m :: _, [] => m
  | m :: ms, r :: rs => m ++ r ++ interleave ms rs

def pieceSpans : List Piece → List Span
  | [] => []
  | .text _ :: rest => pieceSpans rest
  | .region s :: rest => s :: pieceSpans rest

/-- the texts written before the first region, between two regions, and after the last one -/
def pieceMessages : List Piece → List Bytes
  | [] => [[]]
  | .text b :: rest =>
    match pieceMessages rest with
    | m :: ms => (b ++ m) :: ms
    | [] => [b]
  | .region _ :: rest => [] :: pieceMessages rest

theorem pieceMessages_length (ps : List Piece) : (pieceMessages ps).length = (pieceSpans ps).length + 1 := by
  induction ps with
  | nil => rfl
  | cons p rest ih =>
    cases p with
    | text b =>
      simp only [pieceMessages, pieceSpans]
      cases h : pieceMessages rest with
      | nil => rw [h] at ih; simp at ih
      | cons m ms => rw [h] at ih; simpa using ih
    | region s => simp only [pieceMessages, pieceSpans, List.length_cons, ih]

/-- **what is written is the messages interleaved with the regions**, and it fails exactly where the first region
    that cannot be shown fails -/
theorem emit_eq (fc : Io.FileContents) (ps : List Piece) :
    emit fc ps = (do let rs ← mapR (region fc) (pieceSpans ps); pure (interleave (pieceMessages ps) rs)) := by
  induction ps with
  | nil => rfl
  | cons p rest ih =>
    cases p with
    | text b =>
      simp only [emit, pieceSpans, pieceMessages, ih]
      cases mapR (region fc) (pieceSpans rest) with
      | error e => rfl
      | ok rs =>
        simp only [bind_ok, pure_eq_ok]
        have hl := pieceMessages_length rest
        cases h : pieceMessages rest with
        | nil => rw [h] at hl; simp at hl
        | cons m ms =>
          cases rs with
          | nil => simp only [interleave]
          | cons r rs => simp only [interleave, List.append_assoc]
    | region s =>
      simp only [emit, pieceSpans, pieceMessages, mapR]
      show (region fc s >>= fun a => emit fc rest >>= fun r => pure (a ++ r)) = _
      rw [ih]
      cases region fc s with
      | error e => rfl
      | ok a =>
        simp only [bind_ok]
        cases mapR (region fc) (pieceSpans rest) with
        | error e => rfl
        | ok rs => simp only [bind_ok, pure_eq_ok, interleave, List.nil_append]

/-- the options whose width is known, each with its width (the first loop of the `MismatchedMuxWidths` arm) -/
def muxPairsPure : List Span → List Width → List (Nat × Span)
  | o :: os, .bits n :: ws => (n, o) :: muxPairsPure os ws
  | _ :: os, .unlimited :: ws => muxPairsPure os ws
  | _, _ => []

theorem muxPairs_eq (o : List Span) (w : List Width) (pairs : List (Nat × Span)) (h : muxPairs o w = .ok pairs) :
    pairs = muxPairsPure o w := by
  induction o generalizing w pairs with
  | nil => simp only [muxPairs, pure_eq_ok, Except.ok.injEq] at h; subst h; cases w <;> rfl
  | cons x xs ih =>
    cases w with
    | nil => simp [muxPairs] at h
    | cons y ys =>
      simp only [muxPairs] at h
      cases hr : muxPairs xs ys with
      | error e => rw [hr] at h; simp at h
      | ok rest =>
        rw [hr] at h
        have := ih ys rest hr
        cases y with
        | bits n => simp only [bind_ok, pure_eq_ok, Except.ok.injEq] at h; subst h; simp only [muxPairsPure, this]
        | unlimited => simp only [bind_ok, pure_eq_ok, Except.ok.injEq] at h; subst h; simp only [muxPairsPure, this]

/-- the spans a single error carries, in the order in which their regions are shown -/
def spans1 : ErrV → List Span
  | .mismatchedMuxWidths options widths => (groupByWidth (muxPairsPure options widths)).flatMap (·.2)
  | .mismatchedExprWidths first _ second _ => [first, second]
  | .mismatchedWireWidths _ _ second _ => [second]
  | .mismatchedRegisterDefaultWidths _ _ _ dflt _ => [dflt]
  | .undeclaredWireAssigned _ span _ => [span]
  | .undeclaredWireRead _ expr _ => [expr]
  | .nonConstantWireRead _ expr => [expr]
  | .unsetWire _ span => [span]
  | .unsetRegisterInputWire _ span => [span]
  | .redeclaredWire _ new old => [new, old]
  | .doubleAssignedWire _ new old => [new, old]
  | .doubleAssignedRegisterWire _ registerSpan assignSpan => [registerSpan, assignSpan]
  | .doubleDeclaredRegisterOutWire _ old new => [old, new]
  | .doubleAssignedFixedOutWire _ span _ => [span]
  | .assignedConstant _ span constSpan => [span, constSpan]
  | .redeclaredBuiltinWire _ span _ => [span]
  | .invalidWireWidth span => [span]
  | .invalidRegisterBankName _ span => [span]
  | .invalidBitIndex expr _ => [expr]
  | .nonBooleanWidth expr => [expr]
  | .noBitWidth expr => [expr]
  | .misorderedBitIndexes expr => [expr]
  | .invalidConstant span => [span]
  | .wireTooWide expr => [expr]
  | .expectedStatementFoundExpr expr => [expr]
  | .unterminatedComment start => [(start, start + 2)]
  | .lexicalError start => [(start, start + 1)]
  | .invalidToken start => [(start, start + 1)]
  | .internalParserErrorNear span _ => [span]
  | .missingWireWidth span => [span]
  | .wireAssignedInDeclaration span => [span]
  | .missingRegisterWidth span => [span]
  | .addedConstWidth span => [span]
  | .missingAssignmentMux span => [span]
  | .registerDeclaredWithWire span => [span]
  | .noMuxDefaultOption expr => [expr]
  | .multipleMuxDefaultOption expr => [expr]
  | .unreachableOptions expr => [expr]
  | .unrecognizedToken location _ => [location]
  | .extraToken span => [span]
  | _ => []

/-- the spans an error value carries: those of its single errors, in order -/
def spans (v : ErrV) : List Span := (leaves v).flatMap spans1

theorem pieceSpans_append (a b : List Piece) : pieceSpans (a ++ b) = pieceSpans a ++ pieceSpans b := by
  induction a with
  | nil => rfl
  | cons p rest ih => cases p <;> simp [pieceSpans, ih]

theorem pieceSpans_regions (l : List Span) : pieceSpans (l.map .region) = l := by
  induction l with
  | nil => rfl
  | cons s rest ih => simp [pieceSpans, ih]

theorem pieceSpans_muxGroups (gs : List (Nat × List Span)) : pieceSpans (muxGroups gs) = gs.flatMap (·.2) := by
  induction gs with
  | nil => rfl
  | cons g rest ih =>
    obtain ⟨w, lst⟩ := g
    simp only [muxGroups, pieceSpans, pieceSpans_append, pieceSpans_regions, ih, List.flatMap_cons]

/-- the regions an arm writes are those of the spans of the error, in order -/
theorem layout_spans (fc : Io.FileContents) (v : ErrV) (ps : List Piece) (h : layout fc v = .ok ps) :
    pieceSpans ps = spans1 v := by
  cases v
  case mismatchedMuxWidths o w =>
    simp only [layout] at h
    cases hp : muxPairs o w with
    | error e => rw [hp] at h; simp at h
    | ok pairs =>
      rw [hp] at h
      simp only [bind_ok, pure_eq_ok, Except.ok.injEq] at h
      subst h
      simp only [pieceSpans, pieceSpans_muxGroups, spans1, muxPairs_eq o w pairs hp]
  case unrecognizedToken loc expected =>
    simp only [layout] at h
    cases hf : formatTokenList expected with
    | error e => rw [hf] at h; simp at h
    | ok ef =>
      rw [hf] at h
      simp only [bind_ok] at h
      split at h
      · cases hl : Io.lineNumberAndBounds fc loc.1 with
        | error e => rw [hl] at h; simp at h
        | ok t =>
          obtain ⟨n, b, nx⟩ := t
          rw [hl] at h
          simp only [bind_ok] at h
          cases hi : Yo.index fc.data b loc.1 with
          | error e => rw [hi] at h; simp at h
          | ok before =>
            rw [hi] at h
            simp only [bind_ok, pure_eq_ok, Except.ok.injEq] at h
            subst h; rfl
      · simp only [bind_ok, pure_eq_ok, Except.ok.injEq] at h
        subst h; rfl
  case extraToken span =>
    simp only [layout] at h
    cases hi : Yo.index fc.data span.1 span.2 with
    | error e => rw [hi] at h; simp at h
    | ok token =>
      rw [hi] at h
      simp only [bind_ok, pure_eq_ok, Except.ok.injEq] at h
      subst h; rfl
  case partialFixedInput name found missing =>
    simp only [layout, pure_eq_ok, Except.ok.injEq] at h
    subst h
    split <;> rfl
  all_goals (simp only [layout, pure_eq_ok, Except.ok.injEq] at h; subst h; rfl)

/-- the messages of a single error: what its arm writes before, between and after the regions -/
def messages1 (fc : Io.FileContents) (v : ErrV) : R (List Bytes) := do
  let ps ← layout fc v
  pure (pieceMessages ps)

/-- the messages of two errors in a row: the last of the first and the first of the second are one stretch of text -/
def joinMsgs : List Bytes → List Bytes → List Bytes
  | [], bs => bs
  | [a], [] => [a]
  | [a], b :: bs => (a ++ b) :: bs
  | a :: a2 :: as, bs => a :: joinMsgs (a2 :: as) bs

def joinAll : List (List Bytes) → List Bytes
  | [] => [[]]
  | ms :: rest => joinMsgs ms (joinAll rest)

/-- the messages of an error value -/
def messages (fc : Io.FileContents) (v : ErrV) : R (List Bytes) := do
  let mss ← mapR (messages1 fc) (leaves v)
  pure (joinAll mss)

theorem joinMsgs_length (as bs : List Bytes) (ha : as ≠ []) (hb : bs ≠ []) :
    (joinMsgs as bs).length + 1 = as.length + bs.length := by
  induction as with
  | nil => exact absurd rfl ha
  | cons a rest ih =>
    cases rest with
    | nil =>
      cases bs with
      | nil => exact absurd rfl hb
      | cons b bs => simp [joinMsgs]; omega
    | cons a2 as =>
      have := ih (by simp)
      simp only [joinMsgs, List.length_cons] at this ⊢
      omega

theorem interleave_join (as bs ras rbs : List Bytes) (ha : as.length = ras.length + 1) (hb : bs.length = rbs.length + 1) :
    interleave (joinMsgs as bs) (ras ++ rbs) = interleave as ras ++ interleave bs rbs := by
  induction as generalizing ras with
  | nil => simp at ha
  | cons a rest ih =>
    cases rest with
    | nil =>
      have : ras = [] := by cases ras with | nil => rfl | cons r rs => simp at ha
      subst this
      cases bs with
      | nil => simp at hb
      | cons b bs =>
        cases rbs with
        | nil => simp [joinMsgs, interleave]
        | cons r rs => simp [joinMsgs, interleave, List.append_assoc]
    | cons a2 as =>
      cases ras with
      | nil => simp at ha
      | cons r rs =>
        have := ih rs (by simpa using ha)
        simp only [joinMsgs, List.cons_append, interleave, this, List.append_assoc]

/-- a single error: its text is its messages interleaved with the regions of its spans -/
theorem renderOne_regions (fc : Io.FileContents) (v : ErrV) (out : Bytes) (h : renderOne fc v = .ok out) :
    ∃ ms rs, messages1 fc v = .ok ms ∧ mapR (region fc) (spans1 v) = .ok rs ∧ ms.length = rs.length + 1 ∧
      out = interleave ms rs := by
  unfold renderOne at h
  cases hl : layout fc v with
  | error e => rw [hl] at h; simp at h
  | ok ps =>
    rw [hl] at h
    simp only [bind_ok, emit_eq] at h
    rw [layout_spans fc v ps hl] at h
    cases hr : mapR (region fc) (spans1 v) with
    | error e => rw [hr] at h; simp at h
    | ok rs =>
      rw [hr] at h
      simp only [bind_ok, pure_eq_ok, Except.ok.injEq] at h
      refine ⟨pieceMessages ps, rs, by simp only [messages1, hl, bind_ok, pure_eq_ok], rfl, ?_, h.symm⟩
      rw [pieceMessages_length, layout_spans fc v ps hl, (mapR_ok_zip _ _ _ hr).1]

theorem renderOnes_regions (fc : Io.FileContents) (L : List ErrV) (outs : List Bytes) (h : mapR (renderOne fc) L = .ok outs) :
    ∃ mss rs, mapR (messages1 fc) L = .ok mss ∧ mapR (region fc) (L.flatMap spans1) = .ok rs ∧
      (joinAll mss).length = rs.length + 1 ∧ outs.flatten = interleave (joinAll mss) rs := by
  induction L generalizing outs with
  | nil =>
    simp only [mapR, pure_eq_ok, Except.ok.injEq] at h
    subst h
    exact ⟨[], [], rfl, rfl, rfl, rfl⟩
  | cons v rest ih =>
    simp only [mapR] at h
    cases hv : renderOne fc v with
    | error e => rw [hv] at h; simp at h
    | ok o =>
      rw [hv] at h
      simp only [bind_ok] at h
      cases hrest : mapR (renderOne fc) rest with
      | error e => rw [hrest] at h; simp at h
      | ok os =>
        rw [hrest] at h
        simp only [bind_ok, pure_eq_ok, Except.ok.injEq] at h
        subst h
        obtain ⟨ms, rs1, hm, hr1, hlen1, ho⟩ := renderOne_regions fc v o hv
        obtain ⟨mss, rs2, hms, hr2, hlen2, hos⟩ := ih os hrest
        have hne1 : ms ≠ [] := by intro h0; rw [h0] at hlen1; simp at hlen1
        have hne2 : joinAll mss ≠ [] := by intro h0; rw [h0] at hlen2; simp at hlen2
        have hjl := joinMsgs_length ms (joinAll mss) hne1 hne2
        refine ⟨ms :: mss, rs1 ++ rs2, by simp only [mapR, hm, hms, bind_ok, pure_eq_ok], ?_, ?_, ?_⟩
        · simp only [List.flatMap_cons, mapR_append, hr1, hr2, bind_ok, pure_eq_ok]
        · simp only [joinAll, List.length_append]; omega
        · simp only [List.flatten_cons, joinAll, interleave_join ms (joinAll mss) rs1 rs2 hlen1 hlen2, ho, hos]

/-- **the regions printed for an error are exactly `Io.showRegion` of the spans the error value carries, in order**,
    with the messages before, between and after them: `out = m₀ ++ r₁ ++ m₁ ++ … ++ rₖ ++ mₖ` where `rᵢ` is the region of
    the i-th span of `spans v` -/
theorem render_regions (fc : Io.FileContents) (v : ErrV) (out : Bytes) (h : render fc v = .ok out) :
    ∃ ms rs, messages fc v = .ok ms ∧ mapR (region fc) (spans v) = .ok rs ∧ ms.length = rs.length + 1 ∧
      out = interleave ms rs := by
  rw [render_leaves] at h
  cases hl : mapR (renderOne fc) (leaves v) with
  | error e => rw [hl] at h; simp at h
  | ok outs =>
    rw [hl] at h
    simp only [bind_ok, pure_eq_ok, Except.ok.injEq] at h
    obtain ⟨mss, rs, hm, hr, hlen, ho⟩ := renderOnes_regions fc (leaves v) outs hl
    exact ⟨joinAll mss, rs, by simp only [messages, hm, bind_ok, pure_eq_ok], hr, hlen, by rw [← h, ho]⟩

/-! ### `render_total`: rendering never fails on well-formed error values -/

/-- the description of a token of the parser's `expected` list can be computed: it is `ID` or `CONSTANT`, or its first
    byte is a character by itself and, when that is a double quote, the part between it and the last byte is a string
    (`&token[0..1]`, `&token[1..len - 1]`).  Every token LALRPOP names is of this kind. -/
def tokenOK (t : Bytes) : Prop :=
  t = Yo.str "ID" ∨ t = Yo.str "CONSTANT" ∨
    ((Yo.get t 0 1).isSome ∧ (Yo.get t 0 1 = some [34] → (Yo.get t 1 (t.length - 1)).isSome))

/-- what the arms that slice the text or index a vector need (all other errors render whatever they carry):
    * `MismatchedMuxWidths`: a width for every option (`widths[i]`);
    * `ExtraToken`: the span is a slice of the text (`&contents.data()[span.0..span.1]`);
    * `UnrecognizedToken`: the tokens can be described, and if `";"` is among them the start of the span is a
      character boundary of the text (`&contents.data()[start..location.0]`). -/
def wf1 (fc : Io.FileContents) : ErrV → Prop
  | .mismatchedMuxWidths options widths => options.length ≤ widths.length
  | .extraToken span => (Yo.get fc.data span.1 span.2).isSome
  | .unrecognizedToken location expected =>
    (∀ t ∈ expected, tokenOK t) ∧
    (quoted ";" ∈ expected → location.1 ≤ fc.data.length ∧ Yo.isBoundary fc.data location.1 = true)
  | _ => True

/-- well-formed error values: every single error in them is -/
def WF (fc : Io.FileContents) (v : ErrV) : Prop := ∀ l ∈ leaves v, wf1 fc l

theorem emit_total (P U name : Bytes) (hP : Yo.validUtf8 P = true) (hU : Yo.validUtf8 U = true) (ps : List Piece) :
    ∃ out, emit (Io.newFromData P U name) ps = .ok out := by
  induction ps with
  | nil => exact ⟨[], rfl⟩
  | cons p rest ih =>
    obtain ⟨r, hr⟩ := ih
    cases p with
    | text b => exact ⟨b ++ r, by simp only [emit, hr, bind_ok, pure_eq_ok]⟩
    | region s =>
      obtain ⟨a, ha⟩ := Io.showRegion_total P U name hP hU s.1 s.2
      exact ⟨a ++ r, by simp only [emit, ha, hr, bind_ok, pure_eq_ok]⟩

theorem muxPairs_total (o : List Span) (w : List Width) (h : o.length ≤ w.length) : ∃ pairs, muxPairs o w = .ok pairs := by
  induction o generalizing w with
  | nil => exact ⟨[], rfl⟩
  | cons x xs ih =>
    cases w with
    | nil => simp at h
    | cons y ys =>
      obtain ⟨rest, hr⟩ := ih ys (by simpa using h)
      cases y with
      | bits n => exact ⟨(n, x) :: rest, by simp only [muxPairs, hr, bind_ok, pure_eq_ok]⟩
      | unlimited => exact ⟨rest, by simp only [muxPairs, hr, bind_ok, pure_eq_ok]⟩

theorem mem_of_mem_dedup (l : List Bytes) (x : Bytes) (h : x ∈ dedup l) : x ∈ l := by
  induction l with
  | nil => simp [dedup] at h
  | cons y ys ih =>
    simp only [dedup] at h
    split at h
    · exact List.mem_cons_of_mem _ (ih h)
    · rcases List.mem_cons.1 h with rfl | h
      · exact List.mem_cons_self ..
      · exact List.mem_cons_of_mem _ (ih h)

theorem index_of_get {s : Bytes} {a b : Nat} {x : Bytes} (h : Yo.get s a b = some x) : Yo.index s a b = .ok x := by
  simp only [Yo.index, h, pure_eq_ok]

theorem describeToken_total (t : Bytes) (h : tokenOK t) : ∃ d, describeToken t = .ok d := by
  unfold describeToken
  by_cases h1 : t = Yo.str "ID"
  · exact ⟨_, by simp only [h1, if_true, pure_eq_ok]; rfl⟩
  · by_cases h2 : t = Yo.str "CONSTANT"
    · subst h2; exact ⟨_, by simp only [pure_eq_ok]; rfl⟩
    · rcases h with h | h | ⟨hg, hq⟩
      · exact absurd h h1
      · exact absurd h h2
      · simp only [h1, h2, if_false]
        cases hf : Yo.get t 0 1 with
        | none => rw [hf] at hg; simp at hg
        | some first =>
          rw [index_of_get hf]
          simp only [bind_ok]
          by_cases hq34 : first = [34]
          · subst hq34
            have hlen : 1 ≤ t.length := by
              unfold Yo.get at hf
              split at hf
              · rename_i hc
                simp only [Bool.and_eq_true, decide_eq_true_eq] at hc
                exact hc.1.1.2
              · simp at hf
            have := hq hf
            cases hi : Yo.get t 1 (t.length - 1) with
            | none => rw [hi] at this; simp at this
            | some inner =>
              exact ⟨_, by simp only [if_true, Rust.uSub, hlen, pure_eq_ok, bind_ok, index_of_get hi]; rfl⟩
          · exact ⟨t, by simp only [hq34, if_false, pure_eq_ok]⟩

theorem formatTokenList_total (tokens : List Bytes) (h : ∀ t ∈ tokens, tokenOK t) : ∃ r, formatTokenList tokens = .ok r := by
  unfold formatTokenList
  simp only [pure_eq_ok]
  generalize hs3 : (if ((allUnOperators.filter (dedup tokens).contains).length == allUnOperators.length) = true then
      List.filter (fun t => !allUnOperators.contains t)
        (if ((allBinOperators.filter (dedup tokens).contains).length == allBinOperators.length) = true then
          List.filter (fun t => !allBinOperators.contains t)
            (if ((allCompareOperators.filter (dedup tokens).contains).length == allCompareOperators.length) = true then
              List.filter (fun t => !allCompareOperators.contains t) (dedup tokens) else dedup tokens)
        else (if ((allCompareOperators.filter (dedup tokens).contains).length == allCompareOperators.length) = true then
              List.filter (fun t => !allCompareOperators.contains t) (dedup tokens) else dedup tokens))
    else (if ((allBinOperators.filter (dedup tokens).contains).length == allBinOperators.length) = true then
          List.filter (fun t => !allBinOperators.contains t)
            (if ((allCompareOperators.filter (dedup tokens).contains).length == allCompareOperators.length) = true then
              List.filter (fun t => !allCompareOperators.contains t) (dedup tokens) else dedup tokens)
        else (if ((allCompareOperators.filter (dedup tokens).contains).length == allCompareOperators.length) = true then
              List.filter (fun t => !allCompareOperators.contains t) (dedup tokens) else dedup tokens))) = set3
  have hsub : ∀ t ∈ set3, t ∈ tokens := by
    intro t ht
    apply mem_of_mem_dedup
    rw [← hs3] at ht
    repeat' split at ht
    all_goals (first | exact ht | exact (List.mem_filter.1 ht).1 | exact (List.mem_filter.1 (List.mem_filter.1 ht).1).1 |
      exact (List.mem_filter.1 (List.mem_filter.1 (List.mem_filter.1 ht).1).1).1)
  obtain ⟨named, hn⟩ := mapR_ok_of_forall describeToken set3 (fun t ht => describeToken_total t (h t (hsub t ht)))
  exact ⟨_, by rw [hn]; rfl⟩

theorem layout_total (P U name : Bytes) (hP : Yo.validUtf8 P = true) (hU : Yo.validUtf8 U = true) (v : ErrV)
    (hv : wf1 (Io.newFromData P U name) v) : ∃ ps, layout (Io.newFromData P U name) v = .ok ps := by
  have hdata : (Io.newFromData P U name).data = P ++ U := rfl
  cases v
  case mismatchedMuxWidths o w =>
    obtain ⟨pairs, hp⟩ := muxPairs_total o w hv
    exact ⟨_, by simp only [layout, hp, bind_ok, pure_eq_ok]; rfl⟩
  case extraToken span =>
    simp only [wf1] at hv
    cases hg : Yo.get (Io.newFromData P U name).data span.1 span.2 with
    | none => rw [hg] at hv; simp at hv
    | some token => exact ⟨_, by simp only [layout, index_of_get hg, bind_ok, pure_eq_ok]; rfl⟩
  case unrecognizedToken loc expected =>
    obtain ⟨htok, hsemi⟩ := hv
    obtain ⟨ef, hef⟩ := formatTokenList_total expected htok
    simp only [layout, hef, bind_ok]
    by_cases hc : expected.contains (quoted ";") = true
    · have hmem : quoted ";" ∈ expected := by simpa using hc
      obtain ⟨hle, hbd⟩ := hsemi hmem
      rw [hdata] at hle hbd
      obtain ⟨n, b, nx, hl, hb1, _, _, hbb, _⟩ := Io.lineNumberAndBounds_total P U name hP hU loc.1 hle
      have hidx : Yo.index (P ++ U) b loc.1 = .ok (((P ++ U).drop b).take (loc.1 - b)) := by
        unfold Yo.index Yo.get
        simp only [hb1, hle, hbb, hbd, decide_true, Bool.and_self, if_true]
        rfl
      simp only [hc, if_true, hl, bind_ok, hdata, hidx, pure_eq_ok]
      exact ⟨_, rfl⟩
    · simp only [hc, pure_eq_ok, bind_ok]
      exact ⟨_, rfl⟩
  all_goals exact ⟨_, rfl⟩

/-- **rendering never fails**: for every well-formed error value and every file (preamble and user text valid UTF-8, as
    Rust strings are; any file name), `render` returns a text.  `WF` constrains three of the 52 variants only — the
    ones whose arms index a vector or slice the text themselves — and is what these arms need. -/
theorem render_total (P U name : Bytes) (hP : Yo.validUtf8 P = true) (hU : Yo.validUtf8 U = true) (v : ErrV)
    (hv : WF (Io.newFromData P U name) v) : ∃ out, render (Io.newFromData P U name) v = .ok out := by
  rw [render_leaves]
  obtain ⟨outs, ho⟩ := mapR_ok_of_forall (renderOne (Io.newFromData P U name)) (leaves v) (by
    intro l hl
    obtain ⟨ps, hps⟩ := layout_total P U name hP hU l (hv l hl)
    obtain ⟨out, hout⟩ := emit_total P U name hP hU ps
    exact ⟨out, by simp only [renderOne, hps, bind_ok, hout]⟩)
  exact ⟨outs.flatten, by simp only [ho, bind_ok, pure_eq_ok]⟩

/-- all variants but three are well-formed whatever they carry -/
theorem wf1_of_plain (fc : Io.FileContents) (v : ErrV)
    (h1 : ∀ o w, v ≠ .mismatchedMuxWidths o w) (h2 : ∀ s, v ≠ .extraToken s) (h3 : ∀ l e, v ≠ .unrecognizedToken l e) :
    wf1 fc v := by
  cases v
  case mismatchedMuxWidths o w => exact absurd rfl (h1 o w)
  case extraToken s => exact absurd rfl (h2 s)
  case unrecognizedToken l e => exact absurd rfl (h3 l e)
  all_goals trivial

/-! ### `render_names_wire`: the names an error carries are printed, in single quotes -/

/-- `'n'` -/
def quote (n : Bytes) : Bytes := [39] ++ n ++ [39]

theorem concat_of_getLast? {l : Bytes} {x : Nat} (h : l.getLast? = some x) : ∃ l', l = l' ++ [x] := by
  rcases List.eq_nil_or_concat l with rfl | ⟨l', b, rfl⟩
  · simp at h
  · rw [List.concat_eq_append, List.getLast?_concat] at h
    simp only [Option.some.injEq] at h
    subst h
    exact ⟨l', List.concat_eq_append ..⟩

/-- a string without its last byte still contains what does not end in that byte -/
theorem infix_of_infix_concat {q l : Bytes} {x : Nat} (h : q <:+: l ++ [x]) (hq : q ≠ []) (hx : q.getLast? ≠ some x) :
    q <:+: l := by
  obtain ⟨s, t, hst⟩ := h
  rcases List.eq_nil_or_concat t with rfl | ⟨t', b, rfl⟩
  · rcases List.eq_nil_or_concat q with rfl | ⟨q', y, rfl⟩
    · exact absurd rfl hq
    · rw [List.concat_eq_append] at hst hx
      rw [List.append_nil, ← List.append_assoc] at hst
      have := (List.append_inj' hst rfl).2
      simp only [List.cons.injEq, and_true] at this
      subst this
      exact absurd List.getLast?_concat hx
  · rw [List.concat_eq_append, ← List.append_assoc] at hst
    have := (List.append_inj' hst rfl).1
    exact ⟨s, t', this⟩

/-- what contains no `x` and lies in `A ++ x :: B` lies in `A` or in `B` -/
theorem infix_split {q A B : Bytes} {x : Nat} (h : q <:+: A ++ x :: B) (hq : q ≠ []) (hx : x ∉ q) : q <:+: A ∨ q <:+: B := by
  obtain ⟨s, t, hst⟩ := h
  rw [List.append_assoc] at hst
  rcases List.append_eq_append_iff.1 hst with ⟨a', hA, hqt⟩ | ⟨c', hs, hxB⟩
  · rcases List.append_eq_append_iff.1 hqt with ⟨a'', ha', _⟩ | ⟨c'', hq', hc⟩
    · left; exact ⟨s, a'', by rw [hA, ha', List.append_assoc]⟩
    · cases c'' with
      | nil => left; exact ⟨s, [], by rw [hA, hq']; simp⟩
      | cons y ys =>
        simp only [List.cons_append, List.cons.injEq] at hc
        exfalso; apply hx; rw [hq', hc.1]; simp
  · cases c' with
    | nil =>
      simp only [List.nil_append] at hxB
      cases q with
      | nil => exact absurd rfl hq
      | cons y ys =>
        simp only [List.cons_append, List.cons.injEq] at hxB
        exfalso; apply hx; rw [hxB.1]; simp
    | cons y ys =>
      simp only [List.cons_append, List.cons.injEq] at hxB
      right; exact ⟨ys, t, by rw [hxB.2, List.append_assoc]⟩

theorem infix_splitInclusive (s : Bytes) : ∀ (cur q : Bytes), q ≠ [] → 10 ∉ q → q <:+: cur.reverse ++ s →
    ∃ line ∈ Io.splitInclusive s cur, q <:+: line := by
  induction s with
  | nil =>
    intro cur q hq h10 h
    cases cur with
    | nil =>
      simp only [List.reverse_nil, List.append_nil] at h
      exact absurd (List.eq_nil_of_infix_nil h) hq
    | cons c cs => exact ⟨(c :: cs).reverse, by simp [Io.splitInclusive], by simpa using h⟩
  | cons b rest ih =>
    intro cur q hq h10 h
    simp only [Io.splitInclusive]
    by_cases hb : b = 10
    · subst hb
      simp only [if_true]
      rcases infix_split h hq h10 with h1 | h2
      · exact ⟨(10 :: cur).reverse, List.mem_cons_self .., by
          rw [List.reverse_cons]; exact List.infix_append_of_infix_left h1⟩
      · obtain ⟨line, hl, hql⟩ := ih [] q hq h10 (by simpa using h2)
        exact ⟨line, List.mem_cons_of_mem _ hl, hql⟩
    · simp only [hb, if_false]
      exact ih (b :: cur) q hq h10 (by simpa using h)

theorem infix_stripLine {q line : Bytes} (h : q <:+: line) (hq : q ≠ []) (h10 : 10 ∉ q) (h13 : q.getLast? ≠ some 13) :
    q <:+: Io.stripLine line := by
  have hl10 : q.getLast? ≠ some 10 := by
    intro hc; exact h10 (List.mem_of_getLast? hc)
  unfold Io.stripLine Io.stripSuffixByte
  by_cases h1 : line.getLast? = some 10
  · obtain ⟨l1, rfl⟩ := concat_of_getLast? h1
    have hq1 : q <:+: l1 := infix_of_infix_concat h hq hl10
    simp only [h1, if_true, List.dropLast_concat]
    by_cases h2 : l1.getLast? = some 13
    · obtain ⟨l2, rfl⟩ := concat_of_getLast? h2
      simp only [h2, if_true, List.dropLast_concat]
      exact infix_of_infix_concat hq1 hq h13
    · simp only [h2, if_false]; exact hq1
  · simp only [h1, if_false]; exact h

/-- a piece of a message that has no line end in it and does not end in a carriage return is in one of its lines -/
theorem infix_lines {q msg : Bytes} (h : q <:+: msg) (hq : q ≠ []) (h10 : 10 ∉ q) (h13 : q.getLast? ≠ some 13) :
    ∃ line ∈ Io.lines msg, q <:+: line := by
  obtain ⟨line, hl, hql⟩ := infix_splitInclusive msg [] q hq h10 (by simpa using h)
  exact ⟨Io.stripLine line, List.mem_map.2 ⟨line, hl, rfl⟩, infix_stripLine hql hq h10 h13⟩

theorem infix_contLines {q : Bytes} (ls : List Bytes) (h : ∃ line ∈ ls, q <:+: line) : q <:+: contLines ls := by
  induction ls with
  | nil => obtain ⟨line, hl, _⟩ := h; cases hl
  | cons l rest ih =>
    obtain ⟨line, hl, hql⟩ := h
    simp only [contLines]
    rcases List.mem_cons.1 hl with rfl | hl
    · exact List.infix_append_of_infix_left (List.infix_append_of_infix_left
        (hql.trans (List.suffix_append _ _).isInfix))
    · exact (ih ⟨line, hl, hql⟩).trans (List.suffix_append _ _).isInfix

theorem infix_errorContinue {q msg : Bytes} (h : q <:+: msg) (hq : q ≠ []) (h10 : 10 ∉ q) (h13 : q.getLast? ≠ some 13) :
    q <:+: errorContinue msg := infix_contLines _ (infix_lines h hq h10 h13)

theorem infix_error {q msg : Bytes} (h : q <:+: msg) (hq : q ≠ []) (h10 : 10 ∉ q) (h13 : q.getLast? ≠ some 13) :
    q <:+: error msg := by
  obtain ⟨line, hl, hql⟩ := infix_lines h hq h10 h13
  unfold error
  cases hls : Io.lines msg with
  | nil => rw [hls] at hl; cases hl
  | cons first rest =>
    rw [hls] at hl
    simp only
    rcases List.mem_cons.1 hl with rfl | hl
    · exact List.infix_append_of_infix_left (List.infix_append_of_infix_left (hql.trans (List.suffix_append _ _).isInfix))
    · exact (infix_contLines rest ⟨line, hl, hql⟩).trans (List.suffix_append _ _).isInfix

theorem quote_ne_nil (n : Bytes) : quote n ≠ [] := by simp [quote]
theorem quote_no_nl (n : Bytes) (h : 10 ∉ n) : 10 ∉ quote n := by
  simp only [quote, List.mem_append, List.mem_singleton, not_or]
  exact ⟨⟨by decide, h⟩, by decide⟩
theorem quote_last (n : Bytes) : (quote n).getLast? ≠ some 13 := by
  unfold quote; rw [List.getLast?_concat]; decide

/-- `'n'` lies in `a ++ n ++ b` when `a` ends and `b` begins with a quote -/
theorem quote_infix (a n b : Bytes) (ha : a.getLast? = some 39) (hb : b.head? = some 39) : quote n <:+: a ++ n ++ b := by
  obtain ⟨a', rfl⟩ := concat_of_getLast? ha
  cases b with
  | nil => simp at hb
  | cons c b' =>
    simp only [List.head?_cons, Option.some.injEq] at hb
    subst hb
    exact ⟨a', b', by simp [quote, List.append_assoc]⟩

theorem getLast?_append_right (x s : Bytes) (c : Nat) (h : s.getLast? = some c) : (x ++ s).getLast? = some c := by
  rw [List.getLast?_append, h]; rfl

theorem quote_in_error {n msg : Bytes} (h10 : 10 ∉ n) (h : quote n <:+: msg) : quote n <:+: error msg :=
  infix_error h (quote_ne_nil n) (quote_no_nl n h10) (quote_last n)

theorem quote_in_errorContinue {n msg : Bytes} (h10 : 10 ∉ n) (h : quote n <:+: msg) : quote n <:+: errorContinue msg :=
  infix_errorContinue h (quote_ne_nil n) (quote_no_nl n h10) (quote_last n)

/-- the names a single error carries and prints in quotes: wires, registers, banks, the suggested name.  (Of
    `PartialFixedInput` the input names when there are at most two of them: with three or more `list_with_and` loses
    quotes.  No fixed component of the Y86 machine has more than three inputs, so at most two are found or missing.) -/
def names1 : ErrV → List Bytes
  | .mismatchedWireWidths name _ _ _ => [name]
  | .mismatchedRegisterDefaultWidths bank reg _ _ _ => [reg, bank]
  | .duplicateRegister bank reg => [reg, bank]
  | .undeclaredWireAssigned name _ close => name :: close.toList
  | .undeclaredWireRead name _ close => name :: close.toList
  | .nonConstantWireRead name _ => [name]
  | .unsetWire name _ => [name]
  | .unsetBuiltinWire name => [name]
  | .unsetUndeclaredWire name => [name]
  | .unsetRegisterInputWire name _ => [name]
  | .redeclaredWire name _ _ => [name]
  | .doubleAssignedWire name _ _ => [name]
  | .doubleAssignedRegisterWire name _ _ => [name]
  | .doubleDeclaredRegisterOutWire name _ _ => [name]
  | .doubleAssignedFixedOutWire name _ _ => [name]
  | .assignedConstant name _ _ => [name]
  | .redeclaredBuiltinWire name _ _ => [name]
  | .partialFixedInput _ found missing =>
    (if found.length ≤ 2 then found else []) ++ (if missing.length ≤ 2 then missing else [])
  | .wireLoop lst => lst
  | .invalidRegisterBankName name _ => [name]
  | _ => []

/-- the names an error value carries: those of its single errors -/
def names (v : ErrV) : List Bytes := (leaves v).flatMap names1

theorem infix_emit (fc : Io.FileContents) (ps : List Piece) (out : Bytes) (h : emit fc ps = .ok out) (b : Bytes)
    (hb : Piece.text b ∈ ps) : b <:+: out := by
  induction ps generalizing out with
  | nil => cases hb
  | cons p rest ih =>
    cases p with
    | text c =>
      simp only [emit] at h
      cases hr : emit fc rest with
      | error e => rw [hr] at h; simp at h
      | ok r =>
        rw [hr] at h
        simp only [bind_ok, pure_eq_ok, Except.ok.injEq] at h
        subst h
        rcases List.mem_cons.1 hb with hbc | hb
        · simp only [Piece.text.injEq] at hbc
          subst hbc
          exact (List.prefix_append _ _).isInfix
        · exact (ih r hr hb).trans (List.suffix_append _ _).isInfix
    | region s =>
      simp only [emit] at h
      cases ha : Io.showRegion fc s.1 s.2 with
      | error e => rw [ha] at h; simp at h
      | ok a =>
        rw [ha] at h
        simp only [bind_ok] at h
        cases hr : emit fc rest with
        | error e => rw [hr] at h; simp at h
        | ok r =>
          rw [hr] at h
          simp only [bind_ok, pure_eq_ok, Except.ok.injEq] at h
          subst h
          rcases List.mem_cons.1 hb with hbc | hb
          · cases hbc
          · exact (ih r hr hb).trans (List.suffix_append _ _).isInfix

theorem quote_in_listWithAnd (items : List Bytes) (n : Bytes) (hn : n ∈ items) (hlen : items.length ≤ 2) :
    quote n <:+: listWithAnd items := by
  match items, hlen with
  | [], _ => cases hn
  | [a], _ =>
    simp only [List.mem_singleton] at hn; subst hn
    exact List.infix_refl _
  | [a, b], _ =>
    simp only [List.mem_cons, List.not_mem_nil, or_false] at hn
    show quote n <:+: [39] ++ a ++ Yo.str "' and '" ++ b ++ [39]
    rcases hn with rfl | rfl
    · exact List.infix_append_of_infix_left (List.infix_append_of_infix_left (quote_infix [39] n (Yo.str "' and '") rfl rfl))
    · exact quote_infix _ n [39] (getLast?_append_right _ _ _ rfl) rfl
  | _ :: _ :: _ :: _, h => simp at h

theorem loopLines_infix (lst : List Bytes) (k i0 i : Nat) (h1 : i0 ≤ i) (h2 : i < i0 + k) :
    errorContinue (Yo.str "  '" ++ lst.getD ((i + 1) % lst.length) [] ++ Yo.str "' depends on '" ++ lst.getD i [] ++ Yo.str "'" ++
      (if i = lst.length - 1 then [] else Yo.str " and")) <:+: loopLines lst k i0 := by
  induction k generalizing i0 with
  | zero => omega
  | succ k ih =>
    simp only [loopLines]
    by_cases hi : i = i0
    · subst hi; exact (List.prefix_append _ _).isInfix
    · exact (ih (i0 + 1) (by omega) (by omega)).trans (List.suffix_append _ _).isInfix

/-- closes `quote n <:+: a ++ n ++ b ++ …` where the text before `n` ends and the text after it begins with a quote -/
macro "quote_tac" : tactic =>
  `(tactic| repeat (first
    | exact quote_infix _ _ _ (by first | rfl | exact getLast?_append_right _ _ _ rfl) rfl
    | apply List.infix_append_of_infix_left))

set_option maxRecDepth 4000 in
theorem layout_names (fc : Io.FileContents) (v : ErrV) (ps : List Piece) (h : layout fc v = .ok ps) :
    ∀ n ∈ names1 v, 10 ∉ n → ∃ b, Piece.text b ∈ ps ∧ quote n <:+: b := by
  intro n hn h10
  cases v
  case mismatchedWireWidths name fw second sw =>
    simp only [layout, located, pure_eq_ok, Except.ok.injEq] at h; subst h
    simp only [names1, List.mem_singleton] at hn; subst hn
    exact ⟨_, List.mem_cons_self .., quote_in_error h10 (by quote_tac)⟩
  case mismatchedRegisterDefaultWidths bank reg rw dflt ew =>
    simp only [layout, located, pure_eq_ok, Except.ok.injEq] at h; subst h
    simp only [names1, List.mem_cons, List.not_mem_nil, or_false] at hn
    rcases hn with rfl | rfl
    · exact ⟨_, List.mem_cons_self .., quote_in_error h10 (by quote_tac)⟩
    · exact ⟨_, List.mem_cons_self .., quote_in_error h10 (by quote_tac)⟩
  case duplicateRegister bank reg =>
    simp only [layout, pure_eq_ok, Except.ok.injEq] at h; subst h
    simp only [names1, List.mem_cons, List.not_mem_nil, or_false] at hn
    rcases hn with rfl | rfl
    · exact ⟨_, List.mem_cons_self .., quote_in_error h10 (by quote_tac)⟩
    · exact ⟨_, List.mem_cons_self .., quote_in_error h10 (by quote_tac)⟩
  case undeclaredWireAssigned name span close =>
    simp only [layout, pure_eq_ok, Except.ok.injEq] at h; subst h
    simp only [names1, List.mem_cons] at hn
    rcases hn with rfl | hn
    · exact ⟨_, List.mem_cons_self .., quote_in_error h10 (by quote_tac)⟩
    · cases close with
      | none => simp at hn
      | some c =>
        simp only [Option.toList_some, List.mem_singleton] at hn; subst hn
        refine ⟨undeclaredHint name (some n), List.mem_cons_of_mem _ (List.mem_cons_of_mem _ (List.mem_cons_self ..)), ?_⟩
        show quote n <:+: errorContinue (Yo.str "(Did you mean '" ++ n ++ Yo.str "'?)")
        exact quote_in_errorContinue h10 (by quote_tac)
  case undeclaredWireRead name span close =>
    simp only [layout, pure_eq_ok, Except.ok.injEq] at h; subst h
    simp only [names1, List.mem_cons] at hn
    rcases hn with rfl | hn
    · exact ⟨_, List.mem_cons_self .., quote_in_error h10 (by quote_tac)⟩
    · cases close with
      | none => simp at hn
      | some c =>
        simp only [Option.toList_some, List.mem_singleton] at hn; subst hn
        refine ⟨undeclaredHint name (some n), List.mem_cons_of_mem _ (List.mem_cons_of_mem _ (List.mem_cons_self ..)), ?_⟩
        show quote n <:+: errorContinue (Yo.str "(Did you mean '" ++ n ++ Yo.str "'?)")
        exact quote_in_errorContinue h10 (by quote_tac)
  case partialFixedInput name found missing =>
    simp only [layout, pure_eq_ok, Except.ok.injEq] at h; subst h
    simp only [names1, List.mem_append] at hn
    rcases hn with hn | hn
    · by_cases hl : found.length ≤ 2
      · simp only [hl, if_true] at hn
        refine ⟨_, List.mem_cons_self .., quote_in_error h10 ?_⟩
        exact List.infix_append_of_infix_left (List.infix_append_of_infix_left (List.infix_append_of_infix_left
          ((quote_in_listWithAnd found n hn hl).trans (List.suffix_append _ _).isInfix)))
      · simp [hl] at hn
    · by_cases hl : missing.length ≤ 2
      · simp only [hl, if_true] at hn
        have hpos : missing.length > 0 := List.length_pos_of_mem hn
        refine ⟨_, by simp only [hpos, if_true]; exact List.mem_cons_of_mem _ (List.mem_cons_self ..), quote_in_errorContinue h10 ?_⟩
        exact List.infix_append_of_infix_left ((quote_in_listWithAnd missing n hn hl).trans (List.suffix_append _ _).isInfix)
      · simp [hl] at hn
  case wireLoop lst =>
    simp only [layout, pure_eq_ok, Except.ok.injEq] at h; subst h
    simp only [names1] at hn
    obtain ⟨i, hi, hget⟩ := List.getElem_of_mem hn
    have hgd : lst.getD i [] = n := by simp [List.getD_eq_getElem?_getD, List.getElem?_eq_getElem hi, hget]
    refine ⟨_, List.mem_cons_of_mem _ (List.mem_cons_self ..), ?_⟩
    refine (quote_in_errorContinue h10 ?_).trans (loopLines_infix lst lst.length 0 i (Nat.zero_le _) (by omega))
    rw [hgd]
    quote_tac
  case nonConstantWireRead name expr =>
    simp only [layout, located, pure_eq_ok, Except.ok.injEq] at h; subst h
    simp only [names1, List.mem_singleton] at hn; subst hn
    exact ⟨_, List.mem_cons_self .., quote_in_error h10 (by quote_tac)⟩
  case unsetWire name span =>
    simp only [layout, located, pure_eq_ok, Except.ok.injEq] at h; subst h
    simp only [names1, List.mem_singleton] at hn; subst hn
    exact ⟨_, List.mem_cons_self .., quote_in_error h10 (by quote_tac)⟩
  case unsetBuiltinWire name =>
    simp only [layout, pure_eq_ok, Except.ok.injEq] at h; subst h
    simp only [names1, List.mem_singleton] at hn; subst hn
    exact ⟨_, List.mem_cons_self .., quote_in_error h10 (by quote_tac)⟩
  case unsetUndeclaredWire name =>
    simp only [layout, pure_eq_ok, Except.ok.injEq] at h; subst h
    simp only [names1, List.mem_singleton] at hn; subst hn
    exact ⟨_, List.mem_cons_self .., quote_in_error h10 (by quote_tac)⟩
  case unsetRegisterInputWire name span =>
    simp only [layout, located, pure_eq_ok, Except.ok.injEq] at h; subst h
    simp only [names1, List.mem_singleton] at hn; subst hn
    exact ⟨_, List.mem_cons_self .., quote_in_error h10 (by quote_tac)⟩
  case redeclaredWire name a b =>
    simp only [layout, located2, pure_eq_ok, Except.ok.injEq] at h; subst h
    simp only [names1, List.mem_singleton] at hn; subst hn
    exact ⟨_, List.mem_cons_self .., quote_in_error h10 (by quote_tac)⟩
  case doubleAssignedWire name a b =>
    simp only [layout, located2, pure_eq_ok, Except.ok.injEq] at h; subst h
    simp only [names1, List.mem_singleton] at hn; subst hn
    exact ⟨_, List.mem_cons_self .., quote_in_error h10 (by quote_tac)⟩
  case doubleAssignedRegisterWire name a b =>
    simp only [layout, located2, pure_eq_ok, Except.ok.injEq] at h; subst h
    simp only [names1, List.mem_singleton] at hn; subst hn
    exact ⟨_, List.mem_cons_self .., quote_in_error h10 (by quote_tac)⟩
  case doubleDeclaredRegisterOutWire name a b =>
    simp only [layout, located2, pure_eq_ok, Except.ok.injEq] at h; subst h
    simp only [names1, List.mem_singleton] at hn; subst hn
    exact ⟨_, List.mem_cons_self .., quote_in_error h10 (by quote_tac)⟩
  case doubleAssignedFixedOutWire name span fixed =>
    simp only [layout, located, pure_eq_ok, Except.ok.injEq] at h; subst h
    simp only [names1, List.mem_singleton] at hn; subst hn
    exact ⟨_, List.mem_cons_self .., quote_in_error h10 (by quote_tac)⟩
  case assignedConstant name a b =>
    simp only [layout, located2, pure_eq_ok, Except.ok.injEq] at h; subst h
    simp only [names1, List.mem_singleton] at hn; subst hn
    exact ⟨_, List.mem_cons_self .., quote_in_error h10 (by quote_tac)⟩
  case redeclaredBuiltinWire name span fixed =>
    simp only [layout, located, pure_eq_ok, Except.ok.injEq] at h; subst h
    simp only [names1, List.mem_singleton] at hn; subst hn
    exact ⟨_, List.mem_cons_self .., quote_in_error h10 (by quote_tac)⟩
  case invalidRegisterBankName name span =>
    simp only [layout, located, pure_eq_ok, Except.ok.injEq] at h; subst h
    simp only [names1, List.mem_singleton] at hn; subst hn
    exact ⟨_, List.mem_cons_self .., quote_in_error h10 (by quote_tac)⟩
  all_goals (simp [names1] at hn)

/-- **every wire, register and bank name an error carries is printed, in single quotes**: for each name `n` of `names v`
    (without a line end in it, as identifiers are), the text rendered is `pre ++ "'" ++ n ++ "'" ++ post` -/
theorem render_names_wire (fc : Io.FileContents) (v : ErrV) (out : Bytes) (h : render fc v = .ok out) :
    ∀ n ∈ names v, 10 ∉ n → ∃ pre post, out = pre ++ (Yo.str "'" ++ n ++ Yo.str "'") ++ post := by
  intro n hn h10
  rw [render_leaves] at h
  cases hl : mapR (renderOne fc) (leaves v) with
  | error e => rw [hl] at h; simp at h
  | ok outs =>
    rw [hl] at h
    simp only [bind_ok, pure_eq_ok, Except.ok.injEq] at h
    subst h
    obtain ⟨l, hlv, hnl⟩ := List.mem_flatMap.1 hn
    obtain ⟨hlen, hzip⟩ := mapR_ok_zip _ _ _ hl
    obtain ⟨i, hi, hget⟩ := List.getElem_of_mem hlv
    have hi2 : i < outs.length := by omega
    have hmem : (l, outs[i]) ∈ (leaves v).zip outs := by
      have : ((leaves v).zip outs)[i]'(by simp; omega) = (l, outs[i]) := by simp [hget]
      rw [← this]; exact List.getElem_mem _
    have hone : renderOne fc l = .ok outs[i] := hzip _ hmem
    unfold renderOne at hone
    cases hps : layout fc l with
    | error e => rw [hps] at hone; simp at hone
    | ok ps =>
      rw [hps] at hone
      simp only [bind_ok] at hone
      obtain ⟨b, hb, hq⟩ := layout_names fc l ps hps n hnl h10
      have h1 : quote n <:+: outs[i] := hq.trans (infix_emit fc ps _ hone b hb)
      have h2 : outs[i] <:+: outs.flatten := List.infix_of_mem_flatten (List.getElem_mem hi2)
      obtain ⟨pre, post, hpp⟩ := h1.trans h2
      exact ⟨pre, post, hpp.symm⟩

/-! ### `WF` is exactly what rendering needs: an error value that renders is well-formed -/

instance (t : Bytes) : Decidable (tokenOK t) := by unfold tokenOK; exact inferInstance

theorem get_of_index {s : Bytes} {a b : Nat} {x : Bytes} (h : Yo.index s a b = .ok x) : Yo.get s a b = some x := by
  unfold Yo.index at h
  cases hg : Yo.get s a b with
  | none => rw [hg] at h; simp at h
  | some y => rw [hg] at h; simp only [pure_eq_ok, Except.ok.injEq] at h; rw [h]

theorem tokenOK_of_describe (t d : Bytes) (h : describeToken t = .ok d) : tokenOK t := by
  unfold describeToken at h
  by_cases h1 : t = Yo.str "ID"
  · exact Or.inl h1
  · by_cases h2 : t = Yo.str "CONSTANT"
    · exact Or.inr (Or.inl h2)
    · simp only [h1, h2, if_false] at h
      cases hf : Yo.index t 0 1 with
      | error e => rw [hf] at h; simp at h
      | ok first =>
        rw [hf] at h
        simp only [bind_ok] at h
        have hg := get_of_index hf
        refine Or.inr (Or.inr ⟨by rw [hg]; rfl, ?_⟩)
        intro hq
        have hfirst : first = [34] := by rw [hg] at hq; simpa using hq
        subst hfirst
        simp only [if_true] at h
        cases hu : uSub t.length 1 with
        | error e => rw [hu] at h; simp at h
        | ok last =>
          rw [hu] at h
          simp only [bind_ok] at h
          have hlast : last = t.length - 1 := by
            unfold Rust.uSub at hu
            split at hu
            · simp only [pure_eq_ok, Except.ok.injEq] at hu; exact hu.symm
            · simp at hu
          subst hlast
          cases hi : Yo.index t 1 (t.length - 1) with
          | error e => rw [hi] at h; simp at h
          | ok inner => rw [get_of_index hi]; rfl

theorem mem_dedup_of_mem (l : List Bytes) (x : Bytes) (h : x ∈ l) : x ∈ dedup l := by
  induction l with
  | nil => cases h
  | cons y ys ih =>
    simp only [dedup]
    rcases List.mem_cons.1 h with rfl | h
    · split
      · rename_i hc; exact ih (by simpa using hc)
      · exact List.mem_cons_self ..
    · split
      · exact ih h
      · exact List.mem_cons_of_mem _ (ih h)

theorem operators_ok : ∀ t ∈ allCompareOperators ++ allBinOperators ++ allUnOperators, tokenOK t := by decide

theorem tokens_ok_of_format (tokens : List Bytes) (r : Bytes) (h : formatTokenList tokens = .ok r) :
    ∀ t ∈ tokens, tokenOK t := by
  intro t ht
  by_cases hop : t ∈ allCompareOperators ++ allBinOperators ++ allUnOperators
  · exact operators_ok t hop
  · simp only [List.mem_append, not_or] at hop
    obtain ⟨⟨hc, hb⟩, hu⟩ := hop
    unfold formatTokenList at h
    simp only [pure_eq_ok] at h
    generalize hs3 : (if ((allUnOperators.filter (dedup tokens).contains).length == allUnOperators.length) = true then
        List.filter (fun t => !allUnOperators.contains t)
          (if ((allBinOperators.filter (dedup tokens).contains).length == allBinOperators.length) = true then
            List.filter (fun t => !allBinOperators.contains t)
              (if ((allCompareOperators.filter (dedup tokens).contains).length == allCompareOperators.length) = true then
                List.filter (fun t => !allCompareOperators.contains t) (dedup tokens) else dedup tokens)
          else (if ((allCompareOperators.filter (dedup tokens).contains).length == allCompareOperators.length) = true then
                List.filter (fun t => !allCompareOperators.contains t) (dedup tokens) else dedup tokens))
      else (if ((allBinOperators.filter (dedup tokens).contains).length == allBinOperators.length) = true then
            List.filter (fun t => !allBinOperators.contains t)
              (if ((allCompareOperators.filter (dedup tokens).contains).length == allCompareOperators.length) = true then
                List.filter (fun t => !allCompareOperators.contains t) (dedup tokens) else dedup tokens)
          else (if ((allCompareOperators.filter (dedup tokens).contains).length == allCompareOperators.length) = true then
                List.filter (fun t => !allCompareOperators.contains t) (dedup tokens) else dedup tokens))) = set3 at h
    have hmem : t ∈ set3 := by
      have h0 := mem_dedup_of_mem tokens t ht
      rw [← hs3]
      repeat' split
      all_goals simp [List.mem_filter, h0, hc, hb, hu]
    cases hn : mapR describeToken set3 with
    | error e => rw [hn] at h; simp at h
    | ok named =>
      obtain ⟨i, hi, hget⟩ := List.getElem_of_mem hmem
      obtain ⟨d, _, hd⟩ := mapR_ok_get _ _ _ hn i t (by rw [List.getElem?_eq_getElem hi, hget])
      exact tokenOK_of_describe t d hd

theorem muxPairs_ok_length (o : List Span) (w : List Width) (pairs : List (Nat × Span)) (h : muxPairs o w = .ok pairs) :
    o.length ≤ w.length := by
  induction o generalizing w pairs with
  | nil => simp
  | cons x xs ih =>
    cases w with
    | nil => simp [muxPairs] at h
    | cons y ys =>
      simp only [muxPairs] at h
      cases hr : muxPairs xs ys with
      | error e => rw [hr] at h; simp at h
      | ok rest => have := ih ys rest hr; simp only [List.length_cons]; omega

/-- an arm that can be laid out got what `wf1` asks for -/
theorem layout_ok_wf1 (fc : Io.FileContents) (v : ErrV) (ps : List Piece) (h : layout fc v = .ok ps) : wf1 fc v := by
  cases v
  case mismatchedMuxWidths o w =>
    simp only [layout] at h
    cases hp : muxPairs o w with
    | error e => rw [hp] at h; simp at h
    | ok pairs => exact muxPairs_ok_length o w pairs hp
  case extraToken span =>
    simp only [layout] at h
    cases hi : Yo.index fc.data span.1 span.2 with
    | error e => rw [hi] at h; simp at h
    | ok token => simp only [wf1, get_of_index hi]; rfl
  case unrecognizedToken loc expected =>
    simp only [layout] at h
    cases hf : formatTokenList expected with
    | error e => rw [hf] at h; simp at h
    | ok ef =>
      refine ⟨tokens_ok_of_format expected ef hf, ?_⟩
      intro hsemi
      have hc : expected.contains (quoted ";") = true := by simpa using hsemi
      rw [hf] at h
      simp only [bind_ok, hc, if_true] at h
      cases hl : Io.lineNumberAndBounds fc loc.1 with
      | error e => rw [hl] at h; simp at h
      | ok t =>
        obtain ⟨n, b, nx⟩ := t
        rw [hl] at h
        simp only [bind_ok] at h
        cases hi : Yo.index fc.data b loc.1 with
        | error e => rw [hi] at h; simp at h
        | ok before =>
          have hg := get_of_index hi
          unfold Yo.get at hg
          split at hg
          · rename_i hcond
            simp only [Bool.and_eq_true, decide_eq_true_eq] at hcond
            exact ⟨hcond.1.1.2, hcond.2⟩
          · simp at hg
  all_goals trivial

/-- **an error value that renders is well-formed**: with `render_total`, `WF` is exactly the condition under which
    `format_for_contents` returns (for files that are valid UTF-8) -/
theorem render_ok_wf (fc : Io.FileContents) (v : ErrV) (out : Bytes) (h : render fc v = .ok out) : WF fc v := by
  intro l hl
  rw [render_leaves] at h
  cases hm : mapR (renderOne fc) (leaves v) with
  | error e => rw [hm] at h; simp at h
  | ok outs =>
    obtain ⟨i, hi, hget⟩ := List.getElem_of_mem hl
    obtain ⟨o, _, ho⟩ := mapR_ok_get _ _ _ hm i l (by rw [List.getElem?_eq_getElem hi, hget])
    unfold renderOne at ho
    cases hps : layout fc l with
    | error e => rw [hps] at ho; simp at ho
    | ok ps => exact layout_ok_wf1 fc l ps hps

theorem render_ok_iff (P U name : Bytes) (hP : Yo.validUtf8 P = true) (hU : Yo.validUtf8 U = true) (v : ErrV) :
    (∃ out, render (Io.newFromData P U name) v = .ok out) ↔ WF (Io.newFromData P U name) v :=
  ⟨fun ⟨out, h⟩ => render_ok_wf _ v out h, render_total P U name hP hU v⟩

end Errors
