import Hcl.Proofs.ProgramSpansCheck
import Hcl.Proofs.AMapLemmas
open Rust

/-! Step 1 and step 2 of `Program.newSp` against `Program.new`: the span-less state is the state of `Program.new` on the
    statements without spans, the span tables have the keys the span-less model tracks, and the diagnostics are the
    same once the spans are forgotten. -/

namespace Parser

/-! ### association lists -/

theorem contains_eq_keys_contains {α} (m : AMap α) (k : String) : m.contains k = m.keys.contains k := by
  cases h : m.keys.contains k with
  | true => exact (AMap.contains_iff_mem_keys m k).mpr (by simpa using h)
  | false =>
    cases h2 : m.contains k with
    | false => rfl
    | true =>
      have := (AMap.contains_iff_mem_keys m k).mp h2
      have h3 : m.keys.contains k = true := by simpa using this
      rw [h] at h3; cases h3

theorem keys_insert_setInsert {α} (m : AMap α) (k : String) (v : α) : (m.insert k v).keys = setInsert m.keys k := by
  rw [AMap.keys_insert, contains_eq_keys_contains]; rfl

theorem get?_isSome_keys {α} (m : AMap α) (k : String) : (m.get? k).isSome = m.keys.contains k := by
  rw [AMap.get?_isSome_iff_contains, contains_eq_keys_contains]

theorem eraseVals_get? (m : AMap PEx) (k : String) : AMap.get? (eraseVals m) k = (AMap.get? m k).map PEx.erase := by
  unfold AMap.get? eraseVals
  induction m with
  | nil => rfl
  | cons p r ih =>
    obtain ⟨a, b⟩ := p
    simp only [List.map_cons, List.lookup_cons]
    cases hk : k == a <;> simp [ih]

theorem eraseVals_keys (m : AMap PEx) : AMap.keys (eraseVals m) = AMap.keys m := by
  unfold AMap.keys eraseVals; simp [List.map_map, Function.comp_def]

theorem eraseVals_contains (m : AMap PEx) (k : String) : AMap.contains (eraseVals m) k = AMap.contains m k := by
  rw [contains_eq_keys_contains, contains_eq_keys_contains, eraseVals_keys]

theorem eraseVals_insert (m : AMap PEx) (k : String) (v : PEx) :
    eraseVals (AMap.insert m k v) = AMap.insert (eraseVals m) k v.erase := by
  unfold AMap.insert
  rw [eraseVals_contains]
  by_cases h : AMap.contains m k = true
  · simp only [h, if_true]
    unfold eraseVals
    simp only [List.map_map]
    apply List.map_congr_left
    intro p _
    simp only [Function.comp]
    by_cases hp : (p.1 == k) = true <;> simp [hp]
  · simp only [h]
    unfold eraseVals; simp

/-! ### step 1 -/

structure Inv1 (t : Step1Sp) : Prop where
  errs : t.errs.map DiagSp.erase = t.s.errors
  decl : AMap.keys t.declSpans = t.s.declared
  asg : AMap.keys t.assignSpans = t.s.assigned
  consts : eraseVals t.consts = t.s.constantsRaw
  assigns : eraseVals t.assigns = t.s.assignments
  banks : t.banks.map SBankDecl.erase = t.s.banksRaw

theorem ddErrs_erase (fixedNames : List String) (t : Step1Sp) (h : Inv1 t) (name : String) (span : Span) :
    (ddErrs fixedNames t name span).map DiagSp.erase =
      (if t.s.declared.contains name then [(⟨.RedeclaredWire, [name]⟩ : Diag)]
       else if fixedNames.contains name then [⟨.RedeclaredBuiltinWire, [name]⟩] else []) := by
  unfold ddErrs
  have hk := get?_isSome_keys t.declSpans name
  rw [h.decl] at hk
  cases hg : AMap.get? t.declSpans name with
  | some other => rw [hg] at hk; simp at hk; simp [hk, erase_mk]
  | none =>
    rw [hg] at hk
    have hk' : t.s.declared.contains name = false := by simpa using hk.symm
    simp only [hk']
    cases hf : fixedNames.contains name <;> simp [erase_mk]

theorem step1ConstSp_inv (fixedNames : List String) (t : Step1Sp) (h : Inv1 t) (d : SConstDecl) :
    Inv1 (step1ConstSp fixedNames t d) := by
  have he := ddErrs_erase fixedNames t h d.name d.nameSpan
  constructor
  · simp only [step1ConstSp, List.map_append, he, h.errs, step1Const, checkDoubleDeclare, SConstDecl.erase]; rfl
  · simp only [step1ConstSp, keys_insert_setInsert, h.decl, step1Const, checkDoubleDeclare, SConstDecl.erase]
  · simp only [step1ConstSp, h.asg, step1Const, checkDoubleDeclare]
  · simp only [step1ConstSp, eraseVals_insert, h.consts, step1Const, checkDoubleDeclare, SConstDecl.erase, PEx.toEx]
  · simp only [step1ConstSp, h.assigns, step1Const, checkDoubleDeclare]
  · simp only [step1ConstSp, h.banks, step1Const, checkDoubleDeclare]

theorem step1WireSp_inv (fixedNames : List String) (t : Step1Sp) (h : Inv1 t) (d : SWireDecl) :
    Inv1 (step1WireSp fixedNames t d) := by
  have he := ddErrs_erase fixedNames t h d.name d.span
  constructor
  · simp only [step1WireSp, List.map_append, he, h.errs, step1Wire, checkDoubleDeclare, SWireDecl.erase]; rfl
  · simp only [step1WireSp, keys_insert_setInsert, h.decl, step1Wire, checkDoubleDeclare, SWireDecl.erase]
  · simp only [step1WireSp, h.asg, step1Wire, checkDoubleDeclare]
  · simp only [step1WireSp, h.consts, step1Wire, checkDoubleDeclare]
  · simp only [step1WireSp, h.assigns, step1Wire, checkDoubleDeclare]
  · simp only [step1WireSp, h.banks, step1Wire, checkDoubleDeclare]

theorem step1NameSp_inv (fixedOut : List String) (value : PEx) (t : Step1Sp) (h : Inv1 t) (nm : String × Span) :
    Inv1 (step1NameSp fixedOut value t nm) := by
  have hk := get?_isSome_keys t.assignSpans nm.1
  rw [h.asg] at hk
  constructor
  · simp only [step1NameSp, List.map_append, h.errs, step1Name]
    congr 1
    cases hg : AMap.get? t.assignSpans nm.1 with
    | some other => rw [hg] at hk; simp at hk; simp [hk, erase_mk]
    | none =>
      rw [hg] at hk
      have hk' : t.s.assigned.contains nm.1 = false := by simpa using hk.symm
      simp only [hk']
      cases hf : fixedOut.contains nm.1 <;> simp [erase_mk]
  · simp only [step1NameSp, h.decl, step1Name]
  · simp only [step1NameSp, keys_insert_setInsert, h.asg, step1Name]
  · simp only [step1NameSp, h.consts, step1Name]
  · simp only [step1NameSp, eraseVals_insert, h.assigns, step1Name]
  · simp only [step1NameSp, h.banks, step1Name]

theorem step1NameSp_s (fixedOut : List String) (value : PEx) (t : Step1Sp) (nm : String × Span) :
    (step1NameSp fixedOut value t nm).s = step1Name fixedOut value.erase t.s nm.1 := rfl

theorem foldl_names_inv (fixedOut : List String) (value : PEx) : ∀ (names : List (String × Span)) (t : Step1Sp), Inv1 t →
    Inv1 (names.foldl (step1NameSp fixedOut value) t) ∧
    (names.foldl (step1NameSp fixedOut value) t).s = (names.map (·.1)).foldl (step1Name fixedOut value.erase) t.s
  | [], t, h => ⟨h, rfl⟩
  | nm :: rest, t, h => by
    simp only [List.foldl_cons, List.map_cons]
    have := foldl_names_inv fixedOut value rest _ (step1NameSp_inv fixedOut value t h nm)
    rw [step1NameSp_s] at this
    exact this

theorem step1AssignSp_inv (fixedOut : List String) (t : Step1Sp) (h : Inv1 t) (a : SAssignment) :
    Inv1 (step1AssignSp fixedOut t a) ∧ (step1AssignSp fixedOut t a).s = step1Assign fixedOut t.s a.erase := by
  unfold step1AssignSp step1Assign SAssignment.erase
  exact foldl_names_inv fixedOut a.value a.names t h

/-- a fold of a spanned step that preserves the invariant and computes the span-less step on the span-less item -/
theorem foldl_inv {σ β : Type} (f : Step1Sp → σ → Step1Sp) (g : Step1 → β → Step1) (er : σ → β)
    (hf : ∀ t, Inv1 t → ∀ x, Inv1 (f t x) ∧ (f t x).s = g t.s (er x)) :
    ∀ (l : List σ) (t : Step1Sp), Inv1 t → Inv1 (l.foldl f t) ∧ (l.foldl f t).s = (l.map er).foldl g t.s
  | [], t, h => ⟨h, rfl⟩
  | x :: rest, t, h => by
    simp only [List.foldl_cons, List.map_cons]
    have h1 := hf t h x
    have := foldl_inv f g er hf rest _ h1.1
    rw [h1.2] at this
    exact this

theorem step1StmtSp_inv (fixedNames fixedOut : List String) (t : Step1Sp) (h : Inv1 t) (st : SStmt) :
    Inv1 (step1StmtSp fixedNames fixedOut t st) ∧
    (step1StmtSp fixedNames fixedOut t st).s = step1Stmt fixedNames fixedOut t.s st.erase := by
  cases st with
  | consts ds =>
    simp only [step1StmtSp, step1Stmt, SStmt.erase]
    exact foldl_inv (step1ConstSp fixedNames) (step1Const fixedNames) SConstDecl.erase (fun t h d => ⟨step1ConstSp_inv fixedNames t h d, rfl⟩) ds t h
  | wires ds =>
    simp only [step1StmtSp, step1Stmt, SStmt.erase]
    exact foldl_inv (step1WireSp fixedNames) (step1Wire fixedNames) SWireDecl.erase (fun t h d => ⟨step1WireSp_inv fixedNames t h d, rfl⟩) ds t h
  | assigns as =>
    simp only [step1StmtSp, step1Stmt, SStmt.erase]
    exact foldl_inv (step1AssignSp fixedOut) (step1Assign fixedOut) SAssignment.erase (fun t h a => step1AssignSp_inv fixedOut t h a) as t h
  | bank b =>
    refine ⟨?_, rfl⟩
    constructor
    · exact h.errs
    · exact h.decl
    · exact h.asg
    · exact h.consts
    · exact h.assigns
    · simp [step1StmtSp, h.banks]

theorem step1Init_errors (fixed : List FixedFunction) :
    (step1Init fixed).errors = [] ∧ (step1Init fixed).declared = [] ∧ (step1Init fixed).assigned = [] ∧
    (step1Init fixed).constantsRaw = [] ∧ (step1Init fixed).assignments = [] ∧ (step1Init fixed).banksRaw = [] := by
  unfold step1Init
  have key : ∀ (l : List FixedFunction) (s : Step1),
      (s.errors = [] ∧ s.declared = [] ∧ s.assigned = [] ∧ s.constantsRaw = [] ∧ s.assignments = [] ∧ s.banksRaw = []) →
      let r := l.foldl (fun s f =>
        let s := f.inWires.foldl (fun s (w : String × Nat) =>
          { s with wireTypes := s.wireTypes.insert w.1 .builtinInput, wires := s.wires.insert w.1 (.bits w.2) }) s
        match f.outWire with
        | some (n, w) => { s with wireTypes := s.wireTypes.insert n .builtinOutput, wires := s.wires.insert n (.bits w) }
        | none => s) s
      (r.errors = [] ∧ r.declared = [] ∧ r.assigned = [] ∧ r.constantsRaw = [] ∧ r.assignments = [] ∧ r.banksRaw = []) := by
    intro l
    induction l with
    | nil => intro s h; exact h
    | cons f rest ih =>
      intro s h
      simp only [List.foldl_cons]
      apply ih
      have inner : ∀ (ws : List (String × Nat)) (s : Step1),
          (s.errors = [] ∧ s.declared = [] ∧ s.assigned = [] ∧ s.constantsRaw = [] ∧ s.assignments = [] ∧ s.banksRaw = []) →
          let r := ws.foldl (fun s (w : String × Nat) =>
            { s with wireTypes := s.wireTypes.insert w.1 .builtinInput, wires := s.wires.insert w.1 (.bits w.2) }) s
          (r.errors = [] ∧ r.declared = [] ∧ r.assigned = [] ∧ r.constantsRaw = [] ∧ r.assignments = [] ∧ r.banksRaw = []) := by
        intro ws
        induction ws with
        | nil => intro s h; exact h
        | cons w rest ih2 => intro s h; simp only [List.foldl_cons]; exact ih2 _ h
      have h2 := inner f.inWires s h
      cases f.outWire with
      | none => exact h2
      | some p => exact h2
  exact key fixed {} ⟨rfl, rfl, rfl, rfl, rfl, rfl⟩

theorem inv1_init (fixed : List FixedFunction) : Inv1 { s := step1Init fixed } := by
  obtain ⟨h1, h2, h3, h4, h5, h6⟩ := step1Init_errors fixed
  constructor
  · simp [h1]
  · simp [h2, AMap.keys]
  · simp [h3, AMap.keys]
  · simp [h4, eraseVals]
  · simp [h5, eraseVals]
  · simp [h6]

/-- step 1 as a whole -/
theorem step1_fold (fixedNames fixedOut : List String) (fixed : List FixedFunction) (ss : List SStmt) :
    Inv1 (ss.foldl (step1StmtSp fixedNames fixedOut) { s := step1Init fixed }) ∧
    (ss.foldl (step1StmtSp fixedNames fixedOut) { s := step1Init fixed }).s =
      (ss.map SStmt.erase).foldl (step1Stmt fixedNames fixedOut) (step1Init fixed) :=
  foldl_inv (step1StmtSp fixedNames fixedOut) (step1Stmt fixedNames fixedOut) SStmt.erase (fun t h st => step1StmtSp_inv fixedNames fixedOut t h st) ss _ (inv1_init fixed)

/-! ### the diagnostics after the loop of step 1 -/

theorem assignedConstSp_erase (t : Step1Sp) (h : Inv1 t) :
    (assignedConstSp t).map DiagSp.erase =
      t.s.assigned.flatMap fun n => if t.s.constantsRaw.contains n then [(⟨.AssignedConstant, [n]⟩ : Diag)] else [] := by
  unfold assignedConstSp
  rw [← h.asg, ← h.consts]
  unfold AMap.keys
  generalize t.assignSpans = m
  induction m with
  | nil => rfl
  | cons p r ih =>
    simp only [List.flatMap_cons, List.map_append, List.map_cons, ih]
    congr 1
    rw [eraseVals_contains]
    by_cases hc : AMap.contains t.consts p.1 = true <;> simp [hc, erase_mk]

theorem flatMap_map_erase {α : Type} (l : List α) (f : α → List DiagSp) (g : α → List Diag)
    (h : ∀ a ∈ l, (f a).map DiagSp.erase = g a) : (l.flatMap f).map DiagSp.erase = l.flatMap g := by
  induction l with
  | nil => rfl
  | cons a r ih =>
    simp only [List.flatMap_cons, List.map_append]
    rw [h a (by simp), ih (fun b hb => h b (by simp [hb]))]

theorem constRefErrorsSp_erase (t : Step1Sp) (h : Inv1 t) :
    (constRefErrorsSp t).map DiagSp.erase = constRefErrors t.s := by
  unfold constRefErrorsSp constRefErrors
  rw [← h.consts]
  have hmap : ∀ (m : AMap PEx) (g : String × Ex → List Diag),
      (eraseVals m).flatMap g = m.flatMap fun p => g (p.1, p.2.erase) := by
    intro m g
    unfold eraseVals
    induction m with
    | nil => rfl
    | cons p r ih => simp only [List.map_cons, List.flatMap_cons, ih]
  rw [hmap]
  apply flatMap_map_erase
  intro p _
  apply flatMap_map_erase
  intro inName _
  simp only [eraseVals_contains]
  by_cases h1 : (t.s.wires.contains inName && !AMap.contains t.consts inName) = true
  · simp only [h1, if_true]; exact map_refSpans_erase _ _ _
  · simp only [h1]
    by_cases h2 : (!AMap.contains t.consts inName) = true
    · simp only [h2, if_true]; exact map_refSpans_erase _ _ _
    · simp only [h2]; rfl

/-! ### step 2 -/

theorem resolveLoopSp_erase (fl : Flags) (exprs : AMap PEx) : ∀ (names : List String) (res : AMap WireValue) (errs : List DiagSp),
    resolveLoop fl (eraseVals exprs) names res (errs.map DiagSp.erase) =
      ((resolveLoopSp fl exprs names res errs).1, (resolveLoopSp fl exprs names res errs).2.map DiagSp.erase)
  | [], res, errs => rfl
  | name :: rest, res, errs => by
    unfold resolveLoop resolveLoopSp
    rw [eraseVals_get?]
    cases hg : AMap.get? exprs name with
    | none => simp [panicSp_erase]
    | some x =>
      simp only [Option.map_some]
      have hc := checkFixEvalSp_erase fl (AMap.toCtx (res.map fun p => (p.1, p.2.width))) (AMap.toEnv res) x
      rw [← hc]
      cases checkFixEvalSp fl (AMap.toCtx (res.map fun p => (p.1, p.2.width))) (AMap.toEnv res) x with
      | ok v => simp only [Except.mapError]; exact resolveLoopSp_erase fl exprs rest _ errs
      | error ds =>
        simp only [Except.mapError]
        have := resolveLoopSp_erase fl exprs rest res (errs ++ ds)
        rw [List.map_append] at this
        exact this

theorem resolveConstantsSp_erase (fl : Flags) (o : Orders) (exprs : AMap PEx) :
    eraseE (resolveConstantsSp fl o exprs) = resolveConstants fl o (eraseVals exprs) := by
  unfold resolveConstantsSp resolveConstants
  cases (constGraph (eraseVals exprs)).sort o with
  | ok sorted =>
    have h := resolveLoopSp_erase fl exprs sorted [] []
    simp only [List.map_nil] at h
    simp only [h]
    by_cases he : (resolveLoopSp fl exprs sorted [] []).2.isEmpty = true
    · have he2 : ((resolveLoopSp fl exprs sorted [] []).2.map DiagSp.erase).isEmpty = true := by
        simpa [List.isEmpty_iff] using he
      simp [he, he2, Except.mapError]
    · have he2 : ¬ ((resolveLoopSp fl exprs sorted [] []).2.map DiagSp.erase).isEmpty = true := by
        simpa [List.isEmpty_iff] using he
      simp [he, he2, Except.mapError]
  | cycle c => simp [Except.mapError, erase_mk]
  | panic => simp [Except.mapError, panicSp_erase]

end Parser
