#!/usr/bin/env python3
"""Writes lean/Hcl/Tie/Pins<Group>.lean from the current /repo sources: one `rfl` theorem per pinned function text
(see PINS in extract.py).  Run by hand after a change of /repo has been reviewed against the model; never run by ./check."""
import os
import re

HERE = os.path.dirname(os.path.abspath(__file__))
src = open(os.path.join(HERE, "extract.py")).read().replace("\nmain()\n", "\n")
ns = {"__file__": os.path.join(HERE, "extract.py")}
exec(compile(src, "extract", "exec"), ns)
out = []
ns["extract_pins"](out)
values = {}
for line in out:
    m = re.match(r"def (\w+) : String := (.*)$", line, re.S)
    values[m.group(1)] = m.group(2)
groups = {}
for name, group, path, header in ns["PINS"]:
    groups.setdefault(group, []).append((name, path, header))
for group, pins in groups.items():
    lines = ["import Hcl.Generated", "",
             "/-! Text pins (written by tools/mkpins.py): the comment-free, whitespace-normalised bodies of functions that the",
             "    hand-written model transcribes, as they were when the model was last validated against them.  An edit of one",
             "    of these functions makes the `rfl` below fail; the check then looks for an input on which model and code",
             "    differ, and reports the property as no longer shown to hold when it finds none. -/", "",
             "namespace Tie.Pins" + group, ""]
    for name, path, header in pins:
        assert "UNRECOGNISED" not in values[name], name
        lines.append("/-- `%s`, %s -/" % (header.replace("re:", "").replace("\\", ""), path))
        lines.append("theorem %s : Generated.%s = (%s : String) := by rfl" % (name, name, values[name]))
        lines.append("")
    lines.append("end Tie.Pins" + group)
    open(os.path.join(HERE, "..", "lean", "Hcl", "Tie", "Pins%s.lean" % group), "w", encoding="utf-8").write("\n".join(lines) + "\n")
    print("Pins%s: %d pins" % (group, len(pins)))
