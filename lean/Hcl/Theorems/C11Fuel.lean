import Hcl.Proofs.ParseFuel
import Hcl.Proofs.ParseSpans
open Parser Lexer

/-!
# C11 / C13 — the expression parser model never gives up for lack of fuel

The parser model (Hcl/Model/Parser.lean) is written with a fuel argument so that it is a total function; `parseExpr`
hands it `14 * (number of tokens) + 40`.  These theorems show that the bound is never what makes a parse fail: a parse
that succeeds with any amount of fuel succeeds, with the same tree and spans, with that amount.
-/

/-- more fuel never changes a result -/
theorem C11_parser_fuel_monotone (f g k : Nat) (ts : Toks) (r : PEx × Nat × Nat × Toks) (hfg : f ≤ g)
    (h : parseTier f k ts = some r) : parseTier g k ts = some r :=
  Parser.parseTier_fuel_mono f g k ts r hfg h

/-- whatever fuel parses a token list, the fuel `parseExpr` uses parses it to the same result -/
theorem C11_parser_fuel_enough (g : Nat) (ts : Toks) (r : PEx × Nat × Nat × Toks) (h : parseTier g 0 ts = some r) :
    parseTier (14 * ts.length + 40) 0 ts = some r :=
  Parser.parseTier_fuel_enough g ts r h

/-- so `parseExpr` accepts every text whose tokens can be parsed completely at all -/
theorem C11_parser_fuel_independent (cls : CharCls) (text : List Char) (ts : Toks) (g : Nat) (x : PEx) (s e : Nat)
    (hts : tokensOf (lex cls text) = some ts) (h : parseTier g 0 ts = some (x, s, e, [])) :
    parseExpr cls text = some x :=
  Parser.parseExpr_fuel_independent cls text ts g x s e hts h

#print axioms C11_parser_fuel_independent
