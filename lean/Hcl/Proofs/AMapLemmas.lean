import Hcl.Model.Program

/-! Association-list facts. -/

namespace AMap

theorem contains_iff_lookup {α} (m : AMap α) (k : String) : m.contains k = true ↔ ∃ v, m.lookup k = some v := by
  induction m with
  | nil => simp [contains]
  | cons p rest ih =>
    obtain ⟨a, b⟩ := p
    simp only [contains, List.any_cons, Bool.or_eq_true, List.lookup] at ih ⊢
    by_cases h : k = a
    · subst h; simp
    · have h' : (a == k) = false := by simpa using fun e => h e.symm
      have h'' : (k == a) = false := by simpa using h
      simp only [h', h'', Bool.false_eq_true, false_or]
      exact ih

theorem lookup_map_replace {α} (m : AMap α) (k : String) (v : α) (n : String) :
    (m.map (fun p => if p.1 == k then (k, v) else p)).lookup n =
      if n = k then (if m.contains k then some v else none) else m.lookup n := by
  induction m with
  | nil => simp [contains]
  | cons p rest ih =>
    obtain ⟨a, b⟩ := p
    simp only [List.map_cons, contains, List.any_cons] at ih ⊢
    by_cases hak : a = k
    · subst hak
      simp only [beq_self_eq_true, ↓reduceIte, List.lookup, Bool.true_or]
      by_cases hn : n = a
      · subst hn; simp
      · have : (n == a) = false := by simpa using hn
        simp only [this, hn, ↓reduceIte]
        rw [ih]; simp [hn]
    · have hak' : (a == k) = false := by simpa using hak
      simp only [hak', Bool.false_eq_true, ↓reduceIte, List.lookup, Bool.false_or]
      by_cases hn : n = a
      · subst hn
        have : n ≠ k := hak
        simp [this]
      · have : (n == a) = false := by simpa using hn
        simp only [this]
        exact ih

theorem lookup_append_single {α} (m : AMap α) (k : String) (v : α) (n : String) :
    (m ++ [(k, v)]).lookup n = match m.lookup n with
      | some x => some x
      | none => if n = k then some v else none := by
  induction m with
  | nil => simp [List.lookup]; split <;> simp_all
  | cons p rest ih =>
    obtain ⟨a, b⟩ := p
    simp only [List.cons_append, List.lookup]
    by_cases hn : n = a
    · subst hn; simp
    · have : (n == a) = false := by simpa using hn
      simp only [this]; exact ih

/-- lookup after `insert` -/
theorem lookup_insert {α} (m : AMap α) (k : String) (v : α) (n : String) :
    (m.insert k v).lookup n = if n = k then some v else m.lookup n := by
  unfold insert
  by_cases hc : m.contains k = true
  · simp only [hc, ↓reduceIte]
    rw [lookup_map_replace]
    simp [hc]
  · simp only [hc, Bool.false_eq_true, ↓reduceIte]
    rw [lookup_append_single]
    by_cases hn : n = k
    · subst hn
      have : m.lookup n = none := by
        cases h : m.lookup n with
        | none => rfl
        | some x => exact absurd ((contains_iff_lookup m n).mpr ⟨x, h⟩) hc
      simp [this]
    · simp only [hn, ↓reduceIte]
      cases m.lookup n <;> rfl

theorem toEnv_insert (m : AMap WireValue) (k : String) (v : WireValue) (n : String) :
    (m.insert k v).toEnv n = if n = k then some v else m.toEnv n := lookup_insert m k v n

theorem get?_eq_toEnv (m : AMap WireValue) (n : String) : m.get? n = m.toEnv n := rfl

theorem contains_eq_isSome {α} (m : AMap α) (k : String) : m.contains k = (m.lookup k).isSome := by
  cases h : m.lookup k with
  | some v => simpa using (contains_iff_lookup m k).mpr ⟨v, h⟩
  | none =>
    cases hc : m.contains k with
    | false => rfl
    | true =>
      obtain ⟨v, hv⟩ := (contains_iff_lookup m k).mp hc
      rw [h] at hv; cases hv

theorem contains_insert {α} (m : AMap α) (k : String) (v : α) (n : String) :
    (m.insert k v).contains n = (m.contains n || n == k) := by
  rw [contains_eq_isSome, contains_eq_isSome, lookup_insert]
  by_cases h : n = k
  · simp [h]
  · have : (n == k) = false := by simpa using h
    simp [h, this]

end AMap

namespace AMap

theorem contains_iff_mem_keys {α} (m : AMap α) (k : String) : m.contains k = true ↔ k ∈ m.keys := by
  unfold contains keys
  rw [List.any_eq_true, List.mem_map]
  constructor
  · rintro ⟨p, hp, he⟩; exact ⟨p, hp, by simpa using he⟩
  · rintro ⟨p, hp, he⟩; exact ⟨p, hp, by simpa using he⟩

theorem keys_insert {α} (m : AMap α) (k : String) (v : α) :
    (m.insert k v).keys = if m.contains k then m.keys else m.keys ++ [k] := by
  unfold insert keys
  by_cases hc : m.contains k = true
  · simp only [hc, if_true, List.map_map]
    apply List.map_congr_left
    intro p _
    simp only [Function.comp]
    by_cases h : (p.1 == k) = true
    · simp only [h, if_true]; exact (by simpa using h : p.1 = k).symm
    · simp only [h]; rfl
  · simp only [hc]
    simp

theorem keys_insert_nodup {α} (m : AMap α) (k : String) (v : α) (h : m.keys.Nodup) : (m.insert k v).keys.Nodup := by
  rw [keys_insert]
  by_cases hc : m.contains k = true
  · simp only [hc, if_true]; exact h
  · have hc' : m.contains k = false := by simpa using hc
    simp only [hc', Bool.false_eq_true, if_false]
    have hk : k ∉ m.keys := fun hm => hc ((contains_iff_mem_keys m k).mpr hm)
    rw [List.nodup_append]
    refine ⟨h, by simp, ?_⟩
    intro a ha b hb
    simp at hb; subst hb
    intro e; subst e; exact hk ha

theorem mem_keys_insert {α} (m : AMap α) (k : String) (v : α) (n : String) :
    n ∈ (m.insert k v).keys ↔ n ∈ m.keys ∨ n = k := by
  rw [← contains_iff_mem_keys, contains_insert, ← contains_iff_mem_keys]
  simp

theorem mem_of_get? {α} (m : AMap α) (k : String) (v : α) (h : m.get? k = some v) : (k, v) ∈ m := by
  unfold get? at h
  induction m with
  | nil => simp [List.lookup] at h
  | cons p rest ih =>
    obtain ⟨a, b⟩ := p
    simp only [List.lookup] at h
    by_cases hk : k = a
    · subst hk; simp at h; subst h; exact List.mem_cons_self
    · have : (k == a) = false := by simpa using hk
      simp only [this] at h
      exact List.mem_cons_of_mem _ (ih h)

theorem get?_of_mem_nodup {α} (m : AMap α) (k : String) (v : α) (hn : m.keys.Nodup) (h : (k, v) ∈ m) : m.get? k = some v := by
  unfold get?
  induction m with
  | nil => simp at h
  | cons p rest ih =>
    obtain ⟨a, b⟩ := p
    simp only [keys, List.map_cons, List.nodup_cons] at hn
    simp only [List.lookup]
    rcases List.mem_cons.mp h with h1 | h1
    · cases h1; simp
    · have hk : k ≠ a := by
        intro e; subst e
        exact hn.1 (List.mem_map.mpr ⟨(k, v), h1, rfl⟩)
      have : (k == a) = false := by simpa using hk
      simp only [this]
      exact ih hn.2 h1

theorem get?_isSome_iff_contains {α} (m : AMap α) (k : String) : (m.get? k).isSome = m.contains k := by
  rw [contains_eq_isSome]; rfl

end AMap

namespace AMap

theorem mem_insert {α} (m : AMap α) (k : String) (v : α) (p : String × α) (h : p ∈ m.insert k v) : p ∈ m ∨ p = (k, v) := by
  unfold insert at h
  split at h
  · obtain ⟨q, hq, rfl⟩ := List.mem_map.mp h
    by_cases hk : (q.1 == k) = true
    · simp [hk]
    · simp only [hk]; exact Or.inl hq
  · rcases List.mem_append.mp h with h1 | h1
    · exact Or.inl h1
    · simp at h1; exact Or.inr h1

theorem get?_insert {α} (m : AMap α) (k : String) (v : α) (n : String) :
    (m.insert k v).get? n = if n = k then some v else m.get? n := lookup_insert m k v n

theorem get?_insert_self {α} (m : AMap α) (k : String) (v : α) : (m.insert k v).get? k = some v := by
  rw [get?_insert]; simp

theorem get?_insert_ne {α} (m : AMap α) (k : String) (v : α) (n : String) (h : n ≠ k) : (m.insert k v).get? n = m.get? n := by
  rw [get?_insert]; simp [h]

end AMap

/-! ### the canonical form of the resolved constants -/

theorem canonConsts_get? (exprs : AMap Ex) (res : AMap WireValue) (k : String) :
    (canonConsts exprs res).get? k = if exprs.contains k then res.get? k else none := by
  unfold canonConsts AMap.get? AMap.contains
  induction exprs with
  | nil => simp
  | cons p rest ih =>
    rw [List.filterMap_cons, List.any_cons]
    cases hr : List.lookup p.1 res with
    | none =>
      simp only [AMap.get?, hr, Option.map_none]
      rw [ih]
      by_cases hk : p.1 = k
      · subst hk; simp [hr]
      · have : (p.1 == k) = false := by simpa using hk
        rw [this, Bool.false_or]
    | some v =>
      simp only [AMap.get?, hr, Option.map_some]
      by_cases hk : p.1 = k
      · subst hk
        simp [List.lookup_cons, hr]
      · have h1 : (p.1 == k) = false := by simpa using hk
        have h2 : (k == p.1) = false := by simpa using (fun h => hk h.symm)
        rw [List.lookup_cons, h2, h1, Bool.false_or]
        exact ih

/-- the canonical form is determined by the map's content alone -/
theorem canonConsts_ext (exprs : AMap Ex) (r₁ r₂ : AMap WireValue) (h : ∀ k ∈ exprs.keys, r₁.get? k = r₂.get? k) :
    canonConsts exprs r₁ = canonConsts exprs r₂ := by
  unfold canonConsts
  induction exprs with
  | nil => rfl
  | cons p rest ih =>
    rw [List.filterMap_cons, List.filterMap_cons, h p.1 (by simp [AMap.keys]),
      ih (fun k hk => h k (by simp only [AMap.keys, List.map_cons, List.mem_cons]; exact Or.inr hk))]
