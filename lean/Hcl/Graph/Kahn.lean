import Hcl.Graph.Dfs

/-! Model of the Kahn part of `Graph::topological_sort` (program.rs). -/

structure KGraph where
  nodes : List Node
  succ : Node → List Node      -- `edges[u]` in iteration order
  preds : Node → List Node     -- `edges_inverted[v]`
  numEdges : Nat

structure KState where
  queue : List Node                 -- head = next `pop_back`
  count : Node → Nat                -- num_in_unvisited
  visited : List (Node × Node)
  result : List Node                -- in output order

inductive KOut where
  | ok (order : List Node)
  | cyclic                          -- visited.len() != num_edges : goes on to find_cycle
  | panic                           -- usize underflow in `... - 1`
  | fuel
  deriving Repr

def cset (c : Node → Nat) (k : Node) (v : Nat) : Node → Nat := fun x => if x = k then v else c x

/-- the inner `for out_node in out_edges` loop -/
def relax (cur : Node) : List Node → KState → Option KState
  | [], s => some s
  | o :: os, s =>
    if (cur, o) ∈ s.visited then relax cur os s else
    if s.count o = 0 then none else
    let n := s.count o - 1
    let s' : KState := { s with visited := (cur, o) :: s.visited, count := cset s.count o n,
                                queue := if n = 0 then s.queue ++ [o] else s.queue }
    relax cur os s'

def kloop (g : KGraph) : Nat → KState → KOut
  | 0, _ => .fuel
  | fuel+1, s =>
    match s.queue with
    | [] => if s.visited.length ≠ g.numEdges then .cyclic else .ok s.result
    | cur :: q =>
      match relax cur (g.succ cur) { s with queue := q, result := s.result ++ [cur] } with
      | none => .panic
      | some s' => kloop g fuel s'

def kinit (g : KGraph) : KState :=
  { queue := g.nodes.filter (fun n => (g.preds n).isEmpty),
    count := fun n => (g.preds n).length,
    visited := [], result := [] }

def kahn (g : KGraph) : KOut := kloop g (g.nodes.length + 1) (kinit g)

