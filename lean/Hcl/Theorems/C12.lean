import Hcl.Theorems.C01
import Hcl.Theorems.C10
import Hcl.Proofs.ProgramVerdict
import Hcl.Proofs.RunEq
import Hcl.Proofs.DiagsVerdict

/-!
# C12 — results are deterministic: same inputs, same output, on every run

The only source of run-to-run variation is the iteration order of the randomly seeded hash tables.
In the model those orders are explicit data (`KGraph`/`Graph` node and successor lists, the order
of the action list), and the theorems quantify over all of them.
-/

/-- **C12, rejection for a loop does not depend on the hash order.**  Two runs see the same dependency
    graph under different iteration orders (`kg₁/dg₁` and `kg₂/dg₂`): either both report a loop or
    both produce a schedule.  (Which loop is shown may differ.) -/
theorem C12_loop_verdict_order_independent (kg₁ kg₂ : KGraph) (dg₁ dg₂ : Graph)
    (wf₁ : KWF kg₁) (wf₂ : KWF kg₂) (s₁ : SameGraph kg₁ dg₁) (s₂ : SameGraph kg₂ dg₂)
    (hsame : ∀ u v, v ∈ dg₁.succ u ↔ v ∈ dg₂.succ u) :
    (∃ c, topologicalSort kg₁ dg₁ = .cycle c) ↔ (∃ c, topologicalSort kg₂ dg₂ = .cycle c) :=
  topologicalSort_verdict kg₁ kg₂ dg₁ dg₂ wf₁ wf₂ s₁ s₂ hsame

/-- **C12, values do not depend on the evaluation order.**  Any two valid schedules of the same set
    of actions (what two runs with different hash seeds produce for one program) leave every wire with
    the same value at the end of the cycle; with `C07_soundness`/`C03_edge` (which do not mention the
    order) the whole run, and hence everything printed from the final state, coincides. -/
theorem C12_values_schedule_independent (fl : Flags) (pre₁ pre₂ fin₁ fin₂ : List Action) (s t₁ t₂ : State) (base : List String)
    (hv₁ : ValidFrom [] pre₁) (hv₂ : ValidFrom [] pre₂) (hsame : ∀ a, a ∈ pre₁ ↔ a ∈ pre₂)
    (hre : ReadsEarlier base pre₁) (hbase : ∀ x ∈ base, x ∉ pre₁.map Action.out)
    (hf₁ : ∀ a ∈ fin₁, a.isPure = false) (hf₂ : ∀ a ∈ fin₂, a.isPure = false)
    (h₁ : execActions fl (pre₁ ++ fin₁) s = .ok t₁) (h₂ : execActions fl (pre₂ ++ fin₂) s = .ok t₂) :
    ∀ x, t₁.values.toEnv x = t₂.values.toEnv x :=
  C01_order_independent fl pre₁ pre₂ fin₁ fin₂ s t₁ t₂ base hv₁ hv₂ hsame hre hbase hf₁ hf₂ h₁ h₂

/-! ### for every program -/

/-- **C12, the verdict**: whether `Program::new` accepts a file does not depend on the iteration orders of its hash
    tables (`o₁`, `o₂`: any permutations at every point where the code iterates over a `HashMap`/`HashSet`). -/
theorem C12_verdict_order_independent (fl : Flags) (cls : CharClass) (o₁ o₂ : Orders) (stmts : List Stmt)
    (ho₁ : OrdersOK o₁) (ho₂ : OrdersOK o₂) (hwf : StmtsWF stmts) :
    (∃ p₁, Program.new fl cls o₁ y86FixedFunctions stmts = .ok p₁) ↔
    (∃ p₂, Program.new fl cls o₂ y86FixedFunctions stmts = .ok p₂) :=
  ⟨fun ⟨p₁, h⟩ => Program_new_verdict fl cls o₁ o₂ stmts p₁ ho₁ ho₂ hwf h,
   fun ⟨p₂, h⟩ => Program_new_verdict fl cls o₂ o₁ stmts p₂ ho₂ ho₁ hwf h⟩

/-- the same, read as the property states it: a rejected program is rejected on every run -/
theorem C12_rejected_on_every_run (fl : Flags) (cls : CharClass) (o₁ o₂ : Orders) (stmts : List Stmt)
    (ho₁ : OrdersOK o₁) (ho₂ : OrdersOK o₂) (hwf : StmtsWF stmts) (ds₁ : List Diag)
    (h : Program.new fl cls o₁ y86FixedFunctions stmts = .error ds₁) :
    ∃ ds₂, Program.new fl cls o₂ y86FixedFunctions stmts = .error ds₂ := by
  cases h₂ : Program.new fl cls o₂ y86FixedFunctions stmts with
  | error ds₂ => exact ⟨ds₂, rfl⟩
  | ok p₂ =>
    obtain ⟨p₁, hp₁⟩ := Program_new_verdict fl cls o₂ o₁ stmts p₂ ho₂ ho₁ hwf h₂
    rw [h] at hp₁; cases hp₁

/-- **C12, the diagnostics**: a rejected program gets, under any two iteration orders, lists of diagnostics that hold
    the same entries (kind and names, with multiplicity) in some order -- or both report one dependency loop, where
    which loop is shown may differ. -/
theorem C12_diagnostics_order_independent (fl : Flags) (cls : CharClass) (o₁ o₂ : Orders) (stmts : List Stmt)
    (ds₁ ds₂ : List Diag) (ho₁ : OrdersOK o₁) (ho₂ : OrdersOK o₂) (hwf : StmtsWF stmts)
    (h₁ : Program.new fl cls o₁ y86FixedFunctions stmts = .error ds₁)
    (h₂ : Program.new fl cls o₂ y86FixedFunctions stmts = .error ds₂) :
    (∃ c₁ c₂, ds₁ = [⟨.WireLoop, c₁⟩] ∧ ds₂ = [⟨.WireLoop, c₂⟩]) ∨ ds₁.Perm ds₂ :=
  Program_new_errors_order_independent fl cls o₁ o₂ stmts ds₁ ds₂ ho₁ ho₂ hwf h₁ h₂

/-- **C12, the constants**: the values of the named constants do not depend on the order in which the sorter
    hands them to `resolve_constants`. -/
theorem C12_constants_order_independent (fl : Flags) (o₁ o₂ : Orders) (exprs : AMap Ex) (ho₁ : OrdersOK o₁) (ho₂ : OrdersOK o₂)
    (hk : exprs.keys.Nodup) (hrefs : ∀ p ∈ exprs, ∀ r ∈ refs p.2, exprs.contains r = true)
    (c : AMap WireValue) (h : resolveConstants fl o₁ exprs = .ok c) : resolveConstants fl o₂ exprs = .ok c :=
  resolveConstants_order_independent fl o₁ o₂ exprs ho₁ ho₂ hk hrefs c h

/-- **C12, programs**: two runs of `Program::new` on the same statements under any two iteration orders of the hash
    tables that accept (by `C12_verdict_order_independent`: one does iff the other does) produce the same constants, the
    same register banks, and the same *set* of value-writing actions -- each list a valid schedule -- followed by the same
    list of state-changing actions. -/
theorem C12_accepted (fl : Flags) (cls : CharClass) (o₁ o₂ : Orders) (stmts : List Stmt) (p₁ p₂ : Program)
    (ho₁ : OrdersOK o₁) (ho₂ : OrdersOK o₂) (hwf : StmtsWF stmts)
    (h₁ : Program.new fl cls o₁ y86FixedFunctions stmts = .ok p₁)
    (h₂ : Program.new fl cls o₂ y86FixedFunctions stmts = .ok p₂) :
    p₁.constants = p₂.constants ∧ p₁.defaulted = p₂.defaulted ∧ p₁.wireTypes = p₂.wireTypes ∧ SameActions p₁ p₂ := by
  have hcr := Program_new_constRefs fl cls o₁ stmts p₁ h₁
  obtain ⟨s1, c1, s3, k1, hyp1, _, hact1, hpc1, hpb1, hac1, e1, ec1, e3, e4, ed1, ew1⟩ := Program_new_decompose' fl cls o₁ stmts p₁ hwf h₁
  obtain ⟨s1', c2, s3', k2, hyp2, _, hact2, hpc2, hpb2, _, e1', ec2, e3', e4', ed2, ew2⟩ := Program_new_decompose' fl cls o₂ stmts p₂ hwf h₂
  have hs1 : s1 = s1' := by rw [e1, e1']
  subst hs1
  have hc : c1 = c2 := by
    rw [← e1] at hcr
    have := resolveConstants_order_independent fl o₁ o₂ s1.constantsRaw ho₁ ho₂ hyp1.s1inv.cKeys (constRefs_of_nil s1 hcr) c1 ec1
    rw [ec2] at this
    exact (Except.ok.inj this).symm
  subst hc
  have hs3 : s3 = s3' := by rw [e3, e3']
  subst hs3
  have hk : k1 = k2 := by rw [e4, e4']
  subst hk
  refine ⟨by rw [hpc1, hpc2], by rw [ed1, ed2], by rw [ew1, ew2], by rw [hpb1, hpb2], ?_⟩
  have hpure : ∀ f ∈ y86FixedFunctions, f.outWire.isSome = f.action.isPure := by
    intro f hf
    have := List.all_eq_true.mp y86Fixed_pure f hf
    simpa using this
  obtain ⟨pre₁, pre₂, fin, ha1, ha2, hsame, hp₁, hp₂, hpf⟩ := assignmentsToActions_order_independent fl o₁ o₂ s1.assignments
    (finalWires s1 c1 s3) k1 y86FixedFunctions s1.declared c1 p₁.actions p₂.actions ho₁ ho₂ y86Fixed_table hyp1.s1inv.aKeys
    hpure hact1 hact2
  -- both action lists split into a valid schedule and the state-changing actions: the same split
  obtain ⟨q₁, f₁, kn₁, hsp₁, hv₁, hf₁, hsch₁, hkn₁, _⟩ := Program_new_valid fl cls o₁ stmts p₁ ho₁ hwf h₁
  obtain ⟨q₂, f₂, kn₂, hsp₂, hv₂, hf₂, _, _, _⟩ := Program_new_valid fl cls o₂ stmts p₂ ho₂ hwf h₂
  obtain ⟨hq₁, _⟩ := split_unique Action.isPure q₁ f₁ pre₁ fin (by rw [← hsp₁, ha1]) (validFrom_pure q₁ [] hv₁) hf₁ hp₁ hpf
  obtain ⟨hq₂, _⟩ := split_unique Action.isPure q₂ f₂ pre₂ fin (by rw [← hsp₂, ha2]) (validFrom_pure q₂ [] hv₂) hf₂ hp₂ hpf
  subst hq₁ hq₂
  exact ⟨q₁, q₂, fin, kn₁, ha1, ha2, hv₁, hv₂, hsame,
    sched_readsEarlier q₁ kn₁ kn₁ (fun _ hn => hn) hsch₁ (validFrom_pure q₁ [] hv₁), hkn₁, hpf⟩

/-- **C12, every cycle**: started in like states (the same registers, memory and wire values), a cycle of either build
    ends in like states -/
theorem C12_cycle (fl : Flags) (cls : CharClass) (o₁ o₂ : Orders) (stmts : List Stmt) (p₁ p₂ : Program)
    (ho₁ : OrdersOK o₁) (ho₂ : OrdersOK o₂) (hwf : StmtsWF stmts)
    (h₁ : Program.new fl cls o₁ y86FixedFunctions stmts = .ok p₁)
    (h₂ : Program.new fl cls o₂ y86FixedFunctions stmts = .ok p₂)
    (s₁ s₂ t₁ t₂ : State) (h : StateEq s₁ s₂) (hs₁ : stepCycle fl p₁ s₁ = .ok t₁) (hs₂ : stepCycle fl p₂ s₂ = .ok t₂) :
    StateEq t₁ t₂ :=
  stepCycle_stateEq fl p₁ p₂ (C12_accepted fl cls o₁ o₂ stmts p₁ p₂ ho₁ ho₂ hwf h₁ h₂).2.2.2 s₁ s₂ t₁ t₂ h hs₁ hs₂

/-- **C12, whole runs**: the two builds of one file start from the same initial state on the same memory image, stop
    after the same number of cycles, and end with the same registers, memory, status and value on every wire -- so
    everything `dump_y86` prints from the final state (and each cycle's values under `-d`) coincides. -/
theorem C12_run (fl : Flags) (cls : CharClass) (o₁ o₂ : Orders) (stmts : List Stmt) (p₁ p₂ : Program)
    (ho₁ : OrdersOK o₁) (ho₂ : OrdersOK o₂) (hwf : StmtsWF stmts)
    (h₁ : Program.new fl cls o₁ y86FixedFunctions stmts = .ok p₁)
    (h₂ : Program.new fl cls o₂ y86FixedFunctions stmts = .ok p₂)
    (mem : Mem) (timeout fuel : Nat) (s₁ s₂ t₁ t₂ : State)
    (hi₁ : State.init p₁ mem = .ok s₁) (hi₂ : State.init p₂ mem = .ok s₂)
    (hr₁ : runLoop fl p₁ timeout fuel s₁ = some (.ok t₁)) (hr₂ : runLoop fl p₂ timeout fuel s₂ = some (.ok t₂)) :
    s₁ = s₂ ∧ StateEq t₁ t₂ := by
  obtain ⟨hc, _, _, hsa⟩ := C12_accepted fl cls o₁ o₂ stmts p₁ p₂ ho₁ ho₂ hwf h₁ h₂
  have hinit : s₁ = s₂ := by
    unfold State.init Program.initialValues at hi₁ hi₂
    rw [hc, hsa.banks] at hi₁
    rw [hi₁] at hi₂
    exact Except.ok.inj hi₂
  subst hinit
  exact ⟨rfl, runLoop_stateEq fl p₁ p₂ hsa timeout fuel s₁ s₁ t₁ t₂ (StateEq.refl s₁) hr₁ hr₂⟩

/-- like states print alike: the banner, the cycle count and the status code of the final report -/
theorem C12_report (s₁ s₂ : State) (timeout : Nat) (h : StateEq s₁ s₂) :
    banner s₁ timeout = banner s₂ timeout ∧ reportLines s₁ timeout = reportLines s₂ timeout := by
  have hst : ∀ d, statusOr s₁ d = statusOr s₂ d := by
    intro d
    unfold statusOr
    show (match s₁.values.toEnv "Stat" with | some v => v.bits % 256 | none => d) =
      (match s₂.values.toEnv "Stat" with | some v => v.bits % 256 | none => d)
    rw [h.vals]
  unfold banner reportLines halted timedOut
  rw [isDone_stateEq s₁ s₂ timeout h, hst, hst, h.cycle]
  exact ⟨rfl, rfl⟩

/-! ### non-vacuity

The hypotheses of the theorems above are met by different iteration orders on a real program: the identity and the
reversal both satisfy `OrdersOK`, and (a test, by evaluation) a program with two dependent constants declared out of
order, a register bank and dependent wires is accepted under both, with differently ordered action lists. -/

def revOrders : Orders := ⟨List.reverse, fun _ => List.reverse, List.reverse, fun _ => List.reverse⟩
theorem ordersOK_id : OrdersOK {} := ⟨fun l => .refl l, fun _ l => .refl l, fun l => .refl l, fun _ l => .refl l⟩
theorem ordersOK_rev : OrdersOK revOrders :=
  ⟨fun l => List.reverse_perm l, fun _ l => List.reverse_perm l, fun l => List.reverse_perm l, fun _ l => List.reverse_perm l⟩

def exProgram : List Stmt := [
  .consts [⟨"B", .bin .add (.wire "A") (.const ⟨1, .unlimited⟩)⟩, ⟨"A", .const ⟨2, .unlimited⟩⟩],
  .bank ⟨"pP", [⟨"pc", .bits 64, .const ⟨0, .unlimited⟩⟩]⟩,
  .wires [⟨"x", .bits 64⟩, ⟨"y", .bits 64⟩, ⟨"z", .bits 64⟩],
  .assigns [⟨["y"], .bin .add (.wire "x") (.wire "B")⟩, ⟨["x"], .wire "P_pc"⟩, ⟨["z"], .wire "P_pc"⟩, ⟨["p_pc"], .wire "y"⟩,
            ⟨["pc"], .wire "z"⟩, ⟨["Stat"], .const ⟨1, .unlimited⟩⟩]]

def actionsOf (o : Orders) : Option (List Action) :=
  match Program.new {} {} o y86FixedFunctions exProgram with
  | .ok p => some p.actions
  | .error _ => none

#guard (actionsOf {}).isSome && (actionsOf revOrders).isSome
#guard (actionsOf {}).map (·.map Action.out) != (actionsOf revOrders).map (·.map Action.out)
#guard (match Program.new {} {} {} y86FixedFunctions exProgram, Program.new {} {} revOrders y86FixedFunctions exProgram with
  | .ok p₁, .ok p₂ => p₁.constants.keys == p₂.constants.keys && p₁.constants.keys == ["B", "A"]
  | _, _ => false)

example : StmtsWF exProgram := by
  intro s hs
  simp only [exProgram, List.mem_cons, List.not_mem_nil, or_false] at hs
  rcases hs with rfl | rfl | rfl | rfl
  · intro d hd
    simp only [List.mem_cons, List.not_mem_nil, or_false] at hd
    rcases hd with rfl | rfl <;> decide
  · intro r hr
    simp only [List.mem_cons, List.not_mem_nil, or_false] at hr
    subst hr
    exact ⟨by simp [Width.ok], by decide⟩
  · intro d hd
    simp only [List.mem_cons, List.not_mem_nil, or_false] at hd
    rcases hd with rfl | rfl | rfl <;> simp [Width.ok]
  · intro a ha
    simp only [List.mem_cons, List.not_mem_nil, or_false] at ha
    rcases ha with rfl | rfl | rfl | rfl | rfl | rfl <;> decide
