import Hcl.Model.Lexer

/-! The lexer's loop consumes at least one character per turn, so it ends within `length + 1` turns:
    the model's fuel never runs out. -/

namespace Lexer

theorem spanWhile_length (f : Char → Bool) (l a b : List Char) (h : spanWhile f l = (a, b)) : b.length ≤ l.length := by
  induction l generalizing a b with
  | nil => simp [spanWhile] at h; obtain ⟨_, rfl⟩ := h; simp
  | cons c rest ih =>
    unfold spanWhile at h
    by_cases hc : f c = true
    · simp only [hc, if_true] at h
      cases hsp : spanWhile f rest with
      | mk a' b' =>
        rw [hsp] at h
        simp only [Prod.mk.injEq] at h
        obtain ⟨_, rfl⟩ := h
        have := ih a' b' hsp
        simp only [List.length_cons]; omega
    · simp only [hc] at h
      simp only [Bool.false_eq_true, if_false, Prod.mk.injEq] at h
      obtain ⟨_, rfl⟩ := h
      exact Nat.le_refl _

theorem spanWhile_length_cons (f : Char → Bool) (c : Char) (rest a b : List Char) (hc : f c = true)
    (h : spanWhile f (c :: rest) = (a, b)) : b.length ≤ rest.length := by
  unfold spanWhile at h
  simp only [hc, if_true] at h
  cases hsp : spanWhile f rest with
  | mk a' b' =>
    rw [hsp] at h
    simp only [Prod.mk.injEq] at h
    obtain ⟨_, rfl⟩ := h
    exact spanWhile_length f rest a' b' hsp

theorem skipBlock_length (fuel : Nat) (cs after : List Char) (off off' : Nat)
    (h : skipBlock fuel cs off = some (after, off')) : after.length ≤ cs.length := by
  induction fuel generalizing cs off with
  | zero => simp [skipBlock] at h
  | succ fuel ih =>
    unfold skipBlock at h
    cases hsp : spanWhile (· != '*') cs with
    | mk skipped aft =>
      rw [hsp] at h
      have hl := spanWhile_length _ cs skipped aft hsp
      simp only at h
      cases aft with
      | nil => simp at h
      | cons st after2 =>
        simp only at h
        cases after2 with
        | nil =>
          simp only at h
          exact Nat.le_trans (ih _ _ h) (Nat.zero_le _)
        | cons c after3 =>
          by_cases hc : c = '/'
          · subst hc
            simp only [Option.some.injEq, Prod.mk.injEq] at h
            obtain ⟨rfl, _⟩ := h
            simp only [List.length_cons] at hl ⊢; omega
          · have h2 : skipBlock fuel (c :: after3) (off + sizeOf' skipped + 1) = some (after, off') := by
              split at h
              · rename_i heq
                simp only [List.cons.injEq] at heq
                exact absurd heq.1 hc
              · exact h
            have := ih _ _ h2
            simp only [List.length_cons] at hl this ⊢; omega

theorem handleConstant_length (i : Nat) (first : Char) (rest : List Char) (total : Nat) (x : Nat × Tok × Nat)
    (after : List Char) (off' : Nat) (hfirst : isDec first = true)
    (h : handleConstant i first rest total = .ok (x, after, off')) : after.length ≤ rest.length := by
  unfold handleConstant at h
  simp only at h
  cases rest with
  | nil => simp only [Except.ok.injEq, Prod.mk.injEq] at h; obtain ⟨_, rfl, _⟩ := h; exact Nat.le_refl _
  | cons c2 rest2 =>
    simp only at h
    split at h
    · -- hexadecimal
      cases rest2 with
      | nil => simp at h
      | cons hd tl =>
        simp only at h
        split at h
        · simp at h
        · cases hsp : spanWhile isHex (hd :: tl) with
          | mk digits aft =>
            rw [hsp] at h
            have hl := spanWhile_length _ _ _ _ hsp
            simp only at h
            split at h
            · simp only [Except.ok.injEq, Prod.mk.injEq] at h
              obtain ⟨_, rfl, _⟩ := h
              simp only [List.length_cons] at hl ⊢; omega
            · simp at h
    · split at h
      · -- binary
        cases rest2 with
        | nil => simp at h
        | cons hd tl =>
          simp only at h
          split at h
          · simp at h
          · cases hsp : spanWhile isBin (hd :: tl) with
            | mk digits aft =>
              rw [hsp] at h
              have hl := spanWhile_length _ _ _ _ hsp
              simp only at h
              repeat' split at h
              all_goals first
                | (simp at h; done)
                | (simp only [Except.ok.injEq, Prod.mk.injEq] at h
                   obtain ⟨_, rfl, _⟩ := h
                   simp only [List.length_cons] at hl ⊢; omega)
      · split at h
        · -- decimal
          cases hsp : spanWhile isDec (first :: c2 :: rest2) with
          | mk digits aft =>
            rw [hsp] at h
            have hl := spanWhile_length_cons _ _ _ _ _ hfirst hsp
            simp only at h
            split at h
            · simp only [Except.ok.injEq, Prod.mk.injEq] at h
              obtain ⟨_, rfl, _⟩ := h
              exact hl
            · simp at h
        · simp only [Except.ok.injEq, Prod.mk.injEq] at h
          obtain ⟨_, rfl, _⟩ := h
          exact Nat.le_refl _

def Clean (items : List Item) : Prop := Item.err .outOfFuel ∉ items

def Progress (cs : List Char) : Step → Prop
  | .stop items => Clean items
  | .more items cs' _ => Clean items ∧ cs'.length < cs.length

theorem clean_nil : Clean [] := by simp [Clean]
theorem clean_tok (s : Nat) (t : Tok) (e : Nat) : Clean [.tok s t e] := by simp [Clean]

theorem handleConstant_err (i : Nat) (first : Char) (rest : List Char) (total : Nat) (e : LexErr)
    (h : handleConstant i first rest total = .error e) : e ≠ .outOfFuel := by
  unfold handleConstant at h
  simp only at h
  intro he
  subst he
  cases rest with
  | nil => simp at h
  | cons c2 rest2 =>
    simp only at h
    split at h
    · cases rest2 with
      | nil => simp at h
      | cons hd tl =>
        simp only at h
        split at h
        · simp at h
        · cases hsp : spanWhile isHex (hd :: tl) with
          | mk digits aft =>
            rw [hsp] at h
            simp only at h
            split at h <;> simp at h
    · split at h
      · cases rest2 with
        | nil => simp at h
        | cons hd tl =>
          simp only at h
          split at h
          · simp at h
          · cases hsp : spanWhile isBin (hd :: tl) with
            | mk digits aft =>
              rw [hsp] at h
              simp only at h
              repeat' split at h
              all_goals simp at h
      · split at h
        · cases hsp : spanWhile isDec (first :: c2 :: rest2) with
          | mk digits aft =>
            rw [hsp] at h
            simp only at h
            split at h <;> simp at h
        · simp at h

theorem progress_simple (c : Char) (rest : List Char) (i next : Nat) (t : Tok) :
    Progress (c :: rest) (simpleStep rest i next t) := ⟨clean_tok _ _ _, by simp⟩

theorem progress_choose (c : Char) (rest : List Char) (i next : Nat) (dflt : Tok) (opts : List (Char × Tok)) :
    Progress (c :: rest) (chooseStep rest i next dflt opts) := by
  unfold chooseStep
  cases rest with
  | nil => exact ⟨clean_tok _ _ _, by simp⟩
  | cons d rest2 =>
    simp only
    split
    · exact ⟨clean_tok _ _ _, by simp; omega⟩
    · exact ⟨clean_tok _ _ _, by simp⟩

theorem progress_lineComment (c : Char) (rest : List Char) (next : Nat) :
    Progress (c :: rest) (lineCommentStep rest next) := by
  unfold lineCommentStep
  cases hsp : spanWhile (fun d => d != '\n' && d != '\r') rest with
  | mk skipped after =>
    have := spanWhile_length _ _ _ _ hsp
    exact ⟨clean_nil, by simp only [List.length_cons]; omega⟩

theorem progress_slash (c : Char) (rest : List Char) (i next : Nat) :
    Progress (c :: rest) (slashStep rest i next) := by
  unfold slashStep
  split
  · exact progress_lineComment _ _ _
  · split
    · rename_i heq
      have := skipBlock_length _ _ _ _ _ heq
      exact ⟨clean_nil, by simp only [List.length_cons] at this ⊢; omega⟩
    · simp [Progress, Clean]
  · exact progress_simple _ _ _ _ _

theorem progress_ite {cs : List Char} {p : Prop} [Decidable p] {a b : Step}
    (ha : Progress cs a) (hb : Progress cs b) : Progress cs (if p then a else b) := by
  split <;> assumption

theorem progress_dot (c : Char) (rest : List Char) (i next : Nat) :
    Progress (c :: rest) (match rest with
      | '.' :: rest2 => .more [.tok i .DotDot (i + 2)] rest2 (next + 1)
      | _ => .stop [.err (.lexical i)]) := by
  split
  · exact ⟨clean_tok _ _ _, by simp; omega⟩
  · simp [Progress, Clean]

theorem progress_punct (c : Char) (rest : List Char) (i next : Nat) :
    Progress (c :: rest) (punctStep c rest i next) := by
  unfold punctStep
  repeat' apply progress_ite
  all_goals first
    | exact progress_simple _ _ _ _ _
    | exact progress_choose _ _ _ _ _ _
    | exact progress_lineComment _ _ _
    | exact progress_slash _ _ _ _
    | exact progress_dot _ _ _ _
    | simp [Progress, Clean]

theorem lexStep_progress (cls : CharCls) (total : Nat) (cs : List Char) (off : Nat) :
    Progress cs (lexStep cls total cs off) := by
  unfold lexStep
  cases cs with
  | nil => exact clean_nil
  | cons c rest =>
    simp only
    split
    · exact ⟨clean_nil, by simp⟩
    · split
      · unfold identStep
        cases hsp : spanWhile (fun d => cls.isAlphanumeric d || d == '_') rest with
        | mk more after =>
          have := spanWhile_length _ _ _ _ hsp
          exact ⟨clean_tok _ _ _, by simp only [List.length_cons]; omega⟩
      · split
        · rename_i hdec
          unfold constantStep
          cases hc : handleConstant off c rest total with
          | error e =>
            have := handleConstant_err _ _ _ _ _ hc
            simp only [Progress, Clean, List.mem_singleton]
            intro h
            injection h with h
            exact this h.symm
          | ok r =>
            obtain ⟨⟨s, t, e⟩, after, off'⟩ := r
            have := handleConstant_length off c rest total _ after off' hdec hc
            exact ⟨clean_tok _ _ _, by simp only [List.length_cons]; omega⟩
        · exact progress_punct _ _ _ _

/-- **the lexer's loop ends**: with `length + 1` turns of fuel (or more) the out-of-fuel marker never appears -/
theorem lexAll_terminates (cls : CharCls) (total : Nat) :
    ∀ fuel (cs : List Char) (off : Nat), cs.length < fuel → Clean (lexAll cls total fuel cs off) := by
  intro fuel
  induction fuel with
  | zero => intro cs off h; omega
  | succ fuel ih =>
    intro cs off h
    unfold lexAll
    have hp := lexStep_progress cls total cs off
    cases hs : lexStep cls total cs off with
    | stop items => rw [hs] at hp; exact hp
    | more items cs' off' =>
      rw [hs] at hp
      obtain ⟨h1, h2⟩ := hp
      have := ih cs' off' (by omega)
      simp only [Clean, List.mem_append, not_or] at *
      exact ⟨h1, this⟩

theorem lex_terminates (cls : CharCls) (input : List Char) : Item.err .outOfFuel ∉ lex cls input :=
  lexAll_terminates cls _ _ _ _ (Nat.lt_succ_self _)

end Lexer
