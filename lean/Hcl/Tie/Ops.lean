import Hcl.Generated

/-! Tie between the tables extracted from /repo on this run (`Hcl/Generated.lean`) and the values the
    hand-written model was validated against.  A change of the source shows up as a failing `rfl` here. -/

namespace Tie.Ops

theorem strictnessConsts : Generated.strictnessConsts = ([("STRICT_WIDTHS_BINARY", "strict-wire-widths-binary"), ("STRICT_WIDTHS_BOOLEAN", "strict-boolean-ops"), ("REQUIRE_MUX_DEFAULT", "require-mux-default"), ("DISALLOW_MULTIPLE_MUX_DEFAULT", "disallow-multiple-mux-default"), ("DISALLOW_UNREACHABLE_OPTIONS", "disallow-unreachable-options")] : List (String × String)) := by rfl

theorem binopKind : Generated.binopKind = ([("LogicalAnd", "BooleanCombine"), ("LogicalOr", "BooleanCombine"), ("Equal", "BooleanFromEqualWidth"), ("LessEqual", "BooleanFromEqualWidth"), ("GreaterEqual", "BooleanFromEqualWidth"), ("Less", "BooleanFromEqualWidth"), ("Greater", "BooleanFromEqualWidth"), ("NotEqual", "BooleanFromEqualWidth"), ("Add", "EqualWidthWeak"), ("Sub", "EqualWidthWeak"), ("Mul", "EqualWidthWeak"), ("Div", "EqualWidthWeak"), ("_", "EqualWidth")] : List (String × String)) := by rfl

theorem applyRawArms : Generated.applyRawArms = ([("Add", "left.wrapping_add(right)"), ("Sub", "left.wrapping_sub(right)"), ("Mul", "left.wrapping_mul(right)"), ("Div", "left.wrapping_div(right)"), ("Or", "left | right"), ("Xor", "left ^ right"), ("And", "left & right"), ("Equal", "boolean_to_value(left == right)"), ("NotEqual", "boolean_to_value(left != right)"), ("LessEqual", "boolean_to_value(left <= right)"), ("GreaterEqual", "boolean_to_value(left >= right)"), ("Less", "boolean_to_value(left < right)"), ("Greater", "boolean_to_value(left > right)"), ("LogicalAnd", "boolean_to_value( left != 0 && right != 0 )"), ("LogicalOr", "boolean_to_value( left != 0 || right != 0 )"), ("LeftShift", "match ( left.wrapping_shl(right as u32), right >= 128 ) { (_, true) => 0, (x, false) => x, }"), ("RightShift", "match ( left.wrapping_shr(right as u32), right >= 128 ) { (_, true) => 0, (x, false) => x, }"), ("Error", "panic!(\"unreported parse error\")")] : List (String × String)) := by rfl

theorem binopApplyText : Generated.binopApplyText = ("if self == BinOpCode::Div && right.bits == 0 { return Err(Error::DivideByZero()); } let final_width = match self.kind() { BinOpKind::EqualWidth => match left.width.combine(right.width) { Some(width) => width, None => { return Err(Error::RuntimeMismatchedWidths()); }, }, BinOpKind::EqualWidthWeak => if STRICT_WIDTHS_BINARY { match left.width.combine(right.width) { Some(width) => width, None => return Err(Error::RuntimeMismatchedWidths()), } } else { left.width.max(right.width) }, BinOpKind::BooleanCombine | BinOpKind::BooleanFromEqualWidth => WireWidth::Bits(1), }; Ok(left.op(right, |l, r| self.apply_raw(l, r), final_width))" : String) := by rfl

theorem unopApplyText : Generated.unopApplyText = ("let new_value = match self { UnOpCode::Plus => value.bits, UnOpCode::Negate => (!value.bits).wrapping_add(1), UnOpCode::Complement => !value.bits, UnOpCode::Not => if value.bits != 0 { 0 } else { 1 }, }; let new_width = if self == UnOpCode::Not { WireWidth::Bits(1) } else { value.width }; Ok(WireValue { bits: new_value & new_width.mask(), width: new_width })" : String) := by rfl

theorem maskText : Generated.maskText = ("match self { WireWidth::Unlimited => !0, WireWidth::Bits(0) => 0, WireWidth::Bits(s) => ((!0) >> (128 - s)), }" : String) := by rfl

theorem combineText : Generated.combineText = ("match (self, other) { (WireWidth::Unlimited, _) => Some(other), (_, WireWidth::Unlimited) => Some(self), (WireWidth::Bits(s), WireWidth::Bits(t)) => if s == t { Some(self) } else { None } }" : String) := by rfl

theorem maxText : Generated.maxText = ("match (self, other) { (WireWidth::Unlimited, _) => other, (_, WireWidth::Unlimited) => self, (WireWidth::Bits(s), WireWidth::Bits(t)) => if s > t { self } else { other } }" : String) := by rfl

theorem defaultFeatures : Generated.defaultFeatures = (["strict-boolean-ops", "require-mux-default", "disallow-multiple-mux-default", "disallow-unreachable-options"] : List String) := by rfl

end Tie.Ops
