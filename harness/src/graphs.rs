//! S-GRAPH: the private graph sorter on integer graphs, with logged iteration orders.
use crate::rng::Rng;
use hclrs::verif_hooks::graph_sort;
use std::fmt::Write;
use std::panic::catch_unwind;

fn join(v: &[u32]) -> String { v.iter().map(|x| x.to_string()).collect::<Vec<_>>().join(" ") }

/// request line and impl result for one graph
pub fn run_one(n: u32, edges: &[(u32, u32)]) -> (String, String) {
    let e2: Vec<(u32, u32)> = edges.to_vec();
    let outcome = catch_unwind(move || graph_sort(n, &e2));
    let mut req = String::new();
    write!(req, "(graph (nodes {}) (edges", join(&(0..n).collect::<Vec<_>>())).unwrap();
    for &(a, b) in edges { write!(req, " ({} {})", a, b).unwrap(); }
    req.push(')');
    match outcome {
        Err(_) => {
            req.push_str(" (impl panic))");
            (req, String::from("panic"))
        }
        Ok((result, log)) => {
            let mut knodes = Vec::new();
            let mut dnodes = Vec::new();
            let mut kout: Vec<(String, Vec<String>)> = Vec::new();
            let mut dout: Vec<(String, Vec<String>)> = Vec::new();
            for entry in &log {
                let parts: Vec<&str> = entry.split(' ').collect();
                match parts[0] {
                    "kahn-node" => knodes.push(parts[1].to_string()),
                    "dfs-node" => dnodes.push(parts[1].to_string()),
                    "kahn-out" | "dfs-out" => {
                        let list = if parts[0] == "kahn-out" { &mut kout } else { &mut dout };
                        if list.last().map_or(true, |l| l.0 != parts[1]) || false {
                            // entries of one node are contiguous only within one loop; search
                            match list.iter_mut().find(|l| l.0 == parts[1]) {
                                Some(l) => l.1.push(parts[2].to_string()),
                                None => list.push((parts[1].to_string(), vec![parts[2].to_string()])),
                            }
                        } else {
                            list.last_mut().unwrap().1.push(parts[2].to_string());
                        }
                    }
                    _ => {}
                }
            }
            write!(req, " (knodes {})", knodes.join(" ")).unwrap();
            req.push_str(" (kout");
            for (u, vs) in &kout { write!(req, " ({} {})", u, vs.join(" ")).unwrap(); }
            req.push(')');
            write!(req, " (dnodes {})", dnodes.join(" ")).unwrap();
            req.push_str(" (dout");
            for (u, vs) in &dout { write!(req, " ({} {})", u, vs.join(" ")).unwrap(); }
            req.push(')');
            let res = match result {
                Ok(order) => format!("ok {}", join(&order)),
                Err(cycle) => format!("cycle {}", join(&cycle)),
            };
            write!(req, " (impl {}))", res).unwrap();
            (req, res)
        }
    }
}

/// every digraph (self loops allowed) on exactly `n` nodes: bit i*n+j of `code` = edge i->j
pub fn exhaustive(n: u32, emit: &mut dyn FnMut(String, String)) {
    let bits = n * n;
    for code in 0u64..(1u64 << bits) {
        let mut edges = Vec::new();
        for i in 0..n { for j in 0..n { if code >> (i * n + j) & 1 == 1 { edges.push((i, j)); } } }
        let (a, b) = run_one(n, &edges);
        emit(a, b);
    }
}

/// slice [lo, hi) of the code space for n nodes (used to parallelise n = 5)
pub fn exhaustive_slice(n: u32, lo: u64, hi: u64, emit: &mut dyn FnMut(String, String)) {
    for code in lo..hi {
        let mut edges = Vec::new();
        for i in 0..n { for j in 0..n { if code >> (i * n + j) & 1 == 1 { edges.push((i, j)); } } }
        let (a, b) = run_one(n, &edges);
        emit(a, b);
    }
}

pub fn random(rng: &mut Rng, count: u64, emit: &mut dyn FnMut(String, String)) {
    for _ in 0..count {
        let n = rng.range(5, 40) as u32;
        // density around the acyclic/cyclic threshold: expected out-degree 0.3 .. 2
        let target = (n as u64) * rng.range(3, 20) / 10;
        let mut edges = Vec::new();
        let acyclic_bias = rng.chance(1, 2);
        for _ in 0..target {
            let a = rng.below(n as u64) as u32;
            let b = rng.below(n as u64) as u32;
            if acyclic_bias && !rng.chance(1, 12) {
                if a == b { continue; }
                let (lo, hi) = if a < b { (a, b) } else { (b, a) };
                edges.push((lo, hi));
            } else {
                edges.push((a, b));
            }
        }
        edges.sort(); edges.dedup();
        rng.shuffle(&mut edges);
        let (a, b) = run_one(n, &edges);
        emit(a, b);
    }
}
