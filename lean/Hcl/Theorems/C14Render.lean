import Hcl.Proofs.ErrorsRender
import Hcl.Theorems.C13
import Hcl.Theorems.C14

/-!
# C14 (rendering) — what `Error::format_for_contents` prints for an error value

The model `Errors.render` (`Hcl/Model/Errors.lean`) transcribes `format_for_contents` of errors.rs arm by arm; the
stream S-RENDER compares it byte for byte with the real renderer on every kind of rejected input.  About the model:

* `C14_render_total`: rendering a well-formed error value never fails, whatever the user's file is;
* `C14_render_names`: every wire / register / bank name the error carries is printed in single quotes;
* `C14_render_regions`: the text is the messages interleaved with `show_region` of the spans the error carries, in order —
  and (`C14_render_located`) a span inside one line of the user's file is shown as the specification of C14 says: the
  user's file name, the line counted in the user's file, that line, carets under the span;
* `C14_render_multiple`: a batch of errors is rendered item by item, in order, none dropped, none added.
-/

open Errors

/-- the file as `main` builds it: the real preamble, then the user's text -/
def y86File (U name : Bytes) : Io.FileContents := Io.newFromData Generated.preambleBytes U name

theorem C14_render_total (U name : Bytes) (hU : Yo.validUtf8 U = true) (v : ErrV) (hv : WF (y86File U name) v) :
    ∃ out, render (y86File U name) v = .ok out :=
  render_total _ U name C13_preamble_utf8 hU v hv

theorem C14_render_names (U name : Bytes) (v : ErrV) (out : Bytes) (h : render (y86File U name) v = .ok out) :
    ∀ n ∈ names v, 10 ∉ n → ∃ pre post, out = pre ++ (Yo.str "'" ++ n ++ Yo.str "'") ++ post :=
  render_names_wire _ v out h

theorem C14_render_regions (U name : Bytes) (v : ErrV) (out : Bytes) (h : render (y86File U name) v = .ok out) :
    ∃ ms rs, messages (y86File U name) v = .ok ms ∧ mapR (region (y86File U name)) (spans v) = .ok rs ∧
      ms.length = rs.length + 1 ∧ out = interleave ms rs :=
  render_regions _ v out h

/-- every region shown is the region of a span the error carries, in order; and for a span inside one line of the
    user's file (offsets counted after the preamble, as the lexer counts them) it is the region the specification of
    C14 describes: `-> file:line` with the user's file name and the line counted in the user's file, the text of the
    line, carets under exactly the span -/
theorem C14_render_located (U name : Bytes) (hU : Yo.validUtf8 U = true) (v : ErrV) (out : Bytes)
    (h : render (y86File U name) v = .ok out) :
    ∃ ms rs, messages (y86File U name) v = .ok ms ∧ rs.length = (spans v).length ∧ ms.length = rs.length + 1 ∧
      out = interleave ms rs ∧
      ∀ (i s e : Nat) (r : Bytes),
        (spans v)[i]? = some (Generated.preambleBytes.length + s, Generated.preambleBytes.length + e) →
        Spec.region name U s e = some r → rs[i]? = some r := by
  obtain ⟨ms, rs, hm, hr, hlen, ho⟩ := render_regions _ v out h
  refine ⟨ms, rs, hm, (mapR_ok_zip _ _ _ hr).1.symm, hlen, ho, ?_⟩
  intro i s e r hi hspec
  obtain ⟨y, hy, hreg⟩ := mapR_ok_get _ _ _ hr i _ hi
  have := C14_region_y86 U name s e r hU hspec
  unfold region y86File at hreg
  simp only at hreg
  rw [this] at hreg
  simp only [Except.ok.injEq] at hreg
  rw [hy, ← hreg]

theorem C14_render_multiple (fc : Io.FileContents) (vs : List ErrV) :
    render fc (.multiple vs) = (do let outs ← mapR (render fc) vs; pure outs.flatten) :=
  render_multiple fc vs

/-- down to the single errors: as many texts as there are single errors in the value, in order -/
theorem C14_render_leaves (fc : Io.FileContents) (v : ErrV) :
    render fc v = (do let outs ← mapR (renderOne fc) (leaves v); pure outs.flatten) :=
  render_leaves fc v

/-- `WF` is exactly what rendering needs (files that are valid UTF-8) -/
theorem C14_render_ok_iff (U name : Bytes) (hU : Yo.validUtf8 U = true) (v : ErrV) :
    (∃ out, render (y86File U name) v = .ok out) ↔ WF (y86File U name) v :=
  render_ok_iff _ U name C13_preamble_utf8 hU v

/-- the terminals of the grammar as LALRPOP names them in `expected` (all 36 that the validation runs have seen) can be
    described: what `WF` asks of the tokens of an `UnrecognizedToken` holds for whatever the parser reports -/
theorem C14_grammar_tokens_ok :
    ∀ t ∈ (["ID", "CONSTANT"].map Yo.str ++
      ["!", "!=", "&", "&&", "(", ")", "*", "+", ",", "-", "..", "/", ":", ";", "<", "<<", "<=", "=", "==", ">", ">=", ">>",
       "[", "]", "^", "const", "in", "register", "wire", "{", "|", "||", "}", "~"].map quoted), tokenOK t := by decide


#print axioms Errors.render_total
#print axioms Errors.render_ok_wf
#print axioms Errors.render_names_wire
#print axioms Errors.render_regions
#print axioms Errors.render_multiple
#print axioms C14_render_located
#print axioms C14_render_total
