import Hcl.Proofs.ConstDeterminism
open Rust

/-! The diagnostics of `resolve_constants` do not depend on the order either: each constant contributes what its
    definition yields from the final table. -/

/-- what the loop reports for one constant, given the final table -/
def constErrs (fl : Flags) (exprs : AMap Ex) (R : AMap WireValue) (name : String) : List Diag :=
  match exprs.get? name with
  | none => panicDiag
  | some e => match constVal fl R e with
    | .ok _ => []
    | .error ds => ds

/-- the entry the loop leaves for one constant, given the final table -/
def constEntry (fl : Flags) (exprs : AMap Ex) (R : AMap WireValue) (name : String) : Option WireValue :=
  match exprs.get? name with
  | none => none
  | some e => match constVal fl R e with
    | .ok v => some v
    | .error _ => none

/-- every name a definition mentions has been processed already or comes earlier in the list -/
def DepsDone (exprs : AMap Ex) (names : List String) (done : List String) : Prop :=
  ∀ pre n post, names = pre ++ n :: post → ∀ e, exprs.get? n = some e → ∀ x ∈ refs e, x ∈ done ∨ x ∈ pre

theorem depsDone_tail (exprs : AMap Ex) (name : String) (rest done : List String)
    (h : DepsDone exprs (name :: rest) done) : DepsDone exprs rest (name :: done) := by
  intro pre n post hs e he x hx
  rcases h (name :: pre) n post (by rw [hs]; rfl) e he x hx with h1 | h1
  · exact Or.inl (List.mem_cons_of_mem _ h1)
  · rcases List.mem_cons.mp h1 with h2 | h2
    · exact Or.inl (by rw [h2]; exact List.mem_cons_self)
    · exact Or.inr h2

theorem resolveLoop_absent (fl : Flags) (exprs : AMap Ex) (names : List String) (res : AMap WireValue) (errs : List Diag)
    (k : String) (h1 : res.contains k = false) (h2 : k ∉ names) :
    (resolveLoop fl exprs names res errs).1.get? k = none := by
  cases hg : (resolveLoop fl exprs names res errs).1.get? k with
  | none => rfl
  | some v =>
    exfalso
    have hc : (resolveLoop fl exprs names res errs).1.contains k = true := (AMap.contains_iff_lookup _ _).mpr ⟨v, hg⟩
    -- a key of the result is a key of the start table or one of the names
    have key : ∀ (names : List String) (res : AMap WireValue) (errs : List Diag),
        (resolveLoop fl exprs names res errs).1.contains k = true → res.contains k = true ∨ k ∈ names := by
      intro names
      induction names with
      | nil => intro res errs h; exact Or.inl h
      | cons name rest ih =>
        intro res errs h
        cases hg : exprs.get? name with
        | none => rw [resolveLoop, hg] at h; exact Or.inl h
        | some e =>
          cases hc : constVal fl res e with
          | error ds =>
            rw [resolveLoop_step_err fl exprs name rest res errs e ds hg hc] at h
            rcases ih _ _ h with h1 | h1
            · exact Or.inl h1
            · exact Or.inr (List.mem_cons_of_mem _ h1)
          | ok w =>
            rw [resolveLoop_step_ok fl exprs name rest res errs e w hg hc] at h
            rcases ih _ _ h with h1 | h1
            · rw [AMap.contains_insert] at h1
              rcases Bool.or_eq_true_iff.mp h1 with h2 | h2
              · exact Or.inl h2
              · exact Or.inr (by rw [beq_iff_eq.mp h2]; exact List.mem_cons_self)
            · exact Or.inr (List.mem_cons_of_mem _ h1)
    rcases key names res errs hc with h | h
    · rw [h1] at h; cases h
    · exact h2 h

/-- **one run, characterised by its own final table**: the errors are the contributions of the names in order, and
    each name's entry is what its definition yields from the final table -/
theorem resolveLoop_char (fl : Flags) (exprs : AMap Ex) : ∀ (names : List String) (res : AMap WireValue) (errs : List Diag)
    (done : List String),
    (∀ n ∈ names, (exprs.get? n).isSome = true) → names.Nodup → (∀ n ∈ names, n ∉ done) →
    (∀ k, res.contains k = true → k ∈ done) → DepsDone exprs names done →
    (resolveLoop fl exprs names res errs).2 = errs ++ names.flatMap (constErrs fl exprs (resolveLoop fl exprs names res errs).1) ∧
    (∀ n ∈ names, (resolveLoop fl exprs names res errs).1.get? n = constEntry fl exprs (resolveLoop fl exprs names res errs).1 n) ∧
    (∀ k ∈ done, (resolveLoop fl exprs names res errs).1.get? k = res.get? k)
  | [], res, errs, done, _, _, _, _, _ => by
    refine ⟨by simp [resolveLoop], ?_, fun _ _ => rfl⟩
    intro n hn; cases hn
  | name :: rest, res, errs, done, hsome, hnd, hfresh, hkeys, hdeps => by
    obtain ⟨e, hg⟩ := Option.isSome_iff_exists.mp (hsome name List.mem_cons_self)
    have hnd' := List.nodup_cons.mp hnd
    have hname_fresh : res.contains name = false := by
      cases hc : res.contains name with
      | false => rfl
      | true => exact absurd (hkeys name hc) (hfresh name List.mem_cons_self)
    have hfresh' : ∀ n ∈ rest, n ∉ name :: done := by
      intro n hn hm
      rcases List.mem_cons.mp hm with h | h
      · exact hnd'.1 (h ▸ hn)
      · exact hfresh n (List.mem_cons_of_mem _ hn) h
    -- the table at this point agrees with the final table on everything the definition mentions
    have hagree : ∀ (R : AMap WireValue), (∀ k ∈ done, R.get? k = res.get? k) → agreeOn (refs e) res.toEnv R.toEnv := by
      intro R hR x hx
      rcases hdeps [] name rest rfl e hg x hx with h | h
      · exact (hR x h).symm
      · cases h
    cases hc : constVal fl res e with
    | error ds =>
      rw [resolveLoop_step_err fl exprs name rest res errs e ds hg hc]
      obtain ⟨a1, a2, a3⟩ := resolveLoop_char fl exprs rest res (errs ++ ds) (name :: done)
        (fun n hn => hsome n (List.mem_cons_of_mem _ hn)) hnd'.2 hfresh'
        (fun k hk => List.mem_cons_of_mem _ (hkeys k hk)) (depsDone_tail exprs name rest done hdeps)
      generalize hR : (resolveLoop fl exprs rest res (errs ++ ds)).1 = R at a1 a2 a3
      have hRdone : ∀ k ∈ done, R.get? k = res.get? k := fun k hk => a3 k (List.mem_cons_of_mem _ hk)
      have hcv : constVal fl R e = .error ds := by rw [← constVal_congr fl res R e (hagree R hRdone)]; exact hc
      have hRn : R.get? name = none := by
        rw [a3 name List.mem_cons_self]
        cases hx : res.get? name with
        | none => rfl
        | some v => rw [(AMap.contains_iff_lookup _ _).mpr ⟨v, hx⟩] at hname_fresh; cases hname_fresh
      refine ⟨?_, ?_, hRdone⟩
      · rw [a1, List.flatMap_cons, List.append_assoc]
        congr 2
        unfold constErrs; rw [hg]; simp only [hcv]
      · intro n hn
        rcases List.mem_cons.mp hn with h | h
        · subst h; rw [hRn]; unfold constEntry; rw [hg]; simp only [hcv]
        · exact a2 n h
    | ok v =>
      rw [resolveLoop_step_ok fl exprs name rest res errs e v hg hc]
      obtain ⟨a1, a2, a3⟩ := resolveLoop_char fl exprs rest (res.insert name v) errs (name :: done)
        (fun n hn => hsome n (List.mem_cons_of_mem _ hn)) hnd'.2 hfresh'
        (fun k hk => by
          rw [AMap.contains_insert] at hk
          rcases Bool.or_eq_true_iff.mp hk with h | h
          · exact List.mem_cons_of_mem _ (hkeys k h)
          · rw [beq_iff_eq.mp h]; exact List.mem_cons_self)
        (depsDone_tail exprs name rest done hdeps)
      generalize hR : (resolveLoop fl exprs rest (res.insert name v) errs).1 = R at a1 a2 a3
      have hRdone : ∀ k ∈ done, R.get? k = res.get? k := by
        intro k hk
        rw [a3 k (List.mem_cons_of_mem _ hk)]
        exact AMap.get?_insert_ne _ _ _ _ (fun h => hfresh name List.mem_cons_self (h ▸ hk))
      have hcv : constVal fl R e = .ok v := by rw [← constVal_congr fl res R e (hagree R hRdone)]; exact hc
      have hRn : R.get? name = some v := by rw [a3 name List.mem_cons_self]; exact AMap.get?_insert_self _ _ _
      refine ⟨?_, ?_, hRdone⟩
      · rw [a1, List.flatMap_cons]
        congr 1
        have : constErrs fl exprs R name = [] := by unfold constErrs; rw [hg]; simp only [hcv]
        rw [this, List.nil_append]
      · intro n hn
        rcases List.mem_cons.mp hn with h | h
        · subst h; rw [hRn]; unfold constEntry; rw [hg]; simp only [hcv]
        · exact a2 n h

/-- **every other order**: a table in which each entry is what its definition yields from the table itself is what the
    loop computes along every topological order, with the same contributions to the error list -/
theorem resolveLoop_follow' (fl : Flags) (exprs : AMap Ex) (R : AMap WireValue)
    (hR : ∀ n, (exprs.get? n).isSome = true → R.get? n = constEntry fl exprs R n) :
    ∀ (names : List String) (res : AMap WireValue) (errs : List Diag) (done : List String),
    (∀ n ∈ names, (exprs.get? n).isSome = true) → names.Nodup → (∀ n ∈ names, n ∉ done) →
    (∀ k, res.contains k = true → k ∈ done) → DepsDone exprs names done → (∀ k ∈ done, res.get? k = R.get? k) →
    (resolveLoop fl exprs names res errs).2 = errs ++ names.flatMap (constErrs fl exprs R) ∧
    (∀ k, k ∈ done ∨ k ∈ names → (resolveLoop fl exprs names res errs).1.get? k = R.get? k)
  | [], res, errs, done, _, _, _, _, _, hag => by
    refine ⟨by simp [resolveLoop], ?_⟩
    intro k hk
    rcases hk with h | h
    · exact hag k h
    · cases h
  | name :: rest, res, errs, done, hsome, hnd, hfresh, hkeys, hdeps, hag => by
    obtain ⟨e, hg⟩ := Option.isSome_iff_exists.mp (hsome name List.mem_cons_self)
    have hnd' := List.nodup_cons.mp hnd
    have hname_fresh : res.get? name = none := by
      cases hx : res.get? name with
      | none => rfl
      | some v => exact absurd (hkeys name ((AMap.contains_iff_lookup _ _).mpr ⟨v, hx⟩)) (hfresh name List.mem_cons_self)
    have hfresh' : ∀ n ∈ rest, n ∉ name :: done := by
      intro n hn hm
      rcases List.mem_cons.mp hm with h | h
      · exact hnd'.1 (h ▸ hn)
      · exact hfresh n (List.mem_cons_of_mem _ hn) h
    have hagree : agreeOn (refs e) res.toEnv R.toEnv := by
      intro x hx
      rcases hdeps [] name rest rfl e hg x hx with h | h
      · exact hag x h
      · cases h
    have hRn := hR name (by rw [hg]; rfl)
    unfold constEntry at hRn
    rw [hg] at hRn
    simp only at hRn
    have hcv := constVal_congr fl res R e hagree
    cases hc : constVal fl R e with
    | error ds =>
      rw [hc] at hcv hRn
      rw [resolveLoop_step_err fl exprs name rest res errs e ds hg hcv]
      obtain ⟨a1, a2⟩ := resolveLoop_follow' fl exprs R hR rest res (errs ++ ds) (name :: done)
        (fun n hn => hsome n (List.mem_cons_of_mem _ hn)) hnd'.2 hfresh'
        (fun k hk => List.mem_cons_of_mem _ (hkeys k hk)) (depsDone_tail exprs name rest done hdeps)
        (by
          intro k hk
          rcases List.mem_cons.mp hk with h | h
          · rw [h, hname_fresh, hRn]
          · exact hag k h)
      refine ⟨?_, ?_⟩
      · rw [a1, List.flatMap_cons, List.append_assoc]
        congr 2
        unfold constErrs; rw [hg]; simp only [hc]
      · intro k hk
        apply a2
        rcases hk with h | h
        · exact Or.inl (List.mem_cons_of_mem _ h)
        · rcases List.mem_cons.mp h with h1 | h1
          · exact Or.inl (by rw [h1]; exact List.mem_cons_self)
          · exact Or.inr h1
    | ok v =>
      rw [hc] at hcv hRn
      rw [resolveLoop_step_ok fl exprs name rest res errs e v hg hcv]
      obtain ⟨a1, a2⟩ := resolveLoop_follow' fl exprs R hR rest (res.insert name v) errs (name :: done)
        (fun n hn => hsome n (List.mem_cons_of_mem _ hn)) hnd'.2 hfresh'
        (fun k hk => by
          rw [AMap.contains_insert] at hk
          rcases Bool.or_eq_true_iff.mp hk with h | h
          · exact List.mem_cons_of_mem _ (hkeys k h)
          · rw [beq_iff_eq.mp h]; exact List.mem_cons_self)
        (depsDone_tail exprs name rest done hdeps)
        (by
          intro k hk
          rcases List.mem_cons.mp hk with h | h
          · rw [h, AMap.get?_insert_self, hRn]
          · have hne : k ≠ name := fun h' => hfresh name List.mem_cons_self (by rw [← h']; exact h)
            rw [AMap.get?_insert_ne _ _ _ _ hne]
            exact hag k h)
      refine ⟨?_, ?_⟩
      · rw [a1, List.flatMap_cons]
        congr 1
        have : constErrs fl exprs R name = [] := by unfold constErrs; rw [hg]; simp only [hc]
        rw [this, List.nil_append]
      · intro k hk
        apply a2
        rcases hk with h | h
        · exact Or.inl (List.mem_cons_of_mem _ h)
        · rcases List.mem_cons.mp h with h1 | h1
          · exact Or.inl (by rw [h1]; exact List.mem_cons_self)
          · exact Or.inr h1

/-- two lists of diagnostics that a user cannot tell apart: both report one dependency loop (possibly different ones),
    or they hold the same diagnostics, in some order -/
def SameDiags (ds₁ ds₂ : List Diag) : Prop :=
  (∃ c₁ c₂, ds₁ = [⟨.WireLoop, c₁⟩] ∧ ds₂ = [⟨.WireLoop, c₂⟩]) ∨ ds₁.Perm ds₂

theorem SameDiags.refl (ds : List Diag) : SameDiags ds ds := Or.inr (List.Perm.refl ds)

/-- **the diagnostics of `resolve_constants` do not depend on the iteration orders** -/
theorem resolveConstants_errors_order_independent (fl : Flags) (o₁ o₂ : Orders) (exprs : AMap Ex)
    (ho₁ : OrdersOK o₁) (ho₂ : OrdersOK o₂)
    (hk : exprs.keys.Nodup) (hrefs : ∀ p ∈ exprs, ∀ r ∈ refs p.2, exprs.contains r = true)
    (ds₁ ds₂ : List Diag) (h₁ : resolveConstants fl o₁ exprs = .error ds₁) (h₂ : resolveConstants fl o₂ exprs = .error ds₂) :
    SameDiags ds₁ ds₂ := by
  obtain ⟨gwf, gkeys, gupper⟩ := constGraphFrom_spec exprs {} GBuild.wf_empty hk (by intro p _ e he; simp at he)
  have gedges := constGraphFrom_edges exprs {} GBuild.wf_empty hk (by intro p _ e he; simp at he)
  rw [← constGraph_eq] at gwf gkeys gupper gedges
  have hnodes : ∀ n ∈ (constGraph exprs).nodes, (exprs.get? n).isSome = true := by
    intro n hn
    rw [AMap.get?_isSome_iff_contains]
    rcases gupper n hn with h | ⟨p, hp, h | h⟩
    · simp at h
    · rw [h]; exact (AMap.contains_iff_mem_keys _ _).mpr (List.mem_map.mpr ⟨p, hp, rfl⟩)
    · exact hrefs p hp n h
  have hready : ∀ (o : Orders) (order : List Node), OrdersOK o → (constGraph exprs).sort o = .ok order →
      order.Nodup ∧ (∀ x, x ∈ order ↔ x ∈ (constGraph exprs).nodes) ∧ DepsDone exprs order [] := by
    intro o order ho hs
    rcases (constGraph exprs).sort_spec o gwf ho with ⟨order', hso, hnd, hcover, htopo⟩ | ⟨c, hsc, _⟩
    · rw [hs] at hso; cases hso
      refine ⟨hnd, hcover, ?_⟩
      intro pre n post hsplit e he x hx
      right
      exact htopo pre n post hsplit x (gedges (x, n) (Or.inr ⟨(n, e), AMap.mem_of_get? _ _ _ he, rfl, hx⟩))
    · rw [hs] at hsc; cases hsc
  unfold resolveConstants at h₁ h₂
  cases hs₁ : (constGraph exprs).sort o₁ with
  | panic => exact absurd hs₁ ((constGraph exprs).sort_ne_panic o₁ gwf ho₁)
  | cycle c₁ =>
    rw [hs₁] at h₁
    obtain ⟨c₂, hc₂⟩ := ((constGraph exprs).sort_verdict o₁ o₂ gwf ho₁ ho₂).mp ⟨c₁, hs₁⟩
    rw [hc₂] at h₂
    simp only [Except.error.injEq] at h₁ h₂
    exact Or.inl ⟨c₁, c₂, h₁.symm, h₂.symm⟩
  | ok order₁ =>
    obtain ⟨order₂, hs₂⟩ := (constGraph exprs).sort_ok_of_ok o₁ o₂ gwf ho₁ ho₂ order₁ hs₁
    rw [hs₁] at h₁; rw [hs₂] at h₂
    simp only at h₁ h₂
    obtain ⟨hnd₁, hcov₁, hdeps₁⟩ := hready o₁ order₁ ho₁ hs₁
    obtain ⟨hnd₂, hcov₂, hdeps₂⟩ := hready o₂ order₂ ho₂ hs₂
    obtain ⟨a1, a2, _⟩ := resolveLoop_char fl exprs order₁ [] [] [] (fun n hn => hnodes n ((hcov₁ n).mp hn)) hnd₁
      (by intro n _ h; cases h) (by intro k hk; simp [AMap.contains] at hk) hdeps₁
    generalize hR : (resolveLoop fl exprs order₁ [] []).1 = R at a1 a2 h₁
    have hRall : ∀ n, (exprs.get? n).isSome = true → R.get? n = constEntry fl exprs R n := by
      intro n hn
      apply a2 n
      rw [hcov₁]
      obtain ⟨e, he⟩ := Option.isSome_iff_exists.mp hn
      exact gkeys (n, e) (AMap.mem_of_get? _ _ _ he)
    obtain ⟨b1, _⟩ := resolveLoop_follow' fl exprs R hRall order₂ [] [] [] (fun n hn => hnodes n ((hcov₂ n).mp hn)) hnd₂
      (by intro n _ h; cases h) (by intro k hk; simp [AMap.contains] at hk) hdeps₂ (by intro k hk; cases hk)
    rw [List.nil_append] at a1 b1
    have hperm : order₁.Perm order₂ := (List.perm_ext_iff_of_nodup hnd₁ hnd₂).mpr (fun a => by rw [hcov₁, hcov₂])
    right
    split at h₁
    · cases h₁
    · split at h₂
      · cases h₂
      · simp only [Except.error.injEq] at h₁ h₂
        rw [← h₁, ← h₂, a1, b1]
        exact hperm.flatMap_right _

/-- **what acceptance demands of every constant**: in the accepted table, every definition passes the width checker and
    evaluates (after the width fix-up) to the value the table holds for it -/
theorem resolveConstants_rules (fl : Flags) (o : Orders) (exprs : AMap Ex) (ho : OrdersOK o)
    (hk : exprs.keys.Nodup) (hrefs : ∀ p ∈ exprs, ∀ r ∈ refs p.2, exprs.contains r = true)
    (c : AMap WireValue) (h : resolveConstants fl o exprs = .ok c) :
    ∀ n e, exprs.get? n = some e → ∃ v, c.get? n = some v ∧ constVal fl c e = .ok v := by
  obtain ⟨gwf, gkeys, gupper⟩ := constGraphFrom_spec exprs {} GBuild.wf_empty hk (by intro p _ e he; simp at he)
  have gedges := constGraphFrom_edges exprs {} GBuild.wf_empty hk (by intro p _ e he; simp at he)
  rw [← constGraph_eq] at gwf gkeys gupper gedges
  have hnodes : ∀ n ∈ (constGraph exprs).nodes, (exprs.get? n).isSome = true := by
    intro n hn
    rw [AMap.get?_isSome_iff_contains]
    rcases gupper n hn with h | ⟨p, hp, h | h⟩
    · simp at h
    · rw [h]; exact (AMap.contains_iff_mem_keys _ _).mpr (List.mem_map.mpr ⟨p, hp, rfl⟩)
    · exact hrefs p hp n h
  unfold resolveConstants at h
  rcases (constGraph exprs).sort_spec o gwf ho with ⟨order, hso, hnd, hcover, htopo⟩ | ⟨cy, hsc, _⟩
  · rw [hso] at h
    simp only at h
    have hdeps : DepsDone exprs order [] := by
      intro pre n post hsplit e he x hx
      right
      exact htopo pre n post hsplit x (gedges (x, n) (Or.inr ⟨(n, e), AMap.mem_of_get? _ _ _ he, rfl, hx⟩))
    obtain ⟨a1, a2, _⟩ := resolveLoop_char fl exprs order [] [] [] (fun n hn => hnodes n ((hcover n).mp hn)) hnd
      (by intro n _ hh; cases hh) (by intro k hk'; simp [AMap.contains] at hk') hdeps
    have habs : ∀ k, k ∉ order → (resolveLoop fl exprs order [] []).1.get? k = none :=
      fun k hk' => resolveLoop_absent fl exprs order [] [] k (by simp [AMap.contains]) hk'
    generalize (resolveLoop fl exprs order [] []).1 = R at a1 a2 h habs
    generalize (resolveLoop fl exprs order [] []).2 = errs at a1 h
    split at h
    · rename_i herr
      have herrs : errs = [] := by simpa using herr
      simp only [Except.ok.injEq] at h
      -- the canonical table has the same content
      have hsame : ∀ k, c.get? k = R.get? k := by
        intro k
        rw [← h, canonConsts_get?]
        split
        · rfl
        · rename_i hc
          symm
          apply habs
          intro hko
          have := hnodes k ((hcover k).mp hko)
          rw [AMap.get?_isSome_iff_contains] at this
          exact hc this
      have henv : c.toEnv = R.toEnv := funext hsame
      intro n e hne
      have hn : n ∈ order := (hcover n).mpr (gkeys (n, e) (AMap.mem_of_get? _ _ _ hne))
      have hnone : constErrs fl exprs R n = [] := by
        rw [herrs, List.nil_append] at a1
        have := List.flatMap_eq_nil_iff.mp a1.symm n hn
        exact this
      have hentry := a2 n hn
      unfold constErrs at hnone
      unfold constEntry at hentry
      rw [hne] at hnone hentry
      simp only at hnone hentry
      cases hc : constVal fl R e with
      | error ds =>
        rw [hc] at hnone
        simp only at hnone
        unfold constVal wOf at hc
        exact absurd hnone (checkFixEval_err fl _ _ _ _ hc)
      | ok v =>
        rw [hc] at hentry
        refine ⟨v, by rw [hsame]; exact hentry, ?_⟩
        rw [← hc]
        exact constVal_congr fl c R e (fun x _ => by rw [henv])
    · cases h
  · rw [hsc] at h; cases h
