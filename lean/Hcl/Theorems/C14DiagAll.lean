import Hcl.Proofs.ProgramSpansPoints2Text
import Hcl.Theorems.C14Diag

/-!
# C14 — every span of every diagnostic of `Program::new` points at the construct it is about

`Program.newSp` (Hcl/Model/ProgramSp.lean) is the model of `Program::new` with the spans the real `Error` values carry;
`Spec.PointsAt` (Hcl/Spec/DiagSpans.lean) says, for every kind of diagnostic, what its located parts must be.

* `C14_diag_points_at`: for ALL inputs, every diagnostic of a rejection by `Program.newSp` -- in whichever step -- carries
  spans `Spec.PointsAt` accepts for its kind and names.  No hypothesis on the statements, the options, the iteration
  orders or the table of built-in functions.
* the stages, each usable by itself: `C14_checker_points` (the width checker: spans of sub-expressions of the checked
  expression, of the shape asked for the kind), `C14_eval_after_check_unlocated` (the evaluation that follows a successful
  check over a table of constants never reports `NoBitWidth` / `UndeclaredWireRead`, the two evaluation errors that carry
  a location in Rust and none in the model), `C14_constants_points`, `C14_banks_points`, `C14_actions_points`.
* `C14_diag_spans_in_text`: for a program parsed from a text, every span of every diagnostic is a non-empty byte range
  of that text.
-/

open Parser Lexer Spec

/-- **C14, stage 1 (checker)**: every diagnostic of the spanned width checker on an expression `x` is located in the
    sub-expressions of `x`: one sub-expression for the kinds that show one, the two operands of a width mismatch, the
    values of all options of one case expression, an occurrence of the undeclared name (`Parser.CkPt`) -/
theorem C14_checker_points (fl : Flags) (Γ : Ctx) (κ : Env) (x : PEx) (ds : List DiagSp)
    (h : checkSp fl Γ κ x = .error ds) : ∀ d ∈ ds, CkPt (fun y => y ∈ subs x) d :=
  checkSp_points fl Γ κ x ds h

/-- ... and for an expression of the program that is what `Spec.PointsAt` asks -/
theorem C14_checker_points_at (ss : List SStmt) (fl : Flags) (Γ : Ctx) (κ : Env) (x : PEx) (hx : x ∈ exprsOf ss)
    (ds : List DiagSp) (h : checkSp fl Γ κ x = .error ds) : ∀ d ∈ ds, PointsAt ss d.erase d.spans :=
  fun d hd => CkPt.wl ss x hx d (checkSp_points fl Γ κ x ds h d hd)

/-- **C14, stage 1 (evaluation)**: over tables in which every name with a width has a value of that width, the
    evaluation of a width-fixed expression the checker accepted yields a value of exactly the checked width, and its
    errors are unlocated ones (`Parser.Quiet`: internal panic, run-time width mismatch, division by zero) -- never
    `NoBitWidth` or `UndeclaredWireRead`.  No well-formedness of the expression is assumed. -/
theorem C14_eval_after_check_unlocated {fl : Flags} {Γ : Ctx} {κ σ : Env}
    (hσ : ∀ n w, Γ n = some w → ∃ v, σ n = some v ∧ v.width = w) (e : Ex) (w : Width) (hc : check fl Γ κ e = .ok w) :
    (∀ err, ev fl σ (fixMux fl Γ κ e) = .error err → Quiet err) ∧
    (∀ v, ev fl σ (fixMux fl Γ κ e) = .ok v → v.width = w) :=
  ev_q hσ e w hc

/-- check, fix up, evaluate over a table of constants: every diagnostic is located as asked -/
theorem C14_check_eval_points_at (ss : List SStmt) (fl : Flags) (res : AMap WireValue) (x : PEx) (hx : x ∈ exprsOf ss)
    (ds : List DiagSp)
    (h : checkFixEvalSp fl (AMap.toCtx (res.map fun p => (p.1, p.2.width))) (AMap.toEnv res) x = .error ds) :
    ∀ d ∈ ds, PointsAt ss d.erase d.spans :=
  checkFixEvalSp_points ss fl res x hx ds h

/-- **C14, stage 2**: the diagnostics of the constants (`resolve_constants`), for a table of constant definitions taken
    from the program -/
theorem C14_constants_points (ss : List SStmt) (fl : Flags) (o : Orders) (exprs : AMap PEx)
    (hE : ∀ p ∈ exprs, p.2 ∈ exprsOf ss) (ds : List DiagSp) (h : resolveConstantsSp fl o exprs = .error ds) :
    ∀ d ∈ ds, PointsAt ss d.erase d.spans :=
  resolveConstantsSp_wl ss fl o exprs hE ds h

/-- **C14, stage 3**: processing the register banks keeps the diagnostics located as asked and the two tables of register
    spans (`seen_registers`, `register_in_spans`) filled with spans of registers of the signal they are filed under
    (`Parser.Tbl3`), given that the tables of step 1 hold spans of the program (`Parser.Tbl`, established by `step1_tbl`) -/
theorem C14_banks_points (ss : List SStmt) (fl : Flags) (cls : CharClass) (t1 : Step1Sp) (ht : Tbl ss t1)
    (constants : AMap WireValue) (bs : List SBankDecl) (hb : ∀ b ∈ bs, b ∈ banksOf ss) (s : Step3Sp) (h : Tbl3 ss s) :
    Tbl3 ss (bs.foldl (step3BankSp fl cls t1 constants) s) :=
  foldl_banks_wl ss fl cls t1 ht constants bs hb s h

/-- **C14, stage 4**: the diagnostics of `assignments_to_actions` (with `preprocess_fixed`) -/
theorem C14_actions_points (ss : List SStmt) (fl : Flags) (o : Orders) (t1 : Step1Sp) (ht : Tbl ss t1)
    (widths : AMap Width) (known : List String) (fixed : List FixedFunction) (constants : AMap WireValue) (ds : List DiagSp)
    (h : assignmentsToActionsSp fl o t1 widths known fixed constants = .error ds) : ∀ d ∈ ds, PointsAt ss d.erase d.spans :=
  assignmentsToActionsSp_wl ss fl o t1 ht widths known fixed constants ds h

/-- **C14, every diagnostic points at the offending place**: whenever `Program.newSp` rejects, every diagnostic shows,
    in the order of its message, spans that `Spec.PointsAt` accepts for its kind and the names it is about -/
theorem C14_diag_points_at (fl : Flags) (cls : CharClass) (o : Orders) (fixed : List FixedFunction) (ss : List SStmt)
    (ds : List DiagSp) (h : Program.newSp fl cls o fixed ss = .error ds) : ∀ d ∈ ds, Spec.PointsAt ss d.erase d.spans :=
  newSp_points_at fl cls o fixed ss ds h

/-- **C14, the spans lie in the text**: for a program parsed from a text, every span of every diagnostic of a rejection
    is a non-empty byte range of the text -/
theorem C14_diag_spans_in_text (cls : CharCls) (text : List Char) (ss : List SStmt)
    (hp : parseProgramSp cls text = some ss) (fl : Flags) (ccls : CharClass) (o : Orders) (fixed : List FixedFunction)
    (ds : List DiagSp) (h : Program.newSp fl ccls o fixed ss = .error ds) :
    ∀ d ∈ ds, ∀ sp ∈ d.spans, sp.1 < sp.2 ∧ sp.2 ≤ sizeOf' text :=
  newSp_spans_in_text cls text ss hp fl ccls o fixed ds h

/-- the same in the weaker form `start ≤ end ≤ length of the text` -/
theorem C14_diag_spans_in_text_le (cls : CharCls) (text : List Char) (ss : List SStmt)
    (hp : parseProgramSp cls text = some ss) (fl : Flags) (ccls : CharClass) (o : Orders) (fixed : List FixedFunction)
    (ds : List DiagSp) (h : Program.newSp fl ccls o fixed ss = .error ds) :
    ∀ d ∈ ds, ∀ sp ∈ d.spans, sp.1 ≤ sp.2 ∧ sp.2 ≤ sizeOf' text := by
  intro d hd sp hsp
  have := C14_diag_spans_in_text cls text ss hp fl ccls o fixed ds h d hd sp hsp
  exact ⟨Nat.le_of_lt this.1, this.2⟩

/-- the spans `Spec.PointsAt` accepts for a parsed program are non-empty byte ranges of its text (for any diagnostic) -/
theorem C14_points_at_in_text (cls : CharCls) (text : List Char) (ss : List SStmt)
    (hp : parseProgramSp cls text = some ss) (d : Diag) (spans : List Span) (h : PointsAt ss d spans) :
    ∀ sp ∈ spans, sp.1 < sp.2 ∧ sp.2 ≤ sizeOf' text :=
  pointsAt_ok (sizeOf' text) ss (parseProgramSp_spans_in_text cls text ss hp)
    (exprs_within _ ss (parseProgramSp_spans cls text ss hp)) d spans h

#print axioms C14_checker_points
#print axioms C14_checker_points_at
#print axioms C14_eval_after_check_unlocated
#print axioms C14_check_eval_points_at
#print axioms C14_constants_points
#print axioms C14_banks_points
#print axioms C14_actions_points
#print axioms C14_diag_points_at
#print axioms C14_diag_spans_in_text
#print axioms C14_diag_spans_in_text_le
#print axioms C14_points_at_in_text
