import Hcl.Proofs.EvalCorrect
import Hcl.Proofs.CheckSpec
import Hcl.Model.Program
open Rust

/-! The strictness options do not influence what an accepted expression is rewritten to, nor its value. -/

section
variable {fl : Flags} {Γ : Ctx} {κ : Env}

theorem check_un_inv {op : UnOp} {e : Ex} {w : Width} (h : check fl Γ κ (.un op e) = .ok w) :
    ∃ w', check fl Γ κ e = .ok w' := by
  cases op with
  | not =>
    unfold check at h
    obtain ⟨a, ha, _⟩ := bind_ok h
    exact ⟨a, ha⟩
  | plus => unfold check at h; exact ⟨w, h⟩
  | neg => unfold check at h; exact ⟨w, h⟩
  | compl => unfold check at h; exact ⟨w, h⟩

theorem check_slice_inv {e : Ex} {lo hi : Nat} {w : Width} (h : check fl Γ κ (.slice e lo hi) = .ok w) :
    ∃ w', check fl Γ κ e = .ok w' := by
  unfold check at h
  split at h
  · simp [throw, throwThe, MonadExceptOf.throw] at h
  · obtain ⟨a, ha, _⟩ := bind_ok h
    exact ⟨a, ha⟩

theorem check_concat_inv {l r : Ex} {w : Width} (h : check fl Γ κ (.concat l r) = .ok w) :
    ∃ a b, check fl Γ κ l = .ok a ∧ check fl Γ κ r = .ok b := by
  unfold check at h
  obtain ⟨a, ha, h⟩ := bind_ok h
  cases a with
  | unlimited => simp [throw, throwThe, MonadExceptOf.throw] at h
  | bits lw =>
    simp only at h
    obtain ⟨b, hb, _⟩ := bind_ok h
    exact ⟨_, b, ha, hb⟩

theorem check_mux_inv {opts : Opts} {w : Width} (h : check fl Γ κ (.mux opts) = .ok w) :
    ∃ s, checkOpts fl Γ κ opts {} = .ok s := by
  unfold check at h
  obtain ⟨s, hs, _⟩ := bind_ok h
  exact ⟨s, hs⟩

theorem check_inSet_inv {e : Ex} {items : Exs} {w : Width} (h : check fl Γ κ (.inSet e items) = .ok w) :
    ∃ a errs, check fl Γ κ e = .ok a ∧ checkItems fl Γ κ a items = .ok errs := by
  unfold check at h
  obtain ⟨a, ha, h⟩ := bind_ok h
  obtain ⟨errs, he, _⟩ := bind_ok h
  exact ⟨a, errs, ha, he⟩

theorem checkOpts_cons_inv {c v : Ex} {rest : Opts} {s s' : MuxScan} (h : checkOpts fl Γ κ (.cons c v rest) s = .ok s') :
    ∃ wc wv s'', check fl Γ κ c = .ok wc ∧ check fl Γ κ v = .ok wv ∧ checkOpts fl Γ κ rest s'' = .ok s' := by
  unfold checkOpts at h
  obtain ⟨wc, hc, h⟩ := bind_ok h
  obtain ⟨wv, hv, h⟩ := bind_ok h
  exact ⟨wc, wv, _, hc, hv, h⟩

theorem checkItems_cons_inv {a : Width} {e : Ex} {rest : Exs} {l : List Diag} (h : checkItems fl Γ κ a (.cons e rest) = .ok l) :
    ∃ b l', check fl Γ κ e = .ok b ∧ checkItems fl Γ κ a rest = .ok l' := by
  unfold checkItems at h
  obtain ⟨b, hb, h⟩ := bind_ok h
  obtain ⟨l', hl, _⟩ := bind_ok h
  exact ⟨b, l', hb, hl⟩
end

/-- an environment that gives every declared wire the value 0 -/
def zeroEnv (Γ : Ctx) : Env := fun n => (Γ n).map fun w => ⟨0, w⟩

theorem zeroEnv_on (Γ : Ctx) (L : List String) : EnvOn Γ (zeroEnv Γ) L := by
  intro n _ w hw
  refine ⟨0, by unfold zeroEnv; rw [hw]; rfl, ?_⟩
  cases w with
  | unlimited => unfold Width.card; exact Nat.pow_pos (by decide)
  | bits k => exact Nat.pow_pos (by decide)

/-- the width the checker assigns does not depend on the options -/
theorem check_width_flag {fl₁ fl₂ : Flags} {Γ : Ctx} {κ : Env} (hΓ : CtxOK Γ) (e : Ex) (w₁ w₂ : Width) (hwf : wfEx e = true)
    (h₁ : check fl₁ Γ κ e = .ok w₁) (h₂ : check fl₂ Γ κ e = .ok w₂) : w₁ = w₂ := by
  have a := (ev_correct (fl := fl₁) (κ := κ) (σ := zeroEnv Γ) hΓ e w₁ (zeroEnv_on Γ _) hwf h₁).2.1
  have b := (ev_correct (fl := fl₂) (κ := κ) (σ := zeroEnv Γ) hΓ e w₂ (zeroEnv_on Γ _) hwf h₂).2.1
  rw [a, b]

section
variable {fl₁ fl₂ : Flags} {Γ : Ctx} {κ : Env}

mutual
/-- **the width fix-up does not depend on the options**, for an expression accepted under both option sets -/
theorem fixMux_flag (hΓ : CtxOK Γ) : ∀ (e : Ex) (w₁ w₂ : Width), wfEx e = true →
    check fl₁ Γ κ e = .ok w₁ → check fl₂ Γ κ e = .ok w₂ → fixMux fl₁ Γ κ e = fixMux fl₂ Γ κ e
  | .const _, _, _, _, _, _ => by simp [fixMux]
  | .wire _, _, _, _, _, _ => by simp [fixMux]
  | .bin op l r, w₁, w₂, hwf, h₁, h₂ => by
      obtain ⟨a₁, b₁, ha₁, hb₁, _⟩ := check_bin_inv h₁
      obtain ⟨a₂, b₂, ha₂, hb₂, _⟩ := check_bin_inv h₂
      unfold wfEx at hwf
      simp only [Bool.and_eq_true] at hwf
      simp only [fixMux, fixMux_flag hΓ l a₁ a₂ hwf.1 ha₁ ha₂, fixMux_flag hΓ r b₁ b₂ hwf.2 hb₁ hb₂]
  | .un op e, w₁, w₂, hwf, h₁, h₂ => by
      obtain ⟨a₁, ha₁⟩ := check_un_inv h₁
      obtain ⟨a₂, ha₂⟩ := check_un_inv h₂
      unfold wfEx at hwf
      simp only [fixMux, fixMux_flag hΓ e a₁ a₂ hwf ha₁ ha₂]
  | .slice e lo hi, w₁, w₂, hwf, h₁, h₂ => by
      obtain ⟨a₁, ha₁⟩ := check_slice_inv h₁
      obtain ⟨a₂, ha₂⟩ := check_slice_inv h₂
      unfold wfEx at hwf
      simp only [Bool.and_eq_true] at hwf
      simp only [fixMux, fixMux_flag hΓ e a₁ a₂ hwf.1 ha₁ ha₂]
  | .concat l r, w₁, w₂, hwf, h₁, h₂ => by
      obtain ⟨a₁, b₁, ha₁, hb₁⟩ := check_concat_inv h₁
      obtain ⟨a₂, b₂, ha₂, hb₂⟩ := check_concat_inv h₂
      unfold wfEx at hwf
      simp only [Bool.and_eq_true] at hwf
      simp only [fixMux, fixMux_flag hΓ l a₁ a₂ hwf.1 ha₁ ha₂, fixMux_flag hΓ r b₁ b₂ hwf.2 hb₁ hb₂]
  | .mux opts, w₁, w₂, hwf, h₁, h₂ => by
      obtain ⟨s₁, hs₁⟩ := check_mux_inv h₁
      obtain ⟨s₂, hs₂⟩ := check_mux_inv h₂
      have hw := check_width_flag hΓ (.mux opts) w₁ w₂ hwf h₁ h₂
      subst hw
      have hwf' : wfOpts opts = true := by unfold wfEx at hwf; exact hwf
      simp only [fixMux, h₁, h₂, fixMuxOpts_flag hΓ opts {} {} s₁ s₂ hwf' hs₁ hs₂]
  | .inSet e items, w₁, w₂, hwf, h₁, h₂ => by
      obtain ⟨a₁, l₁, ha₁, hl₁⟩ := check_inSet_inv h₁
      obtain ⟨a₂, l₂, ha₂, hl₂⟩ := check_inSet_inv h₂
      unfold wfEx at hwf
      simp only [Bool.and_eq_true] at hwf
      simp only [fixMux, fixMux_flag hΓ e a₁ a₂ hwf.1 ha₁ ha₂, fixMuxExs_flag hΓ items a₁ a₂ l₁ l₂ hwf.2 hl₁ hl₂]
theorem fixMuxOpts_flag (hΓ : CtxOK Γ) : ∀ (opts : Opts) (s₁ s₂ s₁' s₂' : MuxScan), wfOpts opts = true →
    checkOpts fl₁ Γ κ opts s₁ = .ok s₁' → checkOpts fl₂ Γ κ opts s₂ = .ok s₂' →
    fixMuxOpts fl₁ Γ κ opts = fixMuxOpts fl₂ Γ κ opts
  | .nil, _, _, _, _, _, _, _ => by simp [fixMuxOpts]
  | .cons c v rest, s₁, s₂, s₁', s₂', hwf, h₁, h₂ => by
      obtain ⟨c₁, v₁, t₁, hc₁, hv₁, hr₁⟩ := checkOpts_cons_inv h₁
      obtain ⟨c₂, v₂, t₂, hc₂, hv₂, hr₂⟩ := checkOpts_cons_inv h₂
      unfold wfOpts at hwf
      simp only [Bool.and_eq_true] at hwf
      simp only [fixMuxOpts, fixMux_flag hΓ c c₁ c₂ hwf.1.1 hc₁ hc₂, fixMux_flag hΓ v v₁ v₂ hwf.1.2 hv₁ hv₂,
        fixMuxOpts_flag hΓ rest t₁ t₂ s₁' s₂' hwf.2 hr₁ hr₂]
theorem fixMuxExs_flag (hΓ : CtxOK Γ) : ∀ (items : Exs) (a₁ a₂ : Width) (l₁ l₂ : List Diag), wfExs items = true →
    checkItems fl₁ Γ κ a₁ items = .ok l₁ → checkItems fl₂ Γ κ a₂ items = .ok l₂ →
    fixMuxExs fl₁ Γ κ items = fixMuxExs fl₂ Γ κ items
  | .nil, _, _, _, _, _, _, _ => by simp [fixMuxExs]
  | .cons e rest, a₁, a₂, l₁, l₂, hwf, h₁, h₂ => by
      obtain ⟨b₁, m₁, hb₁, hm₁⟩ := checkItems_cons_inv h₁
      obtain ⟨b₂, m₂, hb₂, hm₂⟩ := checkItems_cons_inv h₂
      unfold wfExs at hwf
      simp only [Bool.and_eq_true] at hwf
      simp only [fixMuxExs, fixMux_flag hΓ e b₁ b₂ hwf.1 hb₁ hb₂, fixMuxExs_flag hΓ rest a₁ a₂ m₁ m₂ hwf.2 hm₁ hm₂]
end

/-- **check, fix up, evaluate: the options do not change the value** of an expression they both accept -/
theorem checkFixEval_flag (hΓ : CtxOK Γ) (e : Ex) (v₁ v₂ : WireValue) (hon : EnvOn Γ κ (refs e)) (hwf : wfEx e = true)
    (h₁ : checkFixEval fl₁ Γ κ e = .ok v₁) (h₂ : checkFixEval fl₂ Γ κ e = .ok v₂) : v₁ = v₂ := by
  unfold checkFixEval at h₁ h₂
  cases hc₁ : check fl₁ Γ κ e with
  | error ds => rw [hc₁] at h₁; cases h₁
  | ok w₁ =>
    cases hc₂ : check fl₂ Γ κ e with
    | error ds => rw [hc₂] at h₂; cases h₂
    | ok w₂ =>
      rw [hc₁] at h₁; rw [hc₂] at h₂
      simp only at h₁ h₂
      obtain ⟨_, s1, c1⟩ := ev_correct (fl := fl₁) (κ := κ) (σ := κ) hΓ e w₁ hon hwf hc₁
      obtain ⟨_, s2, c2⟩ := ev_correct (fl := fl₂) (κ := κ) (σ := κ) hΓ e w₂ hon hwf hc₂
      have hw : w₁ = w₂ := by rw [s1, s2]
      subst hw
      cases hd : Spec.dv Γ (val κ) e with
      | none =>
        rw [hd] at c1
        simp only at c1
        rw [c1] at h₁; cases h₁
      | some x =>
        rw [hd] at c1 c2
        simp only at c1 c2
        rw [c1.1] at h₁; rw [c2.1] at h₂
        simp only [Except.ok.injEq] at h₁ h₂
        rw [← h₁, ← h₂]
end

/-! ### an accepted expression only mentions names that have a width -/

section
variable {fl : Flags} {Γ : Ctx} {κ : Env}

mutual
theorem check_refs_declared : ∀ (e : Ex) (w : Width), check fl Γ κ e = .ok w → ∀ x ∈ refs e, (Γ x).isSome = true
  | .const _, _, _, x, hx => by simp [refs] at hx
  | .wire n, w, h, x, hx => by
      simp only [refs, List.mem_cons, List.not_mem_nil, or_false] at hx
      subst hx
      unfold check at h
      cases hg : Γ x with
      | none => rw [hg] at h; simp [throw, throwThe, MonadExceptOf.throw] at h
      | some _ => rfl
  | .bin op l r, w, h, x, hx => by
      obtain ⟨a, b, ha, hb, _⟩ := check_bin_inv h
      simp only [refs, List.mem_append] at hx
      rcases hx with hx | hx
      · exact check_refs_declared l a ha x hx
      · exact check_refs_declared r b hb x hx
  | .un op e, w, h, x, hx => by
      obtain ⟨a, ha⟩ := check_un_inv h
      simp only [refs] at hx
      exact check_refs_declared e a ha x hx
  | .slice e lo hi, w, h, x, hx => by
      obtain ⟨a, ha⟩ := check_slice_inv h
      simp only [refs] at hx
      exact check_refs_declared e a ha x hx
  | .concat l r, w, h, x, hx => by
      obtain ⟨a, b, ha, hb⟩ := check_concat_inv h
      simp only [refs, List.mem_append] at hx
      rcases hx with hx | hx
      · exact check_refs_declared l a ha x hx
      · exact check_refs_declared r b hb x hx
  | .mux opts, w, h, x, hx => by
      obtain ⟨s, hs⟩ := check_mux_inv h
      simp only [refs] at hx
      exact checkOpts_refs_declared opts {} s hs x hx
  | .inSet e items, w, h, x, hx => by
      obtain ⟨a, l, ha, hl⟩ := check_inSet_inv h
      simp only [refs, List.mem_append] at hx
      rcases hx with hx | hx
      · exact check_refs_declared e a ha x hx
      · exact checkItems_refs_declared items a l hl x hx
theorem checkOpts_refs_declared : ∀ (opts : Opts) (s s' : MuxScan), checkOpts fl Γ κ opts s = .ok s' →
    ∀ x ∈ refsOpts opts, (Γ x).isSome = true
  | .nil, _, _, _, x, hx => by simp [refsOpts] at hx
  | .cons c v rest, s, s', h, x, hx => by
      obtain ⟨wc, wv, t, hc, hv, hr⟩ := checkOpts_cons_inv h
      simp only [refsOpts, List.mem_append] at hx
      rcases hx with (hx | hx) | hx
      · exact check_refs_declared c wc hc x hx
      · exact check_refs_declared v wv hv x hx
      · exact checkOpts_refs_declared rest t s' hr x hx
theorem checkItems_refs_declared : ∀ (items : Exs) (a : Width) (l : List Diag), checkItems fl Γ κ a items = .ok l →
    ∀ x ∈ refsExs items, (Γ x).isSome = true
  | .nil, _, _, _, x, hx => by simp [refsExs] at hx
  | .cons e rest, a, l, h, x, hx => by
      obtain ⟨b, m, hb, hm⟩ := checkItems_cons_inv h
      simp only [refsExs, List.mem_append] at hx
      rcases hx with hx | hx
      · exact check_refs_declared e b hb x hx
      · exact checkItems_refs_declared rest a m hm x hx
end
end
