import Hcl.Model.Check
import Hcl.Graph.TopoSort
open Rust

/-! Model of `Program::new`, `resolve_constants`, `preprocess_fixed`, `assignments_to_actions`
    and the built-in component table (program.rs).  `HashMap`/`HashSet` are association lists
    in insertion order; where the iteration order of a hash table can influence the result (the
    two graph sorts) it is supplied by an explicit `Orders` argument. -/

/-! ### association lists -/

abbrev AMap (α : Type) := List (String × α)

namespace AMap
def get? {α} (m : AMap α) (k : String) : Option α := m.lookup k
def contains {α} (m : AMap α) (k : String) : Bool := m.any (fun p => p.1 == k)
/-- `HashMap::insert`: replace the value of an existing key, else append -/
def insert {α} (m : AMap α) (k : String) (v : α) : AMap α :=
  if m.contains k then m.map (fun p => if p.1 == k then (k, v) else p) else m ++ [(k, v)]
def keys {α} (m : AMap α) : List String := m.map (·.1)
def toEnv (m : AMap WireValue) : Env := fun k => m.lookup k
def toCtx (m : AMap Width) : Ctx := fun k => m.lookup k
end AMap

def setInsert (s : List String) (k : String) : List String := if s.contains k then s else s ++ [k]
def dedupS (l : List String) : List String := l.foldl setInsert []

/-! ### actions and built-in components -/

inductive Action where
  | assign (name : String) (e : Ex) (w : Width)
  | readReg (number out : String)
  | readMem (isRead : Option String) (address out : String) (bytes : Nat) (isInstruction : Bool)
  | writeReg (number inp : String)
  | writeMem (isWrite : Option String) (address inp : String) (bytes : Nat)
  | setStatus (inWire : String)
  deriving Inhabited

structure FixedFunction where
  name : String
  inWires : List (String × Nat)
  outWire : Option (String × Nat)
  disabledIfFalse : Option String
  action : Action
  mandatory : Bool

/-- `y86_fixed_functions()`, in the order of the source (the order of the two write ports matters) -/
def y86FixedFunctions : List FixedFunction :=
  [ { name := "simulator control signal 'Stat'", inWires := [("Stat", 3)], outWire := none,
      disabledIfFalse := none, action := .setStatus "Stat", mandatory := true },
    { name := "instruction memory", inWires := [("pc", 64)], outWire := some ("i10bytes", 80),
      disabledIfFalse := none, action := .readMem none "pc" "i10bytes" 10 true, mandatory := true },
    { name := "data memory read port", inWires := [("mem_addr", 64), ("mem_readbit", 1)],
      outWire := some ("mem_output", 64), disabledIfFalse := some "mem_readbit",
      action := .readMem (some "mem_readbit") "mem_addr" "mem_output" 8 false, mandatory := false },
    { name := "data memory write port", inWires := [("mem_addr", 64), ("mem_input", 64), ("mem_writebit", 1)],
      outWire := none, disabledIfFalse := some "mem_writebit",
      action := .writeMem (some "mem_writebit") "mem_addr" "mem_input" 8, mandatory := false },
    { name := "register file read port with reg_srcA", inWires := [("reg_srcA", 4)], outWire := some ("reg_outputA", 64),
      disabledIfFalse := none, action := .readReg "reg_srcA" "reg_outputA", mandatory := false },
    { name := "register file read port with reg_srcB", inWires := [("reg_srcB", 4)], outWire := some ("reg_outputB", 64),
      disabledIfFalse := none, action := .readReg "reg_srcB" "reg_outputB", mandatory := false },
    { name := "register file write port with reg_dstE", inWires := [("reg_dstE", 4), ("reg_inputE", 64)], outWire := none,
      disabledIfFalse := none, action := .writeReg "reg_dstE" "reg_inputE", mandatory := false },
    { name := "register file write port with reg_dstM", inWires := [("reg_dstM", 4), ("reg_inputM", 64)], outWire := none,
      disabledIfFalse := none, action := .writeReg "reg_dstM" "reg_inputM", mandatory := false } ]

structure RegisterBank where
  label : String
  signals : List (String × String × Width)      -- (in, out, width)
  defaults : AMap WireValue                      -- keyed by out name
  stall : String
  bubble : String
  deriving Inhabited

inductive WireType where
  | constant | builtinInput | builtinOutput | bankInput | bankOutput | bankSpecial | normal
  deriving Repr, DecidableEq, Inhabited

structure Program where
  constants : AMap WireValue
  actions : List Action
  banks : List RegisterBank
  defaulted : List String
  wireTypes : AMap WireType
  deriving Inhabited

/-! ### graphs as built by `Graph::insert`/`add_node` -/

/-- how a hash table happened to be iterated: a reordering of each node list and successor list.
    Theorems quantify over all `Orders` that only permute. -/
structure Orders where
  nodes : List Node → List Node := id
  succ : Node → List Node → List Node := fun _ l => l
  dnodes : List Node → List Node := id
  dsucc : Node → List Node → List Node := fun _ l => l

structure GBuild where
  nodes : List Node := []
  edges : List (Node × Node) := []       -- one entry per `insert` call

def GBuild.addNode (g : GBuild) (n : Node) : GBuild := { g with nodes := setInsert g.nodes n }
def GBuild.insert (g : GBuild) (a b : Node) : GBuild :=
  { nodes := setInsert (setInsert g.nodes a) b, edges := g.edges ++ [(a, b)] }
def GBuild.containsNode (g : GBuild) (n : Node) : Bool := g.nodes.contains n

def GBuild.succOf (g : GBuild) (u : Node) : List Node :=
  dedupS ((g.edges.filter (fun e => e.1 == u)).map (·.2))
def GBuild.predOf (g : GBuild) (v : Node) : List Node :=
  dedupS ((g.edges.filter (fun e => e.2 == v)).map (·.1))

def GBuild.kgraph (g : GBuild) (o : Orders) : KGraph :=
  { nodes := o.nodes g.nodes, succ := fun u => o.succ u (g.succOf u), preds := g.predOf, numEdges := g.edges.length }
def GBuild.dgraph (g : GBuild) (o : Orders) : Graph :=
  { nodes := o.dnodes g.nodes, succ := fun u => o.dsucc u (g.succOf u) }

def GBuild.sort (g : GBuild) (o : Orders) : SortResult := topologicalSort (g.kgraph o) (g.dgraph o)

/-! ### `resolve_constants` -/

def panicDiag : List Diag := [⟨.InternalPanic, []⟩]

/-- occurrences of `name` in `e` (`find_references` returns one entry per occurrence) -/
def occurrences (e : Ex) (name : String) : Nat := (refs e).count name

def checkFixEval (fl : Flags) (Γ : Ctx) (κ : Env) (e : Ex) : C WireValue :=
  match check fl Γ κ e with
  | .error ds => .error ds
  | .ok _ =>
    match ev fl κ (fixMux fl Γ κ e) with
    | .ok v => .ok v
    | .error err => .error [err.toDiag]

/-- the loop over the sorted constant names -/
def resolveLoop (fl : Flags) (exprs : AMap Ex) : List String → AMap WireValue → List Diag → AMap WireValue × List Diag
  | [], res, errs => (res, errs)
  | name :: rest, res, errs =>
    match exprs.get? name with
    | none => (res, errs ++ panicDiag)                          -- `exprs.get(&name).unwrap()`
    | some e =>
      let widths : AMap Width := res.map (fun p => (p.1, p.2.width))
      match checkFixEval fl widths.toCtx res.toEnv e with
      | .ok v => resolveLoop fl exprs rest (res.insert name v) errs
      | .error ds => resolveLoop fl exprs rest res (errs ++ ds)

def constGraph (exprs : AMap Ex) : GBuild :=
  exprs.foldl (fun g (p : String × Ex) =>
    ((dedupS (refs p.2)).foldl (fun g inName => g.insert inName p.1) g).addNode p.1) {}

/-- The resolved constants as a finite map in canonical form (listed in declaration order).  The Rust value is a
    `HashMap`: it has no order of its own, and every iteration over one goes through `Orders`; so the model keeps
    none of the order in which the entries were inserted. -/
def canonConsts (exprs : AMap Ex) (res : AMap WireValue) : AMap WireValue :=
  exprs.filterMap fun p => (res.get? p.1).map fun v => (p.1, v)

def resolveConstants (fl : Flags) (o : Orders) (exprs : AMap Ex) : C (AMap WireValue) :=
  match (constGraph exprs).sort o with
  | .ok sorted =>
      let (res, errs) := resolveLoop fl exprs sorted [] []
      if errs.isEmpty then .ok (canonConsts exprs res) else .error errs
  | .cycle c => .error [⟨.WireLoop, c⟩]
  | .panic => .error panicDiag

/-! ### `preprocess_fixed` -/

structure FixedInfo where
  byOutput : AMap FixedFunction := []
  noOutput : List FixedFunction := []

structure PreState where
  graph : GBuild
  info : FixedInfo := {}
  errors : List Diag := []

def preprocessOne (fl : Flags) (widths : AMap Width) (constants : AMap WireValue) (assignments : AMap Ex) (known : List String)
    (st : PreState) (f : FixedFunction) : PreState :=
  let inNames := f.inWires.map (·.1)
  let knownClash := inNames.any known.contains                 -- panic!("unexpected duplicate definition")
  let missing := inNames.filter (fun n => !assignments.contains n)
  let included := inNames.filter (fun n => assignments.contains n)
  let st := if knownClash then { st with errors := st.errors ++ panicDiag } else st
  let addActive (st : PreState) : PreState :=
    match f.outWire with
    | none => { st with info := { st.info with noOutput := st.info.noOutput ++ [f] } }
    | some (out, _) =>
      let clash := known.contains out || assignments.contains out
      let st := if clash then { st with errors := st.errors ++ panicDiag } else st
      { st with info := { st.info with byOutput := st.info.byOutput.insert out f },
                graph := inNames.foldl (fun g n => g.insert n out) st.graph }
  if f.mandatory && !missing.isEmpty then
    addActive { st with errors := st.errors ++ missing.map (fun n => ⟨.UnsetBuiltinWire, [n]⟩) }
  else if !missing.isEmpty then
    let e1 : List Diag := match f.outWire with
      | some (out, _) => if st.graph.containsNode out then missing.map (fun n => ⟨.UnsetBuiltinWire, [n]⟩) else []
      | none => []
    let e2 : List Diag :=
      if missing.length != f.inWires.length then
        let isDisabled : Bool := match f.disabledIfFalse with
          | some enable => match assignments.get? enable with
            | some expr =>
              -- only what the width checker accepts is evaluated (after the width fix-up)
              match check fl widths.toCtx constants.toEnv expr with
              | .ok _ => (match ev fl constants.toEnv (fixMux fl widths.toCtx constants.toEnv expr) with
                | .ok v => !(v.bits > 0)
                | .error _ => false)
              | .error _ => false
            | none => false
          | none => false
        if !isDisabled then [⟨.PartialFixedInput, included ++ ["/"] ++ missing⟩] else []
      else []
    { st with errors := st.errors ++ e1 ++ e2 }
  else addActive st

/-! ### `assignments_to_actions` -/

def assignGraph (assignments : AMap Ex) (known : List String) : GBuild :=
  assignments.foldl (fun g (p : String × Ex) =>
    (dedupS (refs p.2)).foldl (fun g inName => if known.contains inName then g else g.insert inName p.1) (g.addNode p.1)) {}

structure LoopState where
  covered : List String
  result : List Action := []
  errors : List Diag := []
  seenUndeclared : List String := []

/-- one turn of the loop over the sorted names -/
def loopStep (fl : Flags) (assignments : AMap Ex) (widths : AMap Width) (declared : List String)
    (constants : AMap WireValue) (byOutput : AMap FixedFunction) (st : LoopState) (name : String) : LoopState :=
  let st : LoopState :=
    match assignments.get? name with
    | some expr =>
      let st := if (refs expr).all st.covered.contains then st else { st with errors := st.errors ++ panicDiag }
      match widths.get? name with
      | some w =>
        match check fl widths.toCtx constants.toEnv expr with
        | .ok ew =>
          let st : LoopState := match w.combine ew with
            | some _ => st
            | none => { st with errors := st.errors ++ [(⟨.MismatchedWireWidths, [name]⟩ : Diag)] }
          { st with result := st.result ++ [Action.assign name (fixMux fl widths.toCtx constants.toEnv expr) w] }
        | .error ds => { st with errors := st.errors ++ ds }
      | none => { st with errors := st.errors ++ [⟨.UndeclaredWireAssigned, [name]⟩] }
    | none =>
      match byOutput.get? name with
      | some f =>
        let st := if (f.inWires.map (·.1)).all st.covered.contains then st else { st with errors := st.errors ++ panicDiag }
        { st with result := st.result ++ [f.action] }
      | none =>
        if declared.contains name then { st with errors := st.errors ++ [⟨.UnsetWire, [name]⟩] }
        else { st with seenUndeclared := setInsert st.seenUndeclared name }
  { st with covered := setInsert st.covered name }

def actionsLoop (fl : Flags) (assignments : AMap Ex) (widths : AMap Width) (declared : List String)
    (constants : AMap WireValue) (byOutput : AMap FixedFunction) (names : List String) (st : LoopState) : LoopState :=
  names.foldl (loopStep fl assignments widths declared constants byOutput) st

def assignmentsToActions (fl : Flags) (o : Orders) (assignments : AMap Ex) (widths : AMap Width) (known : List String)
    (fixed : List FixedFunction) (declared : List String) (constants : AMap WireValue) : C (List Action) :=
  let g0 := assignGraph assignments known
  let pre := fixed.foldl (preprocessOne fl widths constants assignments known) { graph := g0 }
  if !pre.errors.isEmpty then .error pre.errors else
  match pre.graph.sort o with
  | .ok sorted =>
      let st := actionsLoop fl assignments widths declared constants pre.info.byOutput sorted { covered := known }
      let errs := st.errors ++ st.seenUndeclared.map (fun n => ⟨.UnsetUndeclaredWire, [n]⟩)
      if errs.isEmpty then .ok (st.result ++ pre.info.noOutput.map (·.action)) else .error errs
  | .cycle c => .error [⟨.WireLoop, c⟩]
  | .panic => .error panicDiag

/-! ### `Program::new` -/

/-- Unicode character classes used for register-bank names (`char::is_lowercase/is_uppercase`) -/
structure CharClass where
  isLower : Char → Bool := fun c => 'a' ≤ c && c ≤ 'z'
  isUpper : Char → Bool := fun c => 'A' ≤ c && c ≤ 'Z'

structure Step1 where
  constantsRaw : AMap Ex := []
  wires : AMap Width := []
  declared : List String := []            -- keys of wire_decl_spans
  assigned : List String := []            -- keys of assign_spans, in first-assignment order
  needed : List String := []
  assignments : AMap Ex := []
  banksRaw : List BankDecl := []
  wireTypes : AMap WireType := []
  errors : List Diag := []

def checkDoubleDeclare (fixedNames : List String) (s : Step1) (name : String) : Step1 :=
  let errs : List Diag :=
    if s.declared.contains name then [⟨.RedeclaredWire, [name]⟩]
    else if fixedNames.contains name then [⟨.RedeclaredBuiltinWire, [name]⟩] else []
  { s with errors := s.errors ++ errs, declared := setInsert s.declared name }

def step1Const (fixedNames : List String) (s : Step1) (d : ConstDecl) : Step1 :=
  let s := checkDoubleDeclare fixedNames s d.name
  { s with wireTypes := s.wireTypes.insert d.name .constant, constantsRaw := s.constantsRaw.insert d.name d.value }

def step1Wire (fixedNames : List String) (s : Step1) (d : WireDecl) : Step1 :=
  let s := checkDoubleDeclare fixedNames s d.name
  { s with wires := s.wires.insert d.name d.width, wireTypes := s.wireTypes.insert d.name .normal,
           needed := setInsert s.needed d.name }

/-- one assigned name of `a = b = expr` -/
def step1Name (fixedOut : List String) (value : Ex) (s : Step1) (name : String) : Step1 :=
  let errs : List Diag :=
    if s.assigned.contains name then [⟨.DoubleAssignedWire, [name]⟩]
    else if fixedOut.contains name then [⟨.DoubleAssignedFixedOutWire, [name]⟩] else []
  { s with errors := s.errors ++ errs, assignments := s.assignments.insert name value,
           assigned := setInsert s.assigned name }

def step1Assign (fixedOut : List String) (s : Step1) (a : Assignment) : Step1 :=
  a.names.foldl (step1Name fixedOut a.value) s

def step1Stmt (fixedNames fixedOut : List String) (s : Step1) : Stmt → Step1
  | .consts ds => ds.foldl (step1Const fixedNames) s
  | .wires ds => ds.foldl (step1Wire fixedNames) s
  | .assigns as => as.foldl (step1Assign fixedOut) s
  | .bank b => { s with banksRaw := s.banksRaw ++ [b] }

def step1Init (fixed : List FixedFunction) : Step1 :=
  fixed.foldl (fun s f =>
    let s := f.inWires.foldl (fun s (w : String × Nat) =>
      { s with wireTypes := s.wireTypes.insert w.1 .builtinInput, wires := s.wires.insert w.1 (.bits w.2) }) s
    match f.outWire with
    | some (n, w) => { s with wireTypes := s.wireTypes.insert n .builtinOutput, wires := s.wires.insert n (.bits w) }
    | none => s) {}

/-- diagnostics for constants that read a wire or an undeclared name -/
def constRefErrors (s : Step1) : List Diag :=
  s.constantsRaw.flatMap fun (p : String × Ex) =>
    (dedupS (refs p.2)).flatMap fun inName =>
      let isConstant := s.constantsRaw.contains inName
      if s.wires.contains inName && !isConstant then
        List.replicate (occurrences p.2 inName) ⟨.NonConstantWireRead, [inName]⟩
      else if !isConstant then
        List.replicate (occurrences p.2 inName) ⟨.UndeclaredWireRead, [inName]⟩
      else []

structure Step3 where
  banks : List RegisterBank := []
  errors : List Diag := []
  seenRegisters : List String := []
  defaulted : List String := []
  wireTypes : AMap WireType
  registerIns : List String := []

structure BankAcc where
  signals : List (String × String × Width) := []
  defaults : AMap WireValue := []

/-- the checks made on a register before its default is evaluated: the diagnostics and the updated list of
    register signal names seen so far -/
def regPre (s1 : Step1) (constants : AMap WireValue) (bank inName outName : String) (acc : BankAcc)
    (seenRegisters : List String) (r : RegDecl) : List Diag × List String :=
  let e1 : List Diag := (dedupS (refs r.default)).flatMap fun n =>
    if s1.wires.contains n && !constants.contains n then List.replicate (occurrences r.default n) ⟨.NonConstantWireRead, [n]⟩ else []
  let e2 : List Diag := [inName, outName].flatMap fun n =>
    if s1.declared.contains n then [⟨.RedeclaredWire, [n]⟩] else []
  let e3 : List Diag := if acc.defaults.contains outName then [⟨.DuplicateRegister, [bank, r.name]⟩] else []
  let e4 : List Diag := if s1.assignments.contains outName then [⟨.DoubleAssignedRegisterWire, [outName]⟩] else []
  let e5 : List Diag := if seenRegisters.contains outName then [⟨.DoubleDeclaredRegisterOutWire, [outName]⟩] else []
  let seen1 : List String := if seenRegisters.contains outName then seenRegisters else seenRegisters ++ [outName]
  let e6 : List Diag := if seen1.contains inName then [⟨.DoubleDeclaredRegisterOutWire, [inName]⟩] else []
  let seen : List String := if seen1.contains inName then seen1 else seen1 ++ [inName]
  (e1 ++ e2 ++ e3 ++ e4 ++ e5 ++ e6, seen)

/-- check, fix up and evaluate a register's default, and record the register -/
def regEval (fl : Flags) (constants : AMap WireValue) (bank inName outName : String) (s : Step3) (acc : BankAcc) (r : RegDecl) :
    Step3 × BankAcc :=
  let cw : AMap Width := constants.map (fun p => (p.1, p.2.width))
  match checkFixEval fl cw.toCtx constants.toEnv r.default with
  | .ok value =>
    let e7 : List Diag := match value.width.combine r.width with
      | some _ => []
      | none => [⟨.MismatchedRegisterDefaultWidths, [bank, r.name]⟩]
    match asWidth value r.width with
    | .ok dv =>
      ({ s with errors := s.errors ++ e7, registerIns := s.registerIns ++ [inName] },
       { signals := acc.signals ++ [(inName, outName, r.width)], defaults := acc.defaults.insert outName dv })
    | .error _ => ({ s with errors := s.errors ++ e7 ++ panicDiag }, acc)
  | .error ds => ({ s with errors := s.errors ++ ds }, acc)

def step3Register (fl : Flags) (s1 : Step1) (constants : AMap WireValue) (bank : String) (inP outP : Char)
    (st : Step3 × BankAcc) (r : RegDecl) : Step3 × BankAcc :=
  let (s, acc) := st
  let inName := String.ofList [inP, '_'] ++ r.name
  let outName := String.ofList [outP, '_'] ++ r.name
  let s := { s with wireTypes := (s.wireTypes.insert inName .bankInput).insert outName .bankOutput }
  let pre := regPre s1 constants bank inName outName acc s.seenRegisters r
  let s := { s with seenRegisters := pre.2, errors := s.errors ++ pre.1 }
  if !pre.1.isEmpty then (s, acc) else regEval fl constants bank inName outName s acc r

def step3Bank (fl : Flags) (cls : CharClass) (s1 : Step1) (constants : AMap WireValue) (s : Step3) (b : BankDecl) : Step3 :=
  match b.name.toList with
  | [inP, outP] =>
    if !cls.isLower inP || !cls.isUpper outP then { s with errors := s.errors ++ [⟨.InvalidRegisterBankName, [b.name]⟩] } else
    let stall := "stall_" ++ String.ofList [outP]
    let bubble := "bubble_" ++ String.ofList [outP]
    let e0 : List Diag := [stall, bubble].flatMap fun n => if s1.declared.contains n then [⟨.RedeclaredWire, [n]⟩] else []
    let d := if s1.assignments.contains stall then s.defaulted else setInsert s.defaulted stall
    let d := if s1.assignments.contains bubble then d else setInsert d bubble
    let s := { s with errors := s.errors ++ e0, defaulted := d,
                      wireTypes := (s.wireTypes.insert stall .bankSpecial).insert bubble .bankSpecial }
    let (s, acc) := b.regs.foldl (step3Register fl s1 constants b.name inP outP) (s, {})
    { s with banks := s.banks ++ [{ label := b.name, signals := acc.signals, defaults := acc.defaults, stall := stall, bubble := bubble }] }
  | _ => { s with errors := s.errors ++ [⟨.InvalidRegisterBankName, [b.name]⟩] }

/-- `for p in pairs { m.insert(p.0, p.1) }` -/
def insertAll {α : Type} (m : AMap α) (pairs : List (String × α)) : AMap α := pairs.foldl (fun m p => m.insert p.1 p.2) m

/-- the widths the loop over the register banks records: per signal the output and the input wire, then the two control signals -/
def bankPairs (banks : List RegisterBank) : List (String × Width) :=
  banks.flatMap fun b => (b.signals.flatMap fun sg => [(sg.2.1, sg.2.2), (sg.1, sg.2.2)]) ++ [(b.stall, .bits 1), (b.bubble, .bits 1)]
def bankOuts (banks : List RegisterBank) : List String := banks.flatMap fun b => b.signals.map (·.2.1)
def bankIns (banks : List RegisterBank) : List String := banks.flatMap fun b => b.signals.map (·.1)
/-- step 5: the resolved constants with their widths, in the order of `constants_raw` -/
def constPairs (keys : List String) (constants : AMap WireValue) : List (String × Width) :=
  keys.filterMap fun k => (constants.get? k).map fun v => (k, v.width)

def Program.new (fl : Flags) (cls : CharClass) (o : Orders) (fixed : List FixedFunction) (stmts : List Stmt) : C Program :=
  let fixedNames := dedupS (fixed.flatMap fun f => f.inWires.map (·.1) ++ (match f.outWire with | some (n, _) => [n] | none => []))
  let fixedOut := fixed.filterMap fun f => f.outWire.map (·.1)
  -- Step 1
  let s1 := stmts.foldl (step1Stmt fixedNames fixedOut) (step1Init fixed)
  let eAssignedConst : List Diag := s1.assigned.flatMap fun n =>
    if s1.constantsRaw.contains n then [⟨.AssignedConstant, [n]⟩] else []
  let errs1 := s1.errors ++ eAssignedConst ++ constRefErrors s1
  if !errs1.isEmpty then .error errs1 else
  -- Step 2
  match resolveConstants fl o s1.constantsRaw with
  | .error ds => .error ds
  | .ok constants =>
  -- Step 3
  let s3 := s1.banksRaw.foldl (step3Bank fl cls s1 constants) { wireTypes := s1.wireTypes }
  -- the loop over the banks' signals fills three independent tables: the widths, the known values (register
  -- outputs) and the wires that need an assignment (register inputs)
  let wires := insertAll s1.wires (bankPairs s3.banks)
  let known := (bankOuts s3.banks).foldl setInsert []
  let needed := (bankIns s3.banks).foldl setInsert s1.needed
  -- Step 4
  let e4 : List Diag := needed.flatMap fun n =>
    if s1.assignments.contains n then [] else
    if s1.declared.contains n then [⟨.UnsetWire, [n]⟩]
    else if s3.registerIns.contains n then [⟨.UnsetRegisterInputWire, [n]⟩]
    else [⟨.UnsetBuiltinWire, [n]⟩]
  -- Step 5
  let cpairs := constPairs s1.constantsRaw.keys constants
  let wires := insertAll wires cpairs
  let known := (cpairs.map (·.1)).foldl setInsert known
  let missingConst := s1.constantsRaw.keys.any (fun k => !constants.contains k)      -- `.unwrap()` on a missing constant
  let errs3 := s3.errors ++ e4
  if !errs3.isEmpty then .error errs3 else
  if missingConst then .error panicDiag else
  match assignmentsToActions fl o s1.assignments wires known fixed s1.declared constants with
  | .error ds => .error ds
  | .ok actions =>
    .ok { constants := constants, actions := actions, banks := s3.banks, defaulted := s3.defaulted, wireTypes := s3.wireTypes }
