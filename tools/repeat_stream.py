#!/usr/bin/env python3
"""S-REPEAT: the real binary run several times on the same file and image (every process has fresh hash seeds): exit
status and standard output must be identical in the default, -q and -t modes.  Lines `<request>\t<observed result>`."""
import os
import random
import shutil
import subprocess

PROGS = {
    "halt": "register cC { n:8 = 0; } c_n = C_n + 1; pc = 0; wire a:8, b:8, c:8; a = C_n; b = a + 1; c = b ^ a;\n"
            "reg_dstE = 1; reg_inputE = 0x100; Stat = [C_n == 3 : STAT_HLT; 1 : STAT_AOK];\n",
    "banks": "register fD { x:8 = 1; y:16 = 2; } register dE { z:4 = 3; } register qZ { w:64 = 7; }\n"
             "f_x = D_x + 1; f_y = D_y; d_z = E_z; q_w = Z_w * 3; pc = 0; Stat = [D_x == 4 : STAT_INS; 1 : STAT_AOK];\n",
    "rejected": "wire carry:1, borrow:1, spare:8; pc = 0; Stat = STAT_AOK;\n",
    # a run that aborts with a division by zero in a cycle in which the instruction line is printed before or after the failing
    # assignment depending on the evaluation order (known finding D29)
    "div-tie": "register cC { n:8 = 0; } c_n = C_n + 1; wire y:8; y = C_n; wire x:8; x = 8 / (2 - y); pc = 0; Stat = STAT_AOK;\n",
    # the same abort where the order is forced by the dependencies: must be deterministic
    "div-early": "register cC { n:8 = 0; } c_n = C_n + 1; wire x:8; x = 8 / (2 - C_n); pc = 0; Stat = STAT_AOK;\n",
}
MODES = {"default": [], "q": ["-q"], "t": ["-t"]}


def generate(binary, seed, count, outfile, workdir):
    rnd = random.Random(seed)
    shutil.rmtree(workdir, ignore_errors=True)
    os.makedirs(workdir)
    open(os.path.join(workdir, "h.yo"), "w").write("0x000: 30f40001000000000000 |   irmovq $256, %rsp\n0x00a: 00                   |   halt\n")
    for n, t in PROGS.items():
        open(os.path.join(workdir, n + ".hcl"), "w").write(t)
    with open(outfile, "w", encoding="utf-8") as f:
        for i in range(count):
            prog = rnd.choice(sorted(PROGS))
            mode = rnd.choice(sorted(MODES))
            runs = 12
            seen = set()
            for _ in range(runs):
                try:
                    p = subprocess.run([binary] + MODES[mode] + [prog + ".hcl", "h.yo", "6"], cwd=workdir, stdin=subprocess.DEVNULL,
                                       stdout=subprocess.PIPE, stderr=subprocess.PIPE, timeout=60)
                    seen.add((p.returncode, p.stdout))
                except subprocess.TimeoutExpired:
                    seen.add((-1, b"timeout"))
            impl = "same" if len(seen) == 1 else "VARIES %d different (status, stdout) pairs in %d runs" % (len(seen), runs)
            f.write("(repeat (prog %s) (mode %s) (runs %d) (case %d))\t%s\n" % (prog, mode, runs, i, impl))
