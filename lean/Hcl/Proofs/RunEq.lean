import Hcl.Proofs.StateEq
import Hcl.Theorems.C01
open Rust

/-! Two programs that differ only in the order of their value-writing actions run alike. -/

theorem split_unique {α : Type} (p : α → Bool) : ∀ (a b c d : List α), a ++ b = c ++ d →
    (∀ x ∈ a, p x = true) → (∀ x ∈ b, p x = false) → (∀ x ∈ c, p x = true) → (∀ x ∈ d, p x = false) → a = c ∧ b = d
  | [], b, [], d, h, _, _, _, _ => ⟨rfl, by simpa using h⟩
  | [], b, y :: c, d, h, _, hb, hc, _ => by
    simp only [List.nil_append, List.cons_append] at h
    have h1 := hb y (by rw [h]; exact List.mem_cons_self)
    have h2 := hc y List.mem_cons_self
    rw [h1] at h2; cases h2
  | x :: a, b, [], d, h, ha, _, _, hd => by
    simp only [List.nil_append, List.cons_append] at h
    have h1 := hd x (by rw [← h]; exact List.mem_cons_self)
    have h2 := ha x List.mem_cons_self
    rw [h1] at h2; cases h2
  | x :: a, b, y :: c, d, h, ha, hb, hc, hd => by
    simp only [List.cons_append, List.cons.injEq] at h
    obtain ⟨h1, h2⟩ := split_unique p a b c d h.2 (fun z hz => ha z (List.mem_cons_of_mem _ hz)) hb
      (fun z hz => hc z (List.mem_cons_of_mem _ hz)) hd
    exact ⟨by rw [h.1, h1], h2⟩

/-- value-writing actions leave the registers, the memory, the cycle count and the status alone -/
theorem execPure_keeps (fl : Flags) : ∀ (acts : List Action) (s t : State), (∀ a ∈ acts, a.isPure = true) →
    execActions fl acts s = .ok t → t.regs = s.regs ∧ t.mem = s.mem ∧ t.cycle = s.cycle ∧ t.lastStatus = s.lastStatus
  | [], s, t, _, h => by simp [execActions, pure, Except.pure] at h; rw [h]; exact ⟨rfl, rfl, rfl, rfl⟩
  | a :: rest, s, t, hp, h => by
    simp only [execActions] at h
    obtain ⟨s₁, h₁, h₂⟩ := bind_ok h
    rw [execAction_pure fl s a (hp a List.mem_cons_self)] at h₁
    obtain ⟨v, _, h₁⟩ := bind_ok h₁
    simp only [pure, Except.pure, Except.ok.injEq] at h₁
    obtain ⟨k1, k2, k3, k4⟩ := execPure_keeps fl rest s₁ t (fun b hb => hp b (List.mem_cons_of_mem _ hb)) h₂
    rw [← h₁] at k1 k2 k3 k4
    exact ⟨k1, k2, k3, k4⟩

/-- what `C12_accepted` establishes about two builds of one program -/
structure SameActions (p₁ p₂ : Program) : Prop where
  banks : p₁.banks = p₂.banks
  split : ∃ q₁ q₂ f base, p₁.actions = q₁ ++ f ∧ p₂.actions = q₂ ++ f ∧ ValidFrom [] q₁ ∧ ValidFrom [] q₂ ∧
    (∀ a, a ∈ q₁ ↔ a ∈ q₂) ∧ ReadsEarlier base q₁ ∧ (∀ x ∈ base, x ∉ q₁.map Action.out) ∧ (∀ a ∈ f, a.isPure = false)

theorem actions_stateEq (fl : Flags) (p₁ p₂ : Program) (hsa : SameActions p₁ p₂) (s₁ s₂ t₁ t₂ : State) (h : StateEq s₁ s₂)
    (h₁ : execActions fl p₁.actions s₁ = .ok t₁) (h₂ : execActions fl p₂.actions s₂ = .ok t₂) : StateEq t₁ t₂ := by
  obtain ⟨q₁, q₂, f, base, e₁, e₂, hv₁, hv₂, hsame, hre, hbase, hf⟩ := hsa.split
  -- move the first run to the second start state
  have hc := execActions_congr fl p₁.actions s₁ s₂ h
  rw [h₁] at hc
  cases h₁' : execActions fl p₁.actions s₂ with
  | error e => rw [h₁'] at hc; exact hc.elim
  | ok t₁' =>
    rw [h₁'] at hc
    apply StateEq.trans hc
    rw [e₁, execActions_append] at h₁'
    rw [e₂, execActions_append] at h₂
    obtain ⟨u₁, hu₁, hf₁⟩ := bind_ok h₁'
    obtain ⟨u₂, hu₂, hf₂⟩ := bind_ok h₂
    have hvals := C01_order_independent fl q₁ q₂ [] [] s₂ u₁ u₂ base hv₁ hv₂ hsame hre hbase
      (by intro a ha; cases ha) (by intro a ha; cases ha) (by rw [List.append_nil]; exact hu₁) (by rw [List.append_nil]; exact hu₂)
    obtain ⟨a1, a2, a3, a4⟩ := execPure_keeps fl q₁ s₂ u₁ (validFrom_pure q₁ [] hv₁) hu₁
    obtain ⟨b1, b2, b3, b4⟩ := execPure_keeps fl q₂ s₂ u₂ (validFrom_pure q₂ [] hv₂) hu₂
    have hu : StateEq u₁ u₂ := ⟨funext hvals, by rw [a1, b1], by rw [a2, b2], by rw [a3, b3], by rw [a4, b4]⟩
    have hc2 := execActions_congr fl f u₁ u₂ hu
    rw [hf₁, hf₂] at hc2
    exact hc2

theorem stepCycle_stateEq (fl : Flags) (p₁ p₂ : Program) (hsa : SameActions p₁ p₂) (s₁ s₂ t₁ t₂ : State) (h : StateEq s₁ s₂)
    (h₁ : stepCycle fl p₁ s₁ = .ok t₁) (h₂ : stepCycle fl p₂ s₂ = .ok t₂) : StateEq t₁ t₂ := by
  unfold stepCycle at h₁ h₂
  obtain ⟨u₁, hu₁, h₁⟩ := bind_ok h₁
  obtain ⟨u₂, hu₂, h₂⟩ := bind_ok h₂
  obtain ⟨v₁, hv₁, h₁⟩ := bind_ok h₁
  obtain ⟨v₂, hv₂, h₂⟩ := bind_ok h₂
  have hu := actions_stateEq fl p₁ p₂ hsa s₁ s₂ u₁ u₂ h hu₁ hu₂
  have hb := processBanks_congr p₁.banks u₁.values u₂.values hu.vals
  rw [hsa.banks] at hb hv₁
  rw [hv₁, hv₂] at hb
  simp only [pure, Except.pure, Except.ok.injEq] at h₁ h₂
  rw [← h₁, ← h₂]
  exact ⟨hb, hu.regs, hu.mem, by show u₁.cycle + 1 = u₂.cycle + 1; rw [hu.cycle], hu.status⟩

theorem isDone_stateEq (s₁ s₂ : State) (timeout : Nat) (h : StateEq s₁ s₂) : isDone s₁ timeout = isDone s₂ timeout := by
  have hst : ∀ d, statusOr s₁ d = statusOr s₂ d := by
    intro d
    unfold statusOr
    show (match s₁.values.toEnv "Stat" with | some v => v.bits % 256 | none => d) =
      (match s₂.values.toEnv "Stat" with | some v => v.bits % 256 | none => d)
    rw [h.vals]
  unfold isDone
  rw [hst, h.cycle]

/-- **whole runs**: the two builds stop after the same number of cycles in like states -/
theorem runLoop_stateEq (fl : Flags) (p₁ p₂ : Program) (hsa : SameActions p₁ p₂) (timeout : Nat) :
    ∀ (fuel : Nat) (s₁ s₂ t₁ t₂ : State), StateEq s₁ s₂ →
    runLoop fl p₁ timeout fuel s₁ = some (.ok t₁) → runLoop fl p₂ timeout fuel s₂ = some (.ok t₂) → StateEq t₁ t₂
  | 0, _, _, _, _, _, h₁, _ => by simp [runLoop] at h₁
  | fuel + 1, s₁, s₂, t₁, t₂, h, h₁, h₂ => by
    unfold runLoop at h₁ h₂
    rw [isDone_stateEq s₁ s₂ timeout h] at h₁
    by_cases hd : isDone s₂ timeout = true
    · simp only [hd, if_true, Option.some.injEq, pure, Except.pure, Except.ok.injEq] at h₁ h₂
      rw [← h₁, ← h₂]; exact h
    · simp only [hd, Bool.false_eq_true, if_false] at h₁ h₂
      cases hs₁ : stepCycle fl p₁ s₁ with
      | error e => rw [hs₁] at h₁; simp [throw, throwThe, MonadExceptOf.throw] at h₁
      | ok s₁' =>
        cases hs₂ : stepCycle fl p₂ s₂ with
        | error e => rw [hs₂] at h₂; simp [throw, throwThe, MonadExceptOf.throw] at h₂
        | ok s₂' =>
          rw [hs₁] at h₁; rw [hs₂] at h₂
          exact runLoop_stateEq fl p₁ p₂ hsa timeout fuel s₁' s₂' t₁ t₂
            (stepCycle_stateEq fl p₁ p₂ hsa s₁ s₂ s₁' s₂' h hs₁ hs₂) h₁ h₂
