import Hcl.Proofs.NoPanic
import Hcl.Proofs.Accepted

/-! The model of `Program::new` never reports an internal error (`InternalPanic`: an `assert!`, `unwrap()` or
    `panic!` of the real code, which the parser's `catch_unwind` would turn into "Internal parser error"). -/

theorem checkFixEval_np (fl : Flags) (Γ : Ctx) (κ : Env) (e : Ex) (ds : List Diag)
    (hΓ : CtxOK Γ) (hon : EnvOn Γ κ (refs e)) (hwf : wfEx e = true) (h : checkFixEval fl Γ κ e = .error ds) :
    NoPanic ds := by
  unfold checkFixEval at h
  cases hc : check fl Γ κ e with
  | error ds' =>
    rw [hc] at h
    simp only [Except.error.injEq] at h
    subst h
    exact check_np fl Γ κ e _ hc
  | ok w =>
    rw [hc] at h
    simp only at h
    obtain ⟨_, _, hcorr⟩ := ev_correct (fl := fl) (Γ := Γ) (κ := κ) (σ := κ) hΓ e w hon hwf hc
    cases hd : Spec.dv Γ (val κ) e with
    | none =>
      rw [hd] at hcorr
      simp only at hcorr
      rw [hcorr] at h
      simp only [Except.error.injEq] at h
      rw [← h]
      intro d hd'
      simp at hd'
      subst hd'
      simp [Err.toDiag]
    | some x =>
      rw [hd] at hcorr
      simp only at hcorr
      rw [hcorr.1] at h
      simp at h

/-! ### step 1 -/

section
variable (FN FO : List String)

theorem checkDoubleDeclare_np (s : Step1) (name : String) (h : NoPanic s.errors) :
    NoPanic (checkDoubleDeclare FN s name).errors := by
  unfold checkDoubleDeclare
  apply noPanic_append h
  split
  · intro d hd; simp at hd; subst hd; simp
  · split
    · intro d hd; simp at hd; subst hd; simp
    · exact noPanic_nil

theorem step1Stmt_np (s : Step1) (st : Stmt) (h : NoPanic s.errors) : NoPanic (step1Stmt FN FO s st).errors := by
  have fold_np : ∀ {α : Type} (f : Step1 → α → Step1), (∀ s a, NoPanic s.errors → NoPanic (f s a).errors) →
      ∀ (l : List α) (s : Step1), NoPanic s.errors → NoPanic (l.foldl f s).errors := by
    intro α f hf l
    induction l with
    | nil => intro s hs; exact hs
    | cons a rest ih => intro s hs; exact ih _ (hf s a hs)
  cases st with
  | consts ds =>
    apply fold_np (step1Const FN) _ ds s h
    intro s d hs
    exact checkDoubleDeclare_np FN s d.name hs
  | wires ds =>
    apply fold_np (step1Wire FN) _ ds s h
    intro s d hs
    exact checkDoubleDeclare_np FN s d.name hs
  | assigns as =>
    apply fold_np (step1Assign FO) _ as s h
    intro s a hs
    apply fold_np (step1Name FO a.value) _ a.names s hs
    intro s n hs
    unfold step1Name
    apply noPanic_append hs
    split
    · intro d hd; simp at hd; subst hd; simp
    · split
      · intro d hd; simp at hd; subst hd; simp
      · exact noPanic_nil
  | bank b => exact h

theorem step1_fold_np (stmts : List Stmt) (s : Step1) (h : NoPanic s.errors) :
    NoPanic (stmts.foldl (step1Stmt FN FO) s).errors := by
  induction stmts generalizing s with
  | nil => exact h
  | cons st rest ih => exact ih _ (step1Stmt_np FN FO s st h)
end

/-! ### step 2: `resolve_constants` -/

theorem addDeps_nodes_upper (known : List String) (target : String) : ∀ (srcs : List String) (g : GBuild) (n : Node),
    n ∈ (addDeps known target srcs g).nodes → n ∈ g.nodes ∨ n = target ∨ n ∈ srcs
  | [], g, n, h => Or.inl h
  | s :: rest, g, n, h => by
    unfold addDeps at h
    simp only [List.foldl_cons] at h
    by_cases hk : known.contains s = true
    · simp only [hk, if_true] at h
      rcases addDeps_nodes_upper known target rest g n h with h1 | h1 | h1
      · exact Or.inl h1
      · exact Or.inr (Or.inl h1)
      · exact Or.inr (Or.inr (List.mem_cons_of_mem _ h1))
    · have hk' : known.contains s = false := by simpa using hk
      simp only [hk', Bool.false_eq_true, if_false] at h
      rcases addDeps_nodes_upper known target rest (g.insert s target) n h with h1 | h1 | h1
      · have h1' : n ∈ setInsert (setInsert g.nodes s) target := h1
        rw [mem_setInsert, mem_setInsert] at h1'
        rcases h1' with (h2 | h2) | h2
        · exact Or.inl h2
        · exact Or.inr (Or.inr (by rw [h2]; exact List.mem_cons_self))
        · exact Or.inr (Or.inl h2)
      · exact Or.inr (Or.inl h1)
      · exact Or.inr (Or.inr (List.mem_cons_of_mem _ h1))

theorem addDeps_nodes_mono (known : List String) (target : String) : ∀ (srcs : List String) (g : GBuild) (n : Node),
    n ∈ g.nodes → n ∈ (addDeps known target srcs g).nodes
  | [], _, _, h => h
  | s :: rest, g, n, h => by
    unfold addDeps
    simp only [List.foldl_cons]
    split
    · exact addDeps_nodes_mono known target rest g n h
    · exact addDeps_nodes_mono known target rest (g.insert s target) n (g.nodes_insert_mono s target n h)

def constGraphFrom (l : List (String × Ex)) (g : GBuild) : GBuild :=
  l.foldl (fun g (p : String × Ex) => (addDeps [] p.1 (dedupS (refs p.2)) g).addNode p.1) g

theorem constGraph_eq (exprs : AMap Ex) : constGraph exprs = constGraphFrom exprs {} := by
  unfold constGraph constGraphFrom addDeps
  congr 1

theorem constGraphFrom_spec : ∀ (l : List (String × Ex)) (g : GBuild),
    g.WF → (l.map (·.1)).Nodup → (∀ p ∈ l, ∀ e ∈ g.edges, e.2 ≠ p.1) →
    (constGraphFrom l g).WF ∧ (∀ p ∈ l, p.1 ∈ (constGraphFrom l g).nodes) ∧
    (∀ n ∈ (constGraphFrom l g).nodes, n ∈ g.nodes ∨ ∃ p ∈ l, n = p.1 ∨ n ∈ refs p.2)
  | [], g, wf, _, _ => ⟨wf, by simp, fun n hn => Or.inl hn⟩
  | p :: rest, g, wf, hnd, hfresh => by
    simp only [List.map_cons, List.nodup_cons] at hnd
    have hnew : ∀ s ∈ dedupS (refs p.2), (s, p.1) ∉ g.edges := by
      intro s _ hm
      exact hfresh p List.mem_cons_self (s, p.1) hm rfl
    obtain ⟨a1, a2, a3⟩ := addDeps_spec [] p.1 (dedupS (refs p.2)) g wf (nodup_dedupS _) hnew
    have wf1 := (addDeps [] p.1 (dedupS (refs p.2)) g).wf_addNode p.1 a1
    have hfresh' : ∀ q ∈ rest, ∀ e ∈ ((addDeps [] p.1 (dedupS (refs p.2)) g).addNode p.1).edges, e.2 ≠ q.1 := by
      intro q hq e he
      have he' : e ∈ (addDeps [] p.1 (dedupS (refs p.2)) g).edges := he
      rcases (a3 e).mp he' with h | ⟨h, _, _⟩
      · exact hfresh q (List.mem_cons_of_mem _ hq) e h
      · rw [h]; intro e2
        exact hnd.1 (List.mem_map.mpr ⟨q, hq, e2.symm⟩)
    obtain ⟨b1, b2, b3⟩ := constGraphFrom_spec rest _ wf1 hnd.2 hfresh'
    have hstep : constGraphFrom (p :: rest) g =
        constGraphFrom rest ((addDeps [] p.1 (dedupS (refs p.2)) g).addNode p.1) := rfl
    rw [hstep]
    refine ⟨b1, ?_, ?_⟩
    · intro q hq
      rcases List.mem_cons.mp hq with h | h
      · subst h
        -- the node was added and nodes only grow
        have hmono : ∀ (l : List (String × Ex)) (g : GBuild) (n : Node), n ∈ g.nodes → n ∈ (constGraphFrom l g).nodes := by
          intro l
          induction l with
          | nil => intro g n hn; exact hn
          | cons x xs ih =>
            intro g n hn
            apply ih
            show n ∈ setInsert _ x.1
            rw [mem_setInsert]
            left
            exact addDeps_nodes_mono [] x.1 (dedupS (refs x.2)) g n hn
        exact hmono rest _ _ ((mem_setInsert _ _ _).mpr (Or.inr rfl))
      · exact b2 q h
    · intro n hn
      rcases b3 n hn with h | ⟨q, hq, h⟩
      · have h' : n ∈ setInsert (addDeps [] p.1 (dedupS (refs p.2)) g).nodes p.1 := h
        rw [mem_setInsert] at h'
        rcases h' with h1 | h1
        · rcases addDeps_nodes_upper [] p.1 (dedupS (refs p.2)) g n h1 with h2 | h2 | h2
          · exact Or.inl h2
          · exact Or.inr ⟨p, List.mem_cons_self, Or.inl h2⟩
          · exact Or.inr ⟨p, List.mem_cons_self, Or.inr ((mem_dedupS _ _).mp h2)⟩
        · exact Or.inr ⟨p, List.mem_cons_self, Or.inl h1⟩
      · exact Or.inr ⟨q, List.mem_cons_of_mem _ hq, h⟩
