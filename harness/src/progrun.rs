//! Run an HCL program through the real code (parser, Program::new, step) and describe what happened.
use hclrs::verif_hooks as hk;
use hclrs::{parse_y86_hcl, FileContents, RunningProgram};
use std::fmt::Write;
use std::panic::{catch_unwind, AssertUnwindSafe};

pub fn flags_sexp() -> String {
    let f = hk::strictness_features();
    format!("(flags {})", f.iter().map(|b| if *b { "1" } else { "0" }).collect::<Vec<_>>().join(" "))
}

/// classification of the non-ASCII characters of the text (for register-bank names)
pub fn cls_sexp(text: &str) -> String {
    let mut seen = std::collections::BTreeSet::new();
    for c in text.chars() { if !c.is_ascii() { seen.insert(c); } }
    let mut s = String::from("(cls");
    for c in seen {
        write!(s, " ({} {} {})", c as u32, if c.is_lowercase() { 1 } else { 0 }, if c.is_uppercase() { 1 } else { 0 }).unwrap();
    }
    s.push(')');
    s
}

pub fn diag_string(summaries: &[hk::ErrorSummary]) -> String {
    let mut items: Vec<String> = summaries.iter().map(|d| {
        let mut s = String::from(d.kind);
        if d.kind != "WireLoop" && d.kind != "InternalParserErrorNear" {
            for n in &d.names { s.push(':'); s.push_str(n); }
        }
        s
    }).collect();
    items.sort();
    items.join(" ")
}

pub fn width_str(w: Option<u8>) -> String { match w { Some(n) => n.to_string(), None => String::from("u") } }

pub fn state_string(rp: &RunningProgram) -> String {
    let mut s = String::from("{");
    let vals: Vec<String> = rp.verif_values().iter().map(|(n, b, w)| format!("{}={}/{}", n, b, width_str(*w))).collect();
    s.push_str(&vals.join(","));
    s.push('|');
    s.push_str(&rp.verif_registers().iter().map(|r| r.to_string()).collect::<Vec<_>>().join(","));
    s.push('|');
    s.push_str(&rp.verif_memory().iter().map(|(a, b)| format!("{}:{}", a, b)).collect::<Vec<_>>().join(","));
    s.push('|');
    match rp.verif_last_status() { Some(n) => s.push_str(&n.to_string()), None => s.push('-') }
    s.push('}');
    s
}


/// minimal reader for the S-expressions of `verif_hooks::statements_sexp` (atoms never contain blanks or parentheses)
enum Sx { A(String), L(Vec<Sx>) }

fn sx_parse(text: &str) -> Option<Sx> {
    let mut stack: Vec<Vec<Sx>> = vec![Vec::new()];
    let mut cur = String::new();
    fn flush(cur: &mut String, stack: &mut Vec<Vec<Sx>>) {
        if !cur.is_empty() { let a = std::mem::take(cur); stack.last_mut().unwrap().push(Sx::A(a)); }
    }
    for c in text.chars() {
        match c {
            '(' => { flush(&mut cur, &mut stack); stack.push(Vec::new()); }
            ')' => {
                flush(&mut cur, &mut stack);
                let top = stack.pop()?;
                stack.last_mut()?.push(Sx::L(top));
            }
            ' ' | '\t' | '\n' | '\r' => flush(&mut cur, &mut stack),
            _ => cur.push(c),
        }
    }
    flush(&mut cur, &mut stack);
    if stack.len() != 1 { return None; }
    let mut top = stack.pop()?;
    if top.len() != 1 { return None; }
    top.pop()
}

/// `(sspans S..)`: every statement-level span the real parser stored in the AST (`verif_hooks::statements_sexp` prints
/// them all), statement by statement in source order, as offsets relative to the start of the USER text (the offset in
/// preamble + text minus `prelen`; negative for the statements of the preamble itself):
///   `(wire (s e)..)`                      WireDecl.span of every declaration
///   `(const (ns ne vs ve)..)`             ConstDecl.name_span, then the span of the value
///   `(assign (s e ((ns ne)..) vs ve)..)`  Assignment.span, the span of every target name, the span of the value
///   `(bank s e ns ne (rs re vs ve)..)`    RegisterBankDecl.span, .name_span; per register RegisterDecl.span and the
///                                         span of the default value
pub fn sspans_field(stmts_sexp: &str, prelen: usize) -> String {
    fn rel(x: &Sx, prelen: usize) -> Option<i64> {
        match x { Sx::A(a) => a.parse::<i64>().ok().map(|v| v - prelen as i64), _ => None }
    }
    fn pair(out: &mut String, a: &Sx, b: &Sx, prelen: usize) -> Option<()> {
        write!(out, "{} {}", rel(a, prelen)?, rel(b, prelen)?).ok()
    }
    // the span of an expression `(tag s e ..)`
    fn espan(out: &mut String, e: &Sx, prelen: usize) -> Option<()> {
        match e { Sx::L(items) if items.len() >= 3 => pair(out, &items[1], &items[2], prelen), _ => None }
    }
    fn go(stmts_sexp: &str, prelen: usize) -> Option<String> {
        let top = match sx_parse(stmts_sexp)? { Sx::L(l) => l, _ => return None };
        let mut out = String::from("(sspans");
        for st in &top {
            let items = match st { Sx::L(l) => l, _ => return None };
            let tag = match items.first()? { Sx::A(a) => a.as_str(), _ => return None };
            match tag {
                "wire" => {
                    out.push_str(" (wire");
                    for d in &items[1..] {
                        match d { Sx::L(f) if f.len() == 4 => { out.push_str(" ("); pair(&mut out, &f[2], &f[3], prelen)?; out.push(')'); } _ => return None }
                    }
                    out.push(')');
                }
                "const" => {
                    out.push_str(" (const");
                    for d in &items[1..] {
                        match d {
                            Sx::L(f) if f.len() == 4 => { out.push_str(" ("); pair(&mut out, &f[1], &f[2], prelen)?; out.push(' '); espan(&mut out, &f[3], prelen)?; out.push(')'); }
                            _ => return None,
                        }
                    }
                    out.push(')');
                }
                "assign" => {
                    out.push_str(" (assign");
                    for a in &items[1..] {
                        match a {
                            Sx::L(f) if f.len() == 4 => {
                                out.push_str(" ("); pair(&mut out, &f[0], &f[1], prelen)?; out.push_str(" (");
                                let names = match &f[2] { Sx::L(l) => l, _ => return None };
                                for (i, n) in names.iter().enumerate() {
                                    match n { Sx::L(g) if g.len() == 3 => { if i > 0 { out.push(' '); } out.push('('); pair(&mut out, &g[1], &g[2], prelen)?; out.push(')'); } _ => return None }
                                }
                                out.push_str(") "); espan(&mut out, &f[3], prelen)?; out.push(')');
                            }
                            _ => return None,
                        }
                    }
                    out.push(')');
                }
                "bank" => {
                    if items.len() < 6 { return None; }
                    out.push_str(" (bank "); pair(&mut out, &items[2], &items[3], prelen)?; out.push(' '); pair(&mut out, &items[4], &items[5], prelen)?;
                    for r in &items[6..] {
                        match r {
                            Sx::L(f) if f.len() == 5 => { out.push_str(" ("); pair(&mut out, &f[2], &f[3], prelen)?; out.push(' '); espan(&mut out, &f[4], prelen)?; out.push(')'); }
                            _ => return None,
                        }
                    }
                    out.push(')');
                }
                "error" => out.push_str(" (error)"),
                _ => return None,
            }
        }
        out.push(')');
        Some(out)
    }
    go(stmts_sexp, prelen).unwrap_or_else(|| String::from("(sspans UNREADABLE)"))
}

/// the two fields every request about a parsed text carries: the statement-level spans and the statements
pub fn stmts_fields(stmts_sexp: &str) -> String {
    format!("{} (stmts {})", sspans_field(stmts_sexp, hk::y86_preamble().len()), stmts_sexp)
}

pub struct ProgOutcome {
    pub request: Option<String>,     // None when the text does not parse (no AST to hand to the model)
    pub result: String,
    pub accepted: bool,
}

/// the dependency loops a rejection reports: the names the error value carries and the `'x' depends on 'y'` links
/// of the rendered message (what the user reads), for validation against the statements by the specification
fn loops_of(e: &hclrs::Error, contents: &FileContents) -> String {
    let sums = hk::error_summary(e);
    let cycles: Vec<&Vec<String>> = sums.iter().filter(|d| d.kind == "WireLoop").map(|d| &d.names).collect();
    if cycles.is_empty() { return String::new(); }
    let mut buf: Vec<u8> = Vec::new();
    let _ = e.format_for_contents(&mut buf, contents);
    let text = String::from_utf8_lossy(&buf).into_owned();
    let mut links: Vec<(String, String)> = Vec::new();
    for line in text.lines() {
        if let Some(p) = line.find("' depends on '") {
            let left = &line[..p];
            if let Some(q) = left.rfind('\'') {
                let rest = &line[p + "' depends on '".len()..];
                if let Some(r) = rest.find('\'') { links.push((left[q + 1..].to_string(), rest[..r].to_string())); }
            }
        }
    }
    let mut out = String::new();
    for (k, c) in cycles.iter().enumerate() {
        let l: Vec<String> = if k == 0 { links.iter().map(|(a, b)| format!("({} {})", a, b)).collect() } else { Vec::new() };
        write!(out, "(loop (cycle {}) (links {}))", c.join(" "), l.join(" ")).unwrap();
    }
    out
}

fn run_once(contents: &FileContents, cycles: u32, mem: &[(u64, u8)]) -> (String, bool, String) {
    let actions_out = std::cell::RefCell::new(String::new());
    let result = catch_unwind(AssertUnwindSafe(|| {
        match parse_y86_hcl(contents) {
            Err(e) => {
                // the rendered message must name, in quotes, every wire the diagnostic is about (all kinds but the one that
                // lists the inputs of a component around a '/')
                let mut extra = loops_of(&e, contents);
                {
                    let mut buf: Vec<u8> = Vec::new();
                    let _ = e.format_for_contents(&mut buf, contents);
                    let text = String::from_utf8_lossy(&buf).into_owned();
                    let mut missing: Option<(String, String)> = None;
                    for d in hk::error_summary(&e) {
                        if d.kind == "PartialFixedInput" || d.kind == "WireLoop" || d.kind == "InternalParserErrorNear" { continue; }
                        for n in &d.names {
                            if !text.contains(&format!("'{}'", n)) && missing.is_none() { missing = Some((d.kind.to_string(), n.clone())); }
                        }
                    }
                    match missing {
                        None => extra.push_str("(msgnames 1)"),
                        Some((k, n)) => write!(extra, "(msgnames 0 {} {})", k, crate::streams::sexp_escape(&n)).unwrap(),
                    }
                }
                *actions_out.borrow_mut() = extra;
                (format!("rej {}", diag_string(&hk::error_summary(&e))), false)
            }
            Ok(program) => {
                // the schedule the real code produced, for validation by the model
                let mut acts = String::from("(iactions");
                for a in program.verif_actions() {
                    write!(acts, " ({} ({}) ({}))", a.kind, a.writes.clone().unwrap_or_default(), a.reads.join(" ")).unwrap();
                }
                acts.push(')');
                *actions_out.borrow_mut() = acts;
                let mut rp = RunningProgram::new_y86(program);
                rp.verif_set_memory(mem);
                let mut out = String::from("ok");
                let mut fin = String::from("ok");
                for _ in 0..cycles {
                    match rp.step() {
                        Ok(()) => { out.push(' '); out.push_str(&state_string(&rp)); }
                        Err(e) => { fin = diag_string(&hk::error_summary(&e)); break; }
                    }
                }
                write!(out, " end={}", fin).unwrap();
                (out, true)
            }
        }
    }));
    match result {
        Ok((r, a)) => (r, a, actions_out.into_inner()),
        Err(p) => {
            let msg = if let Some(s) = p.downcast_ref::<String>() { s.clone() }
                      else if let Some(s) = p.downcast_ref::<&str>() { s.to_string() } else { String::from("?") };
            (format!("PANIC {}", msg), false, String::new())
        }
    }
}

/// `user_text` is put after the preamble exactly as `read_y86_hcl` does.  The program is built and run
/// `repeats` times (every build gets fresh hash seeds); all runs must give the same result.
pub fn run_program_rep(user_text: &str, cycles: u32, mem: &[(u64, u8)], extra_fields: &str, repeats: u32) -> ProgOutcome {
    let full = format!("{}{}", hk::y86_preamble(), user_text);
    let parsed = catch_unwind(|| hk::parse_statements(&full));
    let sexp = match parsed {
        Ok(Ok(s)) => Some(s),
        _ => None,
    };
    let contents = FileContents::new_from_data(hk::y86_preamble(), user_text, "t.hcl");
    let mut memf = String::from("(mem");
    for (a, b) in mem { write!(memf, " ({} {})", a, b).unwrap(); }
    memf.push(')');
    match &sexp {
        Some(s) => crate::watch::note(format!("(prog {} {} (cycles {}) {} {} {})", flags_sexp(), cls_sexp(user_text), cycles, memf, extra_fields, stmts_fields(s))),
        None => crate::watch::note_text("prog", user_text),
    }
    let (mut result, accepted, acts) = run_once(&contents, cycles, mem);
    let mut schedules: Vec<String> = vec![acts];
    for _ in 1..repeats {
        let (r2, _, a2) = run_once(&contents, cycles, mem);
        let norm = |x: &str| -> String { if x.starts_with("rej") { x.split(' ').map(|k| if k.starts_with("WireLoop") { "WireLoop" } else { k }).collect::<Vec<_>>().join(" ") } else { x.to_string() } };
        if norm(&r2) != norm(&result) {
            result = format!("NONDETERMINISTIC first: {} other: {}", result, r2);
            break;
        }
        if !schedules.contains(&a2) { schedules.push(a2); }
    }
    let request = sexp.map(|s| {
        format!("(prog {} {} (cycles {}) {} {} (nsched {}) {} {})", flags_sexp(), cls_sexp(user_text), cycles, memf,
                extra_fields, schedules.len(), schedules.join(" "), stmts_fields(&s))
    });
    ProgOutcome { request, result, accepted }
}

pub fn run_program(user_text: &str, cycles: u32, mem: &[(u64, u8)], extra_fields: &str) -> ProgOutcome {
    run_program_rep(user_text, cycles, mem, extra_fields, 1)
}

/// run the program with `RunningProgram::run` under a timeout and describe the final report
pub fn run_to_end(user_text: &str, timeout: u32, mem: &[(u64, u8)], extra_fields: &str) -> ProgOutcome {
    let full = format!("{}{}", hk::y86_preamble(), user_text);
    let sexp = match catch_unwind(|| hk::parse_statements(&full)) { Ok(Ok(s)) => Some(s), _ => None };
    let contents = FileContents::new_from_data(hk::y86_preamble(), user_text, "t.hcl");
    let request = sexp.map(|s| {
        let mut memf = String::from("(mem");
        for (a, b) in mem { write!(memf, " ({} {})", a, b).unwrap(); }
        memf.push(')');
        format!("(run {} {} (timeout {}) {} {} {})", flags_sexp(), cls_sexp(user_text), timeout, memf, extra_fields, stmts_fields(&s))
    });
    match &request {
        Some(r) => crate::watch::note(r.clone()),
        None => crate::watch::note_text("run", user_text),
    }
    let result = catch_unwind(AssertUnwindSafe(|| {
        match parse_y86_hcl(&contents) {
            Err(e) => format!("rej {}", diag_string(&hk::error_summary(&e))),
            Ok(program) => {
                let mut rp = RunningProgram::new_y86(program);
                rp.verif_set_memory(mem);
                let mut opts = hclrs::RunOptions::default();
                opts.set_quiet();
                opts.set_timeout(timeout);
                rp.set_options(opts);
                let mut sink = std::io::sink();
                match rp.run(&mut sink) {
                    Err(e) => format!("run error={}", diag_string(&hk::error_summary(&e))),
                    Ok(()) => {
                        let dump = rp.dump_y86_str();
                        let first = dump.lines().next().unwrap_or("");
                        let banner = if first.contains("halted in state") { String::from("halted") }
                            else if first.contains("timed out after") {
                                let n: String = first.split("timed out after").nth(1).unwrap_or("").trim().chars().take_while(|c| c.is_ascii_digit()).collect();
                                format!("timedout:{}", n)
                            } else if first.contains("error caused in state") { String::from("error") }
                            else { String::from("between") };
                        let mut cyclesrun = String::from("-");
                        let mut code = String::from("-");
                        for l in dump.lines() {
                            if let Some(r) = l.strip_prefix("Cycles run: ") { cyclesrun = r.trim().to_string(); }
                            if let Some(r) = l.strip_prefix("Error code: ") { code = r.trim().chars().take_while(|c| c.is_ascii_digit()).collect(); }
                        }
                        format!("run cycles={} banner={} cyclesrun={} errorcode={}", rp.cycle(), banner, cyclesrun, code)
                    }
                }
            }
        }
    }));
    let result = match result { Ok(r) => r, Err(_) => String::from("PANIC") };
    let accepted = result.starts_with("run");
    ProgOutcome { request, result, accepted }
}
