import Hcl.Proofs.ParseStmtsSpans

/-!
# C14 — the spans of declarations, assignments, registers and register banks

The diagnostics of `Program::new` point at the spans the parser stored in the statement-level AST (ast.rs:
`WireDecl.span`, `ConstDecl.name_span`, `Assignment.span` and the spans of `Assignment.names`, `RegisterDecl.span`,
`RegisterBankDecl.span` / `.name_span`).  `Parser.parseProgramSp` (Hcl/Model/ParserStmtsSp.lean) is the statement-grammar
model `Parser.parseProgram` with exactly these spans (compared with the real parser's AST span by span on every request
that carries a text: `stmts-spans-agree` of the driver).  Here:

* `C14_statements_erase`: forgetting the spans gives `parseProgram` -- same accepted texts, same statements;
* `C14_statement_spans`: the statements lie one after the other in the text; every span is a non-empty byte range of the
  text that contains the spans of its parts (`Parser.SStmt.Good`); consecutive declarations do not overlap;
* `C14_statement_names`: every name span holds exactly the name;
* `C14_statement_spans_in_text`, `C14_statements_ordered`: the same in plain terms over the list of all spans.

Positions are byte offsets in the text (`Lexer.sizeOf'` of a prefix), as in `C14_token_spans` / `C14_expression_spans`.
-/

open Parser Lexer

/-- **C14, erasure**: the spanned statement parser accepts exactly the texts `parseProgram` accepts and yields the
    same statements once the spans are forgotten (on token lists: for every fuel) -/
theorem C14_statements_erase (cls : CharCls) (text : List Char) :
    (parseProgramSp cls text).map (·.map SStmt.erase) = parseProgram cls text :=
  parseProgramSp_erase cls text

theorem C14_statements_erase_tokens (fuel : Nat) (ts : Toks) :
    (parseStmtsSp fuel ts).map (·.map SStmt.erase) = parseStmts fuel ts :=
  parseStmtsSp_erase fuel ts

/-- **C14, statement spans**: when the spanned statement parser accepts a text, its statements lie one after the other
    between offset 0 and the end of the text (`Chain`: consecutive items occupy consecutive, non-overlapping stretches),
    and within its stretch every statement is `Good`:
    * `wire`: the declarations lie one after the other; each span is non-empty and begins with exactly the declared name,
      which ends before the span does (`name : width`);
    * `const`: the declarations lie one after the other; each `name_span` is non-empty and holds exactly the name, and
      all spans of the value come after it;
    * assignments lie one after the other; each span is non-empty, starts where its first target starts, contains the
      targets (one after the other, each span exactly the name) and, after them, all spans of the value;
    * `register`: the bank's span is non-empty; `name_span` lies strictly inside it and holds exactly the name; the
      register declarations lie one after the other behind it and end before the bank's span does; each register's
      span is non-empty, begins with exactly its name and contains all spans of the default value after the name. -/
theorem C14_statement_spans (cls : CharCls) (text : List Char) (ss : List SStmt)
    (h : parseProgramSp cls text = some ss) : Chain (SStmt.Good (NameAt text)) 0 (sizeOf' text) ss :=
  parseProgramSp_spans cls text ss h

/-- **C14, names**: every name a statement declares or assigns -- wire, constant, assignment target, register bank,
    register -- stands in the text exactly at its span: the text is `pre ++ name ++ post` with `pre` as many bytes long
    as the span's start, and the span's end is the start plus the bytes of the name.  (For wires and registers, whose AST
    node has no span for the name alone, the name span is the beginning of the declaration's span.) -/
theorem C14_statement_names (cls : CharCls) (text : List Char) (ss : List SStmt)
    (h : parseProgramSp cls text = some ss) :
    ∀ st ∈ ss, ∀ p ∈ st.nameSpans,
      ∃ pre post, text = pre ++ p.1.toList ++ post ∧ sizeOf' pre = p.2.1 ∧ p.2.2 = p.2.1 + sizeOf' p.1.toList :=
  parseProgramSp_names cls text ss h

/-- every statement-level span is a non-empty byte range of the text -/
theorem C14_statement_spans_in_text (cls : CharCls) (text : List Char) (ss : List SStmt)
    (h : parseProgramSp cls text = some ss) : ∀ st ∈ ss, ∀ sp ∈ st.spans, sp.1 < sp.2 ∧ sp.2 ≤ sizeOf' text :=
  parseProgramSp_spans_in_text cls text ss h

/-- the statements are in source order and do not overlap: every span of an earlier statement ends at or before the
    start of every span of a later one -/
theorem C14_statements_ordered (cls : CharCls) (text : List Char) (ss : List SStmt)
    (h : parseProgramSp cls text = some ss) :
    ss.Pairwise (fun a b => ∀ sa ∈ a.spans, ∀ sb ∈ b.spans, sa.2 ≤ sb.1) :=
  parseProgramSp_ordered cls text ss h

/-- the identifier tokens: the span of a token `Identifier name` is the place of `name` in the text -/
theorem C14_identifier_span (cls : CharCls) (text : List Char) (s e : Nat) (name : String)
    (h : Item.tok s (.Identifier name) e ∈ lex cls text) : NameAt text s name e :=
  identifier_span cls text s e name h

/-- what `Chain` and `Good` say for two consecutive assignments `a` and `b`: spans non-empty, `a` before `b` -/
example (N : Nat → String → Nat → Prop) (lo hi : Nat) (a b : SAssignment)
    (h : Chain (SAssignment.Good N) lo hi [a, b]) :
    lo ≤ a.span.1 ∧ a.span.1 < a.span.2 ∧ a.span.2 ≤ b.span.1 ∧ b.span.1 < b.span.2 ∧ b.span.2 ≤ hi := by
  obtain ⟨m, ga, m', gb, hle⟩ := h
  have h1 := ga.1; have h2 := gb.1
  have hle' : m' ≤ hi := hle
  exact ⟨h1.1, h1.2.1, Nat.le_trans h1.2.2 h2.1, h2.2.1, Nat.le_trans h2.2.2 hle'⟩

/-- the spans of a small program: `wire a : 8 ;  a = ( 1 ) , b = a ;  register xY { q : 4 = 3 ; }`
    (the assignment's span includes the closing parenthesis, the value's own span does not) -/
example :
    (parseProgramSp asciiCls "wire a : 8 ;  a = ( 1 ) , b = a ;  register xY { q : 4 = 3 ; }".toList).map
      (fun ss => ss.map SStmt.spans) =
    some [[(5, 10)], [(14, 23), (20, 21), (14, 15), (26, 31), (30, 31), (26, 27)], [(35, 62), (44, 46), (49, 58), (57, 58)]] := by
  decide +kernel

#print axioms C14_statements_erase
#print axioms C14_statements_erase_tokens
#print axioms C14_statement_spans
#print axioms C14_statement_names
#print axioms C14_statement_spans_in_text
#print axioms C14_statements_ordered
#print axioms C14_identifier_span
