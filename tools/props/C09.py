"""C09 — every wire has exactly one driver, or the program is rejected."""
from props import C14
from props.common_prog import judge_prog
from props import C19

THEOREM_MODULES = ["Hcl.Theorems.C09", "Hcl.Tie.Fixed", "Hcl.Tie.PinsBuild", "Hcl.Theorems.C09Exact", "Hcl.Theorems.C08Spec", "Hcl.Theorems.FromText", "Hcl.Theorems.C09Named", "Hcl.Theorems.C09NamedSound", "Hcl.Tie.PinsRefs"]
THEOREMS = {"Hcl.Tie.PinsRefs": ["Tie.PinsRefs.pinApplyToAll", "Tie.PinsRefs.pinApplyToAllMut", "Tie.PinsRefs.pinReferencedWires", "Tie.PinsRefs.pinFindReferences"],
            "Hcl.Theorems.C09NamedSound": ["C09_named_stage34_sound", "C09_named_stage5_sound", "C09_named_stage5_loop_real", "C09_every_diagnostic_names_a_fault", "C09_regFault_iff", "C09_inProgram_iff", "C09_exprDiag_iff"],
            "Hcl.Theorems.C09Named": ["C09_named_redeclared", "C09_named_redeclared_builtin", "C09_named_double_assigned", "C09_named_assigned_fixed_out", "C09_named_assigned_constant", "C09_named_const_reads_wire", "C09_named_const_reads_undeclared", "C09_named_stage1_sound", "C09_named_unset_wire", "C09_named_unset_register_input", "C09_named_assigned_register_out", "C09_named_register_default_reads_wire", "C09_named_register_signal_declared", "C09_named_mandatory_input_unset", "C09_named_used_component_input_unset", "C09_named_partial_component", "C09_named_undeclared_assigned", "C09_named_check_diag", "C09_named_undeclared_read", "C09_named_wire_read_undeclared"],
            "Hcl.Theorems.FromText": ["C09_from_text", "C09_from_text_accepted", "Parser.parseProgram_wf"],
            "Hcl.Theorems.C08Spec": ["C08_spec_accepts_sound", "C08_spec_accepts_complete", "C08_spec_faults_iff_accepted", "accepted_design_tables", "SF.cyclicNodes_nil_iff", "SF.faults_nil_iff"],
            "Hcl.Theorems.C09Exact": ["C09_accepted_iff_faultless", "C09_faultless_accepted", "C09_accepted_faultless", "C08_constants_exact", "C09_names_exact", "C09_banks_exact", "C09_actions_exact", "Program_new_ok_iff", "Program_new_complete", "step1_gate_nil_iff", "resolveConstants_ok_iff", "resolveConstants_table", "step3Of_errors_nil_iff", "assignmentsToActions_complete", "assignmentsToActions_ok_iff"],
            "Hcl.Theorems.C09": ["C09_declared_wire_is_assigned", "C09_no_name_assigned_twice", "C09_no_name_declared_twice", "C09_read_names_declared", "C09_constants_not_assigned", "Program_new_needed", "step1_fold_clean", "check_refs_declared", "C09_accepted", "C09_stage1_rejects", "step1_errors_mono", "step1Name_double"], "Hcl.Tie.Fixed": ["Tie.Fixed.fixedFunctions"],
            "Hcl.Tie.PinsBuild": ["Tie.PinsBuild.pinProgramNew", "Tie.PinsBuild.pinResolveConstants", "Tie.PinsBuild.pinPreprocessFixed", "Tie.PinsBuild.pinAssignmentsToActions"]}

RULE = ("S-PROG fault injection: an accepted random program (all profiles) gets one fault of each class - assignment "
        "dropped (plain wire, bank input, stall/bubble, each built-in input), assigned twice, wire/constant declared twice or "
        "under a name that already means something (built-in input/output, preamble/user constant, bank input/output/"
        "stall/bubble), assignment to a bank output / built-in output / constant, undeclared name read or assigned, "
        "constant or register default reading a wire, malformed bank name, partially connected component, output of an "
        "unconnected component read - at a random position among the other statements. Compared: accept/reject and the "
        "multiset of (kind, name) with the Lean model of Program::new; accept/reject with Spec.faults; and the diagnostics "
        "must name the injected wire; the rendered text of every rejection must contain, in quotes, every wire name its "
        "diagnostics carry (all kinds except the one that lists a component's inputs). distinct = program texts; non-trivial = all.")


def judge(req, impl, model, spec):
    return judge_prog(req, impl, model, spec, focus="names")


def streams(tier, seed):
    q = tier == "quick"
    return [{"name": "prog-fault", "stream": "prog-fault", "count": 3000 if q else 150000, "judge": judge},
            {"name": "prog-dag", "stream": "prog", "count": 200 if q else 5000, "extra": ("dag",), "judge": judge},
            # the same decisions for programs that come from FILES (accepted, rejected, larger than 64 KiB, not UTF-8, bare-CR
            # line ends): the real binary, as in C19
            {"name": "cli", "stream": "cli", "count": 300 if q else 8000, "pygen": C19.pygen, "judge": C19.judge},
            # the text of the diagnostics, byte for byte against the model of errors.rs (as in C14)
            {"name": "render", "stream": "render", "count": 1500 if q else 40000, "judge": C14.judge_render}]
