import Hcl.Proofs.RenameStages
open Rust

/-! # C12, renaming: whether a file is accepted does not depend on how its wires are named -/

theorem fixes_fixedOK {π : String → String} {stmts : List Stmt} (h : Fixes π stmts) : FixedOK π y86FixedFunctions := by
  have h1 := h.builtin "Stat" (by decide)
  have h2 := h.builtin "pc" (by decide)
  have h3 := h.builtin "i10bytes" (by decide)
  have h4 := h.builtin "mem_addr" (by decide)
  have h5 := h.builtin "mem_readbit" (by decide)
  have h6 := h.builtin "mem_output" (by decide)
  have h7 := h.builtin "mem_input" (by decide)
  have h8 := h.builtin "mem_writebit" (by decide)
  have h9 := h.builtin "reg_srcA" (by decide)
  have h10 := h.builtin "reg_outputA" (by decide)
  have h11 := h.builtin "reg_srcB" (by decide)
  have h12 := h.builtin "reg_outputB" (by decide)
  have h13 := h.builtin "reg_dstE" (by decide)
  have h14 := h.builtin "reg_inputE" (by decide)
  have h15 := h.builtin "reg_dstM" (by decide)
  have h16 := h.builtin "reg_inputM" (by decide)
  intro f hf
  simp only [y86FixedFunctions, List.mem_cons, List.not_mem_nil, or_false] at hf
  rcases hf with rfl | rfl | rfl | rfl | rfl | rfl | rfl | rfl <;>
    simp only [FixedFunction.rename, Action.rename, List.map_cons, List.map_nil, Option.map_some, Option.map_none,
      h1, h2, h3, h4, h5, h6, h7, h8, h9, h10, h11, h12, h13, h14, h15, h16]

theorem fixes_bankFixes {π : String → String} {stmts : List Stmt} (h : Fixes π stmts) :
    ∀ b, Stmt.bank b ∈ stmts → BankFixes π b := by
  intro b hb inP outP hn
  exact ⟨fun r hr => ⟨h.regs b hb inP outP hn inP (Or.inl rfl) r hr, h.regs b hb inP outP hn outP (Or.inr rfl) r hr⟩,
    h.ctl b hb inP outP hn⟩

theorem stmtsWF_rename (π : String → String) (stmts : List Stmt) (hwf : StmtsWF stmts) :
    StmtsWF (stmts.map (Stmt.rename π)) := by
  intro s hs
  obtain ⟨st, hst, rfl⟩ := List.mem_map.mp hs
  have := hwf st hst
  cases st with
  | consts ds =>
    simp only [Stmt.rename, declOK] at this ⊢
    intro d hd
    obtain ⟨d0, hd0, rfl⟩ := List.mem_map.mp hd
    simp only [wfEx_rename]
    exact this d0 hd0
  | wires ds =>
    simp only [Stmt.rename, declOK] at this ⊢
    intro d hd
    obtain ⟨d0, hd0, rfl⟩ := List.mem_map.mp hd
    exact this d0 hd0
  | assigns as =>
    simp only [Stmt.rename, declOK] at this ⊢
    intro a ha
    obtain ⟨a0, ha0, rfl⟩ := List.mem_map.mp ha
    simp only [wfEx_rename]
    exact this a0 ha0
  | bank b =>
    simp only [Stmt.rename, declOK] at this ⊢
    intro r hr
    obtain ⟨r0, hr0, rfl⟩ := List.mem_map.mp hr
    simp only [wfEx_rename]
    exact this r0 hr0

/-- the exact form, under the iteration orders seen through the renaming -/
theorem Program_new_rename_exact (fl : Flags) (cls : CharClass) (o : Orders) (stmts : List Stmt) (π π' : String → String)
    (hl : ∀ n, π' (π n) = n) (hr : ∀ n, π (π' n) = n) (hfix : Fixes π stmts) :
    Program.new fl cls (o.tr π π') y86FixedFunctions (stmts.map (Stmt.rename π)) =
      crn π (Program.rename π) (Program.new fl cls o y86FixedFunctions stmts) :=
  Program_new_rename_tr hl hr fl cls o y86FixedFunctions stmts (fixes_fixedOK hfix) (fixes_bankFixes hfix)

/-- **C12, renaming, the verdict**: a file is accepted if and only if the file with its wires renamed consistently is
    accepted (under any iteration orders of the hash tables on either side). -/
theorem Program_new_rename_verdict (fl : Flags) (cls : CharClass) (o o' : Orders) (stmts : List Stmt) (π π' : String → String)
    (hl : ∀ n, π' (π n) = n) (hr : ∀ n, π (π' n) = n)
    (hfix : Fixes π stmts) (ho : OrdersOK o) (ho' : OrdersOK o') (hwf : StmtsWF stmts) :
    (∃ p, Program.new fl cls o y86FixedFunctions stmts = .ok p) ↔
    (∃ p', Program.new fl cls o' y86FixedFunctions (stmts.map (Stmt.rename π)) = .ok p') := by
  have hex := Program_new_rename_exact fl cls o stmts π π' hl hr hfix
  have hotr := OrdersOK_tr hr o ho
  have hwf' := stmtsWF_rename π stmts hwf
  have hv := C12_verdict_order_independent fl cls (o.tr π π') o' (stmts.map (Stmt.rename π)) hotr ho' hwf'
  constructor
  · rintro ⟨p, hp⟩
    rw [hp] at hex
    exact hv.mp ⟨p.rename π, hex⟩
  · intro h
    obtain ⟨p'', hp''⟩ := hv.mpr h
    rw [hp''] at hex
    cases hn : Program.new fl cls o y86FixedFunctions stmts with
    | ok p => exact ⟨p, rfl⟩
    | error ds => rw [hn] at hex; cases hex

#print axioms Program_new_rename_exact
#print axioms Program_new_rename_verdict
