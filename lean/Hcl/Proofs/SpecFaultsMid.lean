import Hcl.Proofs.SpecFaultsFront
import Hcl.Proofs.SpecFaultsUnpack
open Rust Reorder

/-! # After the first three stages: one width table, one table of constants

`Mid` = the first nine fields of `Faultless` hold and the model's constants are the specification's.  Then the two
descriptions speak about the same tables, and what remains (`neededAssigned`, `ActionsOK`) can be compared part by part. -/

namespace SF

structure Mid (fl : Flags) (cls : CharClass) (o : Orders) (stmts : List Stmt) (c : AMap WireValue) : Prop where
  front : Front fl cls o stmts c
  wf : StmtsWF stmts
  cm : ConstsMatch stmts c

/-- the model's final width table -/
abbrev Wof (fl : Flags) (cls : CharClass) (stmts : List Stmt) (c : AMap WireValue) : AMap Width :=
  finalWires (step1Of stmts) c (step3Of fl cls (step1Of stmts) c)

/-- the model's list of known names -/
abbrev Kof (fl : Flags) (cls : CharClass) (stmts : List Stmt) (c : AMap WireValue) : List String :=
  knownOf (step1Of stmts) c (step3Of fl cls (step1Of stmts) c)

section
variable {fl : Flags} {cls : CharClass} {o : Orders} {stmts : List Stmt} {c : AMap WireValue} (hm : Mid fl cls o stmts c)
include hm

theorem Mid.basic : Basic cls stmts := hm.front.basic

theorem Mid.goodBanks : goodBanks cls.isLower cls.isUpper stmts = (el stmts).banks := hm.basic.goodBanks

theorem Mid.Γ : (Spec.design stmts).Γ = (Wof fl cls stmts c).toCtx := by
  funext n; exact hm.front.Γ_eq hm.wf hm.cm n

theorem Mid.constOK : ConstOK c := (hm.front.tables hm.wf).1.cok

theorem Mid.tablesC : Tables (K stmts) (wOf c).toCtx c.toEnv := tables_consts (toEnv_none hm.cm.get) hm.constOK

theorem Mid.tablesW : Tables (K stmts) (Wof fl cls stmts c).toCtx c.toEnv where
  ctx := finalWires_ctxOK (hm.front.tables hm.wf).1
  outside := toEnv_none hm.cm.get
  env := by
    intro n hn w hw
    rw [← hm.Γ, hm.basic.Γ_const n ((K_iff stmts n).mp hn)] at hw
    have hcn : c.toEnv n = some ⟨(cst stmts).2.get n, w⟩ := by
      rw [hm.cm.get n]; unfold specEnv; rw [hw]; rfl
    exact ⟨_, hcn, (hm.constOK n _ hcn).2⟩

/-- **the width rules for any expression of the program** whose case-expression conditions are eager -/
theorem Mid.typeOf_eq (e : Ex) (hwf : wfEx e = true) (hc : ∀ cd ∈ conds e, Plain (K stmts) cd = true) :
    Spec.typeOf fl (Spec.design stmts).Γ (isTrue stmts) e = okOf (check fl (Wof fl cls stmts c).toCtx c.toEnv e) := by
  rw [isTrue_eq]
  exact typeOf_eq_check fl (K stmts) _ _ hm.tablesW _ _ e (fun n _ => by rw [hm.Γ])
    (fun n _ _ => (val_eq hm.cm.get n).symm) hc hwf

/-- the value of a constant expression that passes the checker -/
theorem Mid.dv_eq (e : Ex) (hwf : wfEx e = true) (hall : ∀ n ∈ refs e, n ∈ constNames stmts) (w : Width)
    (hck : check fl (Wof fl cls stmts c).toCtx c.toEnv e = .ok w) :
    w.ok ∧ w = Spec.sw (Spec.design stmts).Γ e ∧
    (match Spec.dv (Spec.design stmts).Γ (constEnv stmts) e with
     | some v => ev fl c.toEnv (fixMux fl (Wof fl cls stmts c).toCtx c.toEnv e) = .ok ⟨v, w⟩ ∧ v < w.card
     | none => ev fl c.toEnv (fixMux fl (Wof fl cls stmts c).toCtx c.toEnv e) = .error .divideByZero) :=
  dv_eq_ev fl (K stmts) _ _ hm.tablesW _ _ e (fun n _ => by rw [hm.Γ]) (fun n _ _ => (val_eq hm.cm.get n).symm)
    (fun n hn => (K_iff stmts n).mpr (hall n hn)) hwf w hck

/-! ### known and needed names -/

theorem Mid.mem_constPairs_keys (n : String) :
    n ∈ (constPairs (step1Of stmts).constantsRaw.keys c).map (·.1) ↔ n ∈ constNames stmts := by
  constructor
  · intro h
    obtain ⟨p, hp, rfl⟩ := List.mem_map.mp h
    obtain ⟨_, hk, _, _⟩ := (mem_constPairs _ _ _).mp hp
    rw [hm.front.constantsRaw_eq] at hk
    exact hk
  · intro h
    have hhas := hm.cm.all n h
    obtain ⟨w, hw⟩ := Option.isSome_iff_exists.mp (((cst_inv stmts).has_iff_lookup n).mp hhas)
    have hcn : c.get? n = some ⟨(cst stmts).2.get n, w⟩ := by
      show c.toEnv n = _
      rw [hm.cm.get n]; unfold specEnv; rw [hw]; rfl
    refine List.mem_map.mpr ⟨(n, w), (mem_constPairs _ _ _).mpr ⟨_, ?_, hcn, rfl⟩, rfl⟩
    rw [hm.front.constantsRaw_eq]; exact h

theorem Mid.known_iff (n : String) :
    (Kof fl cls stmts c).contains n = true ↔ (n ∈ constNames stmts ∨ n ∈ bankOutOf (el stmts).banks) := by
  unfold Kof knownOf
  rw [List.contains_iff_mem, mem_foldl_setInsert, mem_foldl_setInsert, hm.mem_constPairs_keys, hm.front.bankOuts_eq hm.wf]
  constructor
  · rintro ((h | h) | h)
    · cases h
    · exact Or.inr h
    · exact Or.inl h
  · rintro (h | h)
    · exact Or.inr h
    · exact Or.inl (Or.inr h)

theorem Mid.needed_iff (n : String) :
    n ∈ neededOf (step1Of stmts) (step3Of fl cls (step1Of stmts) c) ↔ (n ∈ wireNames stmts ∨ n ∈ bankInOf (el stmts).banks) := by
  unfold neededOf
  rw [mem_foldl_setInsert, hm.front.bankIns_eq hm.wf, mem_wireNames_iff]
  have : n ∈ (step1Of stmts).needed ↔ DeclaredWire stmts n := by
    unfold step1Of
    rw [step1_fold_needed]
    have h0 : (step1Init y86FixedFunctions).needed = [] := by decide +kernel
    rw [h0]; simp
  rw [this]

theorem Mid.contains_const (n : String) : c.contains n = true ↔ n ∈ constNames stmts := by
  rw [AMap.contains_eq_isSome]
  show (c.toEnv n).isSome = true ↔ _
  rw [hm.cm.get n]
  unfold specEnv
  constructor
  · intro h
    by_cases hn : n ∈ constNames stmts
    · exact hn
    · rw [cst_lookup_none stmts n hn] at h; cases h
  · intro h
    obtain ⟨w, hw⟩ := Option.isSome_iff_exists.mp (((cst_inv stmts).has_iff_lookup n).mp (hm.cm.all n h))
    rw [hw]; rfl

/-! ### declared names are exactly the names with a width -/

theorem Mid.Γ_some_iff (n : String) :
    ((Spec.design stmts).Γ n).isSome = true ↔ n ∈ allDecls cls.isLower cls.isUpper stmts := by
  have hb := hm.basic
  rw [allDecls_assoc, hm.goodBanks]
  simp only [List.mem_append]
  by_cases h1 : n ∈ wireNames stmts
  · rw [hb.Γ_wire n h1]
    obtain ⟨v, hv⟩ := lookup_some_of_key _ n h1
    rw [hv]; simp [h1]
  · by_cases h2 : n ∈ bankInOf (el stmts).banks ∨ n ∈ bankOutOf (el stmts).banks ∨ n ∈ bankCtlOf (el stmts).banks
    · rw [hb.Γ_bank n h2]
      obtain ⟨v, hv⟩ := lookup_some_of_key _ n ((keys_specBankWidths _ hb.twoChar n).mpr h2)
      rw [hv]
      simp only [Option.isSome_some, true_iff]
      rcases h2 with h | h | h
      · exact Or.inr (Or.inl (Or.inl h))
      · exact Or.inr (Or.inl (Or.inr h))
      · exact Or.inr (Or.inr (Or.inl h))
    · by_cases h3 : n ∈ constNames stmts
      · rw [hb.Γ_const n h3]
        have := ((cst_inv stmts).has_iff_lookup n).mp (hm.cm.all n h3)
        rw [this]; simp [h3]
      · rw [hb.Γ_rest n h1 h2, cst_lookup_none stmts n h3]
        show (Spec.builtinWidths.lookup n).isSome = true ↔ _
        have hk : (Spec.builtinWidths.lookup n).isSome = true ↔ (n ∈ builtinIn ∨ n ∈ builtinOut) := by
          rw [← List.mem_append, mem_builtin_iff, ← builtinWidths_keys]
          constructor
          · intro h
            obtain ⟨v, hv⟩ := Option.isSome_iff_exists.mp h
            exact List.mem_map.mpr ⟨(n, v), mem_of_lookup _ n v hv, rfl⟩
          · intro h
            obtain ⟨v, hv⟩ := lookup_some_of_key _ n h
            rw [hv]; rfl
        rw [hk]
        constructor
        · intro h; exact Or.inr (Or.inr (Or.inr h))
        · rintro ((h | h) | (h | h) | h | h)
          · exact absurd h h1
          · exact absurd h h3
          · exact absurd (Or.inl h) h2
          · exact absurd (Or.inr (Or.inl h)) h2
          · exact absurd (Or.inr (Or.inr h)) h2
          · exact h

end
end SF
