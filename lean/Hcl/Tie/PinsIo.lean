import Hcl.Generated

/-! Text pins (written by tools/mkpins.py): the comment-free, whitespace-normalised bodies of functions that the
    hand-written model transcribes, as they were when the model was last validated against them.  An edit of one
    of these functions makes the `rfl` below fail; the check then looks for an input on which model and code
    differ, and reports the property as no longer shown to hold when it finds none. -/

namespace Tie.PinsIo

/-- `fn mark_newlines(offset`, src/io.rs -/
theorem pinMarkNewlines : Generated.pinMarkNewlines = ("newlines_list.push((offset, 1)); let mut index = 1; for (i, _) in data.match_indices('\\n') { index += 1; newlines_list.push((offset + i + 1, index)); }" : String) := by rfl

/-- `pub fn filename(&self, index: usize)`, src/io.rs -/
theorem pinFilename : Generated.pinFilename = ("let index = match self.filenames.binary_search_by_key(&index, |ref x| x.0) { Ok(x) => x, Err(x) => x - 1 }; &self.filenames[index].1" : String) := by rfl

/-- `pub fn line_number_and_bounds(&self, index: usize)`, src/io.rs -/
theorem pinLineNumberAndBounds : Generated.pinLineNumberAndBounds = ("let index = match self.newlines.binary_search_by_key(&index, |ref x| x.0) { Ok(x) => x, Err(x) => x - 1 }; let next_line_loc = if index == self.newlines.len() - 1 { self.data.len() } else { self.newlines[index + 1].0 }; let cur_line = self.newlines[index]; (cur_line.1, cur_line.0, next_line_loc)" : String) := by rfl

/-- `pub fn show_region(&self, start: usize, end: usize)`, src/io.rs -/
theorem pinShowRegion : Generated.pinShowRegion = ("let end = min(end, self.data.len()); let start = min(start, end); let filename = self.filename(start); let (begin_line_no, begin_loc, _) = self.line_number_and_bounds(start); let (end_line_no, begin_last_line, end_loc) = self.line_number_and_bounds(end); let end_loc = min(end_loc, self.data.len()); debug!(\"range is {}-{}\", begin_loc, end_loc); let begin_line_offset = start - begin_loc; let end_line_offset = end - begin_last_line; let segment = &self.data[begin_loc..end_loc]; let mut result = String::new(); result.push_str(&format!(\" -> {}:{}\\n\", filename, begin_line_no)); result.push_str( \" |\\n\"); let mut number = begin_line_no; debug!(\"segment : {:?}\", segment); for line in segment.lines() { let this_start = if number == begin_line_no { begin_line_offset } else { 0 }; let this_end = if number == end_line_no { end_line_offset } else { line.len() }; result.push_str(&format!(\"{:>4} | {}\\n\", number, line)); result.push_str(&format!(\" | {}{}\\n\", \" \".repeat(this_start), \"^\".repeat(this_end.saturating_sub(this_start)))); number += 1; } result" : String) := by rfl

/-- `pub fn new_from_data(`, src/io.rs -/
theorem pinNewFromData : Generated.pinNewFromData = ("let mut newlines = Vec::new(); let mut contents = String::from(preamble); mark_newlines(0, &mut newlines, &contents); contents.push_str(user_data); mark_newlines(preamble.len(), &mut newlines, contents.split_at(preamble.len()).1); let filenames = vec!( (0, String::from(\"<builtin>\")), (preamble.len(), String::from(filename)) ); FileContents { data: contents, filenames: filenames, newlines: newlines, }" : String) := by rfl

/-- `pub fn new_from_file_with_preamble(`, src/io.rs -/
theorem pinNewFromFile : Generated.pinNewFromFile = ("let file = File::open(path)?; let mut file_reader = BufReader::new(file); let filename = path.file_name().map(|x| x.to_string_lossy().into_owned()).unwrap_or(String::from(\"<unknown>\")); let mut file_bytes = Vec::new(); file_reader.read_to_end(&mut file_bytes)?; match str::from_utf8(&file_bytes) { Ok(_) => {}, Err(_) => { warn!(\"input file {} is not valid UTF-8\", filename); }, }; Ok(FileContents::new_from_data(preamble, &String::from_utf8_lossy(&file_bytes), &filename))" : String) := by rfl

end Tie.PinsIo
