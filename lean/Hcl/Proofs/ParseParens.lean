import Hcl.Model.Parser
import Hcl.Model.ParserStmts
import Hcl.Proofs.ParseFuel
import Hcl.Proofs.ParseStmts
open Parser Lexer

/-! Redundant parentheses.  A successful parse is not disturbed by what follows the tokens it has read, as long as the
    first token that follows cannot continue an expression (`parseTier_extend`); hence an expression in an extra pair of
    parentheses is a `SimpleTerm` with the very same tree (`parseSimple_parens`), and so an expression of every tier
    (`parseTier_parens`). -/

namespace Parser

/-- the tokens in front of which every loop of the expression grammar stops: everything but the binary operators,
    `in`, and `[` (which starts a bit selection) -/
def stopTok : Tok → Bool
  | .AndAnd | .OrOr | .Equal | .NotEqual | .GreaterEqual | .Greater | .LessEqual | .Less
  | .RightShift | .LeftShift | .Plus | .Minus | .And | .Or | .Xor | .Times | .Divide
  | .In | .OpenBracket => false
  | _ => true

/-- in front of these the list of mux options stops as well -/
def stopOpts : Tok → Bool
  | .Semicolon => false
  | t => stopTok t

/-- in front of these the list of set members stops as well -/
def stopItems : Tok → Bool
  | .Comma => false
  | t => stopTok t

theorem stopOpts_stop {t : Tok} (h : stopOpts t = true) : stopTok t = true := by
  cases t <;> first | exact h | cases h

theorem stopItems_stop {t : Tok} (h : stopItems t = true) : stopTok t = true := by
  cases t <;> first | exact h | cases h

/-- the token list is empty or starts with a token satisfying `p` -/
def HeadStops (p : Tok → Bool) : Toks → Prop
  | [] => True
  | (_, t, _) :: _ => p t = true

theorem HeadStops.mono {p q : Tok → Bool} (hpq : ∀ t, p t = true → q t = true) :
    ∀ {tail : Toks}, HeadStops p tail → HeadStops q tail
  | [], _ => trivial
  | (_, t, _) :: _, h => hpq t h

/-- no operator of the tier is a stop token -/
def TierOK (tier : Tier) : Prop := ∀ t, stopTok t = true → tier.ops.find? (fun o => o.1 == t) = none

theorem tiers_ok {k : Nat} {tier : Tier} (h : tiers[k]? = some (some tier)) : TierOK tier := by
  have hmem : some tier ∈ tiers := List.mem_of_getElem? h
  intro t ht
  simp only [tiers, List.mem_cons, Option.some.injEq, List.mem_nil_iff, or_false, reduceCtorEq, false_or] at hmem
  rcases hmem with rfl | rfl | rfl | rfl | rfl | rfl | rfl | rfl | rfl
  all_goals (cases t <;> first | rfl | cases ht)

theorem expect_append {t : Tok} {ts rest : Toks} {s e : Nat} (tail : Toks) (h : expect t ts = some (s, e, rest)) :
    expect t (ts ++ tail) = some (s, e, rest ++ tail) := by
  cases ts with
  | nil => simp [expect] at h
  | cons hd tl =>
    obtain ⟨s', t', e'⟩ := hd
    unfold expect at h
    simp only at h
    split at h
    · rename_i ht
      cases h
      simp only [List.cons_append, expect, ht, if_true]
    · cases h

theorem expect_vac {t : Tok} {ts : Toks} {r : Nat × Nat × Toks} (h : expect t ts = some r) {Q : Prop} : ts = [] → Q := by
  intro hts
  subst hts
  simp [expect] at h

theorem smallConst_append {ts rest : Toks} {v s e : Nat} (tail : Toks) (h : smallConst ts = some (v, s, e, rest)) :
    smallConst (ts ++ tail) = some (v, s, e, rest ++ tail) := by
  cases ts with
  | nil => simp [smallConst] at h
  | cons hd tl =>
    obtain ⟨s', t', e'⟩ := hd
    cases t' with
    | Constant c =>
      unfold smallConst at h
      simp only at h
      split at h
      · rename_i hc
        cases h
        simp only [List.cons_append, smallConst, hc, if_true]
      · cases h
    | _ => simp [smallConst] at h

/-- What the induction over the fuel carries for the six mutually recursive functions: a successful run on `ts` with
    rest `rest` is, on `ts ++ tail`, the same run with rest `rest ++ tail` -- provided that, if the run consumed all of
    `ts`, the tail is empty or starts with a token in front of which the loops stop. -/
structure AllExt (g : Nat) : Prop where
  tier : ∀ k ts x s e rest tail, parseTier g k ts = some (x, s, e, rest) → (rest = [] → HeadStops stopTok tail) →
    parseTier g k (ts ++ tail) = some (x, s, e, rest ++ tail)
  chain : ∀ k tier l s e ts x s' e' rest tail, TierOK tier → parseChain g k tier l s e ts = some (x, s', e', rest) →
    (rest = [] → HeadStops stopTok tail) → parseChain g k tier l s e (ts ++ tail) = some (x, s', e', rest ++ tail)
  term : ∀ ts x s e rest tail, parseTerm g ts = some (x, s, e, rest) → (rest = [] → HeadStops stopTok tail) →
    parseTerm g (ts ++ tail) = some (x, s, e, rest ++ tail)
  simple : ∀ ts x s e rest tail, parseSimple g ts = some (x, s, e, rest) → (rest = [] → HeadStops stopTok tail) →
    parseSimple g (ts ++ tail) = some (x, s, e, rest ++ tail)
  opts : ∀ ts o s e rest tail, parseOpts g ts = some (o, s, e, rest) → (rest = [] → HeadStops stopOpts tail) →
    parseOpts g (ts ++ tail) = some (o, s, e, rest ++ tail)
  items : ∀ ts o s e rest tail, parseItems g ts = some (o, s, e, rest) → (rest = [] → HeadStops stopItems tail) →
    parseItems g (ts ++ tail) = some (o, s, e, rest ++ tail)

theorem allExt_zero : AllExt 0 where
  tier := by intro k ts x s e rest tail h; unfold parseTier at h; cases h
  chain := by intro k tier l s e ts x s' e' rest tail _ h; unfold parseChain at h; cases h
  term := by intro ts x s e rest tail h; unfold parseTerm at h; cases h
  simple := by intro ts x s e rest tail h; unfold parseSimple at h; cases h
  opts := by intro ts x s e rest tail h; unfold parseOpts at h; cases h
  items := by intro ts x s e rest tail h; unfold parseItems at h; cases h

theorem cons_vac {α : Type} {a : α} {l : List α} {Q : Prop} : a :: l = [] → Q := fun h => by cases h

theorem simple_ext_step (g : Nat) (ih : AllExt g) : ∀ ts x s e rest tail, parseSimple (g + 1) ts = some (x, s, e, rest) →
    (rest = [] → HeadStops stopTok tail) → parseSimple (g + 1) (ts ++ tail) = some (x, s, e, rest ++ tail) := by
  intro ts x s e rest tail h hc
  cases ts with
  | nil => unfold parseSimple at h; cases h
  | cons hd tl =>
    obtain ⟨s0, t, e0⟩ := hd
    cases t with
    | Constant v =>
      unfold parseSimple at h
      cases h
      unfold parseSimple
      rfl
    | Identifier n =>
      unfold parseSimple at h
      cases h
      unfold parseSimple
      rfl
    | OpenParen =>
      unfold parseSimple at h
      simp only at h
      split at h
      · cases h
      · rename_i x1 s1 e1 rest1 heq
        cases rest1 with
        | nil => cases h
        | cons hd2 rest2 =>
          obtain ⟨sc, t2, ec⟩ := hd2
          have a := ih.tier _ _ _ _ _ _ tail heq cons_vac
          cases t2 with
          | CloseParen =>
            cases h
            unfold parseSimple
            simp only [List.cons_append] at a ⊢
            simp only [a]
            rfl
          | DotDot =>
            simp only at h
            split at h
            · cases h
            · rename_i y sy ey rest3 heq2
              split at h
              · cases h
              · rename_i sc' e' rest4 hex
                cases h
                have b := ih.tier _ _ _ _ _ _ tail heq2 (expect_vac hex)
                have c := expect_append tail hex
                unfold parseSimple
                simp only [List.cons_append] at a ⊢
                simp only [a, b, c]
                rfl
          | _ => cases h
    | OpenBracket =>
      unfold parseSimple at h
      simp only at h
      split at h
      · cases h
      · rename_i opts so eo rest1 heq
        split at h
        · cases h
        · rename_i sc e' rest2 hex
          cases h
          have a := ih.opts _ _ _ _ _ tail heq (expect_vac hex)
          have c := expect_append tail hex
          unfold parseSimple
          simp only [List.cons_append]
          simp only [a, c]
          rfl
    | _ => unfold parseSimple at h; cases h

theorem term_ext_step (g : Nat) (ih : AllExt g) : ∀ ts x s e rest tail, parseTerm (g + 1) ts = some (x, s, e, rest) →
    (rest = [] → HeadStops stopTok tail) → parseTerm (g + 1) (ts ++ tail) = some (x, s, e, rest ++ tail) := by
  intro ts x s e rest tail h hc
  cases ts with
  | nil => unfold parseTerm at h; cases h
  | cons hd tl =>
    obtain ⟨s0, t, e0⟩ := hd
    unfold parseTerm at h
    simp only at h
    split at h
    · rename_i op hop
      split at h
      · cases h
      · rename_i x1 sx e1 rest1 heq
        cases h
        have a := ih.simple _ _ _ _ _ tail heq hc
        unfold parseTerm
        simp only [List.cons_append, hop, a]
        rfl
    · rename_i hop
      split at h
      · cases h
      · rename_i x1 s' e' rest1 heq
        cases rest1 with
        | nil =>
          cases h
          have a := ih.simple _ _ _ _ _ tail heq hc
          simp only [List.cons_append, List.nil_append] at a
          unfold parseTerm
          simp only [List.cons_append, List.nil_append, hop, a]
          cases tail with
          | nil => rfl
          | cons hd2 tl2 =>
            obtain ⟨a1, t2, b1⟩ := hd2
            have hs : stopTok t2 = true := hc rfl
            cases t2 <;> first | rfl | cases hs
        | cons hd2 rest2 =>
          obtain ⟨sb, t2, eb⟩ := hd2
          have a := ih.simple _ _ _ _ _ tail heq cons_vac
          simp only [List.cons_append] at a
          cases t2 with
          | OpenBracket =>
            simp only at h
            split at h
            · cases h
            · rename_i lo s1 e1 rest3 h1
              split at h
              · cases h
              · rename_i s2 e2 rest4 h2
                split at h
                · cases h
                · rename_i hi s3 e3 rest5 h3
                  split at h
                  · cases h
                  · rename_i s4 e4 rest6 h4
                    cases h
                    have b1 := smallConst_append tail h1
                    have b2 := expect_append tail h2
                    have b3 := smallConst_append tail h3
                    have b4 := expect_append tail h4
                    unfold parseTerm
                    simp only [List.cons_append, hop, a, b1, b2, b3, b4]
                    rfl
          | _ =>
            cases h
            unfold parseTerm
            simp only [List.cons_append, hop, a]
            rfl

theorem nil_of_le {rest ts : Toks} (h : rest.length ≤ ts.length) (hts : ts = []) : rest = [] := by
  subst hts
  cases rest with
  | nil => rfl
  | cons a b => simp at h

theorem chain_ext_step (g : Nat) (ih : AllExt g) : ∀ k tier l s e ts x s' e' rest tail, TierOK tier →
    parseChain (g + 1) k tier l s e ts = some (x, s', e', rest) → (rest = [] → HeadStops stopTok tail) →
    parseChain (g + 1) k tier l s e (ts ++ tail) = some (x, s', e', rest ++ tail) := by
  intro k tier l s e ts x s' e' rest tail hok h hc
  cases ts with
  | nil =>
    unfold parseChain at h
    cases h
    simp only [List.nil_append]
    unfold parseChain
    cases tail with
    | nil => rfl
    | cons hd tl =>
      obtain ⟨a, t, b⟩ := hd
      have hs : stopTok t = true := hc rfl
      simp only [hok t hs]
      rfl
  | cons hd rest1 =>
    obtain ⟨so, t, eo⟩ := hd
    unfold parseChain at h
    simp only at h
    split at h
    · rename_i t' op hfind
      split at h
      · cases h
      · rename_i r sr er rest2 heq
        have hlen := ((allFuel g).chain _ _ _ _ _ _ _ _ _ _ h).1
        have a := ih.tier _ _ _ _ _ _ tail heq (fun h1 => hc (nil_of_le hlen h1))
        have b := ih.chain _ _ _ _ _ _ _ _ _ _ tail hok h hc
        unfold parseChain
        simp only [List.cons_append, hfind, a]
        exact b
    · rename_i hfind
      cases h
      unfold parseChain
      simp only [List.cons_append, hfind]
      rfl

theorem tier_ext_step (g : Nat) (ih : AllExt g) : ∀ k ts x s e rest tail, parseTier (g + 1) k ts = some (x, s, e, rest) →
    (rest = [] → HeadStops stopTok tail) → parseTier (g + 1) k (ts ++ tail) = some (x, s, e, rest ++ tail) := by
  intro k ts x s e rest tail h hc
  unfold parseTier at h
  cases htk : tiers[k]? with
  | none =>
    simp only [htk] at h
    have a := ih.term _ _ _ _ _ tail h hc
    unfold parseTier
    simp only [htk]
    exact a
  | some ot =>
    cases ot with
    | none =>
      simp only [htk] at h
      split at h
      · cases h
      · rename_i x1 s1 e1 rest1 heq
        cases rest1 with
        | nil =>
          cases h
          have a := ih.tier _ _ _ _ _ _ tail heq hc
          simp only [List.nil_append] at a
          unfold parseTier
          simp only [htk, a, List.nil_append]
          cases tail with
          | nil => rfl
          | cons hd tl =>
            obtain ⟨p, t, q⟩ := hd
            have hs : stopTok t = true := hc rfl
            cases t <;> first | rfl | cases hs
        | cons hd rest1' =>
          obtain ⟨si, t, ei⟩ := hd
          have a := ih.tier _ _ _ _ _ _ tail heq cons_vac
          simp only [List.cons_append] at a
          cases t with
          | In =>
            simp only at h
            split at h
            · cases h
            · rename_i s2 e2 rest2 hex1
              split at h
              · cases h
              · rename_i items s3 e3 rest3 hit
                split at h
                · cases h
                · rename_i s4 e4 rest4 hex2
                  cases h
                  have b := expect_append tail hex1
                  have c := ih.items _ _ _ _ _ tail hit (expect_vac hex2)
                  have d := expect_append tail hex2
                  unfold parseTier
                  simp only [htk, a, b, c, d]
                  rfl
          | _ =>
            cases h
            unfold parseTier
            simp only [htk, a]
            rfl
    | some tier =>
      have hok := tiers_ok htk
      simp only [htk] at h
      split at h
      · cases h
      · rename_i l s1 e1 rest1 heq
        split at h
        · rename_i hch
          have hlen := ((allFuel g).chain _ _ _ _ _ _ _ _ _ _ h).1
          have a := ih.tier _ _ _ _ _ _ tail heq (fun h1 => hc (nil_of_le hlen h1))
          have b := ih.chain _ _ _ _ _ _ _ _ _ _ tail hok h hc
          unfold parseTier
          simp only [htk, a, if_pos hch]
          exact b
        · rename_i hch
          cases rest1 with
          | nil =>
            cases h
            have a := ih.tier _ _ _ _ _ _ tail heq hc
            simp only [List.nil_append] at a
            unfold parseTier
            simp only [htk, a, hch, List.nil_append]
            cases tail with
            | nil => rfl
            | cons hd tl =>
              obtain ⟨p, t, q⟩ := hd
              have hs : stopTok t = true := hc rfl
              simp only [hok t hs]
              rfl
          | cons hd rest1' =>
            obtain ⟨so, t, eo⟩ := hd
            have a := ih.tier _ _ _ _ _ _ tail heq cons_vac
            simp only [List.cons_append] at a
            simp only at h
            split at h
            · rename_i t' op hfind
              split at h
              · cases h
              · rename_i r sr e' rest2 heq2
                cases h
                have b := ih.tier _ _ _ _ _ _ tail heq2 hc
                unfold parseTier
                simp only [htk, a, hch, hfind, b]
                rfl
            · rename_i hfind
              cases h
              unfold parseTier
              simp only [htk, a, hch, hfind]
              rfl

theorem opts_ext_body (g : Nat) (ih : AllExt g) (ts : Toks) (o : POpts) (s e : Nat) (rest tail : Toks)
    (h : (match parseTier g 0 ts with
      | none => none
      | some (c, _, _, rest) =>
        match expect .Colon rest with
        | none => none
        | some (_, _, rest1) =>
          match parseTier g 0 rest1 with
          | none => none
          | some (v, _, _, rest2) =>
            match rest2 with
            | (_, .Semicolon, _) :: rest3 =>
              match parseOpts g rest3 with
              | none => none
              | some (more, _, _, rest4) => some (.cons c v more, 0, 0, rest4)
            | _ => some (.cons c v .nil, 0, 0, rest2)) = (some (o, s, e, rest) : P POpts))
    (hc : rest = [] → HeadStops stopOpts tail) :
    (match parseTier g 0 (ts ++ tail) with
      | none => none
      | some (c, _, _, rest) =>
        match expect .Colon rest with
        | none => none
        | some (_, _, rest1) =>
          match parseTier g 0 rest1 with
          | none => none
          | some (v, _, _, rest2) =>
            match rest2 with
            | (_, .Semicolon, _) :: rest3 =>
              match parseOpts g rest3 with
              | none => none
              | some (more, _, _, rest4) => some (.cons c v more, 0, 0, rest4)
            | _ => some (.cons c v .nil, 0, 0, rest2)) = (some (o, s, e, rest ++ tail) : P POpts) := by
  split at h
  · cases h
  · rename_i c sc ec rest0 heq
    split at h
    · cases h
    · rename_i s1 e1 rest1 hex
      have a := ih.tier _ _ _ _ _ _ tail heq (expect_vac hex)
      have b := expect_append tail hex
      split at h
      · cases h
      · rename_i v sv ev rest2 heq2
        cases rest2 with
        | nil =>
          cases h
          have c2 := ih.tier _ _ _ _ _ _ tail heq2 (fun h1 => HeadStops.mono (fun _ => stopOpts_stop) (hc h1))
          simp only [List.nil_append] at c2 ⊢
          simp only [a, b, c2]
          cases tail with
          | nil => rfl
          | cons hd tl =>
            obtain ⟨p, t, q⟩ := hd
            have hs : stopOpts t = true := hc rfl
            cases t <;> first | rfl | cases hs
        | cons hd rest3 =>
          obtain ⟨ss, t, es⟩ := hd
          have c2 := ih.tier _ _ _ _ _ _ tail heq2 cons_vac
          simp only [List.cons_append] at c2
          cases t with
          | Semicolon =>
            simp only at h
            split at h
            · cases h
            · rename_i more sm em rest4 h3
              cases h
              have d := ih.opts _ _ _ _ _ tail h3 hc
              simp only [a, b, c2, d]
          | _ =>
            cases h
            simp only [a, b, c2]
            rfl

theorem opts_ext_step (g : Nat) (ih : AllExt g) : ∀ ts o s e rest tail, parseOpts (g + 1) ts = some (o, s, e, rest) →
    (rest = [] → HeadStops stopOpts tail) → parseOpts (g + 1) (ts ++ tail) = some (o, s, e, rest ++ tail) := by
  intro ts o s e rest tail h hc
  cases ts with
  | nil =>
    unfold parseOpts at h
    simp only at h
    split at h
    · cases h
    · rename_i c sc ec rest0 heq
      have := parseTier_consumes _ _ _ _ _ _ _ heq
      simp at this
  | cons hd tl =>
    obtain ⟨s0, t, e0⟩ := hd
    cases t with
    | CloseBracket =>
      unfold parseOpts at h
      cases h
      unfold parseOpts
      rfl
    | _ =>
      unfold parseOpts at h
      have a := opts_ext_body g ih _ _ _ _ _ tail h hc
      unfold parseOpts
      exact a

theorem items_ext_body (g : Nat) (ih : AllExt g) (ts : Toks) (o : PExs) (s e : Nat) (rest tail : Toks)
    (h : (match parseTier g 0 ts with
      | none => none
      | some (x, _, _, rest) =>
        match rest with
        | (_, .Comma, _) :: rest1 =>
          match parseItems g rest1 with
          | none => none
          | some (more, _, _, rest2) => some (.cons x more, 0, 0, rest2)
        | _ => some (.cons x .nil, 0, 0, rest)) = (some (o, s, e, rest) : P PExs))
    (hc : rest = [] → HeadStops stopItems tail) :
    (match parseTier g 0 (ts ++ tail) with
      | none => none
      | some (x, _, _, rest) =>
        match rest with
        | (_, .Comma, _) :: rest1 =>
          match parseItems g rest1 with
          | none => none
          | some (more, _, _, rest2) => some (.cons x more, 0, 0, rest2)
        | _ => some (.cons x .nil, 0, 0, rest)) = (some (o, s, e, rest ++ tail) : P PExs) := by
  split at h
  · cases h
  · rename_i x sx ex rest0 heq
    cases rest0 with
    | nil =>
      cases h
      have a := ih.tier _ _ _ _ _ _ tail heq (fun h1 => HeadStops.mono (fun _ => stopItems_stop) (hc h1))
      simp only [List.nil_append] at a ⊢
      simp only [a]
      cases tail with
      | nil => rfl
      | cons hd tl =>
        obtain ⟨p, t, q⟩ := hd
        have hs : stopItems t = true := hc rfl
        cases t <;> first | rfl | cases hs
    | cons hd rest1 =>
      obtain ⟨ss, t, es⟩ := hd
      have a := ih.tier _ _ _ _ _ _ tail heq cons_vac
      simp only [List.cons_append] at a
      cases t with
      | Comma =>
        simp only at h
        split at h
        · cases h
        · rename_i more sm em rest2 h3
          cases h
          have d := ih.items _ _ _ _ _ tail h3 hc
          simp only [a, d]
      | _ =>
        cases h
        simp only [a]
        rfl

theorem items_ext_step (g : Nat) (ih : AllExt g) : ∀ ts o s e rest tail, parseItems (g + 1) ts = some (o, s, e, rest) →
    (rest = [] → HeadStops stopItems tail) → parseItems (g + 1) (ts ++ tail) = some (o, s, e, rest ++ tail) := by
  intro ts o s e rest tail h hc
  cases ts with
  | nil =>
    unfold parseItems at h
    simp only at h
    split at h
    · cases h
    · rename_i c sc ec rest0 heq
      have := parseTier_consumes _ _ _ _ _ _ _ heq
      simp at this
  | cons hd tl =>
    obtain ⟨s0, t, e0⟩ := hd
    cases t with
    | CloseBrace =>
      unfold parseItems at h
      cases h
      unfold parseItems
      rfl
    | _ =>
      unfold parseItems at h
      have a := items_ext_body g ih _ _ _ _ _ tail h hc
      unfold parseItems
      exact a

theorem allExt : ∀ g, AllExt g
  | 0 => allExt_zero
  | g + 1 =>
    have ih := allExt g
    { tier := tier_ext_step g ih, chain := chain_ext_step g ih, term := term_ext_step g ih,
      simple := simple_ext_step g ih, opts := opts_ext_step g ih, items := items_ext_step g ih }

/-- **A successful parse is not disturbed by what follows**: if `parseTier` reads an expression from `ts` and leaves
    `rest`, then from `ts ++ tail` it reads the same expression (same tree, same spans) and leaves `rest ++ tail` --
    provided that, in case the expression took all of `ts`, the tail is empty or starts with a token that cannot continue
    an expression (`stopTok`: anything but a binary operator, `in` and `[`). -/
theorem parseTier_extend (g k : Nat) (ts tail : Toks) (x : PEx) (s e : Nat) (rest : Toks)
    (h : parseTier g k ts = some (x, s, e, rest)) (hc : rest = [] → HeadStops stopTok tail) :
    parseTier g k (ts ++ tail) = some (x, s, e, rest ++ tail) :=
  (allExt g).tier k ts x s e rest tail h hc

theorem parseChain_extend (g k : Nat) (tier : Tier) (l : PEx) (s e : Nat) (ts tail : Toks) (x : PEx) (s' e' : Nat)
    (rest : Toks) (hok : TierOK tier) (h : parseChain g k tier l s e ts = some (x, s', e', rest))
    (hc : rest = [] → HeadStops stopTok tail) :
    parseChain g k tier l s e (ts ++ tail) = some (x, s', e', rest ++ tail) :=
  (allExt g).chain k tier l s e ts x s' e' rest tail hok h hc

theorem parseTerm_extend (g : Nat) (ts tail : Toks) (x : PEx) (s e : Nat) (rest : Toks)
    (h : parseTerm g ts = some (x, s, e, rest)) (hc : rest = [] → HeadStops stopTok tail) :
    parseTerm g (ts ++ tail) = some (x, s, e, rest ++ tail) :=
  (allExt g).term ts x s e rest tail h hc

theorem parseSimple_extend (g : Nat) (ts tail : Toks) (x : PEx) (s e : Nat) (rest : Toks)
    (h : parseSimple g ts = some (x, s, e, rest)) (hc : rest = [] → HeadStops stopTok tail) :
    parseSimple g (ts ++ tail) = some (x, s, e, rest ++ tail) :=
  (allExt g).simple ts x s e rest tail h hc

theorem parseOpts_extend (g : Nat) (ts tail : Toks) (o : POpts) (s e : Nat) (rest : Toks)
    (h : parseOpts g ts = some (o, s, e, rest)) (hc : rest = [] → HeadStops stopOpts tail) :
    parseOpts g (ts ++ tail) = some (o, s, e, rest ++ tail) :=
  (allExt g).opts ts o s e rest tail h hc

theorem parseItems_extend (g : Nat) (ts tail : Toks) (o : PExs) (s e : Nat) (rest : Toks)
    (h : parseItems g ts = some (o, s, e, rest)) (hc : rest = [] → HeadStops stopItems tail) :
    parseItems g (ts ++ tail) = some (o, s, e, rest ++ tail) :=
  (allExt g).items ts o s e rest tail h hc

/-- **Redundant parentheses**: if the tokens `ts` are exactly one complete expression `x`, then `( ts )`, followed by
    anything, is a `SimpleTerm` with the very same tree `x` (spans included: a parenthesised expression keeps the
    span of the inner expression); only the extent reported for it includes the parentheses. -/
theorem parseSimple_parens (g : Nat) (ts : Toks) (x : PEx) (s e : Nat) (h : parseTier g 0 ts = some (x, s, e, []))
    (s0 e0 s1 e1 : Nat) (rest : Toks) (f : Nat) (hf : g + 1 ≤ f) :
    parseSimple f ((s0, .OpenParen, e0) :: (ts ++ (s1, .CloseParen, e1) :: rest)) = some (x, s0, e1, rest) := by
  have a := parseTier_extend g 0 ts ((s1, .CloseParen, e1) :: rest) x s e [] h (fun _ => rfl)
  simp only [List.nil_append] at a
  apply parseSimple_fuel_mono (g + 1) f _ _ hf
  unfold parseSimple
  simp only [a]
  rfl

/-- a `SimpleTerm` that is not followed by `[` is a `Term` -/
theorem parseTerm_of_simple (g : Nat) (ts : Toks) (x : PEx) (s e : Nat) (rest : Toks)
    (h : parseSimple g ts = some (x, s, e, rest)) (hs : HeadStops stopTok rest) :
    parseTerm (g + 1) ts = some (x, s, e, rest) := by
  cases ts with
  | nil =>
    have := ((allFuel g).simple _ _ _ _ _ h).1
    simp at this
  | cons hd tl =>
    obtain ⟨s0, t, e0⟩ := hd
    have key : unOpOf t = none → parseTerm (g + 1) ((s0, t, e0) :: tl) = some (x, s, e, rest) := by
      intro hop
      unfold parseTerm
      simp only [hop, h]
      cases rest with
      | nil => rfl
      | cons hd2 r =>
        obtain ⟨a, t2, b⟩ := hd2
        have hs' : stopTok t2 = true := hs
        cases t2 <;> first | rfl | cases hs'
    cases g with
    | zero => unfold parseSimple at h; cases h
    | succ g' =>
      cases t with
      | Constant v => exact key rfl
      | Identifier n => exact key rfl
      | OpenParen => exact key rfl
      | OpenBracket => exact key rfl
      | _ => unfold parseSimple at h; cases h

/-- a `Term` that is not followed by an operator, `in` or `[` is an expression of every tier -/
theorem parseTier_of_term (g : Nat) (ts : Toks) (x : PEx) (s e : Nat) (rest : Toks)
    (h : parseTerm g ts = some (x, s, e, rest)) (hs : HeadStops stopTok rest) :
    ∀ (n k : Nat), 10 ≤ k + n → parseTier (g + 1 + n) k ts = some (x, s, e, rest) := by
  intro n
  induction n with
  | zero =>
    intro k hk
    have htk : tiers[k]? = none := by
      apply List.getElem?_eq_none
      simp only [tiers, List.length_cons, List.length_nil]
      omega
    unfold parseTier
    simp only [htk]
    exact h
  | succ n ih =>
    intro k hk
    cases htk : tiers[k]? with
    | none =>
      apply parseTier_fuel_mono (g + 1) _ _ _ _ (by omega)
      unfold parseTier
      simp only [htk]
      exact h
    | some ot =>
      have a := ih (k + 1) (by omega)
      have e1 : g + 1 + (n + 1) = (g + 1 + n) + 1 := by omega
      rw [e1]
      cases ot with
      | none =>
        unfold parseTier
        simp only [htk, a]
        cases rest with
        | nil => rfl
        | cons hd2 r =>
          obtain ⟨p, t2, q⟩ := hd2
          have hs' : stopTok t2 = true := hs
          cases t2 <;> first | rfl | cases hs'
      | some tier =>
        have hok := tiers_ok htk
        unfold parseTier
        simp only [htk, a]
        by_cases hch : tier.chains = true
        · simp only [hch, if_true]
          have e2 : g + 1 + n = (g + n) + 1 := by omega
          rw [e2]
          unfold parseChain
          cases rest with
          | nil => rfl
          | cons hd2 r =>
            obtain ⟨p, t2, q⟩ := hd2
            have hs' : stopTok t2 = true := hs
            simp only [hok t2 hs']
            rfl
        · simp only [hch]
          cases rest with
          | nil => rfl
          | cons hd2 r =>
            obtain ⟨p, t2, q⟩ := hd2
            have hs' : stopTok t2 = true := hs
            simp only [hok t2 hs']
            rfl

/-- a `SimpleTerm` that is not followed by an operator, `in` or `[` is an expression of every tier -/
theorem parseTier_of_simple (g : Nat) (ts : Toks) (x : PEx) (s e : Nat) (rest : Toks)
    (h : parseSimple g ts = some (x, s, e, rest)) (hs : HeadStops stopTok rest) (k f : Nat)
    (hf : g + 2 + (10 - k) ≤ f) : parseTier f k ts = some (x, s, e, rest) := by
  have a := parseTier_of_term (g + 1) ts x s e rest (parseTerm_of_simple g ts x s e rest h hs) hs (10 - k) k (by omega)
  exact parseTier_fuel_mono _ f _ _ _ (by omega) a

/-- **Redundant parentheses at every tier**: if the tokens `ts` are exactly one complete expression `x`, then
    `( ts )` -- at the end of the input, or in front of a token that cannot continue an expression -- is an expression
    of every tier `k` with the very same tree `x`. -/
theorem parseTier_parens (g : Nat) (ts : Toks) (x : PEx) (s e : Nat) (h : parseTier g 0 ts = some (x, s, e, []))
    (s0 e0 s1 e1 : Nat) (rest : Toks) (hrest : HeadStops stopTok rest) (k f : Nat) (hf : g + 3 + (10 - k) ≤ f) :
    parseTier f k ((s0, .OpenParen, e0) :: (ts ++ (s1, .CloseParen, e1) :: rest)) = some (x, s0, e1, rest) :=
  parseTier_of_simple (g + 1) _ x s0 e1 rest (parseSimple_parens g ts x s e h s0 e0 s1 e1 rest (g + 1) (Nat.le_refl _))
    hrest k f (by omega)

/-- the same at a statement-level expression position, where the tree carries no spans: `( ts )` means what `ts` means -/
theorem parseE_parens (ts : Toks) (v : Ex) (h : parseE ts = some (v, [])) (s0 e0 s1 e1 : Nat) (rest : Toks)
    (hrest : HeadStops stopTok rest) :
    parseE ((s0, .OpenParen, e0) :: (ts ++ (s1, .CloseParen, e1) :: rest)) = some (v, rest) := by
  unfold parseE at h
  split at h
  · rename_i x s e r heq
    cases h
    exact parseE_of_parseTier _ _ x s0 e1 rest
      (parseTier_parens _ ts x s e heq s0 e0 s1 e1 rest hrest 0 _ (Nat.le_refl _))
  · cases h

/-- parentheses can be piled up: `(( ts ))` -/
example (g : Nat) (ts : Toks) (x : PEx) (s e : Nat) (h : parseTier g 0 ts = some (x, s, e, [])) (a b c d a' b' c' d' : Nat) :
    parseTier (g + 26) 0 ((a, .OpenParen, b) :: (((a', .OpenParen, b') :: (ts ++ [(c', .CloseParen, d')])) ++ [(c, .CloseParen, d)])) =
      some (x, a, d, []) :=
  parseTier_parens (g + 13) _ x a' d' (parseTier_parens g ts x s e h a' b' c' d' [] trivial 0 _ (Nat.le_refl _))
    a b c d [] trivial 0 _ (Nat.le_refl _)

end Parser

#print axioms Parser.parseTier_extend
#print axioms Parser.parseSimple_parens
#print axioms Parser.parseTier_parens
#print axioms Parser.parseE_parens
