import Hcl.Proofs.FaultNamedBanks
import Hcl.Proofs.LoopReported
open Rust

/-! Group C (and B8): the faults that `assignments_to_actions` reports, each with its diagnostic.

`assignments_to_actions` has three exits:
* `preprocess_fixed` reports something (`UnsetBuiltinWire`, `PartialFixedInput`): **only that list** is returned;
* otherwise the dependency graph has a cycle: only the `WireLoop` diagnostic is returned;
* otherwise the loop over the sorted names runs, and all its diagnostics (`UndeclaredWireAssigned`, the width checker's,
  `MismatchedWireWidths`, `UnsetWire`, `UnsetUndeclaredWire`) are returned together.
So the diagnostics of the loop need "`preprocess_fixed` reports nothing and there is no cycle" as hypotheses. -/

namespace FaultNamed

section pre
variable (fl : Flags) (widths : AMap Width) (constants : AMap WireValue) (assignments : AMap Ex) (known : List String)

/-! ### `preprocess_fixed`: diagnostics are only ever added -/

theorem preprocessOne_errors_mono (st : PreState) (f : FixedFunction) (d : Diag) (h : d ∈ st.errors) :
    d ∈ (preprocessOne fl widths constants assignments known st f).errors := by
  unfold preprocessOne
  simp only
  repeat' split
  all_goals simp_all

theorem preprocess_fold_errors_mono : ∀ (fs : List FixedFunction) (st : PreState) (d : Diag), d ∈ st.errors →
    d ∈ (fs.foldl (preprocessOne fl widths constants assignments known) st).errors
  | [], _, _, h => h
  | f :: rest, st, d, h => by
    rw [List.foldl_cons]
    exact preprocess_fold_errors_mono rest _ d (preprocessOne_errors_mono fl widths constants assignments known st f d h)

theorem preprocessOne_nodes_mono (st : PreState) (f : FixedFunction) (n : String) (h : n ∈ st.graph.nodes) :
    n ∈ (preprocessOne fl widths constants assignments known st f).graph.nodes := by
  have key : ∀ (l : List String) (out : String) (g : GBuild), n ∈ g.nodes → n ∈ (l.foldl (fun g m => g.insert m out) g).nodes := by
    intro l out
    induction l with
    | nil => intro g hg; exact hg
    | cons x rest ih =>
      intro g hg
      rw [List.foldl_cons]
      exact ih _ (GBuild.nodes_insert_mono g x out n hg)
  unfold preprocessOne
  simp only
  repeat' split
  all_goals first | exact h | exact key _ _ _ h

/-- a diagnostic that component `f` causes in every state satisfying `P`, `P` holding initially and being kept -/
theorem preprocess_fold_errors_at (P : PreState → Prop)
    (hP : ∀ st f, P st → P (preprocessOne fl widths constants assignments known st f)) (d : Diag) :
    ∀ (fs : List FixedFunction) (st : PreState) (f : FixedFunction), f ∈ fs → P st →
    (∀ st, P st → d ∈ (preprocessOne fl widths constants assignments known st f).errors) →
    d ∈ (fs.foldl (preprocessOne fl widths constants assignments known) st).errors
  | [], _, _, h, _, _ => by cases h
  | x :: rest, st, f, hf, hst, hd => by
    rw [List.foldl_cons]
    rcases List.mem_cons.mp hf with rfl | hf
    · exact preprocess_fold_errors_mono fl widths constants assignments known rest _ d (hd st hst)
    · exact preprocess_fold_errors_at P hP d rest _ f hf (hP st x hst) hd

/-! ### what one component adds -/

/-- a mandatory component lacking an input: one `UnsetBuiltinWire` per missing input -/
theorem preprocessOne_mandatory_missing (st : PreState) (f : FixedFunction) (n : String)
    (hm : f.mandatory = true) (hn : n ∈ f.inWires.map (·.1)) (ha : assignments.contains n = false) :
    (⟨.UnsetBuiltinWire, [n]⟩ : Diag) ∈ (preprocessOne fl widths constants assignments known st f).errors := by
  have hmiss : n ∈ (f.inWires.map (·.1)).filter (fun n => !assignments.contains n) := by
    rw [List.mem_filter]; exact ⟨hn, by simp [ha]⟩
  have hne : ((f.inWires.map (·.1)).filter (fun n => !assignments.contains n)).isEmpty = false := by
    cases hl : (f.inWires.map (·.1)).filter (fun n => !assignments.contains n) with
    | nil => rw [hl] at hmiss; cases hmiss
    | cons a l => rfl
  have hd : (⟨.UnsetBuiltinWire, [n]⟩ : Diag) ∈
      ((f.inWires.map (·.1)).filter (fun n => !assignments.contains n)).map (fun n => (⟨.UnsetBuiltinWire, [n]⟩ : Diag)) :=
    List.mem_map.mpr ⟨n, hmiss, rfl⟩
  unfold preprocessOne
  simp only [hm, hne, Bool.not_false, Bool.and_self, if_true]
  repeat' split
  all_goals simp_all

/-- the enable input of the component is assigned an expression that passes the width checker and evaluates to 0 -/
def DisabledBy (f : FixedFunction) : Prop :=
  ∃ en expr v, f.disabledIfFalse = some en ∧ assignments.get? en = some expr ∧
    (∃ ew, check fl widths.toCtx constants.toEnv expr = .ok ew) ∧
    ev fl constants.toEnv (fixMux fl widths.toCtx constants.toEnv expr) = .ok v ∧ v.bits = 0

/-- a component that is not mandatory, has some but not all of its inputs, and is not disabled -/
theorem preprocessOne_partial (st : PreState) (f : FixedFunction)
    (hm : f.mandatory = false)
    (hsome : ∃ i ∈ f.inWires.map (·.1), assignments.contains i = true)
    (hnot : ∃ i ∈ f.inWires.map (·.1), assignments.contains i = false)
    (hen : ¬ DisabledBy fl widths constants assignments f) :
    (⟨.PartialFixedInput, (f.inWires.map (·.1)).filter (fun n => assignments.contains n) ++ ["/"] ++
        (f.inWires.map (·.1)).filter (fun n => !assignments.contains n)⟩ : Diag) ∈
      (preprocessOne fl widths constants assignments known st f).errors := by
  obtain ⟨i, hi, hia⟩ := hnot
  obtain ⟨j, hj, hja⟩ := hsome
  have hmiss : i ∈ (f.inWires.map (·.1)).filter (fun n => !assignments.contains n) := by
    rw [List.mem_filter]; exact ⟨hi, by simp [hia]⟩
  have hne : ((f.inWires.map (·.1)).filter (fun n => !assignments.contains n)).isEmpty = false := by
    cases hl : (f.inWires.map (·.1)).filter (fun n => !assignments.contains n) with
    | nil => rw [hl] at hmiss; cases hmiss
    | cons a l => rfl
  have hlen : (((f.inWires.map (·.1)).filter (fun n => !assignments.contains n)).length != f.inWires.length) = true := by
    have h1 := ActIff.filter_length_ne_of (fun n => !assignments.contains n) (f.inWires.map (·.1)) ⟨j, hj, by simp [hja]⟩
    rw [List.length_map] at h1
    simpa using h1
  unfold preprocessOne
  simp only [hm, hne, hlen, Bool.false_and, Bool.not_false, Bool.false_eq_true, if_false, if_true]
  -- the value of `isDisabled`
  cases hd : f.disabledIfFalse with
  | none => simp
  | some en =>
    cases hg : assignments.get? en with
    | none => simp [hg]
    | some expr =>
      cases hc : check fl widths.toCtx constants.toEnv expr with
      | error _ => simp [hg, hc]
      | ok ew =>
        cases hev : ev fl constants.toEnv (fixMux fl widths.toCtx constants.toEnv expr) with
        | error _ => simp [hg, hc, hev]
        | ok v =>
          by_cases hv : v.bits > 0
          · simp [hg, hc, hev, hv]
          · exfalso
            exact hen ⟨en, expr, v, hd, hg, ⟨ew, hc⟩, hev, by omega⟩

/-- a component that is not mandatory, lacks an input, and whose output is a node of the graph (something reads it) -/
theorem preprocessOne_used_missing (st : PreState) (f : FixedFunction) (n out : String) (w : Nat)
    (hm : f.mandatory = false) (ho : f.outWire = some (out, w)) (hnode : out ∈ st.graph.nodes)
    (hn : n ∈ f.inWires.map (·.1)) (ha : assignments.contains n = false) :
    (⟨.UnsetBuiltinWire, [n]⟩ : Diag) ∈ (preprocessOne fl widths constants assignments known st f).errors := by
  have hmiss : n ∈ (f.inWires.map (·.1)).filter (fun n => !assignments.contains n) := by
    rw [List.mem_filter]; exact ⟨hn, by simp [ha]⟩
  have hne : ((f.inWires.map (·.1)).filter (fun n => !assignments.contains n)).isEmpty = false := by
    cases hl : (f.inWires.map (·.1)).filter (fun n => !assignments.contains n) with
    | nil => rw [hl] at hmiss; cases hmiss
    | cons a l => rfl
  have hd : (⟨.UnsetBuiltinWire, [n]⟩ : Diag) ∈
      ((f.inWires.map (·.1)).filter (fun n => !assignments.contains n)).map (fun n => (⟨.UnsetBuiltinWire, [n]⟩ : Diag)) :=
    List.mem_map.mpr ⟨n, hmiss, rfl⟩
  have hcn : ∀ g : GBuild, out ∈ g.nodes → g.containsNode out = true := by
    intro g hg; unfold GBuild.containsNode; exact List.contains_iff_mem.mpr hg
  unfold preprocessOne
  simp only [hm, hne, ho, Bool.false_and, Bool.not_false, Bool.false_eq_true, if_false, if_true]
  split
  · rw [if_pos (hcn _ hnode)]
    apply List.mem_append_left
    apply List.mem_append_right
    exact hd
  · rw [if_pos (hcn _ hnode)]
    apply List.mem_append_left
    apply List.mem_append_right
    exact hd

end pre

/-! ### the first exit of `assignments_to_actions` -/

/-- the state of `preprocess_fixed` after the whole table -/
def preOf (fl : Flags) (assignments : AMap Ex) (widths : AMap Width) (known : List String) (fixed : List FixedFunction)
    (constants : AMap WireValue) : PreState :=
  fixed.foldl (preprocessOne fl widths constants assignments known) { graph := assignGraph assignments known }

theorem assignmentsToActions_pre_error (fl : Flags) (o : Orders) (assignments : AMap Ex) (widths : AMap Width)
    (known : List String) (fixed : List FixedFunction) (declared : List String) (constants : AMap WireValue)
    (h : (preOf fl assignments widths known fixed constants).errors ≠ []) :
    assignmentsToActions fl o assignments widths known fixed declared constants =
      .error (preOf fl assignments widths known fixed constants).errors := by
  unfold assignmentsToActions
  simp only
  have : List.foldl (preprocessOne fl widths constants assignments known) { graph := assignGraph assignments known } fixed =
    preOf fl assignments widths known fixed constants := rfl
  rw [this, if_pos]
  simpa using h

/-! ### the loop over the sorted names: diagnostics are only ever added -/

section loop
variable (fl : Flags) (assignments : AMap Ex) (widths : AMap Width) (declared : List String)
  (constants : AMap WireValue) (byOutput : AMap FixedFunction)

theorem loopStep_errors_mem (st : LoopState) (name : String) (d : Diag)
    (h : d ∈ st.errors ∨ d ∈ nameErrs fl assignments widths declared constants byOutput name) :
    d ∈ (loopStep fl assignments widths declared constants byOutput st name).errors := by
  unfold loopStep
  unfold nameErrs at h
  simp only
  cases h1 : assignments.get? name with
  | some expr =>
    simp only [h1] at h ⊢
    cases h2 : widths.get? name with
    | none =>
      simp only [h2] at h ⊢
      split <;> (rcases h with h | h <;> simp_all)
    | some w =>
      simp only [h2] at h ⊢
      cases h3 : check fl widths.toCtx constants.toEnv expr with
      | error ds =>
        simp only [h3] at h ⊢
        split <;> (rcases h with h | h <;> simp_all)
      | ok ew =>
        simp only [h3] at h ⊢
        cases h4 : w.combine ew with
        | none =>
          simp only [h4] at h ⊢
          split <;> (rcases h with h | h <;> simp_all)
        | some _ =>
          simp only [h4] at h ⊢
          split <;> (rcases h with h | h <;> simp_all)
  | none =>
    simp only [h1] at h ⊢
    cases h2 : byOutput.get? name with
    | some f =>
      simp only [h2] at h ⊢
      split <;> (rcases h with h | h <;> simp_all)
    | none =>
      simp only [h2] at h ⊢
      by_cases hd : declared.contains name = true
      · simp only [hd, if_true] at h ⊢
        simp_all
      · simp only [hd, if_false] at h ⊢
        simp_all

theorem loopStep_seen_mem (st : LoopState) (name : String) (n : String)
    (h : n ∈ st.seenUndeclared ∨ (n = name ∧ nameUndecl assignments declared byOutput name = true)) :
    n ∈ (loopStep fl assignments widths declared constants byOutput st name).seenUndeclared := by
  unfold loopStep
  unfold nameUndecl at h
  simp only
  cases h1 : assignments.get? name with
  | some expr =>
    simp only [h1, Option.isNone_some, Bool.false_and, Bool.false_eq_true, and_false, or_false] at h ⊢
    repeat' split
    all_goals exact h
  | none =>
    simp only [h1] at h ⊢
    cases h2 : byOutput.get? name with
    | some f =>
      simp only [h2, Option.isNone_some, Option.isNone_none, Bool.true_and, Bool.false_and, Bool.false_eq_true, and_false, or_false] at h ⊢
      repeat' split
      all_goals exact h
    | none =>
      simp only [h2, Option.isNone_none, Bool.true_and] at h ⊢
      by_cases hd : declared.contains name = true
      · simp only [hd, if_true, Bool.not_true, Bool.false_eq_true, and_false, or_false] at h ⊢
        exact h
      · have hd' : declared.contains name = false := by simpa using hd
        simp only [hd', Bool.false_eq_true, if_false] at h ⊢
        rw [mem_setInsert]
        rcases h with h | h
        · exact Or.inl h
        · exact Or.inr h.1

theorem actionsLoop_errors_mono : ∀ (names : List String) (st : LoopState) (d : Diag), d ∈ st.errors →
    d ∈ (actionsLoop fl assignments widths declared constants byOutput names st).errors
  | [], _, _, h => h
  | x :: rest, st, d, h => by
    unfold actionsLoop
    rw [List.foldl_cons]
    exact actionsLoop_errors_mono rest _ d (loopStep_errors_mem fl assignments widths declared constants byOutput st x d (Or.inl h))

theorem actionsLoop_errors_name : ∀ (names : List String) (st : LoopState) (d : Diag) (name : String), name ∈ names →
    d ∈ nameErrs fl assignments widths declared constants byOutput name →
    d ∈ (actionsLoop fl assignments widths declared constants byOutput names st).errors
  | [], _, _, _, h, _ => by cases h
  | x :: rest, st, d, name, hn, hd => by
    rcases List.mem_cons.mp hn with rfl | hn
    · unfold actionsLoop
      rw [List.foldl_cons]
      exact actionsLoop_errors_mono fl assignments widths declared constants byOutput rest _ d
        (loopStep_errors_mem fl assignments widths declared constants byOutput st name d (Or.inr hd))
    · unfold actionsLoop
      rw [List.foldl_cons]
      exact actionsLoop_errors_name rest _ d name hn hd

theorem actionsLoop_seen_mono : ∀ (names : List String) (st : LoopState) (n : String), n ∈ st.seenUndeclared →
    n ∈ (actionsLoop fl assignments widths declared constants byOutput names st).seenUndeclared
  | [], _, _, h => h
  | x :: rest, st, n, h => by
    unfold actionsLoop
    rw [List.foldl_cons]
    exact actionsLoop_seen_mono rest _ n (loopStep_seen_mem fl assignments widths declared constants byOutput st x n (Or.inl h))

theorem actionsLoop_seen_name : ∀ (names : List String) (st : LoopState) (name : String), name ∈ names →
    nameUndecl assignments declared byOutput name = true →
    name ∈ (actionsLoop fl assignments widths declared constants byOutput names st).seenUndeclared
  | [], _, _, h, _ => by cases h
  | x :: rest, st, name, hn, hd => by
    rcases List.mem_cons.mp hn with rfl | hn
    · unfold actionsLoop
      rw [List.foldl_cons]
      exact actionsLoop_seen_mono fl assignments widths declared constants byOutput rest _ name
        (loopStep_seen_mem fl assignments widths declared constants byOutput st name name (Or.inr ⟨rfl, hd⟩))
    · unfold actionsLoop
      rw [List.foldl_cons]
      exact actionsLoop_seen_name rest _ name hn hd

end loop

end FaultNamed
