import Hcl.Proofs.LexLiterals
open Lexer

/-! The spans of the tokens: byte offsets into the input, in order, not overlapping, within the input. -/

namespace Lexer

theorem size_pos (c : Char) : 0 < size c := Char.utf8Size_pos c

theorem sizeOf'_cons (c : Char) (l : List Char) : sizeOf' (c :: l) = size c + sizeOf' l := by simp [sizeOf']
theorem sizeOf'_append (a b : List Char) : sizeOf' (a ++ b) = sizeOf' a + sizeOf' b := by simp [sizeOf']
theorem sizeOf'_nil : sizeOf' [] = 0 := rfl

theorem spanWhile_split (f : Char → Bool) : ∀ (l a b : List Char), spanWhile f l = (a, b) → l = a ++ b
  | [], a, b, h => by simp [spanWhile] at h; obtain ⟨rfl, rfl⟩ := h; rfl
  | c :: rest, a, b, h => by
    unfold spanWhile at h
    by_cases hc : f c = true
    · simp only [hc, if_true] at h
      cases hsp : spanWhile f rest with
      | mk a' b' =>
        rw [hsp] at h
        simp only [Prod.mk.injEq] at h
        obtain ⟨rfl, rfl⟩ := h
        rw [spanWhile_split f rest a' b' hsp]; rfl
    · simp only [hc, Bool.false_eq_true, if_false, Prod.mk.injEq] at h
      obtain ⟨rfl, rfl⟩ := h; rfl

theorem spanWhile_size (f : Char → Bool) (l a b : List Char) (h : spanWhile f l = (a, b)) :
    sizeOf' l = sizeOf' a + sizeOf' b := by
  rw [spanWhile_split f l a b h, sizeOf'_append]

/-- the first character left over does not satisfy the predicate -/
theorem spanWhile_head (f : Char → Bool) : ∀ (l a : List Char) (c : Char) (b : List Char),
    spanWhile f l = (a, c :: b) → f c = false
  | [], a, c, b, h => by simp [spanWhile] at h
  | x :: rest, a, c, b, h => by
    unfold spanWhile at h
    by_cases hx : f x = true
    · simp only [hx, if_true] at h
      cases hsp : spanWhile f rest with
      | mk a' b' =>
        rw [hsp] at h
        simp only [Prod.mk.injEq] at h
        obtain ⟨_, rfl⟩ := h
        exact spanWhile_head f rest a' c b hsp
    · simp only [hx, Bool.false_eq_true, if_false, Prod.mk.injEq, List.cons.injEq] at h
      obtain ⟨_, rfl, _⟩ := h
      simpa using hx

theorem skipBlock_pos : ∀ (fuel : Nat) (cs after : List Char) (off off' : Nat),
    skipBlock fuel cs off = some (after, off') → off' + sizeOf' after = off + sizeOf' cs ∧ off ≤ off'
  | 0, _, _, _, _, h => by simp [skipBlock] at h
  | fuel + 1, cs, after, off, off', h => by
    unfold skipBlock at h
    cases hsp : spanWhile (· != '*') cs with
    | mk skipped aft =>
      rw [hsp] at h
      simp only at h
      have hsz := spanWhile_size _ cs skipped aft hsp
      cases aft with
      | nil => simp at h
      | cons star after2 =>
        have hstar : star = '*' := by
          have := spanWhile_head _ cs skipped star after2 hsp
          simpa using this
        subst hstar
        have h1 : size '*' = 1 := by decide
        simp only at h
        rw [sizeOf'_cons, h1] at hsz
        split at h
        · rename_i after3
          simp only [Option.some.injEq, Prod.mk.injEq] at h
          obtain ⟨rfl, rfl⟩ := h
          have h2 : size '/' = 1 := by decide
          rw [sizeOf'_cons, h2] at hsz
          constructor <;> omega
        · have := skipBlock_pos fuel after2 after (off + sizeOf' skipped + 1) off' h
          constructor <;> omega

/-- what a turn of the loop guarantees, given that `off` is the byte offset of the rest of the input `cs`:
    the token it yields (if any) lies between `off` and where the loop goes on, and the offset stays in step -/
def StepOK (total off : Nat) : Step → Prop
  | .stop items => items.length ≤ 1 ∧ ∀ s t e, Item.tok s t e ∈ items → off ≤ s ∧ s < e ∧ e ≤ total
  | .more items cs' off' => items.length ≤ 1 ∧ off' + sizeOf' cs' = total ∧ off ≤ off' ∧
      ∀ s t e, Item.tok s t e ∈ items → off ≤ s ∧ s < e ∧ e ≤ off'

theorem stepOK_simple (total : Nat) (c : Char) (rest : List Char) (off : Nat) (t : Tok)
    (hp : off + sizeOf' (c :: rest) = total) : StepOK total off (simpleStep rest off (off + size c) t) := by
  unfold simpleStep StepOK
  have := size_pos c
  rw [sizeOf'_cons] at hp
  refine ⟨by simp, by omega, by omega, ?_⟩
  intro s t' e hm
  simp only [List.mem_cons, List.not_mem_nil, or_false, Item.tok.injEq] at hm
  obtain ⟨rfl, _, rfl⟩ := hm
  omega

theorem stepOK_choose (total : Nat) (c : Char) (rest : List Char) (off : Nat) (dflt : Tok) (opts : List (Char × Tok))
    (hp : off + sizeOf' (c :: rest) = total) : StepOK total off (chooseStep rest off (off + size c) dflt opts) := by
  have hc := size_pos c
  rw [sizeOf'_cons] at hp
  unfold chooseStep
  cases rest with
  | nil =>
    unfold StepOK
    refine ⟨by simp, by omega, by omega, ?_⟩
    intro s t' e hm
    simp only [List.mem_cons, List.not_mem_nil, or_false, Item.tok.injEq] at hm
    obtain ⟨rfl, _, rfl⟩ := hm
    omega
  | cons d rest2 =>
    simp only
    have hd := size_pos d
    rw [sizeOf'_cons] at hp
    cases opts.find? (fun o => o.1 == d) with
    | some o =>
      unfold StepOK
      refine ⟨by simp, by omega, by omega, ?_⟩
      intro s t' e hm
      simp only [List.mem_cons, List.not_mem_nil, or_false, Item.tok.injEq] at hm
      obtain ⟨rfl, _, rfl⟩ := hm
      omega
    | none =>
      unfold StepOK
      refine ⟨by simp, by rw [sizeOf'_cons]; omega, by omega, ?_⟩
      intro s t' e hm
      simp only [List.mem_cons, List.not_mem_nil, or_false, Item.tok.injEq] at hm
      obtain ⟨rfl, _, rfl⟩ := hm
      omega

theorem stepOK_lineComment (total : Nat) (rest : List Char) (off next : Nat) (hle : off ≤ next)
    (hp : next + sizeOf' rest = total) : StepOK total off (lineCommentStep rest next) := by
  unfold lineCommentStep
  cases hsp : spanWhile (fun d => d != '\n' && d != '\r') rest with
  | mk skipped after =>
    have := spanWhile_size _ rest skipped after hsp
    unfold StepOK
    refine ⟨by simp, by omega, by omega, ?_⟩
    intro s t e hm; cases hm

theorem stepOK_slash (total : Nat) (c : Char) (rest : List Char) (off : Nat) (hp : off + sizeOf' (c :: rest) = total) :
    StepOK total off (slashStep rest off (off + size c)) := by
  have hc := size_pos c
  unfold slashStep
  split
  · rename_i r
    exact stepOK_lineComment total _ off _ (by omega) (by rw [sizeOf'_cons] at hp; omega)
  · rename_i r
    split
    · rename_i after off' hsk
      obtain ⟨this, hmono⟩ := skipBlock_pos _ _ _ _ _ hsk
      rw [sizeOf'_cons] at hp
      unfold StepOK
      refine ⟨by simp, by omega, by omega, ?_⟩
      intro s t e hm; cases hm
    · unfold StepOK
      refine ⟨by simp, ?_⟩
      intro s t e hm
      simp at hm
  · exact stepOK_simple total c rest off .Divide hp

theorem stepOK_ite {total off : Nat} {p : Prop} [Decidable p] {a b : Step}
    (ha : StepOK total off a) (hb : StepOK total off b) : StepOK total off (if p then a else b) := by
  split <;> assumption

theorem stepOK_dot (total : Nat) (c : Char) (rest : List Char) (off : Nat) (hp : off + sizeOf' (c :: rest) = total) :
    StepOK total off (match (generalizing := false) rest with
      | '.' :: rest2 => .more [.tok off .DotDot (off + 2)] rest2 (off + size c + 1)
      | _ => .stop [.err (.lexical off)]) := by
  have hc := size_pos c
  revert hp
  split
  · rename_i rest2
    intro hp
    have h1 : size '.' = 1 := by decide
    rw [sizeOf'_cons, sizeOf'_cons, h1] at hp
    unfold StepOK
    refine ⟨by simp, by omega, by omega, ?_⟩
    intro s t e hm
    simp only [List.mem_cons, List.not_mem_nil, or_false, Item.tok.injEq] at hm
    obtain ⟨rfl, _, rfl⟩ := hm
    omega
  · intro _
    unfold StepOK
    refine ⟨by simp, ?_⟩
    intro s t e hm
    simp at hm

theorem stepOK_punct (total : Nat) (c : Char) (rest : List Char) (off : Nat) (hp : off + sizeOf' (c :: rest) = total) :
    StepOK total off (punctStep c rest off (off + size c)) := by
  unfold punctStep
  repeat' apply stepOK_ite
  all_goals first
    | exact stepOK_simple total c rest off _ hp
    | exact stepOK_choose total c rest off _ _ hp
    | exact stepOK_lineComment total rest off _ (by omega) (by rw [sizeOf'_cons] at hp; omega)
    | exact stepOK_slash total c rest off hp
    | exact stepOK_dot total c rest off hp
    | (unfold StepOK; refine ⟨by simp, ?_⟩; intro s t e hm; simp at hm)

/-- `handle_constant`: the token starts at `i`, ends where the lexer goes on, and the offset stays in step -/
theorem handleConstant_pos (i : Nat) (first : Char) (rest : List Char) (total : Nat) (s : Nat) (t : Tok) (e : Nat)
    (after : List Char) (off' : Nat) (hfirst : isDec first = true)
    (h : handleConstant i first rest total = .ok ((s, t, e), after, off')) :
    s = i ∧ e = off' ∧ i < e ∧ off' + sizeOf' after = i + sizeOf' (first :: rest) := by
  have hf1 : size first = 1 := isDec_size first hfirst
  unfold handleConstant at h
  simp only at h
  cases rest with
  | nil =>
    simp only [Except.ok.injEq, Prod.mk.injEq] at h
    obtain ⟨⟨rfl, _, rfl⟩, rfl, rfl⟩ := h
    simp [sizeOf'_cons, sizeOf'_nil, hf1]
  | cons c2 rest2 =>
    simp only at h
    by_cases hx : (c2 == 'x') = true
    · have hc2 : c2 = 'x' := by simpa using hx
      subst hc2
      have hx1 : size 'x' = 1 := by decide
      simp only [beq_self_eq_true, if_true] at h
      cases rest2 with
      | nil => simp at h
      | cons hd tl =>
        simp only at h
        split at h
        · cases h
        · cases hsp : spanWhile isHex (hd :: tl) with
          | mk digits aft =>
            rw [hsp] at h
            simp only at h
            have hsz := spanWhile_size _ _ _ _ hsp
            split at h
            · simp only [Except.ok.injEq, Prod.mk.injEq] at h
              obtain ⟨⟨rfl, _, rfl⟩, rfl, rfl⟩ := h
              simp only [sizeOf'_cons, hf1, hx1] at hsz ⊢
              refine ⟨?_, ?_, by omega, by omega⟩ <;> first | rfl | trivial
            · cases h
    · have hx' : (c2 == 'x') = false := by simpa using hx
      simp only [hx', Bool.false_eq_true, if_false] at h
      by_cases hb : (c2 == 'b') = true
      · have hc2 : c2 = 'b' := by simpa using hb
        subst hc2
        have hb1 : size 'b' = 1 := by decide
        simp only [beq_self_eq_true, if_true] at h
        cases rest2 with
        | nil => simp at h
        | cons hd tl =>
          simp only at h
          split at h
          · cases h
          · cases hsp : spanWhile isBin (hd :: tl) with
            | mk digits aft =>
              rw [hsp] at h
              simp only at h
              have hsz := spanWhile_size _ _ _ _ hsp
              have fin : ∀ (v : Nat), (Except.ok ((i, Tok.Constant ⟨v, .bits digits.length⟩, i + 2 + sizeOf' digits), aft, i + 2 + sizeOf' digits) :
                  Except LexErr ((Nat × Tok × Nat) × List Char × Nat)) = .ok ((s, t, e), after, off') →
                  s = i ∧ e = off' ∧ i < e ∧ off' + sizeOf' after = i + sizeOf' (first :: 'b' :: hd :: tl) := by
                intro v hv
                simp only [Except.ok.injEq, Prod.mk.injEq] at hv
                obtain ⟨⟨rfl, _, rfl⟩, rfl, rfl⟩ := hv
                simp only [sizeOf'_cons, hf1, hb1] at hsz ⊢
                refine ⟨?_, ?_, by omega, by omega⟩ <;> first | rfl | trivial
              split at h
              · split at h
                · cases h
                · split at h
                  · cases h
                  · split at h
                    · exact fin _ h
                    · cases h
              · split at h
                · cases h
                · split at h
                  · exact fin _ h
                  · cases h
      · have hb' : (c2 == 'b') = false := by simpa using hb
        simp only [hb', Bool.false_eq_true, if_false] at h
        split at h
        · cases hsp : spanWhile isDec (first :: c2 :: rest2) with
          | mk digits aft =>
            rw [hsp] at h
            simp only at h
            have hsz := spanWhile_size _ _ _ _ hsp
            have hne : 0 < sizeOf' digits := by
              unfold spanWhile at hsp
              simp only [hfirst, if_true] at hsp
              cases hsp2 : spanWhile isDec (c2 :: rest2) with
              | mk a' b' =>
                rw [hsp2] at hsp
                simp only [Prod.mk.injEq] at hsp
                obtain ⟨rfl, _⟩ := hsp
                rw [sizeOf'_cons]; have := size_pos first; omega
            split at h
            · simp only [Except.ok.injEq, Prod.mk.injEq] at h
              obtain ⟨⟨rfl, _, rfl⟩, rfl, rfl⟩ := h
              refine ⟨?_, ?_, by omega, by omega⟩ <;> first | rfl | trivial
            · cases h
        · simp only [Except.ok.injEq, Prod.mk.injEq] at h
          obtain ⟨⟨rfl, _, rfl⟩, rfl, rfl⟩ := h
          simp only [sizeOf'_cons, hf1]
          refine ⟨?_, ?_, by omega, by omega⟩ <;> first | rfl | trivial

/-- **one turn of the lexer's loop**, whatever the character classes: when `off` is the byte offset of the remaining
    input, the token it yields lies at or after `off`, is not empty, ends where the loop goes on, and the offset
    there is again the byte offset of what remains -/
theorem lexStep_ok (cls : CharCls) (total : Nat) (cs : List Char) (off : Nat) (hp : off + sizeOf' cs = total) :
    StepOK total off (lexStep cls total cs off) := by
  unfold lexStep
  cases cs with
  | nil => unfold StepOK; refine ⟨by simp, ?_⟩; intro s t e hm; cases hm
  | cons c rest =>
    have hc := size_pos c
    simp only
    split
    · unfold StepOK
      rw [sizeOf'_cons] at hp
      refine ⟨by simp, by omega, by omega, ?_⟩
      intro s t e hm; cases hm
    · split
      · unfold identStep
        cases hsp : spanWhile (fun d => cls.isAlphanumeric d || d == '_') rest with
        | mk more after =>
          have hsz := spanWhile_size _ _ _ _ hsp
          rw [sizeOf'_cons] at hp
          unfold StepOK
          refine ⟨by simp, by omega, by omega, ?_⟩
          intro s t e hm
          simp only [List.mem_cons, List.not_mem_nil, or_false, Item.tok.injEq] at hm
          obtain ⟨rfl, _, rfl⟩ := hm
          omega
      · split
        · rename_i hdec
          unfold constantStep
          cases hcst : handleConstant off c rest total with
          | error e => unfold StepOK; refine ⟨by simp, ?_⟩; intro s t e' hm; simp at hm
          | ok r =>
            obtain ⟨⟨s, t, e⟩, after, off'⟩ := r
            obtain ⟨h1, h2, h3, h4⟩ := handleConstant_pos off c rest total s t e after off' hdec hcst
            unfold StepOK
            refine ⟨by simp, by omega, by omega, ?_⟩
            intro s' t' e' hm
            simp only [List.mem_cons, List.not_mem_nil, or_false, Item.tok.injEq] at hm
            obtain ⟨rfl, _, rfl⟩ := hm
            omega
        · exact stepOK_punct total c rest off hp

/-- the spans of a token list are in order from `lo` on: each token is non-empty, starts at or after the end of the one
    before it (and at or after `lo`), and ends within the input -/
def SpansFrom (total : Nat) : Nat → List Item → Prop
  | _, [] => True
  | lo, .tok s _ e :: r => lo ≤ s ∧ s < e ∧ e ≤ total ∧ SpansFrom total e r
  | lo, .err _ :: r => SpansFrom total lo r

theorem spansFrom_mono (total : Nat) : ∀ (items : List Item) (lo lo' : Nat), lo' ≤ lo → SpansFrom total lo items →
    SpansFrom total lo' items
  | [], _, _, _, _ => trivial
  | .tok s t e :: r, lo, lo', hle, h => ⟨by have := h.1; omega, h.2.1, h.2.2.1, h.2.2.2⟩
  | .err _ :: r, lo, lo', hle, h => spansFrom_mono total r lo lo' hle h

theorem spansFrom_step (total off hi : Nat) (items rest : List Item) (hlen : items.length ≤ 1)
    (htok : ∀ s t e, Item.tok s t e ∈ items → off ≤ s ∧ s < e ∧ e ≤ hi) (hle : off ≤ hi) (hhi : hi ≤ total)
    (hrest : SpansFrom total hi rest) : SpansFrom total off (items ++ rest) := by
  cases items with
  | nil => exact spansFrom_mono total rest hi off hle hrest
  | cons x tl =>
    cases tl with
    | cons y tl' => simp at hlen
    | nil =>
      cases x with
      | err _ => exact spansFrom_mono total rest hi off hle hrest
      | tok s t e =>
        obtain ⟨a, b, c⟩ := htok s t e List.mem_cons_self
        exact ⟨a, b, by omega, spansFrom_mono total rest hi e c hrest⟩

/-- **the spans of all tokens**: in order, non-empty, not overlapping, within the input -/
theorem lexAll_spans (cls : CharCls) (total : Nat) : ∀ (fuel : Nat) (cs : List Char) (off : Nat),
    off + sizeOf' cs = total → SpansFrom total off (lexAll cls total fuel cs off)
  | 0, _, _, _ => by unfold lexAll; exact trivial
  | fuel + 1, cs, off, hp => by
    unfold lexAll
    have hok := lexStep_ok cls total cs off hp
    cases hs : lexStep cls total cs off with
    | stop items =>
      rw [hs] at hok
      simp only
      unfold StepOK at hok
      have := spansFrom_step total off total items [] hok.1 hok.2 (by omega) (Nat.le_refl _) trivial
      simpa using this
    | more items cs' off' =>
      rw [hs] at hok
      simp only
      unfold StepOK at hok
      obtain ⟨hlen, hp', hle, htok⟩ := hok
      exact spansFrom_step total off off' items _ hlen htok hle (by omega) (lexAll_spans cls total fuel cs' off' hp')

theorem lex_spans (cls : CharCls) (input : List Char) : SpansFrom (sizeOf' input) 0 (lex cls input) :=
  lexAll_spans cls _ _ _ _ (Nat.zero_add _)
end Lexer
