import Hcl.Proofs.StepSound
import Hcl.Proofs.Accepted
open Rust

/-!
# C07 — a program that passes checking never fails or misbehaves at run time

`ProgramOK fl Γ κ p avail` is what acceptance establishes about the scheduled program `p`
(every assignment was accepted by the checker and had its case expressions width-fixed; every
action only reads wires that are initially available or written by an earlier action).
`StateOK Γ s` says every wire value present fits its declared width, there are 16 program
registers below 2^64 and memory holds bytes.  The model's `Err.fail` outcome stands for every
Rust panic site of `step_with_output`, `process_register_banks`, `evaluate` and the operators.
-/

/-- **C07, one cycle.** From a well-typed state a cycle ends in a well-typed state or in an explicit
    division-by-zero report; no panic, no run-time width error, no undeclared-wire error. -/
theorem C07_cycle {fl : Flags} {Γ : Ctx} {κ : Env} {p : Program} {avail : List String}
    (hp : ProgramOK fl Γ κ p avail) (s : State) (hs : StateOK Γ s)
    (hav : ∀ n ∈ avail, s.values.contains n = true) (hbanks : ∀ b ∈ p.banks, BankOK Γ s.values b) :
    (∃ s', stepCycle fl p s = .ok s' ∧ StateOK Γ s' ∧ s'.cycle = s.cycle + 1 ∧
        (∀ n, s.values.contains n = true → s'.values.contains n = true)) ∨
    stepCycle fl p s = .error .divideByZero :=
  stepCycle_sound hp s hs hav hbanks

theorem BankOK.mono {Γ : Ctx} {v v' : AMap WireValue} {b : RegisterBank} (h : BankOK Γ v b)
    (hm : ∀ n, v.contains n = true → v'.contains n = true) : BankOK Γ v' b :=
  ⟨fun q hq => ⟨(h.defaults q hq).1, (h.defaults q hq).2.1, hm _ (h.defaults q hq).2.2⟩,
   fun sg hsg => ⟨(h.signals sg hsg).1, hm _ (h.signals sg hsg).2.1, hm _ (h.signals sg hsg).2.2⟩,
   hm _ h.stall, hm _ h.bubble⟩

/-- **C07, every history.** For any number of cycles, on any memory image and register contents:
    the run yields a well-typed state after every cycle, or stops with an explicit division-by-zero
    report.  In particular every wire always holds a value that fits its declared width. -/
theorem C07_soundness {fl : Flags} {Γ : Ctx} {κ : Env} {p : Program} {avail : List String}
    (hp : ProgramOK fl Γ κ p avail) :
    ∀ (n : Nat) (s : State), StateOK Γ s → (∀ x ∈ avail, s.values.contains x = true) →
      (∀ b ∈ p.banks, BankOK Γ s.values b) →
      (∃ s', runN fl p n s = .ok s' ∧ StateOK Γ s' ∧ s'.cycle = s.cycle + n) ∨
      runN fl p n s = .error .divideByZero
  | 0, s, hs, _, _ => Or.inl ⟨s, rfl, hs, rfl⟩
  | n+1, s, hs, hav, hb => by
    rcases stepCycle_sound hp s hs hav hb with ⟨s₁, h₁, hs₁, hc₁, hm₁⟩ | herr
    · rcases C07_soundness hp n s₁ hs₁ (fun x hx => hm₁ x (hav x hx)) (fun b hbb => (hb b hbb).mono hm₁)
        with ⟨s₂, h₂, hs₂, hc₂⟩ | herr₂
      · left; exact ⟨s₂, by simp [runN, h₁, h₂, bind, Except.bind], hs₂, by rw [hc₂, hc₁]; omega⟩
      · right; simp [runN, h₁, herr₂, bind, Except.bind]
    · right; simp [runN, herr, bind, Except.bind]

/-- values fit their declared width in every reachable state (restating `StateOK.vals`) -/
theorem C07_values_fit {Γ : Ctx} {s : State} (hs : StateOK Γ s) (n : String) (v : WireValue)
    (h : s.values.get? n = some v) : Γ n = some v.width ∧ v.bits < v.width.card :=
  hs.vals n v h

/-- expression level: evaluation of an accepted, width-fixed expression never panics and never reports a width or
    undeclared-wire error (it is `ok` at the checked width, or `divideByZero`) -/
theorem C07_expression {fl : Flags} {Γ : Ctx} {κ σ : Env} (hΓ : CtxOK Γ) (hσ : EnvOK Γ σ)
    (e : Ex) (w : Width) (hwf : wfEx e = true) (hc : check fl Γ κ e = .ok w) :
    (∃ v, ev fl σ (fixMux fl Γ κ e) = .ok ⟨v, w⟩ ∧ v < w.card) ∨ ev fl σ (fixMux fl Γ κ e) = .error .divideByZero := by
  obtain ⟨_, _, h⟩ := ev_correct hΓ e w (hσ.on _) hwf hc
  cases hd : Spec.dv Γ (val σ) e with
  | none => simp only [hd] at h; exact Or.inr h
  | some v => simp only [hd] at h; exact Or.inl ⟨v, h⟩

/-- **C07 for every accepted program** (no hypothesis about the schedule): if the model of `Program::new`
    accepts a statement list — under any iteration order of its hash tables — then from the initial state, on any
    memory image, any number of cycles either all succeed, each ending in a well-typed state, or the run stops with
    an explicit division-by-zero report.  No panic site of `Program::initial_state`, `step`,
    `process_register_banks`, `evaluate` or the operators is reachable, and no run-time width or
    undeclared-wire error can occur. -/
theorem C07_accepted (fl : Flags) (cls : CharClass) (o : Orders) (stmts : List Stmt) (p : Program)
    (ho : OrdersOK o) (hwf : StmtsWF stmts)
    (h : Program.new fl cls o y86FixedFunctions stmts = .ok p) (mem : Mem) (hmem : mem.BytesOK) (n : Nat) :
    ∃ s0, State.init p mem = .ok s0 ∧
      ((∃ s', runN fl p n s0 = .ok s' ∧ s'.cycle = n) ∨ runN fl p n s0 = .error .divideByZero) := by
  obtain ⟨W, known, hp, vals, hv1, hv2, hv3, hv4⟩ := Program_new_sound fl cls o stmts p ho hwf h
  refine ⟨{ values := vals, regs := List.replicate 16 0, mem := mem }, ?_, ?_⟩
  · simp [State.init, hv1, bind, Except.bind, pure, Except.pure]
  · have hs : StateOK W.toCtx { values := vals, regs := List.replicate 16 0, mem := mem } :=
      { vals := hv2, regsLen := by simp, regsBound := by intro r hr; simp at hr; rw [hr]; simp [U64]
        memBytes := hmem }
    rcases C07_soundness hp n _ hs hv3 hv4 with ⟨s', h1, _, h3⟩ | h1
    · exact Or.inl ⟨s', h1, by simpa using h3⟩
    · exact Or.inr h1

#print axioms C07_accepted
