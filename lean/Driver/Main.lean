import Hcl.Util.SExp
import Hcl.Graph.TopoSort
import Hcl.Model.GraphExec
import Driver.Decode
import Hcl.Spec.Machine
import Hcl.Spec.Accept
import Hcl.Model.Disasm
import Hcl.Spec.Y86
import Hcl.Model.Yo
import Hcl.Spec.YoFormat
import Hcl.Model.Dump
import Hcl.Model.Messages
import Hcl.Spec.DumpFormat
import Hcl.Model.Cli
import Hcl.Model.CliArgv
import Hcl.Model.CliBytes
import Hcl.Model.Lexer
import Hcl.Model.Parser
import Hcl.Model.ParserStmts
import Hcl.Model.ParserStmtsSp
import Hcl.Model.ProgramSp
import Hcl.Model.Io
import Hcl.Model.Errors
import Hcl.Spec.Locate
import Hcl.Generated

/-! Line-protocol driver: one request S-expression per input line, one answer line per request.
    Answer format: `M <model result> ;; S <spec result>`. -/

open SExp

def atoms (l : List SExp) : List String := l.filterMap SExp.atom?

def pairList (l : List SExp) : List (String × String) :=
  l.filterMap fun e => match e with
    | .list [.atom a, .atom b] => some (a, b)
    | _ => none

def keyed (l : List SExp) : List (String × List String) :=
  l.filterMap fun e => match e with
    | .list (.atom a :: rest) => some (a, atoms rest)
    | _ => none

def field (fields : List SExp) (name : String) : List SExp :=
  match fields.find? (fun f => match f with | .list (.atom t :: _) => t == name | _ => false) with
  | some (.list (_ :: rest)) => rest
  | _ => []

def showResult : SortResult → String
  | .ok order => "ok " ++ " ".intercalate order
  | .cycle c => "cycle " ++ " ".intercalate c
  | .panic => "panic"

def handleGraph (fields : List SExp) : String :=
  let r : GraphExec.Request :=
    { nodes := atoms (field fields "nodes"), edges := pairList (field fields "edges"),
      kNodes := atoms (field fields "knodes"), kOut := keyed (field fields "kout"),
      dNodes := atoms (field fields "dnodes"), dOut := keyed (field fields "dout") }
  let res := topologicalSort r.kgraph r.dgraph
  let cyc := GraphExec.isCyclic r.nodes r.edges
  let implOk := match field fields "impl" with
    | .atom "ok" :: rest => !cyc && GraphExec.validOrder r.nodes r.edges (atoms rest)
    | .atom "cycle" :: rest => cyc && GraphExec.validCycle r.edges (atoms rest)
    | _ => false
  s!"M {showResult res} ;; S {if cyc then "cyclic" else "acyclic"} {if implOk then "impl-valid" else "impl-invalid"}"

def natField (fields : List SExp) (name : String) (d : Nat) : Nat :=
  match field fields name with
  | [.atom n] => n.toNat?.getD d
  | _ => d

def memOf (fields : List SExp) : Mem :=
  (pairList (field fields "mem")).foldl (fun m p => match p.1.toNat?, p.2.toNat? with
    | some a, some b => Mem.insert m a b
    | _, _ => m) []

/-- run `n` steps, collecting the state after each -/
def stepN (fl : Flags) (p : Program) : Nat → State → List String → List String × String
  | 0, _, acc => (acc.reverse, "ok")
  | n+1, s, acc =>
    match stepCycle fl p s with
    | .ok s' => stepN fl p n s' (showState s' :: acc)
    | .error e => (acc.reverse, showErr e)

/-- the specification's view of the state after a cycle, printed like `showState` -/
def showSpecState (d : Spec.Design) (σ : Spec.Val) (m : Spec.MState) : String :=
  let ctl : List (String × Nat) := d.banks.flatMap fun b =>
    [b.stall, b.bubble].filterMap fun n => if σ.any (fun p => p.1 == n) then none else some (n, 0)
  let all : Spec.Val := (σ ++ ctl).map fun p => match m.bankVals.lookup p.1 with
    | some v => (p.1, v)
    | none => p
  let vals := (sortByName all).map fun p => s!"{p.1}={p.2}/{showWidth ((d.Γ p.1).getD .unlimited)}"
  "{" ++ ",".intercalate vals ++ "|" ++ ",".intercalate (m.regs.map (fun (n : Nat) => s!"{n}")) ++ "|" ++
    ",".intercalate (m.used.map fun a => s!"{a}:{m.mem a}") ++ "|" ++
    (match m.status with | some n => s!"{n}" | none => "-") ++ "}"

def specStepN (d : Spec.Design) : Nat → Spec.MState → List String → List String × String
  | 0, _, acc => (acc.reverse, "ok")
  | n+1, m, acc =>
    match Spec.cycle d m with
    | some (σ, m') => specStepN d n m' (showSpecState d σ m' :: acc)
    | none => (acc.reverse, "DivideByZero")

/-- validity of a schedule produced by the real code: `(kind (write?) (reads...))` in execution order.
    Every read wire is known (constant / register-bank output) or written by an earlier action, no
    wire is written twice or is a known one, the state-changing actions come after all others, and the
    E write port comes before the M write port. -/
def schedValid (known : List String) (acts : List (String × List String × List String)) : Bool :=
  let rec go (avail : List String) (written : List String) (seenFinal : Bool) (seenM : Bool) :
      List (String × List String × List String) → Bool
    | [] => true
    | (kind, ws, rs) :: rest =>
      let isFinal := kind == "writereg" || kind == "writemem" || kind == "setstatus"
      let readsOk := rs.all avail.contains
      let writesOk := ws.all (fun w => !written.contains w && !known.contains w)
      let orderOk := isFinal || !seenFinal
      let isM := kind == "writereg" && rs.contains "reg_dstM"
      let isE := kind == "writereg" && rs.contains "reg_dstE"
      let emOk := !(isE && seenM)
      readsOk && writesOk && orderOk && emOk && go (avail ++ ws) (written ++ ws) (seenFinal || isFinal) (seenM || isM) rest
  go known [] false false acts

def decodeIActions (l : List SExp) : List (String × List String × List String) :=
  l.filterMap fun e => match e with
    | .list [.atom k, .list ws, .list rs] => some (k, atoms ws, atoms rs)
    | _ => none

/-- the loops the real code reported: the names of the `WireLoop` error and the `'x' depends on 'y'` links it printed -/
def decodeLoops (fields : List SExp) : List (List String × List (String × String)) :=
  fields.filterMap fun f => match f with
    | .list (.atom "loop" :: rest) =>
      let cyc := rest.findSome? fun e => match e with
        | .list (.atom "cycle" :: ns) => some (atoms ns)
        | _ => none
      let links := rest.findSome? fun e => match e with
        | .list (.atom "links" :: ls) => some (ls.filterMap fun l => match l with
            | .list [.atom a, .atom b] => some (a, b)
            | _ => none)
        | _ => none
      some (cyc.getD [], links.getD [])
    | _ => none

/-- a reported loop is real when its names form a cycle of the statements' dependency relation (`Spec.loopReal`, written
    over the statement list independently of the model; `C10_reported_loop_real` is the model-side theorem) and the
    printed links are exactly its steps -/
def loopsVerdict (stmts : List Stmt) (fields : List SExp) : String :=
  let loops := decodeLoops fields
  if loops.isEmpty then "" else
  if loops.all (fun (c, links) => Spec.loopReal stmts c && links == (c.rotateLeft 1).zip c) then " loops-real" else " loops-BOGUS"

def unescapeText (s : String) : String :=
  String.ofList (s.toList.map fun c => if c == '␣' then ' ' else if c == '⦅' then '(' else if c == '⦆' then ')' else if c == '⏎' then '\n' else c)

/-! ### The statement-grammar model against the real parser's AST -/

/-- Classification `(whitespace, alphabetic, alphanumeric)` of the non-ASCII characters the harness's generators use, for
    requests whose `cls` field carries only lower/upper case (the `prog`/`run` requests): Unicode `White_Space` exactly,
    the letters of Latin-1 .. Latin Extended-B, Greek, Cyrillic, kana and CJK ideographs, the Roman numerals (letters as
    well as numbers), and the Latin-1 and Arabic-Indic digits and fractions.  `none`: not classified here. -/
def fallbackCls (c : Char) : Option (Bool × Bool × Bool) :=
  let n := c.toNat
  if n == 0x85 || n == 0xA0 || n == 0x1680 || (0x2000 ≤ n && n ≤ 0x200A) || n == 0x2028 || n == 0x2029 || n == 0x202F ||
     n == 0x205F || n == 0x3000 then some (true, false, false)
  else if n == 0xAA || n == 0xB5 || n == 0xBA || (0xC0 ≤ n && n ≤ 0x24F && n != 0xD7 && n != 0xF7) ||
     (0x391 ≤ n && n ≤ 0x3A1) || (0x3A3 ≤ n && n ≤ 0x3C9) || (0x410 ≤ n && n ≤ 0x44F) ||
     (0x3041 ≤ n && n ≤ 0x3096) || (0x30A1 ≤ n && n ≤ 0x30FA) || (0x4E00 ≤ n && n ≤ 0x9FFF) ||
     (0x2160 ≤ n && n ≤ 0x2188) then some (false, true, true)
  else if n == 0xB2 || n == 0xB3 || n == 0xB9 || (0xBC ≤ n && n ≤ 0xBE) || (0x660 ≤ n && n ≤ 0x669) then some (false, false, true)
  else if (0x80 ≤ n && n < 0xC0) || n == 0xD7 || n == 0xF7 || (0x300 ≤ n && n ≤ 0x36F) || (0x2010 ≤ n && n ≤ 0x2027) ||
     (0x2030 ≤ n && n ≤ 0x205E) || (0x20A0 ≤ n && n ≤ 0x20C0) || n == 0xFFFD || (0x1F300 ≤ n && n ≤ 0x1FAFF) then some (false, false, false)
  else none

/-- the lexer's character classes from a `cls` field of either shape: `(CODEPOINT whitespace alphabetic alphanumeric)`
    (exact) or `(CODEPOINT lower upper)` (a cased character is a letter; otherwise `fallbackCls`) -/
def stmtsLexCls (l : List SExp) : Lexer.CharCls :=
  let exact : List (Nat × Bool × Bool × Bool) := l.filterMap fun e => match e with
    | .list [.atom c, .atom a, .atom b, .atom d] => c.toNat?.map fun n => (n, a == "1", b == "1", d == "1")
    | .list [.atom c, .atom lo, .atom up] => if lo == "1" || up == "1" then c.toNat?.map fun n => (n, false, true, true) else none
    | _ => none
  let look (c : Char) : Bool × Bool × Bool :=
    match exact.find? (fun t => t.1 == c.toNat) with
    | some t => t.2
    | none => (fallbackCls c).getD (false, false, false)
  { isWhitespace := fun c => if c.toNat < 128 then Lexer.asciiCls.isWhitespace c else (look c).1,
    isAlphabetic := fun c => if c.toNat < 128 then Lexer.asciiCls.isAlphabetic c else (look c).2.1,
    isAlphanumeric := fun c => if c.toNat < 128 then Lexer.asciiCls.isAlphanumeric c else (look c).2.2 }

/-- is every non-ASCII character of the text classified (by the request or by `fallbackCls`)? -/
def stmtsClsKnown (l : List SExp) (text : List Char) : Bool :=
  let listed : List Nat := l.filterMap fun e => match e with
    | .list [.atom c, _, _, _] => c.toNat?
    | .list [.atom c, .atom lo, .atom up] => if lo == "1" || up == "1" then c.toNat? else none
    | _ => none
  text.all fun c => c.toNat < 128 || listed.contains c.toNat || (fallbackCls c).isSome

def hasField (fields : List SExp) (name : String) : Bool :=
  fields.any fun f => match f with | .list (.atom t :: _) => t == name | _ => false

/-- the preamble the real code puts in front of the user's text (ASCII); a request with `(nopreamble 1)` is about a text
    that was parsed on its own -/
def preambleChars (fields : List SExp) : List Char :=
  if hasField fields "nopreamble" then [] else Generated.preambleBytes.map Char.ofNat

/-! #### the statement-level spans (`Hcl/Model/ParserStmtsSp.lean`) against the spans of the real AST (`sspans`) -/

/-- an offset of preamble + text relative to the start of the user's text, as the harness prints it (negative inside
    the preamble) -/
def relOff (prelen x : Nat) : String := toString (Int.ofNat x - Int.ofNat prelen)

def showSpanRel (prelen : Nat) (sp : Parser.Span) : String := relOff prelen sp.1 ++ " " ++ relOff prelen sp.2

/-- the statement-level spans of a spanned statement list in the format of the harness's `(sspans ..)` field
    (`sspans_field` in harness/src/progrun.rs) -/
def showSSpans (prelen : Nat) (ss : List Parser.SStmt) : String :=
  let sp := showSpanRel prelen
  let one : Parser.SStmt → String
    | .wires ds => "(wire" ++ String.join (ds.map fun d => s!" ({sp d.span})") ++ ")"
    | .consts ds => "(const" ++ String.join (ds.map fun d => s!" ({sp d.nameSpan} {sp d.value.span})") ++ ")"
    | .assigns as => "(assign" ++ String.join (as.map fun a =>
        s!" ({sp a.span} ({" ".intercalate (a.names.map fun n => s!"({sp n.2})")}) {sp a.value.span})") ++ ")"
    | .bank b => s!"(bank {sp b.span} {sp b.nameSpan}" ++
        String.join (b.registers.map fun r => s!" ({sp r.span} {sp r.default.span})") ++ ")"
  "(sspans" ++ String.join (ss.map fun st => " " ++ one st) ++ ")"

/-- ` stmts-spans-agree` when the spans `parseProgramSp` computes for preamble + text are exactly the spans of the real
    AST, ` stmts-spans-DIFFER` otherwise (also when the model does not parse the text); nothing for a request without
    the field `sspans` -/
def stmtsSpansVerdict (fields : List SExp) (cls : Lexer.CharCls) (pre user : List Char) : String :=
  if !hasField fields "sspans" then "" else
  let theirs := SExp.toString (.list (.atom "sspans" :: field fields "sspans"))
  match Parser.parseProgramSp cls (pre ++ user) with
  | none => " stmts-spans-DIFFER"
  | some ss => if showSSpans (Lexer.sizeOf' pre) ss == theirs then " stmts-spans-agree" else " stmts-spans-DIFFER"

/-- the statement-grammar model on preamble + the request's `text` against the real parser's AST (`stmts`): the token
    appended to the verdict part of the answer, or nothing when the request has no `text` -/
def stmtsModelVerdict (fields : List SExp) (stmts : List Stmt) : String :=
  if !hasField fields "text" then "" else
  let user : List Char := match field fields "text" with
    | [.atom t] => (unescapeText t).toList
    | _ => []
  if !stmtsClsKnown (field fields "cls") user then " stmts-model-unclassified-char" else
  let spans := stmtsSpansVerdict fields (stmtsLexCls (field fields "cls")) (preambleChars fields) user
  match Parser.parseProgram (stmtsLexCls (field fields "cls")) (preambleChars fields ++ user) with
  | none => " stmts-model-NONE" ++ spans
  | some mine => (if mine == stmts then " stmts-model-agree" else " stmts-model-DIFFER") ++ spans

/-- a text the real parser rejected with errors (`(anytext .. (outcome ..) (lex (cls ..) (text CODEPOINTS)))`): the
    model must not parse preamble + text -/
def stmtsModelRejects (fields lexFields : List SExp) : String :=
  let user : List Char := (field lexFields "text").filterMap fun e => e.nat?.map Char.ofNat
  if !stmtsClsKnown (field lexFields "cls") user then "stmts-model-unclassified-char" else
  match Parser.parseProgram (stmtsLexCls (field lexFields "cls")) (preambleChars fields ++ user) with
  | none => "stmts-model-rejects"
  | some _ => "stmts-model-ACCEPTS-REJECTED"

def handleProg (fields : List SExp) : String :=
  let fl := decodeFlags (field fields "flags")
  let cls := decodeCls (field fields "cls")
  match field fields "stmts" with
  | [st] =>
    match decodeStmts st with
    | none => "bad-request undecodable-stmts"
    | some stmts =>
      let model : String :=
        match Program.new fl cls {} y86FixedFunctions stmts with
        | .error ds => "rej " ++ showDiags ds
        | .ok p =>
          match State.init p (memOf fields) with
          | .error e => "ok init-error " ++ showErr e
          | .ok s0 =>
            let (states, fin) := stepN fl p (natField fields "cycles" 1) s0 []
            "ok" ++ String.join (states.map (" " ++ ·)) ++ " end=" ++ fin
      let sched : String := match Program.new fl cls {} y86FixedFunctions stmts with
        | .ok p =>
          let known := p.constants.keys ++ p.banks.flatMap (fun b => b.signals.map (·.2.1))
          let all := fields.filterMap fun f => match f with
            | .list (.atom "iactions" :: rest) => some (decodeIActions rest)
            | _ => none
          if all.isEmpty then "-" else if all.all (schedValid known) then "sched-ok" else "sched-INVALID"
        | .error _ => "-"
      let fs := Spec.faults fl cls.isLower cls.isUpper stmts
      if !fs.isEmpty then
        let names := sortStrings (fs.map fun f => (((repr f.cls).pretty.splitOn ".").getLast!) ++ ":" ++ f.name)
        s!"M {model} ;; S rej {" ".intercalate names} ;; V {sched}{loopsVerdict stmts fields}{stmtsModelVerdict fields stmts}"
      else
      let d := Spec.design stmts
      let image : List (Nat × Nat) := (pairList (field fields "mem")).filterMap fun p =>
        match p.1.toNat?, p.2.toNat? with | some a, some b => some (a, b) | _, _ => none
      let (sstates, sfin) := specStepN d (natField fields "cycles" 1) (Spec.initialState d image) []
      let spec := "ok" ++ String.join (sstates.map (" " ++ ·)) ++ " end=" ++ sfin
      s!"M {model} ;; S {spec} ;; V {sched}{stmtsModelVerdict fields stmts}"
  | _ => "bad-request no-stmts"

def showBanner : Banner → String
  | .halted => "halted"
  | .timedOut n => s!"timedout:{n}"
  | .error => "error"
  | .between _ => "between"

def optNat : Option Nat → String
  | some n => s!"{n}"
  | none => "-"

/-- the specification of a run: cycle until the status is neither AOK (1) nor BUB (0) or the budget is used up -/
def specRun (d : Spec.Design) (timeout : Nat) : Nat → Nat → Spec.MState → Option (Nat × Spec.MState)
  | 0, n, m => some (n, m)
  | fuel+1, n, m =>
    let st := (m.status.getD 1)
    if (st != 1 && st != 0) || n ≥ timeout then some (n, m)
    else match Spec.cycle d m with
      | some (_, m') => specRun d timeout fuel (n + 1) m'
      | none => none

def handleRun (fields : List SExp) : String :=
  let fl := decodeFlags (field fields "flags")
  let cls := decodeCls (field fields "cls")
  let timeout := natField fields "timeout" 0
  match field fields "stmts" with
  | [st] =>
    match decodeStmts st with
    | none => "bad-request undecodable-stmts"
    | some stmts =>
      let model : String :=
        match Program.new fl cls {} y86FixedFunctions stmts with
        | .error ds => "rej " ++ showDiags ds
        | .ok p =>
          match State.init p (memOf fields) with
          | .error e => "run init-error " ++ showErr e
          | .ok s0 =>
            match runLoop fl p timeout (timeout + 2) s0 with
            | none => "run FUEL-EXHAUSTED"
            | some (.error e) => "run error=" ++ showErr e
            | some (.ok t) =>
              let (c, e) := reportLines t timeout
              s!"run cycles={t.cycle} banner={showBanner (banner t timeout)} cyclesrun={optNat c} errorcode={optNat e}"
      let fs := Spec.faults fl cls.isLower cls.isUpper stmts
      let spec : String :=
        if !fs.isEmpty then "rej" else
        let d := Spec.design stmts
        let image : List (Nat × Nat) := (pairList (field fields "mem")).filterMap fun p =>
          match p.1.toNat?, p.2.toNat? with | some a, some b => some (a, b) | _, _ => none
        match specRun d timeout (timeout + 2) 0 (Spec.initialState d image) with
        | none => "run error=DivideByZero"
        | some (n, m) =>
          let st := m.status.getD 1
          -- the report: halted when the last Stat is HLT, otherwise timed out when the budget is used up, otherwise error + code
          if st == 2 then s!"run cycles={n} banner=halted cyclesrun={if n ≥ timeout then "-" else s!"{n}"} errorcode=-"
          else if n ≥ timeout then s!"run cycles={n} banner=timedout:{n} cyclesrun=- errorcode=-"
          else s!"run cycles={n} banner=error cyclesrun={n} errorcode={st}"
      let sv := stmtsModelVerdict fields stmts
      s!"M {model} ;; S {spec}{if sv.isEmpty then "" else " ;; V" ++ sv}"
  | _ => "bad-request no-stmts"

def handleDisasm (args : List SExp) : String :=
  match args with
  | [.atom v] =>
    match v.toNat? with
    | none => "bad-request"
    | some value =>
      let (n, text) := disassemble value
      let bytes := (List.range 10).map fun i => (value / 256 ^ i) % 256
      let spec : String := match Spec.decode bytes with
        | some i => s!"{(Spec.encode i).length}|{Spec.pretty i}"
        | none => if (bytes.getD 0 0) / 16 > 11 then "1|<invalid>" else "unspecified"
      s!"M {n}|{text} ;; S {spec}"
  | _ => "bad-request"

def handleTrace (args : List SExp) : String :=
  match args with
  | [.atom pcs, .list (.atom "mem" :: bytes)] =>
    let pc := pcs.toNat?.getD 0
    let image : List (Nat × Nat) := (pairList bytes).filterMap fun p =>
      match p.1.toNat?, p.2.toNat? with | some a, some b => some (a, b) | _, _ => none
    let mem : Nat → Nat := fun a => (image.lookup a).getD 0
    let value := Spec.rdLE mem pc 10
    let model := traceLine pc value
    -- specification: pc, then the bytes of the instruction in memory order, then its CS:APP text
    let bytes := (List.range 10).map fun i => mem ((pc + i) % 2 ^ 64)
    let spec : String := match Spec.decode bytes with
      | some i =>
        let n := (Spec.encode i).length
        "pc = 0x" ++ toHex pc ++ "; loaded [" ++ String.join ((bytes.take n).map fun b => toHexPad 2 b ++ " ") ++ ": " ++ Spec.pretty i ++ "]"
      | none => if (bytes.getD 0 0) / 16 > 11 then
          "pc = 0x" ++ toHex pc ++ "; loaded [" ++ toHexPad 2 (bytes.getD 0 0) ++ " : <invalid>]"
        else "unspecified"
    s!"M {model} ;; S {spec}"
  | _ => "bad-request"

def handleYo (args : List SExp) : String :=
  let file : List Nat := args.filterMap SExp.nat?
  let lines := Yo.splitLines file
  let model : String := match Yo.load lines with
    | .ok m => "ok " ++ showMem m
    | .unparseable _ => "err UnparseableLine"
    | .emptyFile => "err EmptyFile"
    | .ioError => "err IoError"
    | .panic => "PANIC"
  let spec : String :=
    if lines.isEmpty then "err" else
    if !lines.all Yo.validUtf8 then "unspecified" else
    match Spec.image lines (fun _ => 0) [] with
    | none => "err"
    | some (mem, used) =>
      let sorted := used.foldl (fun u a => Spec.insertSorted a u) []
      "ok " ++ ",".intercalate (sorted.map fun a => s!"{a}:{mem a}")
  s!"M {model} ;; S {spec}"

def escapeNl (s : String) : String := s.replace "\n" "\\n"

def regNames : List String := ["RAX", "RCX", "RDX", "RBX", "RSP", "RBP", "RSI", "RDI", "R8", "R9", "R10", "R11", "R12", "R13", "R14"]

def canonBanks (bs : List (String × Char × List (String × Nat))) : String :=
  "|".intercalate ((sortByName (bs.map fun b => (b.1, b.2))).map fun b =>
    b.1 ++ "(" ++ String.ofList [b.2.1] ++ "){" ++ ",".intercalate (b.2.2.map fun r => s!"{r.1}={r.2}") ++ "}")

def handleDump (fields : List SExp) : String :=
  let fl := decodeFlags (field fields "flags")
  let cls := decodeCls (field fields "cls")
  match field fields "stmts" with
  | [st] =>
    match decodeStmts st with
    | none => "bad-request undecodable-stmts"
    | some stmts =>
      match Program.new fl cls {} y86FixedFunctions stmts with
      | .error ds => "M rej " ++ showDiags ds ++ " ;; S -"
      | .ok p =>
        match State.init p (memOf fields) with
        | .error e => "M init-error " ++ showErr e ++ " ;; S -"
        | .ok s0 =>
          let regs := (field fields "regs").filterMap SExp.nat?
          let vals : AMap WireValue := (field fields "vals").foldl (fun (m : AMap WireValue) e => match e with
            | .list [.atom n, .atom b, w] => (match b.toNat?, widthOf? w with
                | some bits, some wd => m.insert n ⟨bits, wd⟩
                | _, _ => m)
            | _ => m) s0.values
          let s : State := { s0 with regs := regs, values := vals, cycle := natField fields "cycle" 0 }
          let timeout := natField fields "timeout" 0
          let showBanks := natField fields "showbanks" 1 == 1
          let model := Dump.state s p.banks timeout showBanks
          -- the state in canonical form
          let shown : List RegisterBank := if showBanks then p.banks else []
          let stateBanks := shown.map fun b =>
            (b.label, (if Dump.bitsOf vals b.bubble > 0 then 'B' else if Dump.bitsOf vals b.stall > 0 then 'S' else 'N'),
             b.signals.map fun sg => (Dump.regNameOf sg.1, Dump.bitsOf vals sg.2.1))
          let canonState := "regs=" ++ ",".intercalate ((regNames.zip regs).map fun r => s!"{r.1}:{r.2}") ++ ";banks=" ++
            canonBanks stateBanks ++ ";mem=" ++ showMem s.mem ++ ";framed=true"
          let parsedOf (text : String) : String :=
            let pr := Spec.DumpFormat.parse text
            "regs=" ++ ",".intercalate (pr.regs.map fun r => s!"{r.1}:{r.2}") ++ ";banks=" ++ canonBanks pr.banks ++
              ";mem=" ++ ",".intercalate (pr.bytes.map fun b => s!"{b.1}:{b.2}") ++ s!";framed={pr.framed}"
          let implText := match field fields "impltext" with
            | [.atom t] => unescapeText t
            | _ => ""
          s!"M {escapeNl model} ;; S {parsedOf implText} ;; V {canonState}"
  | _ => "bad-request no-stmts"

/-- the `-d` tables of `n` cycles (each printed after the actions of the cycle, before the clock edge) -/
def tablesN (fl : Flags) (p : Program) (grouped : Bool) : Nat → State → List String → List String × String
  | 0, _, acc => (acc.reverse, "ok")
  | n+1, s, acc =>
    match execActions fl p.actions s with
    | .error e => (acc.reverse, showErr e)
    | .ok s1 =>
      match processBanks p.banks s1.values with
      | .error e => (acc.reverse, showErr e)
      | .ok vals => tablesN fl p grouped n { s1 with values := vals, cycle := s1.cycle + 1 } (Dump.wireTable p s1.values grouped :: acc)

def handleTable (fields : List SExp) : String :=
  let fl := decodeFlags (field fields "flags")
  let cls := decodeCls (field fields "cls")
  match field fields "stmts" with
  | [st] =>
    match decodeStmts st with
    | none => "bad-request undecodable-stmts"
    | some stmts =>
      match Program.new fl cls {} y86FixedFunctions stmts with
      | .error ds => "M rej " ++ showDiags ds ++ " ;; S -"
      | .ok p =>
        match State.init p (memOf fields) with
        | .error e => "M init-error " ++ showErr e ++ " ;; S -"
        | .ok s0 =>
          let (tabs, fin) := tablesN fl p (natField fields "grouped" 1 == 1) (natField fields "cycles" 1) s0 []
          "M " ++ escapeNl (String.join (tabs.map (· ++ "=====\n"))) ++ "end=" ++ fin ++ " ;; S -"
  | _ => "bad-request no-stmts"

def handleMessages (fields : List SExp) : String :=
  let fl := decodeFlags (field fields "flags")
  let cls := decodeCls (field fields "cls")
  match field fields "stmts" with
  | [st] =>
    match decodeStmts st with
    | none => "bad-request undecodable-stmts"
    | some stmts =>
      match Program.new fl cls {} y86FixedFunctions stmts with
      | .error ds => "M rej " ++ showDiags ds ++ " ;; S -"
      | .ok p =>
        match State.init p (memOf fields) with
        | .error e => "M init-error " ++ showErr e ++ " ;; S -"
        | .ok s0 =>
          let (text, err) := Dump.messagesN fl (natField fields "assigns" 0 == 1) p (natField fields "cycles" 1) s0 ""
          let fin := match err with | none => "ok" | some e => showErr e
          "M " ++ escapeNl text ++ "end=" ++ fin ++ " ;; S -"
  | _ => "bad-request no-stmts"

def strField (fields : List SExp) (name : String) : String :=
  match field fields name with
  | [.atom a] => a
  | _ => ""

/-- the specification of the exit status (C19): 0 exactly when what was asked was done -/
def specExit (a : Cli.CliInput) : Nat :=
  if a.optionError then 1
  else if a.help then 0
  else if a.version then 0
  else if a.check then (if decide (1 ≤ a.nfree ∧ a.nfree ≤ 3) && a.hcl == .accepted then 0 else 1)
  else if decide (2 ≤ a.nfree ∧ a.nfree ≤ 3) && a.hcl == .accepted && a.yoHasSuffix &&
      (decide (a.nfree ≠ 3) || a.timeoutValid) && a.yo == .loaded && a.run == .finished then 0 else 1

def handleCli (fields : List SExp) : String :=
  let b (n : String) : Bool := strField fields n == "1"
  let traw := if strField fields "traw" == "␀" then "" else unescapeText (strField fields "traw")
  let a : Cli.CliInput :=
    { optionError := b "opterr", help := b "help", version := b "version", check := b "check",
      nfree := natField fields "nfree" 0,
      hcl := (match strField fields "hcl" with | "accepted" => .accepted | "rejected" => .rejected | _ => .unreadable),
      yoHasSuffix := b "suffix",
      yo := (match strField fields "yo" with | "loaded" => .loaded | "unloadable" => .unloadable | _ => .unopenable),
      timeoutValid := (Cli.parseU32 traw.toList).isSome,
      run := (if strField fields "run" == "aborted" then .aborted else .finished) }
  let (e, o) := Cli.mainReal a
  let extra := if o == .finalState then s!" cycles={strField fields "cycles"} banner={strField fields "banner"}" else ""
  s!"M exit={e} out={((repr o).pretty.splitOn ".").getLast!}{extra} ;; S exit={specExit a}"

def lexCls (l : List SExp) : Lexer.CharCls :=
  let tbl : List (Nat × Bool × Bool × Bool) := l.filterMap fun e => match e with
    | .list [.atom c, .atom a, .atom b, .atom d] => c.toNat?.map fun n => (n, a == "1", b == "1", d == "1")
    | _ => none
  let look (c : Char) : Option (Bool × Bool × Bool) := (tbl.find? (fun t => t.1 == c.toNat)).map (·.2)
  { isWhitespace := fun c => if c.toNat < 128 then Lexer.asciiCls.isWhitespace c else (match look c with | some t => t.1 | none => false),
    isAlphabetic := fun c => if c.toNat < 128 then Lexer.asciiCls.isAlphabetic c else (match look c with | some t => t.2.1 | none => false),
    isAlphanumeric := fun c => if c.toNat < 128 then Lexer.asciiCls.isAlphanumeric c else (match look c with | some t => t.2.2 | none => false) }

def showTok : Lexer.Tok → String
  | .Constant v => s!"CONST:{v.bits}:{showWidth v.width}"
  | .Identifier n => "ID:" ++ n
  | t => ((repr t).pretty.splitOn ".").getLast!

def showLexItem : Lexer.Item → String
  | .tok s t e => s!"{s}:{showTok t}:{e}"
  | .err (.lexical l) => s!"ERR:LexicalError:{l}"
  | .err (.invalidConstant a b) => s!"ERR:InvalidConstant:{a}:{b}"
  | .err (.unterminatedComment l) => s!"ERR:UnterminatedComment:{l}"
  | .err .outOfFuel => "MODEL-OUT-OF-FUEL"

def binOpName : BinOp → String
  | .add => "add" | .sub => "sub" | .mul => "mul" | .div => "div" | .or => "or" | .xor => "xor" | .and => "and"
  | .eq => "eq" | .ne => "ne" | .le => "le" | .ge => "ge" | .lt => "lt" | .gt => "gt" | .land => "land" | .lor => "lor"
  | .shl => "shl" | .shr => "shr"

def unOpName : UnOp → String
  | .plus => "plus" | .neg => "neg" | .compl => "compl" | .not => "not"

mutual
partial def showPEx : Parser.PEx → String
  | .const s e v => s!"(c {s} {e} {v.bits} {showWidth v.width})"
  | .bin s e op l r => s!"(b {s} {e} {binOpName op} {showPEx l} {showPEx r})"
  | .un s e op x => s!"(u {s} {e} {unOpName op} {showPEx x})"
  | .mux s e opts => s!"(m {s} {e}{showPOpts opts})"
  | .wire s e n => s!"(w {s} {e} {n})"
  | .slice s e x lo hi => s!"(s {s} {e} {showPEx x} {lo} {hi})"
  | .concat s e l r => s!"(k {s} {e} {showPEx l} {showPEx r})"
  | .inSet s e x items => s!"(i {s} {e} {showPEx x}{showPExs items})"
partial def showPOpts : Parser.POpts → String
  | .nil => ""
  | .cons c v rest => s!" ({showPEx c} {showPEx v})" ++ showPOpts rest
partial def showPExs : Parser.PExs → String
  | .nil => ""
  | .cons x rest => " " ++ showPEx x ++ showPExs rest
end

def handleParse (fields : List SExp) : String :=
  let cls := lexCls (field fields "cls")
  let text : List Char := (field fields "text").filterMap fun e => e.nat?.map Char.ofNat
  match Parser.parseExpr cls text with
  | some x => "M " ++ showPEx x ++ " ;; S -"
  | none => "M no-parse ;; S -"

def hexOfBytes (b : Bytes) : String :=
  String.join (b.map fun x => toHexPad 2 x)

def handleRegion (fields : List SExp) : String :=
  let nats (k : String) : List Nat := (field fields k).filterMap (·.nat?)
  let pre := nats "pre"
  let user := nats "user"
  let name := nats "name"
  let start := (nats "start").headD 0
  let end_ := (nats "end").headD 0
  let fc := Io.newFromData pre user name
  let total := pre.length + user.length
  let clamp (x : Nat) := min x total
  let model := match Io.showRegion fc start end_, Io.lineNumberAndBounds fc (clamp start), Io.range fc (clamp start) (clamp end_) with
    | .ok shown, .ok (a, b, c), .ok r => s!"ok {hexOfBytes shown} lnb={a}:{b}:{c} range={hexOfBytes r}"
    | _, _, _ => "PANIC"
  -- the specification speaks about spans inside the user's text
  let spec := if pre.length ≤ start ∧ start ≤ end_ ∧ end_ ≤ total ∧ (pre = [] ∨ pre.getLast? = some 10) then
      match Spec.region name user (start - pre.length) (end_ - pre.length) with
      | some r => hexOfBytes r
      | none => "unspecified"
    else "unspecified"
  "M " ++ model ++ " ;; S " ++ spec

def handleDiag (fields : List SExp) : String :=
  let nats (k : String) : List Nat := (field fields k).filterMap (·.nat?)
  let pre : Bytes := Generated.preambleBytes
  let user := nats "user"
  let name := nats "name"
  let spans : List (Nat × Nat) := (field fields "spans").filterMap fun e =>
    match e with
    | .list [a, b] => match a.nat?, b.nat? with
      | some x, some y => some (x, y)
      | _, _ => none
    | _ => none
  let shown : List String := (field fields "shown").filterMap (·.atom?)
  let planted := nats "planted"
  let fc := Io.newFromData pre user name
  if (nats "prelen").headD 0 ≠ pre.length then "M preamble-length-differs ;; S -" else
  -- the regions the model renders for the spans the error carries
  let rendered : List String := spans.filterMap fun (a, b) =>
    match Io.showRegion fc a b with
    | .ok r => some (hexOfBytes r)
    | .error _ => none
  let reproduced := (shown.filter fun r => rendered.contains r).length
  let model := if shown.isEmpty && spans.isEmpty then "-" else s!"err errors=1 shown={reproduced}"
  -- specification: the planted span is shown as the specification renders it, and nothing is attributed to the preamble
  let builtinHex := hexOfBytes (Yo.str "-> <builtin>")
  let mentionsBuiltin := shown.any fun r => (r.splitOn builtinHex).length > 1
  let expected := match planted with
    | [s, e] => (Spec.region name user (s - 0) (e - 0)).map hexOfBytes
    | _ => none
  -- a second place that has to be shown (the other declaration of a name declared twice)
  let second : Bool := match nats "planted2" with
    | [s, e] => (match (Spec.region name user s e).map hexOfBytes with
      | some r => shown.contains r
      | none => false)
    | _ => true
  let plantedShown := (match expected with
    | some r => shown.contains r
    | none => false) && second
  s!"M {model} ;; S planted={if plantedShown then 1 else 0} builtin={if mentionsBuiltin then 1 else 0}"

/-! ### Rendering of diagnostics (`Error::format_for_contents`) -/

def hexDigitVal? (c : Char) : Option Nat :=
  if '0' ≤ c && c ≤ '9' then some (c.toNat - 48)
  else if 'a' ≤ c && c ≤ 'f' then some (c.toNat - 87)
  else if 'A' ≤ c && c ≤ 'F' then some (c.toNat - 55)
  else none

def hexPairs? : List Char → Option Bytes
  | [] => some []
  | [_] => none
  | a :: b :: rest => do
    let x ← hexDigitVal? a
    let y ← hexDigitVal? b
    let r ← hexPairs? rest
    pure ((x * 16 + y) :: r)

/-- a string as the harness sends it: the letter `x`, then its UTF-8 bytes in hexadecimal -/
def hexAtom? : SExp → Option Bytes
  | .atom s => match s.toList with
    | 'x' :: rest => hexPairs? rest
    | _ => none
  | _ => none

/-- the argument vector of a `cli` request: `(argv x.. x.. …)`, one hex atom per argument (its UTF-8 bytes) -/
def argvOf? (fields : List SExp) : Option (List String) :=
  (field fields "argv").mapM fun a => do
    let bs ← hexAtom? a
    String.fromUTF8? (ByteArray.mk (bs.map UInt8.ofNat).toArray)

/-- `cli` requests that carry the argument vector: the model answer is `Cli.mainArgv` of the vector itself (the outside
    world is what the request says about the two files and the run); the fields the generator derived from the vector by
    its own means are compared with the ones the model derives (verdict after `;; V`). -/
def argvBytesOf? (fields : List SExp) : Option (List (List UInt8)) :=
  (field fields "argv").mapM fun a => (hexAtom? a).map (·.map UInt8.ofNat)

def handleCliArgv (fields : List SExp) : String :=
  if !hasField fields "argv" then handleCli fields else
  match argvOf? fields with
  | none =>
    -- an argument that is not UTF-8: the model of the byte-level entry (`Cli.mainArgvBytes`)
    (match argvBytesOf? fields with
     | none => "bad-request undecodable-argv"
     | some bargs =>
       let w : Cli.World := { hclOf := fun _ => .unreadable, yoOf := fun _ => .unopenable, runOf := fun _ _ _ => .finished }
       let r := Cli.mainArgvBytes w bargs
       let msg := match Cli.optionMessageBytes bargs with
         | some m => " msg=x" ++ hexOfBytes (m.toUTF8.data.toList.map UInt8.toNat)
         | none => ""
       let agree := strField fields "opterr" == "1"
       s!"M exit={r.status} out={((repr r.out).pretty.splitOn ".").getLast!}{msg} ;; S exit=1 ;; V {if agree then "argv-fields-agree" else "argv-fields-DIFFER"}")
  | some args =>
    let b (n : String) : Bool := strField fields n == "1"
    let w : Cli.World :=
      { hclOf := fun _ => (match strField fields "hcl" with | "accepted" => .accepted | "rejected" => .rejected | _ => .unreadable),
        yoOf := fun _ => (match strField fields "yo" with | "loaded" => .loaded | "unloadable" => .unloadable | _ => .unopenable),
        runOf := fun _ _ _ => (if strField fields "run" == "aborted" then .aborted else .finished) }
    let r := Cli.mainArgv w args
    let a := Cli.inputOf w args
    -- the specification side is computed from the fields the GENERATOR derived (not from the model's reading of argv)
    let sa : Cli.CliInput :=
      { optionError := b "opterr", help := b "help", version := b "version", check := b "check",
        nfree := natField fields "nfree" 0, hcl := w.hclOf "", yoHasSuffix := b "suffix", yo := w.yoOf "",
        timeoutValid := b "tvalid", run := w.runOf "" "" ⟨false, false, false, false, false, false, 0⟩ }
    let msg := match Cli.optionMessage args with
      | some m => " msg=x" ++ hexOfBytes (m.toUTF8.data.toList.map UInt8.toNat)
      | none => ""
    let extra := if r.out == .finalState then s!" cycles={strField fields "cycles"} banner={strField fields "banner"}" else ""
    let agree :=
      a.optionError == b "opterr" &&
      (a.optionError ||
        (a.help == b "help" && a.version == b "version" && a.check == b "check" && a.nfree == natField fields "nfree" 0 &&
         a.yoHasSuffix == b "suffix" && (a.nfree < 3 || a.timeoutValid == b "tvalid")))
    s!"M exit={r.status} out={((repr r.out).pretty.splitOn ".").getLast!}{msg}{extra} ;; S exit={specExit sa} ;; V {if agree then "argv-fields-agree" else "argv-fields-DIFFER"}"

def spanOf? : SExp → Option (Nat × Nat)
  | .list [a, b] => do
    let x ← a.nat?
    let y ← b.nat?
    pure (x, y)
  | _ => none

def optNameOf? : SExp → Option (Option Bytes)
  | .list [.atom "none"] => some none
  | .list [.atom "some", a] => (hexAtom? a).map some
  | _ => none

def namesOf? : SExp → Option (List Bytes)
  | .list l => l.mapM hexAtom?
  | _ => none

/-- the `Error` value as `verif_hooks::error_sexp` writes it -/
partial def decodeErr (e : SExp) : Option Errors.ErrV :=
  match e.tagged? with
  | some ("MultipleErrors", items) => (items.mapM decodeErr).map .multiple
  | some ("MismatchedMuxWidths", [.list (.atom "options" :: os), .list (.atom "widths" :: ws)]) => do
    let o ← os.mapM spanOf?
    let w ← ws.mapM widthOf?
    pure (.mismatchedMuxWidths o w)
  | some ("MismatchedExprWidths", [a, wa, b, wb]) => do
    pure (.mismatchedExprWidths (← spanOf? a) (← widthOf? wa) (← spanOf? b) (← widthOf? wb))
  | some ("MismatchedWireWidths", [n, wa, b, wb]) => do
    pure (.mismatchedWireWidths (← hexAtom? n) (← widthOf? wa) (← spanOf? b) (← widthOf? wb))
  | some ("MismatchedRegisterDefaultWidths", [bank, reg, rw, d, ew]) => do
    pure (.mismatchedRegisterDefaultWidths (← hexAtom? bank) (← hexAtom? reg) (← widthOf? rw) (← spanOf? d) (← widthOf? ew))
  | some ("DuplicateRegister", [bank, reg]) => do pure (.duplicateRegister (← hexAtom? bank) (← hexAtom? reg))
  | some ("RuntimeMismatchedWidths", []) => some .runtimeMismatchedWidths
  | some ("DivideByZero", []) => some .divideByZero
  | some ("UndeclaredWireAssigned", [n, s, c]) => do pure (.undeclaredWireAssigned (← hexAtom? n) (← spanOf? s) (← optNameOf? c))
  | some ("UndeclaredWireRead", [n, s, c]) => do pure (.undeclaredWireRead (← hexAtom? n) (← spanOf? s) (← optNameOf? c))
  | some ("NonConstantWireRead", [n, s]) => do pure (.nonConstantWireRead (← hexAtom? n) (← spanOf? s))
  | some ("UnsetWire", [n, s]) => do pure (.unsetWire (← hexAtom? n) (← spanOf? s))
  | some ("UnsetBuiltinWire", [n]) => do pure (.unsetBuiltinWire (← hexAtom? n))
  | some ("UnsetUndeclaredWire", [n]) => do pure (.unsetUndeclaredWire (← hexAtom? n))
  | some ("UnsetRegisterInputWire", [n, s]) => do pure (.unsetRegisterInputWire (← hexAtom? n) (← spanOf? s))
  | some ("RedeclaredWire", [n, a, b]) => do pure (.redeclaredWire (← hexAtom? n) (← spanOf? a) (← spanOf? b))
  | some ("DoubleAssignedWire", [n, a, b]) => do pure (.doubleAssignedWire (← hexAtom? n) (← spanOf? a) (← spanOf? b))
  | some ("DoubleAssignedRegisterWire", [n, a, b]) => do pure (.doubleAssignedRegisterWire (← hexAtom? n) (← spanOf? a) (← spanOf? b))
  | some ("DoubleDeclaredRegisterOutWire", [n, a, b]) => do pure (.doubleDeclaredRegisterOutWire (← hexAtom? n) (← spanOf? a) (← spanOf? b))
  | some ("DoubleAssignedFixedOutWire", [n, s, f]) => do pure (.doubleAssignedFixedOutWire (← hexAtom? n) (← spanOf? s) (← hexAtom? f))
  | some ("AssignedConstant", [n, a, b]) => do pure (.assignedConstant (← hexAtom? n) (← spanOf? a) (← spanOf? b))
  | some ("RedeclaredBuiltinWire", [n, s, f]) => do pure (.redeclaredBuiltinWire (← hexAtom? n) (← spanOf? s) (← hexAtom? f))
  | some ("PartialFixedInput", [n, f, m]) => do pure (.partialFixedInput (← hexAtom? n) (← namesOf? f) (← namesOf? m))
  | some ("WireLoop", [ns]) => do pure (.wireLoop (← namesOf? ns))
  | some ("InvalidWireWidth", [s]) => do pure (.invalidWireWidth (← spanOf? s))
  | some ("InvalidRegisterBankName", [n, s]) => do pure (.invalidRegisterBankName (← hexAtom? n) (← spanOf? s))
  | some ("InvalidBitIndex", [s, i]) => do pure (.invalidBitIndex (← spanOf? s) (← i.nat?))
  | some ("NonBooleanWidth", [s]) => do pure (.nonBooleanWidth (← spanOf? s))
  | some ("NoBitWidth", [s]) => do pure (.noBitWidth (← spanOf? s))
  | some ("MisorderedBitIndexes", [s]) => do pure (.misorderedBitIndexes (← spanOf? s))
  | some ("InvalidConstant", [s]) => do pure (.invalidConstant (← spanOf? s))
  | some ("WireTooWide", [s]) => do pure (.wireTooWide (← spanOf? s))
  | some ("ExpectedStatementFoundExpr", [s]) => do pure (.expectedStatementFoundExpr (← spanOf? s))
  | some ("UnterminatedComment", [l]) => do pure (.unterminatedComment (← l.nat?))
  | some ("LexicalError", [l]) => do pure (.lexicalError (← l.nat?))
  | some ("InternalParserErrorNear", [s, i]) => do pure (.internalParserErrorNear (← spanOf? s) (← hexAtom? i))
  | some ("MissingWireWidth", [s]) => do pure (.missingWireWidth (← spanOf? s))
  | some ("WireAssignedInDeclaration", [s]) => do pure (.wireAssignedInDeclaration (← spanOf? s))
  | some ("MissingRegisterWidth", [s]) => do pure (.missingRegisterWidth (← spanOf? s))
  | some ("AddedConstWidth", [s]) => do pure (.addedConstWidth (← spanOf? s))
  | some ("MissingAssignmentMux", [s]) => do pure (.missingAssignmentMux (← spanOf? s))
  | some ("RegisterDeclaredWithWire", [s]) => do pure (.registerDeclaredWithWire (← spanOf? s))
  | some ("NoMuxDefaultOption", [s]) => do pure (.noMuxDefaultOption (← spanOf? s))
  | some ("MultipleMuxDefaultOption", [s]) => do pure (.multipleMuxDefaultOption (← spanOf? s))
  | some ("UnreachableOptions", [s]) => do pure (.unreachableOptions (← spanOf? s))
  | some ("EmptyFile", []) => some .emptyFile
  | some ("UnparseableLine", [l]) => do pure (.unparseableLine (← hexAtom? l))
  | some ("InvalidToken", [l]) => do pure (.invalidToken (← l.nat?))
  | some ("UnrecognizedToken", [s, ex]) => do pure (.unrecognizedToken (← spanOf? s) (← namesOf? ex))
  | some ("ExtraToken", [s]) => do pure (.extraToken (← spanOf? s))
  | some ("IoError", [d]) => do pure (.ioError (← hexAtom? d))
  | some ("FmtError", [d]) => do pure (.fmtError (← hexAtom? d))
  | _ => none

/-! #### the spans of the diagnostics of `Program::new` (`Program.newSp`, Hcl/Model/ProgramSp.lean) against the real ones -/

/-- the diagnostics an error value of `Program::new` consists of: kind, names and spans as `DiagSp` lists them (the names
    of a `WireLoop` are left out: which cycle is found depends on the iteration order of hash tables, which this stream
    does not log; `WireLoop` carries no span); `none` for a variant `Program::new` never produces -/
partial def errLeaves : Errors.ErrV → Option (List (String × List Bytes × List (Nat × Nat)))
  | .multiple vs => (vs.mapM errLeaves).map List.flatten
  | .mismatchedMuxWidths o _ => some [("MismatchedMuxWidths", [], o)]
  | .mismatchedExprWidths a _ b _ => some [("MismatchedExprWidths", [], [a, b])]
  | .mismatchedWireWidths n _ b _ => some [("MismatchedWireWidths", [n], [b])]
  | .mismatchedRegisterDefaultWidths bank reg _ d _ => some [("MismatchedRegisterDefaultWidths", [bank, reg], [d])]
  | .duplicateRegister bank reg => some [("DuplicateRegister", [bank, reg], [])]
  | .runtimeMismatchedWidths => some [("RuntimeMismatchedWidths", [], [])]
  | .divideByZero => some [("DivideByZero", [], [])]
  | .undeclaredWireAssigned n s _ => some [("UndeclaredWireAssigned", [n], [s])]
  | .undeclaredWireRead n s _ => some [("UndeclaredWireRead", [n], [s])]
  | .nonConstantWireRead n s => some [("NonConstantWireRead", [n], [s])]
  | .unsetWire n s => some [("UnsetWire", [n], [s])]
  | .unsetBuiltinWire n => some [("UnsetBuiltinWire", [n], [])]
  | .unsetUndeclaredWire n => some [("UnsetUndeclaredWire", [n], [])]
  | .unsetRegisterInputWire n s => some [("UnsetRegisterInputWire", [n], [s])]
  | .redeclaredWire n a b => some [("RedeclaredWire", [n], [a, b])]
  | .doubleAssignedWire n a b => some [("DoubleAssignedWire", [n], [a, b])]
  | .doubleAssignedRegisterWire n a b => some [("DoubleAssignedRegisterWire", [n], [a, b])]
  | .doubleDeclaredRegisterOutWire n a b => some [("DoubleDeclaredRegisterOutWire", [n], [a, b])]
  | .doubleAssignedFixedOutWire n s _ => some [("DoubleAssignedFixedOutWire", [n], [s])]
  | .assignedConstant n a b => some [("AssignedConstant", [n], [a, b])]
  | .redeclaredBuiltinWire n s _ => some [("RedeclaredBuiltinWire", [n], [s])]
  | .partialFixedInput _ f m => some [("PartialFixedInput", f ++ [[47]] ++ m, [])]
  | .wireLoop _ => some [("WireLoop", [], [])]
  | .invalidRegisterBankName n s => some [("InvalidRegisterBankName", [n], [s])]
  | .invalidBitIndex s _ => some [("InvalidBitIndex", [], [s])]
  | .nonBooleanWidth s => some [("NonBooleanWidth", [], [s])]
  | .noBitWidth s => some [("NoBitWidth", [], [s])]
  | .misorderedBitIndexes s => some [("MisorderedBitIndexes", [], [s])]
  | .wireTooWide s => some [("WireTooWide", [], [s])]
  | .noMuxDefaultOption s => some [("NoMuxDefaultOption", [], [s])]
  | .multipleMuxDefaultOption s => some [("MultipleMuxDefaultOption", [], [s])]
  | .unreachableOptions s => some [("UnreachableOptions", [], [s])]
  | _ => none

def utf8Bytes (s : String) : Bytes := s.toUTF8.toList.map (·.toNat)

def diagSpLeaf (d : Parser.DiagSp) : String × List Bytes × List (Nat × Nat) :=
  (d.kind.name, if d.kind == .WireLoop then [] else d.names.map utf8Bytes, d.spans)

def leafKey (l : String × List Bytes × List (Nat × Nat)) : String :=
  l.1 ++ "|" ++ " ".intercalate (l.2.1.map hexOfBytes) ++ "|" ++ " ".intercalate (l.2.2.map fun s => s!"{s.1}-{s.2}")

/-- the verdict on the spans of the diagnostics of a rejected program: the text (preamble + user) is parsed by
    `parseProgramSp`, `Program.newSp` is run on the result, and the diagnostics are compared with those of the real
    error as multisets of (kind, names, spans).  ` diag-spans-skipped:<reason>` when the comparison does not apply. -/
def diagSpansVerdict (fields : List SExp) (how : String) (user : Bytes) (v : Errors.ErrV) : String :=
  if how.startsWith "synthetic" || how.startsWith "yo" || how.startsWith "run-divide" then "diag-spans-skipped:not-from-program-new" else
  match errLeaves v with
  | none => "diag-spans-skipped:parse-error"
  | some theirs =>
    match String.fromUTF8? (ByteArray.mk (user.map UInt8.ofNat).toArray) with
    | none => "diag-spans-skipped:not-utf8"
    | some text =>
      if !hasField fields "flags" then "diag-spans-skipped:no-flags" else
      if !stmtsClsKnown (field fields "cls") text.toList then "diag-spans-skipped:unclassified-char" else
      let pre : List Char := Generated.preambleBytes.map Char.ofNat
      match Parser.parseProgramSp (stmtsLexCls (field fields "cls")) (pre ++ text.toList) with
      | none => "diag-spans-DIFFER:model-does-not-parse"
      | some ss =>
        match Program.newSp (decodeFlags (field fields "flags")) (decodeCls (field fields "cls")) {} y86FixedFunctions ss with
        | .ok _ => "diag-spans-DIFFER:model-accepts"
        | .error ds =>
          let mine := sortStrings (ds.map fun d => leafKey (diagSpLeaf d))
          let real := sortStrings (theirs.map leafKey)
          if mine == real then "diag-spans-agree" else
            "diag-spans-DIFFER:model=" ++ ",".intercalate mine ++ ":real=" ++ ",".intercalate real

/-- `(render (how ..) (prelen N) (user xHEX) (name xHEX) (error E))`: the bytes the model of `format_for_contents` writes for
    the error value `E` against the file (real preamble + user text), in hexadecimal; `-` for none; `PANIC` where a slice
    or an index of the real code is out of range -/
def handleRender (fields : List SExp) : String :=
  let pre : Bytes := Generated.preambleBytes
  if natField fields "prelen" 0 ≠ pre.length then "M preamble-length-differs ;; S -" else
  match field fields "user", field fields "name", field fields "error" with
  | [u], [n], [e] =>
    (match hexAtom? u, hexAtom? n, decodeErr e with
     | some user, some name, some v =>
       let how := match field fields "how" with | [.atom h] => h | _ => ""
       (match Errors.render (Io.newFromData pre user name) v with
        | .ok out => "M " ++ (if out.isEmpty then "-" else hexOfBytes out) ++ " ;; S -"
        | .error _ => "M PANIC ;; S -") ++ " ;; V " ++ diagSpansVerdict fields how user v
     | _, _, _ => "bad-request undecodable-render")
  | _, _, _ => "bad-request render-fields"

def handleLex (fields : List SExp) : String :=
  let cls := lexCls (field fields "cls")
  let text : List Char := (field fields "text").filterMap fun e => e.nat?.map Char.ofNat
  "M " ++ " ".intercalate ((Lexer.lex cls text).map showLexItem) ++ " ;; S -"

/-- `(anytext (how ..) (render ..) <inner request>)`: the inner request is answered -/
def innerRequest (fields : List SExp) : Option (String × List SExp) :=
  fields.findSome? fun e =>
    match e.tagged? with
    | some ("prog", f) => some ("prog", f)
    | some ("lex", f) => some ("lex", f)
    | _ => none

def handle (line : String) : String :=
  match SExp.parse line with
  | none => "bad-request unparsable"
  | some e =>
    match e.tagged? with
    | some ("graph", fields) => handleGraph fields
    | some ("prog", fields) => handleProg fields
    | some ("run", fields) => handleRun fields
    | some ("disasm", args) => handleDisasm args
    | some ("yo", args) => handleYo args
    | some ("dump", fields) => handleDump fields
    | some ("table", fields) => handleTable fields
    | some ("messages", fields) => handleMessages fields
    | some ("cli", fields) => handleCliArgv fields
    | some ("lex", fields) => handleLex fields
    | some ("rawfile", _) => "M - ;; S -"
    | some ("anytext", fields) =>
      (match innerRequest fields with
       | some ("prog", f) => handleProg f
       | some ("lex", f) => handleLex f ++ (if hasField fields "outcome" then " ;; V " ++ stmtsModelRejects fields f else "")
       | _ => "bad-request anytext-without-inner")
    | some ("region", fields) => handleRegion fields
    | some ("diag", fields) => handleDiag fields
    | some ("render", fields) => handleRender fields
    | some ("parse", fields) => handleParse fields
    | some ("trace", args) => handleTrace args
    | some (t, _) => s!"bad-request unknown-tag {t}"
    | none => "bad-request no-tag"

partial def loop (h : IO.FS.Stream) (out : IO.FS.Stream) : IO Unit := do
  let line ← h.getLine
  if line.isEmpty then return ()
  out.putStrLn (handle line)
  loop h out

def main : IO Unit := do
  let out ← IO.getStdout
  loop (← IO.getStdin) out
