import Hcl.Proofs.Accepted
import Hcl.Proofs.NoPanicStages
import Hcl.Proofs.CompleteStep1
import Hcl.Proofs.CompleteConsts
import Hcl.Proofs.CompleteBanks
import Hcl.Proofs.CompleteActions
open Rust

/-! Assembly: when no stage of `Program::new` has anything to report, the program is accepted. -/

/-- the names that need an assignment: the declared wires and the register inputs -/
def neededOf (s1 : Step1) (s3 : Step3) : List String := (bankIns s3.banks).foldl setInsert s1.needed

/-- the diagnostics of the first stage -/
def errs1Of (s1 : Step1) : List Diag :=
  s1.errors ++ (s1.assigned.flatMap fun n => if s1.constantsRaw.contains n then [(⟨.AssignedConstant, [n]⟩ : Diag)] else []) ++
    constRefErrors s1

theorem Program_new_ok_of_stages (fl : Flags) (cls : CharClass) (o : Orders) (stmts : List Stmt) (ho : OrdersOK o)
    (constants : AMap WireValue)
    (h1 : errs1Of (step1Of stmts) = [])
    (hrefs : ∀ p ∈ (step1Of stmts).constantsRaw, ∀ r ∈ refs p.2, (step1Of stmts).constantsRaw.contains r = true)
    (hwf : StmtsWF stmts)
    (h2 : resolveConstants fl o (step1Of stmts).constantsRaw = .ok constants)
    (h3 : (step3Of fl cls (step1Of stmts) constants).errors = [])
    (h4 : ∀ n ∈ neededOf (step1Of stmts) (step3Of fl cls (step1Of stmts) constants), (step1Of stmts).assignments.contains n = true)
    (h5 : ∃ acts, assignmentsToActions fl o (step1Of stmts).assignments
        (finalWires (step1Of stmts) constants (step3Of fl cls (step1Of stmts) constants))
        (knownOf (step1Of stmts) constants (step3Of fl cls (step1Of stmts) constants)) y86FixedFunctions
        (step1Of stmts).declared constants = .ok acts) :
    ∃ p, Program.new fl cls o y86FixedFunctions stmts = .ok p := by
  obtain ⟨acts, h5⟩ := h5
  unfold Program.new
  simp only
  obtain ⟨s1inv, _⟩ := step1_fold_inv (fixedNamesOf y86FixedFunctions)
    (y86FixedFunctions.filterMap fun f => f.outWire.map (·.1)) y86W0 stmts (step1Init y86FixedFunctions) hwf step1Init_inv
  have hs1i : S1Inv (fixedNamesOf y86FixedFunctions) y86W0 (step1Of stmts) := s1inv
  generalize hs1 : List.foldl (step1Stmt _ _) (step1Init y86FixedFunctions) stmts = s1'
  have hs1' : s1' = step1Of stmts := hs1.symm
  subst hs1'
  clear hs1 s1inv
  generalize step1Of stmts = s1 at *
  have h1' : (s1.errors ++ (s1.assigned.flatMap fun n => if s1.constantsRaw.contains n then [(⟨.AssignedConstant, [n]⟩ : Diag)] else []) ++
    constRefErrors s1) = [] := h1
  rw [h1']
  simp only [List.isEmpty_nil, Bool.not_true, Bool.false_eq_true, if_false]
  rw [h2]
  simp only
  have hs3 : List.foldl (step3Bank fl cls s1 constants) { wireTypes := s1.wireTypes } s1.banksRaw = step3Of fl cls s1 constants := rfl
  rw [hs3]
  generalize step3Of fl cls s1 constants = s3 at *
  have he4 : ((List.foldl setInsert s1.needed (bankIns s3.banks)).flatMap fun n =>
      if s1.assignments.contains n then ([] : List Diag) else
      if s1.declared.contains n then [⟨.UnsetWire, [n]⟩]
      else if s3.registerIns.contains n then [⟨.UnsetRegisterInputWire, [n]⟩]
      else [⟨.UnsetBuiltinWire, [n]⟩]) = [] := by
    rw [List.flatMap_eq_nil_iff]
    intro n hn
    rw [if_pos (h4 n hn)]
  rw [he4, h3]
  simp only [List.append_nil, List.isEmpty_nil, Bool.not_true, Bool.false_eq_true, if_false]
  have hmiss : (s1.constantsRaw.keys.any fun k => !constants.contains k) = false := by
    rw [List.any_eq_false]
    intro k hk
    have := (resolveConstants_np fl o s1.constantsRaw ho hs1i.cKeys hs1i.cWf hrefs).2 constants h2 k hk
    simp [this]
  rw [hmiss]
  simp only [Bool.false_eq_true, if_false]
  have hW : insertAll (insertAll s1.wires (bankPairs s3.banks)) (constPairs s1.constantsRaw.keys constants) =
      finalWires s1 constants s3 := rfl
  have hK : ((constPairs s1.constantsRaw.keys constants).map (·.1)).foldl setInsert ((bankOuts s3.banks).foldl setInsert []) =
      knownOf s1 constants s3 := rfl
  rw [hW, hK, h5]
  exact ⟨_, rfl⟩

/-! ### the declarative form -/

/-- **No fault ⇒ accepted.**  `s1` are the tables of the statements (`step1Of`), `constants` the table of the constants,
    `s3` the register banks.  If
    * no name is declared twice or is a built-in name, no name is assigned twice or is a built-in output or a constant, and
      constants read only constants (stage 1, `step1_gate_nil_iff`),
    * the constants resolve to `constants` (`resolveConstants_ok_iff`: no cycle among them and every definition passes the
      width checker and evaluates),
    * every register bank is well-formed (`BankDeclOK`) and all register signal names are distinct,
    * every declared wire and every register input is assigned,
    * the assignments and built-in components obey `ActionsOK`'s six conditions in the width table of the program
    then `Program::new` accepts, whatever the iteration order of its hash tables. -/
theorem Program_new_complete (fl : Flags) (cls : CharClass) (o : Orders) (stmts : List Stmt) (ho : OrdersOK o)
    (hwf : StmtsWF stmts) (constants : AMap WireValue)
    (hdecl : (allDeclared stmts).Nodup) (hdeclB : ∀ n ∈ allDeclared stmts, n ∉ fixedNamesOf y86FixedFunctions)
    (htgt : (allTargets stmts).Nodup)
    (htgtB : ∀ n ∈ allTargets stmts, n ∉ y86FixedFunctions.filterMap fun f => f.outWire.map (·.1))
    (htgtC : ∀ n ∈ allTargets stmts, (step1Of stmts).constantsRaw.contains n = false)
    (hcrefs : ∀ p ∈ (step1Of stmts).constantsRaw, ∀ r ∈ refs p.2, (step1Of stmts).constantsRaw.contains r = true)
    (hconsts : resolveConstants fl o (step1Of stmts).constantsRaw = .ok constants)
    (hbanks : ∀ b ∈ (step1Of stmts).banksRaw, BankDeclOK fl cls (step1Of stmts) constants b)
    (hregs : (allRegNames (step1Of stmts).banksRaw).Nodup)
    (hneeded : ∀ n ∈ neededOf (step1Of stmts) (step3Of fl cls (step1Of stmts) constants), n ∈ allTargets stmts)
    (hmand : ∀ f ∈ y86FixedFunctions, f.mandatory = true → Active (step1Of stmts).assignments f)
    (hunused : ∀ f ∈ y86FixedFunctions, ¬ Active (step1Of stmts).assignments f → ∀ n w, f.outWire = some (n, w) →
      ∀ p ∈ (step1Of stmts).assignments, n ∉ refs p.2)
    (hpartial : ∀ f ∈ y86FixedFunctions, ¬ Active (step1Of stmts).assignments f →
      (∃ i ∈ f.inWires.map (·.1), (step1Of stmts).assignments.contains i = true) →
        ∃ en expr v, f.disabledIfFalse = some en ∧ (step1Of stmts).assignments.get? en = some expr ∧
          (∃ ew, check fl (finalWires (step1Of stmts) constants (step3Of fl cls (step1Of stmts) constants)).toCtx constants.toEnv expr = .ok ew) ∧
          ev fl constants.toEnv (fixMux fl (finalWires (step1Of stmts) constants (step3Of fl cls (step1Of stmts) constants)).toCtx
            constants.toEnv expr) = .ok v ∧ v.bits = 0)
    (hassign : ∀ n e, (step1Of stmts).assignments.get? n = some e → ∃ w ew,
      (finalWires (step1Of stmts) constants (step3Of fl cls (step1Of stmts) constants)).get? n = some w ∧
      check fl (finalWires (step1Of stmts) constants (step3Of fl cls (step1Of stmts) constants)).toCtx constants.toEnv e = .ok ew ∧
      (w.combine ew).isSome = true)
    (hread : ∀ p ∈ (step1Of stmts).assignments, ∀ r ∈ refs p.2,
      (knownOf (step1Of stmts) constants (step3Of fl cls (step1Of stmts) constants)).contains r = true ∨
      (step1Of stmts).assignments.contains r = true ∨
      ∃ f ∈ y86FixedFunctions, (∃ w, f.outWire = some (r, w)) ∧ Active (step1Of stmts).assignments f)
    (hacyc : ¬ ∃ c, RelCycle (ActDep (step1Of stmts).assignments y86FixedFunctions) c) :
    ∃ p, Program.new fl cls o y86FixedFunctions stmts = .ok p := by
  obtain ⟨s1inv, _⟩ := step1_fold_inv (fixedNamesOf y86FixedFunctions)
    (y86FixedFunctions.filterMap fun f => f.outWire.map (·.1)) y86W0 stmts (step1Init y86FixedFunctions) hwf step1Init_inv
  have hs1i : S1Inv (fixedNamesOf y86FixedFunctions) y86W0 (step1Of stmts) := s1inv
  have hgate := (step1_gate_nil_iff stmts).mpr ⟨hdecl, hdeclB, htgt, htgtB, htgtC, hcrefs⟩
  have hs1clean : (step1Of stmts).errors = [] := (step1Of_errors_nil_iff stmts).mpr ⟨hdecl, hdeclB, htgt, htgtB⟩
  have hw : ∀ b ∈ (step1Of stmts).banksRaw, ∀ r ∈ b.regs, r.width.ok := fun b hb r hr => (hs1i.banks b hb r hr).1
  have hs3clean := (step3Of_errors_nil_iff fl cls (step1Of stmts) constants hw).mpr ⟨hbanks, hregs⟩
  have hcok := resolveConstants_constOK fl o (step1Of stmts).constantsRaw constants hs1i.cWf hconsts
  have hckeys := resolveConstants_keys fl o (step1Of stmts).constantsRaw constants hconsts
  have hs3f : S3Facts (step1Of stmts).declared (fun n => (step1Of stmts).assignments.contains n = false)
      (step3Of fl cls (step1Of stmts) constants) {} :=
    step3_facts fl cls (step1Of stmts) constants hw hs3clean
  have hyp : TablesHyp (fixedNamesOf y86FixedFunctions) y86W0 (step1Of stmts) constants (step3Of fl cls (step1Of stmts) constants) :=
    { s1inv := hs1i, s1clean := hs1clean, cok := hcok, ckeys := hckeys, s3f := hs3f
      fnShape := by
        intro n hn
        have a := List.all_eq_true.mp y86_names_not_sig n hn
        have b := List.all_eq_true.mp y86_names_not_ctl n hn
        exact ⟨by simpa using a, by simpa using b⟩ }
  have hknownmem : ∀ n, n ∈ knownOf (step1Of stmts) constants (step3Of fl cls (step1Of stmts) constants) →
      n ∈ bankOuts (step3Of fl cls (step1Of stmts) constants).banks ∨
      n ∈ (constPairs (step1Of stmts).constantsRaw.keys constants).map (·.1) := by
    intro n hn
    unfold knownOf at hn
    rw [mem_foldl_setInsert, mem_foldl_setInsert] at hn
    rcases hn with (h1 | h1) | h1
    · simp at h1
    · exact Or.inl h1
    · exact Or.inr h1
  have hfixedNotKnown : ∀ n ∈ fixedNamesOf y86FixedFunctions,
      (knownOf (step1Of stmts) constants (step3Of fl cls (step1Of stmts) constants)).contains n = false := by
    intro n hn
    by_cases hc : (knownOf (step1Of stmts) constants (step3Of fl cls (step1Of stmts) constants)).contains n = true
    · exfalso
      have hm : n ∈ knownOf (step1Of stmts) constants (step3Of fl cls (step1Of stmts) constants) := by simpa using hc
      rcases hknownmem n hm with h1 | h1
      · simp only [bankOuts, List.mem_flatMap, List.mem_map] at h1
        obtain ⟨b, hb, sg, hsg, rfl⟩ := h1
        have := isSigName_second ((hs3f.banks b hb).sigs.sig sg hsg).2.1
        rw [(hyp.fnShape _ hn).1] at this; cases this
      · obtain ⟨pr, hpr, rfl⟩ := List.mem_map.mp h1
        exact (constPairs_declared hyp pr hpr).2.1 hn
    · simpa using hc
  apply Program_new_ok_of_stages fl cls o stmts ho constants hgate hcrefs hwf hconsts hs3clean
  · intro n hn
    exact (step1Of_assignments_contains_iff stmts n).mpr (hneeded n hn)
  · apply assignmentsToActions_complete fl o _ _ _ y86FixedFunctions _ constants ho y86Fixed_table hs1i.aKeys y86_hio
      _ _ hmand hunused hpartial hassign hread hacyc
    · intro f hf n hn
      apply hfixedNotKnown
      unfold fixedNamesOf
      rw [mem_dedupS]
      exact List.mem_flatMap.mpr ⟨f, hf, List.mem_append_left _ hn⟩
    · intro f hf n w hout
      have hn : n ∈ fixedNamesOf y86FixedFunctions := by
        have := List.all_eq_true.mp y86_out_in_names f hf
        rw [hout] at this
        simpa using this
      refine ⟨hfixedNotKnown n hn, ?_⟩
      by_cases hc : (step1Of stmts).assignments.contains n = true
      · exfalso
        exact htgtB n ((step1Of_assignments_contains_iff stmts n).mp hc) (List.mem_filterMap.mpr ⟨f, hf, by simp [hout]⟩)
      · simpa using hc
