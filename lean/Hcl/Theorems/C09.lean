import Hcl.Proofs.AcceptedValid
import Hcl.Model.Program
open Rust

/-!
# C09 — every wire has exactly one driver, or the program is rejected

Theorems about the model of `Program::new` (first checking stage).  The complete fault list is
`Spec.faults` (Hcl/Spec/Accept.lean); agreement of the real code with it — accept/reject and the
name in the diagnostic, for every fault class at every kind of name — is established differentially.
-/

def targetsOf : List Stmt → List String
  | [] => []
  | .assigns as :: rest => as.flatMap (·.names) ++ targetsOf rest
  | _ :: rest => targetsOf rest

def constNamesOf : List Stmt → List String
  | [] => []
  | .consts ds :: rest => ds.map (·.name) ++ constNamesOf rest
  | _ :: rest => constNamesOf rest

theorem foldl_errors_mono {β : Type} (f : Step1 → β → Step1) (hf : ∀ s x, ∃ more, (f s x).errors = s.errors ++ more) :
    ∀ (l : List β) (s : Step1), ∃ more, (l.foldl f s).errors = s.errors ++ more
  | [], s => ⟨[], by simp⟩
  | x :: rest, s => by
    obtain ⟨m1, h1⟩ := hf s x
    obtain ⟨m2, h2⟩ := foldl_errors_mono f hf rest (f s x)
    exact ⟨m1 ++ m2, by simp only [List.foldl_cons]; rw [h2, h1, List.append_assoc]⟩

theorem checkDoubleDeclare_mono (fn : List String) (s : Step1) (n : String) :
    ∃ more, (checkDoubleDeclare fn s n).errors = s.errors ++ more := ⟨_, rfl⟩

/-- processing one statement never removes an error already recorded -/
theorem step1Stmt_errors_mono (fn fo : List String) (s : Step1) (st : Stmt) :
    ∃ more, (step1Stmt fn fo s st).errors = s.errors ++ more := by
  cases st with
  | consts ds =>
    exact foldl_errors_mono (step1Const fn) (fun s d => by
      obtain ⟨m, hm⟩ := checkDoubleDeclare_mono fn s d.name
      exact ⟨m, by simp only [step1Const]; exact hm⟩) ds s
  | wires ds =>
    exact foldl_errors_mono (step1Wire fn) (fun s d => by
      obtain ⟨m, hm⟩ := checkDoubleDeclare_mono fn s d.name
      exact ⟨m, by simp only [step1Wire]; exact hm⟩) ds s
  | assigns as =>
    exact foldl_errors_mono (step1Assign fo) (fun s a =>
      foldl_errors_mono (step1Name fo a.value) (fun s n => ⟨_, rfl⟩) a.names s) as s
  | bank b => exact ⟨[], by simp [step1Stmt]⟩

theorem step1_errors_mono (fn fo : List String) (stmts : List Stmt) (s : Step1) :
    ∃ more, (stmts.foldl (step1Stmt fn fo) s).errors = s.errors ++ more :=
  foldl_errors_mono (step1Stmt fn fo) (step1Stmt_errors_mono fn fo) stmts s

/-- assigning a name a second time records a fault naming it -/
theorem step1Name_double (fo : List String) (value : Ex) (s : Step1) (name : String) (h : s.assigned.contains name = true) :
    (⟨.DoubleAssignedWire, [name]⟩ : Diag) ∈ (step1Name fo value s name).errors := by
  have h' : name ∈ s.assigned := by simpa using h
  simp [step1Name, h']

/-- **C09, first stage.** Whenever the first checking stage records any fault (a name declared twice,
    assigned twice, an assignment to a built-in output or to a constant, a constant depending on a
    wire or on an undeclared name), the program is rejected — for every iteration order. -/
theorem C09_stage1_rejects (fl : Flags) (cls : CharClass) (o : Orders) (fixed : List FixedFunction) (stmts : List Stmt)
    (fixedNames fixedOut : List String)
    (hfn : fixedNames = dedupS (fixed.flatMap fun f => f.inWires.map (·.1) ++ (match f.outWire with | some (n, _) => [n] | none => [])))
    (hfo : fixedOut = fixed.filterMap fun f => f.outWire.map (·.1))
    (herr : (stmts.foldl (step1Stmt fixedNames fixedOut) (step1Init fixed)).errors ≠ []) :
    ∃ ds, Program.new fl cls o fixed stmts = .error ds := by
  subst hfn; subst hfo
  unfold Program.new
  simp only
  split
  · exact ⟨_, rfl⟩
  · rename_i h
    exfalso
    apply h
    cases he : (stmts.foldl (step1Stmt _ _) (step1Init fixed)).errors with
    | nil => exact absurd he herr
    | cons d ds => simp [he]

/-! ### for every accepted program -/

/-- **C09 for every accepted program**: whatever the iteration order, in an accepted program every wire has exactly
    one driver: the value-writing actions have pairwise distinct outputs (no wire is driven twice), none of them
    drives a register output or a constant, every wire an action reads is a register output, a constant, or the
    output of an earlier action (nothing undriven is read), and the state-changing actions write no wire. -/
theorem C09_accepted (fl : Flags) (cls : CharClass) (o : Orders) (stmts : List Stmt) (p : Program)
    (ho : OrdersOK o) (hwf : StmtsWF stmts)
    (h : Program.new fl cls o y86FixedFunctions stmts = .ok p) :
    ∃ (pre fin : List Action) (known : List String), p.actions = pre ++ fin ∧
      (pre.map Action.out).Nodup ∧
      (∀ n ∈ known, n ∉ pre.map Action.out) ∧
      (∀ a ∈ pre, ∀ r ∈ a.reads, r ∈ known ∨ r ∈ pre.map Action.out) ∧
      (∀ a ∈ fin, a.writes = []) := by
  obtain ⟨pre, fin, known, hsplit, hv, hfin, hsched, hknown, _⟩ := Program_new_valid fl cls o stmts p ho hwf h
  refine ⟨pre, fin, known, hsplit, ?_, hknown, ?_, ?_⟩
  · -- distinct outputs, from the validity of the schedule
    have : ∀ (l : List Action) (before : List String), ValidFrom before l → (l.map Action.out).Nodup := by
      intro l
      induction l with
      | nil => intro _ _; simp
      | cons a rest ih =>
        intro before hvl
        simp only [List.map_cons, List.nodup_cons]
        exact ⟨hvl.2.2.1, ih _ hvl.2.2.2.2⟩
    exact this pre [] hv
  · intro a ha r hr
    rcases sched_reads known pre hsched a ha r hr with h1 | h1
    · exact Or.inl h1
    · right
      simp only [writesOf, List.mem_flatMap] at h1
      obtain ⟨b, hb, hrb⟩ := h1
      rw [pure_writes b (validFrom_pure pre [] hv b hb)] at hrb
      simp at hrb
      exact List.mem_map.mpr ⟨b, hb, hrb.symm⟩
  · intro a ha
    have := hfin a ha
    cases a <;> simp_all [Action.isPure, Action.writes]
