import Hcl.Ast

/-!
# What an HCL expression means (specification)

Written from the property statements in plain arithmetic over `Nat`/`Int`; no Rust primitive,
mask or shift occurs here.  `sw` is the width the language rules give an expression, `dv` its
value.  `none` as a value means "a division by zero was evaluated".
-/

namespace Spec

/-- `2^w`; an unsized value lives in 128 bits -/
def card : Width → Nat
  | .unlimited => 2 ^ 128
  | .bits n => 2 ^ n

/-- width of the result of combining two operands: the sized one's when the other is unsized,
    the larger when both are sized (they are equal wherever the rules demand equality) -/
def join : Width → Width → Width
  | .unlimited, b => b
  | a, .unlimited => a
  | .bits a, .bits b => .bits (Nat.max a b)

def bitsOf : Width → Nat
  | .bits n => n
  | .unlimited => 128

inductive OpClass where | arith | bitwise | compare | logic
  deriving DecidableEq

def classOf : BinOp → OpClass
  | .add | .sub | .mul | .div => .arith
  | .and | .or | .xor | .shl | .shr => .bitwise
  | .eq | .ne | .lt | .le | .gt | .ge => .compare
  | .land | .lor => .logic

mutual
/-- static width -/
def sw (Γ : String → Option Width) : Ex → Width
  | .const v => v.width
  | .bin op l r => match classOf op with
      | .arith | .bitwise => join (sw Γ l) (sw Γ r)
      | .compare | .logic => .bits 1
  | .un .not _ => .bits 1
  | .un _ e => sw Γ e
  | .wire n => (Γ n).getD .unlimited
  | .slice _ lo hi => .bits (hi - lo)
  | .concat l r => .bits (bitsOf (sw Γ l) + bitsOf (sw Γ r))
  | .mux opts => swOpts Γ opts
  | .inSet _ _ => .bits 1
/-- the width the arms of a case expression share: that of the sized arms, unsized if there is none -/
def swOpts (Γ : String → Option Width) : Opts → Width
  | .nil => .unlimited
  | .cons _ v rest => join (sw Γ v) (swOpts Γ rest)
end

def b2n (b : Bool) : Nat := if b then 1 else 0

/-- value of a binary operator at result width `W` (only used for arithmetic and bitwise operators) -/
def binVal (op : BinOp) (W : Width) (a b : Nat) : Option Nat :=
  match op with
  | .add => some ((a + b) % card W)
  | .sub => some (((a : Int) - (b : Int)) % (card W : Int)).toNat
  | .mul => some ((a * b) % card W)
  | .div => if b = 0 then none else some ((a / b) % card W)
  | .and => some ((a &&& b) % card W)
  | .or => some ((a ||| b) % card W)
  | .xor => some ((a ^^^ b) % card W)
  | .shl => some (if b ≥ 128 then 0 else (a * 2 ^ b) % card W)     -- shifting by 128 or more gives 0
  | .shr => some (if b ≥ 128 then 0 else (a / 2 ^ b) % card W)
  | .eq => some (b2n (a = b))
  | .ne => some (b2n (a ≠ b))
  | .lt => some (b2n (a < b))
  | .le => some (b2n (a ≤ b))
  | .gt => some (b2n (a > b))
  | .ge => some (b2n (a ≥ b))
  | .land => some (b2n (a ≠ 0 ∧ b ≠ 0))
  | .lor => some (b2n (a ≠ 0 ∨ b ≠ 0))

mutual
/-- value; `σ` gives the numeric value of every wire -/
def dv (Γ : String → Option Width) (σ : String → Nat) : Ex → Option Nat
  | .const v => some v.bits
  | .bin op l r => do
      let a ← dv Γ σ l
      let b ← dv Γ σ r
      binVal op (sw Γ (.bin op l r)) a b
  | .un op e => do
      let a ← dv Γ σ e
      let W := card (sw Γ e)
      match op with
      | .plus => some a
      | .neg => some ((W - a % W) % W)
      | .compl => some (W - 1 - a % W)
      | .not => some (b2n (a = 0))
  | .wire n => some (σ n)
  | .slice e lo hi => do
      let a ← dv Γ σ e
      some ((a / 2 ^ lo) % 2 ^ (hi - lo))
  | .concat l r => do
      let a ← dv Γ σ l
      let b ← dv Γ σ r
      some (a * 2 ^ bitsOf (sw Γ r) + b)
  | .mux opts => do
      let v ← dvOpts Γ σ opts
      some (v % card (swOpts Γ opts))
  | .inSet e items => do
      let a ← dv Γ σ e
      dvIn Γ σ a items
/-- the value of the first arm whose condition is non-zero; 0 when there is none -/
def dvOpts (Γ : String → Option Width) (σ : String → Nat) : Opts → Option Nat
  | .nil => some 0
  | .cons c v rest => do
      let cv ← dv Γ σ c
      if cv ≠ 0 then dv Γ σ v else dvOpts Γ σ rest
def dvIn (Γ : String → Option Width) (σ : String → Nat) (x : Nat) : Exs → Option Nat
  | .nil => some 0
  | .cons e rest => do
      let b ← dv Γ σ e
      if x = b then some 1 else dvIn Γ σ x rest
end

/-- a value stored on a wire of declared width `w` -/
def stored (w : Width) (v : Nat) : Nat := v % card w

end Spec
