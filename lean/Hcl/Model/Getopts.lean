import Hcl.Generated

/-! Model of `getopts::Options::parse` (getopts 0.2.24, src/lib.rs) AS CONFIGURED IN `main_real` (main.rs):

    * `Options::new()`: `parsing_style = FloatingFrees`, `long_only = false` (main.rs changes neither);
    * nine `optflag`s (`hasarg = No`, `occur = Optional`), the table `Generated.cliOptions` extracted from main.rs
      (pinned by `Tie.Cli.cliOptions`): (short, long) pairs, the short name possibly empty.

    The argument vector is the list of arguments WITHOUT the program name, every argument a valid Unicode string
    (`env::args()` in main.rs panics on an argument that is not valid Unicode before getopts is reached: not modelled).

    What `parse` does (lib.rs 437-566), for each argument `cur` in order:
      - `!is_arg(cur)` (does not begin with the byte `-`, or is one byte long): a free argument, pushed; FloatingFrees goes on;
      - `cur == "--"`: all the remaining arguments are free, stop;
      - second byte is `-` (a long option): `tail = cur[2..]`, split at the first `=` (`splitn(2,'=')`);
        `Name::from_str(name)`: a name ONE BYTE long is `Short(that char)`, otherwise `Long(name)`;
        `find_opt` fails: `Err(UnrecognizedOption(name))`; a value after `=` (even empty): `Err(UnexpectedArgument(name))`
        (all the options are flags); otherwise the option is recorded;
      - otherwise (a cluster of short options `-abc`): every character after the first is looked up as `Short(ch)`;
        the first unknown one gives `Err(UnrecognizedOption(ch))`, the known ones are recorded (no option takes a value).
    After the loop, in the order of the option table: an option recorded more than once gives `Err(OptionDuplicated(name))`
    (no option is `Req` or `Multi`).  Otherwise `Ok(Matches)`. -/

namespace Getopts

/-- `getopts::Name` (names as lists of characters) -/
inductive Name where
  | short (c : Char)
  | long (s : List Char)
  deriving Repr, DecidableEq

/-- `Name::from_str`: `if nm.len() == 1 { Short(nm.as_bytes()[0] as char) } else { Long(nm) }`; `len` counts bytes, so the
    name is short exactly when it is one character below U+0080 -/
def Name.ofChars (nm : List Char) : Name :=
  match nm with
  | [c] => if c.toNat < 128 then .short c else .long nm
  | _ => .long nm

/-- `Name::to_string` -/
def Name.chars : Name → List Char
  | .short c => [c]
  | .long s => s

def Name.toString (n : Name) : String := String.ofList n.chars

/-- `getopts::Opt` restricted to what `parse` uses for flags: the name and the (at most one) alias -/
structure Opt where
  name : Name
  alias : Option Name
  deriving Repr, DecidableEq

/-- `OptGroup::long_to_short` for a `(short_name, long_name)` pair of the table.  (An entry with both names empty, or
    a short name longer than one byte, makes `optflag`/`long_to_short` panic; the table has none.) -/
def optOfGroup (g : String × String) : Opt :=
  match g.1.toList, g.2.toList with
  | [], l => { name := .long l, alias := none }
  | [c], [] => { name := .short c, alias := none }
  | [c], l => { name := .long l, alias := some (.short c) }
  | _, l => { name := .long l, alias := none }

/-- the `opts: Vec<Opt>` of `parse` for main.rs -/
def opts : List Opt := Generated.cliOptions.map optOfGroup

/-- `find_opt`, returning the NAME of the option found (`find_opt` returns the position of the first option with that
    name; the occurrences `vals[position]` are identified here by that name): first among the main names, then among the
    aliases -/
def findOpt (os : List Opt) (nm : Name) : Option Name :=
  if os.any (fun o => o.name == nm) then some nm
  else (os.find? (fun o => o.alias == some nm)).map (·.name)

/-- `getopts::Fail` as far as flags-only options can produce it; the payload is the name as `Fail` stores it -/
inductive OptErr where
  | unrecognized (name : String)          -- `UnrecognizedOption`
  | unexpectedArgument (name : String)    -- `UnexpectedArgument`
  | duplicated (name : String)            -- `OptionDuplicated`
  deriving Repr, DecidableEq

/-- `impl Display for Fail`: the line main.rs prints on standard error -/
def OptErr.message : OptErr → String
  | .unrecognized n => "Unrecognized option: '" ++ n ++ "'"
  | .unexpectedArgument n => "Option '" ++ n ++ "' does not take an argument"
  | .duplicated n => "Option '" ++ n ++ "' given more than once"

/-- `is_arg`: `arg.as_bytes().get(0) == Some(&b'-') && arg.len() > 1` -/
def isArg (cs : List Char) : Bool :=
  match cs with
  | c :: _ :: _ => c == '-'
  | _ => false

/-- `tail.splitn(2, '=')`: the part before the first `=` and, if there is one, the part after it -/
def splitEq : List Char → List Char × Option (List Char)
  | [] => ([], none)
  | c :: cs =>
    if c = '=' then ([], some cs)
    else ((c :: (splitEq cs).1), (splitEq cs).2)

/-- the loop over a cluster of short options (the characters after the leading `-`): the options recorded, or the
    first unknown character -/
def cluster (os : List Opt) : List Char → Except OptErr (List Name)
  | [] => .ok []
  | ch :: rest =>
    match findOpt os (.short ch) with
    | none => .error (.unrecognized (Name.short ch).toString)
    | some n =>
      match cluster os rest with
      | .ok ns => .ok (n :: ns)
      | .error e => .error e

/-- what one iteration of the `while let Some(cur) = args.next()` loop does with `cur` -/
inductive ArgKind where
  | free                           -- pushed on `free`
  | terminator                     -- `--`
  | flags (ns : List Name)         -- options recorded (`vals[id].push(..)`), by canonical name, in order
  | bad (e : OptErr)               -- `return Err(..)`
  deriving Repr, DecidableEq

/-- a long option: the characters after `--` -/
def classifyLong (os : List Opt) (tail : List Char) : ArgKind :=
  let nm := Name.ofChars (splitEq tail).1
  match findOpt os nm with
  | none => .bad (.unrecognized nm.toString)
  | some n =>
    if (splitEq tail).2.isSome then .bad (.unexpectedArgument nm.toString)
    else .flags [n]

def classifyChars (os : List Opt) (cs : List Char) : ArgKind :=
  if !isArg cs then .free
  else if cs = ['-', '-'] then .terminator
  else if (cs.drop 1).head? = some '-' then classifyLong os (cs.drop 2)
  else
    match cluster os (cs.drop 1) with
    | .ok ns => .flags ns
    | .error e => .bad e

def classify (a : String) : ArgKind := classifyChars opts a.toList

/-- the main loop: the options recorded (in order of occurrence) and the free arguments, or the first error -/
def scan : List String → Except OptErr (List Name × List String)
  | [] => .ok ([], [])
  | a :: rest =>
    match classify a with
    | .free =>
      match scan rest with
      | .ok (occ, free) => .ok (occ, a :: free)
      | .error e => .error e
    | .terminator => .ok ([], rest)
    | .flags ns =>
      match scan rest with
      | .ok (occ, free) => .ok (ns ++ occ, free)
      | .error e => .error e
    | .bad e => .error e

/-- `Matches`: the options given (canonical names, in the order of the option table) and the free arguments in order -/
structure Matches where
  given : List Name
  free : List String
  deriving Repr, DecidableEq

/-- the check after the loop: the first option of the table recorded more than once -/
def firstDup (os : List Opt) (occ : List Name) : Option Name :=
  (os.map (·.name)).find? (fun n => decide (1 < occ.count n))

/-- `Options::parse` -/
def parse (args : List String) : Except OptErr Matches :=
  match scan args with
  | .error e => .error e
  | .ok (occ, free) =>
    match firstDup opts occ with
    | some n => .error (.duplicated n.toString)
    | none => .ok { given := (opts.map (·.name)).filter (fun n => decide (n ∈ occ)), free := free }

/-- `Matches::opt_present(name)` (`!self.opt_vals(name).is_empty()`; panics on a name that is not defined: `false` here) -/
def Matches.optPresent (m : Matches) (name : String) : Bool :=
  match findOpt opts (Name.ofChars name.toList) with
  | some n => decide (n ∈ m.given)
  | none => false

end Getopts
