import Hcl.Util.Format

/-!
# Y86-64 instruction encodings (CS:APP Figure 4.2/4.3) and their assembly text (specification)
-/

namespace Spec

inductive Cond where | always | le | l | e | ne | ge | g
  deriving Repr, DecidableEq

def Cond.code : Cond → Nat
  | .always => 0 | .le => 1 | .l => 2 | .e => 3 | .ne => 4 | .ge => 5 | .g => 6

def Cond.suffix : Cond → String
  | .always => "" | .le => "le" | .l => "l" | .e => "e" | .ne => "ne" | .ge => "ge" | .g => "g"

inductive AluOp where | add | sub | and | xor
  deriving Repr, DecidableEq

def AluOp.code : AluOp → Nat
  | .add => 0 | .sub => 1 | .and => 2 | .xor => 3

def AluOp.name : AluOp → String
  | .add => "addq" | .sub => "subq" | .and => "andq" | .xor => "xorq"

/-- program registers 0..14 by name -/
def regName (r : Nat) : String :=
  match r with
  | 0 => "%rax" | 1 => "%rcx" | 2 => "%rdx" | 3 => "%rbx" | 4 => "%rsp" | 5 => "%rbp" | 6 => "%rsi" | 7 => "%rdi"
  | 8 => "%r8" | 9 => "%r9" | 10 => "%r10" | 11 => "%r11" | 12 => "%r12" | 13 => "%r13" | 14 => "%r14"
  | _ => "NONE"

/-- the twelve instruction forms; registers are numbers below 15, immediates below 2^64 -/
inductive Instr where
  | halt | nop | ret
  | cmov (c : Cond) (ra rb : Nat)          -- `rrmovq` is `cmov always`
  | irmovq (v : Nat) (rb : Nat)
  | rmmovq (ra : Nat) (d : Nat) (rb : Nat)
  | mrmovq (d : Nat) (rb : Nat) (ra : Nat)
  | op (o : AluOp) (ra rb : Nat)
  | jmp (c : Cond) (dest : Nat)
  | call (dest : Nat)
  | pushq (ra : Nat)
  | popq (ra : Nat)
  deriving Repr, DecidableEq

def Instr.valid : Instr → Prop
  | .cmov _ ra rb => ra < 15 ∧ rb < 15
  | .irmovq v rb => v < 2 ^ 64 ∧ rb < 15
  | .rmmovq ra d rb => ra < 15 ∧ d < 2 ^ 64 ∧ rb < 15
  | .mrmovq d rb ra => ra < 15 ∧ d < 2 ^ 64 ∧ rb < 15
  | .op _ ra rb => ra < 15 ∧ rb < 15
  | .jmp _ dest => dest < 2 ^ 64
  | .call dest => dest < 2 ^ 64
  | .pushq ra => ra < 15
  | .popq ra => ra < 15
  | _ => True

def le8 (v : Nat) : List Nat := (List.range 8).map fun i => (v / 256 ^ i) % 256

/-- the bytes of an instruction, in memory order -/
def encode : Instr → List Nat
  | .halt => [0x00]
  | .nop => [0x10]
  | .ret => [0x90]
  | .cmov c ra rb => [0x20 + c.code, ra * 16 + rb]
  | .irmovq v rb => [0x30, 0xF0 + rb] ++ le8 v
  | .rmmovq ra d rb => [0x40, ra * 16 + rb] ++ le8 d
  | .mrmovq d rb ra => [0x50, ra * 16 + rb] ++ le8 d
  | .op o ra rb => [0x60 + o.code, ra * 16 + rb]
  | .jmp c dest => [0x70 + c.code] ++ le8 dest
  | .call dest => [0x80] ++ le8 dest
  | .pushq ra => [0xA0, ra * 16 + 0xF]
  | .popq ra => [0xB0, ra * 16 + 0xF]

/-- assembly text (immediates in hexadecimal, as the simulator prints them) -/
def pretty : Instr → String
  | .halt => "halt"
  | .nop => "nop"
  | .ret => "ret"
  | .cmov .always ra rb => "rrmovq " ++ regName ra ++ ", " ++ regName rb
  | .cmov c ra rb => "cmov" ++ c.suffix ++ " " ++ regName ra ++ ", " ++ regName rb
  | .irmovq v rb => "irmovq $0x" ++ toHex v ++ ", " ++ regName rb
  | .rmmovq ra d rb => "rmmovq " ++ regName ra ++ ", 0x" ++ toHex d ++ "(" ++ regName rb ++ ")"
  | .mrmovq d rb ra => "mrmovq 0x" ++ toHex d ++ "(" ++ regName rb ++ "), " ++ regName ra
  | .op o ra rb => o.name ++ " " ++ regName ra ++ ", " ++ regName rb
  | .jmp .always dest => "jmp 0x" ++ toHex dest
  | .jmp c dest => "j" ++ c.suffix ++ " 0x" ++ toHex dest
  | .call dest => "call 0x" ++ toHex dest
  | .pushq ra => "pushq " ++ regName ra
  | .popq ra => "popq " ++ regName ra

/-- little-endian number of a byte list -/
def leValue : List Nat → Nat
  | [] => 0
  | b :: rest => b + 256 * leValue rest

def conds : List Cond := [.always, .le, .l, .e, .ne, .ge, .g]
def aluOps : List AluOp := [.add, .sub, .and, .xor]

/-- the instruction, if any, whose encoding is a prefix of `bytes` (at least 10 bytes are given) -/
def decode (bytes : List Nat) : Option Instr :=
  let b0 := bytes.getD 0 0
  let b1 := bytes.getD 1 0
  let ra := b1 / 16
  let rb := b1 % 16
  let imm (from_ : Nat) : Nat := leValue ((bytes.drop from_).take 8)
  let cands : List Instr :=
    [.halt, .nop, .ret, .irmovq (imm 2) rb, .rmmovq ra (imm 2) rb, .mrmovq (imm 2) rb ra, .call (imm 1), .pushq ra, .popq ra] ++
    conds.flatMap (fun c => [Instr.cmov c ra rb, .jmp c (imm 1)]) ++ aluOps.map (fun o => Instr.op o ra rb)
  cands.find? fun i =>
    let e := encode i
    decide (bytes.take e.length = e) &&
      (match i with
       | .cmov _ a b => decide (a < 15 ∧ b < 15)
       | .irmovq _ b => decide (b < 15)
       | .rmmovq a _ b => decide (a < 15 ∧ b < 15)
       | .mrmovq _ b a => decide (a < 15 ∧ b < 15)
       | .op _ a b => decide (a < 15 ∧ b < 15)
       | .pushq a => decide (a < 15)
       | .popq a => decide (a < 15)
       | _ => true)

end Spec
