import Hcl.Proofs.RenameMain
open Rust

/-!
# C12 — renaming wires consistently changes nothing

"Renaming wires consistently or reordering statements leaves every wire's value in every cycle and the final machine
state unchanged."  A consistent renaming is a bijection `π` of names (given with its inverse `π'`) applied to every
declared wire and constant, every assignment target and every name an expression mentions (`Stmt.rename`); it must
leave alone the names the simulator constructs itself (`Fixes`: the built-in wires, the signals `x_r` / `X_r` of the
registers of the declared banks and their `stall_X` / `bubble_X`).
-/

/-- the renamed file is accepted exactly when the original is, under any iteration orders -/
theorem C12_rename_verdict (fl : Flags) (cls : CharClass) (o o' : Orders) (stmts : List Stmt) (π π' : String → String)
    (hl : ∀ n, π' (π n) = n) (hr : ∀ n, π (π' n) = n)
    (hfix : Fixes π stmts) (ho : OrdersOK o) (ho' : OrdersOK o') (hwf : StmtsWF stmts) :
    (∃ p, Program.new fl cls o y86FixedFunctions stmts = .ok p) ↔
    (∃ p', Program.new fl cls o' y86FixedFunctions (stmts.map (Stmt.rename π)) = .ok p') :=
  Program_new_rename_verdict fl cls o o' stmts π π' hl hr hfix ho ho' hwf

/-- more precisely: under the iteration order transported along `π` the constructor returns exactly the renamed result --
    the renamed program, or the same diagnostics about the renamed names -/
theorem C12_rename_exact (fl : Flags) (cls : CharClass) (o : Orders) (stmts : List Stmt) (π π' : String → String)
    (hl : ∀ n, π' (π n) = n) (hr : ∀ n, π (π' n) = n) (hfix : Fixes π stmts) :
    Program.new fl cls (o.tr π π') y86FixedFunctions (stmts.map (Stmt.rename π)) =
      crn π (Program.rename π) (Program.new fl cls o y86FixedFunctions stmts) :=
  Program_new_rename_exact fl cls o stmts π π' hl hr hfix

/-- one cycle: from states that show the same (wire `π n` of the renamed program holding what wire `n` of the original
    holds; same registers, memory, cycle count, status) to states that show the same -/
theorem C12_rename_cycle (fl : Flags) (cls : CharClass) (o o' : Orders) (stmts : List Stmt) (π π' : String → String)
    (hl : ∀ n, π' (π n) = n) (hr : ∀ n, π (π' n) = n)
    (hfix : Fixes π stmts) (ho : OrdersOK o) (ho' : OrdersOK o') (hwf : StmtsWF stmts) (p p' : Program)
    (hp : Program.new fl cls o y86FixedFunctions stmts = .ok p)
    (hp' : Program.new fl cls o' y86FixedFunctions (stmts.map (Stmt.rename π)) = .ok p')
    (s s' t t' : State) (hs : RenamedState π s s')
    (hc : stepCycle fl p s = .ok t) (hc' : stepCycle fl p' s' = .ok t') : RenamedState π t t' :=
  Program_new_rename_cycle fl cls o o' stmts π π' hl hr hfix ho ho' hwf p p' hp hp' s s' t t' hs hc hc'

/-- whole runs on the same memory image: the initial states show the same and so do the final states -/
theorem C12_rename_run (fl : Flags) (cls : CharClass) (o o' : Orders) (stmts : List Stmt) (π π' : String → String)
    (hl : ∀ n, π' (π n) = n) (hr : ∀ n, π (π' n) = n)
    (hfix : Fixes π stmts) (ho : OrdersOK o) (ho' : OrdersOK o') (hwf : StmtsWF stmts) (p p' : Program)
    (hp : Program.new fl cls o y86FixedFunctions stmts = .ok p)
    (hp' : Program.new fl cls o' y86FixedFunctions (stmts.map (Stmt.rename π)) = .ok p')
    (mem : Mem) (timeout fuel : Nat) (s s' t t' : State)
    (hi₁ : State.init p mem = .ok s) (hi₂ : State.init p' mem = .ok s')
    (hr₁ : runLoop fl p timeout fuel s = some (.ok t)) (hr₂ : runLoop fl p' timeout fuel s' = some (.ok t')) :
    RenamedState π s s' ∧ RenamedState π t t' :=
  Program_new_rename_run fl cls o o' stmts π π' hl hr hfix ho ho' hwf p p' hp hp' mem timeout fuel s s' t t' hi₁ hi₂ hr₁ hr₂

#print axioms C12_rename_run
#print axioms C12_rename_exact
