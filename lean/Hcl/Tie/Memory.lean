import Hcl.Generated

/-! Tie between the tables extracted from /repo on this run (`Hcl/Generated.lean`) and the values the
    hand-written model was validated against.  A change of the source shows up as a failing `rfl` here. -/

namespace Tie.Memory

theorem memoryReadText : Generated.memoryReadText = ("assert!(bytes <= 16); let mut result = 0; let mut remaining = bytes; let total = remaining; let mut cur_addr = address; debug!(\"reading {:#x} ({:?} bytes)\", address, bytes); while remaining > 0 { result |= (*self.data.get(&cur_addr).unwrap_or(&0) as u128) << ((total - remaining) * 8); debug!(\"reading {:#x}; accumulated result is {:#x}\", cur_addr, result); cur_addr = cur_addr.wrapping_add(1); remaining -= 1; } WireValue { bits: result, width: WireWidth::Bits(bytes * 8) }" : String) := by rfl

theorem memoryWriteText : Generated.memoryWriteText = ("assert!(bytes <= 16); let mut remaining = bytes; let total = remaining; let mut cur_addr = address; debug!(\"write {:#x} ({:?} bytes) into {:#x}\", value, bytes, address); while remaining > 0 { let to_write = (value >> ((total - remaining) * 8)) as u8; debug!(\"writing {:#x} into {:#x}\", to_write, cur_addr); self.data.insert(cur_addr, to_write); cur_addr = cur_addr.wrapping_add(1); remaining -= 1; }" : String) := by rfl

end Tie.Memory
