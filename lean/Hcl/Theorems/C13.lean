import Hcl.Proofs.NoPanicStages
import Hcl.Theorems.C07
import Hcl.Proofs.LexTotal
import Hcl.Proofs.RegionTotal
import Hcl.Generated

/-!
# C13 — any input text yields diagnostics or a run, never a crash or a hang

What is proved about the models (the lexer of lexer.rs and the location rendering of io.rs — the two places
the property's anchors name where the code does its own byte arithmetic on arbitrary input):

* the lexer's loop consumes input on every turn, so it ends (`C13_lexer_terminates`);
* rendering a located region never fails, whatever offsets an error carries (`C13_render_total`), in
  particular with the real preamble (`C13_render_total_y86`): every subtraction, table index and string slice
  of `show_region` / `line_number_and_bounds` / `filename` is in range and on a character boundary.

The LALRPOP automaton and `Program::new` are covered for this property by the correspondence streams
(S-TEXT, S-BYTES); see DESIGN.md for what is modelled rather than verified.
-/

/-- the lexer model never runs out of the fuel `length + 1`: one character at least is consumed per turn -/
theorem C13_lexer_terminates (cls : Lexer.CharCls) (input : List Char) :
    Lexer.Item.err .outOfFuel ∉ Lexer.lex cls input := Lexer.lex_terminates cls input

/-- every turn of the lexer's loop strictly shortens the remaining input -/
theorem C13_lexer_progress (cls : Lexer.CharCls) (total : Nat) (cs : List Char) (off : Nat) :
    Lexer.Progress cs (Lexer.lexStep cls total cs off) := Lexer.lexStep_progress cls total cs off

/-- rendering never panics: any preamble and user text (valid UTF-8, as Rust strings are), any two offsets -/
theorem C13_render_total (P U name : Bytes) (hP : Yo.validUtf8 P = true) (hU : Yo.validUtf8 U = true) (start end_ : Nat) :
    ∃ r, Io.showRegion (Io.newFromData P U name) start end_ = .ok r := Io.showRegion_total P U name hP hU start end_

theorem C13_preamble_utf8 : Yo.validUtf8 Generated.preambleBytes = true := by decide +kernel

theorem C13_render_total_y86 (U name : Bytes) (hU : Yo.validUtf8 U = true) (start end_ : Nat) :
    ∃ r, Io.showRegion (Io.newFromData Generated.preambleBytes U name) start end_ = .ok r :=
  Io.showRegion_total _ U name C13_preamble_utf8 hU start end_

/-- the line/bounds lookup is total on every position up to the end of the data -/
theorem C13_lookup_total (P U name : Bytes) (hP : Yo.validUtf8 P = true) (hU : Yo.validUtf8 U = true)
    (t : Nat) (ht : t ≤ (P ++ U).length) :
    ∃ n b nx, Io.lineNumberAndBounds (Io.newFromData P U name) t = .ok (n, b, nx) ∧ b ≤ t ∧ t ≤ nx :=
  let ⟨n, b, nx, h, h1, h2, _⟩ := Io.lineNumberAndBounds_total P U name hP hU t ht
  ⟨n, b, nx, h, h1, h2⟩

/-- **program construction never reports an internal error**: whatever diagnostics the model of `Program::new`
    returns — for every statement list with well-formed literals and widths, every flag set, every classification of
    bank letters and every iteration order of the hash tables — none of them is `InternalPanic`, the model's image of
    an `assert!`, an `unwrap()` on `None`, a `panic!` of the real code (which `parse_y86_hcl`'s `catch_unwind` would
    report as "Internal parser error") -/
theorem C13_construction_no_internal_error (fl : Flags) (cls : CharClass) (o : Orders) (stmts : List Stmt)
    (ho : OrdersOK o) (hwf : StmtsWF stmts) (ds : List Diag)
    (h : Program.new fl cls o y86FixedFunctions stmts = .error ds) : ∀ d ∈ ds, d.kind ≠ .InternalPanic :=
  Program_new_np fl cls o stmts ho hwf ds h

/-- and a rejection always carries at least one diagnostic kind from the documented list (never an empty report) is
    sampled (S-TEXT: `errors=1`); acceptance, on the other hand, implies a run that cannot fail (C07_accepted). -/
theorem C13_accepted_runs (fl : Flags) (cls : CharClass) (o : Orders) (stmts : List Stmt) (p : Program)
    (ho : OrdersOK o) (hwf : StmtsWF stmts)
    (h : Program.new fl cls o y86FixedFunctions stmts = .ok p) (mem : Mem) (hmem : mem.BytesOK) (n : Nat) :
    ∃ s0, State.init p mem = .ok s0 ∧
      ((∃ s', runN fl p n s0 = .ok s' ∧ s'.cycle = n) ∨ runN fl p n s0 = .error .divideByZero) :=
  C07_accepted fl cls o stmts p ho hwf h mem hmem n

#print axioms C13_construction_no_internal_error
