import Hcl.Model.Program
import Hcl.Graph.TopoSort

/-! Graphs as `Graph::insert` / `add_node` build them are well-formed inputs of the sorter, whatever order the
    hash tables are iterated in; consequences for `GBuild.sort`. -/

theorem mem_setInsert (s : List String) (k x : String) : x ∈ setInsert s k ↔ x ∈ s ∨ x = k := by
  unfold setInsert
  by_cases h : s.contains k = true
  · simp only [h, if_true]
    constructor
    · exact Or.inl
    · rintro (h1 | rfl)
      · exact h1
      · simpa using h
  · simp only [h]
    simp

theorem nodup_setInsert (s : List String) (k : String) (h : s.Nodup) : (setInsert s k).Nodup := by
  unfold setInsert
  by_cases hc : s.contains k = true
  · simp only [hc, if_true]; exact h
  · have hc' : s.contains k = false := by simpa using hc
    simp only [hc', Bool.false_eq_true, if_false]
    have : k ∉ s := by simpa using hc
    rw [List.nodup_append]
    refine ⟨h, by simp, ?_⟩
    intro a ha b hb
    simp at hb; subst hb
    intro e; subst e; exact this ha

theorem dedupS_aux (l acc : List String) : (∀ x, x ∈ l.foldl setInsert acc ↔ x ∈ acc ∨ x ∈ l) ∧
    (acc.Nodup → (l.foldl setInsert acc).Nodup) := by
  induction l generalizing acc with
  | nil => simp
  | cons a l ih =>
    simp only [List.foldl_cons]
    obtain ⟨h1, h2⟩ := ih (setInsert acc a)
    refine ⟨?_, fun h => h2 (nodup_setInsert _ _ h)⟩
    intro x
    rw [h1, mem_setInsert]
    simp only [List.mem_cons]
    constructor
    · rintro ((h | h) | h)
      · exact Or.inl h
      · exact Or.inr (Or.inl h)
      · exact Or.inr (Or.inr h)
    · rintro (h | h | h)
      · exact Or.inl (Or.inl h)
      · exact Or.inl (Or.inr h)
      · exact Or.inr h

theorem mem_dedupS (l : List String) (x : String) : x ∈ dedupS l ↔ x ∈ l := by
  unfold dedupS; rw [(dedupS_aux l []).1]; simp

theorem nodup_dedupS (l : List String) : (dedupS l).Nodup := (dedupS_aux l []).2 List.nodup_nil

theorem dedupS_of_nodup_aux (l acc : List String) (h : (acc ++ l).Nodup) : l.foldl setInsert acc = acc ++ l := by
  induction l generalizing acc with
  | nil => simp
  | cons a l ih =>
    simp only [List.foldl_cons]
    have ha : a ∉ acc := by
      rw [List.nodup_append] at h
      intro hm
      exact h.2.2 a hm a (by simp) rfl
    have : setInsert acc a = acc ++ [a] := by
      unfold setInsert
      have : ¬ acc.contains a = true := by simpa using ha
      simp only [this]
      simp
    rw [this, ih]
    · simp
    · simpa using h

theorem dedupS_of_nodup (l : List String) (h : l.Nodup) : dedupS l = l := by
  unfold dedupS
  have := dedupS_of_nodup_aux l [] (by simpa using h)
  simpa using this

theorem nodup_map_of_inj {α β : Type} (f : α → β) (l : List α) (h : l.Nodup)
    (hinj : ∀ a ∈ l, ∀ b ∈ l, f a = f b → a = b) : (l.map f).Nodup := by
  induction l with
  | nil => simp
  | cons a l ih =>
    rw [List.nodup_cons] at h
    rw [List.map_cons, List.nodup_cons]
    refine ⟨?_, ih h.2 (fun x hx y hy => hinj x (List.mem_cons_of_mem _ hx) y (List.mem_cons_of_mem _ hy))⟩
    intro hm
    obtain ⟨b, hb, hfb⟩ := List.mem_map.mp hm
    have := hinj b (List.mem_cons_of_mem _ hb) a List.mem_cons_self hfb
    subst this
    exact h.1 hb

theorem sum_map_zero {α : Type} (l : List α) (f : α → Nat) (h : ∀ x ∈ l, f x = 0) : (l.map f).sum = 0 := by
  induction l with
  | nil => rfl
  | cons a l ih =>
    simp only [List.map_cons, List.sum_cons]
    rw [h a List.mem_cons_self, ih (fun x hx => h x (List.mem_cons_of_mem _ hx))]

structure OrdersOK (o : Orders) : Prop where
  nodes : ∀ l, (o.nodes l).Perm l
  succ : ∀ u l, (o.succ u l).Perm l
  dnodes : ∀ l, (o.dnodes l).Perm l
  dsucc : ∀ u l, (o.dsucc u l).Perm l

structure GBuild.WF (g : GBuild) : Prop where
  nodesNodup : g.nodes.Nodup
  edgesNodup : g.edges.Nodup
  closed : ∀ e ∈ g.edges, e.1 ∈ g.nodes ∧ e.2 ∈ g.nodes

theorem GBuild.mem_succOf (g : GBuild) (u v : Node) : v ∈ g.succOf u ↔ (u, v) ∈ g.edges := by
  unfold GBuild.succOf
  rw [mem_dedupS, List.mem_map]
  constructor
  · rintro ⟨e, he, rfl⟩
    rw [List.mem_filter] at he
    have : e.1 = u := by simpa using he.2
    rw [← this]; exact he.1
  · intro h
    exact ⟨(u, v), by rw [List.mem_filter]; exact ⟨h, by simp⟩, rfl⟩

theorem GBuild.mem_predOf (g : GBuild) (u v : Node) : u ∈ g.predOf v ↔ (u, v) ∈ g.edges := by
  unfold GBuild.predOf
  rw [mem_dedupS, List.mem_map]
  constructor
  · rintro ⟨e, he, rfl⟩
    rw [List.mem_filter] at he
    have : e.2 = v := by simpa using he.2
    rw [← this]; exact he.1
  · intro h
    exact ⟨(u, v), by rw [List.mem_filter]; exact ⟨h, by simp⟩, rfl⟩

/-- with distinct edges, the successor list of `u` has one entry per edge leaving `u` -/
theorem GBuild.succOf_length (g : GBuild) (h : g.edges.Nodup) (u : Node) :
    (g.succOf u).length = (g.edges.filter (fun e => e.1 == u)).length := by
  unfold GBuild.succOf
  rw [dedupS_of_nodup, List.length_map]
  -- the second components of the edges leaving u are distinct
  have hf : (g.edges.filter (fun e => e.1 == u)).Nodup := h.filter _
  apply nodup_map_of_inj _ _ hf
  intro a ha b hb hab
  rw [List.mem_filter] at ha hb
  have h1 : a.1 = u := by simpa using ha.2
  have h2 : b.1 = u := by simpa using hb.2
  exact Prod.ext (h1.trans h2.symm) hab

theorem count_edges (nodes : List Node) (edges : List (Node × Node)) (hn : nodes.Nodup)
    (hc : ∀ e ∈ edges, e.1 ∈ nodes) :
    (nodes.map (fun u => (edges.filter (fun e => e.1 == u)).length)).sum = edges.length := by
  induction edges with
  | nil => simpa using sum_map_zero nodes (fun _ => 0) (fun _ _ => rfl)
  | cons e edges ih =>
    have ih' := ih (fun x hx => hc x (List.mem_cons_of_mem _ hx))
    have he : e.1 ∈ nodes := hc e List.mem_cons_self
    -- filtering (e :: edges) adds one exactly for u = e.1
    have : ∀ u, ((e :: edges).filter (fun x => x.1 == u)).length =
        (edges.filter (fun x => x.1 == u)).length + (if e.1 = u then 1 else 0) := by
      intro u
      rw [List.filter_cons]
      by_cases h : e.1 = u
      · simp [h]
      · have : (e.1 == u) = false := by simpa using h
        simp [this, h]
    simp only [this, List.length_cons]
    have hsum : ∀ (l : List Node) (f g : Node → Nat), (l.map (fun u => f u + g u)).sum = (l.map f).sum + (l.map g).sum := by
      intro l f g
      induction l with
      | nil => simp
      | cons a l ihl => simp only [List.map_cons, List.sum_cons, ihl]; omega
    rw [hsum, ih']
    -- the indicator sums to one
    have hone : ∀ (l : List Node), l.Nodup → e.1 ∈ l → (l.map (fun u => if e.1 = u then 1 else 0)).sum = 1 := by
      intro l
      induction l with
      | nil => intro _ h; simp at h
      | cons a l ihl =>
        intro hnd hmem
        rw [List.nodup_cons] at hnd
        simp only [List.map_cons, List.sum_cons]
        by_cases h : e.1 = a
        · have hz : (l.map (fun u => if e.1 = u then 1 else 0)).sum = 0 := by
            apply sum_map_zero
            intro y hy
            have : ¬ e.1 = y := by intro e2; apply hnd.1; rw [← h, e2]; exact hy
            simp [this]
          rw [hz]; simp [h]
        · have : e.1 ∈ l := by
            rcases List.mem_cons.mp hmem with h2 | h2
            · exact absurd h2 h
            · exact h2
          rw [ihl hnd.2 this]; simp [h]
    rw [hone nodes hn he]

theorem GBuild.kgraph_wf (g : GBuild) (o : Orders) (wf : g.WF) (ho : OrdersOK o) : KWF (g.kgraph o) where
  nodesNodup := (ho.nodes g.nodes).nodup_iff.mpr wf.nodesNodup
  succNodup := fun u => (ho.succ u _).nodup_iff.mpr (nodup_dedupS _)
  predsNodup := fun v => nodup_dedupS _
  inv := by
    intro u v
    show v ∈ o.succ u (g.succOf u) ↔ u ∈ g.predOf v
    rw [(ho.succ u _).mem_iff, g.mem_succOf, g.mem_predOf]
  closed := by
    intro u v h
    have h' : v ∈ o.succ u (g.succOf u) := h
    rw [(ho.succ u _).mem_iff, g.mem_succOf] at h'
    have := wf.closed _ h'
    exact ⟨(ho.nodes _).mem_iff.mpr this.1, (ho.nodes _).mem_iff.mpr this.2⟩
  numEdges := by
    show g.edges.length = ((o.nodes g.nodes).map (fun u => (o.succ u (g.succOf u)).length)).sum
    have h1 : ((o.nodes g.nodes).map (fun u => (o.succ u (g.succOf u)).length)) =
        ((o.nodes g.nodes).map (fun u => (g.edges.filter (fun e => e.1 == u)).length)) := by
      apply List.map_congr_left
      intro u _
      rw [(ho.succ u _).length_eq, g.succOf_length wf.edgesNodup]
    rw [h1, ((ho.nodes g.nodes).map _).sum_nat]
    exact (count_edges g.nodes g.edges wf.nodesNodup (fun e he => (wf.closed e he).1)).symm

theorem GBuild.same (g : GBuild) (o : Orders) (wf : g.WF) (ho : OrdersOK o) : SameGraph (g.kgraph o) (g.dgraph o) where
  nodes := by
    intro x
    show x ∈ o.dnodes g.nodes ↔ x ∈ o.nodes g.nodes
    rw [(ho.dnodes _).mem_iff, (ho.nodes _).mem_iff]
  nodup := (ho.dnodes g.nodes).nodup_iff.mpr wf.nodesNodup
  succ := by
    intro u v
    show v ∈ o.dsucc u (g.succOf u) ↔ v ∈ o.succ u (g.succOf u)
    rw [(ho.dsucc u _).mem_iff, (ho.succ u _).mem_iff]

/-- **the sorter on a graph built by the program never panics** and its `ok` answer lists every node once,
    every edge's source before its target -/
theorem GBuild.sort_spec (g : GBuild) (o : Orders) (wf : g.WF) (ho : OrdersOK o) :
    (∃ order, g.sort o = .ok order ∧ order.Nodup ∧ (∀ x, x ∈ order ↔ x ∈ g.nodes) ∧
        ∀ pre x post, order = pre ++ x :: post → ∀ u, (u, x) ∈ g.edges → u ∈ pre) ∨
    (∃ c, g.sort o = .cycle c ∧ IsCycle (g.dgraph o) c) := by
  rcases topologicalSort_spec (g.kgraph o) (g.dgraph o) (g.kgraph_wf o wf ho) (g.same o wf ho) with
    ⟨order, h1, h2, h3, h4⟩ | ⟨c, h1, h2⟩
  · left
    refine ⟨order, h1, h2, ?_, ?_⟩
    · intro x; rw [h3]; exact (ho.nodes _).mem_iff
    · intro pre x post hsplit u hu
      exact h4 pre x post hsplit u ((g.mem_predOf u x).mpr hu)
  · right; exact ⟨c, h1, h2⟩

theorem GBuild.sort_ne_panic (g : GBuild) (o : Orders) (wf : g.WF) (ho : OrdersOK o) : g.sort o ≠ .panic := by
  rcases g.sort_spec o wf ho with ⟨order, h, _⟩ | ⟨c, h, _⟩ <;> rw [h] <;> simp

/-! ### well-formedness is kept by `add_node` and `insert` -/

theorem GBuild.wf_empty : ({} : GBuild).WF := ⟨List.nodup_nil, List.nodup_nil, by intro e he; simp at he⟩

theorem GBuild.wf_addNode (g : GBuild) (n : Node) (wf : g.WF) : (g.addNode n).WF where
  nodesNodup := nodup_setInsert _ _ wf.nodesNodup
  edgesNodup := wf.edgesNodup
  closed := by
    intro e he
    have := wf.closed e he
    exact ⟨(mem_setInsert _ _ _).mpr (Or.inl this.1), (mem_setInsert _ _ _).mpr (Or.inl this.2)⟩

theorem GBuild.wf_insert (g : GBuild) (a b : Node) (wf : g.WF) (hnew : (a, b) ∉ g.edges) : (g.insert a b).WF where
  nodesNodup := nodup_setInsert _ _ (nodup_setInsert _ _ wf.nodesNodup)
  edgesNodup := by
    show (g.edges ++ [(a, b)]).Nodup
    rw [List.nodup_append]
    refine ⟨wf.edgesNodup, by simp, ?_⟩
    intro x hx y hy
    simp at hy; subst hy
    intro e; subst e; exact hnew hx
  closed := by
    intro e he
    have he' : e ∈ g.edges ++ [(a, b)] := he
    show e.1 ∈ setInsert (setInsert g.nodes a) b ∧ e.2 ∈ setInsert (setInsert g.nodes a) b
    rw [mem_setInsert, mem_setInsert, mem_setInsert, mem_setInsert]
    rcases List.mem_append.mp he' with h | h
    · have := wf.closed e h
      exact ⟨Or.inl (Or.inl this.1), Or.inl (Or.inl this.2)⟩
    · simp at h; subst h
      exact ⟨Or.inl (Or.inr rfl), Or.inr rfl⟩
