import Hcl.Generated

/-! Tie between the tables extracted from /repo on this run (`Hcl/Generated.lean`) and the values the
    hand-written model was validated against.  A change of the source shows up as a failing `rfl` here. -/

namespace Tie.Banks

theorem processBanksText : Generated.processBanksText = ("for bank in &self.register_banks { let stalled = values.get(&bank.stall_signal).unwrap().is_true(); let bubbled = values.get(&bank.bubble_signal).unwrap().is_true(); if bubbled { debug!(\"bubble {}\", bank.bubble_signal); for (k, v) in &bank.defaults { *values.get_mut(k).unwrap() = *v; } } else if !stalled { for signal in &bank.signals { let in_name = &signal.0; let out_name = &signal.1; debug!(\"copy {} -> {}\", in_name, out_name); let new_value = *values.get(in_name).unwrap(); *values.get_mut(out_name).unwrap() = new_value; } } } Ok(())" : String) := by rfl

theorem bankOrder : Generated.bankOrder = (['P', 'F', 'D', 'E', 'M', 'W'] : List Char) := by rfl

end Tie.Banks
