"""C19 — the command line reports success and failure through its exit status."""
import os
import framework as fw
import cli_stream

THEOREM_MODULES = ["Hcl.Theorems.C19", "Hcl.Theorems.C19Argv", "Hcl.Tie.Cli", "Hcl.Tie.PinsMain", "Hcl.Theorems.C19Bytes", "Hcl.Tie.Run", "Hcl.Tie.PinsRun"]
THEOREMS = {"Hcl.Tie.PinsRun": ["Tie.PinsRun.pinRun", "Tie.PinsRun.pinSetTimeout", "Tie.PinsRun.pinTimedOut"],
            "Hcl.Tie.Run": ["Tie.Run.doneText", "Tie.Run.defaultTimeout"],
            "Hcl.Theorems.C19Bytes": ["C19_argv_bytes_not_utf8", "C19_argv_bytes_utf8", "C19_argv_bytes_status"],
            "Hcl.Theorems.C19": ["C19_exit", "C19_option_error", "C19_output_matches_status", "C19_check_simulates_nothing"],
            "Hcl.Theorems.C19Argv": ["C19_argv_exit", "C19_argv_option_error", "C19_argv_option_error_anywhere", "C19_argv_option_twice", "C19_argv_timeout", "C19_argv_bad_timeout", "C19_argv_options_commute", "C19Argv.parse_error_iff", "C19Argv.parse_ok", "C19Argv.optPresent_iff", "C19Argv.isBad_iff", "C19Argv.help_present_iff", "C19Argv.parseU32_iff"],
            "Hcl.Tie.Cli": ["Tie.Cli.cliOptions", "Tie.Cli.cliDefaultTimeout", "Tie.Cli.cliYoSuffix"],
            "Hcl.Tie.PinsMain": ["Tie.PinsMain.pinMainReal", "Tie.PinsMain.pinRunY86"]}

RULE = ("S-CLI: the real binary (cargo build of /repo's working tree) is run on random argument vectors: 0-3 options from the "
        "documented set in short/long spelling incl. unknown and repeated ones, placed before or among 0-4 positionals; HCL file "
        "{halting, non-halting, error status, run-time division by zero, rejected, syntax error, missing, directory}; image "
        "{valid, malformed, empty, missing, wrong extension, directory}; timeout {0,1,2,3,5,9999,2^32-1,2^32,-1,abc,empty,+3,"
        "' 3','3 ',0x10,1e3,10^20}. Observed: exit status, which of usage/version/'syntax OK'/final state/diagnostics is "
        "printed on which channel, executed cycles and banner of the final report. Compared with the Lean model "
        "Cli.mainReal (correspondence) and with the specification (exit 0 iff what was asked was done; no final state and a "
        "message on failure; exactly timeout cycles, default 9999). distinct = distinct argument vectors.")

_binary = {}


def pygen(seed, count, outfile):
    if "b" not in _binary:
        ok, out, b = fw.build_binary()
        if not ok:
            raise RuntimeError("cargo build of /repo failed: " + out[-1500:])
        _binary["b"] = b
    cli_stream.generate(_binary["b"], seed, count, outfile, os.path.join(fw.BUILD, "cli-work-%d" % os.getpid()))


def judge(req, impl, model, spec):
    cats = [impl.split(" ")[1] if " " in impl else impl]
    ok = True
    what = ""
    ie = impl.split(" ")[0]
    # the verdict of the driver on the generator's bookkeeping: the fields of the request that say what the argument
    # vector means (computed in Python) against the ones the Lean model Getopts.parse / Cli.inputOf derives from (argv ..)
    spec, _, verdict = spec.partition("\x00")
    fields_ok = ("(argv" not in req) or verdict.strip() == "argv-fields-agree"
    if ie != spec.strip():
        ok = False
        what = "exit status %s but the specification says %s for %s" % (ie, spec, req[req.find("(args"):][:200])
    for flag in ("STDERR-ON-SUCCESS", "SILENT-FAILURE", "BAD-STATUS", "STATE-ON-FAILURE"):
        if flag in impl:
            ok = False
            what = flag + " for " + req[req.find("(args"):][:200]
    if "out=finalState" in impl:
        cats.append(impl.split("banner=")[1])
        # "simulated to halt, error status or timeout ... The timeout argument is honoured exactly": the number of cycles and
        # the kind of final report the generator expects from the program's own stopping cycle and the timeout (its tables
        # STOP / ABORT_AT, independent of the Lean model) against what was printed
        import re as _re
        want_c = _re.search(r"\(cycles ([^)]*)\)", req)
        want_b = _re.search(r"\(banner ([^)]*)\)", req)
        got_c = impl.split("cycles=")[1].split(" ")[0] if "cycles=" in impl else "-"
        got_b = impl.split("banner=")[1].split(" ")[0]
        if want_c and want_b and (want_c.group(1) != got_c or want_b.group(1) != got_b) and "(run finished)" in req:
            ok = False
            what = "the final report says %s after %s cycles, the program and the timeout give %s after %s cycles, for %s" % (
                got_b, got_c, want_b.group(1), want_c.group(1), req[req.find("(args"):][:200])
    if "out=optionMessage" in impl:
        cats.append("getopts:" + bytes.fromhex(impl.split("msg=x")[1].split(" ")[0]).decode("utf-8", "replace").split("'")[0].strip() if "msg=x" in impl else "getopts")
    return {"corr": impl == model and fields_ok, "oracle": ok, "what": what, "key": req[req.find("(args"):], "cats": cats}


def streams(tier, seed):
    q = tier == "quick"
    return [{"name": "cli", "stream": "cli", "count": 1200 if q else 30000, "pygen": pygen, "judge": judge}]
