#!/usr/bin/env python3
"""Confirm a sub-agent's mutation in its scratch worktree, keep it under /verif/seeded/<id>/, and run
the checks of the given properties against it (applied to /repo, undone straight afterwards).

usage: seed_mutation.py <worktree> <MUTdir> <seed-id> <property> [more properties to run ...]
"""
import json
import os
import shutil
import subprocess
import sys

VERIF = os.path.dirname(os.path.dirname(os.path.abspath(__file__)))


def sh(cmd, cwd=None, timeout=3600):
    env = dict(os.environ, CARGO_NET_OFFLINE="true")
    p = subprocess.run(cmd, shell=True, cwd=cwd, env=env, stdout=subprocess.PIPE, stderr=subprocess.STDOUT, timeout=timeout)
    return p.returncode, p.stdout.decode("utf-8", "replace")


def main():
    wt, mutdir, sid, prop = sys.argv[1:5]
    props = sys.argv[4:]
    mdir = os.path.join(wt, mutdir)
    patch = os.path.join(mdir, "patch.diff")
    ran = []
    # 1. confirm in the scratch worktree
    sh("git checkout -- src", cwd=wt)
    rc, out = sh("git apply --check %s" % patch, cwd=wt)
    if rc != 0:
        print("patch does not apply:", out)
        return 1
    sh("git apply %s" % patch, cwd=wt)
    rc_t, out_t = sh("CARGO_TARGET_DIR=%s/target cargo test --offline 2>&1 | grep -E '^test result' " % wt, cwd=wt)
    tests_ok = "FAILED" not in out_t and "failed; " in out_t and all(" 0 failed" in l for l in out_t.splitlines() if l.startswith("test result"))
    ran.append("with change: cargo test --offline -> %s" % ("all passed" if tests_ok else "FAILURES: " + out_t[-300:]))
    rc_h, _ = sh("CARGO_TARGET_DIR=%s/target cargo build --offline --features verif-hooks 2>&1 | tail -1" % wt, cwd=wt)
    rc_d, out_d = sh("bash ./run.sh", cwd=mdir) if os.path.exists(os.path.join(mdir, "run.sh")) else (None, "no run.sh")
    ran.append("with change: demonstration exit status %s" % rc_d)
    sh("git checkout -- src", cwd=wt)
    rc_c, out_c = sh("bash ./run.sh", cwd=mdir) if os.path.exists(os.path.join(mdir, "run.sh")) else (None, "no run.sh")
    ran.append("without change: demonstration exit status %s" % rc_c)
    confirmed = tests_ok and rc_d not in (0, None) and rc_c == 0
    print("confirmed" if confirmed else "NOT CONFIRMED", ran)
    if not confirmed:
        return 1
    # 2. keep it
    dest = os.path.join(VERIF, "seeded", sid)
    os.makedirs(dest, exist_ok=True)
    for f in os.listdir(mdir):
        if os.path.isfile(os.path.join(mdir, f)):
            shutil.copy(os.path.join(mdir, f), os.path.join(dest, f))
    meta = {}
    try:
        meta = json.load(open(os.path.join(mdir, "meta.json")))
    except Exception:
        pass
    meta["property"] = prop
    meta["confirmed_by_me"] = ran
    # 3. run the checks against it
    rc, out = sh("git -C /repo apply %s" % patch)
    results = {}
    if rc != 0:
        results["apply"] = "patch does not apply to /repo: " + out[-300:]
    else:
        try:
            for p in props:
                rc, out = sh("./check %s --tier quick" % p, cwd=VERIF, timeout=7200)
                viol = [l for l in out.splitlines() if l.startswith("VIOLATION") or l.startswith("OBLIGATION-BROKEN")]
                results[p] = {"exit": rc, "lines": [v[:400] for v in viol[:6]]}
                print(p, "exit", rc, viol[:2])
                # keep the replay of a detection next to the seed
                for v in viol:
                    if v.startswith("VIOLATION") and "replay=" in v:
                        rp = v.split("replay=")[1].split()[0]
                        src = os.path.join(VERIF, rp)
                        if os.path.exists(src):
                            shutil.copy(src, os.path.join(dest, "replay-%s.json" % p))
        finally:
            sh("git -C /repo checkout -- .")
    meta["checks_run"] = results
    meta["detected_by"] = sorted(p for p, r in results.items() if isinstance(r, dict) and r["exit"] != 0)
    json.dump(meta, open(os.path.join(dest, "meta.json"), "w"), indent=1)
    # evidence files were rewritten by runs against the mutated tree: restore them from git
    sh("git checkout -- evidence", cwd=VERIF)
    print("detected by:", meta["detected_by"])
    return 0


sys.exit(main())
