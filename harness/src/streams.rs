//! Correspondence streams built from the generators.
use crate::gen;
use crate::proggen::{self, Profile};
use crate::progrun::{run_program, run_program_rep, run_to_end};
use crate::rng::Rng;

type Emit<'a> = &'a mut dyn FnMut(String, String);

/// S-EXPR: one type-directed expression assigned to a wire, operands driven by constants, one cycle.
pub fn expr(rng: &mut Rng, count: u64, mutate: bool, emit: Emit) {
    for _ in 0..count {
        let depth = rng.range(1, 5) as u32;
        let (prog, _sc) = gen::expr_program(rng, depth, mutate);
        let out = run_program(&prog.text, 1, &[], &format!("(text {})", sexp_escape(&prog.text)));
        match out.request {
            Some(req) => emit(req, out.result),
            None => emit(format!("(noparse {})", sexp_escape(&prog.text)), out.result),
        }
    }
}

/// program text as a single atom: whitespace and parentheses are replaced so that the S-expression
/// reader of the driver skips it (it is there for the human reading a replay)
pub fn sexp_escape(text: &str) -> String {
    text.chars().map(|c| match c { ' ' | '\n' | '\t' | '\r' => '␣', '(' => '⦅', ')' => '⦆', c => c }).collect()
}

pub fn profile_of(name: &str) -> Profile {
    match name { "banks" => Profile::Banks, "regfile" => Profile::RegFile, "memory" => Profile::Memory,
                 "status" => Profile::Status, _ => Profile::Dag }
}

/// S-PROG: whole programs, stepped several cycles
pub fn prog(rng: &mut Rng, count: u64, profile: &str, emit: Emit) {
    for _ in 0..count {
        let g = proggen::program(rng, profile_of(profile));
        let text = proggen::render_program(&g.stmts);
        let repeats: u32 = std::env::var("VERIF_REPEATS").ok().and_then(|x| x.parse().ok()).unwrap_or(4);
        let out = run_program_rep(&text, g.cycles, &g.mem, &format!("(tags {}) (text {})", g.tags.join(" "), sexp_escape(&text)), repeats);
        match out.request {
            Some(req) => emit(req, out.result),
            None => emit(format!("(noparse {})", sexp_escape(&text)), out.result),
        }
    }
}

/// S-PROG with one injected fault (C09) or loop (C10); the injected name is passed along
pub fn prog_faulty(rng: &mut Rng, count: u64, kind: &str, emit: Emit) {
    for _ in 0..count {
        let profile = *rng.pick(&[Profile::Dag, Profile::Banks, Profile::RegFile, Profile::Memory]);
        let mut g = proggen::program(rng, profile);
        let (what, name) = if kind == "loop" { proggen::inject_loop(rng, &mut g) } else { proggen::inject_fault(rng, &mut g) };
        let text = proggen::render_program(&g.stmts);
        let out = run_program(&text, 2, &g.mem, &format!("(inject {} {}) (text {})", what, name, sexp_escape(&text)));
        match out.request {
            Some(req) => emit(req, out.result),
            None => emit(format!("(noparse {})", sexp_escape(&text)), out.result),
        }
    }
}

/// S-PROG status profile driven through `run()` with a timeout: when does it stop and what does it report
pub fn run(rng: &mut Rng, count: u64, emit: Emit) {
    for _ in 0..count {
        let g = proggen::program(rng, Profile::Status);
        let text = proggen::render_program(&g.stmts);
        let timeout = match rng.below(6) { 0 => 0, 1 => 1, _ => rng.below(15) as u32 };
        let out = run_to_end(&text, timeout, &g.mem, &format!("(text {})", sexp_escape(&text)));
        match out.request {
            Some(req) => emit(req, out.result),
            None => emit(format!("(noparse {})", sexp_escape(&text)), out.result),
        }
    }
}

/// S-DISASM: all first-two-byte combinations, a few immediates each, through the real disassembler
pub fn disasm(rng: &mut Rng, count: u64, emit: Emit) {
    // count = number of immediates per (b0, b1)
    for b0 in 0u128..256 {
        for b1 in 0u128..256 {
            for k in 0..count {
                let imm: u128 = match k { 0 => 0, 1 => 1, 2 => 1u128 << 63, 3 => (1u128 << 64) - 1, _ => rng.next() as u128 };
                // jXX/call take the immediate from byte 1 on; the others from byte 2 on: fill both views
                let value = b0 | (b1 << 8) | (imm << 16);
                let value = value & ((1u128 << 80) - 1);
                let (n, text) = hclrs::verif_hooks::disassemble_to_string(value);
                emit(format!("(disasm {})", value), format!("{}|{}", n, text));
            }
        }
    }
}

/// the `pc = ...; loaded [...]` line of real runs
pub fn trace(rng: &mut Rng, count: u64, emit: Emit) {
    use std::fmt::Write;
    for _ in 0..count {
        let pc: u64 = match rng.below(4) { 0 => rng.below(64), 1 => u64::MAX - rng.below(12), _ => rng.next() };
        let mut mem: Vec<(u64, u8)> = Vec::new();
        for i in 0..10u64 {
            if rng.chance(9, 10) {
                let b = if i == 0 { ((rng.below(13) << 4) | rng.below(8)) as u8 } else { rng.below(256) as u8 };
                mem.push((pc.wrapping_add(i), b));
            }
        }
        let text = format!("pc = 0x{:x}; Stat = STAT_HLT;\n", pc);
        let contents = hclrs::FileContents::new_from_data(hclrs::verif_hooks::y86_preamble(), &text, "t.hcl");
        let line = match hclrs::parse_y86_hcl(&contents) {
            Err(_) => String::from("rejected"),
            Ok(program) => {
                let mut rp = hclrs::RunningProgram::new_y86(program);
                rp.verif_set_memory(&mem);
                let mut out: Vec<u8> = Vec::new();
                match rp.step_with_output(&mut out) {
                    Ok(()) => String::from_utf8_lossy(&out).lines().find(|l| l.starts_with("pc = ")).unwrap_or("no-line").to_string(),
                    Err(_) => String::from("step-error"),
                }
            }
        };
        let mut req = format!("(trace {} (mem", pc);
        for (a, b) in &mem { write!(req, " ({} {})", a, b).unwrap(); }
        req.push_str("))");
        emit(req, line);
    }
}
