import Hcl.Proofs.NoLoop
import Hcl.Proofs.NoPanicStages

/-! The model of `Program::new` never reports an internal error (`WireLoop`: an `assert!`, `unwrap()` or
    `panic!` of the real code, which the parser's `catch_unwind` would turn into "Internal parser error"). -/

theorem checkFixEval_nl (fl : Flags) (Γ : Ctx) (κ : Env) (e : Ex) (ds : List Diag)
    (hΓ : CtxOK Γ) (hon : EnvOn Γ κ (refs e)) (hwf : wfEx e = true) (h : checkFixEval fl Γ κ e = .error ds) :
    NoLoop ds := by
  unfold checkFixEval at h
  cases hc : check fl Γ κ e with
  | error ds' =>
    rw [hc] at h
    simp only [Except.error.injEq] at h
    subst h
    exact check_nl fl Γ κ e _ hc
  | ok w =>
    rw [hc] at h
    simp only at h
    obtain ⟨_, _, hcorr⟩ := ev_correct (fl := fl) (Γ := Γ) (κ := κ) (σ := κ) hΓ e w hon hwf hc
    cases hd : Spec.dv Γ (val κ) e with
    | none =>
      rw [hd] at hcorr
      simp only at hcorr
      rw [hcorr] at h
      simp only [Except.error.injEq] at h
      rw [← h]
      intro d hd'
      simp at hd'
      subst hd'
      simp [Err.toDiag]
    | some x =>
      rw [hd] at hcorr
      simp only at hcorr
      rw [hcorr.1] at h
      simp at h

/-! ### step 1 -/

section
variable (FN FO : List String)

theorem checkDoubleDeclare_nl (s : Step1) (name : String) (h : NoLoop s.errors) :
    NoLoop (checkDoubleDeclare FN s name).errors := by
  unfold checkDoubleDeclare
  apply noLoop_append h
  split
  · intro d hd; simp at hd; subst hd; simp
  · split
    · intro d hd; simp at hd; subst hd; simp
    · exact noLoop_nil

theorem step1Stmt_nl (s : Step1) (st : Stmt) (h : NoLoop s.errors) : NoLoop (step1Stmt FN FO s st).errors := by
  have fold_nl : ∀ {α : Type} (f : Step1 → α → Step1), (∀ s a, NoLoop s.errors → NoLoop (f s a).errors) →
      ∀ (l : List α) (s : Step1), NoLoop s.errors → NoLoop (l.foldl f s).errors := by
    intro α f hf l
    induction l with
    | nil => intro s hs; exact hs
    | cons a rest ih => intro s hs; exact ih _ (hf s a hs)
  cases st with
  | consts ds =>
    apply fold_nl (step1Const FN) _ ds s h
    intro s d hs
    exact checkDoubleDeclare_nl FN s d.name hs
  | wires ds =>
    apply fold_nl (step1Wire FN) _ ds s h
    intro s d hs
    exact checkDoubleDeclare_nl FN s d.name hs
  | assigns as =>
    apply fold_nl (step1Assign FO) _ as s h
    intro s a hs
    apply fold_nl (step1Name FO a.value) _ a.names s hs
    intro s n hs
    unfold step1Name
    apply noLoop_append hs
    split
    · intro d hd; simp at hd; subst hd; simp
    · split
      · intro d hd; simp at hd; subst hd; simp
      · exact noLoop_nil
  | bank b => exact h

theorem step1_fold_nl (stmts : List Stmt) (s : Step1) (h : NoLoop s.errors) :
    NoLoop (stmts.foldl (step1Stmt FN FO) s).errors := by
  induction stmts generalizing s with
  | nil => exact h
  | cons st rest ih => exact ih _ (step1Stmt_nl FN FO s st h)
end

/-! ### step 2: `resolve_constants` -/

theorem resolveLoop_nl (fl : Flags) (exprs : AMap Ex) (hwf : ∀ p ∈ exprs, wfEx p.2 = true) :
    ∀ (names : List String) (res : AMap WireValue) (errs : List Diag),
      (∀ n ∈ names, (exprs.get? n).isSome = true) → ConstOK res → NoLoop errs →
      NoLoop (resolveLoop fl exprs names res errs).2
  | [], _, _, _, _, he => he
  | name :: rest, res, errs, hn, hc, he => by
    unfold resolveLoop
    cases hg : exprs.get? name with
    | none =>
      have := hn name List.mem_cons_self
      rw [hg] at this; simp at this
    | some e =>
      simp only
      have hrest : ∀ n ∈ rest, (exprs.get? n).isSome = true := fun n h => hn n (List.mem_cons_of_mem _ h)
      obtain ⟨c1, c2⟩ := constCtx_ok res hc
      have hwfe := hwf (name, e) (AMap.mem_of_get? _ _ _ hg)
      cases hcf : checkFixEval fl (AMap.toCtx (res.map (fun p => (p.1, p.2.width)))) res.toEnv e with
      | error ds =>
        exact resolveLoop_nl fl exprs hwf rest res _ hrest hc
          (noLoop_append he (checkFixEval_nl fl _ _ e ds c1 (c2 _) hwfe hcf))
      | ok v =>
        exact resolveLoop_nl fl exprs hwf rest _ _ hrest
          (constOK_insert res name v hc (checkFixEval_ok fl _ _ e v c1 (c2 _) hwfe hcf)) he

/-! ### cycles of a relation -/

def RelPath (R : Node → Node → Prop) : List Node → Prop
  | [] => True
  | [_] => True
  | a :: b :: t => R a b ∧ RelPath R (b :: t)

/-- `c` is a cycle of the relation: each element is related to the next and the last to the first -/
def RelCycle (R : Node → Node → Prop) (c : List Node) : Prop :=
  match c with
  | [] => False
  | h :: _ => RelPath R c ∧ R (c.getLast!) h

theorem relPath_of_isPath (g : Graph) (R : Node → Node → Prop) (h : ∀ u v, v ∈ g.succ u → R u v) :
    ∀ c : List Node, IsPath g c → RelPath R c
  | [], _ => trivial
  | [_], _ => trivial
  | a :: b :: t, hp => ⟨h a b hp.1, relPath_of_isPath g R h (b :: t) hp.2⟩

theorem relCycle_of_isCycle (g : Graph) (R : Node → Node → Prop) (h : ∀ u v, v ∈ g.succ u → R u v) (c : List Node)
    (hc : IsCycle g c) : RelCycle R c := by
  cases c with
  | nil => exact hc
  | cons x t => exact ⟨relPath_of_isPath g R h _ hc.1, h _ _ hc.2⟩

theorem relCycle_mono {R S : Node → Node → Prop} (h : ∀ u v, R u v → S u v) : ∀ (c : List Node), RelCycle R c → RelCycle S c := by
  have hp : ∀ c : List Node, RelPath R c → RelPath S c := by
    intro c
    induction c with
    | nil => intro _; trivial
    | cons a t ih =>
      cases t with
      | nil => intro _; trivial
      | cons b t' => intro hh; exact ⟨h a b hh.1, ih hh.2⟩
  intro c hc
  cases c with
  | nil => exact hc
  | cons x t => exact ⟨hp _ hc.1, h _ _ hc.2⟩

/-- a cycle the sorter reports is a cycle of the graph's edge list -/
theorem GBuild.cycle_edges (g : GBuild) (o : Orders) (ho : OrdersOK o) (c : List Node) (hc : IsCycle (g.dgraph o) c) :
    RelCycle (fun u v => (u, v) ∈ g.edges) c := by
  apply relCycle_of_isCycle (g.dgraph o) _ _ c hc
  intro u v huv
  have : v ∈ o.dsucc u (g.succOf u) := huv
  rw [(ho.dsucc u _).mem_iff] at this
  exact (g.mem_succOf u v).mp this

/-- every edge of the constants' graph is a reference -/
theorem constGraphFrom_edges_rev : ∀ (l : List (String × Ex)) (g : GBuild),
    g.WF → (l.map (·.1)).Nodup → (∀ p ∈ l, ∀ e ∈ g.edges, e.2 ≠ p.1) →
    ∀ e ∈ (constGraphFrom l g).edges, e ∈ g.edges ∨ ∃ p ∈ l, e.2 = p.1 ∧ e.1 ∈ refs p.2
  | [], g, _, _, _, e, h => Or.inl h
  | p :: rest, g, wf, hnd, hfresh, e, h => by
    simp only [List.map_cons, List.nodup_cons] at hnd
    have hnew : ∀ s ∈ dedupS (refs p.2), (s, p.1) ∉ g.edges := by
      intro s _ hm
      exact hfresh p List.mem_cons_self (s, p.1) hm rfl
    obtain ⟨a1, _, a3⟩ := addDeps_spec [] p.1 (dedupS (refs p.2)) g wf (nodup_dedupS _) hnew
    have wf1 := (addDeps [] p.1 (dedupS (refs p.2)) g).wf_addNode p.1 a1
    have hfresh' : ∀ q ∈ rest, ∀ e ∈ ((addDeps [] p.1 (dedupS (refs p.2)) g).addNode p.1).edges, e.2 ≠ q.1 := by
      intro q hq e he
      have he' : e ∈ (addDeps [] p.1 (dedupS (refs p.2)) g).edges := he
      rcases (a3 e).mp he' with h | ⟨h, _, _⟩
      · exact hfresh q (List.mem_cons_of_mem _ hq) e h
      · rw [h]; intro e2
        exact hnd.1 (List.mem_map.mpr ⟨q, hq, e2.symm⟩)
    have hstep : constGraphFrom (p :: rest) g =
        constGraphFrom rest ((addDeps [] p.1 (dedupS (refs p.2)) g).addNode p.1) := rfl
    rw [hstep] at h
    rcases constGraphFrom_edges_rev rest _ wf1 hnd.2 hfresh' e h with h1 | ⟨q, hq, h1⟩
    · have h1' : e ∈ (addDeps [] p.1 (dedupS (refs p.2)) g).edges := h1
      rcases (a3 e).mp h1' with h2 | ⟨h2, h3, _⟩
      · exact Or.inl h2
      · exact Or.inr ⟨p, List.mem_cons_self, h2, (mem_dedupS _ _).mp h3⟩
    · exact Or.inr ⟨q, List.mem_cons_of_mem _ hq, h1⟩

/-- when the loop records no error, every name it was given has a value afterwards -/
theorem resolveConstants_nl (fl : Flags) (o : Orders) (exprs : AMap Ex) (ho : OrdersOK o)
    (hk : exprs.keys.Nodup) (hwf : ∀ p ∈ exprs, wfEx p.2 = true)
    (hrefs : ∀ p ∈ exprs, ∀ r ∈ refs p.2, exprs.contains r = true) :
    (∀ ds, resolveConstants fl o exprs = .error ds →
      NoLoop ds ∨ ∃ c, ds = [⟨.WireLoop, c⟩] ∧ RelCycle (fun u v => ∃ e, (v, e) ∈ exprs ∧ u ∈ refs e) c) ∧
    (∀ c, resolveConstants fl o exprs = .ok c → ∀ k ∈ exprs.keys, c.contains k = true) := by
  have gerev := constGraphFrom_edges_rev exprs {} GBuild.wf_empty hk (by intro p _ e he; simp at he)
  rw [← constGraph_eq] at gerev
  obtain ⟨gwf, gkeys, gupper⟩ := constGraphFrom_spec exprs {} GBuild.wf_empty hk (by intro p _ e he; simp at he)
  rw [← constGraph_eq] at gwf gkeys gupper
  have hnodes : ∀ n ∈ (constGraph exprs).nodes, (exprs.get? n).isSome = true := by
    intro n hn
    rw [AMap.get?_isSome_iff_contains]
    rcases gupper n hn with h | ⟨p, hp, h | h⟩
    · simp at h
    · rw [h]; exact (AMap.contains_iff_mem_keys _ _).mpr (List.mem_map.mpr ⟨p, hp, rfl⟩)
    · exact hrefs p hp n h
  unfold resolveConstants
  rcases (constGraph exprs).sort_spec o gwf ho with ⟨order, hso, _, hcover, _⟩ | ⟨c, hsc, hcyc⟩
  · rw [hso]
    simp only
    have hnames : ∀ n ∈ order, (exprs.get? n).isSome = true := fun n hn => hnodes n ((hcover n).mp hn)
    constructor
    · intro ds h
      split at h
      · simp at h
      · simp only [Except.error.injEq] at h
        rw [← h]
        exact Or.inl (resolveLoop_nl fl exprs hwf order [] [] hnames (by intro k v hv; simp [AMap.get?] at hv) noLoop_nil)
    · intro c h k hk'
      split at h
      · rename_i herr
        simp only [Except.ok.injEq] at h
        have hnil : (resolveLoop fl exprs order [] []).2 = [] := by simpa using herr
        obtain ⟨_, _, h3⟩ := resolveLoop_all fl exprs order [] [] hnil
        rw [← h]
        obtain ⟨p, hp, rfl⟩ := List.mem_map.mp hk'
        rw [← AMap.get?_isSome_iff_contains, canonConsts_get?,
          (AMap.contains_iff_mem_keys exprs p.1).mpr (List.mem_map.mpr ⟨p, hp, rfl⟩), if_pos rfl,
          AMap.get?_isSome_iff_contains]
        exact h3 p.1 ((hcover p.1).mpr (gkeys p hp))
      · simp at h
  · rw [hsc]
    constructor
    · intro ds h
      simp only [Except.error.injEq] at h
      rw [← h]
      right
      refine ⟨c, rfl, ?_⟩
      apply relCycle_mono _ c ((constGraph exprs).cycle_edges o ho c hcyc)
      intro u v huv
      rcases gerev (u, v) huv with h1 | ⟨p, hp, h1, h2⟩
      · simp at h1
      · exact ⟨p.2, by rw [show v = p.1 from h1]; exact hp, h2⟩
    · intro c h; simp at h

/-! ### step 3: register banks -/

theorem noLoop_of_kind (l : List Diag) (h : ∀ d ∈ l, d.kind ≠ .WireLoop) : NoLoop l := h

theorem noLoop_replicate (n : Nat) (d : Diag) (h : d.kind ≠ .WireLoop) : NoLoop (List.replicate n d) := by
  intro x hx
  rw [List.mem_replicate] at hx
  rw [hx.2]; exact h

theorem noLoop_flatMap {α : Type} (l : List α) (f : α → List Diag) (h : ∀ a ∈ l, NoLoop (f a)) : NoLoop (l.flatMap f) := by
  intro d hd
  obtain ⟨a, ha, hda⟩ := List.mem_flatMap.mp hd
  exact h a ha d hda

theorem noLoop_ite (c : Prop) [Decidable c] (a b : List Diag) (ha : NoLoop a) (hb : NoLoop b) : NoLoop (if c then a else b) := by
  split <;> assumption

theorem noLoop_single (d : Diag) (h : d.kind ≠ .WireLoop) : NoLoop [d] := by
  intro x hx; simp at hx; subst hx; exact h

section
variable (fl : Flags) (cls : CharClass) (s1 : Step1) (constants : AMap WireValue)

theorem regPre_nl (bank inName outName : String) (acc : BankAcc) (seen : List String) (r : RegDecl) :
    NoLoop (regPre s1 constants bank inName outName acc seen r).1 := by
  unfold regPre
  dsimp only
  repeat' (first
    | apply noLoop_append
    | apply noLoop_ite
    | (apply noLoop_flatMap; intro _ _)
    | exact noLoop_nil
    | exact noLoop_single _ (by simp)
    | exact noLoop_replicate _ _ (by simp))

theorem regEval_nl (bank inName outName : String) (s : Step3) (acc : BankAcc) (r : RegDecl)
    (hc : ConstOK constants) (hr : r.width.ok ∧ wfEx r.default = true) (hs : NoLoop s.errors) :
    NoLoop (regEval fl constants bank inName outName s acc r).1.errors := by
  unfold regEval
  simp only
  obtain ⟨c1, c2⟩ := constCtx_ok constants hc
  cases hcf : checkFixEval fl (AMap.toCtx (constants.map (fun p => (p.1, p.2.width)))) constants.toEnv r.default with
  | error ds =>
    simp only
    exact noLoop_append hs (checkFixEval_nl fl _ _ _ ds c1 (c2 _) hr.2 hcf)
  | ok value =>
    simp only
    rw [asWidth_ok value r.width hr.1]
    simp only
    apply noLoop_append hs
    split
    · exact noLoop_nil
    · exact noLoop_single _ (by simp)

theorem step3Register_nl (bank : String) (inP outP : Char) (st : Step3 × BankAcc) (r : RegDecl)
    (hc : ConstOK constants) (hr : r.width.ok ∧ wfEx r.default = true) (hs : NoLoop st.1.errors) :
    NoLoop (step3Register fl s1 constants bank inP outP st r).1.errors := by
  obtain ⟨s, acc⟩ := st
  unfold step3Register
  simp only
  split
  · exact noLoop_append hs (regPre_nl s1 constants _ _ _ _ _ _)
  · apply regEval_nl fl constants _ _ _ _ acc r hc hr
    exact noLoop_append hs (regPre_nl s1 constants _ _ _ _ _ _)

theorem step3Bank_nl (s : Step3) (b : BankDecl) (hc : ConstOK constants)
    (hb : ∀ r ∈ b.regs, r.width.ok ∧ wfEx r.default = true) (hs : NoLoop s.errors) :
    NoLoop (step3Bank fl cls s1 constants s b).errors := by
  unfold step3Bank
  split
  · rename_i inP outP _
    split
    · exact noLoop_append hs (noLoop_single _ (by simp))
    · simp only
      have fold : ∀ (regs : List RegDecl) (st : Step3 × BankAcc), (∀ r ∈ regs, r.width.ok ∧ wfEx r.default = true) →
          NoLoop st.1.errors → NoLoop (regs.foldl (step3Register fl s1 constants b.name inP outP) st).1.errors := by
        intro regs
        induction regs with
        | nil => intro st _ h; exact h
        | cons r rest ih =>
          intro st hr h
          exact ih _ (fun x hx => hr x (List.mem_cons_of_mem _ hx))
            (step3Register_nl fl s1 constants b.name inP outP st r hc (hr r List.mem_cons_self) h)
      apply fold b.regs _ hb
      apply noLoop_append hs
      apply noLoop_flatMap
      intro n _
      exact noLoop_ite _ _ _ (noLoop_single _ (by simp)) noLoop_nil
  · exact noLoop_append hs (noLoop_single _ (by simp))

theorem step3_nl (hc : ConstOK constants) (hb : ∀ b ∈ s1.banksRaw, ∀ r ∈ b.regs, r.width.ok ∧ wfEx r.default = true) :
    NoLoop (s1.banksRaw.foldl (step3Bank fl cls s1 constants) { wireTypes := s1.wireTypes }).errors := by
  have fold : ∀ (banks : List BankDecl) (s : Step3), (∀ b ∈ banks, ∀ r ∈ b.regs, r.width.ok ∧ wfEx r.default = true) →
      NoLoop s.errors → NoLoop (banks.foldl (step3Bank fl cls s1 constants) s).errors := by
    intro banks
    induction banks with
    | nil => intro s _ h; exact h
    | cons b rest ih =>
      intro s hb h
      exact ih _ (fun x hx => hb x (List.mem_cons_of_mem _ hx))
        (step3Bank_nl fl cls s1 constants s b hc (hb b List.mem_cons_self) h)
  exact fold s1.banksRaw _ hb noLoop_nil
end

/-! ### `assignments_to_actions` -/

section
variable (fl : Flags) (widths : AMap Width) (constants : AMap WireValue) (assignments : AMap Ex) (known : List String)

theorem preprocessOne_nl (st : PreState) (f : FixedFunction)
    (hin : ∀ n ∈ f.inWires.map (·.1), known.contains n = false)
    (hout : ∀ n w, f.outWire = some (n, w) → known.contains n = false ∧ assignments.contains n = false)
    (hs : NoLoop st.errors) : NoLoop (preprocessOne fl widths constants assignments known st f).errors := by
  have hkc : (f.inWires.map (·.1)).any known.contains = false := by
    rw [List.any_eq_false]
    intro n hn
    rw [hin n hn]; simp
  have hunset : ∀ l : List String, NoLoop (l.map (fun n => (⟨.UnsetBuiltinWire, [n]⟩ : Diag))) := by
    intro l d hd
    obtain ⟨n, _, rfl⟩ := List.mem_map.mp hd
    simp
  unfold preprocessOne
  simp only [hkc, Bool.false_eq_true, if_false]
  generalize (f.inWires.map (·.1)).filter (fun n => !assignments.contains n) = missing
  by_cases hA : (f.mandatory && !missing.isEmpty) = true
  · simp only [hA, if_true]
    cases ho : f.outWire with
    | none => exact noLoop_append hs (hunset _)
    | some ow =>
      obtain ⟨out, w⟩ := ow
      obtain ⟨h1, h2⟩ := hout out w ho
      simp only [h1, h2, Bool.or_self, Bool.false_eq_true, if_false]
      exact noLoop_append hs (hunset _)
  · simp only [hA, Bool.false_eq_true, if_false]
    by_cases hB : (!missing.isEmpty) = true
    · simp only [hB, if_true]
      apply noLoop_append
      · apply noLoop_append hs
        cases ho : f.outWire with
        | none => exact noLoop_nil
        | some ow =>
          obtain ⟨out, w⟩ := ow
          simp only
          exact noLoop_ite _ _ _ (hunset _) noLoop_nil
      · apply noLoop_ite
        · apply noLoop_ite
          · exact noLoop_single _ (by simp)
          · exact noLoop_nil
        · exact noLoop_nil
    · simp only [hB, Bool.false_eq_true, if_false]
      cases ho : f.outWire with
      | none => exact hs
      | some ow =>
        obtain ⟨out, w⟩ := ow
        obtain ⟨h1, h2⟩ := hout out w ho
        simp only [h1, h2, Bool.or_self, Bool.false_eq_true, if_false]
        exact hs
end

section
variable (fl : Flags) (widths : AMap Width) (constants : AMap WireValue) (assignments : AMap Ex) (known : List String)
  (declared : List String) (byOutput : AMap FixedFunction)

theorem preprocess_fold_nl (fixed : List FixedFunction)
    (hin : ∀ f ∈ fixed, ∀ n ∈ f.inWires.map (·.1), known.contains n = false)
    (hout : ∀ f ∈ fixed, ∀ n w, f.outWire = some (n, w) → known.contains n = false ∧ assignments.contains n = false) :
    ∀ (st : PreState), NoLoop st.errors →
      NoLoop (fixed.foldl (preprocessOne fl widths constants assignments known) st).errors := by
  induction fixed with
  | nil => intro st h; exact h
  | cons f rest ih =>
    intro st h
    simp only [List.foldl_cons]
    apply ih (fun g hg => hin g (List.mem_cons_of_mem _ hg)) (fun g hg => hout g (List.mem_cons_of_mem _ hg))
    exact preprocessOne_nl fl widths constants assignments known st f (hin f List.mem_cons_self) (hout f List.mem_cons_self) h

/-- a turn of the loop in which the `assert!`s hold adds no internal error -/
theorem loopStep_nl (st : LoopState) (name : String)
    (hrefs : ∀ e, assignments.get? name = some e → ∀ r ∈ refs e, r ∈ st.covered)
    (hfix : ∀ f, assignments.get? name = none → byOutput.get? name = some f → ∀ i ∈ f.inWires.map (·.1), i ∈ st.covered)
    (hs : NoLoop st.errors) :
    NoLoop (loopStep fl assignments widths declared constants byOutput st name).errors ∧
    ∀ n, n ∈ (loopStep fl assignments widths declared constants byOutput st name).covered ↔ n ∈ st.covered ∨ n = name := by
  have hcov : ∀ n, n ∈ (loopStep fl assignments widths declared constants byOutput st name).covered ↔ n ∈ st.covered ∨ n = name := by
    intro n
    unfold loopStep
    simp only
    repeat' split
    all_goals exact mem_setInsert _ _ _
  refine ⟨?_, hcov⟩
  unfold loopStep
  cases h1 : assignments.get? name with
  | some expr =>
    have hall : (refs expr).all st.covered.contains = true := by
      rw [List.all_eq_true]
      intro r hr
      simpa using hrefs expr h1 r hr
    simp only [hall, if_true]
    cases h2 : widths.get? name with
    | none => exact noLoop_append hs (noLoop_single _ (by simp))
    | some w =>
      simp only
      cases h3 : check fl widths.toCtx constants.toEnv expr with
      | error ds => exact noLoop_append hs (check_nl fl _ _ expr ds h3)
      | ok ew =>
        simp only
        split
        · exact hs
        · exact noLoop_append hs (noLoop_single _ (by simp))
  | none =>
    simp only
    cases h2 : byOutput.get? name with
    | some f =>
      have hall : (f.inWires.map (·.1)).all st.covered.contains = true := by
        rw [List.all_eq_true]
        intro i hi
        simpa using hfix f h1 h2 i hi
      simp only [hall, if_true]
      exact hs
    | none =>
      simp only
      split
      · exact noLoop_append hs (noLoop_single _ (by simp))
      · exact hs

/-- the whole loop over a list in which every name's reads are known or earlier in the list -/
theorem actionsLoop_nl : ∀ (names : List String) (st : LoopState),
    names.Nodup →
    (∀ pre x post, names = pre ++ x :: post →
      (∀ e, assignments.get? x = some e → ∀ r ∈ refs e, r ∈ st.covered ∨ r ∈ pre) ∧
      (∀ f, assignments.get? x = none → byOutput.get? x = some f → ∀ i ∈ f.inWires.map (·.1), i ∈ st.covered ∨ i ∈ pre)) →
    NoLoop st.errors →
    NoLoop (actionsLoop fl assignments widths declared constants byOutput names st).errors
  | [], st, _, _, hs => hs
  | name :: rest, st, hnd, hord, hs => by
    have hstep : actionsLoop fl assignments widths declared constants byOutput (name :: rest) st =
        actionsLoop fl assignments widths declared constants byOutput rest
          (loopStep fl assignments widths declared constants byOutput st name) := by
      simp [actionsLoop]
    rw [hstep]
    obtain ⟨h0a, h0b⟩ := hord [] name rest rfl
    obtain ⟨hnp, hcov⟩ := loopStep_nl fl widths constants assignments declared byOutput st name
      (fun e he r hr => by rcases h0a e he r hr with h | h; exact h; simp at h)
      (fun f h1 h2 i hi => by rcases h0b f h1 h2 i hi with h | h; exact h; simp at h) hs
    apply actionsLoop_nl rest _ (List.nodup_cons.mp hnd).2 _ hnp
    intro pre x post hsplit
    obtain ⟨ha, hb⟩ := hord (name :: pre) x post (by rw [hsplit]; rfl)
    constructor
    · intro e he r hr
      rcases ha e he r hr with h | h
      · exact Or.inl ((hcov r).mpr (Or.inl h))
      · rcases List.mem_cons.mp h with h2 | h2
        · exact Or.inl ((hcov r).mpr (Or.inr h2))
        · exact Or.inr h2
    · intro f h1 h2 i hi
      rcases hb f h1 h2 i hi with h | h
      · exact Or.inl ((hcov i).mpr (Or.inl h))
      · rcases List.mem_cons.mp h with h3 | h3
        · exact Or.inl ((hcov i).mpr (Or.inr h3))
        · exact Or.inr h3
end

theorem assignmentsToActions_nl (fl : Flags) (o : Orders) (assignments : AMap Ex) (widths : AMap Width)
    (known : List String) (fixed : List FixedFunction) (declared : List String) (constants : AMap WireValue)
    (ho : OrdersOK o) (ht : FixedTableOK fixed) (hk : assignments.keys.Nodup)
    (hin : ∀ f ∈ fixed, ∀ n ∈ f.inWires.map (·.1), known.contains n = false)
    (hout : ∀ f ∈ fixed, ∀ n w, f.outWire = some (n, w) → known.contains n = false ∧ assignments.contains n = false)
    (ds : List Diag) (h : assignmentsToActions fl o assignments widths known fixed declared constants = .error ds) :
    NoLoop ds ∨ ∃ c, ds = [⟨.WireLoop, c⟩] ∧
      RelCycle (fun u v => (∃ e, (v, e) ∈ assignments ∧ u ∈ refs e) ∨
        (∃ f ∈ fixed, (∃ w, f.outWire = some (v, w)) ∧ u ∈ f.inWires.map (·.1))) c := by
  unfold assignmentsToActions at h
  simp only at h
  obtain ⟨g0wf, g0nodes, g0edges⟩ := assignGraph_spec assignments known hk
  generalize hg0 : assignGraph assignments known = g0 at h g0wf g0nodes g0edges
  have hprenp := preprocess_fold_nl fl widths constants assignments known fixed hin hout ({ graph := g0 } : PreState) noLoop_nil
  generalize hpre : fixed.foldl (preprocessOne fl widths constants assignments known) { graph := g0 } = pre at h hprenp
  by_cases hpe : pre.errors.isEmpty = true
  · have hpe' : pre.errors = [] := by simpa using hpe
    simp only [hpe, Bool.not_true, Bool.false_eq_true, if_false] at h
    have hg0c : ∀ e ∈ g0.edges, assignments.contains e.2 = true := by
      intro e he
      obtain ⟨ex, hm, _⟩ := (g0edges e.1 e.2).mp he
      exact (AMap.contains_iff_mem_keys _ _).mpr (List.mem_map.mpr ⟨(e.2, ex), hm, rfl⟩)
    have hinit : PreFacts assignments known g0 [] ({ graph := g0 } : PreState) :=
      { noOut := by intro f hf; simp at hf
        byKeys := by simp [AMap.keys]
        byOut := by intro n f hf; simp at hf
        wf := g0wf
        nodes := fun n hn => hn
        edges := fun e he => Or.inl he
        noOutSub := List.Sublist.refl _
        edgesG0 := fun e he => he
        edgesFixed := by intro n f hf; simp at hf }
    have hpf := preprocess_fold_facts fl widths constants assignments known fixed ht g0 hg0c fixed [] _ (by simp) hinit
      (by rw [hpre]; exact hpe')
    rw [hpre] at hpf
    rcases pre.graph.sort_spec o hpf.wf ho with ⟨order, hso, hond, _, hordered⟩ | ⟨c, hsc, hcyc⟩
    · rw [hso] at h
      simp only at h
      left
      -- the loop
      have hloop : NoLoop (actionsLoop fl assignments widths declared constants pre.info.byOutput order { covered := known }).errors := by
        apply actionsLoop_nl fl widths constants assignments declared pre.info.byOutput order _ hond _ noLoop_nil
        intro pfx x post hsplit
        constructor
        · intro e he r hr
          by_cases hkn : known.contains r = true
          · left; simpa using hkn
          · right
            have hkn' : known.contains r = false := by simpa using hkn
            have hedge : (r, x) ∈ g0.edges := (g0edges r x).mpr ⟨e, AMap.mem_of_get? _ _ _ he, hr, hkn'⟩
            exact hordered pfx x post hsplit r (hpf.edgesG0 _ hedge)
        · intro f _ h2 i hi
          right
          exact hordered pfx x post hsplit i (hpf.edgesFixed x f (AMap.mem_of_get? _ _ _ h2) i hi)
      generalize actionsLoop fl assignments widths declared constants pre.info.byOutput order { covered := known } = st at h hloop
      split at h
      · simp at h
      · simp only [Except.error.injEq] at h
        rw [← h]
        apply noLoop_append hloop
        intro d hd
        obtain ⟨n, _, rfl⟩ := List.mem_map.mp hd
        simp
    · rw [hsc] at h
      simp only [Except.error.injEq] at h
      rw [← h]
      right
      refine ⟨c, rfl, ?_⟩
      apply relCycle_mono _ c (pre.graph.cycle_edges o ho c hcyc)
      intro u v huv
      rcases hpf.edges (u, v) huv with h1 | ⟨f, hf, hi⟩
      · obtain ⟨e, he, hr, _⟩ := (g0edges u v).mp h1
        exact Or.inl ⟨e, he, hr⟩
      · obtain ⟨hfd, hw, _⟩ := hpf.byOut v f hf
        exact Or.inr ⟨f, hfd, hw, hi⟩
  · simp only [hpe] at h
    simp only [Bool.not_false, if_true, Except.error.injEq] at h
    rw [← h]; exact Or.inl hprenp

/-- wire `u` is read by what drives wire `v`: the definition of the constant or wire `v` mentions `u`, or `u` is an
    input of the built-in component whose output is `v` -/
def DependsOn (stmts : List Stmt) (u v : String) : Prop :=
  (∃ e, (v, e) ∈ (step1Of stmts).constantsRaw ∧ u ∈ refs e) ∨
  (∃ e, (v, e) ∈ (step1Of stmts).assignments ∧ u ∈ refs e) ∨
  (∃ f ∈ y86FixedFunctions, (∃ w, f.outWire = some (v, w)) ∧ u ∈ f.inWires.map (·.1))

/-- **a reported loop is real**: if the diagnostics of `Program::new` contain a loop report at all, they consist of
    exactly that report, and the names it lists form a cycle of the dependency relation of the statements -/
theorem Program_new_nl (fl : Flags) (cls : CharClass) (o : Orders) (stmts : List Stmt)
    (ho : OrdersOK o) (hwf : StmtsWF stmts) (ds : List Diag)
    (h : Program.new fl cls o y86FixedFunctions stmts = .error ds) :
    NoLoop ds ∨ ∃ c, ds = [⟨.WireLoop, c⟩] ∧ RelCycle (DependsOn stmts) c := by
  unfold Program.new at h
  simp only at h
  generalize hs1 : List.foldl (step1Stmt _ _) (step1Init y86FixedFunctions) stmts = s1 at h
  have hs1' : stmts.foldl (step1Stmt (fixedNamesOf y86FixedFunctions)
      (y86FixedFunctions.filterMap fun f => f.outWire.map (·.1))) (step1Init y86FixedFunctions) = s1 := hs1
  obtain ⟨s1inv, _⟩ := step1_fold_inv (fixedNamesOf y86FixedFunctions)
    (y86FixedFunctions.filterMap fun f => f.outWire.map (·.1)) y86W0 stmts (step1Init y86FixedFunctions) hwf step1Init_inv
  have hs1np := step1_fold_nl (fixedNamesOf y86FixedFunctions)
    (y86FixedFunctions.filterMap fun f => f.outWire.map (·.1)) stmts (step1Init y86FixedFunctions)
    (by rw [step1Init_clean]; exact noLoop_nil)
  rw [hs1'] at s1inv hs1np
  split at h
  · -- errors of step 1
    simp only [Except.error.injEq] at h
    rw [← h]
    left
    apply noLoop_append
    · apply noLoop_append hs1np
      apply noLoop_flatMap
      intro n _
      exact noLoop_ite _ _ _ (noLoop_single _ (by simp)) noLoop_nil
    · unfold constRefErrors
      apply noLoop_flatMap
      intro p _
      apply noLoop_flatMap
      intro n _
      dsimp only
      repeat' (first
        | apply noLoop_ite
        | exact noLoop_nil
        | exact noLoop_replicate _ _ (by simp))
  · rename_i herrs1
    simp only [Bool.not_eq_true', List.isEmpty_eq_false_iff, ne_eq, Decidable.not_not, List.append_eq_nil_iff] at herrs1
    have hs1clean : s1.errors = [] := herrs1.1.1
    -- every name a constant reads is a constant
    have hrefs : ∀ p ∈ s1.constantsRaw, ∀ r ∈ refs p.2, s1.constantsRaw.contains r = true := by
      intro p hp r hr
      have hce := herrs1.2
      unfold constRefErrors at hce
      by_cases hc : s1.constantsRaw.contains r = true
      · exact hc
      · exfalso
        have hc' : s1.constantsRaw.contains r = false := by simpa using hc
        have hocc : 0 < occurrences p.2 r := by
          unfold occurrences
          exact List.count_pos_iff.mpr hr
        have hmem : ∃ d, d ∈ (s1.constantsRaw.flatMap fun (p : String × Ex) =>
            (dedupS (refs p.2)).flatMap fun inName =>
              let isConstant := s1.constantsRaw.contains inName
              if s1.wires.contains inName && !isConstant then
                List.replicate (occurrences p.2 inName) (⟨.NonConstantWireRead, [inName]⟩ : Diag)
              else if !isConstant then
                List.replicate (occurrences p.2 inName) ⟨.UndeclaredWireRead, [inName]⟩
              else []) := by
          by_cases hw : s1.wires.contains r = true
          · refine ⟨⟨.NonConstantWireRead, [r]⟩, ?_⟩
            refine List.mem_flatMap.mpr ⟨p, hp, List.mem_flatMap.mpr ⟨r, (mem_dedupS _ _).mpr hr, ?_⟩⟩
            simp only [hw, hc', Bool.not_false, Bool.and_self, if_true]
            exact List.mem_replicate.mpr ⟨by omega, rfl⟩
          · have hw' : s1.wires.contains r = false := by simpa using hw
            refine ⟨⟨.UndeclaredWireRead, [r]⟩, ?_⟩
            refine List.mem_flatMap.mpr ⟨p, hp, List.mem_flatMap.mpr ⟨r, (mem_dedupS _ _).mpr hr, ?_⟩⟩
            simp only [hw', hc', Bool.false_and, Bool.false_eq_true, if_false, Bool.not_false, if_true]
            exact List.mem_replicate.mpr ⟨by omega, rfl⟩
        obtain ⟨d, hd⟩ := hmem
        rw [hce] at hd
        simp at hd
    obtain ⟨hc_nl, hc_all⟩ := resolveConstants_nl fl o s1.constantsRaw ho s1inv.cKeys s1inv.cWf hrefs
    split at h
    · rename_i dsc hconst
      simp only [Except.error.injEq] at h
      rw [← h]
      rcases hc_nl _ hconst with h1 | ⟨c, h1, h2⟩
      · exact Or.inl h1
      · refine Or.inr ⟨c, h1, relCycle_mono ?_ c h2⟩
        intro u v ⟨e, he, hr⟩
        exact Or.inl ⟨e, by unfold step1Of; rw [hs1']; exact he, hr⟩
    · rename_i constants hconst
      have hcok := resolveConstants_constOK fl o s1.constantsRaw constants s1inv.cWf hconst
      have hckeys := resolveConstants_keys fl o s1.constantsRaw constants hconst
      have hs3np := step3_nl fl cls s1 constants hcok s1inv.banks
      generalize hs3 : s1.banksRaw.foldl (step3Bank fl cls s1 constants) { wireTypes := s1.wireTypes } = s3 at h hs3np
      split at h
      · -- errors of step 3 and step 4
        simp only [Except.error.injEq] at h
        rw [← h]
        left
        apply noLoop_append hs3np
        apply noLoop_flatMap
        intro n _
        repeat' (first
          | apply noLoop_ite
          | exact noLoop_nil
          | exact noLoop_single _ (by simp))
      · rename_i herrs3
        have hs3clean : s3.errors = [] := by
          simp only [Bool.not_eq_true', List.isEmpty_eq_false_iff, ne_eq, Decidable.not_not, List.append_eq_nil_iff] at herrs3
          exact herrs3.1
        have hs3f : S3Facts s1.declared (fun n => s1.assignments.contains n = false) s3 {} := by
          rw [← hs3]
          exact step3_facts fl cls s1 constants (fun b hb r hr => (s1inv.banks b hb r hr).1) (by rw [hs3]; exact hs3clean)
        split at h
        · -- a constant without a value: impossible
          rename_i hmiss
          exfalso
          rw [List.any_eq_true] at hmiss
          obtain ⟨k, hk, hk2⟩ := hmiss
          have := hc_all constants hconst k hk
          rw [this] at hk2; simp at hk2
        · have hyp : TablesHyp (fixedNamesOf y86FixedFunctions) y86W0 s1 constants s3 :=
            { s1inv := s1inv, s1clean := hs1clean, cok := hcok, ckeys := hckeys, s3f := hs3f
              fnShape := by
                intro n hn
                have a := List.all_eq_true.mp y86_names_not_sig n hn
                have b := List.all_eq_true.mp y86_names_not_ctl n hn
                exact ⟨by simpa using a, by simpa using b⟩ }
          generalize hknown : ((constPairs s1.constantsRaw.keys constants).map (·.1)).foldl setInsert
            ((bankOuts s3.banks).foldl setInsert []) = known at h
          have hknownmem : ∀ n, n ∈ known → n ∈ bankOuts s3.banks ∨ n ∈ (constPairs s1.constantsRaw.keys constants).map (·.1) := by
            intro n hn
            rw [← hknown, mem_foldl_setInsert, mem_foldl_setInsert] at hn
            rcases hn with (h1 | h1) | h1
            · simp at h1
            · exact Or.inl h1
            · exact Or.inr h1
          -- a built-in name is never a known value
          have hfixedNotKnown : ∀ n ∈ fixedNamesOf y86FixedFunctions, known.contains n = false := by
            intro n hn
            by_cases hc : known.contains n = true
            · exfalso
              have hm : n ∈ known := by simpa using hc
              rcases hknownmem n hm with h1 | h1
              · simp only [bankOuts, List.mem_flatMap, List.mem_map] at h1
                obtain ⟨b, hb, sg, hsg, rfl⟩ := h1
                have := isSigName_second ((hs3f.banks b hb).sigs.sig sg hsg).2.1
                rw [(hyp.fnShape _ hn).1] at this; cases this
              · obtain ⟨pr, hpr, rfl⟩ := List.mem_map.mp h1
                exact (constPairs_declared hyp pr hpr).2.1 hn
            · simpa using hc
          split at h
          · rename_i dsa hact
            simp only [Except.error.injEq] at h
            rw [← h]
            have hloop : NoLoop dsa ∨ ∃ c, dsa = [⟨.WireLoop, c⟩] ∧
                RelCycle (fun u v => (∃ e, (v, e) ∈ s1.assignments ∧ u ∈ refs e) ∨
                  (∃ f ∈ y86FixedFunctions, (∃ w, f.outWire = some (v, w)) ∧ u ∈ f.inWires.map (·.1))) c := by
              apply assignmentsToActions_nl fl o s1.assignments _ known y86FixedFunctions s1.declared constants ho
                y86Fixed_table s1inv.aKeys _ _ dsa hact
              · intro f hf n hn
                apply hfixedNotKnown
                unfold fixedNamesOf
                rw [mem_dedupS]
                exact List.mem_flatMap.mpr ⟨f, hf, List.mem_append_left _ hn⟩
              · intro f hf n w hout
                have hn : n ∈ fixedNamesOf y86FixedFunctions := by
                  have := List.all_eq_true.mp y86_out_in_names f hf
                  rw [hout] at this
                  simpa using this
                refine ⟨hfixedNotKnown n hn, ?_⟩
                -- an assigned built-in output is reported in step 1
                have hfree := step1_outsFree (fixedNamesOf y86FixedFunctions)
                  (y86FixedFunctions.filterMap fun f => f.outWire.map (·.1)) stmts (step1Init y86FixedFunctions)
                  (by intro _ m _; have : (step1Init y86FixedFunctions).assignments = [] := by decide +kernel
                      rw [this]; simp [AMap.contains])
                rw [hs1'] at hfree
                exact hfree hs1clean n (List.mem_filterMap.mpr ⟨f, hf, by simp [hout]⟩)
            rcases hloop with h1 | ⟨c, h1, h2⟩
            · exact Or.inl h1
            · refine Or.inr ⟨c, h1, relCycle_mono ?_ c h2⟩
              intro u v huv
              rcases huv with ⟨e, he, hr⟩ | h3
              · exact Or.inr (Or.inl ⟨e, by unfold step1Of; rw [hs1']; exact he, hr⟩)
              · exact Or.inr (Or.inr h3)
          · simp at h

/-! ### the dependency relation, executable (used by the driver to judge the loops the real code reports) -/

def dependsOnB (stmts : List Stmt) (u v : String) : Bool :=
  (step1Of stmts).constantsRaw.any (fun p => p.1 == v && (refs p.2).contains u) ||
  (step1Of stmts).assignments.any (fun p => p.1 == v && (refs p.2).contains u) ||
  y86FixedFunctions.any (fun f => (match f.outWire with | some (o, _) => o == v | none => false) && (f.inWires.map (·.1)).contains u)

theorem dependsOnB_iff (stmts : List Stmt) (u v : String) : dependsOnB stmts u v = true ↔ DependsOn stmts u v := by
  unfold dependsOnB DependsOn
  simp only [Bool.or_eq_true, List.any_eq_true, Bool.and_eq_true, beq_iff_eq, List.contains_eq_mem, decide_eq_true_eq]
  constructor
  · rintro ((⟨p, hp, h1, h2⟩ | ⟨p, hp, h1, h2⟩) | ⟨f, hf, h1, h2⟩)
    · exact Or.inl ⟨p.2, by rw [← h1]; exact hp, h2⟩
    · exact Or.inr (Or.inl ⟨p.2, by rw [← h1]; exact hp, h2⟩)
    · refine Or.inr (Or.inr ⟨f, hf, ?_, h2⟩)
      cases hw : f.outWire with
      | none => rw [hw] at h1; cases h1
      | some ow => rw [hw] at h1; exact ⟨ow.2, by simp only at h1; rw [← beq_iff_eq.mp h1]⟩
  · rintro (⟨e, he, hr⟩ | ⟨e, he, hr⟩ | ⟨f, hf, ⟨w, hw⟩, hr⟩)
    · exact Or.inl (Or.inl ⟨(v, e), he, rfl, hr⟩)
    · exact Or.inl (Or.inr ⟨(v, e), he, rfl, hr⟩)
    · exact Or.inr ⟨f, hf, by rw [hw]; simp, hr⟩

/-- the executable form of `RelCycle (DependsOn stmts)` -/
def relPathB (stmts : List Stmt) : List String → Bool
  | [] => true
  | [_] => true
  | a :: b :: t => dependsOnB stmts a b && relPathB stmts (b :: t)

def loopRealB (stmts : List Stmt) (c : List String) : Bool :=
  match c with
  | [] => false
  | h :: _ => relPathB stmts c && dependsOnB stmts (c.getLast!) h

theorem loopRealB_iff (stmts : List Stmt) (c : List String) : loopRealB stmts c = true ↔ RelCycle (DependsOn stmts) c := by
  have hp : ∀ c : List String, relPathB stmts c = true ↔ RelPath (DependsOn stmts) c := by
    intro c
    induction c with
    | nil => simp [relPathB, RelPath]
    | cons a t ih =>
      cases t with
      | nil => simp [relPathB, RelPath]
      | cons b t' =>
        simp only [relPathB, RelPath, Bool.and_eq_true, dependsOnB_iff, ih]
  cases c with
  | nil => simp [loopRealB, RelCycle]
  | cons x t => simp only [loopRealB, RelCycle, Bool.and_eq_true, hp, dependsOnB_iff]
