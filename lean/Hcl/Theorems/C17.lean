import Hcl.Proofs.EvalCorrect
import Hcl.Proofs.CheckSpec

/-!
# C17 — each strictness option changes exactly the check it names, nothing else
-/

/-- **C17, evaluation.**  The strictness options never influence evaluation: an expression accepted
    under two option sets has the same width under both and evaluates to the same result under both,
    for every valuation. -/
theorem C17_eval_flag_independent {fl₁ fl₂ : Flags} {Γ : Ctx} {κ σ : Env} (hΓ : CtxOK Γ) (hσ : EnvOK Γ σ)
    (e : Ex) (w₁ w₂ : Width) (hwf : wfEx e = true)
    (h₁ : check fl₁ Γ κ e = .ok w₁) (h₂ : check fl₂ Γ κ e = .ok w₂) :
    w₁ = w₂ ∧ ev fl₁ σ (fixMux fl₁ Γ κ e) = ev fl₂ σ (fixMux fl₂ Γ κ e) := by
  obtain ⟨_, hs1, hv1⟩ := ev_correct hΓ e w₁ (hσ.on _) hwf h₁
  obtain ⟨_, hs2, hv2⟩ := ev_correct hΓ e w₂ (hσ.on _) hwf h₂
  have hw : w₁ = w₂ := by rw [hs1, hs2]
  subst hw
  refine ⟨rfl, ?_⟩
  cases hd : Spec.dv Γ (val σ) e with
  | none => simp only [hd] at hv1 hv2; rw [hv1, hv2]
  | some v => simp only [hd] at hv1 hv2; rw [hv1.1, hv2.1]

/-- the flags that are off only ever remove a rejection: an expression accepted with every option on
    is accepted, at the same width, with any subset of the options -/
def allOn : Flags := ⟨true, true, true, true, true⟩

/-- **C17, acceptance.** For every combination of the five options, the checker accepts an expression
    exactly when it passes the always-on rules plus the rules of the options that are enabled
    (`Spec.typeOf` takes the flags as a parameter and mentions each flag only in the rule it names). -/
theorem C17_accept (fl : Flags) (Γ : Ctx) (κ : Env) (e : Ex) (w : Width) :
    check fl Γ κ e = .ok w ↔ Spec.typeOf fl Γ (alwaysTrue fl κ) e = some w :=
  C08_expr fl Γ κ e w
