import Hcl.Model.Check

/-! The checker never fails without a diagnostic. -/

theorem bind_error {α β : Type} {x : C α} {f : α → C β} {ds : List Diag}
    (h : (x >>= f) = .error ds) : x = .error ds ∨ ∃ a, x = .ok a ∧ f a = .error ds := by
  cases x with
  | error e => left; simpa [bind, Except.bind] using h
  | ok a => right; exact ⟨a, rfl, by simpa [bind, Except.bind] using h⟩

mutual
theorem check_err (fl : Flags) (Γ : Ctx) (κ : Env) : ∀ (e : Ex) (ds : List Diag), check fl Γ κ e = .error ds → ds ≠ []
  | .const v, ds, h => by simp [check, pure, Except.pure] at h
  | .wire n, ds, h => by
      unfold check at h
      split at h
      · simp [pure, Except.pure] at h
      · simp [throw, throwThe, MonadExceptOf.throw] at h; rw [← h]; simp
  | .bin op l r, ds, h => by
      have ihl := check_err fl Γ κ l
      have ihr := check_err fl Γ κ r
      unfold check at h
      simp only [bind, Except.bind, pure, Except.pure, throw, throwThe, MonadExceptOf.throw] at h
      repeat' split at h
      all_goals first
        | (injection h with h; subst h; first | exact ihl _ ‹_› | exact ihr _ ‹_›)
        | (injection h with h; rw [← h]; simp)
        | simp at h
  | .un op e, ds, h => by
      have ih := check_err fl Γ κ e
      cases op <;>
      · unfold check at h
        try simp only [bind, Except.bind, pure, Except.pure] at h
        first
          | exact ih _ h
          | (split at h
             · injection h with h; subst h; exact ih _ ‹_›
             · simp at h)
  | .slice e lo hi, ds, h => by
      have ih := check_err fl Γ κ e
      unfold check at h
      simp only [bind, Except.bind, pure, Except.pure, throw, throwThe, MonadExceptOf.throw] at h
      repeat' split at h
      all_goals first
        | (injection h with h; subst h; exact ih _ ‹_›)
        | (injection h with h; rw [← h]; simp)
        | simp at h
  | .concat l r, ds, h => by
      have ihl := check_err fl Γ κ l
      have ihr := check_err fl Γ κ r
      unfold check at h
      simp only [bind, Except.bind, pure, Except.pure, throw, throwThe, MonadExceptOf.throw] at h
      repeat' split at h
      all_goals first
        | (injection h with h; subst h; first | exact ihl _ ‹_› | exact ihr _ ‹_›)
        | (injection h with h; rw [← h]; simp)
        | simp at h
  | .mux opts, ds, h => by
      have ih := checkOpts_err fl Γ κ opts
      unfold check at h
      simp only [bind, Except.bind, pure, Except.pure, throw, throwThe, MonadExceptOf.throw] at h
      repeat' split at h
      all_goals first
        | (injection h with h; subst h; exact ih _ _ ‹_›)
        | (injection h with h; rw [← h]; simp)
        | simp at h
  | .inSet e items, ds, h => by
      have ih := check_err fl Γ κ e
      unfold check at h
      simp only [bind, Except.bind, pure, Except.pure, throw, throwThe, MonadExceptOf.throw] at h
      split at h
      · injection h with h; subst h; exact ih _ ‹_›
      · rename_i a ha
        have ih2 := checkItems_err fl Γ κ a items
        split at h
        · injection h with h; subst h; exact ih2 _ ‹_›
        · split at h
          · simp at h
          · rename_i hne
            injection h with h; subst h
            intro e2; apply hne; simp [e2]
theorem checkOpts_err (fl : Flags) (Γ : Ctx) (κ : Env) : ∀ (opts : Opts) (s : MuxScan) (ds : List Diag),
    checkOpts fl Γ κ opts s = .error ds → ds ≠ []
  | .nil, s, ds, h => by simp [checkOpts, pure, Except.pure] at h
  | .cons c v rest, s, ds, h => by
      have ihc := check_err fl Γ κ c
      have ihv := check_err fl Γ κ v
      unfold checkOpts at h
      simp only [bind, Except.bind] at h
      split at h
      · injection h with h; subst h; exact ihc _ ‹_›
      · split at h
        · injection h with h; subst h; exact ihv _ ‹_›
        · exact checkOpts_err fl Γ κ rest _ _ h
theorem checkItems_err (fl : Flags) (Γ : Ctx) (κ : Env) (a : Width) : ∀ (items : Exs) (ds : List Diag),
    checkItems fl Γ κ a items = .error ds → ds ≠ []
  | .nil, ds, h => by simp [checkItems, pure, Except.pure] at h
  | .cons e rest, ds, h => by
      have ihe := check_err fl Γ κ e
      unfold checkItems at h
      simp only [bind, Except.bind, pure, Except.pure] at h
      split at h
      · injection h with h; subst h; exact ihe _ ‹_›
      · split at h
        · injection h with h; subst h; exact checkItems_err fl Γ κ a rest _ ‹_›
        · split at h <;> simp at h
end
