import Hcl.Proofs.FaultNamedSoundBanks
open Rust

/-! Soundness of the diagnostics of steps 3 and 4 of `Program::new`, stated on the statement list. -/

namespace FaultNamed

/-! ### small facts about the statement list -/

theorem declaredConst_declared (stmts : List Stmt) (n : String) (h : DeclaredConst stmts n) : n ∈ allDeclared stmts := by
  obtain ⟨ds, hm, d, hd, e⟩ := h
  unfold allDeclared
  exact List.mem_flatMap.mpr ⟨_, hm, List.mem_map.mpr ⟨d, hd, e⟩⟩

theorem allDeclared_cons (st : Stmt) (rest : List Stmt) :
    allDeclared (st :: rest) = allDeclared [st] ++ allDeclared rest := by
  simp [allDeclared]

/-- a name declared both as a wire and as a constant is declared twice -/
theorem wire_const_not_nodup : ∀ (stmts : List Stmt) (n : String), DeclaredWire stmts n → DeclaredConst stmts n →
    ¬ (allDeclared stmts).Nodup
  | [], _, ⟨_, hm, _⟩, _, _ => by cases hm
  | st :: rest, n, hw, hc, hnd => by
    rw [allDeclared_cons, List.nodup_append] at hnd
    obtain ⟨_, hnr, hdis⟩ := hnd
    obtain ⟨ds, hm, hdw⟩ := hw
    obtain ⟨cs, hmc, hdc⟩ := hc
    rcases List.mem_cons.mp hm with e1 | h1
    · rcases List.mem_cons.mp hmc with e2 | h2
      · rw [← e1] at e2; cases e2
      · have hin : n ∈ allDeclared [st] := declaredWire_declared [st] n ⟨ds, by rw [e1]; simp, hdw⟩
        exact hdis n hin n (declaredConst_declared rest n ⟨cs, h2, hdc⟩) rfl
    · rcases List.mem_cons.mp hmc with e2 | h2
      · have hin : n ∈ allDeclared [st] := declaredConst_declared [st] n ⟨cs, by rw [e2]; simp, hdc⟩
        exact hdis n hin n (declaredWire_declared rest n ⟨ds, h1, hdw⟩) rfl
      · exact wire_const_not_nodup rest n ⟨ds, h1, hdw⟩ ⟨cs, h2, hdc⟩ hnr

theorem regOutName_inj (o : Char) (r r' : RegDecl) (h : regOutName o r = regOutName o r') : r.name = r'.name := by
  unfold regOutName at h
  have := congrArg String.toList h
  rw [String.toList_append, String.toList_append] at this
  exact String.toList_inj.mp (List.append_cancel_left this)

theorem count_two_of_mem (S X T : List String) (n : String) (h1 : n ∈ S) (h2 : n ∈ X) : 2 ≤ (S ++ (X ++ T)).count n := by
  rw [List.count_append, List.count_append]
  have a := List.count_pos_iff.mpr h1
  have b := List.count_pos_iff.mpr h2
  omega

theorem regNames_split (i o : Char) (rpre : List RegDecl) (r : RegDecl) (rpost : List RegDecl) :
    regNames i o (rpre ++ r :: rpost) = regNames i o rpre ++ ([regOutName o r, regInName i r] ++ regNames i o rpost) := by
  simp [regNames]

theorem allRegNames_split (bpre : List BankDecl) (b : BankDecl) (bpost : List BankDecl) :
    allRegNames (bpre ++ b :: bpost) = allRegNames bpre ++ (bankRegNames b ++ allRegNames bpost) := by
  simp [allRegNames]

/-! ### the faults of one register, on the statement list -/

/-- what a diagnostic about register `r` of bank `b` (name `[inP, outP]`) claims -/
def RegFault (fl : Flags) (fixed : List FixedFunction) (stmts : List Stmt) (constants : AMap WireValue)
    (b : BankDecl) (inP outP : Char) (r : RegDecl) (d : Diag) : Prop :=
  -- the default reads a wire (a built-in name or a declared wire) that is not a declared constant
  (∃ n ∈ refs r.default, d = ⟨.NonConstantWireRead, [n]⟩ ∧ (n ∈ fixedNamesOf fixed ∨ DeclaredWire stmts n) ∧
    ¬ DeclaredConst stmts n) ∨
  -- one of the register's two signal names is also declared by a `wire`/`const` statement
  (∃ n, (n = regInName inP r ∨ n = regOutName outP r) ∧ d = ⟨.RedeclaredWire, [n]⟩ ∧ n ∈ allDeclared stmts) ∨
  -- the bank has two registers of this name
  (d = ⟨.DuplicateRegister, [b.name, r.name]⟩ ∧ 2 ≤ (b.regs.map (·.name)).count r.name) ∨
  -- the register's output is assigned
  (d = ⟨.DoubleAssignedRegisterWire, [regOutName outP r]⟩ ∧ regOutName outP r ∈ allTargets stmts) ∨
  -- one of the two signal names occurs twice among the register signal names of all banks
  (∃ n, (n = regInName inP r ∨ n = regOutName outP r) ∧ d = ⟨.DoubleDeclaredRegisterOutWire, [n]⟩ ∧
    2 ≤ (allRegNames (banksOf stmts)).count n) ∨
  -- a diagnostic of the width checker / evaluator for the default, over the constants
  (∃ ds', checkFixEval fl (wOf constants).toCtx constants.toEnv r.default = .error ds' ∧ d ∈ ds') ∨
  -- the default's width does not fit the register's
  (∃ v, checkFixEval fl (wOf constants).toCtx constants.toEnv r.default = .ok v ∧ v.width.combine r.width = none ∧
    d = ⟨.MismatchedRegisterDefaultWidths, [b.name, r.name]⟩)

section
variable (fl : Flags) (cls : CharClass) (o : Orders) (fixed : List FixedFunction) (stmts : List Stmt)
  (constants : AMap WireValue) (h12 : Stage12 fl o fixed stmts constants)
include h12

theorem regDiag_fault (bpre : List BankDecl) (b : BankDecl) (bpost : List BankDecl) (hb : banksOf stmts = bpre ++ b :: bpost)
    (inP outP : Char) (hname : b.name.toList = [inP, outP])
    (rpre : List RegDecl) (r : RegDecl) (rpost : List RegDecl) (hr : b.regs = rpre ++ r :: rpost) (d : Diag)
    (h : RegDiag fl (step1G fixed stmts) constants b.name inP outP (allRegNames bpre ++ regNames inP outP rpre)
      (rpre.map (regOutName outP)) r d) :
    RegFault fl fixed stmts constants b inP outP r d := by
  have hall : allRegNames (banksOf stmts) = (allRegNames bpre ++ regNames inP outP rpre) ++
      ([regOutName outP r, regInName inP r] ++ (regNames inP outP rpost ++ allRegNames bpost)) := by
    rw [hb, allRegNames_split, bankRegNames_of_name b inP outP hname, hr, regNames_split]
    simp only [List.append_assoc]
  rcases h with h | h | h | h | h | h | h | h
  · obtain ⟨n, hn, hd, hw, hc⟩ := h
    have hw' := (step1G_wire_iff fixed stmts n).mp hw
    refine Or.inl ⟨n, hn, hd, hw', ?_⟩
    intro hdc
    rcases hw' with hf | hdw
    · exact h12.declNotBuiltin n (declaredConst_declared stmts n hdc) hf
    · exact wire_const_not_nodup stmts n hdw hdc h12.declNodup
  · obtain ⟨n, hn, hd, hdecl⟩ := h
    exact Or.inr (Or.inl ⟨n, hn, hd, (step1G_declared_iff fixed stmts n).mp hdecl⟩)
  · obtain ⟨hd, hk⟩ := h
    refine Or.inr (Or.inr (Or.inl ⟨hd, ?_⟩))
    obtain ⟨r', hr', e⟩ := List.mem_map.mp hk
    have hname' : r'.name = r.name := regOutName_inj outP r' r e
    rw [hr, List.map_append, List.map_cons, List.count_append, List.count_cons_self]
    have : 0 < (rpre.map (·.name)).count r.name :=
      List.count_pos_iff.mpr (List.mem_map.mpr ⟨r', hr', hname'⟩)
    omega
  · obtain ⟨hd, ha⟩ := h
    exact Or.inr (Or.inr (Or.inr (Or.inl ⟨hd, (step1G_assignments_contains_iff fixed stmts _).mp ha⟩)))
  · obtain ⟨hd, hs⟩ := h
    refine Or.inr (Or.inr (Or.inr (Or.inr (Or.inl ⟨_, Or.inr rfl, hd, ?_⟩))))
    rw [hall]
    exact count_two_of_mem _ _ _ _ hs (by simp)
  · obtain ⟨hd, hs⟩ := h
    refine Or.inr (Or.inr (Or.inr (Or.inr (Or.inl ⟨_, Or.inl rfl, hd, ?_⟩))))
    rw [hall]
    rcases hs with hs | hs
    · exact count_two_of_mem _ _ _ _ hs (by simp)
    · rw [hs]
      simp only [List.count_append, List.count_cons_self, List.count_nil]
      omega
  · exact Or.inr (Or.inr (Or.inr (Or.inr (Or.inr (Or.inl h)))))
  · exact Or.inr (Or.inr (Or.inr (Or.inr (Or.inr (Or.inr h)))))

/-- **soundness of the diagnostics of steps 3 and 4**: when stage 1 reports nothing, the constants resolve and steps 3/4
    report something, the result of `Program::new` consists of diagnostics of the kinds below, and each names a fault that
    is there.  (`InternalPanic` and `UnsetBuiltinWire` cannot come out of these steps.) -/
theorem stage3_sound
    (hwid : ∀ b, Stmt.bank b ∈ stmts → ∀ r ∈ b.regs, r.width.ok)
    (ds : List Diag)
    (hne : (step3Of fl cls (step1G fixed stmts) constants).errors ++
        e4Of (step1G fixed stmts) (step3Of fl cls (step1G fixed stmts) constants) ≠ [])
    (h : Program.new fl cls o fixed stmts = .error ds) (d : Diag) (hd : d ∈ ds) :
    -- step 4
    (∃ n, d = ⟨.UnsetWire, [n]⟩ ∧ DeclaredWire stmts n ∧ n ∉ allTargets stmts) ∨
    (∃ n, d = ⟨.UnsetRegisterInputWire, [n]⟩ ∧ n ∉ allTargets stmts ∧ n ∉ allDeclared stmts ∧
      ∃ b, Stmt.bank b ∈ stmts ∧ ∃ inP outP, b.name.toList = [inP, outP] ∧ cls.isLower inP = true ∧ cls.isUpper outP = true ∧
        ∃ r ∈ b.regs, n = regInName inP r) ∨
    -- step 3: a bank
    (∃ b, Stmt.bank b ∈ stmts ∧ d = ⟨.InvalidRegisterBankName, [b.name]⟩ ∧
      ¬ ∃ i o, b.name.toList = [i, o] ∧ cls.isLower i = true ∧ cls.isUpper o = true) ∨
    (∃ b, Stmt.bank b ∈ stmts ∧ ∃ inP outP, b.name.toList = [inP, outP] ∧ cls.isLower inP = true ∧ cls.isUpper outP = true ∧
      ∃ n, (n = "stall_" ++ String.ofList [outP] ∨ n = "bubble_" ++ String.ofList [outP]) ∧
        d = ⟨.RedeclaredWire, [n]⟩ ∧ n ∈ allDeclared stmts) ∨
    -- step 3: a register
    (∃ b, Stmt.bank b ∈ stmts ∧ ∃ inP outP, b.name.toList = [inP, outP] ∧ cls.isLower inP = true ∧ cls.isUpper outP = true ∧
      ∃ r ∈ b.regs, RegFault fl fixed stmts constants b inP outP r d) := by
  have h1 := errs1Of_nil_of fl o fixed stmts constants h12
  rw [Program_new_stage3_error fl cls o fixed stmts constants h1 h12.constantsResolve hne] at h
  simp only [Except.error.injEq] at h
  subst h
  have hraw := step1G_banksRaw fixed stmts
  rcases List.mem_append.mp hd with hd | hd
  · -- step 3
    have hw : ∀ b ∈ (step1G fixed stmts).banksRaw, ∀ r ∈ b.regs, r.width.ok := by
      intro b hb; rw [hraw] at hb; exact hwid b ((mem_banksOf stmts b).mp hb)
    obtain ⟨bpre, b, bpost, hl, hbd⟩ := step3Of_sound fl cls (step1G fixed stmts) constants hw d hd
    rw [hraw] at hl
    have hb : Stmt.bank b ∈ stmts := (mem_banksOf stmts b).mp (by rw [hl]; simp)
    rcases hbd with ⟨hd', hbad⟩ | ⟨inP, outP, hname, hl', hu, hrest⟩
    · exact Or.inr (Or.inr (Or.inl ⟨b, hb, hd', hbad⟩))
    · rcases hrest with ⟨n, hn, hd', hdecl⟩ | ⟨rpre, r, rpost, hr, hreg⟩
      · exact Or.inr (Or.inr (Or.inr (Or.inl ⟨b, hb, inP, outP, hname, hl', hu, n, hn, hd',
          (step1G_declared_iff fixed stmts n).mp hdecl⟩)))
      · refine Or.inr (Or.inr (Or.inr (Or.inr ⟨b, hb, inP, outP, hname, hl', hu, r, by rw [hr]; simp, ?_⟩)))
        exact regDiag_fault fl o fixed stmts constants h12 bpre b bpost hl inP outP hname rpre r rpost hr d hreg
  · -- step 4
    obtain ⟨n, hn, ha, hk⟩ := e4Of_sound _ _ d hd
    have hna : n ∉ allTargets stmts := by
      intro hm
      have := (step1G_assignments_contains_iff fixed stmts n).mpr hm
      rw [ha] at this; cases this
    have hregin : (step3Of fl cls (step1G fixed stmts) constants).registerIns.contains n = true →
        IsRegIn cls (step1G fixed stmts) (banksOf stmts) n := by
      intro hc
      rw [← hraw]
      exact step3Of_registerIns fl cls _ constants n (List.contains_iff_mem.mp hc)
    unfold neededOf at hn
    rw [mem_foldl_setInsert] at hn
    rcases hk with ⟨hd', hdecl⟩ | ⟨hd', hdecl, hri⟩ | ⟨hd', hdecl, hri⟩
    · refine Or.inl ⟨n, hd', ?_, hna⟩
      rcases hn with hn | hn
      · exact (step1G_needed_iff fixed stmts n).mp hn
      · exfalso
        have hri := step3Of_bankIns_registerIns fl cls _ constants n hn
        obtain ⟨_, _, _, _, _, _, _, _, _, _, hnd⟩ := hregin (List.contains_iff_mem.mpr hri)
        exact hnd (List.contains_iff_mem.mp hdecl)
    · obtain ⟨b, hb, inP, outP, hname, hl, hu, r, hr, hnr, hnd⟩ := hregin hri
      exact Or.inr (Or.inl ⟨n, hd', hna, fun hm => hnd ((step1G_declared_iff fixed stmts n).mpr hm),
        b, (mem_banksOf stmts b).mp hb, inP, outP, hname, hl, hu, r, hr, hnr⟩)
    · exfalso
      rcases hn with hn | hn
      · have := List.contains_iff_mem.mpr ((step1G_declared_iff fixed stmts n).mpr
          (declaredWire_declared stmts n ((step1G_needed_iff fixed stmts n).mp hn)))
        rw [hdecl] at this; cases this
      · have := List.contains_iff_mem.mpr (step3Of_bankIns_registerIns fl cls _ constants n hn)
        rw [hri] at this; cases this

end

end FaultNamed
