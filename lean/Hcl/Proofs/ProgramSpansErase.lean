import Hcl.Proofs.ProgramSpansStage1
open Rust

/-! Steps 3 to 5 of `Program.newSp` against `Program.new`, and the erasure theorem: forgetting the spans of the
    diagnostics of `Program.newSp` gives exactly `Program.new` on the statements without spans. -/

namespace Parser

/-- a table of spans and the list of names the span-less model keeps for it: a lookup succeeds exactly on the names -/
theorem get?_cases {m : AMap Span} {l : List String} (h : AMap.keys m = l) (n : String) :
    (∃ sp, AMap.get? m n = some sp ∧ l.contains n = true) ∨ (AMap.get? m n = none ∧ l.contains n = false) := by
  have hk := get?_isSome_keys m n
  rw [h] at hk
  cases hg : AMap.get? m n with
  | some sp => left; rw [hg] at hk; exact ⟨sp, rfl, by simpa using hk.symm⟩
  | none => right; rw [hg] at hk; exact ⟨rfl, by simpa using hk.symm⟩

/-- split on whether a name has a span in a table whose keys are the list `l`, and reduce the `match` / `if` on it -/
macro "span_cases " h:term " at " n:term : tactic =>
  `(tactic| (rcases get?_cases $h $n with ⟨sp, hg, hc⟩ | ⟨hg, hc⟩ <;>
      simp only [hg, hc, if_true, Bool.false_eq_true, if_false, List.map_cons, List.map_nil, erase_mk]))

theorem keys_append_single (m : AMap Span) (k : String) (v : Span) : AMap.keys (m ++ [(k, v)]) = AMap.keys m ++ [k] := by
  simp [AMap.keys]

/-! ### step 3 -/

/-- the state of step 3 with spans against the span-less one -/
structure Rel3 (t : Step3Sp) (s : Step3) : Prop where
  banks : t.banks = s.banks
  errors : t.errors.map DiagSp.erase = s.errors
  seen : AMap.keys t.seenRegisters = s.seenRegisters
  defaulted : t.defaulted = s.defaulted
  wireTypes : t.wireTypes = s.wireTypes
  regIns : ∀ n, AMap.contains t.registerIns n = s.registerIns.contains n

theorem regPreSp_erase (t1 : Step1Sp) (h1 : Inv1 t1) (constants : AMap WireValue) (bank inName outName : String)
    (acc : BankAcc) (seenSp : AMap Span) (seen : List String) (hs : AMap.keys seenSp = seen) (r : SRegDecl) :
    (regPreSp t1 constants bank inName outName acc seenSp r).1.map DiagSp.erase
        = (regPre t1.s constants bank inName outName acc seen r.erase).1 ∧
    AMap.keys (regPreSp t1 constants bank inName outName acc seenSp r).2
        = (regPre t1.s constants bank inName outName acc seen r.erase).2 := by
  unfold regPreSp regPre
  simp only [SRegDecl.erase, PEx.toEx]
  -- the four diagnostics that do not depend on the registers seen so far
  have parts : ∀ (x5 x6 : List DiagSp) (y5 y6 : List Diag), x5.map DiagSp.erase = y5 → x6.map DiagSp.erase = y6 →
      (((dedupS (refs r.default.erase)).flatMap fun n =>
          if t1.s.wires.contains n && !constants.contains n then
            (refSpans n r.default).map fun sp => (⟨.NonConstantWireRead, [n], [sp]⟩ : DiagSp) else []) ++
        ([inName, outName].flatMap fun n =>
          match AMap.get? t1.declSpans n with
          | some other => [(⟨.RedeclaredWire, [n], [r.span, other]⟩ : DiagSp)]
          | none => []) ++
        (if AMap.contains acc.defaults outName then [(⟨.DuplicateRegister, [bank, r.name], []⟩ : DiagSp)] else []) ++
        (if AMap.contains t1.assigns outName then
          [(⟨.DoubleAssignedRegisterWire, [outName], [r.span, spanOf t1.assignSpans outName]⟩ : DiagSp)] else []) ++ x5 ++ x6).map DiagSp.erase =
      ((dedupS (refs r.default.erase)).flatMap fun n =>
          if t1.s.wires.contains n && !constants.contains n then
            List.replicate (occurrences r.default.erase n) (⟨.NonConstantWireRead, [n]⟩ : Diag) else []) ++
        ([inName, outName].flatMap fun n => if t1.s.declared.contains n then [(⟨.RedeclaredWire, [n]⟩ : Diag)] else []) ++
        (if AMap.contains acc.defaults outName then [(⟨.DuplicateRegister, [bank, r.name]⟩ : Diag)] else []) ++
        (if AMap.contains t1.s.assignments outName then [(⟨.DoubleAssignedRegisterWire, [outName]⟩ : Diag)] else []) ++ y5 ++ y6 := by
    intro x5 x6 y5 y6 h5 h6
    simp only [List.map_append, h5, h6]
    congr 1
    congr 1
    congr 1
    congr 1
    congr 1
    · apply flatMap_map_erase
      intro n _
      by_cases hc : (t1.s.wires.contains n && !constants.contains n) = true
      · simp only [hc, if_true]; exact map_refSpans_erase _ _ _
      · simp only [hc]; rfl
    · apply flatMap_map_erase
      intro n _
      span_cases h1.decl at n
    · cases AMap.contains acc.defaults outName <;> simp [erase_mk]
    · rw [← h1.assigns, eraseVals_contains]
      cases AMap.contains t1.assigns outName <;> simp [erase_mk]
  rcases get?_cases hs outName with ⟨sp0, hg0, hc0⟩ | ⟨hg0, hc0⟩
  · simp only [hg0, hc0, if_true]
    rcases get?_cases hs inName with ⟨sp1, hg1, hc1⟩ | ⟨hg1, hc1⟩
    · simp only [hg1, hc1, if_true]
      exact ⟨parts _ _ _ _ rfl rfl, hs⟩
    · simp only [hg1, hc1, Bool.false_eq_true, if_false]
      exact ⟨parts _ _ _ _ rfl rfl, by rw [keys_append_single, hs]⟩
  · have hs1 : AMap.keys (seenSp ++ [(outName, r.span)]) = seen ++ [outName] := by rw [keys_append_single, hs]
    simp only [hg0, hc0, Bool.false_eq_true, if_false]
    rcases get?_cases hs1 inName with ⟨sp1, hg1, hc1⟩ | ⟨hg1, hc1⟩
    · simp only [hg1, hc1, if_true]
      exact ⟨parts _ _ _ _ rfl rfl, hs1⟩
    · simp only [hg1, hc1, Bool.false_eq_true, if_false]
      exact ⟨parts _ _ _ _ rfl rfl, by rw [keys_append_single, hs1]⟩

theorem regEvalSp_erase (fl : Flags) (constants : AMap WireValue) (bank inName outName : String) (t : Step3Sp) (s : Step3)
    (h : Rel3 t s) (acc : BankAcc) (r : SRegDecl) :
    Rel3 (regEvalSp fl constants bank inName outName t acc r).1 (regEval fl constants bank inName outName s acc r.erase).1 ∧
    (regEvalSp fl constants bank inName outName t acc r).2 = (regEval fl constants bank inName outName s acc r.erase).2 := by
  unfold regEvalSp regEval
  simp only [SRegDecl.erase, PEx.toEx]
  have hc := checkFixEvalSp_erase fl (AMap.toCtx (constants.map fun p => (p.1, p.2.width))) (AMap.toEnv constants) r.default
  rw [← hc]
  cases checkFixEvalSp fl (AMap.toCtx (constants.map fun p => (p.1, p.2.width))) (AMap.toEnv constants) r.default with
  | error ds =>
    simp only [Except.mapError]
    exact ⟨⟨h.banks, by simp [h.errors], h.seen, h.defaulted, h.wireTypes, h.regIns⟩, by first | rfl | trivial⟩
  | ok value =>
    simp only [Except.mapError]
    cases hcomb : value.width.combine r.width <;> cases hasw : asWidth value r.width <;>
      refine ⟨⟨h.banks, by simp [h.errors, erase_mk, panicSp_erase], h.seen, h.defaulted, h.wireTypes, ?_⟩, by first | rfl | trivial⟩ <;>
      first
        | exact h.regIns
        | (intro n
           simp only [AMap.contains_insert, h.regIns n, List.contains_append, List.contains_cons, List.contains_nil, Bool.or_false])

theorem isEmpty_map_erase (l : List DiagSp) : (l.map DiagSp.erase).isEmpty = l.isEmpty := by
  cases l <;> rfl

theorem step3RegisterSp_erase (fl : Flags) (t1 : Step1Sp) (h1 : Inv1 t1) (constants : AMap WireValue) (bank : String)
    (inP outP : Char) (t : Step3Sp) (s : Step3) (h : Rel3 t s) (acc : BankAcc) (r : SRegDecl) :
    Rel3 (step3RegisterSp fl t1 constants bank inP outP (t, acc) r).1
         (step3Register fl t1.s constants bank inP outP (s, acc) r.erase).1 ∧
    (step3RegisterSp fl t1 constants bank inP outP (t, acc) r).2 =
      (step3Register fl t1.s constants bank inP outP (s, acc) r.erase).2 := by
  unfold step3RegisterSp step3Register
  have hn : r.erase.name = r.name := rfl
  simp only [hn]
  have hp := regPreSp_erase t1 h1 constants bank (String.ofList [inP, '_'] ++ r.name) (String.ofList [outP, '_'] ++ r.name)
    acc t.seenRegisters s.seenRegisters h.seen r
  have hrel : Rel3
      { t with wireTypes := (t.wireTypes.insert (String.ofList [inP, '_'] ++ r.name) .bankInput).insert (String.ofList [outP, '_'] ++ r.name) .bankOutput,
               seenRegisters := (regPreSp t1 constants bank (String.ofList [inP, '_'] ++ r.name) (String.ofList [outP, '_'] ++ r.name) acc t.seenRegisters r).2,
               errors := t.errors ++ (regPreSp t1 constants bank (String.ofList [inP, '_'] ++ r.name) (String.ofList [outP, '_'] ++ r.name) acc t.seenRegisters r).1 }
      { s with wireTypes := (s.wireTypes.insert (String.ofList [inP, '_'] ++ r.name) .bankInput).insert (String.ofList [outP, '_'] ++ r.name) .bankOutput,
               seenRegisters := (regPre t1.s constants bank (String.ofList [inP, '_'] ++ r.name) (String.ofList [outP, '_'] ++ r.name) acc s.seenRegisters r.erase).2,
               errors := s.errors ++ (regPre t1.s constants bank (String.ofList [inP, '_'] ++ r.name) (String.ofList [outP, '_'] ++ r.name) acc s.seenRegisters r.erase).1 } :=
    ⟨h.banks, by simp only [List.map_append, h.errors, hp.1], hp.2, h.defaulted, by simp only [h.wireTypes], h.regIns⟩
  rw [← hp.1, isEmpty_map_erase]
  by_cases he : (regPreSp t1 constants bank (String.ofList [inP, '_'] ++ r.name) (String.ofList [outP, '_'] ++ r.name) acc t.seenRegisters r).1.isEmpty = true
  · simp only [he, Bool.not_true, Bool.false_eq_true, if_false]
    rw [hp.1]
    exact regEvalSp_erase fl constants bank _ _ _ _ hrel acc r
  · have he' : (regPreSp t1 constants bank (String.ofList [inP, '_'] ++ r.name) (String.ofList [outP, '_'] ++ r.name) acc t.seenRegisters r).1.isEmpty = false := by
      simpa using he
    simp only [he', Bool.not_false, if_true]
    rw [hp.1]
    exact ⟨hrel, by first | rfl | trivial⟩

theorem foldl_registers_erase (fl : Flags) (t1 : Step1Sp) (h1 : Inv1 t1) (constants : AMap WireValue) (bank : String)
    (inP outP : Char) : ∀ (regs : List SRegDecl) (t : Step3Sp) (s : Step3) (acc : BankAcc), Rel3 t s →
    Rel3 (regs.foldl (step3RegisterSp fl t1 constants bank inP outP) (t, acc)).1
         ((regs.map SRegDecl.erase).foldl (step3Register fl t1.s constants bank inP outP) (s, acc)).1 ∧
    (regs.foldl (step3RegisterSp fl t1 constants bank inP outP) (t, acc)).2 =
      ((regs.map SRegDecl.erase).foldl (step3Register fl t1.s constants bank inP outP) (s, acc)).2
  | [], t, s, acc, h => ⟨h, rfl⟩
  | r :: rest, t, s, acc, h => by
    simp only [List.foldl_cons, List.map_cons]
    have h2 := step3RegisterSp_erase fl t1 h1 constants bank inP outP t s h acc r
    generalize step3RegisterSp fl t1 constants bank inP outP (t, acc) r = a at h2 ⊢
    generalize step3Register fl t1.s constants bank inP outP (s, acc) r.erase = b at h2 ⊢
    obtain ⟨a1, a2⟩ := a
    obtain ⟨b1, b2⟩ := b
    simp only at h2
    obtain ⟨h3, h4⟩ := h2
    subst h4
    exact foldl_registers_erase fl t1 h1 constants bank inP outP rest a1 b1 a2 h3

/-- the end of `step3Bank`: the registers are folded and the bank is recorded -/
theorem bank_finish (fl : Flags) (t1 : Step1Sp) (h1 : Inv1 t1) (constants : AMap WireValue) (bname : String)
    (inP outP : Char) (regs : List SRegDecl) (stall bubble : String) (t' : Step3Sp) (s' : Step3) (hrel : Rel3 t' s') :
    Rel3
      { (regs.foldl (step3RegisterSp fl t1 constants bname inP outP) (t', {})).1 with
        banks := (regs.foldl (step3RegisterSp fl t1 constants bname inP outP) (t', {})).1.banks ++
          [{ label := bname, signals := (regs.foldl (step3RegisterSp fl t1 constants bname inP outP) (t', {})).2.signals,
             defaults := (regs.foldl (step3RegisterSp fl t1 constants bname inP outP) (t', {})).2.defaults,
             stall := stall, bubble := bubble }] }
      { ((regs.map SRegDecl.erase).foldl (step3Register fl t1.s constants bname inP outP) (s', {})).1 with
        banks := ((regs.map SRegDecl.erase).foldl (step3Register fl t1.s constants bname inP outP) (s', {})).1.banks ++
          [{ label := bname, signals := ((regs.map SRegDecl.erase).foldl (step3Register fl t1.s constants bname inP outP) (s', {})).2.signals,
             defaults := ((regs.map SRegDecl.erase).foldl (step3Register fl t1.s constants bname inP outP) (s', {})).2.defaults,
             stall := stall, bubble := bubble }] } := by
  obtain ⟨h3, h4⟩ := foldl_registers_erase fl t1 h1 constants bname inP outP regs t' s' {} hrel
  exact ⟨by simp only [h3.banks, h4], h3.errors, h3.seen, h3.defaulted, h3.wireTypes, h3.regIns⟩

theorem step3BankSp_erase (fl : Flags) (cls : CharClass) (t1 : Step1Sp) (h1 : Inv1 t1) (constants : AMap WireValue)
    (t : Step3Sp) (s : Step3) (h : Rel3 t s) (b : SBankDecl) :
    Rel3 (step3BankSp fl cls t1 constants t b) (step3Bank fl cls t1.s constants s b.erase) := by
  unfold step3BankSp step3Bank
  have hn : b.erase.name = b.name := rfl
  have hr : b.erase.regs = b.registers.map SRegDecl.erase := rfl
  simp only [hn, hr]
  have hbad : Rel3 { t with errors := t.errors ++ [⟨.InvalidRegisterBankName, [b.name], [b.nameSpan]⟩] }
      { s with errors := s.errors ++ [⟨.InvalidRegisterBankName, [b.name]⟩] } :=
    ⟨h.banks, by simp [h.errors, erase_mk], h.seen, h.defaulted, h.wireTypes, h.regIns⟩
  cases hl : b.name.toList with
  | nil => exact hbad
  | cons inP rest =>
    cases rest with
    | nil => exact hbad
    | cons outP rest2 =>
      cases rest2 with
      | cons c r3 => exact hbad
      | nil =>
        simp only
        by_cases hcls : (!cls.isLower inP || !cls.isUpper outP) = true
        · simp only [hcls, if_true]; exact hbad
        · simp only [hcls]
          have ha : ∀ n, AMap.contains t1.assigns n = AMap.contains t1.s.assignments n := by
            intro n; rw [← h1.assigns, eraseVals_contains]
          apply bank_finish fl t1 h1 constants b.name inP outP b.registers
          refine ⟨h.banks, ?_, h.seen, by simp only [ha, h.defaulted], by simp only [h.wireTypes], h.regIns⟩
          simp only [List.map_append, h.errors]
          congr 1
          apply flatMap_map_erase
          intro n _
          span_cases h1.decl at n

theorem foldl_banks_erase (fl : Flags) (cls : CharClass) (t1 : Step1Sp) (h1 : Inv1 t1) (constants : AMap WireValue) :
    ∀ (bs : List SBankDecl) (t : Step3Sp) (s : Step3), Rel3 t s →
    Rel3 (bs.foldl (step3BankSp fl cls t1 constants) t) ((bs.map SBankDecl.erase).foldl (step3Bank fl cls t1.s constants) s)
  | [], _, _, h => h
  | b :: rest, t, s, h => by
    simp only [List.foldl_cons, List.map_cons]
    exact foldl_banks_erase fl cls t1 h1 constants rest _ _ (step3BankSp_erase fl cls t1 h1 constants t s h b)

/-! ### `assignments_to_actions` -/

theorem loopStep_errors (fl : Flags) (t1 : Step1Sp) (h1 : Inv1 t1) (widths : AMap Width) (constants : AMap WireValue)
    (byOutput : AMap FixedFunction) (st : LoopState) (name : String) :
    (loopStep fl t1.s.assignments widths t1.s.declared constants byOutput st name).errors =
      st.errors ++ (loopStepErrsSp fl t1.assigns widths t1.declSpans t1.assignSpans constants byOutput st name).map DiagSp.erase := by
  unfold loopStep loopStepErrsSp
  rw [← h1.assigns, eraseVals_get?]
  cases hg : AMap.get? t1.assigns name with
  | some x =>
    simp only [Option.map_some]
    cases hw : AMap.get? widths name with
    | some w =>
      simp only
      have hc := checkSp_erase fl (AMap.toCtx widths) (AMap.toEnv constants) x
      rw [← hc]
      cases checkSp fl (AMap.toCtx widths) (AMap.toEnv constants) x with
      | ok ew =>
        simp only [Except.mapError]
        by_cases hall : (refs x.erase).all st.covered.contains = true <;>
          cases w.combine ew <;> simp [hall, panicSp_erase, erase_mk]
      | error ds =>
        simp only [Except.mapError]
        by_cases hall : (refs x.erase).all st.covered.contains = true <;> simp [hall, panicSp_erase]
    | none =>
      simp only
      by_cases hall : (refs x.erase).all st.covered.contains = true <;> simp [hall, panicSp_erase, erase_mk]
  | none =>
    simp only [Option.map_none]
    cases hb : AMap.get? byOutput name with
    | some f =>
      simp only
      by_cases hall : (f.inWires.map (·.1)).all st.covered.contains = true <;> simp [hall, panicSp_erase]
    | none =>
      simp only
      span_cases h1.decl at name <;> simp

theorem actionsLoopSp_erase (fl : Flags) (t1 : Step1Sp) (h1 : Inv1 t1) (widths : AMap Width) (constants : AMap WireValue)
    (byOutput : AMap FixedFunction) : ∀ (names : List String) (st : LoopState) (es : List DiagSp),
    es.map DiagSp.erase = st.errors →
    (actionsLoopSp fl t1 widths constants byOutput names (st, es)).1 =
      actionsLoop fl t1.s.assignments widths t1.s.declared constants byOutput names st ∧
    (actionsLoopSp fl t1 widths constants byOutput names (st, es)).2.map DiagSp.erase =
      (actionsLoop fl t1.s.assignments widths t1.s.declared constants byOutput names st).errors
  | [], st, es, h => ⟨rfl, h⟩
  | name :: rest, st, es, h => by
    unfold actionsLoopSp actionsLoop
    simp only [List.foldl_cons]
    have := actionsLoopSp_erase fl t1 h1 widths constants byOutput rest
      (loopStep fl t1.s.assignments widths t1.s.declared constants byOutput st name)
      (es ++ loopStepErrsSp fl t1.assigns widths t1.declSpans t1.assignSpans constants byOutput st name)
      (by rw [List.map_append, h, loopStep_errors fl t1 h1])
    unfold actionsLoopSp actionsLoop at this
    exact this

theorem assignmentsToActionsSp_erase (fl : Flags) (o : Orders) (t1 : Step1Sp) (h1 : Inv1 t1) (widths : AMap Width)
    (known : List String) (fixed : List FixedFunction) (constants : AMap WireValue) :
    eraseE (assignmentsToActionsSp fl o t1 widths known fixed constants) =
      assignmentsToActions fl o t1.s.assignments widths known fixed t1.s.declared constants := by
  unfold assignmentsToActionsSp assignmentsToActions
  simp only
  generalize fixed.foldl (preprocessOne fl widths constants t1.s.assignments known) { graph := assignGraph t1.s.assignments known } = pre
  by_cases hp : (!pre.errors.isEmpty) = true
  · simp only [hp, if_true, Except.mapError, map_erase_ofDiag]
  · simp only [hp]
    cases pre.graph.sort o with
    | ok sorted =>
      simp only
      have h := actionsLoopSp_erase fl t1 h1 widths constants pre.info.byOutput sorted { covered := known } [] rfl
      generalize actionsLoopSp fl t1 widths constants pre.info.byOutput sorted ({ covered := known }, []) = a at h ⊢
      obtain ⟨a1, a2⟩ := a
      simp only at h
      obtain ⟨h2, h3⟩ := h
      rw [← h2] at h3
      rw [← h2]
      dsimp only
      rw [← h3]
      have hm : (a2 ++ a1.seenUndeclared.map (fun n => (⟨.UnsetUndeclaredWire, [n], []⟩ : DiagSp))).map DiagSp.erase =
          a2.map DiagSp.erase ++ a1.seenUndeclared.map (fun n => (⟨.UnsetUndeclaredWire, [n]⟩ : Diag)) := by
        simp [List.map_append, List.map_map, Function.comp_def, erase_mk]
      rw [← hm, isEmpty_map_erase]
      by_cases he : (a2 ++ a1.seenUndeclared.map (fun n => (⟨.UnsetUndeclaredWire, [n], []⟩ : DiagSp))).isEmpty = true
      · simp only [he, if_true, Bool.false_eq_true, if_false, Except.mapError]
      · simp only [he, Bool.false_eq_true, if_false, Except.mapError]
    | cycle c => simp [Except.mapError, erase_mk]
    | panic => simp [Except.mapError, panicSp_erase]

/-! ### the erasure theorem -/

theorem newSp_erase (fl : Flags) (cls : CharClass) (o : Orders) (fixed : List FixedFunction) (ss : List SStmt) :
    (Program.newSp fl cls o fixed ss).mapError (List.map DiagSp.erase) =
      Program.new fl cls o fixed (ss.map SStmt.erase) := by
  unfold Program.newSp Program.new
  simp only
  have hs := fun fn fo => (step1_fold fn fo fixed ss).2
  have hi := fun fn fo => (step1_fold fn fo fixed ss).1
  rw [← hs]
  generalize ht : List.foldl (step1StmtSp _ _) { s := step1Init fixed } ss = t1
  have h1 : Inv1 t1 := by rw [← ht]; exact hi _ _
  clear hs hi
  -- the diagnostics of step 1
  have he1 : (t1.errs ++ assignedConstSp t1 ++ constRefErrorsSp t1).map DiagSp.erase =
      t1.s.errors ++ (t1.s.assigned.flatMap fun n => if AMap.contains t1.s.constantsRaw n then [(⟨.AssignedConstant, [n]⟩ : Diag)] else []) ++
        constRefErrors t1.s := by
    rw [List.map_append, List.map_append, h1.errs, assignedConstSp_erase t1 h1, constRefErrorsSp_erase t1 h1]
  rw [← he1, isEmpty_map_erase]
  by_cases hE1' : (t1.errs ++ assignedConstSp t1 ++ constRefErrorsSp t1).isEmpty = false
  · simp only [hE1', Bool.not_false, if_true, Except.mapError]
  have hE1 : (t1.errs ++ assignedConstSp t1 ++ constRefErrorsSp t1).isEmpty = true := by simpa using hE1'
  simp only [hE1, Bool.not_true, Bool.false_eq_true, if_false]
  -- step 2
  have h2 := resolveConstantsSp_erase fl o t1.consts
  rw [h1.consts] at h2
  rw [← h2]
  cases resolveConstantsSp fl o t1.consts with
  | error ds => simp only [Except.mapError]
  | ok constants =>
    simp only [Except.mapError]
    -- step 3
    have h3 := foldl_banks_erase fl cls t1 h1 constants t1.banks { wireTypes := t1.s.wireTypes } { wireTypes := t1.s.wireTypes }
      ⟨rfl, rfl, rfl, rfl, rfl, fun _ => rfl⟩
    rw [h1.banks] at h3
    generalize List.foldl (step3BankSp fl cls t1 constants) { wireTypes := t1.s.wireTypes } t1.banks = t3 at h3 ⊢
    generalize List.foldl (step3Bank fl cls t1.s constants) { wireTypes := t1.s.wireTypes } t1.s.banksRaw = s3 at h3 ⊢
    have hck : AMap.keys t1.consts = AMap.keys t1.s.constantsRaw := by rw [← h1.consts, eraseVals_keys]
    rw [h3.banks, hck]
    -- step 4
    have he4 : (((bankIns s3.banks).foldl setInsert t1.s.needed).flatMap fun n =>
        if AMap.contains t1.assigns n then ([] : List DiagSp) else
        match AMap.get? t1.declSpans n with
        | some sp => [⟨.UnsetWire, [n], [sp]⟩]
        | none =>
          match AMap.get? t3.registerIns n with
          | some sp => [⟨.UnsetRegisterInputWire, [n], [sp]⟩]
          | none => [⟨.UnsetBuiltinWire, [n], []⟩]).map DiagSp.erase =
        (((bankIns s3.banks).foldl setInsert t1.s.needed).flatMap fun n =>
          if AMap.contains t1.s.assignments n then ([] : List Diag) else
          if t1.s.declared.contains n then [⟨.UnsetWire, [n]⟩]
          else if s3.registerIns.contains n then [⟨.UnsetRegisterInputWire, [n]⟩]
          else [⟨.UnsetBuiltinWire, [n]⟩]) := by
      apply flatMap_map_erase
      intro n _
      rw [← h1.assigns, eraseVals_contains]
      by_cases ha : AMap.contains t1.assigns n = true
      · simp [ha]
      · simp only [ha]
        rcases get?_cases h1.decl n with ⟨sp, hg, hc⟩ | ⟨hg, hc⟩
        · simp only [hg, hc, if_true, Bool.false_eq_true, if_false, List.map_cons, List.map_nil, erase_mk]
        · simp only [hg, hc, Bool.false_eq_true, if_false]
          have hr := h3.regIns n
          rw [← AMap.get?_isSome_iff_contains] at hr
          cases hg2 : AMap.get? t3.registerIns n with
          | some sp2 =>
            rw [hg2] at hr
            have hr' : s3.registerIns.contains n = true := by simpa using hr.symm
            simp only [hr', if_true, List.map_cons, List.map_nil, erase_mk]
          | none =>
            rw [hg2] at hr
            have hr' : s3.registerIns.contains n = false := by simpa using hr.symm
            simp only [hr', Bool.false_eq_true, if_false, List.map_cons, List.map_nil, erase_mk]
    have he3 : (t3.errors ++ (((bankIns s3.banks).foldl setInsert t1.s.needed).flatMap fun n =>
        if AMap.contains t1.assigns n then ([] : List DiagSp) else
        match AMap.get? t1.declSpans n with
        | some sp => [⟨.UnsetWire, [n], [sp]⟩]
        | none =>
          match AMap.get? t3.registerIns n with
          | some sp => [⟨.UnsetRegisterInputWire, [n], [sp]⟩]
          | none => [⟨.UnsetBuiltinWire, [n], []⟩])).map DiagSp.erase = s3.errors ++
        (((bankIns s3.banks).foldl setInsert t1.s.needed).flatMap fun n =>
          if AMap.contains t1.s.assignments n then ([] : List Diag) else
          if t1.s.declared.contains n then [⟨.UnsetWire, [n]⟩]
          else if s3.registerIns.contains n then [⟨.UnsetRegisterInputWire, [n]⟩]
          else [⟨.UnsetBuiltinWire, [n]⟩]) := by
      rw [List.map_append, h3.errors, he4]
    rw [← he3, isEmpty_map_erase]
    generalize (t3.errors ++ _ : List DiagSp) = errs3
    by_cases hE3' : errs3.isEmpty = false
    · simp only [hE3', Bool.not_false, if_true, Except.mapError]
    have hE3 : errs3.isEmpty = true := by simpa using hE3'
    simp only [hE3, Bool.not_true, Bool.false_eq_true, if_false]
    by_cases hm : ((AMap.keys t1.s.constantsRaw).any fun k => !AMap.contains constants k) = true
    · simp only [hm, if_true, Except.mapError, panicSp_erase]
    · simp only [hm]
      have h5 := assignmentsToActionsSp_erase fl o t1 h1
        (insertAll (insertAll t1.s.wires (bankPairs s3.banks)) (constPairs (AMap.keys t1.s.constantsRaw) constants))
        (((constPairs (AMap.keys t1.s.constantsRaw) constants).map (·.1)).foldl setInsert ((bankOuts s3.banks).foldl setInsert []))
        fixed constants
      rw [← h5]
      cases assignmentsToActionsSp fl o t1
        (insertAll (insertAll t1.s.wires (bankPairs s3.banks)) (constPairs (AMap.keys t1.s.constantsRaw) constants))
        (((constPairs (AMap.keys t1.s.constantsRaw) constants).map (·.1)).foldl setInsert ((bankOuts s3.banks).foldl setInsert []))
        fixed constants with
      | error ds => simp only [Except.mapError, Bool.false_eq_true, if_false]
      | ok actions => simp only [Except.mapError, h3.defaulted, h3.wireTypes, Bool.false_eq_true, if_false]

end Parser
