//! Output of the generator and a watchdog over the code under test: when the real code does not come back from one
//! case within the limit (HCLV_HANG_SECS, default 60 s), the case in flight is written as `<request>\tHANG`, the
//! output is flushed and the process ends -- a run that hangs is an answer about the implementation, not a failure
//! of the harness.
use std::io::Write;
use std::sync::Mutex;
use std::time::{Duration, Instant};

struct Shared {
    out: std::io::BufWriter<std::fs::File>,
    inflight: Option<String>,
    last: Instant,
    emitted: u64,
    label: String,
}

static SH: Mutex<Option<Shared>> = Mutex::new(None);

fn clean_req(s: &str) -> String { s.replace('\t', " ").replace('\n', " ") }

pub fn init(path: &str, label: String) {
    let file = std::fs::File::create(path).expect("create outfile");
    *SH.lock().unwrap() = Some(Shared { out: std::io::BufWriter::new(file), inflight: None, last: Instant::now(), emitted: 0, label });
    let limit = std::env::var("HCLV_HANG_SECS").ok().and_then(|s| s.parse::<u64>().ok()).unwrap_or(60);
    std::thread::spawn(move || loop {
        std::thread::sleep(Duration::from_millis(250));
        let mut g = match SH.lock() { Ok(g) => g, Err(p) => p.into_inner() };
        if let Some(sh) = g.as_mut() {
            if sh.last.elapsed() > Duration::from_secs(limit) {
                let req = match sh.inflight.take() {
                    Some(r) => r,
                    None => format!("(hang {} (after {}))", sh.label, sh.emitted),
                };
                let _ = writeln!(sh.out, "{}\tHANG", clean_req(&req));
                let _ = sh.out.flush();
                std::process::exit(0);
            }
        }
    });
}

/// the request (or a description of the input) the real code is about to be run on
pub fn note(req: String) {
    let mut g = match SH.lock() { Ok(g) => g, Err(p) => p.into_inner() };
    if let Some(sh) = g.as_mut() { sh.inflight = Some(req); sh.last = Instant::now(); }
}

pub fn note_text(kind: &str, text: &str) {
    note(format!("(hang-on {} (text {}))", kind, crate::streams::sexp_escape(text)));
}

pub fn emit(req: String, res: String) {
    let mut g = match SH.lock() { Ok(g) => g, Err(p) => p.into_inner() };
    if let Some(sh) = g.as_mut() {
        writeln!(sh.out, "{}\t{}", clean_req(&req), res.replace('\t', " ").replace('\n', "\\n")).unwrap();
        sh.inflight = None;
        sh.last = Instant::now();
        sh.emitted += 1;
    }
}

pub fn finish() {
    let mut g = match SH.lock() { Ok(g) => g, Err(p) => p.into_inner() };
    if let Some(sh) = g.as_mut() { sh.out.flush().unwrap(); }
    *g = None;
}
