"""Generic per-property run: builds, audit, streams, escalation, verdict."""
import importlib
import json
import os
import sys
import time

import framework as fw


def load(prop):
    return importlib.import_module("props." + prop)


_feature_binaries = {}


def binary_for(out, default_binary, features):
    if features is None:
        return default_binary
    key = ",".join(features)
    if key not in _feature_binaries:
        with fw.BuildLock():
            ok, detail, b = fw.build_harness(features, "-f" + (key.replace(",", "+") or "none"))
        out.obligation("build:harness[%s]" % (key or "no features"), ok, detail[-2000:])
        _feature_binaries[key] = b if ok else None
    return _feature_binaries[key]


def run_streams(out, mod, binary, tier, seed, only_request=None, scale=1.0, deadline=None, stop_on_oracle=False):
    for st in mod.streams(tier, seed):
        if deadline is not None and time.time() > deadline:
            out.notes.append("search stopped at its time limit before stream " + st["name"])
            break
        if stop_on_oracle and out.oracle_failures:
            break
        if scale != 1.0 and st["stream"] not in ("graph-exhaustive", "graph-slice", "disasm"):
            st = dict(st)
            st["count"] = max(1, int(st["count"] * scale))
        t0 = time.time()
        try:
            b = binary_for(out, binary, st.get("features"))
            if b is None:
                continue
            cases = fw.run_stream(b, st["stream"], st.get("seed", seed), st["count"], st.get("extra", ()),
                                  tag=out.prop + "-" + st["name"], pygen=st.get("pygen"))
        except Exception as e:  # harness or driver crashed: the correspondence cannot be established
            out.obligation("stream:" + st["name"], False, str(e))
            continue
        nfail_corr = 0
        nfail_or = 0
        for i, (req, impl, ans) in enumerate(cases):
            if only_request is not None and req != only_request:
                continue
            model, spec = fw.split_answer(ans)
            # verdict of the statement-grammar model (lean/Hcl/Model/ParserStmts.lean) on the text of the request: the driver
            # parses the text itself and compares with the AST the real parser produced (or with its rejection)
            stmts_verdict = None
            spans_verdict = None
            if "stmts-model-" in spec:
                body, _, verdict = spec.partition("\x00")
                toks = verdict.split()
                sv = [t for t in toks if t.startswith("stmts-model-")]
                stmts_verdict = sv[0] if sv else None
                # ... and of its spanned version (Hcl/Model/ParserStmtsSp.lean) on the statement-level spans of the real AST
                sp = [t for t in toks if t.startswith("stmts-spans-")]
                spans_verdict = sp[0] if sp else None
                rest = [t for t in toks if not t.startswith(("stmts-model-", "stmts-spans-"))]
                spec = body + ("\x00" + " ".join(rest) if rest else "")
            if impl == "HANG":
                # the watchdog of the harness (harness/src/watch.rs): the real code did not come back from this input
                j = {"corr": False, "oracle": False, "key": req, "cats": ["hang"],
                     "what": "the implementation did not return from this input within the time limit (%s s): it hangs"
                             % os.environ.get("HCLV_HANG_SECS", "60")}
            else:
                j = st["judge"](req, impl, model, spec)
            if stmts_verdict is not None:
                out.count(st["name"] + ":" + stmts_verdict)
                if stmts_verdict not in ("stmts-model-agree", "stmts-model-rejects"):
                    j["corr"] = False
                    model = model + " [" + stmts_verdict + ": the statement-grammar model and the real parser disagree on this text]"
            if spans_verdict is not None:
                out.count(st["name"] + ":" + spans_verdict)
                if spans_verdict != "stmts-spans-agree":
                    j["corr"] = False
                    model = model + " [" + spans_verdict + ": the spans the statement-grammar model computes differ from those of the real AST]"
            out.case(st["name"], req, j.get("key"), sample=(i % max(1, len(cases) // 3) == 0))
            for c in j.get("cats", ()):
                out.count(st["name"] + ":" + c)
            if not j["corr"]:
                nfail_corr += 1
                if len(out.corr_failures) < 50:
                    out.corr_failures.append({"stream": st["name"], "request": req, "impl": impl, "model": model})
            if j.get("oracle") is False:
                nfail_or += 1
                if len(out.oracle_failures) < 200:
                    out.oracle_failures.append({"stream": st["name"], "request": req, "impl": impl, "spec": spec,
                                                "what": j.get("what", "impl differs from spec")})
        out.streams.append({"name": st["name"], "stream": st["stream"], "cases": len(cases),
                            "corr_failures": nfail_corr, "oracle_failures": nfail_or,
                            "wall_s": round(time.time() - t0, 2)})
        out.obligation("correspondence:" + st["name"], nfail_corr == 0,
                       "" if nfail_corr == 0 else "%d of %d cases: impl != model; first: %s" %
                       (nfail_corr, len(cases), json.dumps(out.corr_failures[0])[:1500]))


def run_property(prop, tier, seed, replay=None):
    mod = load(prop)
    out = fw.Outcome(prop, tier, seed)
    only_request = None
    if replay:
        rp = json.load(open(os.path.join(fw.VERIF, replay) if not os.path.isabs(replay) else replay))
        only_request = rp.get("request")
        tier = rp.get("tier", tier)
    with fw.BuildLock():
        ok, detail = fw.regenerate()
        out.obligation("translator:tools/extract.py", ok, detail)
        ok, detail = fw.lake_build(["driver"])
        out.obligation("build:lean-driver", ok, detail)
        driver_ok = ok
        for m in mod.THEOREM_MODULES:
            ok, detail = fw.lake_build([m])
            out.obligation("build:" + m, ok, detail)
            if ok:
                ths = mod.THEOREMS.get(m, [])
                aok, axs, raw = fw.audit_axioms(m, ths)
                out.theorems.update({t: axs.get(t) for t in ths})
                for t in ths:
                    a = axs.get(t)
                    out.obligation("theorem:" + t, a is not None and set(a) <= fw.ALLOWED_AXIOMS,
                                   "axioms: %s" % a if a is not None else "not found in module: " + raw[-500:])
                if tier == "thorough":
                    # the toolchain's independent re-checker replays the module's declarations through the kernel
                    rc, lout = fw.run(["lake", "env", "leanchecker", m], cwd=fw.LEAN_DIR, timeout=3600)
                    out.obligation("leanchecker:" + m, rc == 0, lout[-1500:])
            else:
                for t in mod.THEOREMS.get(m, []):
                    out.obligation("theorem:" + t, False, "module %s does not build" % m)
        bad = fw.source_scan()
        out.obligation("source-scan:no-sorry-axiom-native_decide", not bad, "; ".join(bad))
        hok, hdetail, binary = fw.build_harness()
        out.obligation("build:harness-against-/repo", hok, hdetail[-3000:])
    if hok and driver_ok:
        run_streams(out, mod, binary, tier, seed, only_request)
        if (out.broken() or out.corr_failures) and not out.oracle_failures and tier == "quick" and not replay:
            # search for a concrete failing input with the thorough budget
            fw.log("obligation or correspondence broken: searching with the thorough budget")
            out.notes.append("escalated to thorough budget after a broken obligation")
            # (a fifth of the thorough counts, stream by stream, stopping at the first failing input or after
            # VERIF_SEARCH_SECS, default 600 s: the quick check stays a check one can run on every change)
            limit = float(os.environ.get("VERIF_SEARCH_SECS", "600"))
            run_streams(out, mod, binary, "thorough", seed + 1, scale=0.2, deadline=time.time() + limit, stop_on_oracle=True)
    checker = "cd lean && lake build %s && lake env lean <#print axioms>; ./check %s --tier %s" % (
        " ".join(mod.THEOREM_MODULES), prop, tier)
    return fw.finish(out, mod.RULE, checker, getattr(mod, "EXTRA_COVERAGE", None))
