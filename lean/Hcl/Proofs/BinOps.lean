import Hcl.Proofs.Arith
open Rust

/-! `BinOpCode::apply` and `UnOpCode::apply` compute the specified function (`Spec.binVal`). -/

/-- the width computed by `applyBin` -/
def binWidth (fl : Flags) (op : BinOp) (a b : Width) : Option Width :=
  match op.kind with
  | .equalWidth => a.combine b
  | .equalWidthWeak => if fl.strictBinary then a.combine b else some (a.max b)
  | _ => some (.bits 1)

theorem binWidth_ok {fl op a b w} (ha : a.ok) (hb : b.ok) (h : binWidth fl op a b = some w) : w.ok := by
  unfold binWidth at h
  split at h
  · exact Width.combine_ok ha hb h
  · split at h
    · exact Width.combine_ok ha hb h
    · simp at h; subst h; exact Width.max_ok ha hb
  · simp at h; subst h; simp [Width.ok]

theorem binWidth_join {fl op a b w} (h : binWidth fl op a b = some w) :
    w = (match Spec.classOf op with
      | .arith | .bitwise => Spec.join a b
      | .compare | .logic => .bits 1) := by
  unfold binWidth at h
  cases op <;> simp [BinOp.kind, Spec.classOf] at h ⊢ <;>
    first
    | exact h.symm
    | exact (Width.combine_eq_join h).symm
    | (split at h
       · exact (Width.combine_eq_join h).symm
       · simp at h; rw [← h, Width.max_eq_join])

theorem binWidthE_of {fl op a b w} (h : binWidth fl op a b = some w) : binWidthE fl op a b = .ok w := by
  unfold binWidth at h
  unfold binWidthE
  split <;> simp_all [pure, Except.pure]
  split <;> simp_all

theorem applyBin_of_raw (fl : Flags) (op : BinOp) (x y raw : Nat) (a b w : Width)
    (hw : binWidth fl op a b = some w) (hwok : w.ok)
    (hnz : ¬ (op = .div ∧ y = 0)) (hraw : applyRaw op x y = .ok raw) :
    applyBin fl op ⟨x, a⟩ ⟨y, b⟩ = .ok ⟨raw % w.card, w⟩ := by
  unfold applyBin
  simp only [hnz, ↓reduceIte, binWidthE_of hw, hraw, bind, Except.bind]
  have := maskStep w hwok raw
  simpa [bind, Except.bind, pure, Except.pure] using this

theorem b2n_lt_two (b : Bool) : b2n b < 2 := by cases b <;> simp [b2n]
theorem b2n_mod (b : Bool) : b2n b % (Width.bits 1).card = b2n b := by
  cases b <;> simp [b2n, Width.card]

theorem applyBin_spec (fl : Flags) (op : BinOp) (x y : Nat) (a b w : Width)
    (ha : a.ok) (hb : b.ok) (hx : x < a.card) (hy : y < b.card)
    (hw : binWidth fl op a b = some w) :
    applyBin fl op ⟨x, a⟩ ⟨y, b⟩ = (match Spec.binVal op w x y with
      | some v => .ok ⟨v, w⟩
      | none => .error .divideByZero) ∧ (∀ v, Spec.binVal op w x y = some v → v < w.card) := by
  have hwok := binWidth_ok ha hb hw
  have hx' : x < U128 := Nat.lt_of_lt_of_le hx (a.card_le ha)
  have hy' : y < U128 := Nat.lt_of_lt_of_le hy (b.card_le hb)
  have hcard := Spec.card_eq w
  have hpos := w.card_pos
  by_cases hdz : op = .div ∧ y = 0
  · obtain ⟨rfl, rfl⟩ := hdz
    constructor
    · simp [applyBin, Spec.binVal, throw, throwThe, MonadExceptOf.throw, bind, Except.bind]
    · simp [Spec.binVal]
  · have key : ∀ raw, applyRaw op x y = .ok raw → ∀ sv, Spec.binVal op w x y = some sv → raw % w.card = sv →
        (applyBin fl op ⟨x, a⟩ ⟨y, b⟩ = (match Spec.binVal op w x y with
          | some v => .ok ⟨v, w⟩
          | none => .error .divideByZero) ∧ (∀ v, Spec.binVal op w x y = some v → v < w.card)) := by
      intro raw hraw sv hsv heq
      rw [applyBin_of_raw fl op x y raw a b w hw hwok hdz hraw, hsv, heq]
      refine ⟨rfl, ?_⟩
      intro v hv; cases hv; rw [← heq]; exact Nat.mod_lt _ hpos
    have hone : ∀ (c : Bool), w = .bits 1 → b2n c % w.card = Spec.b2n c := by
      intro c h; subst h; cases c <;> simp [b2n, Spec.b2n, Width.card]
    have hw1 : ∀ (h : op.kind = .boolCombine ∨ op.kind = .boolFromEq), w = .bits 1 := by
      intro h
      unfold binWidth at hw
      rcases h with h | h <;> simp [h] at hw <;> exact hw.symm
    cases op
    case add => exact key _ rfl _ rfl (by simp [wrappingAdd, mod_mod_card _ w hwok, hcard])
    case sub =>
      refine key _ rfl _ rfl ?_
      rw [hcard]; exact wrappingSub_mod x y w hwok hy'
    case mul => exact key _ rfl _ rfl (by simp [wrappingMul, mod_mod_card _ w hwok, hcard])
    case div =>
      have hy0 : y ≠ 0 := by intro h; exact hdz ⟨rfl, h⟩
      refine key (x / y) (by simp [applyRaw, hy0, pure, Except.pure]) ((x / y) % w.card) (by simp [Spec.binVal, hy0, hcard]) rfl
    case or => exact key _ rfl _ rfl (by simp [hcard])
    case xor => exact key _ rfl _ rfl (by simp [hcard])
    case and => exact key _ rfl _ rfl (by simp [hcard])
    case eq =>
      refine key _ rfl _ rfl ?_
      rw [hone _ (hw1 (Or.inr rfl))]; simp [Spec.b2n]
    case ne =>
      refine key _ rfl _ rfl ?_
      rw [hone _ (hw1 (Or.inr rfl))]; simp [Spec.b2n, bne]
    case le =>
      refine key _ rfl _ rfl ?_
      rw [hone _ (hw1 (Or.inr rfl))]
    case ge =>
      refine key _ rfl _ rfl ?_
      rw [hone _ (hw1 (Or.inr rfl))]
    case lt =>
      refine key _ rfl _ rfl ?_
      rw [hone _ (hw1 (Or.inr rfl))]
    case gt =>
      refine key _ rfl _ rfl ?_
      rw [hone _ (hw1 (Or.inr rfl))]
    case land =>
      refine key _ rfl _ rfl ?_
      rw [hone _ (hw1 (Or.inl rfl))]; simp [Spec.b2n, bne]
    case lor =>
      refine key _ rfl _ rfl ?_
      rw [hone _ (hw1 (Or.inl rfl))]; simp [Spec.b2n, bne]
    case shl =>
      refine key _ rfl _ rfl ?_
      by_cases h128 : y ≥ 128
      · simp [h128]
      · have hyy : y % 2 ^ 32 % 128 = y := by omega
        simp only [h128, ↓reduceIte, hyy, Nat.shiftLeft_eq, hcard]
        exact mod_mod_card _ w hwok
    case shr =>
      refine key _ rfl _ rfl ?_
      by_cases h128 : y ≥ 128
      · simp [h128]
      · have hyy : y % 2 ^ 32 % 128 = y := by omega
        simp only [h128, ↓reduceIte, hyy, Nat.shiftRight_eq_div_pow, hcard]
