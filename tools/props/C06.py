"""C06 — a run stops exactly at the first non-OK status or at the timeout, and says which."""
import re
from props.common_prog import judge_prog
from props import C19

THEOREM_MODULES = ["Hcl.Theorems.C06", "Hcl.Tie.Run", "Hcl.Tie.PinsRun"]
THEOREMS = {"Hcl.Tie.Run": ["Tie.Run.doneText", "Tie.Run.statuses", "Tie.Run.defaultTimeout"], "Hcl.Theorems.C06": ["C06_accepted", "runLoop_sound", "C06_terminates", "C06_stop", "C06_within_timeout", "C06_report", "stepCycle_cycle", "runN_cycle"],
            "Hcl.Tie.PinsRun": ["Tie.PinsRun.pinRun", "Tie.PinsRun.pinSetTimeout", "Tie.PinsRun.pinStatusOrDefault", "Tie.PinsRun.pinHalted", "Tie.PinsRun.pinTimedOut"]}

RULE = ("S-PROG status profile through RunningProgram::run(): Stat driven from a counter to produce every 3-bit value at "
        "cycle positions 0..6 (BUB or AOK before it), timeouts 0, 1 and 0..14 including the halting cycle; compared: number "
        "of executed cycles, banner (halted / timed out after N / error), the 'Cycles run:' count and the 'Error code:' "
        "number of the final dump, against the Lean model (runLoop/banner/reportLines) and against the specification "
        "(first status outside {AOK,BUB} or budget used up; halted > timed out > error+code). distinct = (text, timeout).")


def judge(req, impl, model, spec):
    corr = impl == model
    oracle = True
    what = ""
    cats = []
    if impl.startswith("run"):
        m = re.search(r"banner=([a-z]+)", impl)
        cats.append("banner-" + (m.group(1) if m else "none"))
        m = re.search(r"errorcode=(\d+)", impl)
        if m:
            cats.append("errorcode-" + m.group(1))
        t = re.search(r"\(timeout (\d+)\)", req)
        if t and t.group(1) == "0":
            cats.append("timeout-0")
        c = re.search(r"cycles=(\d+) banner=halted", impl)
        if c and t and c.group(1) == t.group(1):
            cats.append("halt-exactly-at-timeout")
        if impl != spec:
            oracle = False
            what = "run report differs from the specification: impl '%s' spec '%s'" % (impl[:150], spec[:150])
    elif impl.startswith("rej"):
        cats.append("rejected")
        if not spec.startswith("rej"):
            oracle = False
            what = "rejected a program the specification accepts: " + impl[:150]
    else:
        oracle = False
        what = "unexpected result " + impl[:150]
    t = re.search(r"\(text ([^)]*)\)", req)
    tm = re.search(r"\(timeout (\d+)\)", req)
    key = (t.group(1) + "|" + tm.group(1)) if (t and tm and impl.startswith("run")) else None
    return {"corr": corr, "oracle": oracle, "what": what, "key": key, "cats": cats}


def streams(tier, seed):
    q = tier == "quick"
    return [{"name": "run", "stream": "run", "count": 1500 if q else 60000, "judge": judge},
            {"name": "prog-status", "stream": "prog", "count": 200 if q else 5000, "extra": ("status",),
             "judge": lambda r, i, m, s: judge_prog(r, i, m, s)},
            # the TIMEOUT argument of the command line (0, 1, ..., 2^32-1, absent): the real binary, as in C19
            {"name": "cli", "stream": "cli", "count": 400 if q else 10000, "pygen": C19.pygen, "judge": C19.judge}]
