import Hcl.Generated

/-! Tie between the tables extracted from /repo on this run (`Hcl/Generated.lean`) and the values the
    hand-written model was validated against.  A change of the source shows up as a failing `rfl` here. -/

namespace Tie.Grammar

theorem grammarTiers : Generated.grammarTiers = ([("ExprLogicalOr", "BinTier", "BinOpLogicalOr", "ExprLogicalAnd"), ("ExprLogicalAnd", "BinTier", "BinOpLogicalAnd", "ExprCompare"), ("ExprCompare", "BinTierNonAssoc", "BinOpCompare", "ExprIn"), ("ExprOr", "BinTier", "BinOpOr", "ExprXor"), ("ExprXor", "BinTier", "BinOpXor", "ExprAnd"), ("ExprAnd", "BinTier", "BinOpAnd", "ExprShift"), ("ExprShift", "BinTier", "BinOpShift", "ExprAddSub"), ("ExprAddSub", "BinTier", "BinOpAddSub", "ExprMulDiv"), ("ExprMulDiv", "BinTier", "BinOpMulDiv", "Term")] : List (String × String × String × String)) := by rfl

theorem grammarOps : Generated.grammarOps = ([("BinOpAddSub", "+", "Add"), ("BinOpAddSub", "-", "Sub"), ("BinOpAnd", "&", "And"), ("BinOpXor", "^", "Xor"), ("BinOpOr", "|", "Or"), ("BinOpMulDiv", "*", "Mul"), ("BinOpMulDiv", "/", "Div"), ("BinOpCompare", "==", "Equal"), ("BinOpCompare", "!=", "NotEqual"), ("BinOpCompare", "<=", "LessEqual"), ("BinOpCompare", ">=", "GreaterEqual"), ("BinOpCompare", "<", "Less"), ("BinOpCompare", ">", "Greater"), ("BinOpLogicalAnd", "&&", "LogicalAnd"), ("BinOpLogicalOr", "||", "LogicalOr"), ("BinOpShift", "<<", "LeftShift"), ("BinOpShift", ">>", "RightShift"), ("UnOp", "+", "Plus"), ("UnOp", "-", "Negate"), ("UnOp", "~", "Complement"), ("UnOp", "!", "Not")] : List (String × String × String)) := by rfl

theorem grammarInOperand : Generated.grammarInOperand = (["ExprOr"] : List String) := by rfl

theorem grammarBounds : Generated.grammarBounds = ([128, 128] : List Nat) := by rfl

end Tie.Grammar
