"""C16 — the state dump shows the true machine state, completely and parseably."""

from props import C19
from props.common_prog import judge_prog

THEOREM_MODULES = ["Hcl.Theorems.C16", "Hcl.Theorems.C16ReadBack", "Hcl.Tie.Banks", "Hcl.Tie.PinsDump", "Hcl.Proofs.NamesAreIdentifiers", "Hcl.Theorems.FromText"]
THEOREMS = {"Hcl.Theorems.FromText": ["C16_dump_readback_from_text'", "C16_goodBank_from_text'"],
            "Hcl.Proofs.NamesAreIdentifiers": ["C16_names_from_text", "C16_names_are_identifiers", "C16_values_fit", "C16_goodBank_from_text", "C16_dump_readback_from_text", "Lexer.identifier_shape", "Parser.names_are_tokens", "Program_new_banks_from_decls"],
            "Hcl.Theorems.C16ReadBack": ["C16_dump_readback", "C16_registers_readback", "C16_memory_readback", "Dump.state_parse", "Dump.state_readback_error", "Dump.bank_readback", "Spec.DumpFormat.toNat?_toDec"],
            "Hcl.Tie.Banks": ["Tie.Banks.bankOrder"], "Hcl.Theorems.C16": ["C16_hex_roundtrip", "C16_hexpad_roundtrip", "hexDigits_roundtrip", "C16_memory_text", "C16_memory_tokens",
                                                                "C16_memory_roundtrip", "C16_memory_rows", "C16_memory_reachable",
                                                                "C16_bank_text", "C16_bank_registers", "C16_banks_all_printed", "Dump.printedBanks_perm",
                                                                "Dump.memToks_spec", "Dump.walkKey_key", "Yo.load_sorted", "runN_mem_sorted"],
            "Hcl.Tie.PinsDump": ["Tie.PinsDump.pinDumpMemory", "Tie.PinsDump.pinDumpBank", "Tie.PinsDump.pinDumpCustom", "Tie.PinsDump.pinDumpRegisters", "Tie.PinsDump.pinDumpY86", "Tie.PinsDump.pinNameStatus"]}

RULE = ("S-PROG memory: programs that store through the memory port (also zeros, also to never-used addresses): the set of used bytes after every cycle must be the model's. "
        "S-DUMP: machine states set through the verif-hooks setters - program registers 0..2^64-1, 0-4 memory clusters "
        "(unaligned first address, rows far apart, within 40 bytes of 2^64, holes inside rows), 0-6 register banks with 1-12 "
        "registers of width 0-128 and names of 1-60 characters incl. non-ASCII (forcing wrapped lines), random "
        "stall/bubble/Stat, cycle/timeout combinations for every banner, with and without -t - rendered by the real "
        "dump_y86_str. Correspondence: the text equals the Lean model Dump.state byte for byte. Oracle: the text read back by "
        "Spec.DumpFormat.parse yields exactly the state (15 registers, every bank with status and register values, exactly the "
        "used bytes at their addresses) and every line is framed by |/+. distinct = distinct requests; non-trivial = states "
        "with at least one memory byte or bank.")


def judge(req, impl, model, spec):
    parsed, _, state = spec.partition("\x00")
    ok = True
    what = ""
    if impl == "PANIC":
        ok = False
        what = "dump_y86_str panicked"
    elif impl.startswith("NONDETERMINISTIC-DUMP"):
        ok = False
        what = "the same state was printed differently by two calls: " + impl[:400]
    elif parsed != state:
        a, b = parsed.split(";"), state.split(";")
        d = next(((x, y) for x, y in zip(a, b) if x != y), ("?", "?"))
        ok = False
        what = "the dump does not read back to the state: parsed '%s' vs state '%s'" % (d[0][:150], d[1][:150])
    cats = []
    if "(mem)" not in req:
        cats.append("has-memory")
    if "register" in impl:
        cats.append("has-banks")
    if "|\\n|  " in impl and "register" in impl:
        pass
    nontrivial = bool(cats)
    return {"corr": impl == model, "oracle": ok, "what": what, "key": req if nontrivial else None, "cats": cats}


def streams(tier, seed):
    q = tier == "quick"
    return [{"name": "dump", "stream": "dump", "count": 1500 if q else 60000, "judge": judge},
            # "every memory byte that has been loaded or written": the memory after every cycle of programs that store (also
            # zeros, also to never-used addresses) is the model's, byte for byte - what the dump then prints is covered above
            {"name": "prog-memory", "stream": "prog", "count": 200 if q else 8000, "extra": ("memory",), "judge": judge_prog},
            # the same through FILES and the command line (accepted, rejected, big, not UTF-8, bare-CR, empty and malformed images, -q/-d/-t with and without TIMEOUT): the real binary, as in C19
            {"name": "cli", "stream": "cli", "count": 300 if q else 8000, "pygen": C19.pygen, "judge": C19.judge}]
