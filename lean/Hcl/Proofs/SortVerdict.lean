import Hcl.Theorems.C10

/-! Whether the sorter reports a loop does not depend on the iteration orders. -/

theorem IsPath_congr {g₁ g₂ : Graph} (h : ∀ u v, v ∈ g₁.succ u ↔ v ∈ g₂.succ u) :
    ∀ c : List Node, IsPath g₁ c → IsPath g₂ c
  | [], _ => trivial
  | [_], _ => trivial
  | a :: b :: t, hp => ⟨(h a b).mp hp.1, IsPath_congr h (b :: t) hp.2⟩

theorem IsCycle_congr {g₁ g₂ : Graph} (h : ∀ u v, v ∈ g₁.succ u ↔ v ∈ g₂.succ u) (c : List Node)
    (hc : IsCycle g₁ c) : IsCycle g₂ c := by
  cases c with
  | nil => exact hc
  | cons x t => exact ⟨IsPath_congr h _ hc.1, (h _ _).mp hc.2⟩

theorem topologicalSort_verdict (kg₁ kg₂ : KGraph) (dg₁ dg₂ : Graph)
    (wf₁ : KWF kg₁) (wf₂ : KWF kg₂) (s₁ : SameGraph kg₁ dg₁) (s₂ : SameGraph kg₂ dg₂)
    (hsame : ∀ u v, v ∈ dg₁.succ u ↔ v ∈ dg₂.succ u) :
    (∃ c, topologicalSort kg₁ dg₁ = .cycle c) ↔ (∃ c, topologicalSort kg₂ dg₂ = .cycle c) := by
  rw [C10_cycle_iff kg₁ dg₁ wf₁ s₁, C10_cycle_iff kg₂ dg₂ wf₂ s₂]
  constructor
  · rintro ⟨c, hc⟩; exact ⟨c, IsCycle_congr hsame c hc⟩
  · rintro ⟨c, hc⟩; exact ⟨c, IsCycle_congr (fun u v => (hsame u v).symm) c hc⟩

/-- for a graph the program builds: a loop is reported under one iteration order iff it is under every other -/
theorem GBuild.sort_verdict (g : GBuild) (o₁ o₂ : Orders) (wf : g.WF) (ho₁ : OrdersOK o₁) (ho₂ : OrdersOK o₂) :
    (∃ c, g.sort o₁ = .cycle c) ↔ (∃ c, g.sort o₂ = .cycle c) := by
  apply topologicalSort_verdict _ _ _ _ (g.kgraph_wf o₁ wf ho₁) (g.kgraph_wf o₂ wf ho₂) (g.same o₁ wf ho₁) (g.same o₂ wf ho₂)
  intro u v
  show v ∈ o₁.dsucc u (g.succOf u) ↔ v ∈ o₂.dsucc u (g.succOf u)
  rw [(ho₁.dsucc u _).mem_iff, (ho₂.dsucc u _).mem_iff]

/-- an accepted order under one iteration order means an accepted order under every other -/
theorem GBuild.sort_ok_of_ok (g : GBuild) (o₁ o₂ : Orders) (wf : g.WF) (ho₁ : OrdersOK o₁) (ho₂ : OrdersOK o₂)
    (order₁ : List Node) (h : g.sort o₁ = .ok order₁) : ∃ order₂, g.sort o₂ = .ok order₂ := by
  rcases g.sort_spec o₂ wf ho₂ with ⟨order, hso, _⟩ | ⟨c, hsc, _⟩
  · exact ⟨order, hso⟩
  · obtain ⟨c', hc'⟩ := (g.sort_verdict o₁ o₂ wf ho₁ ho₂).mpr ⟨c, hsc⟩
    rw [h] at hc'; cases hc'
