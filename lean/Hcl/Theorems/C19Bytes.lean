import Hcl.Model.CliBytes
import Hcl.Theorems.C19Argv

/-!
# C19 — argument vectors of bytes

`C19_argv_*` quantify over `List String`.  The operating system hands over byte strings; the ones that are not UTF-8 (a
file name in Latin-1) are outside that quantifier, and on the pinned tree they made `env::args()` panic (exit status 101:
defect D30, fixed).  With `env::args_os()` getopts answers them like any other malformed argument.
-/

open Cli

/-- an argument that is not UTF-8, anywhere on the line, is answered like a malformed option: status 1, the message of
    getopts, nothing simulated -/
theorem C19_argv_bytes_not_utf8 (w : World) (args : List (List UInt8)) (h : args.mapM argOfBytes = none) :
    mainArgvBytes w args = { status := 1, out := .optionMessage, handed := none } := by
  simp only [mainArgvBytes, h]

/-- all other vectors are the vectors of strings of `C19_argv_exit` -/
theorem C19_argv_bytes_utf8 (w : World) (args : List (List UInt8)) (ss : List String) (h : args.mapM argOfBytes = some ss) :
    mainArgvBytes w args = mainArgv w ss := by
  simp only [mainArgvBytes, h]

/-- so, for every vector of byte strings: the status is 0 or 1 (never a crash status), and it is 0 exactly when the vector
    is one of strings on which `C19_argv_exit` says so -/
theorem C19_argv_bytes_status (w : World) (args : List (List UInt8)) :
    ((mainArgvBytes w args).status = 0 ∨ (mainArgvBytes w args).status = 1) ∧
    ((mainArgvBytes w args).status = 0 ↔ ∃ ss, args.mapM argOfBytes = some ss ∧ (mainArgv w ss).status = 0) := by
  cases h : args.mapM argOfBytes with
  | none =>
    rw [C19_argv_bytes_not_utf8 w args h]
    refine ⟨Or.inr rfl, ?_, ?_⟩
    · intro h0; cases h0
    · intro ⟨ss, hs, _⟩; cases hs
  | some ss =>
    rw [C19_argv_bytes_utf8 w args ss h]
    refine ⟨(C19_argv_exit w ss).2.1, ?_, ?_⟩
    · intro h0; exact ⟨ss, rfl, h0⟩
    · intro ⟨ss', hs, h0⟩
      cases hs
      exact h0

#print axioms C19_argv_bytes_not_utf8
#print axioms C19_argv_bytes_utf8
#print axioms C19_argv_bytes_status
