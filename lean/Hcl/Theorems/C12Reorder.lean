import Hcl.Proofs.ReorderRun
open Rust

/-!
# C12 — reordering the statements of a program changes nothing

"Renaming wires consistently or reordering statements leaves every wire's value in every cycle and the final machine
state unchanged."  Two statement lists that are permutations of one another (the `const` / `wire` / assignment /
`register` statements in another order), built under any two iteration orders of the hash tables:
-/

/-- one is accepted exactly when the other is -/
theorem C12_reorder_verdict (fl : Flags) (cls : CharClass) (o o' : Orders) (stmts stmts' : List Stmt)
    (ho : OrdersOK o) (ho' : OrdersOK o') (hwf : StmtsWF stmts) (hperm : stmts.Perm stmts') :
    (∃ p, Program.new fl cls o y86FixedFunctions stmts = .ok p) ↔
      (∃ p', Program.new fl cls o' y86FixedFunctions stmts' = .ok p') :=
  Program_new_perm_verdict fl cls o o' stmts stmts' ho ho' hwf hperm

/-- the programs built have the same constants (as a table), the same register banks (in another order), and the same
    set of value-writing actions, each list a valid schedule, followed by the same state-changing actions -/
theorem C12_reorder_program (fl : Flags) (cls : CharClass) (o o' : Orders) (stmts stmts' : List Stmt) (p p' : Program)
    (ho : OrdersOK o) (ho' : OrdersOK o') (hwf : StmtsWF stmts) (hperm : stmts.Perm stmts')
    (h : Program.new fl cls o y86FixedFunctions stmts = .ok p) (h' : Program.new fl cls o' y86FixedFunctions stmts' = .ok p') :
    (∀ n, p.constants.get? n = p'.constants.get? n) ∧ p.banks.Perm p'.banks ∧
    ∃ q q' f base, p.actions = q ++ f ∧ p'.actions = q' ++ f ∧ ValidFrom [] q ∧ ValidFrom [] q' ∧
      (∀ a, a ∈ q ↔ a ∈ q') ∧ ReadsEarlier base q ∧ (∀ x ∈ base, x ∉ q.map Action.out) ∧ (∀ a ∈ f, a.isPure = false) :=
  Program_new_perm_program fl cls o o' stmts stmts' p p' ho ho' hwf hperm h h'

/-- one cycle from like states (same value on every wire, same registers, memory, cycle count and status) ends in like states -/
theorem C12_reorder_cycle (fl : Flags) (cls : CharClass) (o o' : Orders) (stmts stmts' : List Stmt) (p p' : Program)
    (ho : OrdersOK o) (ho' : OrdersOK o') (hwf : StmtsWF stmts) (hperm : stmts.Perm stmts')
    (h : Program.new fl cls o y86FixedFunctions stmts = .ok p) (h' : Program.new fl cls o' y86FixedFunctions stmts' = .ok p')
    (s s' t t' : State) (hs : StateEq s s')
    (hc : stepCycle fl p s = .ok t) (hc' : stepCycle fl p' s' = .ok t') : StateEq t t' :=
  Program_new_perm_cycle fl cls o o' stmts stmts' p p' ho ho' hwf hperm h h' s s' t t' hs hc hc'

/-- whole runs on the same memory image: like initial states, like final states (every wire's value, the registers, the
    memory, the number of cycles and the status) -/
theorem C12_reorder_run (fl : Flags) (cls : CharClass) (o o' : Orders) (stmts stmts' : List Stmt) (p p' : Program)
    (ho : OrdersOK o) (ho' : OrdersOK o') (hwf : StmtsWF stmts) (hperm : stmts.Perm stmts')
    (h : Program.new fl cls o y86FixedFunctions stmts = .ok p) (h' : Program.new fl cls o' y86FixedFunctions stmts' = .ok p')
    (mem : Mem) (timeout fuel : Nat) (s s' t t' : State)
    (hi : State.init p mem = .ok s) (hi' : State.init p' mem = .ok s')
    (hr : runLoop fl p timeout fuel s = some (.ok t)) (hr' : runLoop fl p' timeout fuel s' = some (.ok t')) :
    StateEq s s' ∧ StateEq t t' :=
  Program_new_perm_run fl cls o o' stmts stmts' p p' ho ho' hwf hperm h h' mem timeout fuel s s' t t' hi hi' hr hr'

#print axioms C12_reorder_run
