import Hcl.Proofs.RenameRun
open Rust

/-! # C12, renaming: the renamed program computes the same values on the renamed wires

`Program_new_rename_verdict` (in `RenameVerdict.lean`): acceptance is invariant.
Here: for an accepted file and its renamed version (built under any iteration orders), every cycle and every whole
run end in the same registers, memory, cycle count and status, and wire `π n` of the renamed program carries the value
of wire `n` of the original. -/

/-- the state `s'` of the renamed program shows what the state `s` of the original shows -/
def RenamedState (π : String → String) (s s' : State) : Prop :=
  s'.regs = s.regs ∧ s'.mem = s.mem ∧ s'.cycle = s.cycle ∧ s'.lastStatus = s.lastStatus ∧
    ∀ n, s'.values.toEnv (π n) = s.values.toEnv n

theorem renamedState_of_stateEq {π : String → String} (hi : Inj π) (s s' : State) (h : StateEq (s.rename π) s') :
    RenamedState π s s' := by
  refine ⟨h.regs.symm, h.mem.symm, h.cycle.symm, h.status.symm, ?_⟩
  intro n
  rw [← h.vals]
  exact AMap.rn_toEnv hi s.values n

theorem stateEq_of_renamedState {π π' : String → String} (hl : ∀ n, π' (π n) = n) (hr : ∀ n, π (π' n) = n) (s s' : State)
    (h : RenamedState π s s') : StateEq (s.rename π) s' := by
  obtain ⟨h1, h2, h3, h4, h5⟩ := h
  refine ⟨?_, h1.symm, h2.symm, h3.symm, h4.symm⟩
  funext m
  have := h5 (π' m)
  rw [hr] at this
  rw [this]
  have h6 := AMap.rn_toEnv (inj_of_left hl) s.values (π' m)
  rw [hr] at h6
  exact h6

/-- **C12, renaming, one cycle**: started in states that show the same (the renamed program's wire `π n` holding what
    the original's wire `n` holds), a cycle of the renamed program and a cycle of the original end in such states. -/
theorem Program_new_rename_cycle (fl : Flags) (cls : CharClass) (o o' : Orders) (stmts : List Stmt) (π π' : String → String)
    (hl : ∀ n, π' (π n) = n) (hr : ∀ n, π (π' n) = n)
    (hfix : Fixes π stmts) (ho : OrdersOK o) (ho' : OrdersOK o') (hwf : StmtsWF stmts) (p p' : Program)
    (hp : Program.new fl cls o y86FixedFunctions stmts = .ok p)
    (hp' : Program.new fl cls o' y86FixedFunctions (stmts.map (Stmt.rename π)) = .ok p')
    (s s' t t' : State)
    (hs : s'.regs = s.regs ∧ s'.mem = s.mem ∧ s'.cycle = s.cycle ∧ s'.lastStatus = s.lastStatus ∧
      ∀ n, s'.values.toEnv (π n) = s.values.toEnv n)
    (hc : stepCycle fl p s = .ok t) (hc' : stepCycle fl p' s' = .ok t') :
    t'.regs = t.regs ∧ t'.mem = t.mem ∧ t'.cycle = t.cycle ∧ t'.lastStatus = t.lastStatus ∧
      ∀ n, t'.values.toEnv (π n) = t.values.toEnv n := by
  have hi := inj_of_left hl
  have hex := Program_new_rename_exact fl cls o stmts π π' hl hr hfix
  rw [hp] at hex
  have hc'' := (stepCycle_rel hi fl p s).ok_of_ok hc
  have hse := stateEq_of_renamedState hl hr s s' hs
  have := C12_cycle fl cls (o.tr π π') o' (stmts.map (Stmt.rename π)) (p.rename π) p' (OrdersOK_tr hr o ho) ho'
    (stmtsWF_rename π stmts hwf) hex hp' (s.rename π) s' (t.rename π) t' hse hc'' hc'
  exact renamedState_of_stateEq hi t t' this

/-- **C12, renaming, whole runs**: the original file and the renamed file, built under any iteration orders and run on
    the same memory image, start in states that show the same, stop after the same number of cycles, and end with the same
    registers, memory and status, wire `π n` of the renamed program holding the value of wire `n` of the original. -/
theorem Program_new_rename_run (fl : Flags) (cls : CharClass) (o o' : Orders) (stmts : List Stmt) (π π' : String → String)
    (hl : ∀ n, π' (π n) = n) (hr : ∀ n, π (π' n) = n)
    (hfix : Fixes π stmts) (ho : OrdersOK o) (ho' : OrdersOK o') (hwf : StmtsWF stmts) (p p' : Program)
    (hp : Program.new fl cls o y86FixedFunctions stmts = .ok p)
    (hp' : Program.new fl cls o' y86FixedFunctions (stmts.map (Stmt.rename π)) = .ok p')
    (mem : Mem) (timeout fuel : Nat) (s s' t t' : State)
    (hi₁ : State.init p mem = .ok s) (hi₂ : State.init p' mem = .ok s')
    (hr₁ : runLoop fl p timeout fuel s = some (.ok t)) (hr₂ : runLoop fl p' timeout fuel s' = some (.ok t')) :
    (s'.regs = s.regs ∧ s'.mem = s.mem ∧ s'.cycle = s.cycle ∧ s'.lastStatus = s.lastStatus ∧
      ∀ n, s'.values.toEnv (π n) = s.values.toEnv n) ∧
    (t'.regs = t.regs ∧ t'.mem = t.mem ∧ t'.cycle = t.cycle ∧ t'.lastStatus = t.lastStatus ∧
      ∀ n, t'.values.toEnv (π n) = t.values.toEnv n) := by
  have hi := inj_of_left hl
  have hstat : π "Stat" = "Stat" := hfix.builtin "Stat" (by decide)
  have hex := Program_new_rename_exact fl cls o stmts π π' hl hr hfix
  rw [hp] at hex
  have hinit := (init_rel hi p mem).ok_of_ok hi₁
  have hrun := runLoop_rename hi hstat fl p timeout fuel s t hr₁
  obtain ⟨h1, h2⟩ := C12_run fl cls (o.tr π π') o' (stmts.map (Stmt.rename π)) (p.rename π) p' (OrdersOK_tr hr o ho) ho'
    (stmtsWF_rename π stmts hwf) hex hp' mem timeout fuel (s.rename π) s' (t.rename π) t' hinit hi₂ hrun hr₂
  exact ⟨renamedState_of_stateEq hi s s' (by rw [h1]; exact StateEq.refl _), renamedState_of_stateEq hi t t' h2⟩

/-- what is printed from the final states coincides: the banner, the cycle count and the status code -/
theorem Program_new_rename_report (π π' : String → String) (hl : ∀ n, π' (π n) = n) (hr : ∀ n, π (π' n) = n)
    (hstat : π "Stat" = "Stat") (t t' : State) (timeout : Nat)
    (h : t'.regs = t.regs ∧ t'.mem = t.mem ∧ t'.cycle = t.cycle ∧ t'.lastStatus = t.lastStatus ∧
      ∀ n, t'.values.toEnv (π n) = t.values.toEnv n) :
    banner t' timeout = banner t timeout ∧ reportLines t' timeout = reportLines t timeout := by
  have hi := inj_of_left hl
  have hse := stateEq_of_renamedState hl hr t t' h
  obtain ⟨b1, b2⟩ := C12_report (t.rename π) t' timeout hse
  rw [← b1, ← b2]
  have hst : ∀ d, statusOr (t.rename π) d = statusOr t d := statusOr_rename hi hstat t
  have hd := isDone_rename hi hstat t timeout
  unfold banner reportLines halted timedOut
  rw [hd, hst, hst]
  exact ⟨rfl, rfl⟩

#print axioms Program_new_rename_verdict
#print axioms Program_new_rename_cycle
#print axioms Program_new_rename_run
#print axioms Program_new_rename_report

/-! ### non-vacuity

The hypotheses are met by a real renaming of a real program: exchanging the wires `x` and `y` and the constants `A` and
`B` of `exProgram` (C12.lean) is a bijection that leaves the built-in wires and the signals of the bank `pP` alone;
both files are accepted (a test, by evaluation). -/

def exSwap (n : String) : String :=
  if n = "x" then "y" else if n = "y" then "x" else if n = "A" then "B" else if n = "B" then "A" else n

theorem exSwap_invol (n : String) : exSwap (exSwap n) = n := by
  unfold exSwap
  by_cases h1 : n = "x"
  · subst h1; decide
  · by_cases h2 : n = "y"
    · subst h2; decide
    · by_cases h3 : n = "A"
      · subst h3; decide
      · by_cases h4 : n = "B"
        · subst h4; decide
        · simp only [h1, h2, h3, h4, if_false]

theorem exSwap_fixes : Fixes exSwap exProgram where
  builtin := by
    have : (fixedNamesOf y86FixedFunctions).all (fun n => exSwap n == n) = true := by decide
    intro n hn
    simpa using List.all_eq_true.mp this n hn
  regs := by
    intro b hb inP outP hn c hc r hr
    simp only [exProgram, List.mem_cons, List.not_mem_nil, or_false, reduceCtorEq, false_or, Stmt.bank.injEq] at hb
    subst hb
    simp only [List.mem_cons, List.not_mem_nil, or_false] at hr
    subst hr
    have hn' : ['p', 'P'] = [inP, outP] := hn
    simp only [List.cons.injEq, and_true] at hn'
    obtain ⟨rfl, rfl⟩ := hn'
    rcases hc with rfl | rfl <;> decide
  ctl := by
    intro b hb inP outP hn
    simp only [exProgram, List.mem_cons, List.not_mem_nil, or_false, reduceCtorEq, false_or, Stmt.bank.injEq] at hb
    subst hb
    have hn' : ['p', 'P'] = [inP, outP] := hn
    simp only [List.cons.injEq, and_true] at hn'
    obtain ⟨rfl, rfl⟩ := hn'
    exact ⟨by decide, by decide⟩

#guard (match Program.new {} {} {} y86FixedFunctions exProgram,
    Program.new {} {} revOrders y86FixedFunctions (exProgram.map (Stmt.rename exSwap)) with
  | .ok p, .ok p' => p'.constants.keys == p.constants.keys.map exSwap && p.constants.keys == ["B", "A"]
  | _, _ => false)
