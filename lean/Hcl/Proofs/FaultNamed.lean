import Hcl.Proofs.CompleteIff
open Rust

/-! Stage 1 of `Program::new`: **which** diagnostic comes out, and that it names the name at fault.
    Everything here holds for an arbitrary table `fixed` of built-in components and makes no assumption on the
    rest of the program. -/

namespace FaultNamed

/-! ### the first stage for an arbitrary component table -/

/-- the outputs of the built-in components -/
def fixedOutOf (fixed : List FixedFunction) : List String := fixed.filterMap fun f => f.outWire.map (·.1)

/-- the tables of step 1 for a component table `fixed` (`step1Of` is the instance for `y86FixedFunctions`) -/
def step1G (fixed : List FixedFunction) (stmts : List Stmt) : Step1 :=
  stmts.foldl (step1Stmt (fixedNamesOf fixed) (fixedOutOf fixed)) (step1Init fixed)

theorem step1G_y86 (stmts : List Stmt) : step1G y86FixedFunctions stmts = step1Of stmts := rfl

/-- the first gate of `Program::new`: when stage 1 has anything to report, exactly that is the result -/
theorem Program_new_stage1_error (fl : Flags) (cls : CharClass) (o : Orders) (fixed : List FixedFunction)
    (stmts : List Stmt) (h : errs1Of (step1G fixed stmts) ≠ []) :
    Program.new fl cls o fixed stmts = .error (errs1Of (step1G fixed stmts)) := by
  unfold Program.new
  simp only
  generalize hs1 : List.foldl (step1Stmt _ _) (step1Init fixed) stmts = s1
  have hs1' : step1G fixed stmts = s1 := hs1
  rw [hs1'] at h ⊢
  unfold errs1Of at h ⊢
  rw [if_pos]
  simpa using h

/-- a diagnostic of stage 1 is in the result of `Program::new` -/
theorem Program_new_stage1 (fl : Flags) (cls : CharClass) (o : Orders) (fixed : List FixedFunction)
    (stmts : List Stmt) (d : Diag) (h : d ∈ errs1Of (step1G fixed stmts)) :
    ∃ ds, Program.new fl cls o fixed stmts = .error ds ∧ d ∈ ds :=
  ⟨_, Program_new_stage1_error fl cls o fixed stmts (List.ne_nil_of_mem h), h⟩

/-! ### a sequence of names checked against the names seen so far and a list of forbidden names -/

/-- the check of one name: `k1` if it was seen before, else `k2` if it is forbidden -/
def chk (k1 k2 : DKind) (F S : List String) (n : String) : List Diag :=
  if S.contains n then [⟨k1, [n]⟩] else if F.contains n then [⟨k2, [n]⟩] else []

/-- the diagnostics of a sequence of names, `S` being the names seen before -/
def dupErrs (k1 k2 : DKind) (F : List String) : List String → List String → List Diag
  | _, [] => []
  | S, n :: rest => chk k1 k2 F S n ++ dupErrs k1 k2 F (n :: S) rest

section dup
variable (k1 k2 : DKind) (F : List String)

theorem chk_congr (S S' : List String) (h : ∀ n, n ∈ S ↔ n ∈ S') (n : String) : chk k1 k2 F S n = chk k1 k2 F S' n := by
  unfold chk
  have : S.contains n = S'.contains n := by
    cases h1 : S.contains n with
    | true =>
      have : n ∈ S' := (h n).mp (by simpa using h1)
      exact (List.contains_iff_mem.mpr this).symm
    | false =>
      cases h2 : S'.contains n with
      | false => rfl
      | true =>
        have : n ∈ S := (h n).mpr (by simpa using h2)
        have := List.contains_iff_mem.mpr this
        rw [h1] at this; cases this
  rw [this]

theorem dupErrs_congr : ∀ (l S S' : List String), (∀ n, n ∈ S ↔ n ∈ S') → dupErrs k1 k2 F S l = dupErrs k1 k2 F S' l
  | [], _, _, _ => rfl
  | x :: rest, S, S', h => by
    unfold dupErrs
    rw [chk_congr k1 k2 F S S' h, dupErrs_congr rest (x :: S) (x :: S')]
    intro n
    simp only [List.mem_cons, h n]

theorem dupErrs_append : ∀ (l1 l2 S S' : List String), (∀ n, n ∈ S' ↔ n ∈ S ∨ n ∈ l1) →
    dupErrs k1 k2 F S (l1 ++ l2) = dupErrs k1 k2 F S l1 ++ dupErrs k1 k2 F S' l2
  | [], l2, S, S', h => by
    simp only [List.nil_append, dupErrs]
    exact dupErrs_congr k1 k2 F l2 S S' (fun n => by rw [h n]; simp)
  | x :: rest, l2, S, S', h => by
    simp only [List.cons_append, dupErrs, List.append_assoc]
    rw [dupErrs_append rest l2 (x :: S) S']
    intro n
    rw [h n]
    simp only [List.mem_cons]
    constructor
    · rintro (h1 | h1 | h1)
      · exact Or.inl (Or.inr h1)
      · exact Or.inl (Or.inl h1)
      · exact Or.inr h1
    · rintro ((h1 | h1) | h1)
      · exact Or.inr (Or.inl h1)
      · exact Or.inl h1
      · exact Or.inr (Or.inr h1)

/-- a name seen before that occurs again is reported with `k1` -/
theorem mem_dupErrs_seen : ∀ (l S : List String) (n : String), n ∈ S → n ∈ l → (⟨k1, [n]⟩ : Diag) ∈ dupErrs k1 k2 F S l
  | [], _, _, _, h => by cases h
  | x :: rest, S, n, hS, hl => by
    unfold dupErrs
    by_cases hx : n = x
    · subst hx
      apply List.mem_append_left
      unfold chk
      rw [if_pos (List.contains_iff_mem.mpr hS)]
      exact List.mem_singleton.mpr rfl
    · apply List.mem_append_right
      have : n ∈ rest := by
        rcases List.mem_cons.mp hl with h | h
        · exact absurd h hx
        · exact h
      exact mem_dupErrs_seen rest (x :: S) n (List.mem_cons_of_mem _ hS) this

/-- a name that occurs twice is reported with `k1` -/
theorem mem_dupErrs_twice : ∀ (l S : List String) (n : String), 2 ≤ l.count n → (⟨k1, [n]⟩ : Diag) ∈ dupErrs k1 k2 F S l
  | [], _, _, h => by simp at h
  | x :: rest, S, n, h => by
    unfold dupErrs
    apply List.mem_append_right
    by_cases hx : x = n
    · subst hx
      rw [List.count_cons_self] at h
      have : 0 < rest.count x := by omega
      exact mem_dupErrs_seen k1 k2 F rest (x :: S) x List.mem_cons_self (List.count_pos_iff.mp this)
    · rw [List.count_cons_of_ne hx] at h
      exact mem_dupErrs_twice rest (x :: S) n h

/-- a forbidden name that was not seen before is reported with `k2` at its first occurrence -/
theorem mem_dupErrs_forbidden : ∀ (l S : List String) (n : String), n ∉ S → n ∈ l → n ∈ F →
    (⟨k2, [n]⟩ : Diag) ∈ dupErrs k1 k2 F S l
  | [], _, _, _, h, _ => by cases h
  | x :: rest, S, n, hS, hl, hF => by
    unfold dupErrs
    by_cases hx : n = x
    · subst hx
      apply List.mem_append_left
      unfold chk
      have h1 : S.contains n = false := by
        cases hc : S.contains n with
        | false => rfl
        | true => exact absurd (List.contains_iff_mem.mp hc) hS
      rw [h1, if_pos (List.contains_iff_mem.mpr hF)]
      simp
    · apply List.mem_append_right
      have : n ∈ rest := by
        rcases List.mem_cons.mp hl with h | h
        · exact absurd h hx
        · exact h
      refine mem_dupErrs_forbidden rest (x :: S) n ?_ this hF
      intro hm
      rcases List.mem_cons.mp hm with h | h
      · exact hx h
      · exact hS h

/-- conversely: every diagnostic of the sequence names a name of the sequence that was seen before or occurs twice
    (`k1`), or a forbidden name not seen before (`k2`) -/
theorem dupErrs_sound : ∀ (l S : List String) (d : Diag), d ∈ dupErrs k1 k2 F S l →
    ∃ n, n ∈ l ∧ ((d = ⟨k1, [n]⟩ ∧ (n ∈ S ∨ 2 ≤ l.count n)) ∨ (d = ⟨k2, [n]⟩ ∧ n ∈ F ∧ n ∉ S))
  | [], _, _, h => by cases h
  | x :: rest, S, d, h => by
    unfold dupErrs at h
    rcases List.mem_append.mp h with h | h
    · unfold chk at h
      by_cases h1 : S.contains x = true
      · rw [if_pos h1] at h
        refine ⟨x, List.mem_cons_self, Or.inl ⟨List.mem_singleton.mp h, Or.inl (List.contains_iff_mem.mp h1)⟩⟩
      · rw [if_neg h1] at h
        by_cases h2 : F.contains x = true
        · rw [if_pos h2] at h
          refine ⟨x, List.mem_cons_self, Or.inr ⟨List.mem_singleton.mp h, List.contains_iff_mem.mp h2, ?_⟩⟩
          intro hm
          exact h1 (List.contains_iff_mem.mpr hm)
        · rw [if_neg h2] at h; cases h
    · obtain ⟨n, hn, hd⟩ := dupErrs_sound rest (x :: S) d h
      refine ⟨n, List.mem_cons_of_mem _ hn, ?_⟩
      rcases hd with ⟨hd, hc⟩ | ⟨hd, hF, hS⟩
      · refine Or.inl ⟨hd, ?_⟩
        rcases hc with hc | hc
        · rcases List.mem_cons.mp hc with hc | hc
          · subst hc
            right
            rw [List.count_cons_self]
            have := List.count_pos_iff.mpr hn
            omega
          · exact Or.inl hc
        · right
          have := List.count_le_count_cons (a := n) (b := x) (l := rest)
          omega
      · exact Or.inr ⟨hd, hF, fun hm => hS (List.mem_cons_of_mem _ hm)⟩

end dup

/-- the diagnostics of a sequence of declared names -/
abbrev declErrs (FN : List String) := dupErrs .RedeclaredWire .RedeclaredBuiltinWire FN
/-- the diagnostics of a sequence of assigned names -/
abbrev asgErrs (FO : List String) := dupErrs .DoubleAssignedWire .DoubleAssignedFixedOutWire FO

/-! ### the error list of the pass over the statements, by membership -/

section generic
variable {β : Type}

theorem fold_errors_mem (FN FO : List String) (f : Step1 → β → Step1) (kd kt : β → List String)
    (H1 : ∀ s x d, d ∈ (f s x).errors ↔ d ∈ s.errors ∨ d ∈ declErrs FN s.declared (kd x) ∨ d ∈ asgErrs FO s.assigned (kt x))
    (Hd : ∀ s x n, n ∈ (f s x).declared ↔ n ∈ s.declared ∨ n ∈ kd x)
    (Ht : ∀ s x n, n ∈ (f s x).assigned ↔ n ∈ s.assigned ∨ n ∈ kt x) :
    ∀ (l : List β) (s : Step1) (d : Diag), d ∈ (l.foldl f s).errors ↔
      d ∈ s.errors ∨ d ∈ declErrs FN s.declared (l.flatMap kd) ∨ d ∈ asgErrs FO s.assigned (l.flatMap kt)
  | [], s, d => by
    simp only [List.foldl_nil, List.flatMap_nil, declErrs, asgErrs, dupErrs]
    simp
  | x :: rest, s, d => by
    rw [List.foldl_cons, fold_errors_mem FN FO f kd kt H1 Hd Ht rest, H1, List.flatMap_cons, List.flatMap_cons]
    unfold declErrs asgErrs
    rw [dupErrs_append _ _ FN (kd x) _ s.declared (f s x).declared (Hd s x),
      dupErrs_append _ _ FO (kt x) _ s.assigned (f s x).assigned (Ht s x), List.mem_append, List.mem_append]
    constructor
    · rintro ((h | h | h) | h | h)
      · exact Or.inl h
      · exact Or.inr (Or.inl (Or.inl h))
      · exact Or.inr (Or.inr (Or.inl h))
      · exact Or.inr (Or.inl (Or.inr h))
      · exact Or.inr (Or.inr (Or.inr h))
    · rintro (h | (h | h) | (h | h))
      · exact Or.inl (Or.inl h)
      · exact Or.inl (Or.inr (Or.inl h))
      · exact Or.inr (Or.inl h)
      · exact Or.inl (Or.inr (Or.inr h))
      · exact Or.inr (Or.inr h)
end generic

section
variable (FN FO : List String)

theorem checkDoubleDeclare_errors_eq (s : Step1) (n : String) :
    (checkDoubleDeclare FN s n).errors = s.errors ++ chk .RedeclaredWire .RedeclaredBuiltinWire FN s.declared n := rfl

theorem step1Name_errors_eq (v : Ex) (s : Step1) (n : String) :
    (step1Name FO v s n).errors = s.errors ++ chk .DoubleAssignedWire .DoubleAssignedFixedOutWire FO s.assigned n := rfl

theorem dupErrs_single (k1 k2 : DKind) (F S : List String) (n : String) : dupErrs k1 k2 F S [n] = chk k1 k2 F S n := by
  simp [dupErrs]

theorem dupErrs_nil (k1 k2 : DKind) (F S : List String) : dupErrs k1 k2 F S [] = [] := rfl

theorem consts_errors_mem (ds : List ConstDecl) (s : Step1) (d : Diag) :
    d ∈ (ds.foldl (step1Const FN) s).errors ↔
      d ∈ s.errors ∨ d ∈ declErrs FN s.declared (ds.map (·.name)) ∨ d ∈ asgErrs FO s.assigned [] := by
  have := fold_errors_mem FN FO (step1Const FN) (fun d => [d.name]) (fun _ => [])
    (by
      intro s x d
      show d ∈ (checkDoubleDeclare FN s x.name).errors ↔ _
      rw [checkDoubleDeclare_errors_eq, List.mem_append]
      unfold declErrs asgErrs
      rw [dupErrs_single, dupErrs_nil]
      simp)
    (step1Const_declared FN)
    (by intro s d n; show n ∈ s.assigned ↔ _; simp) ds s d
  rw [flatMap_single_fun, flatMap_nil_fun] at this
  exact this

theorem wires_errors_mem (ds : List WireDecl) (s : Step1) (d : Diag) :
    d ∈ (ds.foldl (step1Wire FN) s).errors ↔
      d ∈ s.errors ∨ d ∈ declErrs FN s.declared (ds.map (·.name)) ∨ d ∈ asgErrs FO s.assigned [] := by
  have := fold_errors_mem FN FO (step1Wire FN) (fun d => [d.name]) (fun _ => [])
    (by
      intro s x d
      show d ∈ (checkDoubleDeclare FN s x.name).errors ↔ _
      rw [checkDoubleDeclare_errors_eq, List.mem_append]
      unfold declErrs asgErrs
      rw [dupErrs_single, dupErrs_nil]
      simp)
    (step1Wire_declared FN)
    (by intro s d n; show n ∈ s.assigned ↔ _; simp) ds s d
  rw [flatMap_single_fun, flatMap_nil_fun] at this
  exact this

theorem names_errors_mem (v : Ex) (names : List String) (s : Step1) (d : Diag) :
    d ∈ (names.foldl (step1Name FO v) s).errors ↔
      d ∈ s.errors ∨ d ∈ declErrs FN s.declared [] ∨ d ∈ asgErrs FO s.assigned names := by
  have := fold_errors_mem FN FO (step1Name FO v) (fun _ => []) (fun x => [x])
    (by
      intro s x d
      rw [step1Name_errors_eq, List.mem_append]
      unfold declErrs asgErrs
      rw [dupErrs_single, dupErrs_nil]
      simp)
    (by intro s x n; show n ∈ s.declared ↔ _; simp)
    (step1Name_assigned' FO v) names s d
  rw [flatMap_single_fun, flatMap_nil_fun, List.map_id'] at this
  exact this

theorem assigns_errors_mem (as : List Assignment) (s : Step1) (d : Diag) :
    d ∈ (as.foldl (step1Assign FO) s).errors ↔
      d ∈ s.errors ∨ d ∈ declErrs FN s.declared [] ∨ d ∈ asgErrs FO s.assigned (as.flatMap (·.names)) := by
  have := fold_errors_mem FN FO (step1Assign FO) (fun _ => []) (·.names)
    (fun s a d => names_errors_mem FN FO a.value a.names s d)
    (by intro s a n; rw [step1Assign_declared]; simp)
    (step1Assign_assigned FO) as s d
  rw [flatMap_nil_fun] at this
  exact this

theorem step1Stmt_errors_mem (s : Step1) (st : Stmt) (d : Diag) :
    d ∈ (step1Stmt FN FO s st).errors ↔
      d ∈ s.errors ∨ d ∈ declErrs FN s.declared (declKeys st) ∨ d ∈ asgErrs FO s.assigned (tgtKeys st) := by
  cases st with
  | consts ds => exact consts_errors_mem FN FO ds s d
  | wires ds => exact wires_errors_mem FN FO ds s d
  | assigns as => exact assigns_errors_mem FN FO as s d
  | bank b =>
    show d ∈ s.errors ↔ _
    simp [declKeys, tgtKeys, declErrs, asgErrs, dupErrs]

/-- **the diagnostics of the pass over the statements, exactly** (as a set; for any start state) -/
theorem step1_fold_errors_mem (stmts : List Stmt) (s : Step1) (d : Diag) :
    d ∈ (stmts.foldl (step1Stmt FN FO) s).errors ↔
      d ∈ s.errors ∨ d ∈ declErrs FN s.declared (allDeclared stmts) ∨ d ∈ asgErrs FO s.assigned (allTargets stmts) := by
  rw [allDeclared_eq, allTargets_eq]
  exact fold_errors_mem FN FO (step1Stmt FN FO) declKeys tgtKeys (step1Stmt_errors_mem FN FO)
    (step1Stmt_declared FN FO) (step1Stmt_assigned FN FO) stmts s d

end

/-- the diagnostics recorded while reading the statements are those of the sequence of declared names and those of
    the sequence of assigned names -/
theorem step1G_errors_mem (fixed : List FixedFunction) (stmts : List Stmt) (d : Diag) :
    d ∈ (step1G fixed stmts).errors ↔
      d ∈ declErrs (fixedNamesOf fixed) [] (allDeclared stmts) ∨ d ∈ asgErrs (fixedOutOf fixed) [] (allTargets stmts) := by
  obtain ⟨he, hd, ha, _, _⟩ := step1Init_empty fixed
  unfold step1G
  rw [step1_fold_errors_mem, he, hd, ha]
  simp

end FaultNamed
