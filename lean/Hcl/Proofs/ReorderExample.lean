import Hcl.Proofs.ReorderRun
import Hcl.Theorems.C12
open Rust

/-! Non-vacuity of the reordering theorems: a program with two dependent constants, a register bank and dependent wires,
    and the same statements in the opposite order (under the opposite iteration order of the hash tables), are both
    accepted, with differently ordered constants and differently ordered action lists. -/

theorem exProgram_reverse_perm : exProgram.Perm exProgram.reverse := (List.reverse_perm exProgram).symm

def actionsOfStmts (o : Orders) (stmts : List Stmt) : Option (List Action) :=
  match Program.new {} {} o y86FixedFunctions stmts with
  | .ok p => some p.actions
  | .error _ => none

#guard (actionsOfStmts {} exProgram).isSome && (actionsOfStmts revOrders exProgram.reverse).isSome
#guard (actionsOfStmts {} exProgram).map (·.map Action.out) != (actionsOfStmts revOrders exProgram.reverse).map (·.map Action.out)
#guard (match Program.new {} {} {} y86FixedFunctions exProgram, Program.new {} {} {} y86FixedFunctions
      ((exProgram.drop 1).reverse ++ [.consts [⟨"A", .const ⟨2, .unlimited⟩⟩], .consts [⟨"B", .bin .add (.wire "A") (.const ⟨1, .unlimited⟩)⟩]]) with
  | .ok p₁, .ok p₂ => p₁.constants.keys == ["B", "A"] && p₂.constants.keys == ["A", "B"]
  | _, _ => false)

/-- the verdict theorem applied to the example -/
example : (∃ p, Program.new {} {} {} y86FixedFunctions exProgram = .ok p) ↔
    (∃ p', Program.new {} {} revOrders y86FixedFunctions exProgram.reverse = .ok p') :=
  Program_new_perm_verdict {} {} {} revOrders exProgram exProgram.reverse ordersOK_id ordersOK_rev
    (by
      intro s hs
      simp only [exProgram, List.mem_cons, List.not_mem_nil, or_false] at hs
      rcases hs with rfl | rfl | rfl | rfl
      · intro d hd
        simp only [List.mem_cons, List.not_mem_nil, or_false] at hd
        rcases hd with rfl | rfl <;> decide
      · intro r hr
        simp only [List.mem_cons, List.not_mem_nil, or_false] at hr
        subst hr
        exact ⟨by simp [Width.ok], by decide⟩
      · intro d hd
        simp only [List.mem_cons, List.not_mem_nil, or_false] at hd
        rcases hd with rfl | rfl | rfl <;> simp [Width.ok]
      · intro a ha
        simp only [List.mem_cons, List.not_mem_nil, or_false] at ha
        rcases ha with rfl | rfl | rfl | rfl | rfl | rfl <;> decide)
    exProgram_reverse_perm
