/-! Rust primitive semantics with explicit failure (debug profile). -/
namespace Rust

inductive Fail where
  | panic (msg : String)
  deriving Repr, DecidableEq

abbrev R (α : Type) := Except Fail α

def U128 : Nat := 2 ^ 128
def U8 : Nat := 2 ^ 8

/-- `a + b` on u8 with overflow check -/
def u8Add (a b : Nat) : R Nat := if a + b < U8 then pure (a + b) else throw (.panic "u8 add overflow")
/-- `a - b` on unsigned with overflow check -/
def uSub (a b : Nat) : R Nat := if b ≤ a then pure (a - b) else throw (.panic "sub overflow")
/-- u128 `>>` with overflow check on the shift amount -/
def u128Shr (a k : Nat) : R Nat := if k < 128 then pure (a >>> k) else throw (.panic "shr overflow")
def u128Shl (a k : Nat) : R Nat := if k < 128 then pure ((a <<< k) % U128) else throw (.panic "shl overflow")
def u128Add (a b : Nat) : R Nat := if a + b < U128 then pure (a + b) else throw (.panic "u128 add overflow")
def wrappingAdd (a b : Nat) : Nat := (a + b) % U128
def wrappingSub (a b : Nat) : Nat := (a + U128 - b) % U128
def wrappingMul (a b : Nat) : Nat := (a * b) % U128
def not128 (a : Nat) : Nat := U128 - 1 - a

/-- `WireWidth::mask` : `(!0) >> (128 - s)` with the u8 subtraction checked -/
def maskBits (s : Nat) : R Nat :=
  if s = 0 then pure 0 else do
    let d ← uSub 128 s
    u128Shr (U128 - 1) d

end Rust
