import Hcl.Model.Parser
import Hcl.Proofs.LexSpans
open Parser Lexer

/-! The spans of the parser model: every node's span lies inside the extent of the tokens its expression was read from. -/

namespace Parser

/-- the tokens are laid out in order: each is non-empty and starts at or after the end of the one before it -/
def Laid (T : Nat) : Nat → Toks → Prop
  | lo, [] => lo ≤ T
  | lo, (s, _, e) :: rest => lo ≤ s ∧ s < e ∧ Laid T e rest

theorem Laid.mono {T : Nat} : ∀ {ts : Toks} {lo lo' : Nat}, Laid T lo ts → lo' ≤ lo → Laid T lo' ts
  | [], _, _, h, hl => Nat.le_trans hl h
  | (_, _, _) :: _, _, _, h, hl => ⟨Nat.le_trans hl h.1, h.2.1, h.2.2⟩

mutual
/-- every span in the tree is a non-empty range inside `[lo, hi]` -/
def PEx.Within (lo hi : Nat) : PEx → Prop
  | .const s e _ => lo ≤ s ∧ s < e ∧ e ≤ hi
  | .wire s e _ => lo ≤ s ∧ s < e ∧ e ≤ hi
  | .bin s e _ l r => lo ≤ s ∧ s < e ∧ e ≤ hi ∧ l.Within s e ∧ r.Within s e
  | .un s e _ x => lo ≤ s ∧ s < e ∧ e ≤ hi ∧ x.Within s e
  | .slice s e x _ _ => lo ≤ s ∧ s < e ∧ e ≤ hi ∧ x.Within s e
  | .concat s e l r => lo ≤ s ∧ s < e ∧ e ≤ hi ∧ l.Within s e ∧ r.Within s e
  | .mux s e opts => lo ≤ s ∧ s < e ∧ e ≤ hi ∧ opts.Within s e
  | .inSet s e x items => lo ≤ s ∧ s < e ∧ e ≤ hi ∧ x.Within s e ∧ items.Within s e
def POpts.Within (lo hi : Nat) : POpts → Prop
  | .nil => True
  | .cons c v rest => c.Within lo hi ∧ v.Within lo hi ∧ rest.Within lo hi
def PExs.Within (lo hi : Nat) : PExs → Prop
  | .nil => True
  | .cons x rest => x.Within lo hi ∧ rest.Within lo hi
end

mutual
theorem PEx.Within.mono : ∀ {x : PEx} {lo hi lo' hi' : Nat}, x.Within lo hi → lo' ≤ lo → hi ≤ hi' → x.Within lo' hi'
  | .const _ _ _, _, _, _, _, h, a, b => ⟨Nat.le_trans a h.1, h.2.1, Nat.le_trans h.2.2 b⟩
  | .wire _ _ _, _, _, _, _, h, a, b => ⟨Nat.le_trans a h.1, h.2.1, Nat.le_trans h.2.2 b⟩
  | .bin _ _ _ _ _, _, _, _, _, h, a, b => ⟨Nat.le_trans a h.1, h.2.1, Nat.le_trans h.2.2.1 b, h.2.2.2⟩
  | .un _ _ _ _, _, _, _, _, h, a, b => ⟨Nat.le_trans a h.1, h.2.1, Nat.le_trans h.2.2.1 b, h.2.2.2⟩
  | .slice _ _ _ _ _, _, _, _, _, h, a, b => ⟨Nat.le_trans a h.1, h.2.1, Nat.le_trans h.2.2.1 b, h.2.2.2⟩
  | .concat _ _ _ _, _, _, _, _, h, a, b => ⟨Nat.le_trans a h.1, h.2.1, Nat.le_trans h.2.2.1 b, h.2.2.2⟩
  | .mux _ _ _, _, _, _, _, h, a, b => ⟨Nat.le_trans a h.1, h.2.1, Nat.le_trans h.2.2.1 b, h.2.2.2⟩
  | .inSet _ _ _ _, _, _, _, _, h, a, b => ⟨Nat.le_trans a h.1, h.2.1, Nat.le_trans h.2.2.1 b, h.2.2.2⟩
theorem POpts.Within.mono : ∀ {o : POpts} {lo hi lo' hi' : Nat}, o.Within lo hi → lo' ≤ lo → hi ≤ hi' → o.Within lo' hi'
  | .nil, _, _, _, _, _, _, _ => trivial
  | .cons _ _ _, _, _, _, _, h, a, b => ⟨h.1.mono a b, h.2.1.mono a b, h.2.2.mono a b⟩
theorem PExs.Within.mono : ∀ {o : PExs} {lo hi lo' hi' : Nat}, o.Within lo hi → lo' ≤ lo → hi ≤ hi' → o.Within lo' hi'
  | .nil, _, _, _, _, _, _, _ => trivial
  | .cons _ _, _, _, _, _, h, a, b => ⟨h.1.mono a b, h.2.mono a b⟩
end

end Parser

namespace Parser

variable {T : Nat}

def GoodE (T lo : Nat) : P PEx → Prop
  | some (x, s, e, rest) => lo ≤ s ∧ s < e ∧ x.Within s e ∧ Laid T e rest
  | none => True

def GoodO (T lo : Nat) : P POpts → Prop
  | some (o, _, _, rest) => ∃ hi, lo ≤ hi ∧ o.Within lo hi ∧ Laid T hi rest
  | none => True

def GoodI (T lo : Nat) : P PExs → Prop
  | some (o, _, _, rest) => ∃ hi, lo ≤ hi ∧ o.Within lo hi ∧ Laid T hi rest
  | none => True

theorem goodE_some {lo : Nat} {r : P PEx} {x : PEx} {s e : Nat} {rest : Toks} (h : GoodE T lo r)
    (heq : r = some (x, s, e, rest)) : lo ≤ s ∧ s < e ∧ x.Within s e ∧ Laid T e rest := by subst heq; exact h

theorem expect_laid {t : Tok} {ts rest : Toks} {lo s e : Nat} (hl : Laid T lo ts) (h : expect t ts = some (s, e, rest)) :
    lo ≤ s ∧ s < e ∧ Laid T e rest := by
  cases ts with
  | nil => simp [expect] at h
  | cons hd tl =>
    obtain ⟨s', t', e'⟩ := hd
    unfold expect at h
    simp only at h
    split at h
    · cases h; exact hl
    · cases h

theorem smallConst_laid {ts rest : Toks} {lo v s e : Nat} (hl : Laid T lo ts) (h : smallConst ts = some (v, s, e, rest)) :
    lo ≤ s ∧ s < e ∧ Laid T e rest := by
  cases ts with
  | nil => simp [smallConst] at h
  | cons hd tl =>
    obtain ⟨s', t', e'⟩ := hd
    cases t' with
    | Constant c =>
      unfold smallConst at h
      simp only at h
      split at h
      · cases h; exact hl
      · cases h
    | _ => simp [smallConst] at h

/-- what the induction over the fuel carries for the six mutually recursive functions -/
structure AllGood (T fuel : Nat) : Prop where
  tier : ∀ k ts lo, Laid T lo ts → GoodE T lo (parseTier fuel k ts)
  chain : ∀ k tier l s e ts lo, lo ≤ s → s < e → l.Within s e → Laid T e ts → GoodE T lo (parseChain fuel k tier l s e ts)
  term : ∀ ts lo, Laid T lo ts → GoodE T lo (parseTerm fuel ts)
  simple : ∀ ts lo, Laid T lo ts → GoodE T lo (parseSimple fuel ts)
  opts : ∀ ts lo, Laid T lo ts → GoodO T lo (parseOpts fuel ts)
  items : ∀ ts lo, Laid T lo ts → GoodI T lo (parseItems fuel ts)

theorem allGood_zero : AllGood T 0 where
  tier := by intro k ts lo _; unfold parseTier; trivial
  chain := by intro k tier l s e ts lo _ _ _ _; unfold parseChain; trivial
  term := by intro ts lo _; unfold parseTerm; trivial
  simple := by intro ts lo _; unfold parseSimple; trivial
  opts := by intro ts lo _; unfold parseOpts; trivial
  items := by intro ts lo _; unfold parseItems; trivial

end Parser

namespace Parser
variable {T : Nat}

theorem simple_step (f : Nat) (ih : AllGood T f) : ∀ ts lo, Laid T lo ts → GoodE T lo (parseSimple (f + 1) ts) := by
  intro ts lo hl
  cases ts with
  | nil => unfold parseSimple; exact True.intro
  | cons hd tl =>
    obtain ⟨s, t, e0⟩ := hd
    cases t with
    | Constant v =>
      unfold parseSimple
      exact ⟨hl.1, hl.2.1, ⟨Nat.le_refl _, hl.2.1, Nat.le_refl _⟩, hl.2.2⟩
    | Identifier n =>
      unfold parseSimple
      exact ⟨hl.1, hl.2.1, ⟨Nat.le_refl _, hl.2.1, Nat.le_refl _⟩, hl.2.2⟩
    | OpenParen =>
      unfold parseSimple
      simp only
      split
      · trivial
      · rename_i x sx ex rest1 heq
        obtain ⟨a1, a2, a3, a4⟩ := goodE_some (ih.tier 0 tl e0 hl.2.2) heq
        cases rest1 with
        | nil => exact True.intro
        | cons hd2 rest2 =>
          obtain ⟨sc, t2, e⟩ := hd2
          cases t2 with
          | CloseParen =>
            exact ⟨hl.1, by have := a4.1; have := a4.2.1; have := hl.2.1; omega,
              a3.mono (by have := hl.2.1; omega) (by have := a4.1; have := a4.2.1; omega), a4.2.2⟩
          | DotDot =>
            simp only
            split
            · trivial
            · rename_i y sy ey rest3 heq2
              obtain ⟨b1, b2, b3, b4⟩ := goodE_some (ih.tier 0 rest2 e a4.2.2) heq2
              split
              · trivial
              · rename_i sc' e' rest4 hex
                obtain ⟨c1, c2, c3⟩ := expect_laid b4 hex
                have h1 := hl.2.1; have h2 := a4.1; have h3 := a4.2.1
                exact ⟨hl.1, by omega, ⟨Nat.le_refl _, by omega, Nat.le_refl _, a3.mono (by omega) (by omega),
                  b3.mono (by omega) (by omega)⟩, c3⟩
          | _ => exact True.intro
    | OpenBracket =>
      unfold parseSimple
      simp only
      split
      · trivial
      · rename_i opts so eo rest1 heq
        have ho := ih.opts tl e0 hl.2.2
        rw [heq] at ho
        obtain ⟨hi, g1, g2, g3⟩ := ho
        split
        · trivial
        · rename_i sc e rest2 hex
          obtain ⟨c1, c2, c3⟩ := expect_laid g3 hex
          have h1 := hl.2.1
          exact ⟨hl.1, by omega, ⟨Nat.le_refl _, by omega, Nat.le_refl _, g2.mono (by omega) (by omega)⟩, c3⟩
    | _ => unfold parseSimple; exact True.intro
end Parser

namespace Parser
variable {T : Nat}

theorem term_step (f : Nat) (ih : AllGood T f) : ∀ ts lo, Laid T lo ts → GoodE T lo (parseTerm (f + 1) ts) := by
  intro ts lo hl
  cases ts with
  | nil => unfold parseTerm; exact True.intro
  | cons hd tl =>
    obtain ⟨s, t, e0⟩ := hd
    unfold parseTerm
    simp only
    split
    · split
      · trivial
      · rename_i x sx e rest1 heq
        obtain ⟨a1, a2, a3, a4⟩ := goodE_some (ih.simple tl e0 hl.2.2) heq
        have h0 := hl.2.1
        exact ⟨hl.1, by omega, ⟨Nat.le_refl _, by omega, Nat.le_refl _, a3.mono (by omega) (Nat.le_refl _)⟩, a4⟩
    · split
      · trivial
      · rename_i x s' e' rest1 heq
        obtain ⟨a1, a2, a3, a4⟩ := goodE_some (ih.simple _ lo hl) heq
        have hplain : lo ≤ s' ∧ s' < e' ∧ x.Within s' e' ∧ Laid T e' rest1 := ⟨a1, a2, a3, a4⟩
        cases rest1 with
        | nil => exact hplain
        | cons hd2 rest2 =>
          obtain ⟨sb, t2, eb⟩ := hd2
          cases t2 with
          | OpenBracket =>
            simp only
            split
            · trivial
            · rename_i l1 s1 e1 rest3 h1
              obtain ⟨b1, b2, b3⟩ := smallConst_laid a4.2.2 h1
              split
              · trivial
              · rename_i s2 e2 rest4 h2
                obtain ⟨c1, c2, c3⟩ := expect_laid b3 h2
                split
                · trivial
                · rename_i l3 s3 e3 rest5 h3
                  obtain ⟨d1, d2, d3⟩ := smallConst_laid c3 h3
                  split
                  · trivial
                  · rename_i s4 e rest6 h4
                    obtain ⟨g1, g2, g3⟩ := expect_laid d3 h4
                    have := a4.1; have := a4.2.1
                    exact ⟨a1, by omega, ⟨Nat.le_refl _, by omega, Nat.le_refl _, a3.mono (Nat.le_refl _) (by omega)⟩, g3⟩
          | _ => exact hplain

theorem chain_step (f : Nat) (ih : AllGood T f) : ∀ k tier l s e ts lo, lo ≤ s → s < e → l.Within s e → Laid T e ts →
    GoodE T lo (parseChain (f + 1) k tier l s e ts) := by
  intro k tier l s e ts lo h1 h2 hw hl
  have hplain : lo ≤ s ∧ s < e ∧ l.Within s e ∧ Laid T e ts := ⟨h1, h2, hw, hl⟩
  cases ts with
  | nil => unfold parseChain; exact hplain
  | cons hd rest1 =>
    obtain ⟨so, t, eo⟩ := hd
    unfold parseChain
    simp only
    split
    · rename_i t' op hf
      split
      · trivial
      · rename_i r sr e' rest2 heq
        obtain ⟨a1, a2, a3, a4⟩ := goodE_some (ih.tier (k + 1) rest1 eo hl.2.2) heq
        have := hl.1; have := hl.2.1
        exact ih.chain k tier _ s e' rest2 lo h1 (by omega)
          ⟨Nat.le_refl _, by omega, Nat.le_refl _, hw.mono (Nat.le_refl _) (by omega), a3.mono (by omega) (Nat.le_refl _)⟩ a4
    · exact hplain

theorem tier_step (f : Nat) (ih : AllGood T f) : ∀ k ts lo, Laid T lo ts → GoodE T lo (parseTier (f + 1) k ts) := by
  intro k ts lo hl
  unfold parseTier
  split
  · exact ih.term ts lo hl
  · split
    · trivial
    · rename_i x s e rest heq
      obtain ⟨a1, a2, a3, a4⟩ := goodE_some (ih.tier (k + 1) ts lo hl) heq
      have hplain : lo ≤ s ∧ s < e ∧ x.Within s e ∧ Laid T e rest := ⟨a1, a2, a3, a4⟩
      cases rest with
      | nil => exact hplain
      | cons hd rest1 =>
        obtain ⟨si, t, ei⟩ := hd
        cases t with
        | In =>
          simp only
          split
          · trivial
          · rename_i s1 e1 rest2 h1
            obtain ⟨b1, b2, b3⟩ := expect_laid a4.2.2 h1
            split
            · trivial
            · rename_i items s2 e2 rest3 h2
              have hi := ih.items rest2 e1 b3
              rw [h2] at hi
              obtain ⟨hi', g1, g2, g3⟩ := hi
              split
              · trivial
              · rename_i s3 e' rest4 h3
                obtain ⟨c1, c2, c3⟩ := expect_laid g3 h3
                have := a4.1; have := a4.2.1
                exact ⟨a1, by omega, ⟨Nat.le_refl _, by omega, Nat.le_refl _, a3.mono (Nat.le_refl _) (by omega),
                  g2.mono (by omega) (by omega)⟩, c3⟩
        | _ => exact hplain
  · rename_i tier htier
    split
    · trivial
    · rename_i l s e rest heq
      obtain ⟨a1, a2, a3, a4⟩ := goodE_some (ih.tier (k + 1) ts lo hl) heq
      have hplain : lo ≤ s ∧ s < e ∧ l.Within s e ∧ Laid T e rest := ⟨a1, a2, a3, a4⟩
      split
      · exact ih.chain k tier l s e rest lo a1 a2 a3 a4
      · cases rest with
        | nil => exact hplain
        | cons hd rest1 =>
          obtain ⟨so, t, eo⟩ := hd
          simp only
          split
          · split
            · trivial
            · rename_i r sr e' rest2 heq2
              obtain ⟨b1, b2, b3, b4⟩ := goodE_some (ih.tier (k + 1) rest1 eo a4.2.2) heq2
              have := a4.1; have := a4.2.1
              exact ⟨a1, by omega, ⟨Nat.le_refl _, by omega, Nat.le_refl _, a3.mono (Nat.le_refl _) (by omega),
                b3.mono (by omega) (Nat.le_refl _)⟩, b4⟩
          · exact hplain

end Parser

namespace Parser
variable {T : Nat}

theorem opts_body (f : Nat) (ih : AllGood T f) (ts : Toks) (lo : Nat) (hl : Laid T lo ts) :
    GoodO T lo (match parseTier f 0 ts with
      | none => none
      | some (c, _, _, rest) =>
        match expect .Colon rest with
        | none => none
        | some (_, _, rest1) =>
          match parseTier f 0 rest1 with
          | none => none
          | some (v, _, _, rest2) =>
            match rest2 with
            | (_, .Semicolon, _) :: rest3 =>
              match parseOpts f rest3 with
              | none => none
              | some (more, _, _, rest4) => some (.cons c v more, 0, 0, rest4)
            | _ => some (.cons c v .nil, 0, 0, rest2)) := by
  split
  · trivial
  · rename_i c sc ec rest heq
    obtain ⟨a1, a2, a3, a4⟩ := goodE_some (ih.tier 0 ts lo hl) heq
    split
    · trivial
    · rename_i s1 e1 rest1 h1
      obtain ⟨b1, b2, b3⟩ := expect_laid a4 h1
      split
      · trivial
      · rename_i v sv ev rest2 h2
        obtain ⟨c1, c2, c3, c4⟩ := goodE_some (ih.tier 0 rest1 e1 b3) h2
        have hplain : GoodO T lo (some (POpts.cons c v .nil, 0, 0, rest2)) :=
          ⟨ev, by omega, ⟨a3.mono a1 (by omega), c3.mono (by omega) (Nat.le_refl _), trivial⟩, c4⟩
        cases rest2 with
        | nil => exact hplain
        | cons hd rest3 =>
          obtain ⟨ss, t, es⟩ := hd
          cases t with
          | Semicolon =>
            simp only
            split
            · trivial
            · rename_i more sm em rest4 h3
              have hm := ih.opts rest3 es c4.2.2
              rw [h3] at hm
              obtain ⟨hi, g1, g2, g3⟩ := hm
              have := c4.1; have := c4.2.1
              exact ⟨hi, by omega, ⟨a3.mono a1 (by omega), c3.mono (by omega) (by omega), g2.mono (by omega) (Nat.le_refl _)⟩, g3⟩
          | _ => exact hplain

theorem opts_step (f : Nat) (ih : AllGood T f) : ∀ ts lo, Laid T lo ts → GoodO T lo (parseOpts (f + 1) ts) := by
  intro ts lo hl
  cases ts with
  | nil => unfold parseOpts; exact opts_body f ih [] lo hl
  | cons hd tl =>
    obtain ⟨s, t, e0⟩ := hd
    cases t with
    | CloseBracket => unfold parseOpts; exact ⟨lo, Nat.le_refl _, trivial, hl⟩
    | _ => unfold parseOpts; exact opts_body f ih _ lo hl

theorem items_body (f : Nat) (ih : AllGood T f) (ts : Toks) (lo : Nat) (hl : Laid T lo ts) :
    GoodI T lo (match parseTier f 0 ts with
      | none => none
      | some (x, _, _, rest) =>
        match rest with
        | (_, .Comma, _) :: rest1 =>
          match parseItems f rest1 with
          | none => none
          | some (more, _, _, rest2) => some (.cons x more, 0, 0, rest2)
        | _ => some (.cons x .nil, 0, 0, rest)) := by
  split
  · trivial
  · rename_i x sx ex rest heq
    obtain ⟨a1, a2, a3, a4⟩ := goodE_some (ih.tier 0 ts lo hl) heq
    have hplain : GoodI T lo (some (PExs.cons x .nil, 0, 0, rest)) :=
      ⟨ex, by omega, ⟨a3.mono a1 (Nat.le_refl _), trivial⟩, a4⟩
    cases rest with
    | nil => exact hplain
    | cons hd rest1 =>
      obtain ⟨ss, t, es⟩ := hd
      cases t with
      | Comma =>
        simp only
        split
        · trivial
        · rename_i more sm em rest2 h3
          have hm := ih.items rest1 es a4.2.2
          rw [h3] at hm
          obtain ⟨hi, g1, g2, g3⟩ := hm
          have := a4.1; have := a4.2.1
          exact ⟨hi, by omega, ⟨a3.mono a1 (by omega), g2.mono (by omega) (Nat.le_refl _)⟩, g3⟩
      | _ => exact hplain

theorem items_step (f : Nat) (ih : AllGood T f) : ∀ ts lo, Laid T lo ts → GoodI T lo (parseItems (f + 1) ts) := by
  intro ts lo hl
  cases ts with
  | nil => unfold parseItems; exact items_body f ih [] lo hl
  | cons hd tl =>
    obtain ⟨s, t, e0⟩ := hd
    cases t with
    | CloseBrace => unfold parseItems; exact ⟨lo, Nat.le_refl _, trivial, hl⟩
    | _ => unfold parseItems; exact items_body f ih _ lo hl

theorem allGood : ∀ f, AllGood T f
  | 0 => allGood_zero
  | f + 1 =>
    have ih := allGood f
    { tier := tier_step f ih, chain := chain_step f ih, term := term_step f ih, simple := simple_step f ih,
      opts := opts_step f ih, items := items_step f ih }

theorem Laid.le : ∀ {ts : Toks} {lo : Nat}, Laid T lo ts → lo ≤ T
  | [], _, h => h
  | (_, _, _) :: _, _, h => by have := Laid.le h.2.2; have := h.1; have := h.2.1; omega

/-- **Every span of a parsed expression lies inside the extent of the tokens it was read from**, is non-empty, and
    every sub-expression's span lies inside its parent's (parenthesised expressions and mux / set members included). -/
theorem parseTier_spans (fuel k : Nat) (ts rest : Toks) (lo : Nat) (x : PEx) (s e : Nat) (hl : Laid T lo ts)
    (h : parseTier fuel k ts = some (x, s, e, rest)) : lo ≤ s ∧ s < e ∧ x.Within s e ∧ Laid T e rest :=
  goodE_some ((allGood fuel).tier k ts lo hl) h

end Parser

namespace Parser

theorem tokensOf_laid (total : Nat) : ∀ (items : List Item) (lo : Nat) (ts : Toks), SpansFrom total lo items → lo ≤ total →
    tokensOf items = some ts → Laid total lo ts
  | [], lo, ts, _, hle, h => by
    simp [tokensOf] at h
    subst h
    exact hle
  | .err _ :: r, lo, ts, _, _, h => by
    simp [tokensOf] at h
  | .tok s t e :: r, lo, ts, hs, hle, h => by
    cases hr : tokensOf r with
    | none =>
      unfold tokensOf at hr h
      simp only [List.mapM_cons] at h
      rw [hr] at h; simp at h
    | some ts' =>
      have hr' := hr
      unfold tokensOf at hr h
      simp only [List.mapM_cons] at h
      rw [hr] at h
      simp at h
      subst h
      exact ⟨hs.1, hs.2.1, tokensOf_laid total r e ts' hs.2.2.2 hs.2.2.1 hr'⟩

/-- **Spans of a parsed expression**: when the expression parser model accepts a text, every node of the tree carries a
    non-empty byte range of that text, and every sub-expression's range lies inside its parent's. -/
theorem parseExpr_spans (cls : CharCls) (text : List Char) (x : PEx) (h : parseExpr cls text = some x) :
    x.Within 0 (sizeOf' text) := by
  unfold parseExpr at h
  cases hts : tokensOf (lex cls text) with
  | none => rw [hts] at h; simp at h
  | some ts =>
    rw [hts] at h
    simp only at h
    have hl := tokensOf_laid _ _ 0 ts (lex_spans cls text) (Nat.zero_le _) hts
    cases hp : parseTier (14 * ts.length + 40) 0 ts with
    | none => rw [hp] at h; simp at h
    | some r =>
      obtain ⟨x', s, e, rest⟩ := r
      obtain ⟨a1, a2, a3, a4⟩ := parseTier_spans _ _ _ _ _ _ _ _ hl hp
      rw [hp] at h
      cases rest with
      | nil => simp at h; subst h; exact a3.mono (Nat.zero_le _) a4.le
      | cons _ _ => simp at h

end Parser
