import Hcl.Proofs.Stage1
import Hcl.Proofs.Arith
import Hcl.Proofs.CheckErr

/-! Step 3 of `Program::new` (register banks): what holds of the banks when no error was recorded. -/

theorem asWidth_ok (v : WireValue) (w : Width) (hw : w.ok) : asWidth v w = .ok ⟨v.bits % w.card, w⟩ := by
  unfold asWidth
  simp only [liftR, Width.mask_eq w hw, bind, Except.bind, pure, Except.pure, and_mask]

theorem card_pos (w : Width) : 0 < w.card := by
  cases w with
  | unlimited => simp [Width.card, Rust.U128]
  | bits n => simp only [Width.card]; exact Nat.pow_pos (by omega)

/-- evaluation of a checked constant expression over well-typed constants gives a well-typed value -/
theorem checkFixEval_ok (fl : Flags) (Γ : Ctx) (κ : Env) (e : Ex) (v : WireValue)
    (hΓ : CtxOK Γ) (hon : EnvOn Γ κ (refs e)) (hwf : wfEx e = true) (h : checkFixEval fl Γ κ e = .ok v) :
    v.width.ok ∧ v.bits < v.width.card := by
  unfold checkFixEval at h
  cases hc : check fl Γ κ e with
  | error ds => rw [hc] at h; simp at h
  | ok w =>
    rw [hc] at h
    simp only at h
    obtain ⟨hwok, _, hcorr⟩ := ev_correct (fl := fl) (Γ := Γ) (κ := κ) (σ := κ) hΓ e w hon hwf hc
    cases hd : Spec.dv Γ (val κ) e with
    | none =>
      rw [hd] at hcorr
      simp only at hcorr
      rw [hcorr] at h; simp at h
    | some x =>
      rw [hd] at hcorr
      simp only at hcorr
      rw [hcorr.1] at h
      simp only [Except.ok.injEq] at h
      subst h
      exact ⟨hwok, hcorr.2⟩

/-- every resolved constant has a proper width and fits it -/
def ConstOK (constants : AMap WireValue) : Prop :=
  ∀ k v, constants.get? k = some v → v.width.ok ∧ v.bits < v.width.card

theorem lookup_map_width (constants : AMap WireValue) (n : String) :
    (constants.map (fun p => (p.1, p.2.width))).lookup n = (constants.lookup n).map (·.width) := by
  induction constants with
  | nil => rfl
  | cons p rest ih =>
    obtain ⟨a, b⟩ := p
    simp only [List.map_cons, List.lookup]
    by_cases h : n = a
    · subst h; simp
    · have : (n == a) = false := by simpa using h
      simp only [this]; exact ih

theorem constCtx_ok (constants : AMap WireValue) (hc : ConstOK constants) :
    CtxOK (AMap.toCtx (constants.map (fun p => (p.1, p.2.width)))) ∧
    ∀ names, EnvOn (AMap.toCtx (constants.map (fun p => (p.1, p.2.width)))) constants.toEnv names := by
  constructor
  · intro n w hw
    unfold AMap.toCtx at hw
    rw [lookup_map_width] at hw
    cases hl : constants.lookup n with
    | none => rw [hl] at hw; simp at hw
    | some v =>
      rw [hl] at hw; simp at hw; subst hw
      exact (hc n v hl).1
  · intro names n _ w hw
    unfold AMap.toCtx at hw
    rw [lookup_map_width] at hw
    cases hl : constants.lookup n with
    | none => rw [hl] at hw; simp at hw
    | some v =>
      rw [hl] at hw; simp at hw; subst hw
      exact ⟨v.bits, by unfold AMap.toEnv; rw [hl], (hc n v hl).2⟩

def sigNames (sigs : List (String × String × Width)) : List String := sigs.flatMap (fun sg => [sg.2.1, sg.1])
def bankNames (banks : List RegisterBank) : List String := banks.flatMap (fun b => sigNames b.signals)

/-- the shape of a register-bank signal name: a letter, an underscore, the register's name -/
def IsSigName (n : String) : Prop := ∃ c name, n = String.ofList [c, '_'] ++ name

/-- what is recorded for the signals of one bank -/
structure SigsOK (declared : List String) (signals : List (String × String × Width)) (defaults : AMap WireValue) : Prop where
  sig : ∀ sg ∈ signals, IsSigName sg.1 ∧ IsSigName sg.2.1 ∧ sg.1 ∉ declared ∧ sg.2.1 ∉ declared ∧ sg.2.2.ok ∧
    ∃ dv, defaults.get? sg.2.1 = some dv ∧ dv.width = sg.2.2 ∧ dv.bits < dv.width.card
  dflt : ∀ p ∈ defaults, ∃ sg ∈ signals, sg.2.1 = p.1 ∧ p.2.width = sg.2.2 ∧ p.2.bits < p.2.width.card
  keys : defaults.keys.Nodup

structure BankShape (declared : List String) (b : RegisterBank) : Prop where
  ctl : ∃ outP, b.stall = "stall_" ++ String.ofList [outP] ∧ b.bubble = "bubble_" ++ String.ofList [outP]
  ctlDecl : b.stall ∉ declared ∧ b.bubble ∉ declared
  sigs : SigsOK declared b.signals b.defaults

structure S3Facts (declared : List String) (na : String → Prop) (s : Step3) (acc : BankAcc) : Prop where
  seen : s.seenRegisters = bankNames s.banks ++ sigNames acc.signals
  nodup : s.seenRegisters.Nodup
  banks : ∀ b ∈ s.banks, BankShape declared b
  accSigs : SigsOK declared acc.signals acc.defaults
  /-- no register output is an assigned name -/
  outsNA : ∀ b ∈ s.banks, ∀ sg ∈ b.signals, na sg.2.1
  accNA : ∀ sg ∈ acc.signals, na sg.2.1

theorem sigNames_append (a b : List (String × String × Width)) : sigNames (a ++ b) = sigNames a ++ sigNames b := by
  simp [sigNames]

section
variable (fl : Flags) (s1 : Step1) (constants : AMap WireValue)

theorem regPre_clean (bank inName outName : String) (acc : BankAcc) (seen : List String) (r : RegDecl)
    (h : (regPre s1 constants bank inName outName acc seen r).1 = []) :
    inName ∉ s1.declared ∧ outName ∉ s1.declared ∧ acc.defaults.contains outName = false ∧
    outName ∉ seen ∧ inName ∉ seen ∧ inName ≠ outName ∧
    (regPre s1 constants bank inName outName acc seen r).2 = seen ++ [outName] ++ [inName] ∧
    s1.assignments.contains outName = false := by
  unfold regPre at h ⊢
  simp only [List.append_eq_nil_iff] at h ⊢
  obtain ⟨⟨⟨⟨⟨_, h2⟩, h3⟩, h4⟩, h5⟩, h6⟩ := h
  have h5' : seen.contains outName = false := by
    by_cases hc : seen.contains outName = true
    · rw [if_pos hc] at h5; simp at h5
    · simpa using hc
  simp only [h5', Bool.false_eq_true, if_false] at h6 ⊢
  have h6' : (seen ++ [outName]).contains inName = false := by
    by_cases hc : (seen ++ [outName]).contains inName = true
    · rw [if_pos hc] at h6; simp at h6
    · simpa using hc
  simp only [h6', Bool.false_eq_true, if_false]
  have hin : inName ∉ seen ∧ inName ≠ outName := by
    have : inName ∉ seen ++ [outName] := by simpa using h6'
    simp at this; exact ⟨this.1, this.2⟩
  have hd : s1.declared.contains inName = false ∧ s1.declared.contains outName = false := by
    simp only [List.flatMap_cons, List.flatMap_nil, List.append_nil, List.append_eq_nil_iff] at h2
    constructor
    · by_cases hc : s1.declared.contains inName = true
      · rw [if_pos hc] at h2; simp at h2
      · simpa using hc
    · by_cases hc : s1.declared.contains outName = true
      · rw [if_pos hc] at h2; simp at h2
      · simpa using hc
  have h3' : acc.defaults.contains outName = false := by
    by_cases hc : acc.defaults.contains outName = true
    · rw [if_pos hc] at h3; simp at h3
    · simpa using hc
  have h4' : s1.assignments.contains outName = false := by
    by_cases hc : s1.assignments.contains outName = true
    · rw [if_pos hc] at h4; simp at h4
    · simpa using hc
  exact ⟨by simpa using hd.1, by simpa using hd.2, h3', by simpa using h5', hin.1, hin.2, trivial, h4'⟩

theorem checkFixEval_err (Γ : Ctx) (κ : Env) (e : Ex) (ds : List Diag) (h : checkFixEval fl Γ κ e = .error ds) : ds ≠ [] := by
  unfold checkFixEval at h
  cases hck : check fl Γ κ e with
  | error ds' =>
    rw [hck] at h
    simp only [Except.error.injEq] at h
    subst h
    exact check_err fl _ _ _ _ hck
  | ok w =>
    rw [hck] at h
    simp only at h
    split at h
    · simp at h
    · simp only [Except.error.injEq] at h
      rw [← h]; simp

theorem regEval_inv (bank inName outName : String) (s : Step3) (acc : BankAcc) (r : RegDecl)
    (hr : r.width.ok)
    (hclean : (regEval fl constants bank inName outName s acc r).1.errors = []) :
    s.errors = [] ∧ ∃ dv, dv.width = r.width ∧ dv.bits < dv.width.card ∧
      (regEval fl constants bank inName outName s acc r).2 =
        { signals := acc.signals ++ [(inName, outName, r.width)], defaults := acc.defaults.insert outName dv } ∧
      (regEval fl constants bank inName outName s acc r).1.banks = s.banks ∧
      (regEval fl constants bank inName outName s acc r).1.seenRegisters = s.seenRegisters := by
  unfold regEval at hclean ⊢
  simp only at hclean ⊢
  cases hcf : checkFixEval fl (AMap.toCtx (constants.map (fun p => (p.1, p.2.width)))) constants.toEnv r.default with
  | error ds =>
    exfalso
    rw [hcf] at hclean
    simp only [List.append_eq_nil_iff] at hclean
    exact checkFixEval_err fl _ _ _ _ hcf hclean.2
  | ok value =>
    rw [hcf] at hclean
    simp only at hclean ⊢
    have hdv := asWidth_ok value r.width hr
    rw [hdv] at hclean ⊢
    simp only at hclean ⊢
    rw [List.append_eq_nil_iff] at hclean
    exact ⟨hclean.1, ⟨value.bits % r.width.card, r.width⟩, rfl, Nat.mod_lt _ (card_pos _), by simp⟩
end

theorem sigsOK_push (declared : List String) (signals : List (String × String × Width)) (defaults : AMap WireValue)
    (inName outName : String) (w : Width) (dv : WireValue)
    (h : SigsOK declared signals defaults) (hin : IsSigName inName) (hout : IsSigName outName)
    (hind : inName ∉ declared) (houtd : outName ∉ declared) (hw : w.ok) (hfresh : defaults.contains outName = false)
    (hdw : dv.width = w) (hdf : dv.bits < dv.width.card) :
    SigsOK declared (signals ++ [(inName, outName, w)]) (defaults.insert outName dv) where
  sig := by
    intro sg hsg
    rcases List.mem_append.mp hsg with h1 | h1
    · obtain ⟨a, b, c, d, e, dv', g1, g2, g3⟩ := h.sig sg h1
      refine ⟨a, b, c, d, e, dv', ?_, g2, g3⟩
      have hne : sg.2.1 ≠ outName := by
        intro e2
        have : defaults.contains outName = true := by
          rw [← e2]; exact (AMap.contains_iff_lookup _ _).mpr ⟨dv', g1⟩
        rw [hfresh] at this; cases this
      rw [AMap.get?_insert_ne _ _ _ _ hne]; exact g1
    · simp at h1; subst h1
      exact ⟨hin, hout, hind, houtd, hw, dv, AMap.get?_insert_self _ _ _, hdw, hdf⟩
  dflt := by
    intro p hp
    rcases AMap.mem_insert _ _ _ _ hp with h1 | h1
    · obtain ⟨sg, g1, g2⟩ := h.dflt p h1
      exact ⟨sg, List.mem_append_left _ g1, g2⟩
    · subst h1
      exact ⟨(inName, outName, w), by simp, rfl, hdw, hdf⟩
  keys := AMap.keys_insert_nodup _ _ _ h.keys

section
variable (fl : Flags) (s1 : Step1) (constants : AMap WireValue)

theorem step3Register_inv (bank : String) (inP outP : Char) (s : Step3) (acc : BankAcc) (r : RegDecl)
    (hr : r.width.ok)
    (hclean : (step3Register fl s1 constants bank inP outP (s, acc) r).1.errors = [])
    (hf : S3Facts s1.declared (fun n => s1.assignments.contains n = false) s acc) :
    s.errors = [] ∧
    S3Facts s1.declared (fun n => s1.assignments.contains n = false) (step3Register fl s1 constants bank inP outP (s, acc) r).1
      (step3Register fl s1 constants bank inP outP (s, acc) r).2 ∧
    (step3Register fl s1 constants bank inP outP (s, acc) r).1.banks = s.banks := by
  unfold step3Register at hclean ⊢
  simp only at hclean ⊢
  generalize hin : String.ofList [inP, '_'] ++ r.name = inName at hclean ⊢
  generalize hout : String.ofList [outP, '_'] ++ r.name = outName at hclean ⊢
  generalize hpre : regPre s1 constants bank inName outName acc s.seenRegisters r = pre at hclean ⊢
  by_cases hpe : pre.1.isEmpty = true
  · have hpnil : pre.1 = [] := by simpa using hpe
    simp only [hpe, Bool.not_true, Bool.false_eq_true, if_false] at hclean ⊢
    obtain ⟨h1, h2, h3, h4, h5, h6, h7, h8⟩ := regPre_clean s1 constants bank inName outName acc s.seenRegisters r (by rw [hpre]; exact hpnil)
    rw [hpre] at h7
    obtain ⟨g0, dv, g1, g2, g3, g4, g5⟩ := regEval_inv fl constants bank inName outName _ acc r hr hclean
    simp only [hpnil, List.append_nil] at g0
    refine ⟨g0, ?_, g4⟩
    rw [g3]
    exact {
      seen := by
        rw [g5, g4]
        simp only
        rw [h7, hf.seen, sigNames_append]
        simp [sigNames, List.append_assoc]
      nodup := by
        rw [g5]
        simp only
        rw [h7]
        have hn := hf.nodup
        rw [List.append_assoc, List.nodup_append]
        refine ⟨hn, ?_, ?_⟩
        · simp; exact fun e => h6 e.symm
        · intro a ha b hb
          simp at hb
          rcases hb with rfl | rfl
          · intro e; subst e; exact h4 ha
          · intro e; subst e; exact h5 ha
      banks := by rw [g4]; exact hf.banks
      accSigs := sigsOK_push s1.declared acc.signals acc.defaults inName outName r.width dv hf.accSigs
        ⟨inP, r.name, hin.symm⟩ ⟨outP, r.name, hout.symm⟩ h1 h2 hr h3 g1 g2
      outsNA := by rw [g4]; exact hf.outsNA
      accNA := by
        intro sg hsg
        rcases List.mem_append.mp hsg with hm | hm
        · exact hf.accNA sg hm
        · simp at hm; subst hm; exact h8 }
  · exfalso
    simp only [hpe] at hclean
    simp only [Bool.not_false, if_true, List.append_eq_nil_iff] at hclean
    exact hpe (by simp [hclean.2])
end

section
variable (fl : Flags) (cls : CharClass) (s1 : Step1) (constants : AMap WireValue)

theorem step3Register_errors_back (bank : String) (inP outP : Char) (st : Step3 × BankAcc) (r : RegDecl)
    (h : (step3Register fl s1 constants bank inP outP st r).1.errors = []) : st.1.errors = [] := by
  obtain ⟨s, acc⟩ := st
  unfold step3Register regEval at h
  simp only at h
  repeat' split at h
  all_goals simp_all

theorem regs_fold_errors_back (bank : String) (inP outP : Char) (regs : List RegDecl) (st : Step3 × BankAcc)
    (h : (regs.foldl (step3Register fl s1 constants bank inP outP) st).1.errors = []) : st.1.errors = [] := by
  induction regs generalizing st with
  | nil => exact h
  | cons r rest ih =>
    simp only [List.foldl_cons] at h
    exact step3Register_errors_back fl s1 constants bank inP outP st r (ih _ h)

theorem regs_fold_inv (bank : String) (inP outP : Char) : ∀ (regs : List RegDecl) (s : Step3) (acc : BankAcc),
    (∀ r ∈ regs, r.width.ok) →
    (regs.foldl (step3Register fl s1 constants bank inP outP) (s, acc)).1.errors = [] →
    S3Facts s1.declared (fun n => s1.assignments.contains n = false) s acc →
    S3Facts s1.declared (fun n => s1.assignments.contains n = false) (regs.foldl (step3Register fl s1 constants bank inP outP) (s, acc)).1
      (regs.foldl (step3Register fl s1 constants bank inP outP) (s, acc)).2 ∧
    (regs.foldl (step3Register fl s1 constants bank inP outP) (s, acc)).1.banks = s.banks
  | [], s, acc, _, _, hf => ⟨hf, rfl⟩
  | r :: rest, s, acc, hr, hclean, hf => by
    simp only [List.foldl_cons] at hclean ⊢
    have hstep := regs_fold_errors_back fl s1 constants bank inP outP rest _ hclean
    obtain ⟨_, h2, h3⟩ := step3Register_inv fl s1 constants bank inP outP s acc r (hr r List.mem_cons_self) hstep hf
    obtain ⟨g1, g2⟩ := regs_fold_inv bank inP outP rest _ _ (fun x hx => hr x (List.mem_cons_of_mem _ hx)) hclean h2
    exact ⟨g1, g2.trans h3⟩

theorem bankNames_append (a b : List RegisterBank) : bankNames (a ++ b) = bankNames a ++ bankNames b := by
  simp [bankNames]

theorem step3Bank_inv (s : Step3) (b : BankDecl) (hb : ∀ r ∈ b.regs, r.width.ok)
    (hclean : (step3Bank fl cls s1 constants s b).errors = [])
    (hf : S3Facts s1.declared (fun n => s1.assignments.contains n = false) s {}) :
    s.errors = [] ∧ S3Facts s1.declared (fun n => s1.assignments.contains n = false) (step3Bank fl cls s1 constants s b) {} := by
  unfold step3Bank at hclean ⊢
  split at hclean
  · rename_i inP outP hname
    split at hclean
    · simp at hclean
    · simp only at hclean ⊢
      rename_i hcase
      simp only [hcase, if_false]
      -- name the state the registers are folded from
      generalize hs0 : ({ s with
          errors := s.errors ++ (["stall_" ++ String.ofList [outP], "bubble_" ++ String.ofList [outP]].flatMap
            fun n => if s1.declared.contains n then [(⟨.RedeclaredWire, [n]⟩ : Diag)] else []),
          defaulted := (if s1.assignments.contains ("bubble_" ++ String.ofList [outP]) then
              (if s1.assignments.contains ("stall_" ++ String.ofList [outP]) then s.defaulted
               else setInsert s.defaulted ("stall_" ++ String.ofList [outP]))
            else setInsert (if s1.assignments.contains ("stall_" ++ String.ofList [outP]) then s.defaulted
               else setInsert s.defaulted ("stall_" ++ String.ofList [outP])) ("bubble_" ++ String.ofList [outP])),
          wireTypes := (s.wireTypes.insert ("stall_" ++ String.ofList [outP]) .bankSpecial).insert
            ("bubble_" ++ String.ofList [outP]) .bankSpecial } : Step3) = s0 at hclean ⊢
      have hfold_clean : (b.regs.foldl (step3Register fl s1 constants b.name inP outP) (s0, {})).1.errors = [] := hclean
      have hs0e := regs_fold_errors_back fl s1 constants b.name inP outP b.regs (s0, {}) hfold_clean
      have hs0e' : s.errors = [] ∧ s1.declared.contains ("stall_" ++ String.ofList [outP]) = false ∧
          s1.declared.contains ("bubble_" ++ String.ofList [outP]) = false := by
        rw [← hs0] at hs0e
        simp only [List.append_eq_nil_iff, List.flatMap_cons, List.flatMap_nil, List.append_nil] at hs0e
        obtain ⟨h0, h1, h2⟩ := hs0e
        refine ⟨h0, ?_, ?_⟩
        · by_cases hc : s1.declared.contains ("stall_" ++ String.ofList [outP]) = true
          · rw [if_pos hc] at h1; simp at h1
          · simpa using hc
        · by_cases hc : s1.declared.contains ("bubble_" ++ String.ofList [outP]) = true
          · rw [if_pos hc] at h2; simp at h2
          · simpa using hc
      have hf0 : S3Facts s1.declared (fun n => s1.assignments.contains n = false) s0 {} := by
        rw [← hs0]
        exact ⟨hf.seen, hf.nodup, hf.banks, hf.accSigs, hf.outsNA, hf.accNA⟩
      obtain ⟨g1, g2⟩ := regs_fold_inv fl s1 constants b.name inP outP b.regs s0 {} hb hfold_clean hf0
      refine ⟨hs0e'.1, ?_⟩
      generalize b.regs.foldl (step3Register fl s1 constants b.name inP outP) (s0, {}) = fin at g1 g2 ⊢
      have hbanks0 : s0.banks = s.banks := by rw [← hs0]
      exact {
        seen := by
          show fin.1.seenRegisters = bankNames (fin.1.banks ++ [_]) ++ sigNames []
          rw [g1.seen, bankNames_append]
          simp [bankNames, sigNames]
        nodup := g1.nodup
        banks := by
          intro bk hbk
          have hbk' : bk ∈ fin.1.banks ++ [_] := hbk
          rcases List.mem_append.mp hbk' with h1 | h1
          · exact g1.banks bk h1
          · simp at h1; subst h1
            exact {
              ctl := ⟨outP, rfl, rfl⟩
              ctlDecl := ⟨by simpa using hs0e'.2.1, by simpa using hs0e'.2.2⟩
              sigs := g1.accSigs }
        accSigs := ⟨by intro sg h; simp at h, by intro p h; simp at h, by simp [AMap.keys]⟩
        outsNA := by
          intro bk hbk sg hsg
          have hbk' : bk ∈ fin.1.banks ++ [_] := hbk
          rcases List.mem_append.mp hbk' with h1 | h1
          · exact g1.outsNA bk h1 sg hsg
          · simp at h1; subst h1; exact g1.accNA sg hsg
        accNA := by intro sg h; simp at h }
  · simp at hclean
end

section
variable (fl : Flags) (cls : CharClass) (s1 : Step1) (constants : AMap WireValue)

theorem step3Bank_errors_back (s : Step3) (b : BankDecl)
    (h : (step3Bank fl cls s1 constants s b).errors = []) : s.errors = [] := by
  unfold step3Bank at h
  split at h
  · split at h
    · simp at h
    · simp only at h
      have := regs_fold_errors_back fl s1 constants b.name _ _ b.regs _ h
      simp only [List.append_eq_nil_iff] at this
      exact this.1
  · simp at h

theorem banks_fold_errors_back (banks : List BankDecl) (s : Step3)
    (h : (banks.foldl (step3Bank fl cls s1 constants) s).errors = []) : s.errors = [] := by
  induction banks generalizing s with
  | nil => exact h
  | cons b rest ih =>
    simp only [List.foldl_cons] at h
    exact step3Bank_errors_back fl cls s1 constants s b (ih _ h)

theorem banks_fold_inv : ∀ (banks : List BankDecl) (s : Step3),
    (∀ b ∈ banks, ∀ r ∈ b.regs, r.width.ok) →
    (banks.foldl (step3Bank fl cls s1 constants) s).errors = [] →
    S3Facts s1.declared (fun n => s1.assignments.contains n = false) s {} →
    S3Facts s1.declared (fun n => s1.assignments.contains n = false) (banks.foldl (step3Bank fl cls s1 constants) s) {}
  | [], _, _, _, hf => hf
  | b :: rest, s, hb, hclean, hf => by
    simp only [List.foldl_cons] at hclean ⊢
    have hstep := banks_fold_errors_back fl cls s1 constants rest _ hclean
    obtain ⟨_, h2⟩ := step3Bank_inv fl cls s1 constants s b (hb b List.mem_cons_self) hstep hf
    exact banks_fold_inv rest _ (fun x hx => hb x (List.mem_cons_of_mem _ hx)) hclean h2

/-- **step 3**: with no error recorded, every bank has the documented shape and all register signal names are distinct -/
theorem step3_facts (hb : ∀ b ∈ s1.banksRaw, ∀ r ∈ b.regs, r.width.ok)
    (hclean : (s1.banksRaw.foldl (step3Bank fl cls s1 constants) { wireTypes := s1.wireTypes }).errors = []) :
    S3Facts s1.declared (fun n => s1.assignments.contains n = false) (s1.banksRaw.foldl (step3Bank fl cls s1 constants) { wireTypes := s1.wireTypes }) {} :=
  banks_fold_inv fl cls s1 constants s1.banksRaw _ hb hclean
    ⟨by simp [bankNames, sigNames], by simp, by intro b h; simp at h,
     ⟨by intro sg h; simp at h, by intro p h; simp at h, by simp [AMap.keys]⟩,
     by intro b h; simp at h, by intro sg h; simp at h⟩
end
