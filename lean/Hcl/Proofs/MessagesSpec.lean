import Hcl.Model.Messages
import Hcl.Proofs.Settle
import Hcl.Proofs.AMapLemmas
open Rust

/-! Facts about the model of the activity messages (`Dump.actionMessage`, `Dump.cycleMessages`):
    printing does not influence the simulation, and each line is built from the values `execAction` uses. -/

namespace Dump

/-! ### printing does not change the state -/

theorem actionsMessages_snd (fl : Flags) (assigns : Bool) : ∀ (acts : List Action) (s : State),
    Except.map Prod.snd (actionsMessages fl assigns acts s) = execActions fl acts s
  | [], s => rfl
  | a :: rest, s => by
    simp only [actionsMessages, execActions, bind, Except.bind]
    cases h : execAction fl s a with
    | error e => rfl
    | ok s' =>
      simp only
      have ih := actionsMessages_snd fl assigns rest s'
      cases h2 : actionsMessages fl assigns rest s' with
      | error e => rw [h2] at ih; exact ih
      | ok r => rw [h2] at ih; exact ih

theorem cycleMessages_snd (fl : Flags) (assigns : Bool) (p : Program) (s : State) :
    Except.map Prod.snd (cycleMessages fl assigns p s) = stepCycle fl p s := by
  have h := actionsMessages_snd fl assigns p.actions s
  simp only [cycleMessages, stepCycle, bind, Except.bind]
  cases h2 : actionsMessages fl assigns p.actions s with
  | error e => rw [h2] at h; rw [← h]; rfl
  | ok r =>
    rw [h2] at h
    rw [← h]
    simp only [Except.map]
    cases processBanks p.banks r.2.values with
    | error e => rfl
    | ok vals => rfl

/-- the lines do not depend on the state in any other way than through the actions: with the same actions and the
    same state the two settings of `assigns` reach the same state -/
theorem actionsMessages_ok {fl : Flags} {assigns : Bool} {acts : List Action} {s t : State} {ls : List String}
    (h : actionsMessages fl assigns acts s = .ok (ls, t)) : execActions fl acts s = .ok t := by
  rw [← actionsMessages_snd fl assigns acts s, h]; rfl

/-- the lines of a list of actions are the lines of its actions, each computed in the state the action executes in -/
theorem actionsMessages_append (fl : Flags) (assigns : Bool) : ∀ (l₁ l₂ : List Action) (s : State),
    actionsMessages fl assigns (l₁ ++ l₂) s =
      (actionsMessages fl assigns l₁ s >>= fun r₁ =>
        actionsMessages fl assigns l₂ r₁.2 >>= fun r₂ => pure (r₁.1 ++ r₂.1, r₂.2))
  | [], l₂, s => by
    simp only [List.nil_append, actionsMessages, bind, Except.bind, pure, Except.pure]
    cases actionsMessages fl assigns l₂ s <;> rfl
  | a :: rest, l₂, s => by
    simp only [List.cons_append, actionsMessages, bind, Except.bind]
    cases execAction fl s a with
    | error e => rfl
    | ok s' =>
      simp only
      rw [actionsMessages_append fl assigns rest l₂ s']
      simp only [bind, Except.bind, pure, Except.pure]
      cases actionsMessages fl assigns rest s' with
      | error e => rfl
      | ok r₁ =>
        simp only
        cases actionsMessages fl assigns l₂ r₁.2 with
        | error e => rfl
        | ok r₂ => simp only [List.append_assoc]

/-- the lines of an action in the middle of the list appear in the cycle's lines, computed in the state reached by the
    actions before it -/
theorem actionsMessages_mid {fl : Flags} {assigns : Bool} {pre post : List Action} {a : Action} {s s₁ t : State}
    {ls : List String} (hpre : execActions fl pre s = .ok s₁)
    (h : actionsMessages fl assigns (pre ++ a :: post) s = .ok (ls, t)) :
    ∃ l₁ l₂, ls = l₁ ++ actionMessage fl assigns a s₁ ++ l₂ := by
  rw [actionsMessages_append] at h
  obtain ⟨r₁, h₁, h⟩ := bind_ok h
  obtain ⟨r₂, h₂, h⟩ := bind_ok h
  have e₁ : execActions fl pre s = .ok r₁.2 := actionsMessages_ok (ls := r₁.1) (by rw [h₁])
  rw [hpre] at e₁
  cases e₁
  simp only [actionsMessages] at h₂
  obtain ⟨s', _, h₂⟩ := bind_ok h₂
  obtain ⟨r₃, _, h₂⟩ := bind_ok h₂
  simp only [pure, Except.pure, Except.ok.injEq] at h₂ h
  refine ⟨r₁.1, r₃.1, ?_⟩
  rw [← h₂] at h
  simp only [Prod.mk.injEq] at h
  rw [← h.1, List.append_assoc]

/-! ### the debug lines are among the trace lines -/

theorem actionMessage_sublist (fl : Flags) (a : Action) (s : State) :
    (actionMessage fl false a s).Sublist (actionMessage fl true a s) := by
  cases a with
  | assign name e w => simp [actionMessage]
  | readReg _ _ => exact List.Sublist.refl _
  | readMem _ _ _ _ _ => exact List.Sublist.refl _
  | writeReg _ _ => exact List.Sublist.refl _
  | writeMem _ _ _ _ => exact List.Sublist.refl _
  | setStatus _ => exact List.Sublist.refl _

theorem actionsMessages_sublist (fl : Flags) : ∀ (acts : List Action) (s t t' : State) (ls ls' : List String),
    actionsMessages fl false acts s = .ok (ls, t) → actionsMessages fl true acts s = .ok (ls', t') →
    ls.Sublist ls' ∧ t = t'
  | [], s, t, t', ls, ls', h, h' => by
    simp only [actionsMessages, pure, Except.pure, Except.ok.injEq, Prod.mk.injEq] at h h'
    rw [← h.1, ← h'.1, ← h.2, ← h'.2]; exact ⟨List.Sublist.refl _, rfl⟩
  | a :: rest, s, t, t', ls, ls', h, h' => by
    simp only [actionsMessages] at h h'
    obtain ⟨s₁, e₁, h⟩ := bind_ok h
    obtain ⟨s₂, e₂, h'⟩ := bind_ok h'
    rw [e₁] at e₂; cases e₂
    obtain ⟨r, hr, h⟩ := bind_ok h
    obtain ⟨r', hr', h'⟩ := bind_ok h'
    simp only [pure, Except.pure, Except.ok.injEq, Prod.mk.injEq] at h h'
    obtain ⟨hs, ht⟩ := actionsMessages_sublist fl rest s₁ r.2 r'.2 r.1 r'.1 (by rw [hr]) (by rw [hr'])
    rw [← h.1, ← h'.1, ← h.2, ← h'.2]
    exact ⟨List.Sublist.append (actionMessage_sublist fl a s) hs, ht⟩

/-! ### one action: what is executed and what is printed -/

theorem getOrPanic_some {vals : AMap WireValue} {n : String} {v : WireValue} (h : vals.toEnv n = some v) :
    getOrPanic vals n = .ok v := by
  have h' : vals.get? n = some v := h
  simp [getOrPanic, h', pure, Except.pure]

theorem enabled_some {s : State} {w : String} {v : WireValue} (h : s.values.toEnv w = some v) :
    enabled s (some w) = some (decide (v.bits > 0)) := by
  have h' : s.values.get? w = some v := h
  simp [enabled, h']

/-- memory read port, enabled -/
theorem readMem_on (fl : Flags) (assigns : Bool) (s : State) (rb addr out : String) (bytes : Nat) (instr : Bool)
    (ev av : WireValue) (he : s.values.toEnv rb = some ev) (hpos : ev.bits ≠ 0) (ha : s.values.toEnv addr = some av) :
    execAction fl s (.readMem (some rb) addr out bytes instr) =
      .ok { s with values := s.values.insert out ⟨s.mem.read (av.bits % U64) bytes, .bits (bytes * 8)⟩ } ∧
    actionMessage fl assigns (.readMem (some rb) addr out bytes instr) s =
      [memReadLine out (s.mem.read (av.bits % U64) bytes) bytes addr av.bits] := by
  have hp : ev.bits > 0 := Nat.pos_of_ne_zero hpos
  have ha' : s.values.get? addr = some av := ha
  constructor
  · simp [execAction, getOrPanic_some he, getOrPanic_some ha, hp, bind, Except.bind, pure, Except.pure]
  · simp [actionMessage, enabled_some he, hp, ha']

/-- memory read port without an enable wire (the instruction memory) -/
theorem readMem_always (fl : Flags) (assigns : Bool) (s : State) (addr out : String) (bytes : Nat) (instr : Bool)
    (av : WireValue) (ha : s.values.toEnv addr = some av) :
    execAction fl s (.readMem none addr out bytes instr) =
      .ok { s with values := s.values.insert out ⟨s.mem.read (av.bits % U64) bytes, .bits (bytes * 8)⟩ } ∧
    actionMessage fl assigns (.readMem none addr out bytes instr) s =
      [memReadLine out (s.mem.read (av.bits % U64) bytes) bytes addr av.bits] := by
  have ha' : s.values.get? addr = some av := ha
  constructor
  · simp [execAction, getOrPanic_some ha, bind, Except.bind, pure, Except.pure]
  · simp [actionMessage, enabled, ha']

/-- memory read port, disabled: whatever the output wire gets, the line names the enable wire -/
theorem readMem_off (fl : Flags) (assigns : Bool) (s : State) (rb addr out : String) (bytes : Nat) (instr : Bool)
    (ev : WireValue) (he : s.values.toEnv rb = some ev) (hz : ev.bits = 0) :
    execAction fl s (.readMem (some rb) addr out bytes instr) =
      (asWidth ⟨0, .unlimited⟩ (.bits (bytes * 8)) >>= fun z => pure { s with values := s.values.insert out z }) ∧
    actionMessage fl assigns (.readMem (some rb) addr out bytes instr) s = [memNoReadLine rb] := by
  constructor
  · simp [execAction, getOrPanic_some he, hz, bind, Except.bind, pure, Except.pure]
  · simp [actionMessage, enabled_some he, hz]

/-- memory write port, enabled -/
theorem writeMem_on (fl : Flags) (assigns : Bool) (s : State) (wr addr inp : String) (bytes : Nat)
    (ev av iv : WireValue) (he : s.values.toEnv wr = some ev) (hpos : ev.bits ≠ 0)
    (ha : s.values.toEnv addr = some av) (hi : s.values.toEnv inp = some iv) :
    execAction fl s (.writeMem (some wr) addr inp bytes) = .ok { s with mem := s.mem.write (av.bits % U64) iv.bits bytes } ∧
    actionMessage fl assigns (.writeMem (some wr) addr inp bytes) s = [memWriteLine inp iv.bits addr av.bits] := by
  have hp : ev.bits > 0 := Nat.pos_of_ne_zero hpos
  have ha' : s.values.get? addr = some av := ha
  have hi' : s.values.get? inp = some iv := hi
  constructor
  · simp [execAction, getOrPanic_some he, getOrPanic_some ha, getOrPanic_some hi, hp, bind, Except.bind, pure, Except.pure]
  · simp [actionMessage, enabled_some he, hp, ha', hi']

/-- memory write port, disabled -/
theorem writeMem_off (fl : Flags) (assigns : Bool) (s : State) (wr addr inp : String) (bytes : Nat)
    (ev : WireValue) (he : s.values.toEnv wr = some ev) (hz : ev.bits = 0) :
    execAction fl s (.writeMem (some wr) addr inp bytes) = .ok s ∧
    actionMessage fl assigns (.writeMem (some wr) addr inp bytes) s = [memNoWriteLine wr] := by
  constructor
  · simp [execAction, getOrPanic_some he, hz, bind, Except.bind, pure, Except.pure]
  · simp [actionMessage, enabled_some he, hz]

/-- register read port -/
theorem readReg_spec (fl : Flags) (assigns : Bool) (s : State) (number out : String) (nv : WireValue)
    (hn : s.values.toEnv number = some nv) :
    execAction fl s (.readReg number out) =
      .ok { s with values := s.values.insert out (WireValue.mk
              (if nv.bits % U64 < s.regs.length then s.regs.getD (nv.bits % U64) 0 else 0) (.bits 64)) } ∧
    actionMessage fl assigns (.readReg number out) s =
      if nv.bits % U64 < s.regs.length then [regReadLine out (s.regs.getD (nv.bits % U64) 0) number (nv.bits % U64)] else [] := by
  have hn' : s.values.get? number = some nv := hn
  constructor
  · simp only [execAction, getOrPanic_some hn, bind, Except.bind, pure, Except.pure]
  · simp only [actionMessage, hn']

/-- register write port -/
theorem writeReg_spec (fl : Flags) (assigns : Bool) (s : State) (number inp : String) (nv iv : WireValue)
    (hn : s.values.toEnv number = some nv) (hi : s.values.toEnv inp = some iv) :
    (execAction fl s (.writeReg number inp) =
      .ok (if nv.bits % U64 < s.regs.length ∧ nv.bits % U64 ≠ 15 then
            { s with regs := s.regs.set (nv.bits % U64) (iv.bits % U64) } else s)) ∧
    actionMessage fl assigns (.writeReg number inp) s =
      if nv.bits % U64 < s.regs.length ∧ nv.bits % U64 ≠ 15 then [regWriteLine inp (iv.bits % U64) number (nv.bits % U64)] else [] := by
  have hn' : s.values.get? number = some nv := hn
  have hi' : s.values.get? inp = some iv := hi
  constructor
  · simp only [execAction, getOrPanic_some hn, getOrPanic_some hi, bind, Except.bind, pure, Except.pure, listSet]
    split <;> rfl
  · simp only [actionMessage, hn', hi']

/-- assignment: whenever the action succeeds, the line (under `--trace-assignments`) shows the value the wire now holds -/
theorem assign_spec (fl : Flags) (s s' : State) (name : String) (e : Ex) (w : Width)
    (h : execAction fl s (.assign name e w) = .ok s') :
    ∃ r : WireValue, (ev fl s.values.toEnv e >>= fun v => asWidth v w) = .ok r ∧
      s' = { s with values := s.values.insert name r } ∧ s'.values.toEnv name = some r ∧
      actionMessage fl true (.assign name e w) s = [assignLine name r.bits] ∧
      actionMessage fl false (.assign name e w) s = [] := by
  simp only [execAction] at h
  obtain ⟨v, hv, h⟩ := bind_ok h
  obtain ⟨r, hr, h⟩ := bind_ok h
  simp only [pure, Except.pure, Except.ok.injEq] at h
  have hb : (ev fl s.values.toEnv e >>= fun v => asWidth v w) = .ok r := by
    rw [hv]; exact hr
  refine ⟨r, hb, h.symm, ?_, ?_, ?_⟩
  · rw [← h]; simp [AMap.toEnv_insert]
  · simp only [actionMessage, if_true, hb]
  · simp [actionMessage]

end Dump
