import Hcl.Proofs.Utf8
import Hcl.Spec.YoFormat
import Hcl.Theorems.C05

/-! `load_line_y86` decides and loads exactly what the format specification `Spec.classify` says, for every line
    that is valid UTF-8 (the only lines `BufRead::lines` hands over). -/

namespace Yo

theorem getElem?_slice (s : Bytes) (a n k : Nat) (hk : k < n) : ((s.drop a).take n)[k]? = s[a + k]? := by
  rw [List.getElem?_take_of_lt hk, List.getElem?_drop]

/-- with valid UTF-8, `str::get(a..a+n)` yields an ASCII literal exactly when the bytes there are that literal -/
theorem get_ascii (s : Bytes) (hv : validUtf8 s = true) (a : Nat) (lit : Bytes) (hne : lit ≠ [])
    (hascii : ∀ c ∈ lit, c < 128) :
    (get s a (a + lit.length) == some lit) = ((s.drop a).take lit.length == lit) := by
  by_cases hslice : (s.drop a).take lit.length = lit
  · -- the bytes are there: both ends are boundaries
    have hpos : 0 < lit.length := List.length_pos_iff.mpr hne
    have hlen : a + lit.length ≤ s.length := by
      have := congrArg List.length hslice
      simp only [List.length_take, List.length_drop] at this
      omega
    have hfirst : s[a]? = lit[0]? := by
      have := getElem?_slice s a lit.length 0 hpos
      rw [hslice] at this; simpa using this.symm
    have hlast : s[a + lit.length - 1]? = lit[lit.length - 1]? := by
      have := getElem?_slice s a lit.length (lit.length - 1) (by omega)
      rw [hslice] at this
      have e : a + (lit.length - 1) = a + lit.length - 1 := by omega
      rw [e] at this; exact this.symm
    have hb1 : isBoundary s a = true := by
      unfold isBoundary
      rw [hfirst, List.getElem?_eq_getElem hpos]
      have := hascii lit[0] (List.getElem_mem hpos)
      have h2 : ¬ (128 ≤ lit[0]) := by omega
      simp [h2]
    have hb2 : isBoundary s (a + lit.length) = true := by
      apply validUtf8_boundary s hv _ hlen
      right
      have hl : lit.length - 1 < lit.length := by omega
      refine ⟨lit[lit.length - 1], ?_, hascii _ (List.getElem_mem hl)⟩
      rw [hlast, List.getElem?_eq_getElem hl]
    have hget : get s a (a + lit.length) = some lit := by
      unfold get
      have h1 : a ≤ a + lit.length := by omega
      simp only [h1, hlen, hb1, hb2, decide_true, Bool.and_self, if_true]
      have : a + lit.length - a = lit.length := by omega
      rw [this, hslice]
    rw [hget, hslice]; simp
  · have h2 : ((s.drop a).take lit.length == lit) = false := by simpa using hslice
    rw [h2]
    unfold get
    split
    · have : a + lit.length - a = lit.length := by omega
      rw [this]
      simpa using hslice
    · simp


/-- the bytes a data line stores, one address after the other -/
def storeBytes (m : Mem) (loc : Nat) : List Nat → Mem
  | [] => m
  | b :: rest => storeBytes (m.insert loc b) (loc + 1) rest

theorem get_storeBytes (bs : List Nat) : ∀ (m : Mem) (loc a : Nat),
    (storeBytes m loc bs).get a = Spec.overlay m.get loc bs a := by
  induction bs with
  | nil => intro m loc a; rfl
  | cons b rest ih =>
    intro m loc a
    simp only [storeBytes, Spec.overlay]
    rw [ih]
    congr 1
    funext x
    exact Mem.get_insert m loc b x

theorem hexVal_eq (b : Nat) : hexVal b = Spec.hexDigitVal b := rfl
theorem isHexByte_eq (b : Nat) : isHexByte b = Spec.isHexDigit b := rfl

/-- in the hex field every position after an ASCII byte is a character boundary -/
def AfterAscii (H : Bytes) : Prop := ∀ k b, H[k]? = some b → b < 128 → isBoundary H (k + 1) = true

theorem isBoundary_of_ascii (H : Bytes) (k b : Nat) (h : H[k]? = some b) (hb : b < 128) : isBoundary H k = true := by
  unfold isBoundary
  rw [h]
  have : ¬ (128 ≤ b) := by omega
  simp [this]

theorem hexDigit_ascii (b : Nat) (h : Spec.isHexDigit b = true) : b < 128 := by
  unfold Spec.isHexDigit at h
  simp at h
  omega

theorem fp_nil : Spec.fieldPairs [] = some [] := by simp [Spec.fieldPairs]
theorem fp_blank (t : List Nat) : Spec.fieldPairs (32 :: t) = some [] := by simp [Spec.fieldPairs]
theorem fp_single (a : Nat) (ha : a ≠ 32) : Spec.fieldPairs [a] = none := by
  unfold Spec.fieldPairs
  split
  · rename_i heq; simp at heq
  · rename_i heq; simp at heq; exact absurd heq.1 ha
  · rename_i heq; simp at heq
  · rfl
theorem fp_pair (a b : Nat) (t : List Nat) (ha : a ≠ 32) :
    Spec.fieldPairs (a :: b :: t) = if Spec.isHexDigit a && Spec.isHexDigit b then
      (Spec.fieldPairs t).map (fun l => (Spec.hexDigitVal a * 16 + Spec.hexDigitVal b) :: l) else none := by
  conv => lhs; unfold Spec.fieldPairs
  split
  · rename_i heq; simp at heq
  · rename_i heq; simp at heq; exact absurd heq.1 ha
  · rename_i x y rest heq
    simp at heq
    obtain ⟨e1, e2, e3⟩ := heq
    subst e1; subst e2; subst e3
    rfl
  · rename_i heq; simp at heq

theorem get_in_range (H : Bytes) (i n : Nat) (h1 : i + n ≤ H.length) (hb1 : isBoundary H i = true)
    (hb2 : isBoundary H (i + n) = true) : get H i (i + n) = some ((H.drop i).take n) := by
  unfold get
  have h0 : i ≤ i + n := by omega
  simp only [h0, h1, hb1, hb2, decide_true, Bool.and_self, if_true]
  have : i + n - i = n := by omega
  rw [this]

theorem get_some_slice (H : Bytes) (i j : Nat) (d : Bytes) (h : get H i j = some d) : d = (H.drop i).take (j - i) := by
  unfold get at h
  split at h
  · simp only [Option.some.injEq] at h; exact h.symm
  · simp at h

theorem hexLoop_spec (H : Bytes) (ha : AfterAscii H) : ∀ (fuel i : Nat) (m : Mem) (loc : Nat),
    H.length - i < 2 * fuel → i ≤ H.length →
    hexLoop H fuel i m loc = match Spec.fieldPairs (H.drop i) with
      | some bs => .ok (storeBytes m loc bs) (loc + bs.length)
      | none => .err := by
  intro fuel
  induction fuel with
  | zero => intro i m loc h1 _; omega
  | succ fuel ih =>
    intro i m loc hf hi
    unfold hexLoop
    by_cases hend : i < H.length
    · have hdrop : H.drop i = H[i] :: H.drop (i + 1) := List.drop_eq_getElem_cons hend
      have hget0 : H[i]? = some H[i] := List.getElem?_eq_getElem hend
      generalize hx : H[i] = x at hdrop hget0
      by_cases hsp : x = 32
      · subst hsp
        have hg : get H i (i + 1) = some (str " ") := by
          rw [get_in_range H i 1 (by omega) (isBoundary_of_ascii H i _ hget0 (by omega)) (ha i _ hget0 (by omega)), hdrop]
          rfl
        simp only [hend, hg, decide_true, bne_self_eq_false, Bool.and_false, Bool.false_eq_true, if_false]
        rw [hdrop, fp_blank]
        simp [storeBytes]
      · have hg : (get H i (i + 1) != some (str " ")) = true := by
          cases hgg : get H i (i + 1) with
          | none => simp
          | some d =>
            have := get_some_slice H i (i + 1) d hgg
            have e : i + 1 - i = 1 := by omega
            rw [e, hdrop] at this
            subst this
            simp [str]
            exact hsp
        simp only [hend, hg, decide_true, Bool.and_self, if_true]
        by_cases h2 : i + 1 < H.length
        · have hdrop2 : H.drop (i + 1) = H[i + 1] :: H.drop (i + 2) := List.drop_eq_getElem_cons h2
          have hget1 : H[i + 1]? = some H[i + 1] := List.getElem?_eq_getElem h2
          generalize hy : H[i + 1] = y at hdrop2 hget1
          have hdropi : H.drop i = x :: y :: H.drop (i + 2) := by rw [hdrop, hdrop2]
          rw [hdropi, fp_pair x y _ hsp]
          by_cases hhex : (Spec.isHexDigit x && Spec.isHexDigit y) = true
          · have hh := hhex
            simp only [Bool.and_eq_true] at hh
            have hg2 : get H i (i + 2) = some [x, y] := by
              rw [get_in_range H i 2 (by omega) (isBoundary_of_ascii H i _ hget0 (hexDigit_ascii _ hh.1))
                (ha (i + 1) _ hget1 (hexDigit_ascii _ hh.2)), hdropi]
              rfl
            have hisHex : isHex [x, y] = true := by
              simp [isHex, isHexByte_eq, hh.1, hh.2]
            have hnum : hexNum [x, y] = Spec.hexDigitVal x * 16 + Spec.hexDigitVal y := by
              simp [hexNum, hexVal_eq]
            simp only [hg2, hisHex, if_true, hhex]
            rw [ih (i + 2) _ (loc + 1) (by omega) (by omega), hnum]
            cases hfp : Spec.fieldPairs (H.drop (i + 2)) with
            | none => rfl
            | some bs =>
              simp only [Option.map_some, storeBytes, List.length_cons]
              congr 1; omega
          · have hhex' : (Spec.isHexDigit x && Spec.isHexDigit y) = false := by simpa using hhex
            simp only [hhex', Bool.false_eq_true, if_false]
            cases hg2 : get H i (i + 2) with
            | none => rfl
            | some d =>
              have hd := get_some_slice H i (i + 2) d hg2
              have e : i + 2 - i = 2 := by omega
              rw [e, hdropi] at hd
              have hd' : d = [x, y] := by rw [hd]; rfl
              have : isHex d = false := by
                rw [hd']
                simp only [isHex, List.all_cons, List.all_nil, Bool.and_true, isHexByte_eq]
                exact hhex'
              simp [this]
        · have hlen : H.drop (i + 1) = [] := List.drop_eq_nil_of_le (by omega)
          have hdropi : H.drop i = [x] := by rw [hdrop, hlen]
          rw [hdropi, fp_single x hsp]
          have hg2 : get H i (i + 2) = none := by
            unfold get
            have : ¬ (i + 2 ≤ H.length) := by omega
            simp [this]
          simp [hg2]
    · have hlen : H.drop i = [] := List.drop_eq_nil_of_le (by omega)
      simp only [hend, decide_false, Bool.false_and, Bool.false_eq_true, if_false]
      rw [hlen, fp_nil]
      simp [storeBytes]


theorem afterAscii_slice (line : Bytes) (hv : validUtf8 line = true) (a n : Nat) (hlen : a + n ≤ line.length) :
    AfterAscii ((line.drop a).take n) := by
  intro k b hk hb
  have hkn : k < n := by
    have hlt : k < ((line.drop a).take n).length := by
      rcases Nat.lt_or_ge k ((line.drop a).take n).length with h | h
      · exact h
      · rw [List.getElem?_eq_none h] at hk; simp at hk
    simp only [List.length_take, List.length_drop] at hlt
    omega
  have hline : line[a + k]? = some b := by
    rw [← getElem?_slice line a n k hkn]; exact hk
  have hbl : isBoundary line (a + k + 1) = true :=
    validUtf8_boundary line hv _ (by omega) (Or.inr ⟨b, by simpa using hline, hb⟩)
  unfold isBoundary at hbl ⊢
  have hslen : ((line.drop a).take n).length = n := by
    simp only [List.length_take, List.length_drop]; omega
  rw [hslen]
  by_cases hkk : k + 1 = n
  · simp [hkk]
  · have hlt : k + 1 < n := by omega
    rw [getElem?_slice line a n (k + 1) hlt]
    have e : a + (k + 1) = a + k + 1 := by omega
    rw [e]
    have hne : (a + k + 1 == line.length) = false := by
      apply beq_false_of_ne; omega
    rw [hne] at hbl
    have hne2 : (k + 1 == n) = false := beq_false_of_ne hkk
    rw [hne2]
    simpa using hbl

theorem blanks_eq : str "                            |" = Spec.blanks28bar := by decide

/-- **one line of a `.yo` file** is classified and loaded exactly as the format says -/
theorem loadLine_spec (m : Mem) (loc : Nat) (line : Bytes) (hv : validUtf8 line = true) :
    loadLine m loc line = match Spec.classify line with
      | .data addr bs => .ok (storeBytes m addr bs) (addr + bs.length)
      | .nothing => .ok m loc
      | .malformed => .err := by
  unfold loadLine Spec.classify
  have g1 := get_ascii line hv 0 (str "0x") (by decide) (by decide)
  have g2 := get_ascii line hv 5 (str ": ") (by decide) (by decide)
  have g3 := get_ascii line hv 27 (str " |") (by decide) (by decide)
  have e1 : (str "0x").length = 2 := by decide
  have e2 : (str ": ").length = 2 := by decide
  have e3 : (str " |").length = 2 := by decide
  rw [e1] at g1; rw [e2] at g2; rw [e3] at g3
  simp only [Nat.zero_add, List.drop_zero] at g1
  have l1 : str "0x" = [48, 120] := by decide
  have l2 : str ": " = [58, 32] := by decide
  have l3 : str " |" = [32, 124] := by decide
  have n5 : (5 : Nat) + 2 = 7 := rfl
  have n27 : (27 : Nat) + 2 = 29 := rfl
  rw [n5] at g2; rw [n27] at g3
  rw [g1, g2, g3, l1, l2, l3]
  simp only
  by_cases hd : (line.take 2 == [48, 120] && (line.drop 5).take 2 == [58, 32] && (line.drop 27).take 2 == [32, 124]) = true
  · simp only [hd, if_true]
    simp only [Bool.and_eq_true, beq_iff_eq] at hd
    obtain ⟨⟨h0, h5⟩, h27⟩ := hd
    have hlen : 29 ≤ line.length := by
      have := congrArg List.length h27
      simp only [List.length_take, List.length_drop, List.length_cons, List.length_nil] at this
      omega
    -- the address field
    have hb2 : isBoundary line 2 = true := by
      apply validUtf8_boundary line hv 2 (by omega)
      right
      refine ⟨120, ?_, by omega⟩
      have := congrArg (fun l => l[1]?) h0
      simp only [List.getElem?_take_of_lt (by omega : 1 < 2)] at this
      simpa using this
    have hb5 : isBoundary line 5 = true := by
      have h5' := congrArg (fun l => l[0]?) h5
      simp only [List.getElem?_take_of_lt (by omega : 0 < 2), List.getElem?_drop] at h5'
      exact isBoundary_of_ascii line 5 58 (by simpa using h5') (by omega)
    have hb7 : isBoundary line 7 = true := by
      apply validUtf8_boundary line hv 7 (by omega)
      right
      refine ⟨32, ?_, by omega⟩
      have h5' := congrArg (fun l => l[1]?) h5
      simp only [List.getElem?_take_of_lt (by omega : 1 < 2), List.getElem?_drop] at h5'
      simpa using h5'
    have hb27 : isBoundary line 27 = true := by
      have h27' := congrArg (fun l => l[0]?) h27
      simp only [List.getElem?_take_of_lt (by omega : 0 < 2), List.getElem?_drop] at h27'
      exact isBoundary_of_ascii line 27 32 (by simpa using h27') (by omega)
    have hi1 : index line 2 5 = .ok ((line.drop 2).take 3) := by
      unfold index
      have := get_in_range line 2 3 (by omega) hb2 hb5
      rw [this]; rfl
    have hi2 : index line 7 27 = .ok ((line.drop 7).take 20) := by
      unfold index
      have := get_in_range line 7 20 (by omega) hb7 hb27
      rw [this]; rfl
    rw [hi1]
    simp only
    have hhexeq : isHex ((line.drop 2).take 3) = ((line.drop 2).take 3).all Spec.isHexDigit := rfl
    rw [hhexeq]
    by_cases hah : ((line.drop 2).take 3).all Spec.isHexDigit = true
    · simp only [hah, Bool.not_true, Bool.false_eq_true, if_false, if_true]
      rw [hi2]
      simp only
      have hloop := hexLoop_spec ((line.drop 7).take 20) (afterAscii_slice line hv 7 20 (by omega)) 12 0 m
        (hexNum ((line.drop 2).take 3)) (by simp only [List.length_take, List.length_drop]; omega) (by omega)
      rw [hloop]
      simp only [List.drop_zero]
      have hnum : hexNum ((line.drop 2).take 3) = ((line.drop 2).take 3).foldl (fun acc d => acc * 16 + Spec.hexDigitVal d) 0 := rfl
      rw [hnum]
      cases Spec.fieldPairs ((line.drop 7).take 20) <;> rfl
    · have hah' : ((line.drop 2).take 3).all Spec.isHexDigit = false := by simpa using hah
      simp only [hah', Bool.not_false, if_true, Bool.false_eq_true, if_false]
  · have hd' : (line.take 2 == [48, 120] && (line.drop 5).take 2 == [58, 32] && (line.drop 27).take 2 == [32, 124]) = false := by
      simpa using hd
    simp only [hd', Bool.false_eq_true, if_false]
    rw [blanks_eq]
    unfold containsByte
    by_cases hc : (line.contains 124 && !(Spec.blanks28bar.isPrefixOf line)) = true
    · simp only [hc, if_true]
    · have hc' : (line.contains 124 && !(Spec.blanks28bar.isPrefixOf line)) = false := by simpa using hc
      simp only [hc', Bool.false_eq_true, if_false]


theorem overlay_congr (f g : Nat → Nat) (h : ∀ a, f a = g a) : ∀ (bs : List Nat) (addr a : Nat),
    Spec.overlay f addr bs a = Spec.overlay g addr bs a := by
  intro bs
  induction bs generalizing f g with
  | nil => intro addr a; exact h a
  | cons b rest ih =>
    intro addr a
    simp only [Spec.overlay]
    apply ih
    intro x
    by_cases hx : x = addr <;> simp [hx, h x]

theorem image_congr (f g : Nat → Nat) (h : ∀ a, f a = g a) : ∀ (lines : List (List Nat)) (u : List Nat),
    (Spec.image lines f u).isSome = (Spec.image lines g u).isSome ∧
    ∀ r1 r2, Spec.image lines f u = some r1 → Spec.image lines g u = some r2 → (∀ a, r1.1 a = r2.1 a) ∧ r1.2 = r2.2 := by
  intro lines
  induction lines generalizing f g with
  | nil =>
    intro u
    refine ⟨rfl, ?_⟩
    intro r1 r2 h1 h2
    simp only [Spec.image, Option.some.injEq] at h1 h2
    subst h1; subst h2
    exact ⟨h, rfl⟩
  | cons line rest ih =>
    intro u
    simp only [Spec.image]
    cases Spec.classify line with
    | data addr bs => exact ih _ _ (fun a => overlay_congr f g h bs addr a) _
    | nothing => exact ih f g h u
    | malformed => exact ⟨rfl, by intro r1 r2 h1; simp at h1⟩

/-- **the whole file**: the loader refuses exactly the files the format refuses, and otherwise memory holds exactly
    the listed bytes at the listed addresses (later lines over earlier ones), everything else as before -/
theorem loadLines_spec : ∀ (lines : List Bytes) (m : Mem) (loc : Nat) (found : Bool) (u : List Nat),
    (∀ l ∈ lines, validUtf8 l = true) →
    match Spec.image lines m.get u with
    | some (f, _) =>
        if found || !lines.isEmpty then ∃ m', loadLines lines m loc found = .ok m' ∧ ∀ a, m'.get a = f a
        else loadLines lines m loc found = .emptyFile
    | none => ∃ l, loadLines lines m loc found = .unparseable l
  | [], m, loc, found, u, _ => by
    simp only [Spec.image, loadLines, List.isEmpty_nil, Bool.not_true, Bool.or_false]
    cases found <;> simp
  | line :: rest, m, loc, found, u, hv => by
    have hvl := hv line List.mem_cons_self
    have hvr : ∀ l ∈ rest, validUtf8 l = true := fun l hl => hv l (List.mem_cons_of_mem _ hl)
    simp only [Spec.image, loadLines, hvl, Bool.not_true, Bool.false_eq_true, if_false]
    rw [loadLine_spec m loc line hvl]
    cases hc : Spec.classify line with
    | malformed => exact ⟨line, rfl⟩
    | nothing =>
      simp only
      have ih := loadLines_spec rest m loc true u hvr
      cases hi : Spec.image rest m.get u with
      | none => rw [hi] at ih; exact ih
      | some r =>
        rw [hi] at ih
        simp only [Bool.true_or, if_true] at ih
        simp only [List.isEmpty_cons, Bool.not_false, Bool.or_true, if_true]
        exact ih
    | data addr bs =>
      simp only
      have ih := loadLines_spec rest (storeBytes m addr bs) (addr + bs.length) true
        (u ++ (List.range bs.length).map (addr + ·)) hvr
      have hcong := image_congr (storeBytes m addr bs).get (Spec.overlay m.get addr bs)
        (fun a => get_storeBytes bs m addr a) rest (u ++ (List.range bs.length).map (addr + ·))
      cases hi : Spec.image rest (Spec.overlay m.get addr bs) (u ++ (List.range bs.length).map (addr + ·)) with
      | none =>
        have : Spec.image rest (storeBytes m addr bs).get (u ++ (List.range bs.length).map (addr + ·)) = none := by
          have h1 := hcong.1
          rw [hi] at h1
          cases hx : Spec.image rest (storeBytes m addr bs).get (u ++ (List.range bs.length).map (addr + ·)) with
          | none => rfl
          | some _ => rw [hx] at h1; simp at h1
        rw [this] at ih
        exact ih
      | some r =>
        cases hx : Spec.image rest (storeBytes m addr bs).get (u ++ (List.range bs.length).map (addr + ·)) with
        | none =>
          have h1 := hcong.1
          rw [hi, hx] at h1; simp at h1
        | some r' =>
          rw [hx] at ih
          simp only [Bool.true_or, if_true] at ih
          simp only [List.isEmpty_cons, Bool.not_false, Bool.or_true, if_true]
          obtain ⟨m', hm1, hm2⟩ := ih
          exact ⟨m', hm1, fun a => (hm2 a).trans ((hcong.2 r' r hx hi).1 a)⟩

end Yo
