import Hcl.Proofs.ParseParensCtx
open Parser Lexer

/-! The converse of `parse_complete`: whatever the expression-parser model accepts is a derivation of the grammar
    relation `D` -- the tokens it consumed are derived from the category it was asked for, with the tree it returned
    (spans forgotten).  Hence `D` is exactly what the parser model accepts (`parse_iff_D`). -/

namespace Parser

theorem kinds_app (a b : Toks) : kinds (a ++ b) = kinds a ++ kinds b := by simp [kinds]

theorem expect_inv {t : Tok} {ts rest : Toks} {s e : Nat} (h : expect t ts = some (s, e, rest)) : ts = (s, t, e) :: rest := by
  cases ts with
  | nil => simp [expect] at h
  | cons hd tl =>
    obtain ⟨s', t', e'⟩ := hd
    unfold expect at h
    simp only at h
    split at h
    · rename_i ht
      have : t' = t := by simpa using ht
      subst this
      cases h
      rfl
    · cases h

theorem smallConst_inv {ts rest : Toks} {n s e : Nat} (h : smallConst ts = some (n, s, e, rest)) :
    ∃ v, ts = (s, .Constant v, e) :: rest ∧ v.bits = n ∧ n ≤ 128 := by
  cases ts with
  | nil => simp [smallConst] at h
  | cons hd tl =>
    obtain ⟨s', t', e'⟩ := hd
    cases t' with
    | Constant c =>
      unfold smallConst at h
      simp only at h
      split at h
      · rename_i hc
        cases h
        exact ⟨c, rfl, rfl, hc⟩
      · cases h
    | _ => simp [smallConst] at h

theorem some_inj4 {α : Type} {a a' : α} {s s' e e' : Nat} {r r' : Toks}
    (h : (some (a, s, e, r) : P α) = some (a', s', e', r')) : a = a' ∧ s = s' ∧ e = e' ∧ r = r' := by
  cases h
  exact ⟨rfl, rfl, rfl, rfl⟩

/-- what the induction over the fuel carries for the six mutually recursive functions -/
structure AllSound (f : Nat) : Prop where
  tier : ∀ k ts x s e rest, k ≤ 10 → parseTier f k ts = some (x, s, e, rest) →
    ∃ c, ts = c ++ rest ∧ D (.tier k) (.e x.erase) (kinds c)
  chain : ∀ k tier l s e ts x s' e' rest, tiers[k]? = some (some tier) →
    parseChain f k tier l s e ts = some (x, s', e', rest) →
    ∃ c, ts = c ++ rest ∧ D (.chain k tier l.erase) (.e x.erase) (kinds c)
  term : ∀ ts x s e rest, parseTerm f ts = some (x, s, e, rest) → ∃ c, ts = c ++ rest ∧ D .term (.e x.erase) (kinds c)
  simple : ∀ ts x s e rest, parseSimple f ts = some (x, s, e, rest) →
    ∃ c, ts = c ++ rest ∧ D .simple (.e x.erase) (kinds c)
  opts : ∀ ts o s e rest, parseOpts f ts = some (o, s, e, rest) → ∃ c, ts = c ++ rest ∧ D .opts (.o o.erase) (kinds c)
  items : ∀ ts o s e rest, parseItems f ts = some (o, s, e, rest) → ∃ c, ts = c ++ rest ∧ D .items (.i o.erase) (kinds c)

theorem allSound_zero : AllSound 0 where
  tier := by intro k ts x s e rest _ h; unfold parseTier at h; cases h
  chain := by intro k tier l s e ts x s' e' rest _ h; unfold parseChain at h; cases h
  term := by intro ts x s e rest h; unfold parseTerm at h; cases h
  simple := by intro ts x s e rest h; unfold parseSimple at h; cases h
  opts := by intro ts x s e rest h; unfold parseOpts at h; cases h
  items := by intro ts x s e rest h; unfold parseItems at h; cases h

theorem simple_sound_step (g : Nat) (ih : AllSound g) : ∀ ts x s e rest, parseSimple (g + 1) ts = some (x, s, e, rest) →
    ∃ c, ts = c ++ rest ∧ D .simple (.e x.erase) (kinds c) := by
  intro ts x s e rest h
  cases ts with
  | nil => unfold parseSimple at h; cases h
  | cons hd tl =>
    obtain ⟨s0, t, e0⟩ := hd
    cases t with
    | Constant v =>
      unfold parseSimple at h
      obtain ⟨rfl, -, -, rfl⟩ := some_inj4 h
      exact ⟨[(s0, .Constant v, e0)], rfl, D.const v⟩
    | Identifier n =>
      unfold parseSimple at h
      obtain ⟨rfl, -, -, rfl⟩ := some_inj4 h
      exact ⟨[(s0, .Identifier n, e0)], rfl, D.wire n⟩
    | OpenParen =>
      unfold parseSimple at h
      simp only at h
      split at h
      · cases h
      · rename_i x1 s1 e1 rest1 heq
        obtain ⟨c1, hc1, d1⟩ := ih.tier _ _ _ _ _ _ (Nat.zero_le _) heq
        cases rest1 with
        | nil => cases h
        | cons hd2 rest2 =>
          obtain ⟨sc, t2, ec⟩ := hd2
          cases t2 with
          | CloseParen =>
            obtain ⟨rfl, -, -, rfl⟩ := some_inj4 h
            refine ⟨(s0, .OpenParen, e0) :: (c1 ++ [(sc, .CloseParen, ec)]), by rw [hc1]; simp, ?_⟩
            simp only [kinds_cons, kinds_app, kinds_nil]
            exact D.paren d1
          | DotDot =>
            simp only at h
            split at h
            · cases h
            · rename_i y sy ey rest3 heq2
              obtain ⟨c2, hc2, d2⟩ := ih.tier _ _ _ _ _ _ (Nat.zero_le _) heq2
              split at h
              · cases h
              · rename_i sc' e' rest4 hex
                have hx := expect_inv hex
                obtain ⟨rfl, -, -, rfl⟩ := some_inj4 h
                refine ⟨(s0, .OpenParen, e0) :: (c1 ++ (sc, .DotDot, ec) :: (c2 ++ [(sc', .CloseParen, e')])),
                  by rw [hc1, hc2, hx]; simp, ?_⟩
                simp only [kinds_cons, kinds_app, kinds_nil, PEx.erase]
                exact D.concat d1 d2
          | _ => cases h
    | OpenBracket =>
      unfold parseSimple at h
      simp only at h
      split at h
      · cases h
      · rename_i opts so eo rest1 heq
        obtain ⟨c1, hc1, d1⟩ := ih.opts _ _ _ _ _ heq
        split at h
        · cases h
        · rename_i sc e' rest2 hex
          have hx := expect_inv hex
          obtain ⟨rfl, -, -, rfl⟩ := some_inj4 h
          refine ⟨(s0, .OpenBracket, e0) :: (c1 ++ [(sc, .CloseBracket, e')]), by rw [hc1, hx]; simp, ?_⟩
          simp only [kinds_cons, kinds_app, kinds_nil, PEx.erase]
          exact D.mux d1
    | _ => unfold parseSimple at h; cases h

theorem term_sound_step (g : Nat) (ih : AllSound g) : ∀ ts x s e rest, parseTerm (g + 1) ts = some (x, s, e, rest) →
    ∃ c, ts = c ++ rest ∧ D .term (.e x.erase) (kinds c) := by
  intro ts x s e rest h
  cases ts with
  | nil => unfold parseTerm at h; cases h
  | cons hd tl =>
    obtain ⟨s0, t, e0⟩ := hd
    unfold parseTerm at h
    simp only at h
    split at h
    · rename_i op hop
      split at h
      · cases h
      · rename_i x1 sx e1 rest1 heq
        obtain ⟨c1, hc1, d1⟩ := ih.simple _ _ _ _ _ heq
        obtain ⟨rfl, -, -, rfl⟩ := some_inj4 h
        refine ⟨(s0, t, e0) :: c1, by rw [hc1]; rfl, ?_⟩
        simp only [kinds_cons, PEx.erase]
        exact D.un hop d1
    · rename_i hop
      split at h
      · cases h
      · rename_i x1 s' e' rest1 heq
        obtain ⟨c1, hc1, d1⟩ := ih.simple _ _ _ _ _ heq
        cases rest1 with
        | nil =>
          obtain ⟨rfl, -, -, rfl⟩ := some_inj4 h
          exact ⟨c1, hc1, D.simpleTerm d1⟩
        | cons hd2 rest2 =>
          obtain ⟨sb, t2, eb⟩ := hd2
          cases t2 with
          | OpenBracket =>
            simp only at h
            split at h
            · cases h
            · rename_i lo s1 e1 rest3 h1
              obtain ⟨vlo, a1, a2, a3⟩ := smallConst_inv h1
              split at h
              · cases h
              · rename_i s2 e2 rest4 h2
                have b1 := expect_inv h2
                split at h
                · cases h
                · rename_i hi s3 e3 rest5 h3
                  obtain ⟨vhi, c1', c2', c3'⟩ := smallConst_inv h3
                  split at h
                  · cases h
                  · rename_i s4 e4 rest6 h4
                    have d4 := expect_inv h4
                    obtain ⟨rfl, -, -, rfl⟩ := some_inj4 h
                    refine ⟨c1 ++ [(sb, .OpenBracket, eb), (s1, .Constant vlo, e1), (s2, .DotDot, e2),
                      (s3, .Constant vhi, e3), (s4, .CloseBracket, e4)], by rw [hc1, a1, b1, c1', d4]; simp, ?_⟩
                    simp only [kinds_cons, kinds_app, kinds_nil, PEx.erase]
                    subst a2 c2'
                    exact D.slice (wlo := vlo.width) (whi := vhi.width) d1 a3 c3'
          | _ =>
            obtain ⟨rfl, -, -, rfl⟩ := some_inj4 h
            exact ⟨c1, hc1, D.simpleTerm d1⟩

theorem chain_sound_step (g : Nat) (ih : AllSound g) : ∀ k tier l s e ts x s' e' rest, tiers[k]? = some (some tier) →
    parseChain (g + 1) k tier l s e ts = some (x, s', e', rest) →
    ∃ c, ts = c ++ rest ∧ D (.chain k tier l.erase) (.e x.erase) (kinds c) := by
  intro k tier l s e ts x s' e' rest htk h
  have hk : k < 10 := by
    have := (List.getElem?_eq_some_iff.1 htk).1
    simpa [tiers] using this
  cases ts with
  | nil =>
    unfold parseChain at h
    obtain ⟨rfl, -, -, rfl⟩ := some_inj4 h
    exact ⟨[], rfl, D.chainNil htk⟩
  | cons hd rest1 =>
    obtain ⟨so, t, eo⟩ := hd
    unfold parseChain at h
    simp only at h
    split at h
    · rename_i t' op hfind
      split at h
      · cases h
      · rename_i r sr er rest2 heq
        obtain ⟨c1, hc1, d1⟩ := ih.tier _ _ _ _ _ _ (by omega) heq
        obtain ⟨c2, hc2, d2⟩ := ih.chain _ _ _ _ _ _ _ _ _ _ htk h
        refine ⟨(so, t, eo) :: (c1 ++ c2), by rw [hc1, hc2]; simp, ?_⟩
        simp only [kinds_cons, kinds_app]
        simp only [PEx.erase] at d2
        exact D.chainCons htk hfind d1 d2
    · cases h
      exact ⟨[], rfl, D.chainNil htk⟩

theorem tier_sound_step (g : Nat) (ih : AllSound g) : ∀ k ts x s e rest, k ≤ 10 →
    parseTier (g + 1) k ts = some (x, s, e, rest) → ∃ c, ts = c ++ rest ∧ D (.tier k) (.e x.erase) (kinds c) := by
  intro k ts x s e rest hk10 h
  unfold parseTier at h
  cases htk : tiers[k]? with
  | none =>
    simp only [htk] at h
    have hk : k = 10 := by
      have := List.getElem?_eq_none_iff.1 htk
      simp [tiers] at this
      omega
    subst hk
    obtain ⟨c1, hc1, d1⟩ := ih.term _ _ _ _ _ h
    exact ⟨c1, hc1, D.termTier d1⟩
  | some ot =>
    have hk : k < 10 := by
      have := (List.getElem?_eq_some_iff.1 htk).1
      simpa [tiers] using this
    cases ot with
    | none =>
      simp only [htk] at h
      split at h
      · cases h
      · rename_i x1 s1 e1 rest1 heq
        obtain ⟨c1, hc1, d1⟩ := ih.tier _ _ _ _ _ _ (by omega) heq
        cases rest1 with
        | nil =>
          obtain ⟨rfl, -, -, rfl⟩ := some_inj4 h
          exact ⟨c1, hc1, D.inPass htk d1⟩
        | cons hd rest1' =>
          obtain ⟨si, t, ei⟩ := hd
          cases t with
          | In =>
            simp only at h
            split at h
            · cases h
            · rename_i s2 e2 rest2 hex1
              have a1 := expect_inv hex1
              split at h
              · cases h
              · rename_i items s3 e3 rest3 hit
                obtain ⟨c2, hc2, d2⟩ := ih.items _ _ _ _ _ hit
                split at h
                · cases h
                · rename_i s4 e4 rest4 hex2
                  have a2 := expect_inv hex2
                  obtain ⟨rfl, -, -, rfl⟩ := some_inj4 h
                  refine ⟨c1 ++ (si, .In, ei) :: (s2, .OpenBrace, e2) :: (c2 ++ [(s4, .CloseBrace, e4)]),
                    by rw [hc1, a1, hc2, a2]; simp, ?_⟩
                  simp only [kinds_cons, kinds_app, kinds_nil, PEx.erase]
                  exact D.inSet htk d1 d2
          | _ =>
            obtain ⟨rfl, -, -, rfl⟩ := some_inj4 h
            exact ⟨c1, hc1, D.inPass htk d1⟩
    | some tier =>
      simp only [htk] at h
      split at h
      · cases h
      · rename_i l s1 e1 rest1 heq
        obtain ⟨c1, hc1, d1⟩ := ih.tier _ _ _ _ _ _ (by omega) heq
        split at h
        · rename_i hch
          obtain ⟨c2, hc2, d2⟩ := ih.chain _ _ _ _ _ _ _ _ _ _ htk h
          refine ⟨c1 ++ c2, by rw [hc1, hc2]; simp, ?_⟩
          rw [kinds_app]
          exact D.chainTier htk hch d1 d2
        · rename_i hch
          have hch' : tier.chains = false := by simpa using hch
          cases rest1 with
          | nil =>
            obtain ⟨rfl, -, -, rfl⟩ := some_inj4 h
            exact ⟨c1, hc1, D.flatPass htk hch' d1⟩
          | cons hd rest1' =>
            obtain ⟨so, t, eo⟩ := hd
            simp only at h
            split at h
            · rename_i t' op hfind
              split at h
              · cases h
              · rename_i r sr e' rest2 heq2
                obtain ⟨c2, hc2, d2⟩ := ih.tier _ _ _ _ _ _ (by omega) heq2
                obtain ⟨rfl, -, -, rfl⟩ := some_inj4 h
                refine ⟨c1 ++ (so, t, eo) :: c2, by rw [hc1, hc2]; simp, ?_⟩
                simp only [kinds_cons, kinds_app, PEx.erase]
                exact D.flatBin htk hch' d1 hfind d2
            · cases h
              exact ⟨c1, hc1, D.flatPass htk hch' d1⟩

theorem opts_sound_body (g : Nat) (ih : AllSound g) (ts : Toks) (o : POpts) (s e : Nat) (rest : Toks)
    (h : (match parseTier g 0 ts with
      | none => none
      | some (c, _, _, rest) =>
        match expect .Colon rest with
        | none => none
        | some (_, _, rest1) =>
          match parseTier g 0 rest1 with
          | none => none
          | some (v, _, _, rest2) =>
            match rest2 with
            | (_, .Semicolon, _) :: rest3 =>
              match parseOpts g rest3 with
              | none => none
              | some (more, _, _, rest4) => some (.cons c v more, 0, 0, rest4)
            | _ => some (.cons c v .nil, 0, 0, rest2)) = (some (o, s, e, rest) : P POpts)) :
    ∃ c, ts = c ++ rest ∧ D .opts (.o o.erase) (kinds c) := by
  split at h
  · cases h
  · rename_i c sc ec rest0 heq
    obtain ⟨c1, hc1, d1⟩ := ih.tier _ _ _ _ _ _ (Nat.zero_le _) heq
    split at h
    · cases h
    · rename_i s1 e1 rest1 hex
      have a1 := expect_inv hex
      split at h
      · cases h
      · rename_i v sv ev rest2 heq2
        obtain ⟨c2, hc2, d2⟩ := ih.tier _ _ _ _ _ _ (Nat.zero_le _) heq2
        have last : (some (POpts.cons c v .nil, 0, 0, rest2) : P POpts) = some (o, s, e, rest) →
            ∃ c, ts = c ++ rest ∧ D .opts (.o o.erase) (kinds c) := by
          intro h
          obtain ⟨rfl, -, -, rfl⟩ := some_inj4 h
          refine ⟨c1 ++ (s1, .Colon, e1) :: c2, by rw [hc1, a1, hc2]; simp, ?_⟩
          simp only [kinds_cons, kinds_app, POpts.erase]
          exact D.optsLast d1 d2
        cases rest2 with
        | nil => exact last h
        | cons hd rest3 =>
          obtain ⟨ss, t, es⟩ := hd
          cases t with
          | Semicolon =>
            simp only at h
            split at h
            · cases h
            · rename_i more sm em rest4 h3
              obtain ⟨c3, hc3, d3⟩ := ih.opts _ _ _ _ _ h3
              obtain ⟨rfl, -, -, rfl⟩ := some_inj4 h
              refine ⟨c1 ++ (s1, .Colon, e1) :: (c2 ++ (ss, .Semicolon, es) :: c3), by rw [hc1, a1, hc2, hc3]; simp, ?_⟩
              simp only [kinds_cons, kinds_app, POpts.erase]
              exact D.optsCons d1 d2 d3
          | _ => exact last h

theorem opts_sound_step (g : Nat) (ih : AllSound g) : ∀ ts o s e rest, parseOpts (g + 1) ts = some (o, s, e, rest) →
    ∃ c, ts = c ++ rest ∧ D .opts (.o o.erase) (kinds c) := by
  intro ts o s e rest h
  cases ts with
  | nil =>
    unfold parseOpts at h
    exact opts_sound_body g ih _ _ _ _ _ h
  | cons hd tl =>
    obtain ⟨s0, t, e0⟩ := hd
    cases t with
    | CloseBracket =>
      unfold parseOpts at h
      obtain ⟨rfl, -, -, rfl⟩ := some_inj4 h
      exact ⟨[], rfl, D.optsNil⟩
    | _ =>
      unfold parseOpts at h
      exact opts_sound_body g ih _ _ _ _ _ h

theorem items_sound_body (g : Nat) (ih : AllSound g) (ts : Toks) (o : PExs) (s e : Nat) (rest : Toks)
    (h : (match parseTier g 0 ts with
      | none => none
      | some (x, _, _, rest) =>
        match rest with
        | (_, .Comma, _) :: rest1 =>
          match parseItems g rest1 with
          | none => none
          | some (more, _, _, rest2) => some (.cons x more, 0, 0, rest2)
        | _ => some (.cons x .nil, 0, 0, rest)) = (some (o, s, e, rest) : P PExs)) :
    ∃ c, ts = c ++ rest ∧ D .items (.i o.erase) (kinds c) := by
  split at h
  · cases h
  · rename_i x sx ex rest0 heq
    obtain ⟨c1, hc1, d1⟩ := ih.tier _ _ _ _ _ _ (Nat.zero_le _) heq
    have last : (some (PExs.cons x .nil, 0, 0, rest0) : P PExs) = some (o, s, e, rest) →
        ∃ c, ts = c ++ rest ∧ D .items (.i o.erase) (kinds c) := by
      intro h
      obtain ⟨rfl, -, -, rfl⟩ := some_inj4 h
      exact ⟨c1, hc1, by simp only [PExs.erase]; exact D.itemsLast d1⟩
    cases rest0 with
    | nil => exact last h
    | cons hd rest1 =>
      obtain ⟨ss, t, es⟩ := hd
      cases t with
      | Comma =>
        simp only at h
        split at h
        · cases h
        · rename_i more sm em rest2 h3
          obtain ⟨c3, hc3, d3⟩ := ih.items _ _ _ _ _ h3
          obtain ⟨rfl, -, -, rfl⟩ := some_inj4 h
          refine ⟨c1 ++ (ss, .Comma, es) :: c3, by rw [hc1, hc3]; simp, ?_⟩
          simp only [kinds_cons, kinds_app, PExs.erase]
          exact D.itemsCons d1 d3
      | _ => exact last h

theorem items_sound_step (g : Nat) (ih : AllSound g) : ∀ ts o s e rest, parseItems (g + 1) ts = some (o, s, e, rest) →
    ∃ c, ts = c ++ rest ∧ D .items (.i o.erase) (kinds c) := by
  intro ts o s e rest h
  cases ts with
  | nil =>
    unfold parseItems at h
    exact items_sound_body g ih _ _ _ _ _ h
  | cons hd tl =>
    obtain ⟨s0, t, e0⟩ := hd
    cases t with
    | CloseBrace =>
      unfold parseItems at h
      obtain ⟨rfl, -, -, rfl⟩ := some_inj4 h
      exact ⟨[], rfl, D.itemsNil⟩
    | _ =>
      unfold parseItems at h
      exact items_sound_body g ih _ _ _ _ _ h

theorem allSound : ∀ f, AllSound f
  | 0 => allSound_zero
  | f + 1 =>
    have ih := allSound f
    { tier := tier_sound_step f ih, chain := chain_sound_step f ih, term := term_sound_step f ih,
      simple := simple_sound_step f ih, opts := opts_sound_step f ih, items := items_sound_step f ih }

/-- **Whatever the parser accepts is a derivation of the grammar**: the tokens `parseTier` consumed are derived from
    `Expr` at that tier with the tree it returned. -/
theorem parse_sound (f k : Nat) (ts : Toks) (x : PEx) (s e : Nat) (rest : Toks) (hk : k ≤ 10)
    (h : parseTier f k ts = some (x, s, e, rest)) :
    ∃ consumed, ts = consumed ++ rest ∧ D (.tier k) (.e x.erase) (kinds consumed) :=
  (allSound f).tier k ts x s e rest hk h

theorem parseChain_sound (f k : Nat) (tier : Tier) (l : PEx) (s e : Nat) (ts : Toks) (x : PEx) (s' e' : Nat) (rest : Toks)
    (htk : tiers[k]? = some (some tier)) (h : parseChain f k tier l s e ts = some (x, s', e', rest)) :
    ∃ consumed, ts = consumed ++ rest ∧ D (.chain k tier l.erase) (.e x.erase) (kinds consumed) :=
  (allSound f).chain k tier l s e ts x s' e' rest htk h

theorem parseTerm_sound (f : Nat) (ts : Toks) (x : PEx) (s e : Nat) (rest : Toks)
    (h : parseTerm f ts = some (x, s, e, rest)) : ∃ consumed, ts = consumed ++ rest ∧ D .term (.e x.erase) (kinds consumed) :=
  (allSound f).term ts x s e rest h

theorem parseSimple_sound (f : Nat) (ts : Toks) (x : PEx) (s e : Nat) (rest : Toks)
    (h : parseSimple f ts = some (x, s, e, rest)) :
    ∃ consumed, ts = consumed ++ rest ∧ D .simple (.e x.erase) (kinds consumed) :=
  (allSound f).simple ts x s e rest h

theorem parseOpts_sound (f : Nat) (ts : Toks) (o : POpts) (s e : Nat) (rest : Toks)
    (h : parseOpts f ts = some (o, s, e, rest)) : ∃ consumed, ts = consumed ++ rest ∧ D .opts (.o o.erase) (kinds consumed) :=
  (allSound f).opts ts o s e rest h

theorem parseItems_sound (f : Nat) (ts : Toks) (o : PExs) (s e : Nat) (rest : Toks)
    (h : parseItems f ts = some (o, s, e, rest)) :
    ∃ consumed, ts = consumed ++ rest ∧ D .items (.i o.erase) (kinds consumed) :=
  (allSound f).items ts o s e rest h

/-- an expression position of the statement level -/
theorem parseE_sound (toks : Toks) (x : Ex) (rest : Toks) (h : parseE toks = some (x, rest)) :
    ∃ consumed, toks = consumed ++ rest ∧ D (.tier 0) (.e x) (kinds consumed) := by
  unfold parseE at h
  split at h
  · rename_i px s e r heq
    cases h
    exact parse_sound _ 0 _ _ _ _ _ (Nat.zero_le _) heq
  · cases h

/-- **The derivation relation is exactly what the parser model accepts**: the tokens are, completely, an expression with
    the tree `x` iff their kinds are derived from `Expr` with `x`. -/
theorem parse_iff_D (toks : Toks) (x : Ex) : parseE toks = some (x, []) ↔ D (.tier 0) (.e x) (kinds toks) := by
  constructor
  · intro h
    obtain ⟨c, hc, d⟩ := parseE_sound toks x [] h
    rw [List.append_nil] at hc
    rw [hc]
    exact d
  · intro h
    exact parseE_complete h toks rfl

/-- with spans: some fuel parses the tokens completely to a tree that is `x` up to spans, iff ... -/
theorem parseTier_iff_D (toks : Toks) (x : Ex) :
    (∃ f px s e, parseTier f 0 toks = (some (px, s, e, []) : P PEx) ∧ px.erase = x) ↔ D (.tier 0) (.e x) (kinds toks) := by
  constructor
  · rintro ⟨f, px, s, e, h, rfl⟩
    obtain ⟨c, hc, d⟩ := parse_sound f 0 toks px s e [] (Nat.zero_le _) h
    rw [List.append_nil] at hc
    rw [hc]
    exact d
  · intro h
    obtain ⟨px, s, e, h1, h2⟩ := parse_complete h toks rfl
    exact ⟨_, px, s, e, h1, h2⟩

/-- at text level: `parseExpr` returns a tree that is `x` up to spans iff the text has no lexical error and the kinds
    of its tokens are derived from `Expr` with `x` -/
theorem parseExpr_iff_D (cls : CharCls) (text : List Char) (x : Ex) :
    (parseExpr cls text).map PEx.erase = some x ↔
      ∃ toks, tokensOf (lex cls text) = some toks ∧ D (.tier 0) (.e x) (kinds toks) := by
  constructor
  · intro h
    unfold parseExpr at h
    cases ht : tokensOf (lex cls text) with
    | none => rw [ht] at h; cases h
    | some toks =>
      rw [ht] at h
      simp only at h
      refine ⟨toks, rfl, ?_⟩
      cases hp : parseTier (14 * toks.length + 40) 0 toks with
      | none => rw [hp] at h; cases h
      | some r =>
        obtain ⟨px, s, e, rest⟩ := r
        rw [hp] at h
        cases rest with
        | nil =>
          simp only [Option.map_some, Option.some.injEq] at h
          exact (parseTier_iff_D toks x).1 ⟨_, px, s, e, hp, h⟩
        | cons a b => cases h
  · rintro ⟨toks, ht, d⟩
    exact parseExpr_complete d cls text toks ht rfl

end Parser

#print axioms Parser.parse_sound
#print axioms Parser.parse_iff_D
#print axioms Parser.parseTier_iff_D
#print axioms Parser.parseExpr_iff_D
