import Hcl.Proofs.LexLayout
open Lexer Parser

/-! The lexer looks at most one character beyond what it consumes: a turn of its loop that consumes `p` and stops in
    front of `cs'` does the same in front of every text that starts with the same character -- and, unless `p` is a
    line comment, in front of every text that starts with a separator (`Sep`: a character that can neither continue an
    identifier or a number nor be the second character of an operator or of a comment opener).  Hence the place where
    the lexer stands after a token is reached also when blank space is inserted there (`reach_insert`), and blank space
    between two tokens never changes the meaning (`parseProgram_insert_blank`). -/

namespace Lexer

/-! ### `spanWhile` -/

theorem spanWhile_fst_all (f : Char → Bool) : ∀ (l a b : List Char), spanWhile f l = (a, b) → ∀ x ∈ a, f x = true
  | [], a, b, h => by
    simp [spanWhile] at h
    obtain ⟨rfl, _⟩ := h
    intro x hx; cases hx
  | c :: rest, a, b, h => by
    unfold spanWhile at h
    by_cases hc : f c = true
    · simp only [hc, if_true] at h
      cases hsp : spanWhile f rest with
      | mk a' b' =>
        rw [hsp] at h
        simp only [Prod.mk.injEq] at h
        obtain ⟨rfl, rfl⟩ := h
        intro x hx
        rcases List.mem_cons.mp hx with rfl | hx'
        · exact hc
        · exact spanWhile_fst_all f rest a' b' hsp x hx'
    · simp only [hc, Bool.false_eq_true, if_false, Prod.mk.injEq] at h
      obtain ⟨rfl, _⟩ := h
      intro x hx; cases hx

/-- if `spanWhile` on `q ++ cs'` leaves exactly `cs'`, it took exactly `q`, and `cs'` does not go on with the predicate -/
theorem spanWhile_prefix (f : Char → Bool) (q cs' m : List Char) (h : spanWhile f (q ++ cs') = (m, cs')) :
    m = q ∧ (∀ x ∈ q, f x = true) ∧ (∀ c r, cs' = c :: r → f c = false) := by
  have h1 := spanWhile_split f _ _ _ h
  have hm : m = q := (List.append_cancel_right h1).symm
  subst hm
  refine ⟨rfl, spanWhile_fst_all f _ _ _ h, ?_⟩
  intro c r hc
  subst hc
  exact spanWhile_head f _ _ _ _ h

/-- ... and then it does the same in front of every text that does not go on with the predicate -/
theorem spanWhile_reloc (f : Char → Bool) (q cs' m cs'' : List Char) (h : spanWhile f (q ++ cs') = (m, cs'))
    (hd : ∃ c r, cs'' = c :: r ∧ f c = false) : spanWhile f (q ++ cs'') = (m, cs'') := by
  obtain ⟨rfl, hall, _⟩ := spanWhile_prefix f q cs' m h
  obtain ⟨c, r, rfl, hc⟩ := hd
  exact spanWhile_append_stop f m c r hall hc

theorem append_eq_self {q cs : List Char} (h : q ++ cs = cs) : q = [] := by
  have := congrArg List.length h
  simp only [List.length_append] at this
  cases q with
  | nil => rfl
  | cons a b => simp only [List.length_cons] at this; omega

/-! ### Separators -/

/-- a character that ends whatever token stands in front of it: it can neither continue an identifier or a number, nor
    be the second character of an operator (the comment openers `//` and `/*` are dealt with in `Agree`) -/
structure Sep (cls : CharCls) (h : Char) : Prop where
  alnum : cls.isAlphanumeric h = false
  under : h ≠ '_'
  hex : isHex h = false
  x : h ≠ 'x'
  amp : h ≠ '&'
  bar : h ≠ '|'
  eq : h ≠ '='
  gt : h ≠ '>'
  lt : h ≠ '<'

def IsNl (h : Char) : Prop := h = '\n' ∨ h = '\r'

/-- the text consumed by a turn of the loop is a line comment -/
def LineComment (p : List Char) : Prop := (∃ q, p = '#' :: q) ∨ (∃ q, p = '/' :: '/' :: q)

/-- `cs''` looks, to a turn of the loop that consumed `p` and stopped in front of `cs'`, like `cs'`: it starts with
    the same character, or it starts with a separator -- not `/` or `*` if `p` is the division sign, and a line end if
    `p` is a line comment -/
def Agree (cls : CharCls) (p cs' cs'' : List Char) : Prop :=
  (∃ c r r', cs' = c :: r ∧ cs'' = c :: r') ∨
  (∃ h r', cs'' = h :: r' ∧ Sep cls h ∧ (p = ['/'] → h ≠ '/' ∧ h ≠ '*') ∧ (IsNl h ∨ ¬ LineComment p))

theorem Agree.ne_nil {cls : CharCls} {p cs' cs'' : List Char} (h : Agree cls p cs' cs'') : ∃ c r, cs'' = c :: r := by
  rcases h with ⟨c, r, r', _, h2⟩ | ⟨c, r', h2, _⟩
  · exact ⟨c, r', h2⟩
  · exact ⟨c, r', h2⟩

/-- the new text stops a `spanWhile` that stopped in front of the old one -/
theorem Agree.stops {cls : CharCls} {p cs' cs'' : List Char} (h : Agree cls p cs' cs'') (f : Char → Bool)
    (hold : ∀ c r, cs' = c :: r → f c = false) (hsep : ∀ c, Sep cls c → (IsNl c ∨ ¬ LineComment p) → f c = false) :
    ∃ c r, cs'' = c :: r ∧ f c = false := by
  rcases h with ⟨c, r, r', h1, h2⟩ | ⟨c, r', h2, h3, _, h4⟩
  · exact ⟨c, r', h2, hold c r h1⟩
  · exact ⟨c, r', h2, hsep c h3 h4⟩

theorem isDec_isHex {c : Char} (h : isDec c = true) : isHex c = true := by
  unfold isHex
  unfold isDec at h
  simp only [h, Bool.true_or]

theorem isBin_isDec {c : Char} (h : isBin c = true) : isDec c = true := by
  unfold isBin at h
  unfold isDec
  simp only [Bool.and_eq_true, decide_eq_true_eq] at h ⊢
  exact ⟨h.1, Char.le_trans h.2 (by decide)⟩

theorem Sep.notDec {cls : CharCls} {h : Char} (hs : Sep cls h) : isDec h = false := by
  cases hd : isDec h with
  | false => rfl
  | true => have := isDec_isHex hd; rw [hs.hex] at this; cases this

theorem Sep.notBin {cls : CharCls} {h : Char} (hs : Sep cls h) : isBin h = false := by
  cases hd : isBin h with
  | false => rfl
  | true => have := isBin_isDec hd; rw [hs.notDec] at this; cases this

theorem Sep.notB {cls : CharCls} {h : Char} (hs : Sep cls h) : h ≠ 'b' := by
  intro hb
  subst hb
  have := hs.hex
  revert this
  decide

/-! ### The single steps -/

/-- `F` does, in front of `cs''`, what it did in front of `cs'` after consuming `q` -/
def LocalAt (q cs' cs'' : List Char) (F : List Char → Step) : Prop :=
  ∀ items off', F (q ++ cs') = .more items cs' off' → F (q ++ cs'') = .more items cs'' off'

theorem localAt_ite {q cs' cs'' : List Char} {p : Prop} [Decidable p] {A B : List Char → Step}
    (ha : p → LocalAt q cs' cs'' A) (hb : ¬ p → LocalAt q cs' cs'' B) :
    LocalAt q cs' cs'' (fun r => if p then A r else B r) := by
  intro items off' h
  by_cases hp : p
  · simp only [hp, if_true] at h ⊢; exact ha hp _ _ h
  · simp only [hp, if_false] at h ⊢; exact hb hp _ _ h

theorem localAt_stop {q cs' cs'' : List Char} (x : List Item) : LocalAt q cs' cs'' (fun _ => .stop x) := by
  intro items off' h
  cases h

theorem localAt_simple {q cs' cs'' : List Char} (i next : Nat) (t : Tok) :
    LocalAt q cs' cs'' (fun r => simpleStep r i next t) := by
  intro items off' h
  unfold simpleStep at h ⊢
  simp only [Step.more.injEq] at h ⊢
  obtain ⟨h1, h2, h3⟩ := h
  have := append_eq_self h2
  subst this
  exact ⟨h1, rfl, h3⟩

theorem localAt_choose {cls : CharCls} {p q cs' cs'' : List Char} (i next : Nat) (dflt : Tok) (opts : List (Char × Tok))
    (hsep : ∀ c, Sep cls c → opts.find? (fun o => o.1 == c) = none) (ha : Agree cls p cs' cs'') :
    LocalAt q cs' cs'' (fun r => chooseStep r i next dflt opts) := by
  intro items off' h
  simp only at h ⊢
  unfold chooseStep at h
  cases hr : q ++ cs' with
  | nil =>
    rw [hr] at h
    simp only [Step.more.injEq] at h
    obtain ⟨h1, h2, h3⟩ := h
    subst h2
    have hq : q = [] := by cases q with
      | nil => rfl
      | cons a b => cases hr
    subst hq
    rcases ha with ⟨c, r, r', hc, _⟩ | ⟨c, r', rfl, hs, _⟩
    · cases hc
    · unfold chooseStep
      simp only [List.nil_append, hsep c hs]
      exact (Step.more.injEq _ _ _ _ _ _).mpr ⟨h1, rfl, h3⟩
  | cons d rest2 =>
    rw [hr] at h
    simp only at h
    cases hf : opts.find? (fun o => o.1 == d) with
    | some o =>
      rw [hf] at h
      simp only [Step.more.injEq] at h
      obtain ⟨h1, h2, h3⟩ := h
      subst h2
      have hq : q = [d] := by
        have : q ++ rest2 = [d] ++ rest2 := hr
        exact List.append_cancel_right this
      subst hq
      unfold chooseStep
      simp only [List.cons_append, List.nil_append, hf]
      exact (Step.more.injEq _ _ _ _ _ _).mpr ⟨h1, rfl, h3⟩
    | none =>
      rw [hf] at h
      simp only [Step.more.injEq] at h
      obtain ⟨h1, h2, h3⟩ := h
      have hq : q = [] := append_eq_self (hr.trans h2)
      subst hq
      simp only [List.nil_append] at hr
      have hstop : ∃ c r, cs'' = c :: r ∧ opts.find? (fun o => o.1 == c) = none := by
        rcases ha with ⟨c, r, r', hc, hc'⟩ | ⟨c, r', hc', hs, _⟩
        · rw [hr] at hc
          cases hc
          exact ⟨_, r', hc', hf⟩
        · exact ⟨c, r', hc', hsep c hs⟩
      obtain ⟨c, r, rfl, hfc⟩ := hstop
      unfold chooseStep
      simp only [List.nil_append, hfc]
      exact (Step.more.injEq _ _ _ _ _ _).mpr ⟨h1, rfl, h3⟩

theorem nl_stops {c : Char} (h : IsNl c) : (c != '\n' && c != '\r') = false := by
  rcases h with rfl | rfl <;> decide

theorem localAt_lineComment {cls : CharCls} {p q cs' cs'' : List Char} (next : Nat) (hp : LineComment p)
    (ha : Agree cls p cs' cs'') : LocalAt q cs' cs'' (fun r => lineCommentStep r next) := by
  intro items off' h
  simp only at h ⊢
  unfold lineCommentStep at h ⊢
  cases hsp : spanWhile (fun d => d != '\n' && d != '\r') (q ++ cs') with
  | mk skipped after =>
    rw [hsp] at h
    simp only [Step.more.injEq] at h
    obtain ⟨h1, h2, h3⟩ := h
    subst h2
    have hst := ha.stops _ (spanWhile_prefix _ _ _ _ hsp).2.2 (fun c _ hc => by
      rcases hc with hc | hc
      · exact nl_stops hc
      · exact absurd hp hc)
    rw [spanWhile_reloc _ q after skipped cs'' hsp hst]
    exact (Step.more.injEq _ _ _ _ _ _).mpr ⟨h1, rfl, h3⟩

theorem localAt_ident {cls : CharCls} {p q cs' cs'' : List Char} (c : Char) (i next : Nat)
    (ha : Agree cls p cs' cs'') : LocalAt q cs' cs'' (fun r => identStep cls c r i next) := by
  intro items off' h
  simp only at h ⊢
  unfold identStep at h ⊢
  cases hsp : spanWhile (fun d => cls.isAlphanumeric d || d == '_') (q ++ cs') with
  | mk more after =>
    rw [hsp] at h
    simp only [Step.more.injEq] at h
    obtain ⟨h1, h2, h3⟩ := h
    subst h2
    have hst := ha.stops _ (spanWhile_prefix _ _ _ _ hsp).2.2 (fun c hs _ => by
      have := hs.under
      simp [hs.alnum, this])
    rw [spanWhile_reloc _ q after more cs'' hsp hst]
    exact (Step.more.injEq _ _ _ _ _ _).mpr ⟨h1, rfl, h3⟩

theorem localAt_dot {q cs' cs'' : List Char} (i next : Nat) :
    LocalAt q cs' cs'' (fun r => match (generalizing := false) r with
      | '.' :: rest2 => .more [.tok i .DotDot (i + 2)] rest2 (next + 1)
      | _ => .stop [.err (.lexical i)]) := by
  intro items off' h
  simp only at h ⊢
  split at h
  · rename_i rest2 heq
    simp only [Step.more.injEq] at h
    obtain ⟨h1, h2, h3⟩ := h
    subst h2
    have hq : q = ['.'] := by
      have : q ++ rest2 = ['.'] ++ rest2 := heq
      exact List.append_cancel_right this
    subst hq
    simp only [List.cons_append, List.nil_append]
    exact (Step.more.injEq _ _ _ _ _ _).mpr ⟨h1, rfl, h3⟩
  · cases h

/-! ### Block comments -/

/-- what `skipBlock` leaves is a proper suffix of what it was given -/
theorem skipBlock_suffix : ∀ (f : Nat) (cs after : List Char) (off off' : Nat),
    skipBlock f cs off = some (after, off') → ∃ q, cs = q ++ after ∧ 2 ≤ q.length
  | 0, _, _, _, _, h => by simp [skipBlock] at h
  | f + 1, cs, after, off, off', h => by
    unfold skipBlock at h
    cases hsp : spanWhile (· != '*') cs with
    | mk skipped aft =>
      rw [hsp] at h
      simp only at h
      have hsplit := spanWhile_split _ _ _ _ hsp
      cases aft with
      | nil => simp at h
      | cons st after2 =>
        simp only at h
        split at h
        · rename_i after3
          simp only [Option.some.injEq, Prod.mk.injEq] at h
          obtain ⟨rfl, _⟩ := h
          exact ⟨skipped ++ [st, '/'], by rw [hsplit]; simp, by simp⟩
        · obtain ⟨q2, h2, h3⟩ := skipBlock_suffix f after2 after _ off' h
          exact ⟨skipped ++ st :: q2, by rw [hsplit, h2]; simp, by simp; omega⟩

/-- a block comment is skipped in the same way whatever follows it -/
theorem skipBlock_local : ∀ (f : Nat) (q cs' : List Char) (off off' : Nat),
    skipBlock f (q ++ cs') off = some (cs', off') →
    ∀ (f' : Nat) (cs'' : List Char), q.length < f' → skipBlock f' (q ++ cs'') off = some (cs'', off')
  | 0, _, _, _, _, h => by simp [skipBlock] at h
  | f + 1, q, cs', off, off', h => by
    intro f' cs'' hf'
    obtain ⟨f'', rfl⟩ : ∃ f'', f' = f'' + 1 := ⟨f' - 1, by omega⟩
    unfold skipBlock at h
    cases hsp : spanWhile (· != '*') (q ++ cs') with
    | mk skipped aft =>
      rw [hsp] at h
      simp only at h
      have hsplit := spanWhile_split _ _ _ _ hsp
      have hall := spanWhile_fst_all _ _ _ _ hsp
      cases aft with
      | nil => simp at h
      | cons st after2 =>
        have hst : st = '*' := by
          have := spanWhile_head _ _ _ _ _ hsp
          simpa using this
        subst hst
        have hstar : ('*' != '*') = false := by decide
        simp only at h
        split at h
        · rename_i after3
          simp only [Option.some.injEq, Prod.mk.injEq] at h
          obtain ⟨rfl, rfl⟩ := h
          have hq : q = skipped ++ ['*', '/'] := by
            have : q ++ after3 = (skipped ++ ['*', '/']) ++ after3 := by rw [hsplit]; simp
            exact List.append_cancel_right this
          subst hq
          unfold skipBlock
          have e : (skipped ++ ['*', '/']) ++ cs'' = skipped ++ '*' :: '/' :: cs'' := by simp
          rw [e, spanWhile_append_stop _ skipped '*' ('/' :: cs'') hall hstar]
          rfl
        · rename_i hneg
          obtain ⟨q2, h2, h3⟩ := skipBlock_suffix f after2 cs' _ off' h
          have hq : q = skipped ++ '*' :: q2 := by
            have : q ++ cs' = (skipped ++ '*' :: q2) ++ cs' := by rw [hsplit, h2]; simp
            exact List.append_cancel_right this
          subst hq
          rw [h2] at h
          have ih := skipBlock_local f q2 cs' _ off' h f'' cs'' (by simp at hf'; omega)
          unfold skipBlock
          have e : (skipped ++ '*' :: q2) ++ cs'' = skipped ++ '*' :: (q2 ++ cs'') := by simp
          rw [e, spanWhile_append_stop _ skipped '*' (q2 ++ cs'') hall hstar]
          simp only
          cases q2 with
          | nil => simp at h3
          | cons a q3 =>
            split
            · rename_i after3' heq
              simp only [List.cons_append, List.cons.injEq] at heq
              obtain ⟨rfl, _⟩ := heq
              exact absurd (by rw [h2]; rfl) (hneg (q3 ++ cs'))
            · exact ih

theorem localAt_slash {cls : CharCls} {q cs' cs'' : List Char} (i next : Nat)
    (ha : Agree cls ('/' :: q) cs' cs'') : LocalAt q cs' cs'' (fun r => slashStep r i next) := by
  intro items off' h
  simp only at h ⊢
  cases q with
  | nil =>
    -- nothing but the `/` was consumed: the division sign
    simp only [List.nil_append] at h ⊢
    have hdiv : ∀ c r, cs' = c :: r → c ≠ '/' ∧ c ≠ '*' := by
      intro c r hc
      subst hc
      constructor
      · intro h1
        subst h1
        unfold slashStep lineCommentStep at h
        cases hsp : spanWhile (fun d => d != '\n' && d != '\r') ('/' :: r) with
        | mk skipped after =>
          rw [hsp] at h
          simp only [Step.more.injEq] at h
          obtain ⟨_, h2, _⟩ := h
          subst h2
          have := spanWhile_head _ _ _ _ _ hsp
          revert this; decide
      · intro h1
        subst h1
        unfold slashStep at h
        simp only at h
        split at h
        · rename_i after off2 hsk
          simp only [Step.more.injEq] at h
          obtain ⟨_, h2, _⟩ := h
          subst h2
          obtain ⟨q, hq1, hq2⟩ := skipBlock_suffix _ _ _ _ _ hsk
          have := congrArg List.length hq1
          simp only [List.length_append] at this
          omega
        · cases h
    have hnew : ∃ c r, cs'' = c :: r ∧ c ≠ '/' ∧ c ≠ '*' := by
      rcases ha with ⟨c, r, r', hc, hc'⟩ | ⟨c, r', hc', _, hs, _⟩
      · exact ⟨c, r', hc', hdiv c r hc⟩
      · exact ⟨c, r', hc', hs rfl⟩
    have e : ∀ cs : List Char, (∀ c r, cs = c :: r → c ≠ '/' ∧ c ≠ '*') →
        slashStep cs i next = simpleStep cs i next .Divide := by
      intro cs hcs
      unfold slashStep
      split
      · rename_i r; exact absurd rfl (hcs _ _ rfl).1
      · rename_i r; exact absurd rfl (hcs _ _ rfl).2
      · rfl
    rw [e cs' hdiv] at h
    obtain ⟨c, r, rfl, hc1, hc2⟩ := hnew
    rw [e (c :: r) (by intro c' r' h'; cases h'; exact ⟨hc1, hc2⟩)]
    exact localAt_simple (q := []) i next .Divide _ _ h
  | cons c1 q1 =>
    by_cases h1 : c1 = '/'
    · subst h1
      unfold slashStep at h ⊢
      simp only [List.cons_append] at h ⊢
      exact localAt_lineComment (q := '/' :: q1) next (Or.inr ⟨q1, rfl⟩) ha _ _ h
    · by_cases h2 : c1 = '*'
      · subst h2
        unfold slashStep at h ⊢
        simp only [List.cons_append] at h ⊢
        split at h
        · rename_i after off2 hsk
          simp only [Step.more.injEq] at h
          obtain ⟨g1, g2, g3⟩ := h
          subst g2
          have := skipBlock_local _ ('*' :: q1) after next off2 hsk (('*' :: (q1 ++ cs'')).length + 1) cs''
            (by simp only [List.length_cons, List.length_append]; omega)
          simp only [List.cons_append] at this
          rw [this]
          exact (Step.more.injEq _ _ _ _ _ _).mpr ⟨g1, rfl, g3⟩
        · cases h
      · have e : ∀ cs : List Char, slashStep (c1 :: cs) i next = simpleStep (c1 :: cs) i next .Divide := by
          intro cs
          unfold slashStep
          split
          · rename_i r heq; cases heq; exact absurd rfl h1
          · rename_i r heq; cases heq; exact absurd rfl h2
          · rfl
        simp only [List.cons_append] at h ⊢
        rw [e] at h
        rw [e]
        exact localAt_simple (q := c1 :: q1) i next .Divide _ _ h

/-! ### Operators and punctuation -/

theorem localAt_ite' {q cs' cs'' : List Char} {p : Prop} [Decidable p] {A B : List Char → Step}
    (ha : LocalAt q cs' cs'' A) (hb : LocalAt q cs' cs'' B) :
    LocalAt q cs' cs'' (fun r => if p then A r else B r) :=
  localAt_ite (fun _ => ha) (fun _ => hb)

theorem Sep.find_none {cls : CharCls} {c : Char} (hs : Sep cls c) (opts : List (Char × Tok))
    (hopts : ∀ o ∈ opts, o.1 ∈ ['&', '|', '=', '>', '<']) : opts.find? (fun o => o.1 == c) = none := by
  rw [List.find?_eq_none]
  intro o ho
  have := hopts o ho
  simp only [List.mem_cons, List.not_mem_nil, or_false] at this
  have h1 := hs.amp; have h2 := hs.bar; have h3 := hs.eq; have h4 := hs.gt; have h5 := hs.lt
  rcases this with h | h | h | h | h <;> (rw [h]; simp; intro h'; exact absurd h'.symm (by assumption))

theorem localAt_punct {cls : CharCls} {q cs' cs'' : List Char} (c : Char) (i next : Nat)
    (ha : Agree cls (c :: q) cs' cs'') : LocalAt q cs' cs'' (fun r => punctStep c r i next) := by
  by_cases h1 : c = '#'
  · subst h1
    unfold punctStep
    simp only [beq_self_eq_true, if_true]
    exact localAt_lineComment next (Or.inl ⟨q, rfl⟩) ha
  · by_cases h2 : c = '/'
    · subst h2
      unfold punctStep
      simp only [show ('/' == '#') = false by decide, beq_self_eq_true, Bool.false_eq_true, if_false, if_true]
      exact localAt_slash i next ha
    · have e1 : (c == '#') = false := by simpa using h1
      have e2 : (c == '/') = false := by simpa using h2
      unfold punctStep
      simp only [e1, e2, Bool.false_eq_true, if_false]
      repeat' apply localAt_ite'
      all_goals first
        | exact localAt_simple _ _ _
        | exact localAt_choose _ _ _ _ (fun c hs => hs.find_none _ (by decide)) ha
        | exact localAt_dot _ _
        | exact localAt_stop _

/-! ### Numbers -/

theorem handleConstant_single (i : Nat) (first c : Char) (r : List Char) (total : Nat) (hx : c ≠ 'x') (hb : c ≠ 'b')
    (hd : isDec c = false) :
    handleConstant i first (c :: r) total = .ok ((i, .Constant ⟨first.toNat - 48, .unlimited⟩, i + 1), c :: r, i + 1) := by
  have e1 : (c == 'x') = false := by simpa using hx
  have e2 : (c == 'b') = false := by simpa using hb
  unfold handleConstant
  simp only [e1, e2, hd, Bool.false_eq_true, if_false]

theorem handleConstant_local {cls : CharCls} {p : List Char} (i : Nat) (first : Char) (q cs' cs'' : List Char)
    (total : Nat) (x : Nat × Tok × Nat) (off' : Nat)
    (h : handleConstant i first (q ++ cs') total = .ok (x, cs', off')) (ha : Agree cls p cs' cs'') :
    handleConstant i first (q ++ cs'') total = .ok (x, cs'', off') := by
  cases q with
  | nil =>
    simp only [List.nil_append] at h ⊢
    -- a single digit
    have hold : ∀ c r, cs' = c :: r → c ≠ 'x' ∧ c ≠ 'b' ∧ isDec c = false := by
      intro c2 rest2 hc
      subst hc
      unfold handleConstant at h
      simp only at h
      refine ⟨?_, ?_, ?_⟩
      · intro hx
        subst hx
        simp only [beq_self_eq_true, if_true] at h
        cases rest2 with
        | nil => cases h
        | cons hd tl =>
          simp only at h
          split at h
          · cases h
          · cases hsp : spanWhile isHex (hd :: tl) with
            | mk digits aft =>
              rw [hsp] at h
              simp only at h
              have hl := spanWhile_length _ _ _ _ hsp
              split at h
              · simp only [Except.ok.injEq, Prod.mk.injEq] at h
                obtain ⟨_, h2, _⟩ := h
                subst h2
                simp only [List.length_cons] at hl
                omega
              · cases h
      · intro hb
        subst hb
        simp only [show ('b' == 'x') = false by decide, Bool.false_eq_true, if_false, beq_self_eq_true, if_true] at h
        cases rest2 with
        | nil => cases h
        | cons hd tl =>
          simp only at h
          split at h
          · cases h
          · cases hsp : spanWhile isBin (hd :: tl) with
            | mk digits aft =>
              rw [hsp] at h
              simp only at h
              have hl := spanWhile_length _ _ _ _ hsp
              have fin : ∀ (y : Except LexErr ((Nat × Tok × Nat) × List Char × Nat)),
                  (∀ z o, y = .ok (z, 'b' :: hd :: tl, o) → ∃ z', y = .ok (z', aft, o)) →
                  y = .ok (x, 'b' :: hd :: tl, off') → False := by
                intro y hy hy'
                obtain ⟨z', hz⟩ := hy _ _ hy'
                rw [hz] at hy'
                simp only [Except.ok.injEq, Prod.mk.injEq] at hy'
                obtain ⟨_, h2, _⟩ := hy'
                subst h2
                simp only [List.length_cons] at hl
                omega
              split at h
              · split at h
                · cases h
                · split at h
                  · cases h
                  · split at h
                    · simp only [Except.ok.injEq, Prod.mk.injEq] at h
                      obtain ⟨_, h2, _⟩ := h
                      rw [h2] at hl
                      simp only [List.length_cons] at hl
                      omega
                    · cases h
              · split at h
                · cases h
                · split at h
                  · simp only [Except.ok.injEq, Prod.mk.injEq] at h
                    obtain ⟨_, h2, _⟩ := h
                    cases h2
                  · cases h
      · cases hdc : isDec c2 with
        | false => rfl
        | true =>
          exfalso
          by_cases hx : (c2 == 'x') = true
          · have : c2 = 'x' := by simpa using hx
            subst this
            revert hdc; decide
          · by_cases hb : (c2 == 'b') = true
            · have : c2 = 'b' := by simpa using hb
              subst this
              revert hdc; decide
            · simp only [hx, hb, hdc, Bool.false_eq_true, if_false, if_true] at h
              cases hsp : spanWhile isDec (first :: c2 :: rest2) with
              | mk digits aft =>
                rw [hsp] at h
                simp only at h
                split at h
                · simp only [Except.ok.injEq, Prod.mk.injEq] at h
                  obtain ⟨_, h2, _⟩ := h
                  subst h2
                  have := spanWhile_head _ _ _ _ _ hsp
                  rw [hdc] at this
                  cases this
                · cases h
    have hval : x = (i, .Constant ⟨first.toNat - 48, .unlimited⟩, i + 1) ∧ off' = i + 1 := by
      cases cs' with
      | nil =>
        unfold handleConstant at h
        simp only [Except.ok.injEq, Prod.mk.injEq] at h
        exact ⟨h.1.symm, h.2.2.symm⟩
      | cons c2 rest2 =>
        obtain ⟨a1, a2, a3⟩ := hold c2 rest2 rfl
        rw [handleConstant_single i first c2 rest2 total a1 a2 a3] at h
        simp only [Except.ok.injEq, Prod.mk.injEq] at h
        exact ⟨h.1.symm, h.2.2.symm⟩
    obtain ⟨rfl, rfl⟩ := hval
    rcases ha with ⟨c, r, r', hc, rfl⟩ | ⟨c, r', rfl, hs, _⟩
    · obtain ⟨a1, a2, a3⟩ := hold c r hc
      exact handleConstant_single i first c r' total a1 a2 a3
    · exact handleConstant_single i first c r' total hs.x hs.notB hs.notDec
  | cons c2 q2 =>
    simp only [List.cons_append] at h ⊢
    unfold handleConstant at h ⊢
    simp only at h ⊢
    by_cases hx : (c2 == 'x') = true
    · simp only [hx, if_true] at h ⊢
      cases q2 with
      | nil =>
        exfalso
        simp only [List.nil_append] at h
        cases cs' with
        | nil => cases h
        | cons hd tl =>
          simp only at h
          by_cases hh : isHex hd = true
          · simp only [hh, Bool.not_true, Bool.false_eq_true, if_false] at h
            cases hsp : spanWhile isHex (hd :: tl) with
            | mk digits aft =>
              rw [hsp] at h
              simp only at h
              split at h
              · simp only [Except.ok.injEq, Prod.mk.injEq] at h
                obtain ⟨_, h2, _⟩ := h
                subst h2
                have := spanWhile_head _ _ _ _ _ hsp
                rw [hh] at this
                cases this
              · cases h
          · simp only [hh, Bool.not_false, if_true] at h
            cases h
      | cons hd q3 =>
        simp only [List.cons_append] at h ⊢
        by_cases hh : isHex hd = true
        · simp only [hh, Bool.not_true, Bool.false_eq_true, if_false] at h ⊢
          cases hsp : spanWhile isHex (hd :: (q3 ++ cs')) with
          | mk digits aft =>
            rw [hsp] at h
            simp only at h
            split at h
            · rename_i v hv
              simp only [Except.ok.injEq, Prod.mk.injEq] at h
              obtain ⟨g1, g2, g3⟩ := h
              subst g1 g2 g3
              have hsp' : spanWhile isHex ((hd :: q3) ++ aft) = (digits, aft) := hsp
              have hst := ha.stops isHex (spanWhile_prefix _ _ _ _ hsp').2.2 (fun c hs _ => hs.hex)
              have := spanWhile_reloc _ (hd :: q3) aft digits cs'' hsp' hst
              simp only [List.cons_append] at this
              rw [this]
              simp only [hv]
            · cases h
        · simp only [hh, Bool.not_false, if_true] at h
          cases h
    · simp only [hx, Bool.false_eq_true, if_false] at h ⊢
      by_cases hb : (c2 == 'b') = true
      · simp only [hb, if_true] at h ⊢
        cases q2 with
        | nil =>
          exfalso
          simp only [List.nil_append] at h
          cases cs' with
          | nil => cases h
          | cons hd tl =>
            simp only at h
            by_cases hh : isBin hd = true
            · simp only [hh, Bool.not_true, Bool.false_eq_true, if_false] at h
              cases hsp : spanWhile isBin (hd :: tl) with
              | mk digits aft =>
                rw [hsp] at h
                simp only at h
                have hhd : ∀ r, aft = hd :: r → False := by
                  intro r hr
                  subst hr
                  have := spanWhile_head _ _ _ _ _ hsp
                  rw [hh] at this
                  cases this
                split at h
                · split at h
                  · cases h
                  · split at h
                    · cases h
                    · split at h
                      · simp only [Except.ok.injEq, Prod.mk.injEq] at h
                        exact hhd _ h.2.1
                      · cases h
                · split at h
                  · cases h
                  · split at h
                    · simp only [Except.ok.injEq, Prod.mk.injEq] at h
                      cases h.2.1
                    · cases h
            · simp only [hh, Bool.not_false, if_true] at h
              cases h
        | cons hd q3 =>
          simp only [List.cons_append] at h ⊢
          by_cases hh : isBin hd = true
          · simp only [hh, Bool.not_true, Bool.false_eq_true, if_false] at h ⊢
            cases hsp : spanWhile isBin (hd :: (q3 ++ cs')) with
            | mk digits aft =>
              rw [hsp] at h
              simp only at h
              -- whatever branch was taken, what is left over is `cs'`, which does not start with a decimal digit
              have key : aft = cs' ∧ (∀ c r, cs' = c :: r → isDec c = false) ∧
                  (if digits.length > 128 then .error (.invalidConstant i (i + 2 + sizeOf' digits)) else
                    (match parseRadix 2 digits with
                     | some v => .ok ((i, .Constant ⟨v, .bits digits.length⟩, i + 2 + sizeOf' digits), cs'', i + 2 + sizeOf' digits)
                     | none => .error (.invalidConstant i (i + 2 + sizeOf' digits))) :
                      Except LexErr ((Nat × Tok × Nat) × List Char × Nat)) = .ok (x, cs'', off') := by
                cases aft with
                | nil =>
                  simp only at h
                  split at h
                  · cases h
                  · rename_i hlen
                    simp only [hlen, if_false]
                    split at h
                    · rename_i v hv
                      simp only [Except.ok.injEq, Prod.mk.injEq] at h
                      obtain ⟨g1, g2, g3⟩ := h
                      subst g1 g2 g3
                      refine ⟨rfl, ?_, ?_⟩
                      · intro c r hc; cases hc
                      · simp only [hv]
                    · cases h
                | cons dd aft2 =>
                  simp only at h
                  split at h
                  · cases h
                  · rename_i hdd
                    split at h
                    · cases h
                    · rename_i hlen
                      simp only [hlen, if_false]
                      split at h
                      · rename_i v hv
                        simp only [Except.ok.injEq, Prod.mk.injEq] at h
                        obtain ⟨g1, g2, g3⟩ := h
                        subst g1 g2 g3
                        refine ⟨rfl, ?_, ?_⟩
                        · intro c r hc
                          cases hc
                          simpa using hdd
                        · simp only [hv]
                      · cases h
              obtain ⟨k1, k2, k3⟩ := key
              subst k1
              have hsp' : spanWhile isBin ((hd :: q3) ++ aft) = (digits, aft) := hsp
              have hst := ha.stops isBin (spanWhile_prefix _ _ _ _ hsp').2.2 (fun c hs _ => hs.notBin)
              have := spanWhile_reloc _ (hd :: q3) aft digits cs'' hsp' hst
              simp only [List.cons_append] at this
              rw [this]
              simp only
              obtain ⟨c, r, rfl, hcd⟩ := ha.stops isDec k2 (fun c hs _ => hs.notDec)
              simp only [hcd, Bool.false_eq_true, if_false]
              exact k3
          · simp only [hh, Bool.not_false, if_true] at h
            cases h
      · simp only [hb, Bool.false_eq_true, if_false] at h ⊢
        by_cases hdc : isDec c2 = true
        · simp only [hdc, if_true] at h ⊢
          cases hsp : spanWhile isDec (first :: c2 :: (q2 ++ cs')) with
          | mk digits aft =>
            rw [hsp] at h
            simp only at h
            cases hv : parseRadix 10 digits with
            | none => rw [hv] at h; cases h
            | some v =>
              rw [hv] at h
              simp only [Except.ok.injEq, Prod.mk.injEq] at h
              obtain ⟨g1, g2, g3⟩ := h
              subst g1 g2 g3
              have hsp' : spanWhile isDec ((first :: c2 :: q2) ++ aft) = (digits, aft) := hsp
              have hst := ha.stops isDec (spanWhile_prefix _ _ _ _ hsp').2.2 (fun c hs _ => hs.notDec)
              have := spanWhile_reloc _ (first :: c2 :: q2) aft digits cs'' hsp' hst
              simp only [List.cons_append] at this
              rw [this]
              simp only [hv]
        · exfalso
          simp only [hdc, Bool.false_eq_true, if_false, Except.ok.injEq, Prod.mk.injEq] at h
          have := congrArg List.length h.2.1
          simp only [List.length_cons, List.length_append] at this
          omega

theorem localAt_constant {cls : CharCls} {p q cs' cs'' : List Char} (c : Char) (i total : Nat)
    (ha : Agree cls p cs' cs'') : LocalAt q cs' cs'' (fun r => constantStep c r i total) := by
  intro items off' h
  simp only at h ⊢
  unfold constantStep at h ⊢
  cases hc : handleConstant i c (q ++ cs') total with
  | error e => rw [hc] at h; cases h
  | ok r =>
    obtain ⟨⟨s, t, e⟩, after, o⟩ := r
    rw [hc] at h
    simp only [Step.more.injEq] at h
    obtain ⟨h1, h2, h3⟩ := h
    subst h2
    rw [handleConstant_local i c q after cs'' total (s, t, e) o hc ha]
    exact (Step.more.injEq _ _ _ _ _ _).mpr ⟨h1, rfl, h3⟩

theorem localAt_more {q cs' cs'' : List Char} (x : List Item) (n : Nat) :
    LocalAt q cs' cs'' (fun r => .more x r n) := by
  intro items off' h
  simp only [Step.more.injEq] at h ⊢
  obtain ⟨h1, h2, h3⟩ := h
  have := append_eq_self h2
  subst this
  exact ⟨h1, rfl, h3⟩

/-- **The lexer looks one character ahead, no more**: a turn of the loop that consumes `p` and stops in front of
    `cs'` does the same in front of every `cs''` that starts with the same character, or with a separator (a line end, if
    `p` is a line comment). -/
theorem lexStep_local (cls : CharCls) (total : Nat) (p cs' cs'' : List Char) (off : Nat) (items : List Item) (off' : Nat)
    (h : lexStep cls total (p ++ cs') off = .more items cs' off') (ha : Agree cls p cs' cs'') :
    lexStep cls total (p ++ cs'') off = .more items cs'' off' := by
  cases p with
  | nil =>
    have hp := lexStep_progress cls total ([] ++ cs') off
    rw [h] at hp
    have := hp.2
    simp only [List.nil_append] at this
    omega
  | cons c q =>
    have key : LocalAt q cs' cs'' (fun r => lexStep cls total (c :: r) off) := by
      unfold lexStep
      simp only
      refine localAt_ite' (localAt_more _ _) (localAt_ite' (localAt_ident c _ _ ha) (localAt_ite' ?_ ?_))
      · exact localAt_constant c _ _ ha
      · exact localAt_punct c _ _ ha
    exact key items off' h

/-! ### Runs of the loop -/

/-- the lexer reads `a` in front of `rest` in some turns of its loop, each of which ends inside or at the end of `a`:
    `Run cls total rest a off items off'` -/
inductive Run (cls : CharCls) (total : Nat) (rest : List Char) : List Char → Nat → List Item → Nat → Prop
  | nil (off : Nat) : Run cls total rest [] off [] off
  | cons {p a : List Char} {off : Nat} {items : List Item} {off1 : Nat} {items' : List Item} {off2 : Nat} :
      lexStep cls total (p ++ (a ++ rest)) off = .more items (a ++ rest) off1 →
      Run cls total rest a off1 items' off2 → Run cls total rest (p ++ a) off (items ++ items') off2

theorem Run.reach {cls : CharCls} {total : Nat} {rest a : List Char} {off : Nat} {items : List Item} {off' : Nat}
    (h : Run cls total rest a off items off') : Reach cls total (a ++ rest) off items rest off' := by
  induction h with
  | nil off => exact Reach.refl _ _
  | cons hs _ ih =>
    rw [List.append_assoc]
    exact Reach.step hs ih

/-- one more turn at the end of a run -/
theorem Run.snoc {cls : CharCls} {total : Nat} {p b a : List Char} {off : Nat} {items : List Item} {off1 : Nat}
    {items2 : List Item} {off2 : Nat} (h : Run cls total (p ++ b) a off items off1)
    (hs : lexStep cls total (p ++ b) off1 = .more items2 b off2) :
    Run cls total b (a ++ p) off (items ++ items2) off2 := by
  induction h with
  | nil off =>
    have := Run.cons (a := []) (rest := b) (by simpa using hs) (Run.nil off2)
    simpa using this
  | @cons p' a' off items off1' items' off2' hs' _ ih =>
    have ih' := ih hs
    have e : p' ++ (a' ++ (p ++ b)) = p' ++ ((a' ++ p) ++ b) := by simp
    rw [e] at hs'
    have e2 : a' ++ (p ++ b) = (a' ++ p) ++ b := by simp
    rw [e2] at hs'
    have := Run.cons hs' ih'
    rw [List.append_assoc, List.append_assoc]
    exact this

/-- a run in front of a text is a run in front of every text with the same first character -/
theorem Run.local {cls : CharCls} {total : Nat} {c : Char} {r : List Char} {a : List Char} {off : Nat} {items : List Item}
    {off' : Nat} (h : Run cls total (c :: r) a off items off') (r' : List Char) :
    Run cls total (c :: r') a off items off' := by
  induction h with
  | nil off => exact Run.nil off
  | @cons p a off items off1 items' off2 hs _ ih =>
    refine Run.cons ?_ ih
    apply lexStep_local cls total p (a ++ c :: r) (a ++ c :: r') off items off1 hs
    cases a with
    | nil => exact Or.inl ⟨c, r, r', rfl, rfl⟩
    | cons x a' => exact Or.inl ⟨x, a' ++ c :: r, a' ++ c :: r', rfl, rfl⟩

/-- a run is a run whatever the total length of the text is -/
theorem Reach.total {cls : CharCls} {total : Nat} {cs : List Char} {off : Nat} {items : List Item} {cs' : List Char}
    {off' : Nat} (h : Reach cls total cs off items cs' off') (total' : Nat) :
    ∃ items', ItemsRel 0 items items' ∧ Reach cls total' cs off items' cs' off' := by
  obtain ⟨items', h1, h2⟩ := h.shift 0 total'
  exact ⟨items', h1, by simpa using h2⟩

/-- **The place after a token is reached also when something else follows there**: if the lexer reads `a`, then `p` in
    one turn, and arrives in front of `b`, then in front of every `b''` that starts like `b` or with a separator (a line
    end, if `p` is a line comment) it reads `a ++ p` in the same way. -/
theorem run_insert {cls : CharCls} {total : Nat} {a p b : List Char} {pre : List Item} {o1 : Nat} {items : List Item}
    {o2 : Nat} (hrun : Run cls total (p ++ b) a 0 pre o1) (hstep : lexStep cls total (p ++ b) o1 = .more items b o2)
    (b'' : List Char) (ha : Agree cls p b b'') : Run cls total b'' (a ++ p) 0 (pre ++ items) o2 := by
  have hp : ∃ c q, p = c :: q := by
    cases p with
    | nil =>
      have hp := lexStep_progress cls total ([] ++ b) o1
      rw [hstep] at hp
      have := hp.2
      simp only [List.nil_append] at this
      omega
    | cons c q => exact ⟨c, q, rfl⟩
  obtain ⟨c, q, rfl⟩ := hp
  have h1 : Run cls total ((c :: q) ++ b'') a 0 pre o1 := Run.local (r := q ++ b) hrun (q ++ b'')
  exact Run.snoc h1 (lexStep_local cls total (c :: q) b b'' o1 items o2 hstep ha)

/-- **Blank space, or a comment, after a token never changes the meaning.**  The lexer reads `a`, then `p` in one
    turn (a token, or a comment, or a blank), and arrives in front of `b`; `w` is text that the lexer skips in front of `b`
    (`Skips`: blank space, comments) and that starts with a separator (a line end, if `p` is a line comment): then the
    text with `w` inserted between `p` and `b` has the same tokens -- those after `w` moved by its length -- and means
    the same. -/
theorem tokens_insert_after (cls : CharCls) (a p b w : List Char) (pre : List Item) (o1 : Nat) (items : List Item) (o2 : Nat)
    (hrun : Run cls (sizeOf' ((a ++ p) ++ b)) (p ++ b) a 0 pre o1)
    (hstep : lexStep cls (sizeOf' ((a ++ p) ++ b)) (p ++ b) o1 = .more items b o2)
    (ha : Agree cls p b (w ++ b)) (hw : Skips cls w b) :
    (tokensOf (lex cls ((a ++ p) ++ b)) = none ∧ tokensOf (lex cls ((a ++ p) ++ (w ++ b))) = none) ∨
    ∃ tp ts, tokensOf (lex cls ((a ++ p) ++ b)) = some (tp ++ ts) ∧
      tokensOf (lex cls ((a ++ p) ++ (w ++ b))) = some (tp ++ shiftToks (sizeOf' w) ts) := by
  have r1 := (Run.snoc hrun hstep).reach
  have r2 := (run_insert hrun hstep (w ++ b) ha).reach
  obtain ⟨pre', hpre, r2'⟩ := r2.total (sizeOf' ((a ++ p) ++ (w ++ b)))
  exact tokens_insert cls (a ++ p) w b _ pre' o2 r1 r2' hpre hw

theorem parseProgram_insert_after (cls : CharCls) (a p b w : List Char) (pre : List Item) (o1 : Nat) (items : List Item)
    (o2 : Nat) (hrun : Run cls (sizeOf' ((a ++ p) ++ b)) (p ++ b) a 0 pre o1)
    (hstep : lexStep cls (sizeOf' ((a ++ p) ++ b)) (p ++ b) o1 = .more items b o2)
    (ha : Agree cls p b (w ++ b)) (hw : Skips cls w b) :
    parseProgram cls ((a ++ p) ++ (w ++ b)) = parseProgram cls ((a ++ p) ++ b) := by
  have r1 := (Run.snoc hrun hstep).reach
  have r2 := (run_insert hrun hstep (w ++ b) ha).reach
  obtain ⟨pre', hpre, r2'⟩ := r2.total (sizeOf' ((a ++ p) ++ (w ++ b)))
  exact parseProgram_insert cls (a ++ p) w b _ pre' o2 r1 r2' hpre hw

/-- **Any two layouts after a token are interchangeable.**  The lexer reads `a`, then `p` in one turn, and arrives in
    front of `w1 ++ b`, where it skips `w1` (blank space, comments; possibly nothing); `w2` is other text that the lexer
    skips in front of `b`, and `w2 ++ b` starts like `w1 ++ b` or with a separator: then the text with `w2` in the place of
    `w1` has the same token kinds and means the same.  (Insertion: `w1 = []`; removal: `w2 = []`; another line-ending
    style, tabs for spaces, a comment for a blank, ...) -/
theorem tokenKinds_replace_layout (cls : CharCls) (a p w1 w2 b : List Char) (pre : List Item) (o1 : Nat) (items : List Item)
    (o2 : Nat) (hrun : Run cls (sizeOf' ((a ++ p) ++ (w1 ++ b))) (p ++ (w1 ++ b)) a 0 pre o1)
    (hstep : lexStep cls (sizeOf' ((a ++ p) ++ (w1 ++ b))) (p ++ (w1 ++ b)) o1 = .more items (w1 ++ b) o2)
    (ha : Agree cls p (w1 ++ b) (w2 ++ b)) (hw1 : Skips cls w1 b) (hw2 : Skips cls w2 b) :
    tokenKinds cls ((a ++ p) ++ (w2 ++ b)) = tokenKinds cls ((a ++ p) ++ (w1 ++ b)) := by
  have r1 := Reach.trans (Run.snoc hrun hstep).reach (hw1 _ o2)
  have r2 := (run_insert hrun hstep (w2 ++ b) ha).reach
  obtain ⟨pre', hpre, r2'⟩ := r2.total (sizeOf' ((a ++ p) ++ (w2 ++ b)))
  have r2'' := Reach.trans r2' (hw2 _ o2)
  rw [List.append_nil] at r1 r2''
  exact (tokenKinds_same_rest cls _ _ b _ _ _ _ r1 r2'' hpre).symm

theorem parseProgram_replace_layout (cls : CharCls) (a p w1 w2 b : List Char) (pre : List Item) (o1 : Nat)
    (items : List Item) (o2 : Nat) (hrun : Run cls (sizeOf' ((a ++ p) ++ (w1 ++ b))) (p ++ (w1 ++ b)) a 0 pre o1)
    (hstep : lexStep cls (sizeOf' ((a ++ p) ++ (w1 ++ b))) (p ++ (w1 ++ b)) o1 = .more items (w1 ++ b) o2)
    (ha : Agree cls p (w1 ++ b) (w2 ++ b)) (hw1 : Skips cls w1 b) (hw2 : Skips cls w2 b) :
    parseProgram cls ((a ++ p) ++ (w2 ++ b)) = parseProgram cls ((a ++ p) ++ (w1 ++ b)) :=
  parseProgram_of_tokenKinds cls _ _ (tokenKinds_replace_layout cls a p w1 w2 b pre o1 items o2 hrun hstep ha hw1 hw2)

/-- **Inserting blank space between two tokens does not change the token kinds** (`ws` non-empty, its first character a
    separator; `p`, the text read in front of it, not a line comment -- or else `ws` starts with a line end). -/
theorem kinds_insert_blank (cls : CharCls) (a p b : List Char) (c : Char) (ws : List Char) (pre : List Item)
    (o1 : Nat) (items : List Item) (o2 : Nat)
    (hrun : Run cls (sizeOf' ((a ++ p) ++ b)) (p ++ b) a 0 pre o1)
    (hstep : lexStep cls (sizeOf' ((a ++ p) ++ b)) (p ++ b) o1 = .more items b o2)
    (hws : ∀ x ∈ c :: ws, cls.isWhitespace x = true) (hsep : Sep cls c) (hsl : c ≠ '/' ∧ c ≠ '*')
    (hlc : IsNl c ∨ ¬ LineComment p) :
    tokenKinds cls ((a ++ p) ++ ((c :: ws) ++ b)) = tokenKinds cls ((a ++ p) ++ b) :=
  tokenKinds_replace_layout cls a p [] (c :: ws) b pre o1 items o2 hrun hstep
    (Or.inr ⟨c, ws ++ b, rfl, hsep, fun _ => hsl, hlc⟩) (skips_nil cls b) (skips_blanks (c :: ws) hws b)

/-- **Line-ending style**: a carriage return in front of a line feed (`\r\n` for `\n`) never changes the meaning,
    wherever the line feed stands -- after a token, a blank, a block comment, or at the end of a line comment. -/
theorem parseProgram_crlf (cls : CharCls) (hcr : cls.isWhitespace '\r' = true) (hsep : Sep cls '\r') (a p rest : List Char)
    (pre : List Item) (o1 : Nat) (items : List Item) (o2 : Nat)
    (hrun : Run cls (sizeOf' ((a ++ p) ++ ('\n' :: rest))) (p ++ ('\n' :: rest)) a 0 pre o1)
    (hstep : lexStep cls (sizeOf' ((a ++ p) ++ ('\n' :: rest))) (p ++ ('\n' :: rest)) o1 = .more items ('\n' :: rest) o2) :
    parseProgram cls ((a ++ p) ++ ('\r' :: '\n' :: rest)) = parseProgram cls ((a ++ p) ++ ('\n' :: rest)) :=
  parseProgram_replace_layout cls a p [] ['\r'] ('\n' :: rest) pre o1 items o2 hrun hstep
    (Or.inr ⟨'\r', '\n' :: rest, rfl, hsep, fun _ => ⟨by decide, by decide⟩, Or.inl (Or.inr rfl)⟩)
    (skips_nil cls _) (skips_blank hcr _)

/-- **Blank space between two tokens never changes the meaning**: `ws` is a non-empty run of blank characters that are
    separators (every ASCII blank is: `asciiCls_blank_sep`), inserted after `p`, which is not a line comment (or else
    `ws` starts with a line end). -/
theorem parseProgram_insert_blank (cls : CharCls) (a p b : List Char) (c : Char) (ws : List Char) (pre : List Item)
    (o1 : Nat) (items : List Item) (o2 : Nat)
    (hrun : Run cls (sizeOf' ((a ++ p) ++ b)) (p ++ b) a 0 pre o1)
    (hstep : lexStep cls (sizeOf' ((a ++ p) ++ b)) (p ++ b) o1 = .more items b o2)
    (hws : ∀ x ∈ c :: ws, cls.isWhitespace x = true) (hsep : Sep cls c) (hsl : c ≠ '/' ∧ c ≠ '*')
    (hlc : IsNl c ∨ ¬ LineComment p) :
    parseProgram cls ((a ++ p) ++ ((c :: ws) ++ b)) = parseProgram cls ((a ++ p) ++ b) :=
  parseProgram_insert_after cls a p b (c :: ws) pre o1 items o2 hrun hstep
    (Or.inr ⟨c, ws ++ b, rfl, hsep, fun _ => hsl, hlc⟩) (skips_blanks (c :: ws) hws b)

/-- **A block comment after a token** -- any token but the division sign, after which `/*` would read as `//` ... --
    **never changes the meaning.** -/
theorem parseProgram_insert_block_comment (cls : CharCls) (hcls : PunctCls cls) (hsep : Sep cls '/') (a p b : List Char)
    (body : List Char) (hnc : NoClose ('*' :: body)) (pre : List Item) (o1 : Nat) (items : List Item) (o2 : Nat)
    (hrun : Run cls (sizeOf' ((a ++ p) ++ b)) (p ++ b) a 0 pre o1)
    (hstep : lexStep cls (sizeOf' ((a ++ p) ++ b)) (p ++ b) o1 = .more items b o2)
    (hdiv : p ≠ ['/']) (hlc : ¬ LineComment p) :
    parseProgram cls ((a ++ p) ++ (('/' :: '*' :: (body ++ ['*', '/'])) ++ b)) = parseProgram cls ((a ++ p) ++ b) :=
  parseProgram_insert_after cls a p b _ pre o1 items o2 hrun hstep
    (Or.inr ⟨'/', _, rfl, hsep, fun h => absurd h hdiv, Or.inr hlc⟩) (skips_block_comment hcls body hnc b)

/-- **A `#` comment at the end of a line, after a token, never changes the meaning.** -/
theorem parseProgram_insert_hash_comment (cls : CharCls) (hcls : PunctCls cls) (hsep : Sep cls '#') (a p : List Char)
    (nl : Char) (rest : List Char) (body : List Char) (hbody : ∀ c ∈ body, c ≠ '\n' ∧ c ≠ '\r')
    (hnl : nl = '\n' ∨ nl = '\r') (pre : List Item) (o1 : Nat) (items : List Item) (o2 : Nat)
    (hrun : Run cls (sizeOf' ((a ++ p) ++ (nl :: rest))) (p ++ (nl :: rest)) a 0 pre o1)
    (hstep : lexStep cls (sizeOf' ((a ++ p) ++ (nl :: rest))) (p ++ (nl :: rest)) o1 = .more items (nl :: rest) o2)
    (hlc : ¬ LineComment p) :
    parseProgram cls ((a ++ p) ++ (('#' :: body) ++ (nl :: rest))) = parseProgram cls ((a ++ p) ++ (nl :: rest)) :=
  parseProgram_insert_after cls a p (nl :: rest) _ pre o1 items o2 hrun hstep
    (Or.inr ⟨'#', _, rfl, hsep, fun _ => ⟨by decide, by decide⟩, Or.inr hlc⟩)
    (skips_hash_comment hcls body nl rest hbody hnl)

/-! ### The ASCII classification -/

theorem asciiCls_blank (c : Char) (h : asciiCls.isWhitespace c = true) :
    c = ' ' ∨ c = '\t' ∨ c = '\n' ∨ c = '\x0b' ∨ c = '\x0c' ∨ c = '\r' := by
  simp only [asciiCls, Bool.or_eq_true, beq_iff_eq, Bool.and_eq_true, decide_eq_true_eq] at h
  rcases h with h | ⟨h1, h2⟩
  · exact Or.inl h
  · rw [char_le_iff] at h1 h2
    have e1 : '\t'.toNat = 9 := by decide
    have e2 : '\r'.toNat = 13 := by decide
    rw [e1] at h1
    rw [e2] at h2
    have : c.toNat = 9 ∨ c.toNat = 10 ∨ c.toNat = 11 ∨ c.toNat = 12 ∨ c.toNat = 13 := by omega
    rcases this with h | h | h | h | h
    · exact Or.inr (Or.inl ((char_eq_iff _ _).2 (by rw [h]; decide)))
    · exact Or.inr (Or.inr (Or.inl ((char_eq_iff _ _).2 (by rw [h]; decide))))
    · exact Or.inr (Or.inr (Or.inr (Or.inl ((char_eq_iff _ _).2 (by rw [h]; decide)))))
    · exact Or.inr (Or.inr (Or.inr (Or.inr (Or.inl ((char_eq_iff _ _).2 (by rw [h]; decide))))))
    · exact Or.inr (Or.inr (Or.inr (Or.inr (Or.inr ((char_eq_iff _ _).2 (by rw [h]; decide))))))

/-- every ASCII blank is a separator, and neither `/` nor `*` -/
theorem asciiCls_blank_sep (c : Char) (h : asciiCls.isWhitespace c = true) : Sep asciiCls c ∧ c ≠ '/' ∧ c ≠ '*' := by
  rcases asciiCls_blank c h with rfl | rfl | rfl | rfl | rfl | rfl <;>
    exact ⟨⟨by decide, by decide, by decide, by decide, by decide, by decide, by decide, by decide, by decide⟩,
      by decide, by decide⟩

theorem asciiCls_slash_sep : Sep asciiCls '/' :=
  ⟨by decide, by decide, by decide, by decide, by decide, by decide, by decide, by decide, by decide⟩

theorem asciiCls_hash_sep : Sep asciiCls '#' :=
  ⟨by decide, by decide, by decide, by decide, by decide, by decide, by decide, by decide, by decide⟩

theorem asciiCls_punct : PunctCls asciiCls := ⟨by decide, by decide, by decide, by decide⟩

/-- **ASCII blank space between two tokens never changes the meaning** -/
theorem parseProgram_insert_blank_ascii (a p b : List Char) (c : Char) (ws : List Char) (pre : List Item)
    (o1 : Nat) (items : List Item) (o2 : Nat)
    (hrun : Run asciiCls (sizeOf' ((a ++ p) ++ b)) (p ++ b) a 0 pre o1)
    (hstep : lexStep asciiCls (sizeOf' ((a ++ p) ++ b)) (p ++ b) o1 = .more items b o2)
    (hws : ∀ x ∈ c :: ws, asciiCls.isWhitespace x = true) (hlc : IsNl c ∨ ¬ LineComment p) :
    parseProgram asciiCls ((a ++ p) ++ ((c :: ws) ++ b)) = parseProgram asciiCls ((a ++ p) ++ b) :=
  parseProgram_insert_blank asciiCls a p b c ws pre o1 items o2 hrun hstep hws
    (asciiCls_blank_sep c (hws c List.mem_cons_self)).1 (asciiCls_blank_sep c (hws c List.mem_cons_self)).2 hlc

/-! ### An example -/

deriving instance DecidableEq for Step

theorem not_lineComment_of_head {c : Char} {q : List Char} (h1 : c ≠ '#') (h2 : c ≠ '/') : ¬ LineComment (c :: q) := by
  intro h
  rcases h with ⟨q', h⟩ | ⟨q', h⟩
  · exact h1 (List.cons.inj h).1
  · exact h2 (List.cons.inj h).1

/-- `x=1;` and `x  =1;`: two blanks after the first token -/
example : parseProgram asciiCls ['x', ' ', ' ', '=', '1', ';'] = parseProgram asciiCls ['x', '=', '1', ';'] :=
  parseProgram_insert_blank_ascii [] ['x'] ['=', '1', ';'] ' ' [' '] [] 0 [.tok 0 (.Identifier "x") 1] 1 (Run.nil 0)
    (by decide +kernel) (by decide) (Or.inr (not_lineComment_of_head (by decide) (by decide)))

/-- `x=1;` and `x=/*c*/1;`: a comment after the second token -/
example : parseProgram asciiCls ['x', '=', '/', '*', 'c', '*', '/', '1', ';'] = parseProgram asciiCls ['x', '=', '1', ';'] :=
  parseProgram_insert_block_comment asciiCls asciiCls_punct asciiCls_slash_sep ['x'] ['='] ['1', ';'] ['c']
    (by
      intro p q h
      match p, h with
      | [], h => simp at h
      | [_], h => simp at h
      | _ :: _ :: _, h => simp at h)
    [.tok 0 (.Identifier "x") 1] 1 [.tok 1 .Assign 2] 2
    (by
      have := Run.cons (cls := asciiCls) (total := 4) (rest := ['=', '1', ';']) (p := ['x']) (a := []) (off := 0)
        (items := [.tok 0 (.Identifier "x") 1]) (off1 := 1) (by decide +kernel) (Run.nil 1)
      exact this)
    (by decide +kernel) (by decide) (not_lineComment_of_head (by decide) (by decide))

end Lexer

#print axioms Lexer.lexStep_local
#print axioms Lexer.run_insert
#print axioms Lexer.tokens_insert_after
#print axioms Lexer.parseProgram_insert_after
#print axioms Lexer.parseProgram_insert_blank
#print axioms Lexer.parseProgram_insert_block_comment
#print axioms Lexer.parseProgram_insert_hash_comment
#print axioms Lexer.parseProgram_insert_blank_ascii
#print axioms Lexer.tokenKinds_replace_layout
#print axioms Lexer.parseProgram_replace_layout
#print axioms Lexer.kinds_insert_blank
#print axioms Lexer.parseProgram_crlf
