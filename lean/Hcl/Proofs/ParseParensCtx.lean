import Hcl.Model.Parser
import Hcl.Model.ParserStmts
import Hcl.Proofs.ParseFuel
import Hcl.Proofs.ParseStmts
import Hcl.Proofs.ParseLayout
import Hcl.Proofs.ParseParens
open Parser Lexer

/-! Redundant parentheses anywhere in an expression.

    `D` is the expression grammar of parser.lalrpop (success path) as a derivation relation between syntactic
    categories, trees WITHOUT spans and token-kind lists; its rule `paren` allows a pair of parentheses around every
    expression in every `SimpleTerm` position.  `parse_complete`: the parser model finds every derivation -- whatever
    the positions of the tokens -- so every way of writing a tree with parentheses that the grammar admits parses back
    to that tree.  In particular the fully parenthesised rendering `ppFull t` (`parse_ppFull`) and the rendering
    `ppMin t` with only the parentheses that precedence and associativity require (`parse_ppMin`) of every tree `t`
    parse to `t`: a text means the same as its fully parenthesised form. -/

namespace Parser

/-! ### Tokens with dummy positions, trees with dummy spans -/

/-- token kinds with dummy positions -/
def sp (ts : List Tok) : Toks := ts.map (fun t => (0, t, 0))

theorem sp_nil : sp [] = [] := rfl
theorem sp_cons (t : Tok) (ts : List Tok) : sp (t :: ts) = (0, t, 0) :: sp ts := rfl
theorem sp_append (a b : List Tok) : sp (a ++ b) = sp a ++ sp b := by simp [sp]
theorem kinds_sp (ts : List Tok) : kinds (sp ts) = ts := by
  induction ts with
  | nil => rfl
  | cons t ts ih => simp only [sp_cons, kinds_cons, ih]
theorem sp_length (ts : List Tok) : (sp ts).length = ts.length := by simp [sp]

mutual
/-- a tree with dummy spans -/
def emb : Ex → PEx
  | .const v => .const 0 0 v
  | .bin op l r => .bin 0 0 op (emb l) (emb r)
  | .un op x => .un 0 0 op (emb x)
  | .wire n => .wire 0 0 n
  | .slice x lo hi => .slice 0 0 (emb x) lo hi
  | .concat l r => .concat 0 0 (emb l) (emb r)
  | .mux o => .mux 0 0 (embO o)
  | .inSet x items => .inSet 0 0 (emb x) (embI items)
def embO : Opts → POpts
  | .nil => .nil
  | .cons c v r => .cons (emb c) (emb v) (embO r)
def embI : Exs → PExs
  | .nil => .nil
  | .cons x r => .cons (emb x) (embI r)
end

mutual
theorem emb_erase : ∀ x : Ex, (emb x).erase = x
  | .const v => rfl
  | .bin op l r => by simp only [emb, PEx.erase, emb_erase l, emb_erase r]
  | .un op x => by simp only [emb, PEx.erase, emb_erase x]
  | .wire n => rfl
  | .slice x lo hi => by simp only [emb, PEx.erase, emb_erase x]
  | .concat l r => by simp only [emb, PEx.erase, emb_erase l, emb_erase r]
  | .mux o => by simp only [emb, PEx.erase, embO_erase o]
  | .inSet x items => by simp only [emb, PEx.erase, emb_erase x, embI_erase items]
theorem embO_erase : ∀ o : Opts, (embO o).erase = o
  | .nil => rfl
  | .cons c v r => by simp only [embO, POpts.erase, emb_erase c, emb_erase v, embO_erase r]
theorem embI_erase : ∀ o : Exs, (embI o).erase = o
  | .nil => rfl
  | .cons x r => by simp only [embI, PExs.erase, emb_erase x, embI_erase r]
end

/-! ### Which tokens continue an expression of which tier -/

/-- the tier at which a token continues an expression: the binary operators and `in` by the precedence table, `[`
    (bit selection) at the level of `Term` -/
def opTier : Tok → Option Nat
  | .OrOr => some 0 | .AndAnd => some 1
  | .Equal | .NotEqual | .LessEqual | .GreaterEqual | .Less | .Greater => some 2
  | .In => some 3 | .Or => some 4 | .Xor => some 5 | .And => some 6
  | .LeftShift | .RightShift => some 7 | .Plus | .Minus => some 8 | .Times | .Divide => some 9
  | .OpenBracket => some 10
  | _ => none

/-- the token list is empty or starts with a token that does not continue an expression of tier `n` -/
def StopAt (n : Nat) : Toks → Prop
  | [] => True
  | (_, t, _) :: _ => ∀ j, opTier t = some j → j < n

theorem StopAt.mono {n m : Nat} (hnm : n ≤ m) : ∀ {tail : Toks}, StopAt n tail → StopAt m tail
  | [], _ => trivial
  | (_, _, _) :: _, h => fun j hj => Nat.lt_of_lt_of_le (h j hj) hnm

theorem stopAt_cons_none {n s e : Nat} {t : Tok} {tl : Toks} (h : opTier t = none) : StopAt n ((s, t, e) :: tl) := by
  intro j hj
  rw [h] at hj
  cases hj

theorem stopAt_cons_lt {n k s e : Nat} {t : Tok} {tl : Toks} (h : opTier t = some k) (hk : k < n) :
    StopAt n ((s, t, e) :: tl) := by
  intro j hj
  rw [h] at hj
  cases hj
  exact hk

/-- the operators of tier `k` are the tokens that continue at tier `k` -/
theorem find_opTier {k : Nat} {tier : Tier} (h : tiers[k]? = some (some tier)) (t : Tok) {o : Tok × BinOp}
    (hf : tier.ops.find? (fun o => o.1 == t) = some o) : opTier t = some k := by
  have hk : k < 10 := by
    have := (List.getElem?_eq_some_iff.1 h).1
    simpa [tiers] using this
  have hk' : k = 0 ∨ k = 1 ∨ k = 2 ∨ k = 3 ∨ k = 4 ∨ k = 5 ∨ k = 6 ∨ k = 7 ∨ k = 8 ∨ k = 9 := by omega
  have hp := List.find?_some hf
  have hm := List.mem_of_find?_eq_some hf
  have ht : t = o.1 := by
    have : o.1 = t := by simpa using hp
    exact this.symm
  subst ht
  rcases hk' with rfl | rfl | rfl | rfl | rfl | rfl | rfl | rfl | rfl | rfl <;>
    (simp [tiers] at h; try subst h) <;> (simp at hm) <;>
    (first | (subst hm; rfl) | (rcases hm with rfl | rfl <;> rfl) | (rcases hm with rfl | rfl | rfl | rfl | rfl | rfl <;> rfl))

theorem find_none_of_stop {k : Nat} {tier : Tier} (h : tiers[k]? = some (some tier)) {s e : Nat} {t : Tok} {tl : Toks}
    (hs : StopAt k ((s, t, e) :: tl)) : tier.ops.find? (fun o => o.1 == t) = none := by
  cases hf : tier.ops.find? (fun o => o.1 == t) with
  | none => rfl
  | some o =>
    have := hs k (find_opTier h t hf)
    omega

theorem tier_in {k : Nat} (h : tiers[k]? = some none) : k = 3 := by
  have hk : k < 10 := by
    have := (List.getElem?_eq_some_iff.1 h).1
    simpa [tiers] using this
  have hk' : k = 0 ∨ k = 1 ∨ k = 2 ∨ k = 3 ∨ k = 4 ∨ k = 5 ∨ k = 6 ∨ k = 7 ∨ k = 8 ∨ k = 9 := by omega
  rcases hk' with rfl | rfl | rfl | rfl | rfl | rfl | rfl | rfl | rfl | rfl <;> first | rfl | (simp [tiers] at h)

/-! ### The grammar as a derivation relation -/

/-- the values the grammar builds -/
inductive Val where
  | e (x : Ex)
  | o (x : Opts)
  | i (x : Exs)

/-- the syntactic categories: `Expr` at tier `k` (`tier 10` is the place of `Term` in the table), the rest of a
    left-associative chain of tier `k` whose left operand so far is `acc`, `Term`, `SimpleTerm`,
    `Semicolons<MuxOption>`, `Commas<Expr>` -/
inductive Cat where
  | tier (k : Nat)
  | chain (k : Nat) (tier : Tier) (acc : Ex)
  | term
  | simple
  | opts
  | items

/-- `D c v ts`: the token kinds `ts` are derived from the category `c` with the value `v` -/
inductive D : Cat → Val → List Tok → Prop
  -- SimpleTerm
  | const (v : WireValue) : D .simple (.e (.const v)) [.Constant v]
  | wire (n : String) : D .simple (.e (.wire n)) [.Identifier n]
  | paren {x : Ex} {ts : List Tok} : D (.tier 0) (.e x) ts → D .simple (.e x) (.OpenParen :: (ts ++ [.CloseParen]))
  | concat {x y : Ex} {ts ts' : List Tok} : D (.tier 0) (.e x) ts → D (.tier 0) (.e y) ts' →
      D .simple (.e (.concat x y)) (.OpenParen :: (ts ++ .DotDot :: (ts' ++ [.CloseParen])))
  | mux {o : Opts} {ts : List Tok} : D .opts (.o o) ts → D .simple (.e (.mux o)) (.OpenBracket :: (ts ++ [.CloseBracket]))
  -- Term
  | simpleTerm {x : Ex} {ts : List Tok} : D .simple (.e x) ts → D .term (.e x) ts
  | un {t : Tok} {op : UnOp} {x : Ex} {ts : List Tok} : unOpOf t = some op → D .simple (.e x) ts →
      D .term (.e (.un op x)) (t :: ts)
  | slice {x : Ex} {ts : List Tok} {lo hi : Nat} {wlo whi : Width} : D .simple (.e x) ts → lo ≤ 128 → hi ≤ 128 →
      D .term (.e (.slice x lo hi))
        (ts ++ [.OpenBracket, .Constant ⟨lo, wlo⟩, .DotDot, .Constant ⟨hi, whi⟩, .CloseBracket])
  -- the tiers
  | termTier {x : Ex} {ts : List Tok} : D .term (.e x) ts → D (.tier 10) (.e x) ts
  | inPass {k : Nat} {x : Ex} {ts : List Tok} : tiers[k]? = some none → D (.tier (k + 1)) (.e x) ts → D (.tier k) (.e x) ts
  | inSet {k : Nat} {x : Ex} {ts : List Tok} {items : Exs} {ts' : List Tok} : tiers[k]? = some none →
      D (.tier (k + 1)) (.e x) ts → D .items (.i items) ts' →
      D (.tier k) (.e (.inSet x items)) (ts ++ .In :: .OpenBrace :: (ts' ++ [.CloseBrace]))
  | flatPass {k : Nat} {tier : Tier} {x : Ex} {ts : List Tok} : tiers[k]? = some (some tier) → tier.chains = false →
      D (.tier (k + 1)) (.e x) ts → D (.tier k) (.e x) ts
  | flatBin {k : Nat} {tier : Tier} {l : Ex} {ts : List Tok} {t t0 : Tok} {op : BinOp} {r : Ex} {ts' : List Tok} :
      tiers[k]? = some (some tier) → tier.chains = false → D (.tier (k + 1)) (.e l) ts →
      tier.ops.find? (fun o => o.1 == t) = some (t0, op) → D (.tier (k + 1)) (.e r) ts' →
      D (.tier k) (.e (.bin op l r)) (ts ++ t :: ts')
  | chainTier {k : Nat} {tier : Tier} {l : Ex} {ts : List Tok} {x : Ex} {ts' : List Tok} :
      tiers[k]? = some (some tier) → tier.chains = true → D (.tier (k + 1)) (.e l) ts →
      D (.chain k tier l) (.e x) ts' → D (.tier k) (.e x) (ts ++ ts')
  | chainNil {k : Nat} {tier : Tier} {acc : Ex} : tiers[k]? = some (some tier) → D (.chain k tier acc) (.e acc) []
  | chainCons {k : Nat} {tier : Tier} {acc : Ex} {t t0 : Tok} {op : BinOp} {r : Ex} {ts : List Tok} {x : Ex}
      {ts' : List Tok} : tiers[k]? = some (some tier) → tier.ops.find? (fun o => o.1 == t) = some (t0, op) →
      D (.tier (k + 1)) (.e r) ts → D (.chain k tier (.bin op acc r)) (.e x) ts' →
      D (.chain k tier acc) (.e x) (t :: (ts ++ ts'))
  -- Semicolons<MuxOption> = (opt ";")* opt?
  | optsNil : D .opts (.o .nil) []
  | optsLast {c v : Ex} {ts ts' : List Tok} : D (.tier 0) (.e c) ts → D (.tier 0) (.e v) ts' →
      D .opts (.o (.cons c v .nil)) (ts ++ .Colon :: ts')
  | optsCons {c v : Ex} {ts ts' : List Tok} {more : Opts} {ts'' : List Tok} : D (.tier 0) (.e c) ts →
      D (.tier 0) (.e v) ts' → D .opts (.o more) ts'' →
      D .opts (.o (.cons c v more)) (ts ++ .Colon :: (ts' ++ .Semicolon :: ts''))
  -- Commas<Expr> = (e ",")* e?
  | itemsNil : D .items (.i .nil) []
  | itemsLast {x : Ex} {ts : List Tok} : D (.tier 0) (.e x) ts → D .items (.i (.cons x .nil)) ts
  | itemsCons {x : Ex} {ts : List Tok} {more : Exs} {ts' : List Tok} : D (.tier 0) (.e x) ts → D .items (.i more) ts' →
      D .items (.i (.cons x more)) (ts ++ .Comma :: ts')

/-! ### The parser finds every derivation -/

/-- `F` gives `r` with every sufficiently large fuel -/
def Ev {α : Type} (F : Nat → Option α) (r : α) : Prop := ∃ g, ∀ f, g ≤ f → F f = some r

/-- what the induction over the derivations shows -/
def Goal : Cat → Val → List Tok → Prop
  | .tier k, .e x, ts => ∀ tail, StopAt k tail → Ev (fun f => parseTier f k (sp ts ++ tail)) (emb x, 0, 0, tail)
  | .chain k tier acc, .e x, ts => (∀ tail, StopAt k tail → StopAt (k + 1) (sp ts ++ tail)) ∧
      ∀ tail, StopAt k tail → Ev (fun f => parseChain f k tier (emb acc) 0 0 (sp ts ++ tail)) (emb x, 0, 0, tail)
  | .term, .e x, ts => ∀ tail, StopAt 10 tail → Ev (fun f => parseTerm f (sp ts ++ tail)) (emb x, 0, 0, tail)
  | .simple, .e x, ts => (∃ t r, ts = t :: r ∧ unOpOf t = none) ∧
      ∀ tail, Ev (fun f => parseSimple f (sp ts ++ tail)) (emb x, 0, 0, tail)
  | .opts, .o o, ts => ∀ tail, Ev (fun f => parseOpts f (sp ts ++ (0, .CloseBracket, 0) :: tail))
      (embO o, 0, 0, (0, .CloseBracket, 0) :: tail)
  | .items, .i o, ts => ∀ tail, Ev (fun f => parseItems f (sp ts ++ (0, .CloseBrace, 0) :: tail))
      (embI o, 0, 0, (0, .CloseBrace, 0) :: tail)
  | _, _, _ => True

theorem goal_const (v : WireValue) : Goal .simple (.e (.const v)) [.Constant v] := by
  refine ⟨⟨_, _, rfl, rfl⟩, ?_⟩
  intro tail
  refine ⟨1, ?_⟩
  intro f hf
  obtain ⟨f', rfl⟩ := exists_succ hf
  unfold parseSimple
  rfl

theorem goal_wire (n : String) : Goal .simple (.e (.wire n)) [.Identifier n] := by
  refine ⟨⟨_, _, rfl, rfl⟩, ?_⟩
  intro tail
  refine ⟨1, ?_⟩
  intro f hf
  obtain ⟨f', rfl⟩ := exists_succ hf
  unfold parseSimple
  rfl

theorem goal_paren {x : Ex} {ts : List Tok} (ih : Goal (.tier 0) (.e x) ts) :
    Goal .simple (.e x) (.OpenParen :: (ts ++ [.CloseParen])) := by
  refine ⟨⟨_, _, rfl, rfl⟩, ?_⟩
  intro tail
  obtain ⟨g, hg⟩ := ih ((0, .CloseParen, 0) :: tail) (stopAt_cons_none rfl)
  refine ⟨g + 1, ?_⟩
  intro f hf
  obtain ⟨f', rfl⟩ := exists_succ (f := f) (by omega)
  simp only [sp_cons, sp_append, sp_nil, List.cons_append, List.append_assoc, List.nil_append]
  unfold parseSimple
  simp only [hg f' (by omega)]
  try rfl

theorem goal_concat {x y : Ex} {ts ts' : List Tok} (ih1 : Goal (.tier 0) (.e x) ts) (ih2 : Goal (.tier 0) (.e y) ts') :
    Goal .simple (.e (.concat x y)) (.OpenParen :: (ts ++ .DotDot :: (ts' ++ [.CloseParen]))) := by
  refine ⟨⟨_, _, rfl, rfl⟩, ?_⟩
  intro tail
  obtain ⟨g2, hg2⟩ := ih2 ((0, .CloseParen, 0) :: tail) (stopAt_cons_none rfl)
  obtain ⟨g1, hg1⟩ := ih1 ((0, .DotDot, 0) :: (sp ts' ++ (0, .CloseParen, 0) :: tail)) (stopAt_cons_none rfl)
  refine ⟨g1 + g2 + 1, ?_⟩
  intro f hf
  obtain ⟨f', rfl⟩ := exists_succ (f := f) (by omega)
  simp only [sp_cons, sp_append, sp_nil, List.cons_append, List.append_assoc, List.nil_append]
  unfold parseSimple
  simp only [hg1 f' (by omega), hg2 f' (by omega), expect, beq_self_eq_true, if_true]
  try rfl

theorem goal_mux {o : Opts} {ts : List Tok} (ih : Goal .opts (.o o) ts) :
    Goal .simple (.e (.mux o)) (.OpenBracket :: (ts ++ [.CloseBracket])) := by
  refine ⟨⟨_, _, rfl, rfl⟩, ?_⟩
  intro tail
  obtain ⟨g, hg⟩ := ih tail
  refine ⟨g + 1, ?_⟩
  intro f hf
  obtain ⟨f', rfl⟩ := exists_succ (f := f) (by omega)
  simp only [sp_cons, sp_append, sp_nil, List.cons_append, List.append_assoc, List.nil_append]
  unfold parseSimple
  simp only [hg f' (by omega), expect, beq_self_eq_true, if_true]
  try rfl

theorem goal_simpleTerm {x : Ex} {ts : List Tok} (ih : Goal .simple (.e x) ts) : Goal .term (.e x) ts := by
  obtain ⟨⟨t, r, rfl, hop⟩, ih⟩ := ih
  intro tail hstop
  obtain ⟨g, hg⟩ := ih tail
  refine ⟨g + 1, ?_⟩
  intro f hf
  obtain ⟨f', rfl⟩ := exists_succ (f := f) (by omega)
  have h1 := hg f' (by omega)
  simp only [sp_cons, List.cons_append] at h1 ⊢
  unfold parseTerm
  simp only [hop, h1]
  cases tail with
  | nil => rfl
  | cons hd tl =>
    obtain ⟨a, t2, b⟩ := hd
    have hs : ∀ j, opTier t2 = some j → j < 10 := hstop
    cases t2 <;> first | rfl | (exact absurd (hs 10 rfl) (by omega))

theorem goal_un {t : Tok} {op : UnOp} {x : Ex} {ts : List Tok} (hop : unOpOf t = some op) (ih : Goal .simple (.e x) ts) :
    Goal .term (.e (.un op x)) (t :: ts) := by
  obtain ⟨_, ih⟩ := ih
  intro tail _
  obtain ⟨g, hg⟩ := ih tail
  refine ⟨g + 1, ?_⟩
  intro f hf
  obtain ⟨f', rfl⟩ := exists_succ (f := f) (by omega)
  simp only [sp_cons, List.cons_append]
  unfold parseTerm
  simp only [hop, hg f' (by omega)]
  rfl

theorem goal_slice {x : Ex} {ts : List Tok} {lo hi : Nat} {wlo whi : Width} (ih : Goal .simple (.e x) ts)
    (hlo : lo ≤ 128) (hhi : hi ≤ 128) :
    Goal .term (.e (.slice x lo hi))
      (ts ++ [.OpenBracket, .Constant ⟨lo, wlo⟩, .DotDot, .Constant ⟨hi, whi⟩, .CloseBracket]) := by
  obtain ⟨⟨t, r, rfl, hop⟩, ih⟩ := ih
  intro tail _
  obtain ⟨g, hg⟩ := ih ((0, .OpenBracket, 0) :: (0, .Constant ⟨lo, wlo⟩, 0) :: (0, .DotDot, 0) ::
    (0, .Constant ⟨hi, whi⟩, 0) :: (0, .CloseBracket, 0) :: tail)
  refine ⟨g + 1, ?_⟩
  intro f hf
  obtain ⟨f', rfl⟩ := exists_succ (f := f) (by omega)
  have h1 := hg f' (by omega)
  simp only [sp_cons, sp_append, sp_nil, List.cons_append, List.append_assoc, List.nil_append] at h1 ⊢
  unfold parseTerm
  simp only [hop, h1, smallConst, expect, hlo, hhi, if_true, beq_self_eq_true]
  try rfl

theorem goal_termTier {x : Ex} {ts : List Tok} (ih : Goal .term (.e x) ts) : Goal (.tier 10) (.e x) ts := by
  intro tail hstop
  obtain ⟨g, hg⟩ := ih tail hstop
  refine ⟨g + 1, ?_⟩
  intro f hf
  obtain ⟨f', rfl⟩ := exists_succ (f := f) (by omega)
  unfold parseTier
  have htk : tiers[10]? = none := by decide
  simp only [htk]
  exact hg f' (by omega)

theorem goal_inPass {k : Nat} {x : Ex} {ts : List Tok} (htk : tiers[k]? = some none)
    (ih : Goal (.tier (k + 1)) (.e x) ts) : Goal (.tier k) (.e x) ts := by
  have hk := tier_in htk
  subst hk
  intro tail hstop
  obtain ⟨g, hg⟩ := ih tail (hstop.mono (by omega))
  refine ⟨g + 1, ?_⟩
  intro f hf
  obtain ⟨f', rfl⟩ := exists_succ (f := f) (by omega)
  unfold parseTier
  simp only [htk, hg f' (by omega)]
  cases tail with
  | nil => rfl
  | cons hd tl =>
    obtain ⟨a, t2, b⟩ := hd
    have hs : ∀ j, opTier t2 = some j → j < 3 := hstop
    cases t2 <;> first | rfl | (exact absurd (hs 3 rfl) (by omega))

theorem goal_inSet {k : Nat} {x : Ex} {ts : List Tok} {items : Exs} {ts' : List Tok} (htk : tiers[k]? = some none)
    (ih1 : Goal (.tier (k + 1)) (.e x) ts) (ih2 : Goal .items (.i items) ts') :
    Goal (.tier k) (.e (.inSet x items)) (ts ++ .In :: .OpenBrace :: (ts' ++ [.CloseBrace])) := by
  have hk := tier_in htk
  subst hk
  intro tail _
  obtain ⟨g2, hg2⟩ := ih2 tail
  obtain ⟨g1, hg1⟩ := ih1 ((0, .In, 0) :: (0, .OpenBrace, 0) :: (sp ts' ++ (0, .CloseBrace, 0) :: tail))
    (stopAt_cons_lt (k := 3) rfl (by omega))
  refine ⟨g1 + g2 + 1, ?_⟩
  intro f hf
  obtain ⟨f', rfl⟩ := exists_succ (f := f) (by omega)
  simp only [sp_cons, sp_append, sp_nil, List.cons_append, List.append_assoc, List.nil_append]
  unfold parseTier
  simp only [htk, hg1 f' (by omega), expect, beq_self_eq_true, if_true, hg2 f' (by omega)]
  try rfl

theorem goal_flatPass {k : Nat} {tier : Tier} {x : Ex} {ts : List Tok} (htk : tiers[k]? = some (some tier))
    (hch : tier.chains = false) (ih : Goal (.tier (k + 1)) (.e x) ts) : Goal (.tier k) (.e x) ts := by
  intro tail hstop
  obtain ⟨g, hg⟩ := ih tail (hstop.mono (by omega))
  refine ⟨g + 1, ?_⟩
  intro f hf
  obtain ⟨f', rfl⟩ := exists_succ (f := f) (by omega)
  unfold parseTier
  simp only [htk, hg f' (by omega), hch, Bool.false_eq_true, if_false]
  cases tail with
  | nil => rfl
  | cons hd tl =>
    obtain ⟨a, t2, b⟩ := hd
    simp only [find_none_of_stop htk hstop]

theorem goal_flatBin {k : Nat} {tier : Tier} {l : Ex} {ts : List Tok} {t t0 : Tok} {op : BinOp} {r : Ex} {ts' : List Tok}
    (htk : tiers[k]? = some (some tier)) (hch : tier.chains = false) (ih1 : Goal (.tier (k + 1)) (.e l) ts)
    (hfind : tier.ops.find? (fun o => o.1 == t) = some (t0, op)) (ih2 : Goal (.tier (k + 1)) (.e r) ts') :
    Goal (.tier k) (.e (.bin op l r)) (ts ++ t :: ts') := by
  intro tail hstop
  obtain ⟨g2, hg2⟩ := ih2 tail (hstop.mono (by omega))
  obtain ⟨g1, hg1⟩ := ih1 ((0, t, 0) :: (sp ts' ++ tail)) (stopAt_cons_lt (find_opTier htk t hfind) (by omega))
  refine ⟨g1 + g2 + 1, ?_⟩
  intro f hf
  obtain ⟨f', rfl⟩ := exists_succ (f := f) (by omega)
  simp only [sp_cons, sp_append, List.cons_append, List.append_assoc]
  unfold parseTier
  simp only [htk, hg1 f' (by omega), hch, Bool.false_eq_true, hfind, hg2 f' (by omega)]
  rfl

theorem goal_chainTier {k : Nat} {tier : Tier} {l : Ex} {ts : List Tok} {x : Ex} {ts' : List Tok}
    (htk : tiers[k]? = some (some tier)) (hch : tier.chains = true) (ih1 : Goal (.tier (k + 1)) (.e l) ts)
    (ih2 : Goal (.chain k tier l) (.e x) ts') : Goal (.tier k) (.e x) (ts ++ ts') := by
  obtain ⟨hst, ih2⟩ := ih2
  intro tail hstop
  obtain ⟨g2, hg2⟩ := ih2 tail hstop
  obtain ⟨g1, hg1⟩ := ih1 (sp ts' ++ tail) (hst tail hstop)
  refine ⟨g1 + g2 + 1, ?_⟩
  intro f hf
  obtain ⟨f', rfl⟩ := exists_succ (f := f) (by omega)
  simp only [sp_append, List.append_assoc]
  unfold parseTier
  simp only [htk, hg1 f' (by omega), hch, if_true]
  exact hg2 f' (by omega)

theorem goal_chainNil {k : Nat} {tier : Tier} {acc : Ex} (htk : tiers[k]? = some (some tier)) :
    Goal (.chain k tier acc) (.e acc) [] := by
  refine ⟨fun tail h => h.mono (by omega), ?_⟩
  intro tail hstop
  refine ⟨1, ?_⟩
  intro f hf
  obtain ⟨f', rfl⟩ := exists_succ hf
  simp only [sp_nil, List.nil_append]
  unfold parseChain
  cases tail with
  | nil => rfl
  | cons hd tl =>
    obtain ⟨a, t2, b⟩ := hd
    simp only [find_none_of_stop htk hstop]

theorem goal_chainCons {k : Nat} {tier : Tier} {acc : Ex} {t t0 : Tok} {op : BinOp} {r : Ex} {ts : List Tok} {x : Ex}
    {ts' : List Tok} (htk : tiers[k]? = some (some tier)) (hfind : tier.ops.find? (fun o => o.1 == t) = some (t0, op))
    (ih1 : Goal (.tier (k + 1)) (.e r) ts) (ih2 : Goal (.chain k tier (.bin op acc r)) (.e x) ts') :
    Goal (.chain k tier acc) (.e x) (t :: (ts ++ ts')) := by
  obtain ⟨hst, ih2⟩ := ih2
  refine ⟨fun tail _ => stopAt_cons_lt (find_opTier htk t hfind) (by omega), ?_⟩
  intro tail hstop
  obtain ⟨g2, hg2⟩ := ih2 tail hstop
  obtain ⟨g1, hg1⟩ := ih1 (sp ts' ++ tail) (hst tail hstop)
  refine ⟨g1 + g2 + 1, ?_⟩
  intro f hf
  obtain ⟨f', rfl⟩ := exists_succ (f := f) (by omega)
  simp only [sp_cons, sp_append, List.cons_append, List.append_assoc]
  unfold parseChain
  simp only [hfind, hg1 f' (by omega)]
  exact hg2 f' (by omega)

theorem goal_optsNil : Goal .opts (.o .nil) [] := by
  intro tail
  refine ⟨1, ?_⟩
  intro f hf
  obtain ⟨f', rfl⟩ := exists_succ hf
  simp only [sp_nil, List.nil_append]
  unfold parseOpts
  rfl

/-- no expression starts with a closing bracket or brace -/
theorem parseSimple_close (f s e : Nat) (t : Tok) (tl : Toks) (ht : t = .CloseBracket ∨ t = .CloseBrace) :
    parseSimple f ((s, t, e) :: tl) = none := by
  cases f with
  | zero => unfold parseSimple; rfl
  | succ f => rcases ht with rfl | rfl <;> (unfold parseSimple; rfl)

theorem parseTerm_close (f s e : Nat) (t : Tok) (tl : Toks) (ht : t = .CloseBracket ∨ t = .CloseBrace) :
    parseTerm f ((s, t, e) :: tl) = none := by
  cases f with
  | zero => unfold parseTerm; rfl
  | succ f =>
    have hop : unOpOf t = none := by rcases ht with rfl | rfl <;> rfl
    unfold parseTerm
    simp only [hop, parseSimple_close f s e t tl ht]
    rfl

theorem parseTier_close (s e : Nat) (t : Tok) (tl : Toks) (ht : t = .CloseBracket ∨ t = .CloseBrace) :
    ∀ (f k : Nat), parseTier f k ((s, t, e) :: tl) = none
  | 0, _ => by unfold parseTier; rfl
  | f + 1, k => by
    unfold parseTier
    cases htk : tiers[k]? with
    | none => simp only [parseTerm_close f s e t tl ht]; rfl
    | some ot =>
      cases ot with
      | none => simp only [parseTier_close s e t tl ht f (k + 1)]; rfl
      | some tier => simp only [parseTier_close s e t tl ht f (k + 1)]; rfl

theorem parseTier_nil (f k : Nat) : parseTier f k [] = none := by
  cases h : parseTier f k [] with
  | none => rfl
  | some r =>
    obtain ⟨x, s, e, rest⟩ := r
    have := parseTier_consumes _ _ _ _ _ _ _ h
    simp at this

theorem parseOpts_last (f : Nat) (L : Toks) (c : PEx) (s1 e1 : Nat) (rest : Toks) (s2 e2 : Nat) (rest1 : Toks) (v : PEx)
    (s3 e3 : Nat) (rest2 : Toks) (h1 : parseTier f 0 L = some (c, s1, e1, rest))
    (h2 : expect .Colon rest = some (s2, e2, rest1)) (h3 : parseTier f 0 rest1 = some (v, s3, e3, rest2))
    (h4 : ∃ s e tl, rest2 = (s, .CloseBracket, e) :: tl) : parseOpts (f + 1) L = some (.cons c v .nil, 0, 0, rest2) := by
  obtain ⟨s, e, tl, rfl⟩ := h4
  cases L with
  | nil => rw [parseTier_nil] at h1; cases h1
  | cons hd tl' =>
    obtain ⟨s0, t, e0⟩ := hd
    cases t with
    | CloseBracket => rw [parseTier_close _ _ _ _ (Or.inl rfl)] at h1; cases h1
    | _ => unfold parseOpts; simp only [h1, h2, h3]; rfl

theorem parseOpts_cons (f : Nat) (L : Toks) (c : PEx) (s1 e1 : Nat) (rest : Toks) (s2 e2 : Nat) (rest1 : Toks) (v : PEx)
    (s3 e3 s e : Nat) (rest3 : Toks) (more : POpts) (s4 e4 : Nat) (rest4 : Toks)
    (h1 : parseTier f 0 L = some (c, s1, e1, rest))
    (h2 : expect .Colon rest = some (s2, e2, rest1))
    (h3 : parseTier f 0 rest1 = some (v, s3, e3, (s, .Semicolon, e) :: rest3))
    (h5 : parseOpts f rest3 = some (more, s4, e4, rest4)) : parseOpts (f + 1) L = some (.cons c v more, 0, 0, rest4) := by
  cases L with
  | nil => rw [parseTier_nil] at h1; cases h1
  | cons hd tl' =>
    obtain ⟨s0, t, e0⟩ := hd
    cases t with
    | CloseBracket => rw [parseTier_close _ _ _ _ (Or.inl rfl)] at h1; cases h1
    | _ => unfold parseOpts; simp only [h1, h2, h3, h5]; rfl

theorem parseItems_last (f : Nat) (L : Toks) (x : PEx) (s1 e1 : Nat) (rest : Toks)
    (h1 : parseTier f 0 L = some (x, s1, e1, rest)) (h4 : ∃ s e tl, rest = (s, .CloseBrace, e) :: tl) :
    parseItems (f + 1) L = some (.cons x .nil, 0, 0, rest) := by
  obtain ⟨s, e, tl, rfl⟩ := h4
  cases L with
  | nil => rw [parseTier_nil] at h1; cases h1
  | cons hd tl' =>
    obtain ⟨s0, t, e0⟩ := hd
    cases t with
    | CloseBrace => rw [parseTier_close _ _ _ _ (Or.inr rfl)] at h1; cases h1
    | _ => unfold parseItems; simp only [h1]; rfl

theorem parseItems_cons (f : Nat) (L : Toks) (x : PEx) (s1 e1 s e : Nat) (rest1 : Toks) (more : PExs) (s4 e4 : Nat)
    (rest2 : Toks) (h1 : parseTier f 0 L = some (x, s1, e1, (s, .Comma, e) :: rest1))
    (h5 : parseItems f rest1 = some (more, s4, e4, rest2)) : parseItems (f + 1) L = some (.cons x more, 0, 0, rest2) := by
  cases L with
  | nil => rw [parseTier_nil] at h1; cases h1
  | cons hd tl' =>
    obtain ⟨s0, t, e0⟩ := hd
    cases t with
    | CloseBrace => rw [parseTier_close _ _ _ _ (Or.inr rfl)] at h1; cases h1
    | _ => unfold parseItems; simp only [h1, h5]; rfl

theorem goal_optsLast {c v : Ex} {ts ts' : List Tok} (ih1 : Goal (.tier 0) (.e c) ts) (ih2 : Goal (.tier 0) (.e v) ts') :
    Goal .opts (.o (.cons c v .nil)) (ts ++ .Colon :: ts') := by
  intro tail
  obtain ⟨g2, hg2⟩ := ih2 ((0, .CloseBracket, 0) :: tail) (stopAt_cons_none rfl)
  obtain ⟨g1, hg1⟩ := ih1 ((0, .Colon, 0) :: (sp ts' ++ (0, .CloseBracket, 0) :: tail)) (stopAt_cons_none rfl)
  refine ⟨g1 + g2 + 1, ?_⟩
  intro f hf
  obtain ⟨f', rfl⟩ := exists_succ (f := f) (by omega)
  simp only [sp_cons, sp_append, List.cons_append, List.append_assoc]
  exact parseOpts_last f' _ _ _ _ _ 0 0 _ _ _ _ _ (hg1 f' (by omega)) (by simp [expect]) (hg2 f' (by omega)) ⟨_, _, _, rfl⟩

theorem goal_optsCons {c v : Ex} {ts ts' : List Tok} {more : Opts} {ts'' : List Tok} (ih1 : Goal (.tier 0) (.e c) ts)
    (ih2 : Goal (.tier 0) (.e v) ts') (ih3 : Goal .opts (.o more) ts'') :
    Goal .opts (.o (.cons c v more)) (ts ++ .Colon :: (ts' ++ .Semicolon :: ts'')) := by
  intro tail
  obtain ⟨g3, hg3⟩ := ih3 tail
  obtain ⟨g2, hg2⟩ := ih2 ((0, .Semicolon, 0) :: (sp ts'' ++ (0, .CloseBracket, 0) :: tail)) (stopAt_cons_none rfl)
  obtain ⟨g1, hg1⟩ := ih1 ((0, .Colon, 0) :: (sp ts' ++ (0, .Semicolon, 0) :: (sp ts'' ++ (0, .CloseBracket, 0) :: tail)))
    (stopAt_cons_none rfl)
  refine ⟨g1 + g2 + g3 + 1, ?_⟩
  intro f hf
  obtain ⟨f', rfl⟩ := exists_succ (f := f) (by omega)
  simp only [sp_cons, sp_append, List.cons_append, List.append_assoc]
  exact parseOpts_cons f' _ _ _ _ _ 0 0 _ _ _ _ _ _ _ _ _ _ _ (hg1 f' (by omega)) (by simp [expect]) (hg2 f' (by omega))
    (hg3 f' (by omega))

theorem goal_itemsNil : Goal .items (.i .nil) [] := by
  intro tail
  refine ⟨1, ?_⟩
  intro f hf
  obtain ⟨f', rfl⟩ := exists_succ hf
  simp only [sp_nil, List.nil_append]
  unfold parseItems
  rfl

theorem goal_itemsLast {x : Ex} {ts : List Tok} (ih : Goal (.tier 0) (.e x) ts) : Goal .items (.i (.cons x .nil)) ts := by
  intro tail
  obtain ⟨g1, hg1⟩ := ih ((0, .CloseBrace, 0) :: tail) (stopAt_cons_none rfl)
  refine ⟨g1 + 1, ?_⟩
  intro f hf
  obtain ⟨f', rfl⟩ := exists_succ (f := f) (by omega)
  exact parseItems_last f' _ _ _ _ _ (hg1 f' (by omega)) ⟨_, _, _, rfl⟩

theorem goal_itemsCons {x : Ex} {ts : List Tok} {more : Exs} {ts' : List Tok} (ih1 : Goal (.tier 0) (.e x) ts)
    (ih2 : Goal .items (.i more) ts') : Goal .items (.i (.cons x more)) (ts ++ .Comma :: ts') := by
  intro tail
  obtain ⟨g2, hg2⟩ := ih2 tail
  obtain ⟨g1, hg1⟩ := ih1 ((0, .Comma, 0) :: (sp ts' ++ (0, .CloseBrace, 0) :: tail)) (stopAt_cons_none rfl)
  refine ⟨g1 + g2 + 1, ?_⟩
  intro f hf
  obtain ⟨f', rfl⟩ := exists_succ (f := f) (by omega)
  simp only [sp_cons, sp_append, List.cons_append, List.append_assoc]
  exact parseItems_cons f' _ _ _ _ _ _ _ _ _ _ _ (hg1 f' (by omega)) (hg2 f' (by omega))

/-- **the parser finds every derivation** (all six categories at once) -/
theorem goal_of_D {c : Cat} {v : Val} {ts : List Tok} (h : D c v ts) : Goal c v ts := by
  induction h with
  | const v => exact goal_const v
  | wire n => exact goal_wire n
  | paren _ ih => exact goal_paren ih
  | concat _ _ ih1 ih2 => exact goal_concat ih1 ih2
  | mux _ ih => exact goal_mux ih
  | simpleTerm _ ih => exact goal_simpleTerm ih
  | un hop _ ih => exact goal_un hop ih
  | slice _ hlo hhi ih => exact goal_slice ih hlo hhi
  | termTier _ ih => exact goal_termTier ih
  | inPass htk _ ih => exact goal_inPass htk ih
  | inSet htk _ _ ih1 ih2 => exact goal_inSet htk ih1 ih2
  | flatPass htk hch _ ih => exact goal_flatPass htk hch ih
  | flatBin htk hch _ hfind _ ih1 ih2 => exact goal_flatBin htk hch ih1 hfind ih2
  | chainTier htk hch _ _ ih1 ih2 => exact goal_chainTier htk hch ih1 ih2
  | chainNil htk => exact goal_chainNil htk
  | chainCons htk hfind _ _ ih1 ih2 => exact goal_chainCons htk hfind ih1 ih2
  | optsNil => exact goal_optsNil
  | optsLast _ _ ih1 ih2 => exact goal_optsLast ih1 ih2
  | optsCons _ _ _ ih1 ih2 ih3 => exact goal_optsCons ih1 ih2 ih3
  | itemsNil => exact goal_itemsNil
  | itemsLast _ ih => exact goal_itemsLast ih
  | itemsCons _ _ ih1 ih2 => exact goal_itemsCons ih1 ih2

/-- **The parser finds every derivation of the grammar, whatever the positions of the tokens**: tokens whose kinds
    are derived from `Expr` with the tree `x` are parsed, completely, to a tree that is `x` up to spans. -/
theorem parse_complete {x : Ex} {ts : List Tok} (h : D (.tier 0) (.e x) ts) (toks : Toks) (hk : kinds toks = ts) :
    ∃ px s e, parseTier (14 * toks.length + 40) 0 toks = (some (px, s, e, []) : P PEx) ∧ px.erase = x := by
  obtain ⟨g, hg⟩ := goal_of_D h [] trivial
  have h1 := hg g (Nat.le_refl _)
  simp only [List.append_nil] at h1
  have h2 := parseTier_fuel_enough g (sp ts) _ h1
  have hl : toks.length = (sp ts).length := kinds_length (by rw [hk, kinds_sp])
  rw [← hl] at h2
  rcases (allKinds (14 * toks.length + 40)).tier 0 toks (sp ts) (by rw [hk, kinds_sp]) with ⟨_, k2⟩ | ⟨px, s, e, r, px', s', e', r', k1, k2, hx, hr⟩
  · rw [k2] at h2; cases h2
  · rw [k2] at h2
    cases h2
    have hr' : r = [] := kinds_eq_nil hr
    subst hr'
    exact ⟨px, s, e, k1, by rw [hx, emb_erase]⟩

/-- the same at a statement-level expression position -/
theorem parseE_complete {x : Ex} {ts : List Tok} (h : D (.tier 0) (.e x) ts) (toks : Toks) (hk : kinds toks = ts) :
    parseE toks = some (x, []) := by
  obtain ⟨px, s, e, h1, h2⟩ := parse_complete h toks hk
  unfold parseE
  rw [h1]
  simp only [PEx.toEx, h2]

/-- and for a text -/
theorem parseExpr_complete {x : Ex} {ts : List Tok} (h : D (.tier 0) (.e x) ts) (cls : CharCls) (text : List Char)
    (toks : Toks) (ht : tokensOf (lex cls text) = some toks) (hk : kinds toks = ts) :
    (parseExpr cls text).map PEx.erase = some x := by
  obtain ⟨px, s, e, h1, h2⟩ := parse_complete h toks hk
  rw [parseExpr_fuel_independent cls text toks _ px s e ht h1]
  simp only [Option.map_some, h2]

/-! ### Derived rules -/

theorem tiers_lt {k : Nat} (hk : k < 10) : ∃ ot, tiers[k]? = some ot := by
  have hk' : k = 0 ∨ k = 1 ∨ k = 2 ∨ k = 3 ∨ k = 4 ∨ k = 5 ∨ k = 6 ∨ k = 7 ∨ k = 8 ∨ k = 9 := by omega
  rcases hk' with rfl | rfl | rfl | rfl | rfl | rfl | rfl | rfl | rfl | rfl <;> exact ⟨_, rfl⟩

/-- an expression of tier `k + 1` is an expression of tier `k` -/
theorem D.pass {k : Nat} {x : Ex} {ts : List Tok} (hk : k < 10) (h : D (.tier (k + 1)) (.e x) ts) : D (.tier k) (.e x) ts := by
  obtain ⟨ot, htk⟩ := tiers_lt hk
  cases ot with
  | none => exact D.inPass htk h
  | some tier =>
    cases hch : tier.chains with
    | false => exact D.flatPass htk hch h
    | true =>
      have := D.chainTier htk hch h (D.chainNil htk)
      rwa [List.append_nil] at this

theorem D.down {x : Ex} {ts : List Tok} : ∀ (n k : Nat), k + n ≤ 10 → D (.tier (k + n)) (.e x) ts → D (.tier k) (.e x) ts
  | 0, _, _, h => h
  | n + 1, k, hk, h => by
    apply D.down n k (by omega)
    apply D.pass (by omega)
    have e : k + n + 1 = k + (n + 1) := by omega
    rw [e]
    exact h

theorem D.lower {x : Ex} {ts : List Tok} {m k : Nat} (h : D (.tier m) (.e x) ts) (hkm : k ≤ m) (hm : m ≤ 10) :
    D (.tier k) (.e x) ts := by
  have e : m = k + (m - k) := by omega
  rw [e] at h
  exact D.down (m - k) k (by omega) h

theorem D.ofTerm {x : Ex} {ts : List Tok} (h : D .term (.e x) ts) {k : Nat} (hk : k ≤ 10) : D (.tier k) (.e x) ts :=
  D.lower (D.termTier h) hk (Nat.le_refl _)

theorem D.ofSimple {x : Ex} {ts : List Tok} (h : D .simple (.e x) ts) {k : Nat} (hk : k ≤ 10) : D (.tier k) (.e x) ts :=
  D.ofTerm (D.simpleTerm h) hk

/-- **redundant parentheses around any expression, in any operand position** -/
theorem D.parens {x : Ex} {ts : List Tok} {m : Nat} (h : D (.tier m) (.e x) ts) (hm : m ≤ 10) {k : Nat} (hk : k ≤ 10) :
    D (.tier k) (.e x) (.OpenParen :: (ts ++ [.CloseParen])) :=
  D.ofSimple (D.paren (D.lower h (Nat.zero_le _) hm)) hk

/-- the operator tokens and tiers of the binary operators -/
def binTok : BinOp → Tok
  | .mul => .Times | .div => .Divide | .add => .Plus | .sub => .Minus | .shl => .LeftShift | .shr => .RightShift
  | .and => .And | .xor => .Xor | .or => .Or | .eq => .Equal | .ne => .NotEqual | .le => .LessEqual | .ge => .GreaterEqual
  | .lt => .Less | .gt => .Greater | .land => .AndAnd | .lor => .OrOr

def binTier : BinOp → Nat
  | .lor => 0 | .land => 1 | .eq | .ne | .le | .ge | .lt | .gt => 2 | .or => 4 | .xor => 5 | .and => 6
  | .shl | .shr => 7 | .add | .sub => 8 | .mul | .div => 9

def unTok : UnOp → Tok
  | .plus => .Plus | .neg => .Minus | .compl => .Complement | .not => .Not

theorem unTok_op (op : UnOp) : unOpOf (unTok op) = some op := by cases op <;> rfl

theorem binTier_le (op : BinOp) : binTier op ≤ 9 := by cases op <;> decide

theorem bin_find (op : BinOp) : ∃ tier, tiers[binTier op]? = some (some tier) ∧
    tier.ops.find? (fun o => o.1 == binTok op) = some (binTok op, op) ∧ tier.chains = (binTier op != 2) := by
  cases op <;> exact ⟨_, rfl, by decide, by decide⟩

/-- `l op r` with both operands of the next tier -/
theorem D.bin {op : BinOp} {l r : Ex} {tsl tsr : List Tok} (hl : D (.tier (binTier op + 1)) (.e l) tsl)
    (hr : D (.tier (binTier op + 1)) (.e r) tsr) : D (.tier (binTier op)) (.e (.bin op l r)) (tsl ++ binTok op :: tsr) := by
  obtain ⟨tier, htk, hfind, hch⟩ := bin_find op
  cases hc : tier.chains with
  | false => exact D.flatBin htk hc hl hfind hr
  | true =>
    have := D.chainTier htk hc hl (D.chainCons htk hfind hr (D.chainNil htk))
    rwa [List.append_nil] at this

/-- a chain goes on -/
theorem chain_snoc_aux {k : Nat} {tier : Tier} {t t0 : Tok} {op : BinOp} {r : Ex} {tsr : List Tok}
    (htk : tiers[k]? = some (some tier)) (hfind : tier.ops.find? (fun o => o.1 == t) = some (t0, op))
    (hr : D (.tier (k + 1)) (.e r) tsr) {c : Cat} {v : Val} {ts : List Tok} (h : D c v ts) :
    ∀ acc x, c = .chain k tier acc → v = .e x → D (.chain k tier acc) (.e (.bin op x r)) (ts ++ t :: tsr) := by
  induction h with
  | chainNil htk' =>
    intro acc x hc hv
    cases hc
    cases hv
    have e : t :: tsr = t :: (tsr ++ []) := by simp
    rw [List.nil_append, e]
    exact D.chainCons htk hfind hr (D.chainNil htk)
  | chainCons htk' hfind' hr' _ _ ih2 =>
    intro acc x hc hv
    cases hc
    cases hv
    have := D.chainCons htk' hfind' hr' (ih2 _ _ rfl rfl)
    simpa [List.append_assoc] using this
  | _ => intro acc x hc hv; cases hc

/-- an expression of a left-associative tier is its first operand and a chain -/
theorem tier_inv_chain {k : Nat} {tier : Tier} (htk : tiers[k]? = some (some tier)) (hch : tier.chains = true)
    {c : Cat} {v : Val} {ts : List Tok} (h : D c v ts) : ∀ x, c = .tier k → v = .e x →
    ∃ l ts0 ts1, ts = ts0 ++ ts1 ∧ D (.tier (k + 1)) (.e l) ts0 ∧ D (.chain k tier l) (.e x) ts1 := by
  intro x hc hv
  cases h with
  | termTier h' =>
    cases hc
    have : tiers[10]? = none := by decide
    rw [this] at htk; cases htk
  | inPass htk' _ => cases hc; rw [htk'] at htk; cases htk
  | inSet htk' _ _ => cases hc; rw [htk'] at htk; cases htk
  | flatPass htk' hch' _ =>
    cases hc
    rw [htk'] at htk
    cases htk
    rw [hch'] at hch; cases hch
  | flatBin htk' hch' _ _ _ =>
    cases hc
    rw [htk'] at htk
    cases htk
    rw [hch'] at hch; cases hch
  | chainTier htk' _ h1 h2 =>
    cases hc
    cases hv
    rw [htk'] at htk
    cases htk
    exact ⟨_, _, _, rfl, h1, h2⟩
  | _ => cases hc

/-- `l op r` for a left-associative operator, with the left operand of the same tier: `a - b - c` -/
theorem D.binLeft {op : BinOp} {l r : Ex} {tsl tsr : List Tok} (hop : binTier op ≠ 2)
    (hl : D (.tier (binTier op)) (.e l) tsl) (hr : D (.tier (binTier op + 1)) (.e r) tsr) :
    D (.tier (binTier op)) (.e (.bin op l r)) (tsl ++ binTok op :: tsr) := by
  obtain ⟨tier, htk, hfind, hch⟩ := bin_find op
  have hc : tier.chains = true := by
    rw [hch]
    cases op <;> first | rfl | exact absurd rfl hop
  obtain ⟨l0, ts0, ts1, rfl, h0, h1⟩ := tier_inv_chain htk hc hl l rfl rfl
  have := D.chainTier htk hc h0 (chain_snoc_aux htk hfind hr h1 _ _ rfl rfl)
  simpa [List.append_assoc] using this

/-! ### Trees that can be written down -/

mutual
/-- the bounds of every bit selection are at most 128 (the grammar's `WidthConstant`) -/
def okEx : Ex → Bool
  | .const _ => true
  | .wire _ => true
  | .bin _ l r => okEx l && okEx r
  | .un _ x => okEx x
  | .slice x lo hi => okEx x && (decide (lo ≤ 128) && decide (hi ≤ 128))
  | .concat l r => okEx l && okEx r
  | .mux o => okOpts o
  | .inSet x items => okEx x && okExs items
def okOpts : Opts → Bool
  | .nil => true
  | .cons c v r => okEx c && (okEx v && okOpts r)
def okExs : Exs → Bool
  | .nil => true
  | .cons x r => okEx x && okExs r
end

def sliceToks (lo hi : Nat) : List Tok :=
  [.OpenBracket, .Constant ⟨lo, .unlimited⟩, .DotDot, .Constant ⟨hi, .unlimited⟩, .CloseBracket]

/-! ### The fully parenthesised rendering -/

mutual
/-- every binary operation, every `in` test, the operand of every unary operator and of every bit selection in
    parentheses (as `render` of the differential harness writes a tree) -/
def ppFull : Ex → List Tok
  | .const v => [.Constant v]
  | .wire n => [.Identifier n]
  | .bin op l r => .OpenParen :: ((ppFull l ++ binTok op :: ppFull r) ++ [.CloseParen])
  | .un op x => unTok op :: .OpenParen :: (ppFull x ++ [.CloseParen])
  | .slice x lo hi => (.OpenParen :: (ppFull x ++ [.CloseParen])) ++ sliceToks lo hi
  | .concat l r => .OpenParen :: (ppFull l ++ .DotDot :: (ppFull r ++ [.CloseParen]))
  | .mux o => .OpenBracket :: (ppFullOpts o ++ [.CloseBracket])
  | .inSet x items => .OpenParen :: ((ppFull x ++ .In :: .OpenBrace :: (ppFullItems items ++ [.CloseBrace])) ++ [.CloseParen])
/-- `c : v ;` for every option -/
def ppFullOpts : Opts → List Tok
  | .nil => []
  | .cons c v r => ppFull c ++ .Colon :: (ppFull v ++ .Semicolon :: ppFullOpts r)
/-- the members separated by commas -/
def ppFullItems : Exs → List Tok
  | .nil => []
  | .cons x r => ppFull x ++ ppFullMore r
def ppFullMore : Exs → List Tok
  | .nil => []
  | .cons x r => .Comma :: (ppFull x ++ ppFullMore r)
end

mutual
theorem ppFull_D : ∀ x : Ex, okEx x = true → D .term (.e x) (ppFull x)
  | .const v, _ => D.simpleTerm (D.const v)
  | .wire n, _ => D.simpleTerm (D.wire n)
  | .bin op l r, h => by
    simp only [okEx, Bool.and_eq_true] at h
    have hl := D.ofTerm (ppFull_D l h.1) (k := binTier op + 1) (by have := binTier_le op; omega)
    have hr := D.ofTerm (ppFull_D r h.2) (k := binTier op + 1) (by have := binTier_le op; omega)
    unfold ppFull
    exact D.simpleTerm (D.paren (D.lower (D.bin hl hr) (Nat.zero_le _) (by have := binTier_le op; omega)))
  | .un op x, h => by
    simp only [okEx] at h
    unfold ppFull
    exact D.un (unTok_op op) (D.paren (D.ofTerm (ppFull_D x h) (Nat.zero_le _)))
  | .slice x lo hi, h => by
    simp only [okEx, Bool.and_eq_true, decide_eq_true_eq] at h
    unfold ppFull sliceToks
    exact D.slice (D.paren (D.ofTerm (ppFull_D x h.1) (Nat.zero_le _))) h.2.1 h.2.2
  | .concat l r, h => by
    simp only [okEx, Bool.and_eq_true] at h
    unfold ppFull
    exact D.simpleTerm (D.concat (D.ofTerm (ppFull_D l h.1) (Nat.zero_le _)) (D.ofTerm (ppFull_D r h.2) (Nat.zero_le _)))
  | .mux o, h => by
    simp only [okEx] at h
    unfold ppFull
    exact D.simpleTerm (D.mux (ppFullOpts_D o h))
  | .inSet x items, h => by
    simp only [okEx, Bool.and_eq_true] at h
    unfold ppFull
    exact D.simpleTerm (D.paren (D.lower (D.inSet (k := 3) rfl (D.ofTerm (ppFull_D x h.1) (by omega))
      (ppFullItems_D items h.2)) (Nat.zero_le _) (by omega)))
theorem ppFullOpts_D : ∀ o : Opts, okOpts o = true → D .opts (.o o) (ppFullOpts o)
  | .nil, _ => D.optsNil
  | .cons c v r, h => by
    simp only [okOpts, Bool.and_eq_true] at h
    unfold ppFullOpts
    exact D.optsCons (D.ofTerm (ppFull_D c h.1) (Nat.zero_le _)) (D.ofTerm (ppFull_D v h.2.1) (Nat.zero_le _))
      (ppFullOpts_D r h.2.2)
theorem ppFullItems_D : ∀ o : Exs, okExs o = true → D .items (.i o) (ppFullItems o)
  | .nil, _ => D.itemsNil
  | .cons x r, h => by
    simp only [okExs, Bool.and_eq_true] at h
    unfold ppFullItems
    exact ppFullMore_D r h.2 x (ppFull x) (D.ofTerm (ppFull_D x h.1) (Nat.zero_le _))
theorem ppFullMore_D : ∀ r : Exs, okExs r = true → ∀ (x : Ex) (tsx : List Tok), D (.tier 0) (.e x) tsx →
    D .items (.i (.cons x r)) (tsx ++ ppFullMore r)
  | .nil, _, x, tsx, hx => by
    unfold ppFullMore
    rw [List.append_nil]
    exact D.itemsLast hx
  | .cons y r, h, x, tsx, hx => by
    simp only [okExs, Bool.and_eq_true] at h
    unfold ppFullMore
    exact D.itemsCons hx (ppFullMore_D r h.2 y (ppFull y) (D.ofTerm (ppFull_D y h.1) (Nat.zero_le _)))
end

/-- **The fully parenthesised rendering of every expression tree parses back to the tree**, whatever the positions
    of the tokens are. -/
theorem parse_ppFull (x : Ex) (hx : okEx x = true) (toks : Toks) (hk : kinds toks = ppFull x) :
    ∃ px s e, parseTier (14 * toks.length + 40) 0 toks = (some (px, s, e, []) : P PEx) ∧ px.erase = x :=
  parse_complete (D.ofTerm (ppFull_D x hx) (Nat.zero_le _)) toks hk

theorem parseE_ppFull (x : Ex) (hx : okEx x = true) (toks : Toks) (hk : kinds toks = ppFull x) :
    parseE toks = some (x, []) :=
  parseE_complete (D.ofTerm (ppFull_D x hx) (Nat.zero_le _)) toks hk

/-! ### The rendering with only the parentheses that precedence and associativity require -/

/-- the level of a tree: the tier of its operator, 10 for a `Term` (unary operator, bit selection), 11 for a
    `SimpleTerm` -/
def exLevel : Ex → Nat
  | .bin op _ _ => binTier op
  | .inSet _ _ => 3
  | .un _ _ => 10
  | .slice _ _ _ => 10
  | _ => 11

/-- parentheses, if needed -/
def wrap (b : Bool) (ts : List Tok) : List Tok := if b then .OpenParen :: (ts ++ [.CloseParen]) else ts

mutual
/-- as `render_min` of the differential harness writes a tree: the left operand of a binary operator in parentheses if
    it binds looser (or equally, for a comparison), the right operand if it does not bind tighter, the operand of a
    unary operator or of a bit selection unless it is a `SimpleTerm`, the left operand of `in` unless it binds tighter -/
def ppMin : Ex → List Tok
  | .const v => [.Constant v]
  | .wire n => [.Identifier n]
  | .bin op l r =>
    wrap (decide (exLevel l < binTier op) || (binTier op == 2 && exLevel l == 2)) (ppMin l) ++
      binTok op :: wrap (decide (exLevel r ≤ binTier op)) (ppMin r)
  | .un op x => unTok op :: wrap (decide (exLevel x ≤ 10)) (ppMin x)
  | .slice x lo hi => wrap (decide (exLevel x ≤ 10)) (ppMin x) ++ sliceToks lo hi
  | .concat l r => .OpenParen :: (ppMin l ++ .DotDot :: (ppMin r ++ [.CloseParen]))
  | .mux o => .OpenBracket :: (ppMinOpts o ++ [.CloseBracket])
  | .inSet x items => wrap (decide (exLevel x ≤ 3)) (ppMin x) ++ .In :: .OpenBrace :: (ppMinItems items ++ [.CloseBrace])
def ppMinOpts : Opts → List Tok
  | .nil => []
  | .cons c v r => ppMin c ++ .Colon :: (ppMin v ++ .Semicolon :: ppMinOpts r)
def ppMinItems : Exs → List Tok
  | .nil => []
  | .cons x r => ppMin x ++ ppMinMore r
def ppMinMore : Exs → List Tok
  | .nil => []
  | .cons x r => .Comma :: (ppMin x ++ ppMinMore r)
end

/-- the category of a level -/
def catOf (n : Nat) : Cat := if 11 ≤ n then .simple else if n = 10 then .term else .tier n

theorem D.ofLevel {n : Nat} {x : Ex} {ts : List Tok} (h : D (catOf n) (.e x) ts) {k : Nat} (hkn : k ≤ n) (hk : k ≤ 10) :
    D (.tier k) (.e x) ts := by
  unfold catOf at h
  by_cases h1 : 11 ≤ n
  · rw [if_pos h1] at h; exact D.ofSimple h hk
  · rw [if_neg h1] at h
    by_cases h2 : n = 10
    · rw [if_pos h2] at h; exact D.ofTerm h hk
    · rw [if_neg h2] at h; exact D.lower h hkn (by omega)

/-- an operand, in parentheses if `need` says so, where an expression of tier `k` is expected -/
theorem D.operand {x : Ex} {ts : List Tok} (h : D (catOf (exLevel x)) (.e x) ts) (need : Bool) {k : Nat} (hk : k ≤ 10)
    (hneed : need = false → k ≤ exLevel x) : D (.tier k) (.e x) (wrap need ts) := by
  cases need with
  | true => exact D.ofSimple (D.paren (D.ofLevel h (Nat.zero_le _) (Nat.zero_le _))) hk
  | false => exact D.ofLevel h (hneed rfl) hk

/-- an operand where a `SimpleTerm` is expected -/
theorem D.operandSimple {x : Ex} {ts : List Tok} (h : D (catOf (exLevel x)) (.e x) ts) (need : Bool)
    (hneed : need = false → 11 ≤ exLevel x) : D .simple (.e x) (wrap need ts) := by
  cases need with
  | true => exact D.paren (D.ofLevel h (Nat.zero_le _) (Nat.zero_le _))
  | false =>
    have := hneed rfl
    unfold catOf at h
    rw [if_pos this] at h
    exact h

theorem catOf_tier {n : Nat} (h : n ≤ 9) : catOf n = .tier n := by
  unfold catOf
  rw [if_neg (by omega), if_neg (by omega)]

mutual
theorem ppMin_D : ∀ x : Ex, okEx x = true → D (catOf (exLevel x)) (.e x) (ppMin x)
  | .const v, _ => D.const v
  | .wire n, _ => D.wire n
  | .bin op l r, h => by
    simp only [okEx, Bool.and_eq_true] at h
    have hl := ppMin_D l h.1
    have hr := ppMin_D r h.2
    have hp := binTier_le op
    have hR := D.operand hr (decide (exLevel r ≤ binTier op)) (k := binTier op + 1) (by omega)
      (by intro hn; simp only [decide_eq_false_iff_not] at hn; omega)
    unfold ppMin
    rw [show exLevel (.bin op l r) = binTier op from rfl, catOf_tier hp]
    by_cases h2 : binTier op = 2
    · have hL := D.operand hl (decide (exLevel l < binTier op) || (binTier op == 2 && exLevel l == 2))
        (k := binTier op + 1) (by omega)
        (by
          intro hn
          simp only [h2, Bool.or_eq_false_iff, decide_eq_false_iff_not, beq_self_eq_true, Bool.true_and,
            beq_eq_false_iff_ne] at hn
          omega)
      exact D.bin hL hR
    · have hL := D.operand hl (decide (exLevel l < binTier op) || (binTier op == 2 && exLevel l == 2))
        (k := binTier op) (by omega)
        (by
          intro hn
          simp only [Bool.or_eq_false_iff, decide_eq_false_iff_not] at hn
          omega)
      exact D.binLeft h2 hL hR
  | .un op x, h => by
    simp only [okEx] at h
    unfold ppMin
    exact D.un (unTok_op op) (D.operandSimple (ppMin_D x h) _
      (by intro hn; simp only [decide_eq_false_iff_not] at hn; omega))
  | .slice x lo hi, h => by
    simp only [okEx, Bool.and_eq_true, decide_eq_true_eq] at h
    unfold ppMin sliceToks
    exact D.slice (D.operandSimple (ppMin_D x h.1) _
      (by intro hn; simp only [decide_eq_false_iff_not] at hn; omega)) h.2.1 h.2.2
  | .concat l r, h => by
    simp only [okEx, Bool.and_eq_true] at h
    unfold ppMin
    exact D.concat (D.ofLevel (ppMin_D l h.1) (Nat.zero_le _) (Nat.zero_le _))
      (D.ofLevel (ppMin_D r h.2) (Nat.zero_le _) (Nat.zero_le _))
  | .mux o, h => by
    simp only [okEx] at h
    unfold ppMin
    exact D.mux (ppMinOpts_D o h)
  | .inSet x items, h => by
    simp only [okEx, Bool.and_eq_true] at h
    unfold ppMin
    exact D.inSet (k := 3) rfl (D.operand (ppMin_D x h.1) _ (k := 4) (by omega)
      (by intro hn; simp only [decide_eq_false_iff_not] at hn; omega)) (ppMinItems_D items h.2)
theorem ppMinOpts_D : ∀ o : Opts, okOpts o = true → D .opts (.o o) (ppMinOpts o)
  | .nil, _ => D.optsNil
  | .cons c v r, h => by
    simp only [okOpts, Bool.and_eq_true] at h
    unfold ppMinOpts
    exact D.optsCons (D.ofLevel (ppMin_D c h.1) (Nat.zero_le _) (Nat.zero_le _))
      (D.ofLevel (ppMin_D v h.2.1) (Nat.zero_le _) (Nat.zero_le _)) (ppMinOpts_D r h.2.2)
theorem ppMinItems_D : ∀ o : Exs, okExs o = true → D .items (.i o) (ppMinItems o)
  | .nil, _ => D.itemsNil
  | .cons x r, h => by
    simp only [okExs, Bool.and_eq_true] at h
    unfold ppMinItems
    exact ppMinMore_D r h.2 x (ppMin x) (D.ofLevel (ppMin_D x h.1) (Nat.zero_le _) (Nat.zero_le _))
theorem ppMinMore_D : ∀ r : Exs, okExs r = true → ∀ (x : Ex) (tsx : List Tok), D (.tier 0) (.e x) tsx →
    D .items (.i (.cons x r)) (tsx ++ ppMinMore r)
  | .nil, _, x, tsx, hx => by
    unfold ppMinMore
    rw [List.append_nil]
    exact D.itemsLast hx
  | .cons y r, h, x, tsx, hx => by
    simp only [okExs, Bool.and_eq_true] at h
    unfold ppMinMore
    exact D.itemsCons hx (ppMinMore_D r h.2 y (ppMin y) (D.ofLevel (ppMin_D y h.1) (Nat.zero_le _) (Nat.zero_le _)))
end

/-- **The rendering with the fewest parentheses that precedence and associativity allow parses back to the tree.** -/
theorem parse_ppMin (x : Ex) (hx : okEx x = true) (toks : Toks) (hk : kinds toks = ppMin x) :
    ∃ px s e, parseTier (14 * toks.length + 40) 0 toks = (some (px, s, e, []) : P PEx) ∧ px.erase = x :=
  parse_complete (D.ofLevel (ppMin_D x hx) (Nat.zero_le _) (Nat.zero_le _)) toks hk

theorem parseE_ppMin (x : Ex) (hx : okEx x = true) (toks : Toks) (hk : kinds toks = ppMin x) :
    parseE toks = some (x, []) :=
  parseE_complete (D.ofLevel (ppMin_D x hx) (Nat.zero_le _) (Nat.zero_le _)) toks hk

/-- **An expression means the same as its fully parenthesised form**: whatever tokens spell the two renderings of a
    tree, both are parsed to that tree. -/
theorem ppMin_ppFull_same (x : Ex) (hx : okEx x = true) (toks toks' : Toks) (hk : kinds toks = ppMin x)
    (hk' : kinds toks' = ppFull x) : parseE toks = parseE toks' := by
  rw [parseE_ppMin x hx toks hk, parseE_ppFull x hx toks' hk']

/-- the same for texts -/
theorem parseExpr_ppMin_ppFull (cls : CharCls) (x : Ex) (hx : okEx x = true) (text text' : List Char) (toks toks' : Toks)
    (ht : tokensOf (lex cls text) = some toks) (ht' : tokensOf (lex cls text') = some toks')
    (hk : kinds toks = ppMin x) (hk' : kinds toks' = ppFull x) :
    (parseExpr cls text).map PEx.erase = some x ∧ (parseExpr cls text').map PEx.erase = some x :=
  ⟨parseExpr_complete (D.ofLevel (ppMin_D x hx) (Nat.zero_le _) (Nat.zero_le _)) cls text toks ht hk,
    parseExpr_complete (D.ofTerm (ppFull_D x hx) (Nat.zero_le _)) cls text' toks' ht' hk'⟩

/-- `a - b - c`, `a - (b - c)` and `a * (b + c)` keep the parentheses they need, and only those -/
example : ppMin (.bin .sub (.bin .sub (.wire "a") (.wire "b")) (.wire "c")) =
    [.Identifier "a", .Minus, .Identifier "b", .Minus, .Identifier "c"] := by decide
example : ppMin (.bin .sub (.wire "a") (.bin .sub (.wire "b") (.wire "c"))) =
    [.Identifier "a", .Minus, .OpenParen, .Identifier "b", .Minus, .Identifier "c", .CloseParen] := by decide
example : ppMin (.bin .mul (.wire "a") (.bin .add (.wire "b") (.wire "c"))) =
    [.Identifier "a", .Times, .OpenParen, .Identifier "b", .Plus, .Identifier "c", .CloseParen] := by decide
example : ppFull (.bin .add (.wire "a") (.bin .mul (.wire "b") (.wire "c"))) =
    [.OpenParen, .Identifier "a", .Plus, .OpenParen, .Identifier "b", .Times, .Identifier "c", .CloseParen, .CloseParen] := by
  decide

end Parser

#print axioms Parser.goal_of_D
#print axioms Parser.parse_complete
#print axioms Parser.parse_ppFull
#print axioms Parser.parse_ppMin
#print axioms Parser.ppMin_ppFull_same
