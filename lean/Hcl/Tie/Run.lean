import Hcl.Generated

/-! Tie between the tables extracted from /repo on this run (`Hcl/Generated.lean`) and the values the
    hand-written model was validated against.  A change of the source shows up as a failing `rfl` here. -/

namespace Tie.Run

theorem doneText : Generated.doneText = ("(self.status_or_default(1) != 1 && self.status_or_default(1) != 0 ) || self.cycle >= self.options.timeout" : String) := by rfl

theorem statuses : Generated.statuses = (["0 (Bubble)", "1 (OK)", "2 (Halt)", "3 (Invalid Address)", "4 (Invalid Instruction)", "5 (Pipeline Error)"] : List String) := by rfl

theorem defaultTimeout : Generated.defaultTimeout = (9999 : Nat) := by rfl

end Tie.Run
