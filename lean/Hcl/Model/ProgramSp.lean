import Hcl.Model.Program
import Hcl.Model.ParserStmtsSp
open Rust

/-! `Program::new` WITH the source spans its diagnostics carry (program.rs: `Program::new`, `check_double_declare`,
    `resolve_constants`, `preprocess_fixed`, `assignments_to_actions`; ast.rs: `get_width_and_check`, `find_references`).

    `Program.newSp` mirrors `Program.new` (Hcl/Model/Program.lean) stage by stage over the spanned statements `SStmt`
    of Hcl/Model/ParserStmtsSp.lean.  A diagnostic is a `DiagSp`: kind, names, and the spans the Rust `Error` value
    carries, in the order of the variant's fields (the order of `Errors.ErrV`).  The span tables of the Rust code
    (`wire_decl_spans`, `assign_spans`, `seen_registers`, `register_in_spans`) are association lists with the semantics of
    `HashMap::insert` (a later entry for the same key replaces the earlier one); `x.get(name).unwrap()` of a span is
    `spanOf` (the theorems show that the key is always present).

    Evaluation-time errors (`evaluate` after a successful width check, `checkFixEval`) are modelled by the span-less
    evaluator `ev`; they are given no span here (only `NoBitWidth` / `UndeclaredWireRead` of `evaluate` carry one in
    Rust, and neither can arise for an expression the width checker accepted against tables that contain every
    constant). -/

namespace Parser

structure DiagSp where
  kind : DKind
  names : List String := []
  spans : List Span := []
  deriving Repr, DecidableEq, Inhabited

/-- forget the spans -/
def DiagSp.erase (d : DiagSp) : Diag := ⟨d.kind, d.names⟩
/-- a diagnostic without location -/
def DiagSp.ofDiag (d : Diag) : DiagSp := ⟨d.kind, d.names, []⟩

abbrev CS (α : Type) := Except (List DiagSp) α

def panicSp : List DiagSp := panicDiag.map DiagSp.ofDiag

/-- `*table.get(name).unwrap()` for a table of spans -/
def spanOf (m : AMap Span) (n : String) : Span := (m.get? n).getD (0, 0)

/-- a table of spanned expressions without the spans -/
def eraseVals (m : AMap PEx) : AMap Ex := m.map fun p => (p.1, p.2.erase)

/-! ### `find_references`: the spans of the occurrences of a name, in the order of `apply_to_all` -/

mutual
def refSpans (n : String) : PEx → List Span
  | .const _ _ _ => []
  | .bin _ _ _ l r => refSpans n l ++ refSpans n r
  | .un _ _ _ x => refSpans n x
  | .wire s e m => if m = n then [(s, e)] else []
  | .slice _ _ x _ _ => refSpans n x
  | .concat _ _ l r => refSpans n l ++ refSpans n r
  | .mux _ _ opts => refSpansOpts n opts
  | .inSet _ _ x items => refSpans n x ++ refSpansExs n items
def refSpansOpts (n : String) : POpts → List Span
  | .nil => []
  | .cons c v rest => refSpans n c ++ refSpans n v ++ refSpansOpts n rest
def refSpansExs (n : String) : PExs → List Span
  | .nil => []
  | .cons x rest => refSpans n x ++ refSpansExs n rest
end

/-- the spans of the values of the options of a case expression (what `MismatchedMuxWidths` shows) -/
def POpts.valueSpans : POpts → List Span
  | .nil => []
  | .cons _ v rest => v.span :: rest.valueSpans

/-! ### `get_width_and_check` with the expressions its errors carry -/

mutual
def checkSp (fl : Flags) (Γ : Ctx) (κ : Env) : PEx → CS Width
  | .const _ _ v => pure v.width
  | .bin _ _ op l r =>
    match op.kind with
    | .equalWidth => do
        let a ← checkSp fl Γ κ l
        let b ← checkSp fl Γ κ r
        match a.combine b with
        | some w => pure w
        | none => throw [⟨.MismatchedExprWidths, [], [l.span, r.span]⟩]
    | .equalWidthWeak =>
        if fl.strictBinary then do
          let a ← checkSp fl Γ κ l
          let b ← checkSp fl Γ κ r
          match a.combine b with
          | some w => pure w
          | none => throw [⟨.MismatchedExprWidths, [], [l.span, r.span]⟩]
        else do
          let a ← checkSp fl Γ κ l
          let b ← checkSp fl Γ κ r
          pure (a.max b)
    | .boolCombine =>
        if fl.strictBoolean then do
          let a ← checkSp fl Γ κ l
          if !a.possiblyBoolean then throw [⟨.NonBooleanWidth, [], [l.span]⟩]
          let b ← checkSp fl Γ κ r
          if !b.possiblyBoolean then throw [⟨.NonBooleanWidth, [], [r.span]⟩]
          pure (.bits 1)
        else do
          let _ ← checkSp fl Γ κ l
          let _ ← checkSp fl Γ κ r
          pure (.bits 1)
    | .boolFromEq => do
        let a ← checkSp fl Γ κ l
        let b ← checkSp fl Γ κ r
        match a.combine b with
        | some _ => pure (.bits 1)
        | none => throw [⟨.MismatchedExprWidths, [], [l.span, r.span]⟩]
  | .mux s e opts => do
      let st ← checkOptsSp fl Γ κ opts {}
      if fl.requireMuxDefault && !st.seenTrue then throw [⟨.NoMuxDefaultOption, [], [(s, e)]⟩]
      if fl.disallowMultipleMuxDefault && st.seenTwice then throw [⟨.MultipleMuxDefaultOption, [], [(s, e)]⟩]
      if fl.disallowUnreachable && st.seenUnreachable then throw [⟨.UnreachableOptions, [], [(s, e)]⟩]
      match st.width with
      | some w => pure w
      | none => throw [⟨.MismatchedMuxWidths, [], opts.valueSpans⟩]
  | .un _ _ .not x => do
      let _ ← checkSp fl Γ κ x
      pure (.bits 1)
  | .un _ _ _ x => checkSp fl Γ κ x
  | .wire s e n => match Γ n with
      | some w => pure w
      | none => throw [⟨.UndeclaredWireRead, [n], [(s, e)]⟩]
  | .slice s e x lo hi =>
      if lo > hi then throw [⟨.MisorderedBitIndexes, [], [(s, e)]⟩] else do
      let a ← checkSp fl Γ κ x
      match a with
      | .bits n => if hi > n then throw [⟨.InvalidBitIndex, [], [(s, e)]⟩] else pure (.bits (hi - lo))
      | .unlimited => pure (.bits (hi - lo))
  | .concat s e l r => do
      let a ← checkSp fl Γ κ l
      match a with
      | .bits lw => do
          let b ← checkSp fl Γ κ r
          match b with
          | .bits rw => if lw + rw ≤ 128 then pure (.bits (lw + rw)) else throw [⟨.WireTooWide, [], [(s, e)]⟩]
          | .unlimited => throw [⟨.NoBitWidth, [], [r.span]⟩]
      | .unlimited => throw [⟨.NoBitWidth, [], [l.span]⟩]
  | .inSet _ _ x items => do
      let a ← checkSp fl Γ κ x
      let errs ← checkItemsSp fl Γ κ a x.span items
      if errs.isEmpty then pure (.bits 1) else throw errs
def checkOptsSp (fl : Flags) (Γ : Ctx) (κ : Env) : POpts → MuxScan → CS MuxScan
  | .nil, s => pure s
  | .cons c v rest, s => do
      let _ ← checkSp fl Γ κ c
      let unreachable := s.seenUnreachable || s.seenTrue
      let at_ := alwaysTrue fl κ c.erase
      let twice := s.seenTwice || (at_ && s.seenTrue)
      let seen := s.seenTrue || at_
      let w ← checkSp fl Γ κ v
      let width := match s.width with
        | some cur => cur.combine w
        | none => none
      checkOptsSp fl Γ κ rest ⟨width, seen, twice, unreachable⟩
def checkItemsSp (fl : Flags) (Γ : Ctx) (κ : Env) (a : Width) (left : Span) : PExs → CS (List DiagSp)
  | .nil => pure []
  | .cons x rest => do
      let b ← checkSp fl Γ κ x
      let more ← checkItemsSp fl Γ κ a left rest
      match a.combine b with
      | some _ => pure more
      | none => pure (⟨.MismatchedExprWidths, [], [left, x.span]⟩ :: more)
end

def checkFixEvalSp (fl : Flags) (Γ : Ctx) (κ : Env) (x : PEx) : CS WireValue :=
  match checkSp fl Γ κ x with
  | .error ds => .error ds
  | .ok _ =>
    match ev fl κ (fixMux fl Γ κ x.erase) with
    | .ok v => .ok v
    | .error err => .error [DiagSp.ofDiag err.toDiag]

/-! ### `resolve_constants` -/

def resolveLoopSp (fl : Flags) (exprs : AMap PEx) : List String → AMap WireValue → List DiagSp → AMap WireValue × List DiagSp
  | [], res, errs => (res, errs)
  | name :: rest, res, errs =>
    match exprs.get? name with
    | none => (res, errs ++ panicSp)
    | some x =>
      let widths : AMap Width := res.map (fun p => (p.1, p.2.width))
      match checkFixEvalSp fl widths.toCtx res.toEnv x with
      | .ok v => resolveLoopSp fl exprs rest (res.insert name v) errs
      | .error ds => resolveLoopSp fl exprs rest res (errs ++ ds)

/-- `Error::WireLoop` carries the names only -/
def resolveConstantsSp (fl : Flags) (o : Orders) (exprs : AMap PEx) : CS (AMap WireValue) :=
  match (constGraph (eraseVals exprs)).sort o with
  | .ok sorted =>
      let (res, errs) := resolveLoopSp fl exprs sorted [] []
      if errs.isEmpty then .ok (canonConsts (eraseVals exprs) res) else .error errs
  | .cycle c => .error [⟨.WireLoop, c, []⟩]
  | .panic => .error panicSp

/-! ### step 1 -/

/-- the tables of step 1: those of `Step1` (with the diagnostics kept apart) and the spans / spanned expressions -/
structure Step1Sp where
  s : Step1
  declSpans : AMap Span := []           -- wire_decl_spans
  assignSpans : AMap Span := []         -- assign_spans
  consts : AMap PEx := []               -- constants_raw
  assigns : AMap PEx := []              -- assignments
  banks : List SBankDecl := []          -- register_banks_raw
  errs : List DiagSp := []

/-- the errors of `check_double_declare` -/
def ddErrs (fixedNames : List String) (t : Step1Sp) (name : String) (span : Span) : List DiagSp :=
  match t.declSpans.get? name with
  | some other => [⟨.RedeclaredWire, [name], [span, other]⟩]
  | none => if fixedNames.contains name then [⟨.RedeclaredBuiltinWire, [name], [span]⟩] else []

def step1ConstSp (fixedNames : List String) (t : Step1Sp) (d : SConstDecl) : Step1Sp :=
  { t with s := step1Const fixedNames t.s d.erase, errs := t.errs ++ ddErrs fixedNames t d.name d.nameSpan,
           declSpans := t.declSpans.insert d.name d.nameSpan, consts := t.consts.insert d.name d.value }

def step1WireSp (fixedNames : List String) (t : Step1Sp) (d : SWireDecl) : Step1Sp :=
  { t with s := step1Wire fixedNames t.s d.erase, errs := t.errs ++ ddErrs fixedNames t d.name d.span,
           declSpans := t.declSpans.insert d.name d.span }

def step1NameSp (fixedOut : List String) (value : PEx) (t : Step1Sp) (nm : String × Span) : Step1Sp :=
  let errs : List DiagSp :=
    match t.assignSpans.get? nm.1 with
    | some other => [⟨.DoubleAssignedWire, [nm.1], [nm.2, other]⟩]
    | none => if fixedOut.contains nm.1 then [⟨.DoubleAssignedFixedOutWire, [nm.1], [nm.2]⟩] else []
  { t with s := step1Name fixedOut value.erase t.s nm.1, errs := t.errs ++ errs,
           assigns := t.assigns.insert nm.1 value, assignSpans := t.assignSpans.insert nm.1 nm.2 }

def step1AssignSp (fixedOut : List String) (t : Step1Sp) (a : SAssignment) : Step1Sp :=
  a.names.foldl (step1NameSp fixedOut a.value) t

def step1StmtSp (fixedNames fixedOut : List String) (t : Step1Sp) : SStmt → Step1Sp
  | .consts ds => ds.foldl (step1ConstSp fixedNames) t
  | .wires ds => ds.foldl (step1WireSp fixedNames) t
  | .assigns as => as.foldl (step1AssignSp fixedOut) t
  | .bank b => { t with s := { t.s with banksRaw := t.s.banksRaw ++ [b.erase] }, banks := t.banks ++ [b] }

/-- `for (name, span) in &assign_spans { if constants_raw.contains_key(name) { AssignedConstant .. } }` -/
def assignedConstSp (t : Step1Sp) : List DiagSp :=
  t.assignSpans.flatMap fun p =>
    if t.consts.contains p.1 then [⟨.AssignedConstant, [p.1], [p.2, spanOf t.declSpans p.1]⟩] else []

def constRefErrorsSp (t : Step1Sp) : List DiagSp :=
  t.consts.flatMap fun (p : String × PEx) =>
    (dedupS (refs p.2.erase)).flatMap fun inName =>
      let isConstant := t.consts.contains inName
      if t.s.wires.contains inName && !isConstant then
        (refSpans inName p.2).map fun sp => ⟨.NonConstantWireRead, [inName], [sp]⟩
      else if !isConstant then
        (refSpans inName p.2).map fun sp => ⟨.UndeclaredWireRead, [inName], [sp]⟩
      else []

/-! ### step 3 -/

structure Step3Sp where
  banks : List RegisterBank := []
  errors : List DiagSp := []
  seenRegisters : AMap Span := []         -- seen_registers
  defaulted : List String := []
  wireTypes : AMap WireType
  registerIns : AMap Span := []           -- register_in_spans

def regPreSp (t1 : Step1Sp) (constants : AMap WireValue) (bank inName outName : String) (acc : BankAcc)
    (seenRegisters : AMap Span) (r : SRegDecl) : List DiagSp × AMap Span :=
  let e1 : List DiagSp := (dedupS (refs r.default.erase)).flatMap fun n =>
    if t1.s.wires.contains n && !constants.contains n then
      (refSpans n r.default).map fun sp => ⟨.NonConstantWireRead, [n], [sp]⟩ else []
  let e2 : List DiagSp := [inName, outName].flatMap fun n =>
    match t1.declSpans.get? n with
    | some other => [⟨.RedeclaredWire, [n], [r.span, other]⟩]
    | none => []
  let e3 : List DiagSp := if acc.defaults.contains outName then [⟨.DuplicateRegister, [bank, r.name], []⟩] else []
  let e4 : List DiagSp := if t1.assigns.contains outName then
    [⟨.DoubleAssignedRegisterWire, [outName], [r.span, spanOf t1.assignSpans outName]⟩] else []
  let e5 : List DiagSp := match seenRegisters.get? outName with
    | some old => [⟨.DoubleDeclaredRegisterOutWire, [outName], [old, r.span]⟩]
    | none => []
  let seen1 : AMap Span := match seenRegisters.get? outName with
    | some _ => seenRegisters
    | none => seenRegisters ++ [(outName, r.span)]
  let e6 : List DiagSp := match seen1.get? inName with
    | some old => [⟨.DoubleDeclaredRegisterOutWire, [inName], [old, r.span]⟩]
    | none => []
  let seen : AMap Span := match seen1.get? inName with
    | some _ => seen1
    | none => seen1 ++ [(inName, r.span)]
  (e1 ++ e2 ++ e3 ++ e4 ++ e5 ++ e6, seen)

def regEvalSp (fl : Flags) (constants : AMap WireValue) (bank inName outName : String) (s : Step3Sp) (acc : BankAcc)
    (r : SRegDecl) : Step3Sp × BankAcc :=
  let cw : AMap Width := constants.map (fun p => (p.1, p.2.width))
  match checkFixEvalSp fl cw.toCtx constants.toEnv r.default with
  | .ok value =>
    let e7 : List DiagSp := match value.width.combine r.width with
      | some _ => []
      | none => [⟨.MismatchedRegisterDefaultWidths, [bank, r.name], [r.default.span]⟩]
    match asWidth value r.width with
    | .ok dv =>
      ({ s with errors := s.errors ++ e7, registerIns := s.registerIns.insert inName r.span },
       { signals := acc.signals ++ [(inName, outName, r.width)], defaults := acc.defaults.insert outName dv })
    | .error _ => ({ s with errors := s.errors ++ e7 ++ panicSp }, acc)
  | .error ds => ({ s with errors := s.errors ++ ds }, acc)

def step3RegisterSp (fl : Flags) (t1 : Step1Sp) (constants : AMap WireValue) (bank : String) (inP outP : Char)
    (st : Step3Sp × BankAcc) (r : SRegDecl) : Step3Sp × BankAcc :=
  let (s, acc) := st
  let inName := String.ofList [inP, '_'] ++ r.name
  let outName := String.ofList [outP, '_'] ++ r.name
  let s := { s with wireTypes := (s.wireTypes.insert inName .bankInput).insert outName .bankOutput }
  let pre := regPreSp t1 constants bank inName outName acc s.seenRegisters r
  let s := { s with seenRegisters := pre.2, errors := s.errors ++ pre.1 }
  if !pre.1.isEmpty then (s, acc) else regEvalSp fl constants bank inName outName s acc r

def step3BankSp (fl : Flags) (cls : CharClass) (t1 : Step1Sp) (constants : AMap WireValue) (s : Step3Sp) (b : SBankDecl) :
    Step3Sp :=
  match b.name.toList with
  | [inP, outP] =>
    if !cls.isLower inP || !cls.isUpper outP then
      { s with errors := s.errors ++ [⟨.InvalidRegisterBankName, [b.name], [b.nameSpan]⟩] } else
    let stall := "stall_" ++ String.ofList [outP]
    let bubble := "bubble_" ++ String.ofList [outP]
    let e0 : List DiagSp := [stall, bubble].flatMap fun n =>
      match t1.declSpans.get? n with
      | some other => [⟨.RedeclaredWire, [n], [b.nameSpan, other]⟩]
      | none => []
    let d := if t1.assigns.contains stall then s.defaulted else setInsert s.defaulted stall
    let d := if t1.assigns.contains bubble then d else setInsert d bubble
    let s := { s with errors := s.errors ++ e0, defaulted := d,
                      wireTypes := (s.wireTypes.insert stall .bankSpecial).insert bubble .bankSpecial }
    let (s, acc) := b.registers.foldl (step3RegisterSp fl t1 constants b.name inP outP) (s, {})
    { s with banks := s.banks ++ [{ label := b.name, signals := acc.signals, defaults := acc.defaults, stall := stall, bubble := bubble }] }
  | _ => { s with errors := s.errors ++ [⟨.InvalidRegisterBankName, [b.name], [b.nameSpan]⟩] }

/-! ### `assignments_to_actions` -/

/-- the diagnostics one turn of the loop over the sorted names adds (`loopStep`), with their spans -/
def loopStepErrsSp (fl : Flags) (assigns : AMap PEx) (widths : AMap Width) (declSpans assignSpans : AMap Span)
    (constants : AMap WireValue) (byOutput : AMap FixedFunction) (st : LoopState) (name : String) : List DiagSp :=
  match assigns.get? name with
  | some x =>
    let e0 : List DiagSp := if (refs x.erase).all st.covered.contains then [] else panicSp
    match widths.get? name with
    | some w =>
      match checkSp fl widths.toCtx constants.toEnv x with
      | .ok ew =>
        e0 ++ (match w.combine ew with
          | some _ => []
          | none => [⟨.MismatchedWireWidths, [name], [x.span]⟩])
      | .error ds => e0 ++ ds
    | none => e0 ++ [⟨.UndeclaredWireAssigned, [name], [spanOf assignSpans name]⟩]
  | none =>
    match byOutput.get? name with
    | some f => if (f.inWires.map (·.1)).all st.covered.contains then [] else panicSp
    | none =>
      match declSpans.get? name with
      | some sp => [⟨.UnsetWire, [name], [sp]⟩]
      | none => []

/-- the loop over the sorted names: the state of `actionsLoop` and the diagnostics with spans side by side -/
def actionsLoopSp (fl : Flags) (t1 : Step1Sp) (widths : AMap Width) (constants : AMap WireValue)
    (byOutput : AMap FixedFunction) (names : List String) (st : LoopState × List DiagSp) : LoopState × List DiagSp :=
  names.foldl (fun st name =>
    (loopStep fl t1.s.assignments widths t1.s.declared constants byOutput st.1 name,
     st.2 ++ loopStepErrsSp fl t1.assigns widths t1.declSpans t1.assignSpans constants byOutput st.1 name)) st

/-- `preprocess_fixed` attaches no location to any of its errors (`UnsetBuiltinWire`, `PartialFixedInput`) -/
def assignmentsToActionsSp (fl : Flags) (o : Orders) (t1 : Step1Sp) (widths : AMap Width) (known : List String)
    (fixed : List FixedFunction) (constants : AMap WireValue) : CS (List Action) :=
  let g0 := assignGraph t1.s.assignments known
  let pre := fixed.foldl (preprocessOne fl widths constants t1.s.assignments known) { graph := g0 }
  if !pre.errors.isEmpty then .error (pre.errors.map DiagSp.ofDiag) else
  match pre.graph.sort o with
  | .ok sorted =>
      let st := actionsLoopSp fl t1 widths constants pre.info.byOutput sorted ({ covered := known }, [])
      let errs := st.2 ++ st.1.seenUndeclared.map (fun n => ⟨.UnsetUndeclaredWire, [n], []⟩)
      if errs.isEmpty then .ok (st.1.result ++ pre.info.noOutput.map (·.action)) else .error errs
  | .cycle c => .error [⟨.WireLoop, c, []⟩]
  | .panic => .error panicSp

end Parser

open Parser in
/-- `Program::new` with the spans of its diagnostics -/
def Program.newSp (fl : Flags) (cls : CharClass) (o : Orders) (fixed : List FixedFunction) (stmts : List SStmt) :
    Except (List DiagSp) Program :=
  let fixedNames := dedupS (fixed.flatMap fun f => f.inWires.map (·.1) ++ (match f.outWire with | some (n, _) => [n] | none => []))
  let fixedOut := fixed.filterMap fun f => f.outWire.map (·.1)
  -- Step 1
  let t1 := stmts.foldl (step1StmtSp fixedNames fixedOut) { s := step1Init fixed }
  let errs1 := t1.errs ++ assignedConstSp t1 ++ constRefErrorsSp t1
  if !errs1.isEmpty then .error errs1 else
  -- Step 2
  match resolveConstantsSp fl o t1.consts with
  | .error ds => .error ds
  | .ok constants =>
  -- Step 3
  let s3 := t1.banks.foldl (step3BankSp fl cls t1 constants) { wireTypes := t1.s.wireTypes }
  let wires := insertAll t1.s.wires (bankPairs s3.banks)
  let known := (bankOuts s3.banks).foldl setInsert []
  let needed := (bankIns s3.banks).foldl setInsert t1.s.needed
  -- Step 4
  let e4 : List DiagSp := needed.flatMap fun n =>
    if t1.assigns.contains n then [] else
    match t1.declSpans.get? n with
    | some sp => [⟨.UnsetWire, [n], [sp]⟩]
    | none =>
      match s3.registerIns.get? n with
      | some sp => [⟨.UnsetRegisterInputWire, [n], [sp]⟩]
      | none => [⟨.UnsetBuiltinWire, [n], []⟩]
  -- Step 5
  let cpairs := constPairs t1.consts.keys constants
  let wires := insertAll wires cpairs
  let known := (cpairs.map (·.1)).foldl setInsert known
  let missingConst := t1.consts.keys.any (fun k => !constants.contains k)
  let errs3 := s3.errors ++ e4
  if !errs3.isEmpty then .error errs3 else
  if missingConst then .error panicSp else
  match assignmentsToActionsSp fl o t1 wires known fixed constants with
  | .error ds => .error ds
  | .ok actions =>
    .ok { constants := constants, actions := actions, banks := s3.banks, defaulted := s3.defaulted, wireTypes := s3.wireTypes }
