import Hcl.Proofs.Settle
import Hcl.Theorems.C06
open Rust

/-! Two machine states that differ only in the order in which the wire table lists its entries behave alike. -/

structure StateEq (s t : State) : Prop where
  vals : s.values.toEnv = t.values.toEnv
  regs : s.regs = t.regs
  mem : s.mem = t.mem
  cycle : s.cycle = t.cycle
  status : s.lastStatus = t.lastStatus

theorem StateEq.refl (s : State) : StateEq s s := ⟨rfl, rfl, rfl, rfl, rfl⟩
theorem StateEq.symm {s t : State} (h : StateEq s t) : StateEq t s := ⟨h.vals.symm, h.regs.symm, h.mem.symm, h.cycle.symm, h.status.symm⟩
theorem StateEq.trans {s t u : State} (h : StateEq s t) (h' : StateEq t u) : StateEq s u :=
  ⟨h.vals.trans h'.vals, h.regs.trans h'.regs, h.mem.trans h'.mem, h.cycle.trans h'.cycle, h.status.trans h'.status⟩

/-- both fail alike or both succeed with like states -/
def RelE (x y : E State) : Prop :=
  match x, y with
  | .ok a, .ok b => StateEq a b
  | .error e, .error f => e = f
  | _, _ => False

theorem relE_bind_same {α : Type} (x : E α) (f g : α → E State) (h : ∀ a, RelE (f a) (g a)) :
    RelE (x >>= f) (x >>= g) := by
  cases x with
  | error e => simp [bind, Except.bind, RelE]
  | ok a => exact h a

theorem relE_ok {s t : State} (h : StateEq s t) : RelE (pure s) (pure t) := h

theorem toEnv_insert_congr {sv tv : AMap WireValue} (h : sv.toEnv = tv.toEnv) (k : String) (v : WireValue) :
    (sv.insert k v).toEnv = (tv.insert k v).toEnv := by
  funext n
  rw [AMap.toEnv_insert, AMap.toEnv_insert, h]

theorem execAction_congr (fl : Flags) (s t : State) (a : Action) (h : StateEq s t) :
    RelE (execAction fl s a) (execAction fl t a) := by
  obtain ⟨sv, sr, sm, sc, sl⟩ := s
  obtain ⟨tv, tr, tm, tc, tl⟩ := t
  obtain ⟨hv, hr, hm, hc, hl⟩ := h
  simp only at hv hr hm hc hl
  subst hr hm hc hl
  cases a with
  | assign name e w =>
    simp only [execAction, hv]
    apply relE_bind_same; intro v
    apply relE_bind_same; intro r
    exact ⟨toEnv_insert_congr hv _ _, rfl, rfl, rfl, rfl⟩
  | readMem isRead address out bytes isInstr =>
    have key : ∀ (doRead : Bool), RelE
        (if doRead = true then (do
            let a ← lookupOrPanic tv.toEnv address
            pure { values := sv.insert out ⟨sm.read (a.bits % U64) bytes, .bits (bytes * 8)⟩, regs := sr, mem := sm, cycle := sc, lastStatus := sl } : E State)
          else do
            let z ← asWidth ⟨0, .unlimited⟩ (.bits (bytes * 8))
            pure { values := sv.insert out z, regs := sr, mem := sm, cycle := sc, lastStatus := sl })
        (if doRead = true then (do
            let a ← lookupOrPanic tv.toEnv address
            pure { values := tv.insert out ⟨sm.read (a.bits % U64) bytes, .bits (bytes * 8)⟩, regs := sr, mem := sm, cycle := sc, lastStatus := sl } : E State)
          else do
            let z ← asWidth ⟨0, .unlimited⟩ (.bits (bytes * 8))
            pure { values := tv.insert out z, regs := sr, mem := sm, cycle := sc, lastStatus := sl }) := by
      intro doRead
      cases doRead with
      | true =>
        simp only [if_true]
        apply relE_bind_same; intro a
        exact ⟨toEnv_insert_congr hv _ _, rfl, rfl, rfl, rfl⟩
      | false =>
        simp only [Bool.false_eq_true, if_false]
        apply relE_bind_same; intro z
        exact ⟨toEnv_insert_congr hv _ _, rfl, rfl, rfl, rfl⟩
    cases isRead with
    | none =>
      simp only [execAction, getOrPanic_eq, hv]
      exact key true
    | some wire =>
      simp only [execAction, getOrPanic_eq, hv]
      apply relE_bind_same; intro v
      exact key _
  | writeMem isWrite address inp bytes =>
    have key : ∀ (doWrite : Bool), RelE
        (if doWrite = true then (do
            let a ← lookupOrPanic tv.toEnv address
            let i ← lookupOrPanic tv.toEnv inp
            pure { values := sv, regs := sr, mem := sm.write (a.bits % U64) i.bits bytes, cycle := sc, lastStatus := sl } : E State)
          else pure { values := sv, regs := sr, mem := sm, cycle := sc, lastStatus := sl })
        (if doWrite = true then (do
            let a ← lookupOrPanic tv.toEnv address
            let i ← lookupOrPanic tv.toEnv inp
            pure { values := tv, regs := sr, mem := sm.write (a.bits % U64) i.bits bytes, cycle := sc, lastStatus := sl } : E State)
          else pure { values := tv, regs := sr, mem := sm, cycle := sc, lastStatus := sl }) := by
      intro doWrite
      cases doWrite with
      | true =>
        simp only [if_true]
        apply relE_bind_same; intro a
        apply relE_bind_same; intro i
        exact ⟨hv, rfl, rfl, rfl, rfl⟩
      | false =>
        simp only [Bool.false_eq_true, if_false]
        exact ⟨hv, rfl, rfl, rfl, rfl⟩
    cases isWrite with
    | none =>
      simp only [execAction, getOrPanic_eq, hv]
      exact key true
    | some wire =>
      simp only [execAction, getOrPanic_eq, hv]
      apply relE_bind_same; intro v
      exact key _
  | setStatus inWire =>
    simp only [execAction, getOrPanic_eq, hv]
    apply relE_bind_same; intro v
    exact ⟨hv, rfl, rfl, rfl, rfl⟩
  | readReg number out =>
    simp only [execAction, getOrPanic_eq, hv]
    apply relE_bind_same; intro n
    exact ⟨toEnv_insert_congr hv _ _, rfl, rfl, rfl, rfl⟩
  | writeReg number inp =>
    simp only [execAction, getOrPanic_eq, hv]
    apply relE_bind_same; intro n
    split
    · apply relE_bind_same; intro i
      exact ⟨hv, rfl, rfl, rfl, rfl⟩
    · exact ⟨hv, rfl, rfl, rfl, rfl⟩

theorem execActions_congr (fl : Flags) : ∀ (acts : List Action) (s t : State), StateEq s t →
    RelE (execActions fl acts s) (execActions fl acts t)
  | [], _, _, h => h
  | a :: rest, s, t, h => by
    simp only [execActions]
    have h1 := execAction_congr fl s t a h
    cases hs : execAction fl s a with
    | error e =>
      cases ht : execAction fl t a with
      | error f => rw [hs, ht] at h1; simpa [bind, Except.bind, RelE] using h1
      | ok t' => rw [hs, ht] at h1; exact h1.elim
    | ok s' =>
      cases ht : execAction fl t a with
      | error f => rw [hs, ht] at h1; exact h1.elim
      | ok t' =>
        rw [hs, ht] at h1
        exact execActions_congr fl rest s' t' h1

/-! ### the register banks -/

/-- both fail alike or both succeed with like tables -/
def RelV (x y : E (AMap WireValue)) : Prop :=
  match x, y with
  | .ok a, .ok b => a.toEnv = b.toEnv
  | .error e, .error f => e = f
  | _, _ => False

theorem relV_bind_same {α : Type} (x : E α) (f g : α → E (AMap WireValue)) (h : ∀ a, RelV (f a) (g a)) :
    RelV (x >>= f) (x >>= g) := by
  cases x with
  | error e => simp [bind, Except.bind, RelV]
  | ok a => exact h a

theorem contains_congr {sv tv : AMap WireValue} (h : sv.toEnv = tv.toEnv) (n : String) : sv.contains n = tv.contains n := by
  rw [AMap.contains_eq_isSome, AMap.contains_eq_isSome]
  show (sv.toEnv n).isSome = (tv.toEnv n).isSome
  rw [h]

theorem setOrPanic_congr {sv tv : AMap WireValue} (h : sv.toEnv = tv.toEnv) (n : String) (v : WireValue) :
    RelV (setOrPanic sv n v) (setOrPanic tv n v) := by
  unfold setOrPanic
  rw [contains_congr h n]
  split
  · exact toEnv_insert_congr h n v
  · rfl

theorem foldlM_relV {β : Type} (f : AMap WireValue → β → E (AMap WireValue))
    (hf : ∀ sv tv b, sv.toEnv = tv.toEnv → RelV (f sv b) (f tv b)) :
    ∀ (l : List β) (sv tv : AMap WireValue), sv.toEnv = tv.toEnv → RelV (l.foldlM f sv) (l.foldlM f tv)
  | [], _, _, h => h
  | b :: rest, sv, tv, h => by
    simp only [List.foldlM_cons]
    have h1 := hf sv tv b h
    cases hs : f sv b with
    | error e =>
      cases ht : f tv b with
      | error e' => rw [hs, ht] at h1; simpa [bind, Except.bind, RelV] using h1
      | ok t' => rw [hs, ht] at h1; exact h1.elim
    | ok s' =>
      cases ht : f tv b with
      | error e' => rw [hs, ht] at h1; exact h1.elim
      | ok t' =>
        rw [hs, ht] at h1
        exact foldlM_relV f hf rest s' t' h1

theorem processBank_congr (sv tv : AMap WireValue) (bank : RegisterBank) (h : sv.toEnv = tv.toEnv) :
    RelV (processBank sv bank) (processBank tv bank) := by
  unfold processBank
  simp only [getOrPanic_eq, h]
  apply relV_bind_same; intro st
  apply relV_bind_same; intro bu
  split
  · apply foldlM_relV _ _ _ _ _ h
    intro a b p hab
    exact setOrPanic_congr hab _ _
  · split
    · apply foldlM_relV _ _ _ _ _ h
      intro a b sig hab
      unfold loadOne
      simp only [getOrPanic_eq, hab]
      apply relV_bind_same; intro nv
      exact setOrPanic_congr hab _ _
    · exact h

theorem processBanks_congr (banks : List RegisterBank) (sv tv : AMap WireValue) (h : sv.toEnv = tv.toEnv) :
    RelV (processBanks banks sv) (processBanks banks tv) :=
  foldlM_relV _ (fun a b bank hab => processBank_congr a b bank hab) banks sv tv h
