#!/usr/bin/env python3
"""Regenerate MANIFEST.json from the per-property texts below (kept here so the manifest stays consistent)."""
import json, os
VERIF = os.path.dirname(os.path.dirname(os.path.abspath(__file__)))
props = [json.loads(l) for l in open(os.path.join(VERIF, "properties.jsonl"))]

COMMON_NOTE = ("Trusted: Lean 4.33 kernel with axioms propext/Classical.choice/Quot.sound only (audited per theorem on every run); "
               "the hand-written Lean model of the Rust code, tied to /repo by the differential correspondence streams "
               "(sampling, not proof) and the verif-hooks accessors; Hcl/Spec as the reading of the property. ")

CLAIMS = {
 "C01": ('Lean theorem C01_accepted, with no hypothesis about the schedule: for every accepted statement list (constants fit, widths <= 128), every flag set and every iteration order of the hash tables, the action list is pre ++ fin with fin the state-changing actions, and after any cycle that completes every driven wire equals its definition evaluated in the final valuation (start-of-cycle registers and memory), undriven wires keep their values, and that valuation is the only one with this property agreeing on register outputs and constants (uniqueness = order independence). It rests on Program_new_valid (the value-writing actions of an accepted program form a ValidFrom schedule: pure, outputs pairwise distinct, no read of a wire written by the action itself or a later one), proved from the stage invariants of Program::new and the sorter theorem on the built graph; C01_settlement / C01_stable / settled_unique / C01_order_independent are the schedule-level lemmas. The real values of every cycle are compared with the scheduling-free fixpoint specification Spec.cycle, several hash seeds per program.',
         'StmtsWF is what lexer and grammar guarantee (tied by correspondence). That two iteration orders give the same set of actions and the same constants (so that the unique settlement is literally the same valuation) is proved at graph level (C12_*) and sampled at program level.',
         'Lean 4 proof (settlement + uniqueness by induction over the schedule) + schedule validation + differential oracle'),
 "C02": ("Lean theorem ev_correct / C02_eval_eq_denote (all flags, widths, values, nestings): an expression the checker accepts at width w evaluates (after the width fix-up) to exactly Spec.dv at exactly Spec.sw, or reports division by zero exactly when the specification evaluates a zero divisor; C02_assign: the stored value is that value truncated to the declared width. Per-operator lemmas applyBin_spec/applyUn_spec/slice_spec/concat_spec derive the Rust mask/shift/wrapping arithmetic from plain modular arithmetic. C02_accepted lifts this to whole programs with no hypothesis about the schedule: for every accepted statement list, flag set and iteration order, at the end of every cycle that completes, every assigned wire n holds Spec.stored w (Spec.dv ...) — the specification's value of its source expression under the final valuation, truncated to the declared width; with C01_accepted that valuation is the unique solution of the program's equations.",
         'Constants are assumed to fit their width (wfEx), which the lexer establishes and the correspondence stream exercises.',
         'Lean 4 proof by mutual structural induction + differential oracle on type-directed expressions'),
 "C03": ("Lean theorem C03_accepted, with no hypothesis beyond acceptance: for every accepted statement list, every flag set and iteration order, in every state where the bank signals are present (every state a run reaches, by C07_accepted), the clock edge sets every register of a bank to its default if the bank's bubble signal is non-zero, else keeps it if stall is non-zero, else loads the end-of-cycle value of its input; no other wire changes. The side conditions of the bank lemmas C03_bank_edge / C03_edge (outputs of a bank distinct, inputs never outputs, control signals never register signals, names of different banks disjoint, every default belongs to an output) are derived from the register-bank stage of Program::new (step3_facts: all signal names distinct, shapes of names). That outputs do not change within a cycle is C01_accepted (stability).",
         'Stall/bubble histories come from induction over cycles (C07_soundness keeps the presence hypothesis); the S-PROG banks profile ties the model to the code.',
         'Lean 4 proof (fold invariants over defaults/signals, frame lemma across banks) + differential oracle'),
 "C04": ('Lean theorems C04_accepted_order (for every accepted statement list, flag set and iteration order: all value-writing actions, the two register read ports among them, come before all state-changing actions, and those are a sub-sequence of Stat, memory write, register write E, register write M in this order), C04_read (read port = start-of-cycle register), C04_write_port, C04_write_E_then_M (the two write ports in that order equal Spec.regWrite applied for E then M), C04_M_wins, C04_reg15 and C04_reg15_invariant (no action ever changes register 15; all registers start at 0). C04_C05_accepted_effect composes them for every accepted program: after any completed cycle the register file is the start-of-cycle one with the write of port E applied first and that of port M second (each present iff the design wires the port; portWrite = Spec.regWrite for 4-bit destinations, never register 15), the operands being read from the settled valuation.',
         "The composition 'cycle of an accepted program = reads of the old file, then regWrite E, then regWrite M' is assembled per program by the differential oracle (collision coverage), the pieces are theorems.",
         'Lean 4 proof + schedule validation + differential oracle with collision coverage'),
 "C05": ("Lean theorems C05_read_spec / C05_write_spec (the BTreeMap model's read and write are the specified little-endian rdLE/wrLE over addresses modulo 2^64), wrLE_hit / wrLE_other / C05_read_after_write / C05_last_write_wins / C05_untouched (every byte is the most recent earlier write to its address, else the image; wrap-around included), C05_read_port / C05_instruction_port / C05_write_port (enable semantics of the ports). Reads see start-of-cycle memory by C01_settlement; the write is among the final actions (validated per schedule). C04_C05_accepted_effect composes them for every accepted program: after any completed cycle, memory is the start-of-cycle memory with the 8-byte little-endian store applied iff the write port is wired and mem_writebit is non-zero in the settled valuation; reads (value-writing actions) see the start-of-cycle memory by C01_accepted.",
         '',
         'Lean 4 proof (function-update reasoning, induction over histories) + differential oracle'),
 "C06": ('Lean theorems C06_terminates (the run loop never exhausts the fuel timeout+1-cycle: run() terminates within timeout cycles), C06_stop (it returns after exactly k cycles where the k-th state is the first that is done: status outside {AOK,BUB} or budget used), C06_within_timeout (cycle count <= timeout; 0 cycles for timeout 0), C06_report (banner and Cycles run/Error code lines as a function of status, cycle and timeout). The real run() and final dump are compared with model and specification on Stat sequences hitting every 3-bit value at every position and all timeouts 0..14. C06_accepted: for every accepted statement list, flag set, iteration order, memory image and timeout, the run loop started from the initial state ends within timeout+1 turns, either in a done state after at most timeout cycles or with an explicit DivideByZero report; no other failure is possible.',
         'The text of the banner lines is compared through the harness (kind, counts, code number), rendering itself is C16.',
         'Lean 4 proof (induction over fuel/cycles) + differential oracle'),
 "C07": ("Lean theorem C07_accepted, with no hypothesis about the schedule: for every statement list whose constants fit their widths "
         "and whose declared widths are at most 128, every flag set, every Unicode classification of bank letters and every "
         "iteration order of the hash tables (any permutation), if the model of Program::new accepts, then Program::initial_state "
         "succeeds and from it, on every memory image, any number of cycles either all succeed or the run stops with an explicit "
         "DivideByZero; every Rust panic site of initial_state/evaluate/apply/step/process_register_banks is modelled as Err.fail and "
         "shown unreachable, and all values fit their declared widths (C07_values_fit). It rests on Program_new_sound (an accepted "
         "program satisfies ProgramOK: every action well-typed, every read after its write, every bank signal and default present and "
         "typed), proved through invariants of each stage of Program::new (step 1 tables, resolved constants, register banks, the "
         "width table where no built-in, register, control or constant name clobbers another, preprocess_fixed, the sorter on the "
         "built graph, the loop of assignments_to_actions) and on C07_soundness/C07_cycle (induction over cycles).",
         "The hypothesis StmtsWF (constants fit, widths <= 128) is what the lexer and the grammar guarantee (Tie.Grammar bounds, "
         "lexer model); it is tied by the correspondence streams, not by a parser theorem.",
         "Lean 4 proof (stage invariants of Program::new, type soundness by mutual induction, induction over cycles) + differential oracle"),
 "C08": ("Lean theorem C08_accept_iff_rules / check_eq_typeOf: for every setting of the five flags, every context and every "
         "expression (all operators, nestings, widths), get_width_and_check's model accepts at width w if and only if the "
         "documented width rules Spec.typeOf (equal-or-unsized operands for bitwise/shift/comparison/in, boolean operands for "
         "&& || under strict-boolean-ops, arms agree, lo <= hi <= width, sized concatenation <= 128, exactly one always-true "
         "arm and it is last, ...) yield w; C08_target_rule for the assignment target; C08_width_is_semantic_width ties the "
         "rule width to the evaluation width; C08_accepted (in every accepted program, under every iteration order, every "
         "assignment's target has a width in the program's width table, the rules give its expression a width, and the two "
         "are equal or the expression is unsized: a program in which an assignment breaks a width rule is never accepted), "
         "C08_accepted_constants (likewise every constant definition, whose value is the value of its definition). "
         "Width-mutated programs at every depth/boundary are compared with model and Spec.",
         "The converse at program level (every program rejected for a width reason breaks a rule; constants and register "
         "defaults) is modelled in Program.new and compared differentially with Spec.faults; the parser bounds (128) come "
         "through the translator tie.",
         "Lean 4 proof (mutual induction, scan invariants) + differential oracle on mutated programs"),
 "C09": ("Lean theorems about the model of Program::new's first stage (C09_stage1_rejects, step1_errors_mono, step1Name_double): every fault recorded by the stage (double declaration, double assignment, assignment to a built-in output or constant, constant reading a wire/undeclared name) makes Program.new return an error for every iteration order, and errors are never dropped. The full fault list of the statement is Spec.faults; fault injection of every class at every kind of name compares the real accept/reject and the (kind, name) multiset with the model, the verdict with Spec.faults, and requires the injected name in the diagnostics. Statement-level clauses for every accepted program (so: their negation means rejection, under every flag set and iteration order): C09_declared_wire_is_assigned, C09_no_name_assigned_twice (also within one statement), C09_no_name_declared_twice (nor a built-in name redeclared), C09_read_names_declared, C09_constants_not_assigned. C09_accepted: in every accepted program, under every iteration order, the value-writing actions have pairwise distinct outputs, none drives a register output or a constant, every wire read is a register output, a constant or the output of an earlier action, and the state-changing actions write no wire.",
         'Later stages (banks, unset wires, partial components) are covered by the model correspondence and Spec.faults oracle, not yet by theorems.',
         'Lean 4 proof (fold monotonicity) + exhaustive-by-class fault injection with differential oracle'),
 "C10": ("Lean theorems C10_cycle_iff, C10_sorter_spec, C10_never_panics, C10_reported_loop_is_real about a model of Graph::topological_sort/find_cycle that takes the hash-iteration orders as explicit data: for every order the sorter reports a cycle iff one exists, the reported cycle is real, a successful sort is a complete linear extension, and the panic!/underflow sites are unreachable. Tied to the code by replaying the real sorter's logged iteration orders (identical output required) on every digraph with <=4 nodes and random larger ones; program-level loop injection (through components, banks, write ports, constants) is compared with the reachability-based specification. C10_accepted_acyclic: the dependency graph of an accepted program's value-writing actions (u -> v when the definition or component driving v reads u) has no cycle, under every iteration order: a program with a combinational loop is never accepted; the sorter theorem is instantiated on the graphs the program builds (GBuild.sort_spec). C10_reported_loop_real: whenever the diagnostics of Program::new (any statements, flags, iteration order) contain a loop report it is the only diagnostic and the wires it names form a cycle of the dependency relation of the statements (each is read by the definition, or is an input of the built-in component, that drives the next; the last drives the first) - every other diagnostic source of every stage is shown never to have the kind WireLoop (Program_new_nl).",
         'Completeness at program level (a program whose statements have a dependency cycle and no other fault is rejected with a loop report) follows from C10_accepted_acyclic only for the value-writing actions; that every statement-level cycle shows up there is covered by the loop-injection stream and Spec.faults.',
         'Lean 4 proof (invariants over Kahn and DFS loops) + differential replay with logged hash orders'),
 "C18": ("The real step_with_output is run under the empty, full and random subsets of the five output options and must leave "
         "every wire, register, memory byte and status identical to the option-free run (which is compared with model and "
         "specification); the model's simulation functions do not take options at all. The -d table printed by the real code "
         "is compared byte for byte with Dump.wireTable. Theorems C18_grouped_lists / C18_ungrouped_lists (exactly the wires "
         "with a value that are not constants/defaulted are listed), C18_listed_once, C18_value_reads_back, C18_value_width.",
         "Component messages (addresses/register numbers/data) are not modelled.",
         "Lean 4 proof about the table model + differential runs under option subsets"),
 "C19": ("Lean theorems C19_exit (with well-formed options the exit status is 0 iff what was asked was done), C19_option_error, "
         "C19_output_matches_status (status 0 only with help/version/'syntax OK'/final state; 1 never with a final state), "
         "C19_check_simulates_nothing, about Cli.mainReal (the return statements of main_real in source order). The real binary "
         "is run on ~1200 argument vectors (options, 0-4 positionals, file states, timeouts incl. 2^32-1, 2^32, -1, abc, '') and "
         "its status, output kind, channel use, executed cycles and banner compared with model and specification.",
         "getopts, file IO and the simulation are abstracted into the fields of CliInput; they are exercised by the real runs.",
         "Lean 4 proof (finite case analysis of the decision logic) + differential runs of the built binary"),
 "C20": ("Lean theorems C20_disasm (for every valid Y86-64 instruction - all opcodes, condition/function codes, register pairs "
         "and all 64-bit immediates - and any following bytes, disassemble consumes exactly the encoding's length and prints the "
         "CS:APP text), C20_invalid (opcode nibble > 0xB: one byte, <invalid>), C20_line (the trace line shows pc, then exactly "
         "the instruction's bytes as they are in memory at pc.. mod 2^64, in memory order, then the text). Exhaustive "
         "first-two-byte comparison of the real disassembler with model and specification, and real trace lines.",
         "Hex formatting ({:x}, {:02x}) is a shared primitive of model and specification (Hcl/Util/Format.lean), compared with Rust's through the streams.",
         "Lean 4 proof (case split on instruction form, omega for field extraction) + exhaustive differential check"),
 "C11": ("Lean theorems C11_grammar_tiers_documented / C11_grammar_ops_documented (the BinTier/NonAssoc chain and operator groups "
         "extracted from parser.lalrpop on this run are the documented ten levels, tightest * / ... loosest ||, comparisons and "
         "'in' not chaining), C11_model_tiers_documented (the Lean parser model uses the same table), C11_preamble_values (every "
         "predefined name of the preamble text extracted from program.rs lexes to its CS:APP value), C11_binary / C11_hex / C11_decimal / C11_digit (for every digit string of every length followed by any non-digit: a 0b literal of at most 128 digits lexes to its base-2 value with width = digit count, a 0x literal to its base-16 value and a decimal literal to its base-10 value, unsized, exactly when the value is below 2^128, and to InvalidConstant otherwise; the span is the literal), C11_block_comment / C11_hash_comment / C11_slash_comment / C11_blank_space (a comment of each kind and any run of blank characters yields no token and the lexer continues with exactly the text after it), C11_pairs_and_triples_grouped and C11_unary_slice_in (kernel evaluation of the parser model on every pair and every triple of the 17 binary operators, every unary operator in both operand positions, slices and `in` against every binary operator: the tree returned is the unique one grouped by the documented levels, and two comparisons in a row are refused), with Tie.Lexer (character "
         "classes, token table) and Tie.Grammar. The lexer and expression-parser models are compared with the real lexer/parser "
         "token by token and node by node including spans; the oracle is by construction: minimal-parenthesis, full-parenthesis "
         "and comment/blank-laden renderings of one tree must parse identically, literals of known value must lex to it.",
         "The LALRPOP-generated LR automaton is not modelled; the model is a precedence-climbing parser validated against it. "
         "Statement-level grammar is tied only through the AST hook (statements_sexp) used by all program streams.",
         "Lean 4 proof by kernel evaluation over the extracted grammar/preamble + differential correspondence + construction oracle"),
 "C12": ("Lean theorems, for every statement list, flag set and every pair of iteration orders o1, o2 of all the hash tables "
         "(permutations at every point where the code iterates over a HashMap/HashSet): C12_verdict_order_independent / "
         "C12_rejected_on_every_run (Program::new accepts under o1 iff it accepts under o2), C12_constants_order_independent "
         "(resolve_constants yields the same values whatever topological order the sorter returns: a table that explains itself "
         "is what every order computes), C12_accepted (two accepting builds have the same constants, banks, defaulted wires and "
         "wire types, the same *set* of value-writing actions, each list a valid schedule, followed by the same list of "
         "state-changing actions), C12_cycle and C12_run (from the same memory image the two builds start in the same state, "
         "stop after the same number of cycles and end with the same registers, memory, status and value on every wire), "
         "C12_report (like states give the same banner, cycle count and status code). Underneath: check_congr/fixMux_congr "
         "(the width checker reads its tables only at the referenced names), execAction_congr, C01_order_independent, "
         "C10_cycle_iff. Every generated program (accepted, faulty, looping) is also built and run 4-8 times in-process with "
         "fresh hash seeds and must behave identically; the CLI is run repeatedly in C19's stream.",
         "partial: C12_diagnostics_order_independent proves that a rejected program gets the same diagnostics (kinds and names, "
         "with multiplicity, in some order; or one loop each) under every order; the byte-identity of the printed text "
         "(errors.rs, dump) is sampled (8 rebuilds per program, S-DUMP, CLI stream), not proved. Renaming invariance is "
         "exercised by the generators but not stated as a theorem.",
         "Lean 4 proof (order-independence of constants, verdict, action set and whole runs, by induction over the loops and "
         "uniqueness of settlement) + repeated builds under fresh hash seeds"),
 "C13": ("Lean theorems C13_construction_no_internal_error (for every statement list with well-formed literals and widths, every flag set, every classification of bank letters and every iteration order of the hash tables, whatever diagnostics the model of Program::new returns, none is InternalPanic: every assert!, unwrap(), panic! and unchecked slice of resolve_constants, preprocess_fixed, assignments_to_actions, the sorter, the register-bank stage and constant evaluation is modelled as an InternalPanic diagnostic and shown unreachable; this includes that the topological order always satisfies the loop's assert!(covered..)), C13_accepted_runs (= C07_accepted: an accepted program's run never panics), C13_lexer_progress / C13_lexer_terminates (the lexer loop consumes input on every turn), C13_render_total / C13_render_total_y86 / C13_lookup_total (show_region, line_number_and_bounds, filename never slice, subtract or index out of range, for any offsets incl. usize::MAX). The LALRPOP parser and the message building of errors.rs are tied by S-TEXT (model of Program::new on every text that parses, lexer model on every text that does not) and S-BYTES (the real binary on arbitrary bytes).",
         'partial: the generated LR automaton with its error recovery and the message formatting of errors.rs (which slices the source text itself in three places) are not modelled; they are covered by the fuzzing streams, which sample (defect D26 was in exactly that code and was found by a mutation sub-agent, not by the streams).',
         'Lean 4 proof (termination measure, table/boundary invariants) + differential correspondence + fuzzing oracle on the real binary'),
 "C14": ("Lean theorems about the model of io.rs: Io.lookupIndex_spec (the standard library's binary search, as compiled, finds the "
         "greatest table entry not above the target), Io.lineNumberAndBounds_user / C14_line (for every preamble, user text and "
         "position of the user text up to its end, the reported line number is 1 + the number of line feeds of the user text "
         "before the position, and the bounds are that line's start and the next line's start), C14_file / C14_file_builtin "
         "(attribution to the user's file exactly for positions at or after the preamble), C14_region / C14_region_y86 (for every "
         "valid-UTF-8 user text and every span inside one line, show_region prints header file:line, that line's text without its "
         "LF/CRLF terminator, and carets under exactly the span), with the hypotheses on the preamble discharged for the text "
         "extracted from program.rs on this run (C14_preamble_ends_line, C14_preamble_utf8).",
         "That the spans handed to show_region are those of the offending token is tied by the S-DIAG stream (planted faults of 13 "
         "kinds) and the lexer/parser span correspondence of C11, not by a theorem about the LALRPOP automaton. Multi-line spans "
         "are covered by the correspondence only. FileContents::range/line (unused by diagnostics) return byte offsets, noted in DESIGN.md.",
         "Lean 4 proof (binary-search loop invariant, line-table characterisation, UTF-8 boundary lemma) + differential oracle"),
 "C15": ("Lean theorems C15_line (for every valid-UTF-8 line, load_line_y86 classifies and loads it exactly as the format specification Spec.classify says: a data line stores its byte pairs at consecutive addresses from its address, a line without '|' or a comment line changes nothing, anything else is refused) and C15_image (for every list of valid-UTF-8 lines the loader refuses exactly when a line is malformed or there is no line, and otherwise every address holds what the listing denotes: later lines over earlier ones, 0 elsewhere; overlay_spec: byte k of a data line is at address+k, all other addresses untouched), C15_invalid_utf8 (a line that is not UTF-8 is an I/O error), C15_line_no_panic / C15_load_no_panic (str::get / slicing never panics). The proofs use that in valid UTF-8 the position after an ASCII byte is a character boundary (validUtf8_boundary), so str::get on the fixed columns agrees with plain byte comparison.",
         'BufRead::lines (splitting at LF, dropping CR) is modelled by splitLines and tied by the S-YO streams.',
         'Lean 4 proof (panic-freedom of byte slicing) + differential oracle on valid and malformed listings'),
 "C16": ("Lean theorems about the model of dump_memory_y86 (its loop printing tokens: a row label or one of sixteen cells), for "
         "every memory with strictly increasing addresses below 2^64 -- which C16_memory_reachable shows every memory is that "
         "the loader accepts and any number of cycles of any program produce: C16_memory_tokens (what the walk prints, key by "
         "key, incl. completion of rows, rows far apart, unaligned first address and the wrap at 2^64-1; the loop's fuel "
         "suffices), C16_memory_roundtrip (reading the tokens back -- a byte in column i of the row labelled r is the byte at "
         "16r+i -- gives exactly the memory: every used byte at its own address, no other byte), C16_memory_rows (complete "
         "rows: a label then cells 0..15), C16_hexpad_roundtrip / C16_hex_roundtrip (every number printed in hexadecimal, at "
         "any padding width, reads back as itself). The real dump_y86_str text is compared byte for byte with the Lean model "
         "Dump.state on random machine states (registers to 2^64-1, sparse/unaligned/top-of-address-space memory, 0-6 banks "
         "with long and non-ASCII names forcing wraps, all banners), and read back by Spec.DumpFormat.parse into exactly the "
         "state (oracle).",
         "partial: the round trip is proved for the memory section at the level of its tokens; the character-level reader "
         "(Spec.DumpFormat.parse) on the whole text, the program-register lines and the wrapped bank lines are checked on every "
         "generated state, not proved.",
         "Lean 4 proof (memory walk: invariant over the sorted keys, token round trip, reachability of the hypothesis) + "
         "differential model + parse-back oracle"),
 "C17": ("Lean theorems C17_accepted_same_program / C17_accepted_same_run (a statement list accepted under two combinations of the five options is built into the same program - constants, actions incl. the width fix-up, banks, tables - and, from the initial state on any memory image with any timeout, runs to the same final state or the same division-by-zero report under both), C17_eval_flag_independent: an expression accepted under two strictness flag sets has the same width "
         "and evaluates identically under both, for every valuation (the flags occur in the model's check and applyBin; the "
         "specification's value does not mention them). The harness is rebuilt per cargo feature set and accept/reject + "
         "values are compared with model and specification run with the same flags.",
         "check_eq_typeOf / C17_accept give acceptance of an expression under every flag set as exactly Spec.typeOf with the enabled rules; program-level acceptance per flag set (which programs each option rejects) is compared differentially with the per-feature builds.",
         "Lean 4 proof + per-feature-set differential builds"),
}

def mk(pid):
    text, extra, technique = CLAIMS[pid]
    return {"property_id": pid, "quick_cmd": "./check %s --tier quick" % pid, "thorough_cmd": "./check %s --tier thorough" % pid,
            "evidence_file": "evidence/%s.json" % pid, "replay_cmd_template": "./check %s --replay {path}" % pid,
            "engine": "lean4-model+rust-harness",
            "level_claimed": {"category": "proof", "text": text, "design_ref": "DESIGN.md section 6 " + pid},
            "level_note": COMMON_NOTE + extra, "technique": technique}

claimed = sorted(CLAIMS)
na = [{"property_id": p["id"], "reason": "not yet claimed at this commit: model/stream under construction (DESIGN.md section 9 gives the order of work)"}
      for p in props if p["id"] not in CLAIMS]
hooks = os.popen("git -C /repo log --format=%h --grep='^hooks:'").read().split()
m = {"version": 1, "setup_cmd": "./setup.sh",
     "hooks": {"guard": "cargo feature verif-hooks",
               "enable": "harness/Cargo.toml depends on hclrs with features=[\"verif-hooks\"]; cargo build --offline in /verif/harness",
               "baseline_off_cmd": "cd /repo && cargo test --workspace --no-fail-fast --offline", "source_commits": hooks, "add_only": True},
     "engines": [{"name": "lean4-model+rust-harness", "path": "lean/ harness/ tools/ check", "serves_properties": claimed,
                  "kind_free_text": "Lean 4 model, specification, theorems and line-protocol driver; Rust in-process correspondence harness; Python orchestration"}],
     "checks": [mk(p) for p in claimed], "not_applicable": na,
     "notes": "See DESIGN.md. fix: commits in /repo are recorded in KNOWN_FINDINGS.json."}
json.dump(m, open(os.path.join(VERIF, "MANIFEST.json"), "w"), indent=1)
print("claimed:", claimed)
