/-!
# The yas listing format that `.yo` images use (specification)

A data line is `0x` + three hexadecimal digits + `: ` + a 20-column field + ` |` + anything; the field
holds 0..10 pairs of hexadecimal digits and is blank-filled (what follows the first blank in the
field is not looked at).  The pairs are the bytes at consecutive addresses from the given one.
-/

namespace Spec

def isHexDigit (b : Nat) : Bool := (48 ≤ b && b ≤ 57) || (97 ≤ b && b ≤ 102) || (65 ≤ b && b ≤ 70)
def hexDigitVal (b : Nat) : Nat := if b ≤ 57 then b - 48 else if b ≥ 97 then b - 87 else b - 55

inductive YoLine where
  | data (addr : Nat) (bytes : List Nat)
  | nothing
  | malformed
  deriving Repr, DecidableEq

/-- the byte pairs of the field up to its first blank; `none` if something else than a full pair is met -/
def fieldPairs : List Nat → Option (List Nat)
  | [] => some []
  | 32 :: _ => some []
  | a :: b :: rest =>
    if isHexDigit a && isHexDigit b then (fieldPairs rest).map (fun l => (hexDigitVal a * 16 + hexDigitVal b) :: l) else none
  | [_] => none

def blanks28bar : List Nat := List.replicate 28 32 ++ [124]

def classify (line : List Nat) : YoLine :=
  let isData := line.take 2 == [48, 120] && (line.drop 5).take 2 == [58, 32] && (line.drop 27).take 2 == [32, 124]
  if isData then
    let a := (line.drop 2).take 3
    if a.all isHexDigit then
      match fieldPairs ((line.drop 7).take 20) with
      | some bs => .data (a.foldl (fun acc d => acc * 16 + hexDigitVal d) 0) bs
      | none => .malformed
    else .malformed
  else if line.contains 124 && !(blanks28bar.isPrefixOf line) then .malformed
  else .nothing

/-- the image a listing denotes: later lines overlay earlier ones; `none` when a line is malformed or
    the file has no line at all -/
def overlay (mem : Nat → Nat) (addr : Nat) : List Nat → Nat → Nat
  | [] => mem
  | b :: rest => overlay (fun a => if a = addr then b else mem a) (addr + 1) rest

def image : List (List Nat) → (Nat → Nat) → List Nat → Option ((Nat → Nat) × List Nat)
  | [], mem, used => some (mem, used)
  | line :: rest, mem, used =>
    match classify line with
    | .data addr bs => image rest (overlay mem addr bs) (used ++ (List.range bs.length).map (addr + ·))
    | .nothing => image rest mem used
    | .malformed => none

end Spec
