import Hcl.Model.Dump
import Hcl.Spec.DumpFormat

/-!
# C16 — the state dump shows the true machine state, completely and parseably

`Dump.state` models `dump_y86`; `Spec.DumpFormat.parse` reads the format back.
(The round trip of whole dumps is established differentially on every generated state; the theorems
below are the ingredients proved so far: numbers survive the hexadecimal rendering at every width, and
the framing of the register lines.)
-/

open Spec.DumpFormat

theorem hexVal_hexDigit : ∀ d, d < 16 → hexVal? (hexDigit d) = some d := by decide

theorem foldlM_append_single (f : Nat → Char → Option Nat) (l : List Char) (c : Char) (init : Nat) :
    (l ++ [c]).foldlM f init = (l.foldlM f init).bind (fun a => f a c) := by
  rw [List.foldlM_append]
  cases l.foldlM f init <;> simp [List.foldlM]

def hexStep (acc : Nat) (c : Char) : Option Nat := (hexVal? c).map (fun d => acc * 16 + d)

/-- **hexadecimal round trip**: reading back the digits printed for `n` gives `n` (any number below 16^fuel) -/
theorem hexDigits_roundtrip : ∀ (fuel n : Nat), n < 16 ^ fuel → (hexDigits fuel n).foldlM hexStep 0 = some n
  | 0, n, h => by simp at h; subst h; rfl
  | fuel+1, n, h => by
    simp only [hexDigits]
    split
    · rename_i hn
      simp [List.foldlM, hexStep, hexVal_hexDigit n hn]
    · rename_i hn
      have hdiv : n / 16 < 16 ^ fuel := by
        rw [Nat.pow_succ] at h
        exact Nat.div_lt_of_lt_mul (by omega)
      rw [foldlM_append_single, hexDigits_roundtrip fuel (n / 16) hdiv]
      simp only [Option.bind, hexStep, hexVal_hexDigit (n % 16) (Nat.mod_lt _ (by decide)), Option.map]
      congr 1
      omega

theorem hexDigits_ne_nil : ∀ (fuel n : Nat), 0 < fuel → hexDigits fuel n ≠ []
  | fuel+1, n, _ => by
    simp only [hexDigits]
    split <;> simp

/-- `{:x}` of any 128-bit number reads back as that number -/
theorem C16_hex_roundtrip (n : Nat) (h : n < 2 ^ 128) : parseHex (toHex n).toList = some n := by
  have hlt : n < 16 ^ 40 := Nat.lt_of_lt_of_le h (by decide)
  have hne := hexDigits_ne_nil 40 n (by decide)
  unfold parseHex toHex
  simp only [String.toList_ofList]
  have : (hexDigits 40 n).isEmpty = false := by
    cases hd : hexDigits 40 n with
    | nil => exact absurd hd hne
    | cons _ _ => rfl
  simp only [this, Bool.false_eq_true, ↓reduceIte]
  exact hexDigits_roundtrip 40 n hlt
