import Hcl.Proofs.BinOps
open Rust

/-! Unary operators, bit selection and concatenation compute the specified values. -/

theorem sub_mul_mod (W k x : Nat) (hk : 0 < k) (hx : x ≤ W) : (W * k - x) % W = (W - x) % W := by
  obtain ⟨j, rfl⟩ : ∃ j, k = j + 1 := ⟨k - 1, by omega⟩
  have : W * (j + 1) - x = (W - x) + W * j := by
    rw [Nat.mul_succ]; omega
  rw [this, Nat.add_mul_mod_self_left]

theorem applyUn_spec (op : UnOp) (x : Nat) (a : Width) (ha : a.ok) (hx : x < a.card) :
    applyUn op ⟨x, a⟩ = .ok ⟨(match op with
        | .plus => x
        | .neg => (a.card - x % a.card) % a.card
        | .compl => a.card - 1 - x % a.card
        | .not => Spec.b2n (x = 0)), if op = .not then .bits 1 else a⟩ := by
  unfold applyUn
  have hw : (if op = .not then Width.bits 1 else a).ok := by
    split
    · simp [Width.ok]
    · exact ha
  have hxm : x % a.card = x := Nat.mod_eq_of_lt hx
  obtain ⟨k, hk⟩ := a.card_dvd ha
  have hkpos : 0 < k := by
    rcases Nat.eq_zero_or_pos k with h | h
    · subst h; have := U128_pos; omega
    · exact h
  have hpos := a.card_pos
  cases op
  · -- plus
    simp only [reduceCtorEq, ↓reduceIte] at hw ⊢
    have := maskStep a ha x
    simp only [bind, Except.bind, pure, Except.pure] at this ⊢
    rw [Width.mask_eq a ha] at this ⊢
    simp only [liftR] at this ⊢
    rw [and_mask, hxm]
  · -- neg
    simp only [reduceCtorEq, ↓reduceIte] at hw ⊢
    simp only [bind, Except.bind, pure, Except.pure, Width.mask_eq a ha, liftR, and_mask, hxm]
    congr 2
    unfold wrappingAdd not128
    have hx128 : x < U128 := Nat.lt_of_lt_of_le hx (a.card_le ha)
    have : U128 - 1 - x + 1 = U128 - x := by omega
    rw [this, mod_mod_card _ a ha, hk]
    exact sub_mul_mod a.card k x hkpos (Nat.le_of_lt hx)
  · -- compl
    simp only [reduceCtorEq, ↓reduceIte] at hw ⊢
    simp only [bind, Except.bind, pure, Except.pure, Width.mask_eq a ha, liftR, and_mask, hxm]
    congr 2
    unfold not128
    have h1 : U128 - 1 - x = a.card * k - (x + 1) := by rw [hk]; omega
    rw [h1, sub_mul_mod a.card k (x + 1) hkpos (by omega)]
    have : a.card - (x + 1) < a.card := by omega
    rw [Nat.mod_eq_of_lt this]; omega
  · -- not
    simp only [↓reduceIte] at hw ⊢
    simp only [bind, Except.bind, pure, Except.pure, Width.mask_eq _ hw, liftR, and_mask]
    congr 2
    by_cases h0 : x = 0 <;> simp [h0, Spec.b2n, Width.card]

theorem slice_spec (x lo hi : Nat) (hle : lo ≤ hi) (h128 : hi ≤ 128) :
    (do let sh : Nat := if lo < 128 then x >>> lo else 0
        let w ← liftR (uSub hi lo)
        let m ← liftR (Width.mask (.bits w))
        pure (⟨sh &&& m, .bits w⟩ : WireValue) : E WireValue)
      = .ok ⟨(x / 2 ^ lo) % 2 ^ (hi - lo), .bits (hi - lo)⟩ := by
  have hok : (Width.bits (hi - lo)).ok := by simp only [Width.ok]; omega
  have hm := Width.mask_eq (.bits (hi - lo)) hok
  simp only [uSub, hle, ↓reduceIte, liftR, pure, Except.pure, bind, Except.bind, hm, and_mask]
  congr 2
  by_cases hlo : lo < 128
  · simp [hlo, Nat.shiftRight_eq_div_pow, Width.card]
  · have : hi - lo = 0 := by omega
    simp [hlo, this, Width.card, Nat.mod_one]

theorem concat_spec (x y la lb : Nat) (hx : x < 2 ^ la) (hy : y < 2 ^ lb) (hle : la + lb ≤ 128) :
    (do let sh : Nat := if lb < 128 then (x <<< lb) % U128 else 0
        let w ← liftR (u8Add la lb)
        let m ← liftR (Width.mask (.bits w))
        pure (⟨(sh ||| y) &&& m, .bits w⟩ : WireValue) : E WireValue)
      = .ok ⟨x * 2 ^ lb + y, .bits (la + lb)⟩ ∧ x * 2 ^ lb + y < 2 ^ (la + lb) := by
  have hok : (Width.bits (la + lb)).ok := hle
  have hm := Width.mask_eq (.bits (la + lb)) hok
  have h8 : la + lb < U8 := by unfold U8; omega
  have hbound : x * 2 ^ lb + y < 2 ^ (la + lb) := by
    rw [Nat.pow_add]
    have h1 : (x + 1) * 2 ^ lb ≤ 2 ^ la * 2 ^ lb := Nat.mul_le_mul_right _ hx
    have : (x + 1) * 2 ^ lb = x * 2 ^ lb + 2 ^ lb := by rw [Nat.add_mul]; simp
    omega
  refine ⟨?_, hbound⟩
  simp only [u8Add, h8, ↓reduceIte, liftR, pure, Except.pure, bind, Except.bind, hm, and_mask]
  congr 2
  have hcardle : 2 ^ (la + lb) ≤ U128 := by unfold U128; exact Nat.pow_le_pow_right (by decide) hle
  by_cases hlb : lb < 128
  · simp only [hlb, ↓reduceIte, Nat.shiftLeft_eq, Width.card]
    have hlt : x * 2 ^ lb < U128 := by omega
    rw [Nat.mod_eq_of_lt hlt, Nat.mul_comm x, ← Nat.two_pow_add_eq_or_of_lt hy x, Nat.mul_comm]
    exact Nat.mod_eq_of_lt hbound
  · have hla : la = 0 := by omega
    subst hla
    have hx0 : x = 0 := by simpa using hx
    subst hx0
    simp only [hlb, ↓reduceIte, Nat.zero_or, Width.card, Nat.zero_mul, Nat.zero_add]
    exact Nat.mod_eq_of_lt (by simpa using hbound)
