import Hcl.Model.Yo

/-! In a valid UTF-8 byte string, position 0 and the position after any byte below 0x80 are character boundaries. -/

namespace Yo

theorem isBoundary_zero_cons (b : Nat) (rest : Bytes) (h : b < 0x80 ∨ 0xC2 ≤ b) : isBoundary (b :: rest) 0 = true := by
  unfold isBoundary
  simp only [List.length_cons, List.getElem?_cons_zero]
  rcases h with h | h
  · have : ¬ (0x80 ≤ b) := by omega
    simp [this]
  · have : ¬ (b ≤ 0xBF) := by omega
    simp [this]

theorem isBoundary_cons_succ (b : Nat) (rest : Bytes) (k : Nat) : isBoundary (b :: rest) (k + 1) = isBoundary rest k := by
  unfold isBoundary
  simp

theorem isBoundary_length (D : Bytes) : isBoundary D D.length = true := by
  unfold isBoundary; simp

/-- the byte before position `k` is below 0x80 -/
def PrevAscii (D : Bytes) (k : Nat) : Prop := ∃ b, D[k - 1]? = some b ∧ b < 0x80

def After (D : Bytes) : Prop := ∀ k, 1 ≤ k → k ≤ D.length → PrevAscii D k → isBoundary D k = true

theorem after_nil : After [] := by
  intro k h1 h2; simp at h2; omega

theorem after_cons_high (b : Nat) (r : Bytes) (hb : 0x80 ≤ b) (h : After r) : After (b :: r) := by
  intro k h1 h2 hp
  cases k with
  | zero => omega
  | succ k =>
    cases k with
    | zero =>
      obtain ⟨c, hc1, hc2⟩ := hp
      simp at hc1; omega
    | succ k =>
      rw [isBoundary_cons_succ]
      apply h (k + 1) (by omega) (by simpa using h2)
      obtain ⟨c, hc1, hc2⟩ := hp
      exact ⟨c, by simpa using hc1, hc2⟩

theorem after_cons_low (b : Nat) (r : Bytes) (h0 : isBoundary r 0 = true) (h : After r) : After (b :: r) := by
  intro k h1 h2 hp
  cases k with
  | zero => omega
  | succ k =>
    rw [isBoundary_cons_succ]
    cases k with
    | zero => exact h0
    | succ k =>
      apply h (k + 1) (by omega) (by simpa using h2)
      obtain ⟨c, hc1, hc2⟩ := hp
      exact ⟨c, by simpa using hc1, hc2⟩

theorem cont_ge (b : Nat) (h : cont b = true) : 0x80 ≤ b := by
  unfold cont at h; simp at h; exact h.1

theorem validUtf8_good : ∀ n (D : Bytes), D.length ≤ n → validUtf8 D = true → isBoundary D 0 = true ∧ After D := by
  intro n
  induction n with
  | zero =>
    intro D hl _
    have : D = [] := List.length_eq_zero_iff.mp (by omega)
    subst this
    exact ⟨isBoundary_length [], after_nil⟩
  | succ n ih =>
    intro D hl hv
    cases D with
    | nil => exact ⟨isBoundary_length [], after_nil⟩
    | cons b0 rest =>
      unfold validUtf8 at hv
      by_cases h1 : b0 < 0x80
      · simp only [h1, if_true] at hv
        obtain ⟨g0, g1⟩ := ih rest (by simpa using hl) hv
        exact ⟨isBoundary_zero_cons _ _ (Or.inl h1), after_cons_low _ _ g0 g1⟩
      · simp only [h1, if_false] at hv
        by_cases h2 : (0xC2 ≤ b0 && b0 ≤ 0xDF) = true
        · simp only [h2, if_true] at hv
          have hb0 : 0xC2 ≤ b0 := by simp at h2; exact h2.1
          cases rest with
          | nil => simp at hv
          | cons b1 r =>
            simp only [Bool.and_eq_true] at hv
            obtain ⟨_, g1⟩ := ih r (by simp at hl; omega) hv.2
            exact ⟨isBoundary_zero_cons _ _ (Or.inr hb0),
              after_cons_high _ _ (by omega) (after_cons_high _ _ (cont_ge _ hv.1) g1)⟩
        · simp only [h2, if_false] at hv
          by_cases h3 : (0xE0 ≤ b0 && b0 ≤ 0xEF) = true
          · simp only [h3, if_true] at hv
            have hb0 : 0xE0 ≤ b0 := by simp at h3; exact h3.1
            match rest, hv, hl with
            | [], hv, _ => simp at hv
            | [_], hv, _ => simp at hv
            | b1 :: b2 :: r, hv, hl =>
              simp only [Bool.false_eq_true, if_false, Bool.and_eq_true] at hv
              obtain ⟨_, g1⟩ := ih r (by simp at hl; omega) hv.2
              have hb1 : 0x80 ≤ b1 := by
                have := hv.1.1
                split at this
                · simp at this; omega
                · split at this
                  · simp at this; omega
                  · exact cont_ge _ this
              exact ⟨isBoundary_zero_cons _ _ (Or.inr (by omega)),
                after_cons_high _ _ (by omega) (after_cons_high _ _ hb1 (after_cons_high _ _ (cont_ge _ hv.1.2) g1))⟩
          · simp only [h3, if_false] at hv
            by_cases h4 : (0xF0 ≤ b0 && b0 ≤ 0xF4) = true
            · simp only [h4, if_true] at hv
              have hb0 : 0xF0 ≤ b0 := by simp at h4; exact h4.1
              match rest, hv, hl with
              | [], hv, _ => simp at hv
              | [_], hv, _ => simp at hv
              | [_, _], hv, _ => simp at hv
              | b1 :: b2 :: b3 :: r, hv, hl =>
                simp only [Bool.false_eq_true, if_false, Bool.and_eq_true] at hv
                obtain ⟨_, g1⟩ := ih r (by simp at hl; omega) hv.2
                have hb1 : 0x80 ≤ b1 := by
                  have := hv.1.1.1
                  split at this
                  · simp at this; omega
                  · split at this
                    · simp at this; omega
                    · exact cont_ge _ this
                exact ⟨isBoundary_zero_cons _ _ (Or.inr (by omega)),
                  after_cons_high _ _ (by omega) (after_cons_high _ _ hb1
                    (after_cons_high _ _ (cont_ge _ hv.1.1.2) (after_cons_high _ _ (cont_ge _ hv.1.2) g1)))⟩
            · simp [h4] at hv

/-- positions 0 and after any byte below 0x80 are boundaries -/
theorem validUtf8_boundary (D : Bytes) (h : validUtf8 D = true) (k : Nat) (hk : k ≤ D.length)
    (hprev : k = 0 ∨ PrevAscii D k) : isBoundary D k = true := by
  obtain ⟨g0, g1⟩ := validUtf8_good D.length D (Nat.le_refl _) h
  rcases hprev with rfl | hp
  · exact g0
  · cases k with
    | zero => exact g0
    | succ k => exact g1 (k + 1) (by omega) hk hp

end Yo

namespace Yo

theorem validUtf8_append : ∀ n (A B : Bytes), A.length ≤ n → validUtf8 A = true → validUtf8 B = true → validUtf8 (A ++ B) = true := by
  intro n
  induction n with
  | zero =>
    intro A B hl _ hB
    have : A = [] := List.length_eq_zero_iff.mp (by omega)
    subst this; simpa using hB
  | succ n ih =>
    intro A B hl hA hB
    cases A with
    | nil => simpa using hB
    | cons b0 rest =>
      unfold validUtf8 at hA
      rw [List.cons_append]
      unfold validUtf8
      by_cases h1 : b0 < 0x80
      · simp only [h1, if_true] at hA ⊢
        exact ih rest B (by simpa using hl) hA hB
      · simp only [h1, if_false] at hA ⊢
        by_cases h2 : (0xC2 ≤ b0 && b0 ≤ 0xDF) = true
        · simp only [h2, if_true] at hA ⊢
          cases rest with
          | nil => simp at hA
          | cons b1 r =>
            simp only [Bool.and_eq_true, List.cons_append] at hA ⊢
            exact ⟨hA.1, ih r B (by simp at hl; omega) hA.2 hB⟩
        · simp only [h2] at hA ⊢
          by_cases h3 : (0xE0 ≤ b0 && b0 ≤ 0xEF) = true
          · simp only [h3, if_true] at hA ⊢
            match rest, hA, hl with
            | [], hA, _ => simp at hA
            | [_], hA, _ => simp at hA
            | b1 :: b2 :: r, hA, hl =>
              simp only [Bool.false_eq_true, if_false, Bool.and_eq_true, List.cons_append] at hA ⊢
              exact ⟨hA.1, ih r B (by simp at hl; omega) hA.2 hB⟩
          · simp only [h3] at hA ⊢
            by_cases h4 : (0xF0 ≤ b0 && b0 ≤ 0xF4) = true
            · simp only [h4, if_true] at hA ⊢
              match rest, hA, hl with
              | [], hA, _ => simp at hA
              | [_], hA, _ => simp at hA
              | [_, _], hA, _ => simp at hA
              | b1 :: b2 :: b3 :: r, hA, hl =>
                simp only [Bool.false_eq_true, if_false, Bool.and_eq_true, List.cons_append] at hA ⊢
                exact ⟨hA.1, ih r B (by simp at hl; omega) hA.2 hB⟩
            · simp [h4] at hA

end Yo
