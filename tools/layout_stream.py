#!/usr/bin/env python3
"""S-LAYOUT: the same program text in different layouts (LF / CRLF / bare-CR line ends, comments of the three kinds and
blank space between statements, redundant parentheses) through the real binary, FILE path included: the final state
printed must be the one the plain LF version prints.  Lines `<request>\t<observed result>` like the Rust harness."""
import os
import random
import shutil
import subprocess

BASES = [
    ["register cC { n:8 = 0; }", "c_n = C_n + 1;", "pc = 0;", "wire a : 64;", "a = (0b00000000000000000000000000000000000000000000000100000000 .. C_n) * 3;", "reg_dstE = 0;", "reg_inputE = a;",
     "Stat = [C_n == 3 : STAT_HLT; 1 : STAT_AOK];"],
    ["register fF { pc : 64 = 0; }", "pc = F_pc;", "f_pc = F_pc + 1;", "wire hi : 4, lo : 4;", "hi = i10bytes[4..8];", "lo = i10bytes[0..4];",
     "reg_dstE = REG_RCX;", "wire both : 64;", "both = (0b00000000000000000000000000000000000000000000000000000111 .. (hi .. lo));", "reg_inputE = both;", "Stat = [ F_pc == 2 : STAT_HLT; 1 : STAT_AOK ];"],
    ["const K = 5, L = K + 2;", "register xY { v : 16 = L; }", "x_v = Y_v + K;", "pc = 0;", "mem_addr = 0x40;", "mem_writebit = 1;", "mem_readbit = 0;",
     "mem_input = (0b000000000000000000000000000000000000000000000000 .. Y_v) + 1;", "Stat = [ Y_v > 20 : STAT_HLT; 1 : STAT_AOK ];"],
]
COMMENTS = [b"# a comment", b"// another one; with = signs", b"#", b"//", "# caf\u00e9".encode(), b"/* block */", b"/* a = 1; */",
            b"# caf\xe9 (Latin-1)", b"// \xff\xfe not UTF-8 at all", b"/** doc **/", b"/**/", b"/* ** */", b"/***/"]


def render(rnd, stmts, eol, decorate):
    out = []
    eol = eol.encode()
    for st in stmts:
        st = st.encode()
        if decorate:
            r = rnd.random()
            if r < 0.35:
                out.append(rnd.choice(COMMENTS))
            elif r < 0.5:
                out.append(rnd.choice([b"", b"   ", b"\t"]))
            elif r < 0.6:
                st = st + b" " + rnd.choice([c for c in COMMENTS if c[:2] != b"/*"])
            elif r < 0.7:
                st = rnd.choice([c for c in COMMENTS if c[:2] == b"/*"]) + b" " + st.replace(b" = ", b" =\t", 1)
        out.append(st)
    text = eol.join(out)
    if rnd.random() < 0.7:
        text += eol
    return text


def generate(binary, seed, count, outfile, workdir):
    rnd = random.Random(seed)
    shutil.rmtree(workdir, ignore_errors=True)
    os.makedirs(workdir)
    open(os.path.join(workdir, "h.yo"), "w").write("0x000: 30f40001000000000000 |   irmovq $256, %rsp\n0x00a: 00                   |   halt\n")

    def run(text):
        open(os.path.join(workdir, "f.hcl"), "wb").write(text if isinstance(text, bytes) else text.encode("utf-8"))
        try:
            p = subprocess.run([binary, "-q", "f.hcl", "h.yo", "12"], cwd=workdir, stdin=subprocess.DEVNULL, stdout=subprocess.PIPE,
                               stderr=subprocess.PIPE, timeout=60)
            return p.returncode, p.stdout.decode("utf-8", "replace"), p.stderr.decode("utf-8", "replace")
        except subprocess.TimeoutExpired:
            return -1, "", "timeout"
    base_out = [run("\n".join(b) + "\n") for b in BASES]
    with open(outfile, "w", encoding="utf-8") as f:
        for i in range(count):
            k = rnd.randrange(len(BASES))
            eol = rnd.choice(["\n", "\r\n", "\r", "\r", "\n\n", "\r\r"])
            decorate = rnd.random() < 0.8
            text = render(rnd, BASES[k], eol, decorate)
            rc, out, err = run(text)
            brc, bout, _ = base_out[k]
            if brc != 0 or "halted in state" not in bout:
                impl = "BASE-BROKEN rc=%d" % brc
            elif (rc, out) == (brc, bout):
                impl = "same"
            else:
                impl = "DIFF rc=%d instead of %d; stderr: %s" % (rc, brc, err.strip().replace("\n", " | ")[:200])
            name = {"\n": "lf", "\r\n": "crlf", "\r": "cr", "\n\n": "lflf", "\r\r": "crcr"}[eol]
            f.write("(layout (base %d) (eol %s) (decorated %d) (hex %s))\t%s\n" % (k, name, 1 if decorate else 0, text.hex(), impl))
