import Hcl.Proofs.FlagMono
import Hcl.Theorems.C17
open Rust

/-!
# C17 — each strictness option only adds the check it names

`Flags.le fl fl'`: every option that is on in `fl` is on in `fl'`.  What the stricter set accepts the laxer set accepts,
with the same width and -- for whole programs -- the same program; what the laxer set accepts and the stricter one
rejects is rejected with diagnostics of the options that differ, and only those.  (`EnvTyped Γ κ`: the constants have
the widths the table records for them; it holds at every call of the checker inside `Program::new`.  Without it the
statement is false for the arithmetic option, because that option also makes evaluation refuse operands of different
widths, which can change which case conditions are constant-true: `FlagMonoCex.m1_fails`, `m2_fails`.)
-/

theorem C17_option_only_adds_checks (fl fl' : Flags) (hle : Flags.le fl fl') (Γ : Ctx) (κ : Env) (hκ : EnvTyped Γ κ) (e : Ex)
    (w : Width) (h : check fl' Γ κ e = .ok w) : check fl Γ κ e = .ok w :=
  check_flag_mono fl fl' hle Γ κ hκ e w h

theorem C17_option_changes_exactly_its_check (fl fl' : Flags) (hle : Flags.le fl fl') (Γ : Ctx) (κ : Env) (hκ : EnvTyped Γ κ)
    (e : Ex) (w : Width) (ds : List Diag) (h : check fl Γ κ e = .ok w) (h' : check fl' Γ κ e = .error ds) :
    ds ≠ [] ∧ ∀ d ∈ ds, d.kind ∈ flagKinds fl fl' :=
  check_flag_exact fl fl' hle Γ κ hκ e w ds h h'

/-- a statement list accepted under stricter options is accepted under laxer ones, as the same program -/
theorem C17_accepted_monotone (fl fl' : Flags) (hle : Flags.le fl fl') (cls : CharClass) (o : Orders) (stmts : List Stmt)
    (ho : OrdersOK o) (hwf : StmtsWF stmts) (p' : Program) (h' : Program.new fl' cls o y86FixedFunctions stmts = .ok p') :
    Program.new fl cls o y86FixedFunctions stmts = .ok p' :=
  Program_new_flag_mono fl fl' hle cls o stmts ho hwf p' h'

/-- every option set accepts what the strictest set accepts, and rejects what the laxest set rejects -/
theorem C17_strictest_and_laxest (fl : Flags) (cls : CharClass) (o : Orders) (stmts : List Stmt) (ho : OrdersOK o)
    (hwf : StmtsWF stmts) :
    (∀ p, Program.new ⟨true, true, true, true, true⟩ cls o y86FixedFunctions stmts = .ok p →
      Program.new fl cls o y86FixedFunctions stmts = .ok p) ∧
    (∀ p, Program.new fl cls o y86FixedFunctions stmts = .ok p →
      Program.new ⟨false, false, false, false, false⟩ cls o y86FixedFunctions stmts = .ok p) := by
  constructor
  · intro p h
    exact Program_new_flag_mono fl _ ⟨fun _ => rfl, fun _ => rfl, fun _ => rfl, fun _ => rfl, fun _ => rfl⟩ cls o stmts ho hwf p h
  · intro p h
    have hle : Flags.le ⟨false, false, false, false, false⟩ fl :=
      ⟨fun h => Bool.noConfusion h, fun h => Bool.noConfusion h, fun h => Bool.noConfusion h, fun h => Bool.noConfusion h,
       fun h => Bool.noConfusion h⟩
    exact Program_new_flag_mono _ fl hle cls o stmts ho hwf p h

#print axioms C17_accepted_monotone
#print axioms C17_option_changes_exactly_its_check
