import Hcl.Proofs.ConstErrors
import Hcl.Proofs.NoLoopStages
open Rust

/-! Exactly when `resolve_constants` succeeds: the definitions do not depend on themselves, and there is a table in which
    every definition passes the width checker and evaluates to its own entry.  The accepted table is then determined by
    the definitions. -/

/-- u is read by the definition of constant v -/
def ConstDep (exprs : AMap Ex) (u v : String) : Prop := ∃ e, (v, e) ∈ exprs ∧ u ∈ refs e

/-! ### a relation that strictly increases a rank has no cycle -/

theorem relPath_rank (R : Node → Node → Prop) (f : Node → Nat) (h : ∀ u v, R u v → f u < f v) :
    ∀ (t : List Node) (a : Node), RelPath R (a :: t) → f a ≤ f ((a :: t).getLast!)
  | [], a, _ => Nat.le_refl _
  | b :: t, a, hp => by
    have h1 : f a < f b := h a b hp.1
    have h2 := relPath_rank R f h t b hp.2
    have h3 : (a :: b :: t).getLast! = (b :: t).getLast! := rfl
    rw [h3]
    omega

theorem no_relCycle_of_rank (R : Node → Node → Prop) (f : Node → Nat) (h : ∀ u v, R u v → f u < f v) (c : List Node) :
    ¬ RelCycle R c := by
  intro hc
  cases c with
  | nil => exact hc
  | cons a t =>
    have h1 := relPath_rank R f h t a hc.1
    have h2 := h _ _ hc.2
    omega

theorem idxOf_lt_of_split (order pre post : List Node) (u v : Node) (hnd : order.Nodup) (hs : order = pre ++ v :: post)
    (hu : u ∈ pre) : order.idxOf u < order.idxOf v := by
  subst hs
  have hv : v ∉ pre := by
    intro hv
    exact (List.nodup_append.mp hnd).2.2 v hv v List.mem_cons_self rfl
  rw [List.idxOf_append, List.idxOf_append]
  simp only [hu, hv, if_true, if_false, List.idxOf_cons_self]
  have := List.idxOf_lt_length_of_mem hu
  omega

/-- a list without repetitions in which everything related to an element comes before it leaves the relation no cycle
    (`R u v` needs `v` to be in the list) -/
theorem no_relCycle_of_order (R : Node → Node → Prop) (order : List Node) (hnd : order.Nodup)
    (hin : ∀ u v, R u v → v ∈ order)
    (htopo : ∀ pre x post, order = pre ++ x :: post → ∀ u, R u x → u ∈ pre) (c : List Node) : ¬ RelCycle R c := by
  apply no_relCycle_of_rank R (fun x => order.idxOf x)
  intro u v huv
  obtain ⟨pre, post, hs⟩ := List.append_of_mem (hin u v huv)
  exact idxOf_lt_of_split order pre post u v hnd hs (htopo pre v post hs u huv)

/-! ### the graph of the constants -/

/-- what the two directions need to know about the graph of the constants and its sorting -/
theorem constGraph_facts (o : Orders) (exprs : AMap Ex) (ho : OrdersOK o) (hk : exprs.keys.Nodup)
    (hrefs : ∀ p ∈ exprs, ∀ r ∈ refs p.2, exprs.contains r = true) :
    (∀ order, (constGraph exprs).sort o = .ok order →
      order.Nodup ∧ (∀ n ∈ order, (exprs.get? n).isSome = true) ∧ (∀ n e, exprs.get? n = some e → n ∈ order) ∧
      (∀ pre x post, order = pre ++ x :: post → ∀ u, ConstDep exprs u x → u ∈ pre)) ∧
    (∀ cy, (constGraph exprs).sort o = .cycle cy → RelCycle (ConstDep exprs) cy) ∧
    (constGraph exprs).sort o ≠ .panic := by
  have gerev := constGraphFrom_edges_rev exprs {} GBuild.wf_empty hk (by intro p _ e he; simp at he)
  obtain ⟨gwf, gkeys, gupper⟩ := constGraphFrom_spec exprs {} GBuild.wf_empty hk (by intro p _ e he; simp at he)
  have gedges := constGraphFrom_edges exprs {} GBuild.wf_empty hk (by intro p _ e he; simp at he)
  rw [← constGraph_eq] at gwf gkeys gupper gedges gerev
  have hnodes : ∀ n ∈ (constGraph exprs).nodes, (exprs.get? n).isSome = true := by
    intro n hn
    rw [AMap.get?_isSome_iff_contains]
    rcases gupper n hn with h | ⟨p, hp, h | h⟩
    · simp at h
    · rw [h]; exact (AMap.contains_iff_mem_keys _ _).mpr (List.mem_map.mpr ⟨p, hp, rfl⟩)
    · exact hrefs p hp n h
  refine ⟨?_, ?_, (constGraph exprs).sort_ne_panic o gwf ho⟩
  · intro order hs
    rcases (constGraph exprs).sort_spec o gwf ho with ⟨order', hso, hnd, hcover, htopo⟩ | ⟨c, hsc, _⟩
    · rw [hs] at hso; cases hso
      refine ⟨hnd, fun n hn => hnodes n ((hcover n).mp hn), ?_, ?_⟩
      · intro n e he
        exact (hcover n).mpr (gkeys (n, e) (AMap.mem_of_get? _ _ _ he))
      · intro pre x post hsplit u hux
        obtain ⟨e, he, hu⟩ := hux
        exact htopo pre x post hsplit u (gedges (u, x) (Or.inr ⟨(x, e), he, rfl, hu⟩))
    · rw [hs] at hsc; cases hsc
  · intro cy hs
    rcases (constGraph exprs).sort_spec o gwf ho with ⟨order', hso, _⟩ | ⟨c, hsc, hcyc⟩
    · rw [hs] at hso; cases hso
    · rw [hs] at hsc; cases hsc
      apply relCycle_mono _ cy ((constGraph exprs).cycle_edges o ho cy hcyc)
      intro u v huv
      rcases gerev (u, v) huv with h1 | ⟨p, hp, h1, h2⟩
      · simp at h1
      · exact ⟨p.2, by rw [show v = p.1 from h1]; exact hp, h2⟩

/-- the sorter returns an order exactly when the definitions do not depend on themselves -/
theorem constGraph_sort_ok_iff (o : Orders) (exprs : AMap Ex) (ho : OrdersOK o) (hk : exprs.keys.Nodup)
    (hrefs : ∀ p ∈ exprs, ∀ r ∈ refs p.2, exprs.contains r = true) :
    (∃ order, (constGraph exprs).sort o = .ok order) ↔ ¬ ∃ cy, RelCycle (ConstDep exprs) cy := by
  obtain ⟨f1, f2, f3⟩ := constGraph_facts o exprs ho hk hrefs
  constructor
  · rintro ⟨order, hs⟩ ⟨cy, hcy⟩
    obtain ⟨hnd, _, hin, htopo⟩ := f1 order hs
    apply no_relCycle_of_order (ConstDep exprs) order hnd _ htopo cy hcy
    intro u v huv
    obtain ⟨e, he, _⟩ := huv
    exact hin v e (AMap.get?_of_mem_nodup _ _ _ hk he)
  · intro hac
    cases hs : (constGraph exprs).sort o with
    | ok order => exact ⟨order, rfl⟩
    | cycle cy => exact absurd ⟨cy, f2 cy hs⟩ hac
    | panic => exact absurd hs f3

/-! ### a table that satisfies every definition is what the loop computes -/

/-- along any order the sorter returns, the loop records no error and reproduces the entries of a table in which every
    definition evaluates to its own entry -/
theorem resolveLoop_table (fl : Flags) (o : Orders) (exprs : AMap Ex) (ho : OrdersOK o)
    (hk : exprs.keys.Nodup) (hrefs : ∀ p ∈ exprs, ∀ r ∈ refs p.2, exprs.contains r = true)
    (R : AMap WireValue) (hR : ∀ n e, exprs.get? n = some e → ∃ v, R.get? n = some v ∧ constVal fl R e = .ok v)
    (order : List Node) (hs : (constGraph exprs).sort o = .ok order) :
    (resolveLoop fl exprs order [] []).2 = [] ∧
    ∀ n e, exprs.get? n = some e → (resolveLoop fl exprs order [] []).1.get? n = R.get? n := by
  obtain ⟨f1, _, _⟩ := constGraph_facts o exprs ho hk hrefs
  obtain ⟨hnd, hsome, hin, htopo⟩ := f1 order hs
  have hdeps : DepsDone exprs order [] := by
    intro pre n post hsplit e he x hx
    right
    exact htopo pre n post hsplit x ⟨e, AMap.mem_of_get? _ _ _ he, hx⟩
  have hRall : ∀ n, (exprs.get? n).isSome = true → R.get? n = constEntry fl exprs R n := by
    intro n hn
    obtain ⟨e, he⟩ := Option.isSome_iff_exists.mp hn
    obtain ⟨v, hv, hc⟩ := hR n e he
    unfold constEntry
    rw [he]
    simp only [hc]
    exact hv
  obtain ⟨b1, b2⟩ := resolveLoop_follow' fl exprs R hRall order [] [] [] hsome hnd
    (by intro n _ h; cases h) (by intro k hk'; simp [AMap.contains] at hk') hdeps (by intro k hk'; cases hk')
  refine ⟨?_, fun n e he => b2 n (Or.inr (hin n e he))⟩
  rw [b1, List.nil_append, List.flatMap_eq_nil_iff]
  intro n hn
  obtain ⟨e, he⟩ := Option.isSome_iff_exists.mp (hsome n hn)
  obtain ⟨v, _, hc⟩ := hR n e he
  unfold constErrs
  rw [he]
  simp only [hc]

/-- **exactly when `resolve_constants` succeeds**: no constant depends on itself, and some table gives every constant a
    value that its definition, checked and evaluated in that table, yields -/
theorem resolveConstants_ok_iff (fl : Flags) (o : Orders) (exprs : AMap Ex) (ho : OrdersOK o)
    (hk : exprs.keys.Nodup) (hrefs : ∀ p ∈ exprs, ∀ r ∈ refs p.2, exprs.contains r = true) :
    (∃ c, resolveConstants fl o exprs = .ok c) ↔
      ((¬ ∃ cy, RelCycle (ConstDep exprs) cy) ∧
       ∃ R : AMap WireValue, ∀ n e, exprs.get? n = some e → ∃ v, R.get? n = some v ∧ constVal fl R e = .ok v) := by
  constructor
  · rintro ⟨c, h⟩
    refine ⟨?_, c, resolveConstants_rules fl o exprs ho hk hrefs c h⟩
    apply (constGraph_sort_ok_iff o exprs ho hk hrefs).mp
    unfold resolveConstants at h
    cases hs : (constGraph exprs).sort o with
    | ok order => exact ⟨order, rfl⟩
    | cycle cy => rw [hs] at h; cases h
    | panic => rw [hs] at h; cases h
  · rintro ⟨hac, R, hR⟩
    obtain ⟨order, hs⟩ := (constGraph_sort_ok_iff o exprs ho hk hrefs).mpr hac
    obtain ⟨a1, _⟩ := resolveLoop_table fl o exprs ho hk hrefs R hR order hs
    refine ⟨canonConsts exprs (resolveLoop fl exprs order [] []).1, ?_⟩
    unfold resolveConstants
    rw [hs]
    simp only
    rw [a1]
    simp only [List.isEmpty_nil, if_true]

/-- **the accepted table is determined by the definitions**: it agrees on every constant with any table in which every
    definition evaluates to its own entry -/
theorem resolveConstants_table (fl : Flags) (o : Orders) (exprs : AMap Ex) (ho : OrdersOK o)
    (hk : exprs.keys.Nodup) (hrefs : ∀ p ∈ exprs, ∀ r ∈ refs p.2, exprs.contains r = true)
    (R : AMap WireValue) (hR : ∀ n e, exprs.get? n = some e → ∃ v, R.get? n = some v ∧ constVal fl R e = .ok v)
    (c : AMap WireValue) (h : resolveConstants fl o exprs = .ok c) :
    ∀ n e, exprs.get? n = some e → c.get? n = R.get? n := by
  intro n e he
  unfold resolveConstants at h
  cases hs : (constGraph exprs).sort o with
  | cycle cy => rw [hs] at h; cases h
  | panic => rw [hs] at h; cases h
  | ok order =>
    obtain ⟨_, a2⟩ := resolveLoop_table fl o exprs ho hk hrefs R hR order hs
    rw [hs] at h
    simp only at h
    split at h
    · simp only [Except.ok.injEq] at h
      rw [← h, canonConsts_get?]
      have hc : exprs.contains n = true := by
        rw [← AMap.get?_isSome_iff_contains, he]; rfl
      rw [if_pos hc]
      exact a2 n e he
    · cases h

/-- **uniqueness, stated without the program**: when no constant depends on itself, two tables in which every definition
    evaluates to its own entry agree on every constant -/
theorem constTable_unique (fl : Flags) (exprs : AMap Ex)
    (hk : exprs.keys.Nodup) (hrefs : ∀ p ∈ exprs, ∀ r ∈ refs p.2, exprs.contains r = true)
    (hac : ¬ ∃ cy, RelCycle (ConstDep exprs) cy)
    (R₁ R₂ : AMap WireValue)
    (h₁ : ∀ n e, exprs.get? n = some e → ∃ v, R₁.get? n = some v ∧ constVal fl R₁ e = .ok v)
    (h₂ : ∀ n e, exprs.get? n = some e → ∃ v, R₂.get? n = some v ∧ constVal fl R₂ e = .ok v) :
    ∀ n e, exprs.get? n = some e → R₁.get? n = R₂.get? n := by
  intro n e he
  have ho : OrdersOK {} := ⟨fun l => .refl l, fun _ l => .refl l, fun l => .refl l, fun _ l => .refl l⟩
  obtain ⟨c, hc⟩ := (resolveConstants_ok_iff fl {} exprs ho hk hrefs).mpr ⟨hac, R₁, h₁⟩
  rw [← resolveConstants_table fl {} exprs ho hk hrefs R₁ h₁ c hc n e he,
    resolveConstants_table fl {} exprs ho hk hrefs R₂ h₂ c hc n e he]

#print axioms resolveConstants_table
#print axioms resolveConstants_ok_iff
