"""C12 — results are deterministic: same inputs, same output, on every run."""
from props import C14
import os
import framework as fw
import repeat_stream
from props.common_prog import judge_prog

_binary = {}


def pygen_repeat(seed, count, outfile):
    if "b" not in _binary:
        ok, out, b = fw.build_binary()
        if not ok:
            raise RuntimeError("cargo build of /repo failed: " + out[-1500:])
        _binary["b"] = b
    repeat_stream.generate(_binary["b"], seed, count, outfile, os.path.join(fw.BUILD, "repeat-work-%d" % os.getpid()))


def judge_repeat(req, impl, model, spec):
    ok = impl == "same"
    return {"corr": True, "oracle": ok, "key": req, "cats": [req.split("(prog ")[1].split(")")[0] + "/" + req.split("(mode ")[1].split(")")[0]],
            "what": "" if ok else "the same file and image gave different exit status or standard output on different runs: " + impl}


THEOREM_MODULES = ["Hcl.Theorems.C12", "Hcl.Theorems.C12Reorder", "Hcl.Theorems.C12Rename", "Hcl.Tie.PinsBuild", "Hcl.Theorems.C12Render", "Hcl.Tie.PinsErrors"]
THEOREMS = {"Hcl.Tie.PinsErrors": ["Tie.PinsErrors.pinFindCloseNames", "Tie.PinsErrors.pinFormatForContents"],
            "Hcl.Theorems.C12Render": ["C12_batch_text_blocks", "C12_batch_text_length"],
            "Hcl.Theorems.C12Rename": ["C12_rename_verdict", "C12_rename_exact", "C12_rename_cycle", "C12_rename_run", "Program_new_rename_report", "topologicalSort_rename"],
            "Hcl.Theorems.C12Reorder": ["C12_reorder_verdict", "C12_reorder_program", "C12_reorder_cycle", "C12_reorder_run", "Program_new_perm_runN", "Program_new_perm_init", "Reorder.processBanks_perm", "Reorder.step1Of_perm"],
            "Hcl.Theorems.C12": ["C12_verdict_order_independent", "C12_rejected_on_every_run", "C12_diagnostics_order_independent",
                                 "Program_new_errors_order_independent", "resolveConstants_errors_order_independent", "assignmentsToActions_errors_order_independent", "C12_constants_order_independent",
                                 "C12_accepted", "C12_cycle", "C12_run", "C12_report",
                                 "C12_loop_verdict_order_independent", "C12_values_schedule_independent",
                                 "Program_new_verdict", "resolveConstants_order_independent", "assignmentsToActions_verdict",
                                 "assignmentsToActions_order_independent", "runLoop_stateEq", "execAction_congr",
                                 "check_congr", "fixMux_congr", "canonConsts_ext", "ordersOK_rev",
                                 "C01_order_independent", "settled_unique", "C10_cycle_iff"],
            "Hcl.Tie.PinsBuild": ["Tie.PinsBuild.pinProgramNew", "Tie.PinsBuild.pinResolveConstants", "Tie.PinsBuild.pinPreprocessFixed", "Tie.PinsBuild.pinAssignmentsToActions"]}

RULE = ("S-PROG (all profiles) and the fault/loop-injection streams with every program built and run 8 times in-process, "
        "each build with fresh random hash seeds in every internal table: all runs must give identical results (every wire "
        "value, register, memory byte and status of every cycle; for rejected programs the same multiset of diagnostic "
        "kinds and names, loop contents excepted); the number of distinct schedules actually observed per program is "
        "recorded; the multi-fault stream plants two or three independent faulty expressions, all of which every build must report. S-REORDER: every generated program (one in five with an injected fault) is also run with its statements shuffled and with every declared wire and constant renamed (ASCII, upper-case and non-ASCII names): acceptance, the diagnostics (kinds and names; kinds only under renaming), and every wire value, register, memory byte and status of every cycle must be the same up to the renaming. S-REPEAT: the real binary twelve times (fresh hash seeds per process) on an accepted, a multi-bank, a rejected and two aborting programs in the default, -q and -t modes: exit status and standard output must be byte-identical. S-DUMP: the printed state of designs with up to six register banks (several with letters outside PFDEMW, which the code keeps in hash maps) is compared with the one text the model prints. distinct = distinct program texts; non-trivial = programs for which at least two different schedules or "
        "a rejection were observed.")


def judge(req, impl, model, spec):
    j = judge_prog(req, impl, model, spec)
    multi = any(c.startswith("distinct-schedules-") and not c.endswith("-1") for c in j["cats"])
    if not (multi or impl.startswith("rej")):
        j["key"] = None
    return j


def judge_reorder(req, impl, model, spec):
    if impl.startswith("REORDER-DIFF") or impl.startswith("RENAME-DIFF"):
        return {"corr": False, "oracle": False, "key": req, "cats": [impl.split(" ")[0]],
                "what": ("reordering the statements" if impl.startswith("REORDER") else "renaming the wires") +
                        " changed the result: " + impl[:600]}
    j = judge_prog(req, impl, model, spec)
    j["cats"] = [c for c in j["cats"] if not c.startswith("distinct-schedules")] + ["reordered-and-renamed"]
    return j


def streams(tier, seed):
    q = tier == "quick"
    out = []
    for p in ("dag", "banks", "regfile", "memory", "status"):
        out.append({"name": "prog-" + p, "stream": "prog", "count": 120 if q else 5000, "extra": (p,), "judge": judge})
    out.append({"name": "prog-fault", "stream": "prog-fault", "count": 400 if q else 15000, "judge": judge})
    out.append({"name": "prog-loop", "stream": "prog-loop", "count": 400 if q else 15000, "judge": judge})
    out.append({"name": "prog-multi", "stream": "prog-multi", "count": 300 if q else 10000, "judge": judge})
    out.append({"name": "repeat", "stream": "repeat", "count": 30 if q else 600, "pygen": pygen_repeat, "judge": judge_repeat})
    out.append({"name": "reorder", "stream": "reorder", "count": 400 if q else 20000, "judge": judge_reorder})
    # printed output: the state dump of designs with up to six register banks (letters outside P F D E M W included)
    # must be the one deterministic text the model prints (fixed bank order, sorted letters for the rest)
    from props import C16
    out.append({"name": "dump", "stream": "dump", "count": 600 if q else 30000, "judge": C16.judge})
    # the -d wire table (its rows come out of a hash map and are sorted; names differing only in case included) must be
    # the one text the model prints
    from props import C18
    out.append({"name": "table", "stream": "table", "count": 400 if q else 20000, "judge": C18.judge_table})
    # the text of the diagnostics, byte for byte against the model of errors.rs (as in C14)
    out.append({"name": "render", "stream": "render", "count": 800 if q else 20000, "judge": C14.judge_render})
    return out
