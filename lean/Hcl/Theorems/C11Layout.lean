import Hcl.Proofs.ParseLayout
import Hcl.Proofs.ParseParens
import Hcl.Proofs.LexLayout
import Hcl.Proofs.LexLocal
open Parser Lexer

/-!
# C11 — comments, blank space, line-ending style and redundant parentheses never change the meaning

Three layers, for the lexer model `Lexer.lex` and the parser models `Parser.parseTier` / `Parser.parseProgram`:

1. **Positions do not steer the parser** (`C11_same_tokens_same_meaning`): two texts that lex to the same sequence of
   token kinds are parsed to the same statements, whatever the positions of the tokens are.
2. **Layout yields no token and hides none** (`C11_layout_in_front`, `C11_layout_after_token` and their instances
   for blank space, comments and line ends): text that the lexer skips can be put in front of the program text, and
   after every token -- where it does not glue to that token: `Lexer.Agree` -- without changing the token kinds.
3. **Redundant parentheses** (`C11_redundant_parens*`): a complete expression in an extra pair of parentheses is a
   `SimpleTerm`, hence an expression of every tier, with the very same tree.
-/

/-! ### 1. positions do not steer the parser -/

/-- the expression parser: same token kinds, same tree up to spans, rests of the same kinds -/
theorem C11_spans_do_not_steer_expressions (f k : Nat) (ts ts' : Toks) (h : kinds ts = kinds ts') :
    Option.map (fun r => (r.1.erase, kinds r.2.2.2)) (parseTier f k ts) =
      Option.map (fun r => (r.1.erase, kinds r.2.2.2)) (parseTier f k ts') :=
  Parser.parseTier_kinds f k ts ts' h

/-- the statement parser: same token kinds, same statements -/
theorem C11_spans_do_not_steer_statements (f : Nat) (ts ts' : Toks) (h : kinds ts = kinds ts') :
    parseStmts f ts = parseStmts f ts' :=
  Parser.parseStmts_kinds f ts ts' h

/-- **two texts that lex to the same sequence of token kinds mean the same** -/
theorem C11_same_tokens_same_meaning (cls : CharCls) (t1 t2 : List Char) (ts1 ts2 : Toks)
    (h1 : tokensOf (lex cls t1) = some ts1) (h2 : tokensOf (lex cls t2) = some ts2) (h : kinds ts1 = kinds ts2) :
    parseProgram cls t1 = parseProgram cls t2 :=
  Parser.parseProgram_kinds cls t1 t2 ts1 ts2 h1 h2 h

/-! ### 2. layout -/

/-- what the lexer skips: blank characters, block comments, line comments up to their line end -- and any sequence of
    these -/
theorem C11_skipped_text (cls : CharCls) (hcls : PunctCls cls) :
    (∀ b, Skips cls [] b) ∧
    (∀ w1 w2 b, Skips cls w1 (w2 ++ b) → Skips cls w2 b → Skips cls (w1 ++ w2) b) ∧
    (∀ ws b, (∀ c ∈ ws, cls.isWhitespace c = true) → Skips cls ws b) ∧
    (∀ body b, NoClose ('*' :: body) → Skips cls ('/' :: '*' :: (body ++ ['*', '/'])) b) ∧
    (∀ body nl rest, (∀ c ∈ body, c ≠ '\n' ∧ c ≠ '\r') → nl = '\n' ∨ nl = '\r' → Skips cls ('#' :: body) (nl :: rest)) ∧
    (∀ body, (∀ c ∈ body, c ≠ '\n' ∧ c ≠ '\r') → Skips cls ('#' :: body) []) ∧
    (∀ body nl rest, (∀ c ∈ body, c ≠ '\n' ∧ c ≠ '\r') → nl = '\n' ∨ nl = '\r' →
      Skips cls ('/' :: '/' :: body) (nl :: rest)) :=
  ⟨skips_nil cls, fun _ _ _ h1 h2 => skips_append h1 h2, fun ws b h => skips_blanks ws h b,
    fun body b h => skips_block_comment hcls body h b, fun body nl rest h1 h2 => skips_hash_comment hcls body nl rest h1 h2,
    fun body h => skips_hash_comment_eof hcls body h, fun body nl rest h1 h2 => skips_slash_comment hcls body nl rest h1 h2⟩

/-- **layout in front of the program text** moves all tokens by its length and changes nothing else -/
theorem C11_layout_in_front (cls : CharCls) (w b : List Char) (hw : Skips cls w b) :
    ((tokensOf (lex cls b) = none ∧ tokensOf (lex cls (w ++ b)) = none) ∨
      ∃ ts, tokensOf (lex cls b) = some ts ∧ tokensOf (lex cls (w ++ b)) = some (shiftToks (sizeOf' w) ts)) ∧
    parseProgram cls (w ++ b) = parseProgram cls b :=
  ⟨tokens_insert_front cls w b hw, parseProgram_insert_front cls w b hw⟩

/-- **any two layouts after a token are interchangeable** (insertion: `w1 = []`; removal: `w2 = []`): the lexer reads
    `a`, then `p` in one turn, arrives in front of `w1 ++ b` and skips `w1`; it also skips `w2` in front of `b`, and
    `w2 ++ b` starts like `w1 ++ b`, or with a separator that does not glue to `p` -/
theorem C11_layout_after_token (cls : CharCls) (a p w1 w2 b : List Char) (pre : List Item) (o1 : Nat)
    (items : List Item) (o2 : Nat) (hrun : Run cls (sizeOf' ((a ++ p) ++ (w1 ++ b))) (p ++ (w1 ++ b)) a 0 pre o1)
    (hstep : lexStep cls (sizeOf' ((a ++ p) ++ (w1 ++ b))) (p ++ (w1 ++ b)) o1 = .more items (w1 ++ b) o2)
    (ha : Agree cls p (w1 ++ b) (w2 ++ b)) (hw1 : Skips cls w1 b) (hw2 : Skips cls w2 b) :
    tokenKinds cls ((a ++ p) ++ (w2 ++ b)) = tokenKinds cls ((a ++ p) ++ (w1 ++ b)) ∧
    parseProgram cls ((a ++ p) ++ (w2 ++ b)) = parseProgram cls ((a ++ p) ++ (w1 ++ b)) :=
  ⟨tokenKinds_replace_layout cls a p w1 w2 b pre o1 items o2 hrun hstep ha hw1 hw2,
    parseProgram_replace_layout cls a p w1 w2 b pre o1 items o2 hrun hstep ha hw1 hw2⟩

/-- **ASCII blank space between two tokens** (after `p`, which is not a line comment -- or else the blank space starts
    with a line end) -/
theorem C11_blank_between_tokens (a p b : List Char) (c : Char) (ws : List Char) (pre : List Item)
    (o1 : Nat) (items : List Item) (o2 : Nat)
    (hrun : Run asciiCls (sizeOf' ((a ++ p) ++ b)) (p ++ b) a 0 pre o1)
    (hstep : lexStep asciiCls (sizeOf' ((a ++ p) ++ b)) (p ++ b) o1 = .more items b o2)
    (hws : ∀ x ∈ c :: ws, asciiCls.isWhitespace x = true) (hlc : IsNl c ∨ ¬ LineComment p) :
    parseProgram asciiCls ((a ++ p) ++ ((c :: ws) ++ b)) = parseProgram asciiCls ((a ++ p) ++ b) :=
  parseProgram_insert_blank_ascii a p b c ws pre o1 items o2 hrun hstep hws hlc

/-- **a block comment after a token** other than the division sign -/
theorem C11_block_comment_after_token (a p b body : List Char) (hnc : NoClose ('*' :: body)) (pre : List Item) (o1 : Nat)
    (items : List Item) (o2 : Nat) (hrun : Run asciiCls (sizeOf' ((a ++ p) ++ b)) (p ++ b) a 0 pre o1)
    (hstep : lexStep asciiCls (sizeOf' ((a ++ p) ++ b)) (p ++ b) o1 = .more items b o2)
    (hdiv : p ≠ ['/']) (hlc : ¬ LineComment p) :
    parseProgram asciiCls ((a ++ p) ++ (('/' :: '*' :: (body ++ ['*', '/'])) ++ b)) =
      parseProgram asciiCls ((a ++ p) ++ b) :=
  parseProgram_insert_block_comment asciiCls asciiCls_punct asciiCls_slash_sep a p b body hnc pre o1 items o2 hrun hstep
    hdiv hlc

/-- **a `#` comment at the end of a line** -/
theorem C11_hash_comment_after_token (a p : List Char) (nl : Char) (rest body : List Char)
    (hbody : ∀ c ∈ body, c ≠ '\n' ∧ c ≠ '\r') (hnl : nl = '\n' ∨ nl = '\r') (pre : List Item) (o1 : Nat)
    (items : List Item) (o2 : Nat)
    (hrun : Run asciiCls (sizeOf' ((a ++ p) ++ (nl :: rest))) (p ++ (nl :: rest)) a 0 pre o1)
    (hstep : lexStep asciiCls (sizeOf' ((a ++ p) ++ (nl :: rest))) (p ++ (nl :: rest)) o1 = .more items (nl :: rest) o2)
    (hlc : ¬ LineComment p) :
    parseProgram asciiCls ((a ++ p) ++ (('#' :: body) ++ (nl :: rest))) = parseProgram asciiCls ((a ++ p) ++ (nl :: rest)) :=
  parseProgram_insert_hash_comment asciiCls asciiCls_punct asciiCls_hash_sep a p nl rest body hbody hnl pre o1 items o2
    hrun hstep hlc

/-- **line-ending style**: `\r\n` for `\n`, wherever the line feed stands (after a token, a blank, a comment of either
    kind) -/
theorem C11_line_ending_style (a p rest : List Char) (pre : List Item) (o1 : Nat) (items : List Item) (o2 : Nat)
    (hrun : Run asciiCls (sizeOf' ((a ++ p) ++ ('\n' :: rest))) (p ++ ('\n' :: rest)) a 0 pre o1)
    (hstep : lexStep asciiCls (sizeOf' ((a ++ p) ++ ('\n' :: rest))) (p ++ ('\n' :: rest)) o1 =
      .more items ('\n' :: rest) o2) :
    parseProgram asciiCls ((a ++ p) ++ ('\r' :: '\n' :: rest)) = parseProgram asciiCls ((a ++ p) ++ ('\n' :: rest)) :=
  parseProgram_crlf asciiCls (by decide) (asciiCls_blank_sep '\r' (by decide)).1 a p rest pre o1 items o2 hrun hstep

/-! ### 3. redundant parentheses -/

/-- a successful parse is not disturbed by what follows, if that starts with a token that cannot continue an expression -/
theorem C11_parse_extends (g k : Nat) (ts tail : Toks) (x : PEx) (s e : Nat) (rest : Toks)
    (h : parseTier g k ts = some (x, s, e, rest)) (hc : rest = [] → HeadStops stopTok tail) :
    parseTier g k (ts ++ tail) = some (x, s, e, rest ++ tail) :=
  Parser.parseTier_extend g k ts tail x s e rest h hc

/-- **`( e )` is a `SimpleTerm` with the tree of `e`** -/
theorem C11_redundant_parens_simple (g : Nat) (ts : Toks) (x : PEx) (s e : Nat) (h : parseTier g 0 ts = some (x, s, e, []))
    (s0 e0 s1 e1 : Nat) (rest : Toks) (f : Nat) (hf : g + 1 ≤ f) :
    parseSimple f ((s0, .OpenParen, e0) :: (ts ++ (s1, .CloseParen, e1) :: rest)) = some (x, s0, e1, rest) :=
  Parser.parseSimple_parens g ts x s e h s0 e0 s1 e1 rest f hf

/-- **`( e )` is an expression of every tier with the tree of `e`** (at the end of the input or in front of a token that
    cannot continue an expression) -/
theorem C11_redundant_parens (g : Nat) (ts : Toks) (x : PEx) (s e : Nat) (h : parseTier g 0 ts = some (x, s, e, []))
    (s0 e0 s1 e1 : Nat) (rest : Toks) (hrest : HeadStops stopTok rest) (k f : Nat) (hf : g + 3 + (10 - k) ≤ f) :
    parseTier f k ((s0, .OpenParen, e0) :: (ts ++ (s1, .CloseParen, e1) :: rest)) = some (x, s0, e1, rest) :=
  Parser.parseTier_parens g ts x s e h s0 e0 s1 e1 rest hrest k f hf

/-- **at a statement-level expression position `( e )` means what `e` means** -/
theorem C11_redundant_parens_statement (ts : Toks) (v : Ex) (h : parseE ts = some (v, [])) (s0 e0 s1 e1 : Nat)
    (rest : Toks) (hrest : HeadStops stopTok rest) :
    parseE ((s0, .OpenParen, e0) :: (ts ++ (s1, .CloseParen, e1) :: rest)) = some (v, rest) :=
  Parser.parseE_parens ts v h s0 e0 s1 e1 rest hrest

#print axioms C11_same_tokens_same_meaning
#print axioms C11_skipped_text
#print axioms C11_layout_in_front
#print axioms C11_layout_after_token
#print axioms C11_blank_between_tokens
#print axioms C11_block_comment_after_token
#print axioms C11_hash_comment_after_token
#print axioms C11_line_ending_style
#print axioms C11_parse_extends
#print axioms C11_redundant_parens_simple
#print axioms C11_redundant_parens
#print axioms C11_redundant_parens_statement
