/-! Number formatting shared by model and specification (`{:x}`, `{:02x}`, padding). -/

def hexDigit (n : Nat) : Char :=
  if n < 10 then Char.ofNat (48 + n) else Char.ofNat (87 + n)

/-- digits of `n` in base 16, most significant first; `fuel` bounds the number of digits -/
def hexDigits : Nat → Nat → List Char
  | 0, _ => []
  | fuel+1, n => if n < 16 then [hexDigit n] else hexDigits fuel (n / 16) ++ [hexDigit (n % 16)]

/-- `format!("{:x}", n)` for `n < 2^128` -/
def toHex (n : Nat) : String := String.ofList (hexDigits 40 n)

def padLeft (c : Char) (width : Nat) (s : List Char) : List Char :=
  List.replicate (width - s.length) c ++ s

/-- `format!("{:0w$x}", n)` -/
def toHexPad (width : Nat) (n : Nat) : String := String.ofList (padLeft '0' width (hexDigits 40 n))

/-- `format!("{:w$x}", n)`: right-aligned in `width` columns, padded with spaces -/
def toHexPadSpace (width : Nat) (n : Nat) : String := String.ofList (padLeft ' ' width (hexDigits 40 n))

def decDigits : Nat → Nat → List Char
  | 0, _ => []
  | fuel+1, n => if n < 10 then [Char.ofNat (48 + n)] else decDigits fuel (n / 10) ++ [Char.ofNat (48 + n % 10)]

def toDec (n : Nat) : String := String.ofList (decDigits 45 n)
