import Hcl.Proofs.FaultNamedProgram
import Hcl.Theorems.C09Exact
open Rust FaultNamed

/-!
# C09 — "rejected, **with a diagnostic naming the wire**"

`C09_accepted_iff_faultless` (C09Exact.lean) proves the verdict.  Here: *which* diagnostic (`Diag = ⟨kind, names⟩`) is in
the result, per fault, and that it names the name at fault.  `Program::new` is staged; a later stage runs only when the
earlier ones reported nothing, so the statements are per stage:

* **A** (stage 1, no hypothesis at all, any component table `fixed`): `C09_named_redeclared`, `_redeclared_builtin`,
  `_double_assigned`, `_assigned_fixed_out`, `_assigned_constant`, `_const_reads_wire`, `_const_reads_undeclared`;
  converse `C09_named_stage1_sound`.
* **B** (steps 3/4, under `Stage12`: stage 1 silent and the constants resolve; any `fixed`): `C09_named_unset_wire`,
  `_unset_register_input`, `_assigned_register_out`, `_register_default_reads_wire`, `_register_signal_declared`.
* **C** (`assignments_to_actions`, under `Stages14`: stages 1–4 silent; Y86 table): `C09_named_mandatory_input_unset`,
  `_used_component_input_unset`, `_partial_component` (exit 1, `preprocess_fixed`); `_undeclared_assigned`,
  `_check_diag`, `_undeclared_read` (exit 3, need `PreOK`: `preprocess_fixed` silent and no cycle).
-/

section A
variable (fl : Flags) (cls : CharClass) (o : Orders) (fixed : List FixedFunction) (stmts : List Stmt)

theorem C09_named_redeclared (n : String) (h : 2 ≤ (allDeclared stmts).count n) :
    ∃ ds, Program.new fl cls o fixed stmts = .error ds ∧ (⟨.RedeclaredWire, [n]⟩ : Diag) ∈ ds :=
  redeclared_named fl cls o fixed stmts n h

theorem C09_named_redeclared_builtin (n : String) (h : n ∈ allDeclared stmts) (hf : n ∈ fixedNamesOf fixed) :
    ∃ ds, Program.new fl cls o fixed stmts = .error ds ∧ (⟨.RedeclaredBuiltinWire, [n]⟩ : Diag) ∈ ds :=
  redeclared_builtin_named fl cls o fixed stmts n h hf

theorem C09_named_double_assigned (n : String) (h : 2 ≤ (allTargets stmts).count n) :
    ∃ ds, Program.new fl cls o fixed stmts = .error ds ∧ (⟨.DoubleAssignedWire, [n]⟩ : Diag) ∈ ds :=
  double_assigned_named fl cls o fixed stmts n h

theorem C09_named_assigned_fixed_out (n : String) (h : n ∈ allTargets stmts) (hf : n ∈ fixedOutOf fixed) :
    ∃ ds, Program.new fl cls o fixed stmts = .error ds ∧ (⟨.DoubleAssignedFixedOutWire, [n]⟩ : Diag) ∈ ds :=
  assigned_fixed_out_named fl cls o fixed stmts n h hf

theorem C09_named_assigned_constant (n : String) (h : n ∈ allTargets stmts) (hc : DeclaredConst stmts n) :
    ∃ ds, Program.new fl cls o fixed stmts = .error ds ∧ (⟨.AssignedConstant, [n]⟩ : Diag) ∈ ds :=
  assigned_constant_named fl cls o fixed stmts n h hc

theorem C09_named_const_reads_wire (d : ConstDecl) (hd : LastConstDecl stmts d) (r : String) (hr : r ∈ refs d.value)
    (hw : r ∈ fixedNamesOf fixed ∨ DeclaredWire stmts r) (hc : ¬ DeclaredConst stmts r) :
    ∃ ds, Program.new fl cls o fixed stmts = .error ds ∧ (⟨.NonConstantWireRead, [r]⟩ : Diag) ∈ ds :=
  const_reads_wire_named fl cls o fixed stmts d hd r hr hw hc

theorem C09_named_const_reads_undeclared (d : ConstDecl) (hd : LastConstDecl stmts d) (r : String) (hr : r ∈ refs d.value)
    (hnf : r ∉ fixedNamesOf fixed) (hnw : ¬ DeclaredWire stmts r) (hc : ¬ DeclaredConst stmts r) :
    ∃ ds, Program.new fl cls o fixed stmts = .error ds ∧ (⟨.UndeclaredWireRead, [r]⟩ : Diag) ∈ ds :=
  const_reads_undeclared_named fl cls o fixed stmts d hd r hr hnf hnw hc

/-- converse for stage 1: whenever stage 1 reports anything, every diagnostic of the result names one name, for which the
    fault of its kind holds -/
theorem C09_named_stage1_sound (ds : List Diag) (hne : errs1Of (step1G fixed stmts) ≠ [])
    (h : Program.new fl cls o fixed stmts = .error ds) (d : Diag) (hd : d ∈ ds) :
    ∃ n, d.names = [n] ∧
      ((d.kind = .RedeclaredWire ∧ 2 ≤ (allDeclared stmts).count n) ∨
       (d.kind = .RedeclaredBuiltinWire ∧ n ∈ allDeclared stmts ∧ n ∈ fixedNamesOf fixed) ∨
       (d.kind = .DoubleAssignedWire ∧ 2 ≤ (allTargets stmts).count n) ∨
       (d.kind = .DoubleAssignedFixedOutWire ∧ n ∈ allTargets stmts ∧ n ∈ fixedOutOf fixed) ∨
       (d.kind = .AssignedConstant ∧ n ∈ allTargets stmts ∧ DeclaredConst stmts n) ∨
       (d.kind = .NonConstantWireRead ∧ (n ∈ fixedNamesOf fixed ∨ DeclaredWire stmts n) ∧ ¬ DeclaredConst stmts n ∧
          ∃ c ∈ constDecls stmts, n ∈ refs c.value) ∨
       (d.kind = .UndeclaredWireRead ∧ n ∉ fixedNamesOf fixed ∧ ¬ DeclaredWire stmts n ∧ ¬ DeclaredConst stmts n ∧
          ∃ c ∈ constDecls stmts, n ∈ refs c.value)) :=
  stage1_sound fl cls o fixed stmts ds hne h d hd

end A

section B
variable (fl : Flags) (cls : CharClass) (o : Orders) (fixed : List FixedFunction) (stmts : List Stmt)
  (constants : AMap WireValue) (h12 : Stage12 fl o fixed stmts constants)
include h12

theorem C09_named_unset_wire (n : String) (hw : DeclaredWire stmts n) (hna : n ∉ allTargets stmts) :
    ∃ ds, Program.new fl cls o fixed stmts = .error ds ∧ (⟨.UnsetWire, [n]⟩ : Diag) ∈ ds :=
  unset_wire_named fl cls o fixed stmts constants h12 n hw hna

theorem C09_named_unset_register_input
    (hwid : ∀ b, Stmt.bank b ∈ stmts → ∀ r ∈ b.regs, r.width.ok)
    (hbanks : ∀ b, Stmt.bank b ∈ stmts → BankDeclOK fl cls (step1G fixed stmts) constants b)
    (hnames : (allRegNames (banksOf stmts)).Nodup)
    (b : BankDecl) (hb : Stmt.bank b ∈ stmts) (inP outP : Char) (hname : b.name.toList = [inP, outP])
    (r : RegDecl) (hr : r ∈ b.regs) (hna : regInName inP r ∉ allTargets stmts) :
    ∃ ds, Program.new fl cls o fixed stmts = .error ds ∧ (⟨.UnsetRegisterInputWire, [regInName inP r]⟩ : Diag) ∈ ds :=
  unset_register_input_named fl cls o fixed stmts constants h12 hwid hbanks hnames b hb inP outP hname r hr hna

theorem C09_named_assigned_register_out (b : BankDecl) (hb : Stmt.bank b ∈ stmts) (inP outP : Char)
    (hname : b.name.toList = [inP, outP]) (hl : cls.isLower inP = true) (hu : cls.isUpper outP = true)
    (r : RegDecl) (hr : r ∈ b.regs) (ha : regOutName outP r ∈ allTargets stmts) :
    ∃ ds, Program.new fl cls o fixed stmts = .error ds ∧ (⟨.DoubleAssignedRegisterWire, [regOutName outP r]⟩ : Diag) ∈ ds :=
  assigned_register_out_named fl cls o fixed stmts constants h12 b hb inP outP hname hl hu r hr ha

theorem C09_named_register_default_reads_wire (b : BankDecl) (hb : Stmt.bank b ∈ stmts) (inP outP : Char)
    (hname : b.name.toList = [inP, outP]) (hl : cls.isLower inP = true) (hu : cls.isUpper outP = true)
    (r : RegDecl) (hr : r ∈ b.regs) (n : String) (hn : n ∈ refs r.default)
    (hw : n ∈ fixedNamesOf fixed ∨ DeclaredWire stmts n) (hc : ¬ DeclaredConst stmts n) :
    ∃ ds, Program.new fl cls o fixed stmts = .error ds ∧ (⟨.NonConstantWireRead, [n]⟩ : Diag) ∈ ds :=
  register_default_reads_wire_named fl cls o fixed stmts constants h12 b hb inP outP hname hl hu r hr n hn hw hc

theorem C09_named_register_signal_declared (b : BankDecl) (hb : Stmt.bank b ∈ stmts) (inP outP : Char)
    (hname : b.name.toList = [inP, outP]) (hl : cls.isLower inP = true) (hu : cls.isUpper outP = true)
    (r : RegDecl) (hr : r ∈ b.regs) (n : String) (hn : n = regInName inP r ∨ n = regOutName outP r)
    (hd : n ∈ allDeclared stmts) :
    ∃ ds, Program.new fl cls o fixed stmts = .error ds ∧ (⟨.RedeclaredWire, [n]⟩ : Diag) ∈ ds :=
  register_signal_declared_named fl cls o fixed stmts constants h12 b hb inP outP hname hl hu r hr n hn hd

end B

section C
variable {fl : Flags} {cls : CharClass} {o : Orders} {stmts : List Stmt} {constants : AMap WireValue}

theorem C09_named_mandatory_input_unset (h : Stages14 fl cls o stmts constants) (f : FixedFunction)
    (hf : f ∈ y86FixedFunctions) (hm : f.mandatory = true) (n : String) (hn : n ∈ f.inWires.map (·.1))
    (hna : n ∉ allTargets stmts) :
    ∃ ds, Program.new fl cls o y86FixedFunctions stmts = .error ds ∧ (⟨.UnsetBuiltinWire, [n]⟩ : Diag) ∈ ds :=
  mandatory_input_unset_named h f hf hm n hn hna

theorem C09_named_used_component_input_unset (h : Stages14 fl cls o stmts constants) (f : FixedFunction)
    (hf : f ∈ y86FixedFunctions) (hm : f.mandatory = false) (out : String) (w : Nat) (ho : f.outWire = some (out, w))
    (p : String × Ex) (hp : p ∈ (step1Of stmts).assignments) (hr : out ∈ refs p.2)
    (n : String) (hn : n ∈ f.inWires.map (·.1)) (hna : n ∉ allTargets stmts) :
    ∃ ds, Program.new fl cls o y86FixedFunctions stmts = .error ds ∧ (⟨.UnsetBuiltinWire, [n]⟩ : Diag) ∈ ds :=
  used_component_input_unset_named h f hf hm out w ho p hp hr n hn hna

theorem C09_named_partial_component (h : Stages14 fl cls o stmts constants) (f : FixedFunction)
    (hf : f ∈ y86FixedFunctions) (hm : f.mandatory = false)
    (hsome : ∃ i ∈ f.inWires.map (·.1), i ∈ allTargets stmts)
    (hnot : ∃ i ∈ f.inWires.map (·.1), i ∉ allTargets stmts)
    (hen : ¬ DisabledBy fl (widthsOf fl cls stmts constants) constants (step1Of stmts).assignments f) :
    ∃ ds, Program.new fl cls o y86FixedFunctions stmts = .error ds ∧
      (⟨.PartialFixedInput, (f.inWires.map (·.1)).filter (fun n => (step1Of stmts).assignments.contains n) ++ ["/"] ++
        (f.inWires.map (·.1)).filter (fun n => !(step1Of stmts).assignments.contains n)⟩ : Diag) ∈ ds :=
  partial_component_named h f hf hm hsome hnot hen

theorem C09_named_undeclared_assigned (h : Stages14 fl cls o stmts constants)
    (hp : PreOK fl (step1Of stmts).assignments (widthsOf fl cls stmts constants) y86FixedFunctions constants)
    (n : String) (hn : n ∈ allTargets stmts) (hw : (widthsOf fl cls stmts constants).get? n = none) :
    ∃ ds, Program.new fl cls o y86FixedFunctions stmts = .error ds ∧ (⟨.UndeclaredWireAssigned, [n]⟩ : Diag) ∈ ds :=
  undeclared_assigned_named h hp n hn hw

theorem C09_named_check_diag (h : Stages14 fl cls o stmts constants)
    (hp : PreOK fl (step1Of stmts).assignments (widthsOf fl cls stmts constants) y86FixedFunctions constants)
    (n : String) (e : Ex) (he : (step1Of stmts).assignments.get? n = some e) (w : Width)
    (hw : (widthsOf fl cls stmts constants).get? n = some w) (ds' : List Diag)
    (hc : check fl (widthsOf fl cls stmts constants).toCtx constants.toEnv e = .error ds') (d : Diag) (hd : d ∈ ds') :
    ∃ ds, Program.new fl cls o y86FixedFunctions stmts = .error ds ∧ d ∈ ds :=
  check_diag_named h hp n e he w hw ds' hc d hd

theorem C09_named_undeclared_read (h : Stages14 fl cls o stmts constants)
    (hp : PreOK fl (step1Of stmts).assignments (widthsOf fl cls stmts constants) y86FixedFunctions constants)
    (p : String × Ex) (hpm : p ∈ (step1Of stmts).assignments) (r : String) (hr : r ∈ refs p.2)
    (hkn : r ∉ knownNames fl cls stmts constants) (hna : r ∉ allTargets stmts)
    (hno : r ∉ fixedOutOf y86FixedFunctions) (hnd : r ∉ allDeclared stmts) :
    ∃ ds, Program.new fl cls o y86FixedFunctions stmts = .error ds ∧ (⟨.UnsetUndeclaredWire, [r]⟩ : Diag) ∈ ds :=
  undeclared_read_named h hp p hpm r hr hkn hna hno hnd

/-- the simplest instance of `C09_named_check_diag`: `x = r;` where `r` has no width -/
theorem C09_named_wire_read_undeclared (h : Stages14 fl cls o stmts constants)
    (hp : PreOK fl (step1Of stmts).assignments (widthsOf fl cls stmts constants) y86FixedFunctions constants)
    (n r : String) (he : (step1Of stmts).assignments.get? n = some (.wire r)) (w : Width)
    (hw : (widthsOf fl cls stmts constants).get? n = some w) (hr : (widthsOf fl cls stmts constants).get? r = none) :
    ∃ ds, Program.new fl cls o y86FixedFunctions stmts = .error ds ∧ (⟨.UndeclaredWireRead, [r]⟩ : Diag) ∈ ds := by
  refine C09_named_check_diag h hp n (.wire r) he w hw [⟨.UndeclaredWireRead, [r]⟩] ?_ _ (List.mem_singleton.mpr rfl)
  unfold check
  have : (widthsOf fl cls stmts constants).toCtx r = none := hr
  rw [this]
  rfl

end C

/-! ### the hypotheses are satisfiable -/

/-- group A: `wire a:1, a:1` -/
example : ∃ ds, Program.new {} {} {} y86FixedFunctions [.wires [⟨"a", .bits 1⟩, ⟨"a", .bits 1⟩]] = .error ds ∧
    (⟨.RedeclaredWire, ["a"]⟩ : Diag) ∈ ds :=
  C09_named_redeclared {} {} {} y86FixedFunctions _ "a" (by decide)

/-- group A: `pc = 0; pc = 1` -/
example : ∃ ds, Program.new {} {} {} y86FixedFunctions
      [.assigns [⟨["pc"], .const ⟨0, .unlimited⟩⟩], .assigns [⟨["pc"], .const ⟨1, .unlimited⟩⟩]] = .error ds ∧
    (⟨.DoubleAssignedWire, ["pc"]⟩ : Diag) ∈ ds :=
  C09_named_double_assigned {} {} {} y86FixedFunctions _ "pc" (by decide)

/-- a statement list without constants passes stage 1 and 2 when its names are in order -/
theorem stage12_of_no_consts (stmts : List Stmt) (hc : constDecls stmts = [])
    (h1 : (allDeclared stmts).Nodup) (h2 : ∀ n ∈ allDeclared stmts, n ∉ fixedNamesOf y86FixedFunctions)
    (h3 : (allTargets stmts).Nodup) (h4 : ∀ n ∈ allTargets stmts, n ∉ fixedOutOf y86FixedFunctions) :
    Stage12 {} {} y86FixedFunctions stmts [] := by
  have hnc : ∀ n, ¬ DeclaredConst stmts n := by
    intro n hn
    obtain ⟨d, hd, _⟩ := (declaredConst_iff stmts n).mp hn
    rw [hc] at hd; cases hd
  have hraw : (step1G y86FixedFunctions stmts).constantsRaw = [] := by
    cases hr : (step1G y86FixedFunctions stmts).constantsRaw with
    | nil => rfl
    | cons p rest =>
      exfalso
      apply hnc p.1
      apply (step1G_constant_iff y86FixedFunctions stmts p.1).mp
      rw [hr]
      simp [AMap.contains]
  refine ⟨h1, h2, h3, h4, fun n _ => hnc n, ?_, ?_⟩
  · intro d hd; rw [hc] at hd; cases hd
  · rw [hraw]
    have hb : (match resolveConstants {} {} [] with | .ok c => c.isEmpty | .error _ => false) = true := by decide +kernel
    cases hres : resolveConstants {} {} [] with
    | error ds => rw [hres] at hb; cases hb
    | ok c =>
      rw [hres] at hb
      simp only [List.isEmpty_iff] at hb
      rw [hb]

/-- group B: `wire x:8` and nothing else: `x` is never assigned -/
example : ∃ ds, Program.new {} {} {} y86FixedFunctions [.wires [⟨"x", .bits 8⟩]] = .error ds ∧
    (⟨.UnsetWire, ["x"]⟩ : Diag) ∈ ds :=
  C09_named_unset_wire {} {} {} y86FixedFunctions _ []
    (stage12_of_no_consts _ rfl (by decide) (by decide +kernel) (by decide) (by decide +kernel))
    "x" ⟨_, List.mem_singleton.mpr rfl, ⟨"x", .bits 8⟩, List.mem_singleton.mpr rfl, rfl⟩ (by decide)

/-- the empty program passes stages 1 to 4 -/
theorem stages14_nil : Stages14 {} {} {} [] [] := by
  have hb : (step1Of []).banksRaw = [] := step1Of_banksRaw []
  refine ⟨stage12_of_no_consts [] rfl (by decide) (by decide +kernel) (by decide) (by decide +kernel), ?_, ordersOK_default, ?_, ?_, ?_⟩
  · intro s hs; cases hs
  · intro b hb'; rw [hb] at hb'; cases hb'
  · rw [hb]; decide
  · intro n hn
    exfalso
    unfold neededOf at hn
    rw [mem_foldl_setInsert] at hn
    rcases hn with hn | hn
    · have := (step1G_needed_iff y86FixedFunctions [] n).mp hn
      obtain ⟨ds, hm, _⟩ := this
      cases hm
    · unfold step3Of at hn
      rw [hb] at hn
      simp [bankIns] at hn

/-- group C: the empty program: `pc` (an input of the mandatory instruction memory) is never assigned -/
example : ∃ ds, Program.new {} {} {} y86FixedFunctions [] = .error ds ∧ (⟨.UnsetBuiltinWire, ["pc"]⟩ : Diag) ∈ ds :=
  C09_named_mandatory_input_unset stages14_nil
    { name := "instruction memory", inWires := [("pc", 64)], outWire := some ("i10bytes", 80),
      disabledIfFalse := none, action := .readMem none "pc" "i10bytes" 10 true, mandatory := true }
    (by simp [y86FixedFunctions]) rfl "pc" (by simp) (by simp [allTargets])

#print axioms C09_named_redeclared
#print axioms C09_named_redeclared_builtin
#print axioms C09_named_double_assigned
#print axioms C09_named_assigned_fixed_out
#print axioms C09_named_assigned_constant
#print axioms C09_named_const_reads_wire
#print axioms C09_named_const_reads_undeclared
#print axioms C09_named_stage1_sound
#print axioms C09_named_unset_wire
#print axioms C09_named_unset_register_input
#print axioms C09_named_assigned_register_out
#print axioms C09_named_register_default_reads_wire
#print axioms C09_named_register_signal_declared
#print axioms C09_named_mandatory_input_unset
#print axioms C09_named_used_component_input_unset
#print axioms C09_named_partial_component
#print axioms C09_named_undeclared_assigned
#print axioms C09_named_check_diag
#print axioms C09_named_undeclared_read
#print axioms C09_named_wire_read_undeclared
#print axioms stages14_nil
