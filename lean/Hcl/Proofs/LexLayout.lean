import Hcl.Proofs.LexSpans
import Hcl.Proofs.LexTotal
import Hcl.Proofs.LexComments
import Hcl.Proofs.ParseLayout
open Lexer Parser

/-! Layout at text level: where the lexer stands in the text, not what the positions are, decides the tokens.

    * `lexAll_rel`: lexing the same remaining text from another offset (and with another total length) gives the same
      tokens, with all positions shifted by the difference of the offsets; an error on one side is an error on the other.
    * `lexAll_fuel`: with more fuel than characters the result does not depend on the fuel.
    * `Reach`: the lexer gets from one place in the text to another in some turns of its loop; `lexAll_reach`: lexing
      is compositional at the places the lexer reaches.
    * `lex_insert`: inserting text that the lexer skips (blank space, comments) at a place that the lexer reaches in both
      texts leaves the tokens before it alone and shifts the tokens after it by the length inserted. -/

namespace Lexer

/-! ### Shifting -/

/-- `b` is `a` moved `d` bytes to the right; errors correspond to errors -/
def ItemRel (d : Nat) : Item → Item → Prop
  | .tok s t e, .tok s' t' e' => s' = s + d ∧ t' = t ∧ e' = e + d
  | .err _, .err _ => True
  | _, _ => False

def ItemsRel (d : Nat) : List Item → List Item → Prop
  | [], [] => True
  | a :: l, a' :: l' => ItemRel d a a' ∧ ItemsRel d l l'
  | _, _ => False

theorem ItemsRel.nil {d : Nat} : ItemsRel d [] [] := trivial

theorem ItemsRel.append {d : Nat} : ∀ {a a' b b' : List Item}, ItemsRel d a a' → ItemsRel d b b' →
    ItemsRel d (a ++ b) (a' ++ b')
  | [], [], _, _, _, hb => hb
  | [], _ :: _, _, _, ha, _ => ha.elim
  | _ :: _, [], _, _, ha, _ => ha.elim
  | _ :: _, _ :: _, _, _, ha, hb => ⟨ha.1, ItemsRel.append ha.2 hb⟩

theorem ItemsRel.tok1 {d s t e s' e' : Nat} {k : Tok} (hs : s' = s + d) (he : e' = e + d) (_ : t = t) :
    ItemsRel d [.tok s k e] [.tok s' k e'] := ⟨⟨hs, rfl, he⟩, trivial⟩

theorem ItemsRel.err1 {d : Nat} {x y : LexErr} : ItemsRel d [.err x] [.err y] := ⟨trivial, trivial⟩

def StepRel (d : Nat) : Step → Step → Prop
  | .stop a, .stop b => ItemsRel d a b
  | .more a cs o, .more b cs' o' => ItemsRel d a b ∧ cs' = cs ∧ o' = o + d
  | _, _ => False

theorem stepRel_ite {d : Nat} {p : Prop} [Decidable p] {a b a' b' : Step} (ha : StepRel d a a') (hb : StepRel d b b') :
    StepRel d (if p then a else b) (if p then a' else b') := by
  split <;> assumption

theorem simpleStep_rel {d : Nat} (rest : List Char) (i next i' next' : Nat) (t : Tok) (hi : i' = i + d)
    (hn : next' = next + d) : StepRel d (simpleStep rest i next t) (simpleStep rest i' next' t) := by
  subst hi hn
  exact ⟨⟨⟨rfl, rfl, by omega⟩, trivial⟩, rfl, rfl⟩

theorem chooseStep_rel {d : Nat} (rest : List Char) (i next i' next' : Nat) (dflt : Tok) (opts : List (Char × Tok))
    (hi : i' = i + d) (hn : next' = next + d) :
    StepRel d (chooseStep rest i next dflt opts) (chooseStep rest i' next' dflt opts) := by
  subst hi hn
  unfold chooseStep
  cases rest with
  | nil => exact ⟨⟨⟨rfl, rfl, by omega⟩, trivial⟩, rfl, rfl⟩
  | cons c rest2 =>
    simp only
    cases opts.find? (fun o => o.1 == c) with
    | some o => exact ⟨⟨⟨rfl, rfl, by omega⟩, trivial⟩, rfl, by omega⟩
    | none => exact ⟨⟨⟨rfl, rfl, by omega⟩, trivial⟩, rfl, rfl⟩

theorem lineCommentStep_rel {d : Nat} (rest : List Char) (next next' : Nat) (hn : next' = next + d) :
    StepRel d (lineCommentStep rest next) (lineCommentStep rest next') := by
  subst hn
  unfold lineCommentStep
  cases spanWhile (fun d => d != '\n' && d != '\r') rest with
  | mk skipped after => exact ⟨trivial, rfl, by omega⟩

theorem skipBlock_shift (d : Nat) : ∀ (fuel : Nat) (cs : List Char) (off : Nat),
    skipBlock fuel cs (off + d) = (skipBlock fuel cs off).map (fun r => (r.1, r.2 + d))
  | 0, _, _ => rfl
  | fuel + 1, cs, off => by
    unfold skipBlock
    cases spanWhile (· != '*') cs with
    | mk skipped after =>
      simp only
      cases after with
      | nil => rfl
      | cons st after2 =>
        simp only
        have e1 : off + d + sizeOf' skipped + 1 = (off + sizeOf' skipped + 1) + d := by omega
        have e2 : off + d + sizeOf' skipped + 2 = (off + sizeOf' skipped + 2) + d := by omega
        split
        · simp only [Option.map_some, e2]
        · rw [e1, skipBlock_shift d fuel after2 (off + sizeOf' skipped + 1)]

theorem slashStep_rel {d : Nat} (rest : List Char) (i next i' next' : Nat) (hi : i' = i + d) (hn : next' = next + d) :
    StepRel d (slashStep rest i next) (slashStep rest i' next') := by
  subst hi hn
  cases rest with
  | nil => exact simpleStep_rel _ _ _ _ _ _ rfl rfl
  | cons c r =>
    by_cases h1 : c = '/'
    · subst h1
      unfold slashStep
      exact lineCommentStep_rel _ _ _ rfl
    · by_cases h2 : c = '*'
      · subst h2
        unfold slashStep
        simp only
        rw [skipBlock_shift]
        cases skipBlock (('*' :: r).length + 1) ('*' :: r) next with
        | none => exact ⟨trivial, trivial⟩
        | some x => exact ⟨trivial, rfl, rfl⟩
      · have e : ∀ i next, slashStep (c :: r) i next = simpleStep (c :: r) i next .Divide := by
          intro i next
          unfold slashStep
          split
          · rename_i heq; cases heq; exact absurd rfl h1
          · rename_i heq; cases heq; exact absurd rfl h2
          · rfl
        rw [e, e]
        exact simpleStep_rel _ _ _ _ _ _ rfl rfl

theorem dotStep_rel {d : Nat} (rest : List Char) (i next i' next' : Nat) (hi : i' = i + d) (hn : next' = next + d) :
    StepRel d
      (match (generalizing := false) rest with
        | '.' :: rest2 => .more [.tok i .DotDot (i + 2)] rest2 (next + 1)
        | _ => .stop [.err (.lexical i)])
      (match (generalizing := false) rest with
        | '.' :: rest2 => .more [.tok i' .DotDot (i' + 2)] rest2 (next' + 1)
        | _ => .stop [.err (.lexical i')]) := by
  subst hi hn
  cases rest with
  | nil => exact ⟨trivial, trivial⟩
  | cons c r =>
    by_cases h1 : c = '.'
    · subst h1
      exact ⟨⟨⟨rfl, rfl, by omega⟩, trivial⟩, rfl, by omega⟩
    · split
      · rename_i heq; cases heq; exact absurd rfl h1
      · exact ⟨trivial, trivial⟩

theorem punctStep_rel {d : Nat} (c : Char) (rest : List Char) (i next i' next' : Nat) (hi : i' = i + d)
    (hn : next' = next + d) : StepRel d (punctStep c rest i next) (punctStep c rest i' next') := by
  unfold punctStep
  repeat' apply stepRel_ite
  all_goals first
    | exact simpleStep_rel _ _ _ _ _ _ hi hn
    | exact chooseStep_rel _ _ _ _ _ _ _ hi hn
    | exact lineCommentStep_rel _ _ _ hn
    | exact slashStep_rel _ _ _ _ _ hi hn
    | exact dotStep_rel _ _ _ _ _ hi hn
    | exact ⟨trivial, trivial⟩

theorem identStep_rel {d : Nat} (cls : CharCls) (c : Char) (rest : List Char) (i next i' next' : Nat) (hi : i' = i + d)
    (hn : next' = next + d) : StepRel d (identStep cls c rest i next) (identStep cls c rest i' next') := by
  subst hi hn
  unfold identStep
  cases spanWhile (fun d => cls.isAlphanumeric d || d == '_') rest with
  | mk more after => exact ⟨⟨⟨rfl, rfl, by omega⟩, trivial⟩, rfl, by omega⟩

/-- `handleConstant` from another offset -/
def HCRel (d : Nat) : Except LexErr ((Nat × Tok × Nat) × List Char × Nat) →
    Except LexErr ((Nat × Tok × Nat) × List Char × Nat) → Prop
  | .ok ((s, t, e), after, o), .ok ((s', t', e'), after', o') =>
    s' = s + d ∧ t' = t ∧ e' = e + d ∧ after' = after ∧ o' = o + d
  | .error _, .error _ => True
  | _, _ => False

theorem handleConstant_rel (d i : Nat) (first : Char) (rest : List Char) (total total' : Nat) :
    HCRel d (handleConstant i first rest total) (handleConstant (i + d) first rest total') := by
  unfold handleConstant
  simp only
  cases rest with
  | nil => exact ⟨rfl, rfl, by omega, rfl, by omega⟩
  | cons c2 rest2 =>
    simp only
    by_cases hx : (c2 == 'x') = true
    · simp only [hx, if_true]
      cases rest2 with
      | nil => exact trivial
      | cons hd tl =>
        simp only
        by_cases hh : isHex hd = true
        · simp only [hh, Bool.not_true, Bool.false_eq_true, if_false]
          cases spanWhile isHex (hd :: tl) with
          | mk digits aft =>
            simp only
            cases parseRadix 16 digits with
            | none => exact trivial
            | some v => exact ⟨rfl, rfl, by omega, rfl, by omega⟩
        · simp only [hh, Bool.not_false, if_true]
          exact trivial
    · simp only [hx]
      by_cases hb : (c2 == 'b') = true
      · simp only [hb, if_true]
        cases rest2 with
        | nil => exact trivial
        | cons hd tl =>
          simp only
          by_cases hh : isBin hd = true
          · simp only [hh, Bool.not_true, Bool.false_eq_true, if_false]
            cases spanWhile isBin (hd :: tl) with
            | mk digits aft =>
              simp only
              have fin : HCRel d
                  (if digits.length > 128 then .error (.invalidConstant i (i + 2 + sizeOf' digits)) else
                    (match parseRadix 2 digits with
                     | some v => .ok ((i, .Constant ⟨v, .bits digits.length⟩, i + 2 + sizeOf' digits), aft, i + 2 + sizeOf' digits)
                     | none => .error (.invalidConstant i (i + 2 + sizeOf' digits))))
                  (if digits.length > 128 then .error (.invalidConstant (i + d) (i + d + 2 + sizeOf' digits)) else
                    (match parseRadix 2 digits with
                     | some v => .ok ((i + d, .Constant ⟨v, .bits digits.length⟩, i + d + 2 + sizeOf' digits), aft,
                        i + d + 2 + sizeOf' digits)
                     | none => .error (.invalidConstant (i + d) (i + d + 2 + sizeOf' digits)))) := by
                split
                · exact trivial
                · cases parseRadix 2 digits with
                  | none => exact trivial
                  | some v => exact ⟨rfl, rfl, by omega, rfl, by omega⟩
              cases aft with
              | nil => exact fin
              | cons dd aft2 =>
                simp only
                by_cases hd2 : isDec dd = true
                · simp only [hd2, if_true]; exact trivial
                · simp only [hd2]; exact fin
          · simp only [hh, Bool.not_false, if_true]
            exact trivial
      · simp only [hb]
        by_cases hdc : isDec c2 = true
        · simp only [hdc, if_true]
          cases spanWhile isDec (first :: c2 :: rest2) with
          | mk digits aft =>
            simp only
            cases parseRadix 10 digits with
            | none => exact trivial
            | some v => exact ⟨rfl, rfl, by omega, rfl, by omega⟩
        · simp only [hdc]
          exact ⟨rfl, rfl, by omega, rfl, by omega⟩

theorem constantStep_rel (d : Nat) (c : Char) (rest : List Char) (i total total' : Nat) :
    StepRel d (constantStep c rest i total) (constantStep c rest (i + d) total') := by
  have h := handleConstant_rel d i c rest total total'
  unfold constantStep
  cases h1 : handleConstant i c rest total with
  | error e1 =>
    cases h2 : handleConstant (i + d) c rest total' with
    | error e2 => exact ⟨trivial, trivial⟩
    | ok r2 => rw [h1, h2] at h; obtain ⟨⟨s, t, e⟩, a, o⟩ := r2; exact h.elim
  | ok r1 =>
    obtain ⟨⟨s, t, e⟩, a, o⟩ := r1
    cases h2 : handleConstant (i + d) c rest total' with
    | error e2 => rw [h1, h2] at h; exact h.elim
    | ok r2 =>
      obtain ⟨⟨s', t', e'⟩, a', o'⟩ := r2
      rw [h1, h2] at h
      obtain ⟨g1, g2, g3, g4, g5⟩ := h
      subst g1 g2 g3 g4 g5
      exact ⟨⟨⟨rfl, rfl, rfl⟩, trivial⟩, rfl, rfl⟩

/-- **one turn of the loop from another offset**: the same remaining text gives the same step, moved -/
theorem lexStep_rel (cls : CharCls) (d total total' : Nat) (cs : List Char) (off : Nat) :
    StepRel d (lexStep cls total cs off) (lexStep cls total' cs (off + d)) := by
  unfold lexStep
  cases cs with
  | nil => exact trivial
  | cons c rest =>
    simp only
    have hn : off + d + size c = off + size c + d := by omega
    refine stepRel_ite ?_ (stepRel_ite ?_ (stepRel_ite ?_ ?_))
    · exact ⟨trivial, rfl, hn⟩
    · exact identStep_rel cls c rest _ _ _ _ rfl hn
    · exact constantStep_rel d c rest off total total'
    · exact punctStep_rel c rest _ _ _ _ rfl hn

/-- **lexing from another offset**: the same remaining text gives the same items, moved -/
theorem lexAll_rel (cls : CharCls) (d total total' : Nat) : ∀ (fuel : Nat) (cs : List Char) (off : Nat),
    ItemsRel d (lexAll cls total fuel cs off) (lexAll cls total' fuel cs (off + d))
  | 0, _, _ => ⟨trivial, trivial⟩
  | fuel + 1, cs, off => by
    have h := lexStep_rel cls d total total' cs off
    unfold lexAll
    cases h1 : lexStep cls total cs off with
    | stop a =>
      cases h2 : lexStep cls total' cs (off + d) with
      | stop b => rw [h1, h2] at h; exact h
      | more b cs' o' => rw [h1, h2] at h; exact h.elim
    | more a cs1 o1 =>
      cases h2 : lexStep cls total' cs (off + d) with
      | stop b => rw [h1, h2] at h; exact h.elim
      | more b cs' o' =>
        rw [h1, h2] at h
        obtain ⟨g1, g2, g3⟩ := h
        rw [g2, g3]
        exact ItemsRel.append g1 (lexAll_rel cls d total total' fuel cs1 o1)

/-! ### From items to tokens -/

/-- a token list moved `d` bytes to the right -/
def shiftToks (d : Nat) (ts : Toks) : Toks := ts.map (fun x => (x.1 + d, x.2.1, x.2.2 + d))

theorem kinds_shiftToks (d : Nat) (ts : Toks) : kinds (shiftToks d ts) = kinds ts := by
  simp [kinds, shiftToks, List.map_map]

theorem shiftToks_zero (ts : Toks) : shiftToks 0 ts = ts := by
  simp [shiftToks]

theorem kinds_append (a b : Toks) : kinds (a ++ b) = kinds a ++ kinds b := by simp [kinds]

theorem tokensOf_nil : tokensOf [] = some [] := rfl

theorem tokensOf_err (x : LexErr) (r : List Item) : tokensOf (.err x :: r) = none := by
  unfold tokensOf
  simp only [List.mapM_cons]
  rfl

theorem tokensOf_tok (s : Nat) (t : Tok) (e : Nat) (r : List Item) :
    tokensOf (.tok s t e :: r) = (tokensOf r).map (fun ts => (s, t, e) :: ts) := by
  unfold tokensOf
  simp only [List.mapM_cons]
  cases List.mapM (fun it => match it with | Item.tok s t e => some (s, t, e) | Item.err _ => none) r <;> rfl

theorem tokensOf_rel {d : Nat} : ∀ {a b : List Item}, ItemsRel d a b →
    (tokensOf a = none ∧ tokensOf b = none) ∨ ∃ ts, tokensOf a = some ts ∧ tokensOf b = some (shiftToks d ts)
  | [], [], _ => Or.inr ⟨[], rfl, rfl⟩
  | [], _ :: _, h => h.elim
  | _ :: _, [], h => h.elim
  | .tok s t e :: l, .err _ :: l', h => h.1.elim
  | .err _ :: l, .tok s t e :: l', h => h.1.elim
  | .err x :: l, .err y :: l', _ => Or.inl ⟨tokensOf_err x l, tokensOf_err y l'⟩
  | .tok s t e :: l, .tok s' t' e' :: l', h => by
    obtain ⟨⟨h1, h2, h3⟩, h4⟩ := h
    subst h1 h2 h3
    rw [tokensOf_tok, tokensOf_tok]
    rcases tokensOf_rel h4 with ⟨g1, g2⟩ | ⟨ts, g1, g2⟩
    · rw [g1, g2]; exact Or.inl ⟨rfl, rfl⟩
    · rw [g1, g2]; exact Or.inr ⟨_, rfl, rfl⟩

theorem tokensOf_append : ∀ (a b : List Item), tokensOf (a ++ b) =
    match tokensOf a, tokensOf b with
    | some x, some y => some (x ++ y)
    | _, _ => none
  | [], b => by
    rw [List.nil_append, tokensOf_nil]
    cases tokensOf b <;> rfl
  | .err x :: l, b => by
    rw [List.cons_append, tokensOf_err, tokensOf_err]
  | .tok s t e :: l, b => by
    rw [List.cons_append, tokensOf_tok, tokensOf_tok, tokensOf_append l b]
    cases tokensOf l <;> cases tokensOf b <;> rfl

/-! ### Fuel -/

/-- **with more fuel than characters the lexer's result does not depend on the fuel** -/
theorem lexAll_fuel (cls : CharCls) (total : Nat) : ∀ (f g : Nat) (cs : List Char) (off : Nat), cs.length < f →
    cs.length < g → lexAll cls total f cs off = lexAll cls total g cs off
  | 0, _, _, _, hf, _ => by omega
  | _, 0, _, _, _, hg => by omega
  | f + 1, g + 1, cs, off, hf, hg => by
    unfold lexAll
    have hp := lexStep_progress cls total cs off
    cases hs : lexStep cls total cs off with
    | stop items => rfl
    | more items cs' off' =>
      rw [hs] at hp
      simp only
      rw [lexAll_fuel cls total f g cs' off' (by have := hp.2; omega) (by have := hp.2; omega)]

theorem lex_eq_lexAll (cls : CharCls) (input : List Char) (f : Nat) (hf : input.length < f) :
    lex cls input = lexAll cls (sizeOf' input) f input 0 :=
  lexAll_fuel cls _ _ _ _ _ (Nat.lt_succ_self _) hf

/-! ### Places the lexer reaches -/

/-- from the remaining text `cs` at offset `off` the loop gets, in some turns that yield `items`, to the remaining
    text `cs'` at offset `off'` -/
inductive Reach (cls : CharCls) (total : Nat) : List Char → Nat → List Item → List Char → Nat → Prop
  | refl (cs : List Char) (off : Nat) : Reach cls total cs off [] cs off
  | step {cs : List Char} {off : Nat} {items : List Item} {cs1 : List Char} {off1 : Nat} {items' : List Item}
      {cs2 : List Char} {off2 : Nat} : lexStep cls total cs off = .more items cs1 off1 →
      Reach cls total cs1 off1 items' cs2 off2 → Reach cls total cs off (items ++ items') cs2 off2

theorem Reach.one {cls : CharCls} {total : Nat} {cs : List Char} {off : Nat} {items : List Item} {cs1 : List Char}
    {off1 : Nat} (h : lexStep cls total cs off = .more items cs1 off1) : Reach cls total cs off items cs1 off1 := by
  have := Reach.step h (Reach.refl cs1 off1)
  rwa [List.append_nil] at this

theorem Reach.trans {cls : CharCls} {total : Nat} {cs : List Char} {off : Nat} {i1 : List Item} {cs1 : List Char}
    {off1 : Nat} {i2 : List Item} {cs2 : List Char} {off2 : Nat} (h1 : Reach cls total cs off i1 cs1 off1)
    (h2 : Reach cls total cs1 off1 i2 cs2 off2) : Reach cls total cs off (i1 ++ i2) cs2 off2 := by
  induction h1 with
  | refl cs off => exact h2
  | step hs _ ih =>
    rw [List.append_assoc]
    exact Reach.step hs (ih h2)

theorem Reach.length_le {cls : CharCls} {total : Nat} {cs : List Char} {off : Nat} {items : List Item} {cs' : List Char}
    {off' : Nat} (h : Reach cls total cs off items cs' off') : cs'.length ≤ cs.length := by
  induction h with
  | refl cs off => exact Nat.le_refl _
  | @step cs off items cs1 off1 items2 cs2 off2 hs _ ih =>
    have hp := lexStep_progress cls total cs off
    rw [hs] at hp
    have := hp.2
    omega

/-- **lexing is compositional at the places the lexer reaches** -/
theorem lexAll_reach {cls : CharCls} {total : Nat} {cs : List Char} {off : Nat} {items : List Item} {cs' : List Char}
    {off' : Nat} (h : Reach cls total cs off items cs' off') : ∀ (f g : Nat), cs.length < f → cs'.length < g →
    lexAll cls total f cs off = items ++ lexAll cls total g cs' off' := by
  induction h with
  | refl cs off =>
    intro f g hf hg
    rw [List.nil_append]
    exact lexAll_fuel cls total f g cs off hf hg
  | @step cs off items cs1 off1 items2 cs2 off2 hs _ ih =>
    intro f g hf hg
    have hp := lexStep_progress cls total cs off
    rw [hs] at hp
    obtain ⟨f', rfl⟩ : ∃ f', f = f' + 1 := ⟨f - 1, by omega⟩
    rw [lexAll, hs]
    simp only
    rw [ih f' g (by have := hp.2; omega) hg, List.append_assoc]

/-- the same remaining text is reached from another offset, with the items moved -/
theorem Reach.shift {cls : CharCls} {total : Nat} {cs : List Char} {off : Nat} {items : List Item} {cs' : List Char}
    {off' : Nat} (h : Reach cls total cs off items cs' off') (d total' : Nat) :
    ∃ items', ItemsRel d items items' ∧ Reach cls total' cs (off + d) items' cs' (off' + d) := by
  induction h with
  | refl cs off => exact ⟨[], trivial, Reach.refl _ _⟩
  | @step cs off items cs1 off1 items2 cs2 off2 hs _ ih =>
    obtain ⟨items2', r1, r2⟩ := ih
    have hr := lexStep_rel cls d total total' cs off
    rw [hs] at hr
    cases h2 : lexStep cls total' cs (off + d) with
    | stop b => rw [h2] at hr; exact hr.elim
    | more b cs1' o1' =>
      rw [h2] at hr
      obtain ⟨g1, g2, g3⟩ := hr
      subst g2 g3
      exact ⟨b ++ items2', ItemsRel.append g1 r1, Reach.step h2 r2⟩

/-! ### Text that the lexer skips -/

/-- the lexer skips `w` in front of `b`: from `w ++ b` it gets to `b` without yielding anything (blank space,
    comments) -/
def Skips (cls : CharCls) (w b : List Char) : Prop :=
  ∀ total off, Reach cls total (w ++ b) off [] b (off + sizeOf' w)

theorem skips_nil (cls : CharCls) (b : List Char) : Skips cls [] b := by
  intro total off
  rw [sizeOf'_nil]
  exact Reach.refl _ _

theorem skips_append {cls : CharCls} {w1 w2 b : List Char} (h1 : Skips cls w1 (w2 ++ b)) (h2 : Skips cls w2 b) :
    Skips cls (w1 ++ w2) b := by
  intro total off
  have := Reach.trans (h1 total off) (h2 total (off + sizeOf' w1))
  rw [List.append_assoc, sizeOf'_append, ← Nat.add_assoc]
  exact this

/-- a blank character is skipped -/
theorem skips_blank {cls : CharCls} {c : Char} (hc : cls.isWhitespace c = true) (b : List Char) : Skips cls [c] b := by
  intro total off
  have hs : lexStep cls total ([c] ++ b) off = .more [] b (off + size c) := by
    simp only [List.cons_append, List.nil_append, lexStep, hc, if_true]
  have := Reach.one hs
  rw [sizeOf'_cons, sizeOf'_nil]
  exact this

/-- a run of blank characters is skipped -/
theorem skips_blanks {cls : CharCls} : ∀ (ws : List Char), (∀ c ∈ ws, cls.isWhitespace c = true) → ∀ (b : List Char),
    Skips cls ws b
  | [], _, b => skips_nil cls b
  | c :: ws, h, b =>
    skips_append (w1 := [c]) (skips_blank (h c List.mem_cons_self) (ws ++ b))
      (skips_blanks ws (fun x hx => h x (List.mem_cons_of_mem _ hx)) b)

/-- a block comment is skipped -/
theorem skips_block_comment {cls : CharCls} (hcls : PunctCls cls) (body : List Char) (hnc : NoClose ('*' :: body))
    (b : List Char) : Skips cls ('/' :: '*' :: (body ++ ['*', '/'])) b := by
  intro total off
  have hs := lexStep_block_comment cls hcls total body b off hnc
  have e : ('/' :: '*' :: (body ++ ['*', '/'])) ++ b = '/' :: '*' :: (body ++ '*' :: '/' :: b) := by simp
  have hsz : sizeOf' ('/' :: '*' :: (body ++ ['*', '/'])) = 4 + sizeOf' body := by
    have h1 : size '/' = 1 := by decide
    have h2 : size '*' = 1 := by decide
    simp only [sizeOf'_cons, sizeOf'_append, sizeOf'_nil, h1, h2]
    omega
  rw [e, hsz, ← Nat.add_assoc]
  exact Reach.one hs

/-- a `#` comment is skipped up to the end of its line -/
theorem skips_hash_comment {cls : CharCls} (hcls : PunctCls cls) (body : List Char) (nl : Char) (rest : List Char)
    (hbody : ∀ c ∈ body, c ≠ '\n' ∧ c ≠ '\r') (hnl : nl = '\n' ∨ nl = '\r') : Skips cls ('#' :: body) (nl :: rest) := by
  intro total off
  have hs := lexStep_hash_comment cls hcls total body nl rest off hbody hnl
  have hsz : sizeOf' ('#' :: body) = 1 + sizeOf' body := by
    have h1 : size '#' = 1 := by decide
    rw [sizeOf'_cons, h1]
  rw [hsz, ← Nat.add_assoc, List.cons_append]
  exact Reach.one hs

/-- a `#` comment at the end of the text is skipped -/
theorem skips_hash_comment_eof {cls : CharCls} (hcls : PunctCls cls) (body : List Char)
    (hbody : ∀ c ∈ body, c ≠ '\n' ∧ c ≠ '\r') : Skips cls ('#' :: body) [] := by
  intro total off
  have hs := lexStep_hash_comment_eof cls hcls total body off hbody
  have hsz : sizeOf' ('#' :: body) = 1 + sizeOf' body := by
    have h1 : size '#' = 1 := by decide
    rw [sizeOf'_cons, h1]
  rw [hsz, ← Nat.add_assoc, List.append_nil]
  exact Reach.one hs

/-- a `//` comment is skipped up to the end of its line -/
theorem skips_slash_comment {cls : CharCls} (hcls : PunctCls cls) (body : List Char) (nl : Char) (rest : List Char)
    (hbody : ∀ c ∈ body, c ≠ '\n' ∧ c ≠ '\r') (hnl : nl = '\n' ∨ nl = '\r') :
    Skips cls ('/' :: '/' :: body) (nl :: rest) := by
  intro total off
  have hs := lexStep_slash_comment cls hcls total body nl rest off hbody hnl
  have hsz : sizeOf' ('/' :: '/' :: body) = 2 + sizeOf' body := by
    have h1 : size '/' = 1 := by decide
    rw [sizeOf'_cons, sizeOf'_cons, h1]
    omega
  rw [hsz, ← Nat.add_assoc, List.cons_append, List.cons_append]
  exact Reach.one hs

/-! ### Inserting text that the lexer skips -/

/-- **Insertion of layout.**  If the lexer, reading `a ++ b`, arrives at `b`, and reading `a ++ w ++ b` arrives at
    `w ++ b`, and skips `w` there, then the items that follow are the same in both texts, moved by the length of `w`. -/
theorem lex_insert (cls : CharCls) (a w b : List Char) (pre pre' : List Item) (o : Nat)
    (h1 : Reach cls (sizeOf' (a ++ b)) (a ++ b) 0 pre b o)
    (h2 : Reach cls (sizeOf' (a ++ (w ++ b))) (a ++ (w ++ b)) 0 pre' (w ++ b) o)
    (hw : Skips cls w b) :
    ∃ post post', lex cls (a ++ b) = pre ++ post ∧ lex cls (a ++ (w ++ b)) = pre' ++ post' ∧
      ItemsRel (sizeOf' w) post post' := by
  refine ⟨lexAll cls (sizeOf' (a ++ b)) (b.length + 1) b o,
    lexAll cls (sizeOf' (a ++ (w ++ b))) (b.length + 1) b (o + sizeOf' w), ?_, ?_, ?_⟩
  · exact lexAll_reach h1 _ _ (Nat.lt_succ_self _) (Nat.lt_succ_self _)
  · have h3 := Reach.trans h2 (hw (sizeOf' (a ++ (w ++ b))) o)
    rw [List.append_nil] at h3
    exact lexAll_reach h3 _ _ (Nat.lt_succ_self _) (Nat.lt_succ_self _)
  · exact lexAll_rel cls _ _ _ _ _ _

/-- the same for the token lists: both texts have a lexical error, or the tokens in front of the insertion are the
    same and those after it are moved by the length inserted -/
theorem tokens_insert (cls : CharCls) (a w b : List Char) (pre pre' : List Item) (o : Nat)
    (h1 : Reach cls (sizeOf' (a ++ b)) (a ++ b) 0 pre b o)
    (h2 : Reach cls (sizeOf' (a ++ (w ++ b))) (a ++ (w ++ b)) 0 pre' (w ++ b) o)
    (hpre : ItemsRel 0 pre pre') (hw : Skips cls w b) :
    (tokensOf (lex cls (a ++ b)) = none ∧ tokensOf (lex cls (a ++ (w ++ b))) = none) ∨
    ∃ tp ts, tokensOf (lex cls (a ++ b)) = some (tp ++ ts) ∧
      tokensOf (lex cls (a ++ (w ++ b))) = some (tp ++ shiftToks (sizeOf' w) ts) := by
  obtain ⟨post, post', e1, e2, hr⟩ := lex_insert cls a w b pre pre' o h1 h2 hw
  rw [e1, e2, tokensOf_append, tokensOf_append]
  rcases tokensOf_rel hpre with ⟨g1, g2⟩ | ⟨tp, g1, g2⟩
  · rw [g1, g2]; exact Or.inl ⟨rfl, rfl⟩
  · rw [g1, g2, shiftToks_zero]
    rcases tokensOf_rel hr with ⟨k1, k2⟩ | ⟨ts, k1, k2⟩
    · rw [k1, k2]; exact Or.inl ⟨rfl, rfl⟩
    · rw [k1, k2]; exact Or.inr ⟨tp, ts, rfl, rfl⟩

/-- **and so both texts mean the same** -/
theorem parseProgram_insert (cls : CharCls) (a w b : List Char) (pre pre' : List Item) (o : Nat)
    (h1 : Reach cls (sizeOf' (a ++ b)) (a ++ b) 0 pre b o)
    (h2 : Reach cls (sizeOf' (a ++ (w ++ b))) (a ++ (w ++ b)) 0 pre' (w ++ b) o)
    (hpre : ItemsRel 0 pre pre') (hw : Skips cls w b) :
    parseProgram cls (a ++ (w ++ b)) = parseProgram cls (a ++ b) := by
  rcases tokens_insert cls a w b pre pre' o h1 h2 hpre hw with ⟨g1, g2⟩ | ⟨tp, ts, g1, g2⟩
  · rw [parseProgram_lex_error cls _ g1, parseProgram_lex_error cls _ g2]
  · exact parseProgram_kinds cls _ _ _ _ g2 g1 (by rw [kinds_append, kinds_append, kinds_shiftToks])

/-- **Two texts in which the lexer arrives, with the same tokens, in front of the same remaining text** have the same
    tokens from there on, up to their positions: both have a lexical error, or the token lists are `tp ++ ts` moved. -/
theorem tokens_same_rest (cls : CharCls) (t1 t2 b : List Char) (pre1 pre2 : List Item) (d1 d2 : Nat)
    (h1 : Reach cls (sizeOf' t1) t1 0 pre1 b d1) (h2 : Reach cls (sizeOf' t2) t2 0 pre2 b d2)
    (hpre : ItemsRel 0 pre1 pre2) :
    (tokensOf (lex cls t1) = none ∧ tokensOf (lex cls t2) = none) ∨
    ∃ tp ts, tokensOf (lex cls t1) = some (tp ++ shiftToks d1 ts) ∧ tokensOf (lex cls t2) = some (tp ++ shiftToks d2 ts) := by
  have e1 : lex cls t1 = pre1 ++ lexAll cls (sizeOf' t1) (b.length + 1) b d1 :=
    lexAll_reach h1 _ _ (Nat.lt_succ_self _) (Nat.lt_succ_self _)
  have e2 : lex cls t2 = pre2 ++ lexAll cls (sizeOf' t2) (b.length + 1) b d2 :=
    lexAll_reach h2 _ _ (Nat.lt_succ_self _) (Nat.lt_succ_self _)
  have r1 := lexAll_rel cls d1 0 (sizeOf' t1) (b.length + 1) b 0
  have r2 := lexAll_rel cls d2 0 (sizeOf' t2) (b.length + 1) b 0
  rw [Nat.zero_add] at r1 r2
  rw [e1, e2, tokensOf_append, tokensOf_append]
  rcases tokensOf_rel hpre with ⟨g1, g2⟩ | ⟨tp, g1, g2⟩
  · rw [g1, g2]; exact Or.inl ⟨rfl, rfl⟩
  · rw [g1, g2, shiftToks_zero]
    rcases tokensOf_rel r1 with ⟨k1, k2⟩ | ⟨ts, k1, k2⟩
    · rcases tokensOf_rel r2 with ⟨k3, k4⟩ | ⟨ts', k3, k4⟩
      · rw [k2, k4]; exact Or.inl ⟨rfl, rfl⟩
      · rw [k1] at k3; cases k3
    · rcases tokensOf_rel r2 with ⟨k3, k4⟩ | ⟨ts', k3, k4⟩
      · rw [k1] at k3; cases k3
      · rw [k1] at k3
        cases k3
        rw [k2, k4]
        exact Or.inr ⟨tp, ts, rfl, rfl⟩

/-- ... and so they mean the same -/
theorem parseProgram_same_rest (cls : CharCls) (t1 t2 b : List Char) (pre1 pre2 : List Item) (d1 d2 : Nat)
    (h1 : Reach cls (sizeOf' t1) t1 0 pre1 b d1) (h2 : Reach cls (sizeOf' t2) t2 0 pre2 b d2)
    (hpre : ItemsRel 0 pre1 pre2) : parseProgram cls t1 = parseProgram cls t2 := by
  rcases tokens_same_rest cls t1 t2 b pre1 pre2 d1 d2 h1 h2 hpre with ⟨g1, g2⟩ | ⟨tp, ts, g1, g2⟩
  · rw [parseProgram_lex_error cls _ g1, parseProgram_lex_error cls _ g2]
  · exact parseProgram_kinds cls _ _ _ _ g1 g2
      (by rw [kinds_append, kinds_append, kinds_shiftToks, kinds_shiftToks])

/-- the token kinds of a text: `none` if it has a lexical error -/
def tokenKinds (cls : CharCls) (text : List Char) : Option (List Tok) := (tokensOf (lex cls text)).map kinds

theorem tokenKinds_same_rest (cls : CharCls) (t1 t2 b : List Char) (pre1 pre2 : List Item) (d1 d2 : Nat)
    (h1 : Reach cls (sizeOf' t1) t1 0 pre1 b d1) (h2 : Reach cls (sizeOf' t2) t2 0 pre2 b d2)
    (hpre : ItemsRel 0 pre1 pre2) : tokenKinds cls t1 = tokenKinds cls t2 := by
  unfold tokenKinds
  rcases tokens_same_rest cls t1 t2 b pre1 pre2 d1 d2 h1 h2 hpre with ⟨g1, g2⟩ | ⟨tp, ts, g1, g2⟩
  · rw [g1, g2]
  · rw [g1, g2]
    simp only [Option.map_some, kinds_append, kinds_shiftToks]

/-- equal token kinds, equal meaning (`parseProgram_kinds` in terms of `tokenKinds`) -/
theorem parseProgram_of_tokenKinds (cls : CharCls) (t1 t2 : List Char) (h : tokenKinds cls t1 = tokenKinds cls t2) :
    parseProgram cls t1 = parseProgram cls t2 := by
  unfold tokenKinds at h
  cases h1 : tokensOf (lex cls t1) with
  | none =>
    cases h2 : tokensOf (lex cls t2) with
    | none => rw [parseProgram_lex_error cls _ h1, parseProgram_lex_error cls _ h2]
    | some ts2 => rw [h1, h2] at h; cases h
  | some ts1 =>
    cases h2 : tokensOf (lex cls t2) with
    | none => rw [h1, h2] at h; cases h
    | some ts2 =>
      rw [h1, h2] at h
      simp only [Option.map_some, Option.some.injEq] at h
      exact parseProgram_kinds cls _ _ _ _ h1 h2 h

/-- **Layout in front of the text**: blank space and comments before the first token move all tokens, and nothing else. -/
theorem tokens_insert_front (cls : CharCls) (w b : List Char) (hw : Skips cls w b) :
    (tokensOf (lex cls b) = none ∧ tokensOf (lex cls (w ++ b)) = none) ∨
    ∃ ts, tokensOf (lex cls b) = some ts ∧ tokensOf (lex cls (w ++ b)) = some (shiftToks (sizeOf' w) ts) := by
  rcases tokens_insert cls [] w b [] [] 0 (Reach.refl _ _) (Reach.refl _ _) trivial hw with h | ⟨tp, ts, g1, g2⟩
  · exact Or.inl h
  · simp only [List.nil_append] at g1 g2
    rcases tokensOf_rel (d := sizeOf' w) (a := lex cls b) (b := lexAll cls (sizeOf' (w ++ b)) (b.length + 1) b (0 + sizeOf' w))
      (lexAll_rel cls _ _ _ _ _ _) with ⟨k1, _⟩ | ⟨ts', k1, k2⟩
    · rw [k1] at g1; cases g1
    · refine Or.inr ⟨ts', k1, ?_⟩
      have h3 := Reach.trans (Reach.refl (w ++ b) 0) (hw (sizeOf' (w ++ b)) 0)
      have := lexAll_reach h3 ((w ++ b).length + 1) (b.length + 1) (Nat.lt_succ_self _) (Nat.lt_succ_self _)
      unfold lex
      rw [this, List.nil_append, List.nil_append]
      exact k2

theorem parseProgram_insert_front (cls : CharCls) (w b : List Char) (hw : Skips cls w b) :
    parseProgram cls (w ++ b) = parseProgram cls b :=
  parseProgram_insert cls [] w b [] [] 0 (Reach.refl _ _) (Reach.refl _ _) trivial hw

end Lexer

#print axioms Lexer.lexAll_rel
#print axioms Lexer.lexAll_fuel
#print axioms Lexer.lexAll_reach
#print axioms Lexer.lex_insert
#print axioms Lexer.tokens_insert
#print axioms Lexer.parseProgram_insert
#print axioms Lexer.tokens_same_rest
#print axioms Lexer.parseProgram_same_rest
#print axioms Lexer.tokens_insert_front
#print axioms Lexer.parseProgram_insert_front
