import Hcl.Model.Cli
import Hcl.Model.Getopts

/-! `main_real` (main.rs) from the argument vector: `Getopts.parse`, then the construction of the `CliInput` that
    `Cli.mainReal` decides on, with the outside world (the two files and the simulation) as an oracle. -/

namespace Cli

/-- `RunOptions` as `main_real` sets them before `run_y86` -/
structure RunOptions where
  quiet : Bool
  debug : Bool
  test : Bool
  interactive : Bool
  ungroup : Bool
  trace : Bool
  timeout : Nat
  deriving Repr, DecidableEq

/-- the outside world: what reading and checking the HCL file of that name gives, what opening and loading the image of
    that name gives, what running the first on the second under these options does -/
structure World where
  hclOf : String → HclFile
  yoOf : String → YoFile
  runOf : String → String → RunOptions → RunResult

/-- `yo_filename.ends_with(".yo")` (the literal is extracted: `Generated.cliYoSuffix`) -/
def hasYoSuffix (s : String) : Bool :=
  Generated.cliYoSuffix.all fun suf => suf.toList.isSuffixOf s.toList

/-- the `i`-th free argument (`""` if there is none: main_real never looks at it then) -/
def freeArg (m : Getopts.Matches) (i : Nat) : String := m.free.getD i ""

/-- `let timeout = if free_args.len() > 2 { u32::from_str_radix(&free_args[2], 10) .. } else { 9999 }`:
    `none` is the `Err(_)` arm -/
def timeoutOf (m : Getopts.Matches) : Option Nat :=
  if m.free.length > 2 then parseU32 (freeArg m 2).toList else some Generated.cliDefaultTimeout

/-- the `run_options` handed to `run_y86` -/
def runOptionsOf (m : Getopts.Matches) (timeout : Nat) : RunOptions :=
  { quiet := m.optPresent "q", debug := m.optPresent "d", test := m.optPresent "t", interactive := m.optPresent "i",
    ungroup := m.optPresent "ungroup-debug-wires", trace := m.optPresent "trace-assignments", timeout := timeout }

/-- the `CliInput` of an argument vector whose options parse -/
def inputOfMatches (w : World) (m : Getopts.Matches) : CliInput :=
  { optionError := false,
    help := m.optPresent "h",
    version := m.optPresent "version",
    check := m.optPresent "c",
    nfree := m.free.length,
    hcl := w.hclOf (freeArg m 0),
    yoHasSuffix := hasYoSuffix (freeArg m 1),
    yo := w.yoOf (freeArg m 1),
    timeoutValid := (timeoutOf m).isSome,
    run := w.runOf (freeArg m 0) (freeArg m 1) (runOptionsOf m ((timeoutOf m).getD 0)) }

/-- the `CliInput` when `opts.parse` fails (only `optionError` is looked at) -/
def inputOfError : CliInput :=
  { optionError := true, help := false, version := false, check := false, nfree := 0, hcl := .unreadable,
    yoHasSuffix := false, yo := .unopenable, timeoutValid := false, run := .finished }

def inputOf (w : World) (args : List String) : CliInput :=
  match Getopts.parse args with
  | .error _ => inputOfError
  | .ok m => inputOfMatches w m

/-- what `main_real` does on an argument vector -/
structure Result where
  status : Nat                      -- exit status
  out : Out                         -- what is printed
  handed : Option RunOptions        -- the options (with the timeout) handed to `run_y86`, when main_real gets that far
  deriving Repr, DecidableEq

/-- `run_y86` is called exactly when no earlier `return` is taken: the outcome is then `runError` or `finalState` -/
def reachesRun (o : Out) : Bool := o == .runError || o == .finalState

def mainArgv (w : World) (args : List String) : Result :=
  let a := inputOf w args
  { status := (mainReal a).1,
    out := (mainReal a).2,
    handed :=
      match Getopts.parse args with
      | .error _ => none
      | .ok m => if reachesRun (mainReal a).2 then some (runOptionsOf m ((timeoutOf m).getD 0)) else none }

/-- the line on standard error when the options do not parse -/
def optionMessage (args : List String) : Option String :=
  match Getopts.parse args with
  | .error e => some e.message
  | .ok _ => none

end Cli
