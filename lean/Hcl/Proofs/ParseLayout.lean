import Hcl.Model.Parser
import Hcl.Model.ParserStmts
import Hcl.Proofs.ParseFuel
import Hcl.Proofs.ParseStmts
open Parser Lexer

/-! Spans do not steer the parser: two token lists with the same token kinds (`kinds`) are parsed alike -- every one of
    the six expression parsers fails on both or succeeds on both with trees that are equal up to spans and with rests
    of equal kinds; the statement level, whose trees carry no spans, returns the very same result.  Hence two texts
    that lex to the same sequence of token kinds mean the same (`parseProgram_kinds`). -/

namespace Parser

/-- the token kinds of a token list: the tokens without their positions -/
def kinds (ts : Toks) : List Tok := ts.map (·.2.1)

theorem kinds_nil : kinds [] = [] := rfl
theorem kinds_cons (s : Nat) (t : Tok) (e : Nat) (tl : Toks) : kinds ((s, t, e) :: tl) = t :: kinds tl := rfl

theorem kinds_length {ts ts' : Toks} (h : kinds ts = kinds ts') : ts.length = ts'.length := by
  have := congrArg List.length h
  simpa [kinds] using this

theorem kinds_eq_nil {ts : Toks} (h : kinds ts = []) : ts = [] := by
  cases ts with
  | nil => rfl
  | cons hd tl => simp [kinds] at h

theorem kinds_nil_eq {ts : Toks} (h : kinds [] = kinds ts) : ts = [] := kinds_eq_nil h.symm

theorem kinds_eq_cons {ts : Toks} {t : Tok} {k : List Tok} (h : kinds ts = t :: k) :
    ∃ s e tl, ts = (s, t, e) :: tl ∧ kinds tl = k := by
  cases ts with
  | nil => simp [kinds] at h
  | cons hd tl =>
    obtain ⟨s, t', e⟩ := hd
    simp only [kinds, List.map_cons, List.cons.injEq] at h
    obtain ⟨h1, h2⟩ := h
    subst h1
    exact ⟨s, e, tl, rfl, h2⟩

theorem kinds_cons_eq {ts : Toks} {s : Nat} {t : Tok} {e : Nat} {tl : Toks} (h : kinds ((s, t, e) :: tl) = kinds ts) :
    ∃ s' e' tl', ts = (s', t, e') :: tl' ∧ kinds tl = kinds tl' := by
  obtain ⟨s', e', tl', h1, h2⟩ := kinds_eq_cons (ts := ts) (t := t) (k := kinds tl) h.symm
  exact ⟨s', e', tl', h1, h2.symm⟩

/-- two parser results agree up to spans: both fail, or both succeed with values equal under `er` (the forgetting of
    spans) and rests of equal kinds -/
def Rel {α : Type} {β : Type} (er : α → β) (a b : P α) : Prop :=
  (a = none ∧ b = none) ∨
  ∃ x s e r x' s' e' r', a = some (x, s, e, r) ∧ b = some (x', s', e', r') ∧ er x = er x' ∧ kinds r = kinds r'

theorem Rel.none {α β : Type} {er : α → β} : Rel er (none : P α) none := Or.inl ⟨rfl, rfl⟩

theorem Rel.some {α β : Type} {er : α → β} {x x' : α} {s e s' e' : Nat} {r r' : Toks} (hx : er x = er x')
    (hr : kinds r = kinds r') : Rel er (some (x, s, e, r) : P α) (some (x', s', e', r')) :=
  Or.inr ⟨x, s, e, r, x', s', e', r', rfl, rfl, hx, hr⟩

/-- `expect` on token lists of equal kinds -/
theorem expect_kinds (t : Tok) {ts ts' : Toks} (h : kinds ts = kinds ts') :
    (expect t ts = none ∧ expect t ts' = none) ∨
    ∃ s e r s' e' r', expect t ts = some (s, e, r) ∧ expect t ts' = some (s', e', r') ∧ kinds r = kinds r' := by
  cases ts with
  | nil =>
    have := kinds_nil_eq h
    subst this
    exact Or.inl ⟨rfl, rfl⟩
  | cons hd tl =>
    obtain ⟨s, t0, e⟩ := hd
    obtain ⟨s', e', tl', rfl, htl⟩ := kinds_cons_eq h
    unfold expect
    simp only
    by_cases ht : (t0 == t) = true
    · simp only [ht, if_true]
      exact Or.inr ⟨s, e, tl, s', e', tl', rfl, rfl, htl⟩
    · exact Or.inl ⟨by simp [ht], by simp [ht]⟩

/-- `smallConst` on token lists of equal kinds -/
theorem smallConst_kinds {ts ts' : Toks} (h : kinds ts = kinds ts') :
    (smallConst ts = none ∧ smallConst ts' = none) ∨
    ∃ v s e r s' e' r', smallConst ts = some (v, s, e, r) ∧ smallConst ts' = some (v, s', e', r') ∧ kinds r = kinds r' := by
  cases ts with
  | nil =>
    have := kinds_nil_eq h
    subst this
    exact Or.inl ⟨rfl, rfl⟩
  | cons hd tl =>
    obtain ⟨s, t0, e⟩ := hd
    obtain ⟨s', e', tl', rfl, htl⟩ := kinds_cons_eq h
    cases t0 with
    | Constant c =>
      unfold smallConst
      simp only
      by_cases hc : c.bits ≤ 128
      · simp only [hc, if_true]
        exact Or.inr ⟨_, s, e, tl, s', e', tl', rfl, rfl, htl⟩
      · exact Or.inl ⟨by simp [hc], by simp [hc]⟩
    | _ => exact Or.inl ⟨rfl, rfl⟩

/-- what the induction over the fuel carries for the six mutually recursive functions -/
structure AllKinds (f : Nat) : Prop where
  tier : ∀ k ts ts', kinds ts = kinds ts' → Rel PEx.erase (parseTier f k ts) (parseTier f k ts')
  chain : ∀ k tier l l' s e s' e' ts ts', l.erase = l'.erase → kinds ts = kinds ts' →
    Rel PEx.erase (parseChain f k tier l s e ts) (parseChain f k tier l' s' e' ts')
  term : ∀ ts ts', kinds ts = kinds ts' → Rel PEx.erase (parseTerm f ts) (parseTerm f ts')
  simple : ∀ ts ts', kinds ts = kinds ts' → Rel PEx.erase (parseSimple f ts) (parseSimple f ts')
  opts : ∀ ts ts', kinds ts = kinds ts' → Rel POpts.erase (parseOpts f ts) (parseOpts f ts')
  items : ∀ ts ts', kinds ts = kinds ts' → Rel PExs.erase (parseItems f ts) (parseItems f ts')

theorem allKinds_zero : AllKinds 0 where
  tier := by intro k ts ts' _; unfold parseTier; exact Rel.none
  chain := by intro k tier l l' s e s' e' ts ts' _ _; unfold parseChain; exact Rel.none
  term := by intro ts ts' _; unfold parseTerm; exact Rel.none
  simple := by intro ts ts' _; unfold parseSimple; exact Rel.none
  opts := by intro ts ts' _; unfold parseOpts; exact Rel.none
  items := by intro ts ts' _; unfold parseItems; exact Rel.none

theorem simple_kinds_step (f : Nat) (ih : AllKinds f) : ∀ ts ts', kinds ts = kinds ts' →
    Rel PEx.erase (parseSimple (f + 1) ts) (parseSimple (f + 1) ts') := by
  intro ts ts' h
  cases ts with
  | nil =>
    have := kinds_nil_eq h
    subst this
    unfold parseSimple
    exact Rel.none
  | cons hd tl =>
    obtain ⟨s, t, e⟩ := hd
    obtain ⟨s', e', tl', rfl, htl⟩ := kinds_cons_eq h
    cases t with
    | Constant v => unfold parseSimple; exact Rel.some rfl htl
    | Identifier n => unfold parseSimple; exact Rel.some rfl htl
    | OpenParen =>
      unfold parseSimple
      simp only
      rcases ih.tier 0 tl tl' htl with ⟨h1, h2⟩ | ⟨x, sx, ex, r, x', sx', ex', r', h1, h2, hx, hr⟩
      · simp only [h1, h2]; exact Rel.none
      · simp only [h1, h2]
        cases r with
        | nil =>
          have := kinds_nil_eq hr
          subst this
          exact Rel.none
        | cons hd2 r2 =>
          obtain ⟨a, t2, b⟩ := hd2
          obtain ⟨a', b', r2', rfl, hr2⟩ := kinds_cons_eq hr
          cases t2 with
          | CloseParen => exact Rel.some hx hr2
          | DotDot =>
            simp only
            rcases ih.tier 0 r2 r2' hr2 with ⟨g1, g2⟩ | ⟨y, sy, ey, r3, y', sy', ey', r3', g1, g2, hy, hr3⟩
            · simp only [g1, g2]; exact Rel.none
            · simp only [g1, g2]
              rcases expect_kinds .CloseParen hr3 with ⟨k1, k2⟩ | ⟨s4, e4, r4, s4', e4', r4', k1, k2, hr4⟩
              · simp only [k1, k2]; exact Rel.none
              · simp only [k1, k2]
                exact Rel.some (by simp only [PEx.erase, hx, hy]) hr4
          | _ => exact Rel.none
    | OpenBracket =>
      unfold parseSimple
      simp only
      rcases ih.opts tl tl' htl with ⟨h1, h2⟩ | ⟨x, sx, ex, r, x', sx', ex', r', h1, h2, hx, hr⟩
      · simp only [h1, h2]; exact Rel.none
      · simp only [h1, h2]
        rcases expect_kinds .CloseBracket hr with ⟨k1, k2⟩ | ⟨s4, e4, r4, s4', e4', r4', k1, k2, hr4⟩
        · simp only [k1, k2]; exact Rel.none
        · simp only [k1, k2]
          exact Rel.some (by simp only [PEx.erase, hx]) hr4
    | _ => unfold parseSimple; exact Rel.none

theorem term_kinds_step (f : Nat) (ih : AllKinds f) : ∀ ts ts', kinds ts = kinds ts' →
    Rel PEx.erase (parseTerm (f + 1) ts) (parseTerm (f + 1) ts') := by
  intro ts ts' h
  cases ts with
  | nil =>
    have := kinds_nil_eq h
    subst this
    unfold parseTerm
    exact Rel.none
  | cons hd tl =>
    obtain ⟨s, t, e⟩ := hd
    obtain ⟨s', e', tl', rfl, htl⟩ := kinds_cons_eq h
    unfold parseTerm
    simp only
    cases hop : unOpOf t with
    | some op =>
      simp only
      rcases ih.simple tl tl' htl with ⟨h1, h2⟩ | ⟨x, sx, ex, r, x', sx', ex', r', h1, h2, hx, hr⟩
      · simp only [h1, h2]; exact Rel.none
      · simp only [h1, h2]
        exact Rel.some (by simp only [PEx.erase, hx]) hr
    | none =>
      simp only
      rcases ih.simple _ _ h with ⟨h1, h2⟩ | ⟨x, sx, ex, r, x', sx', ex', r', h1, h2, hx, hr⟩
      · simp only [h1, h2]; exact Rel.none
      · simp only [h1, h2]
        cases r with
        | nil =>
          have := kinds_nil_eq hr
          subst this
          exact Rel.some hx rfl
        | cons hd2 r2 =>
          obtain ⟨a, t2, b⟩ := hd2
          obtain ⟨a', b', r2', rfl, hr2⟩ := kinds_cons_eq hr
          cases t2 with
          | OpenBracket =>
            simp only
            rcases smallConst_kinds hr2 with ⟨k1, k2⟩ | ⟨lo, s3, e3, r3, s3', e3', r3', k1, k2, hr3⟩
            · simp only [k1, k2]; exact Rel.none
            · simp only [k1, k2]
              rcases expect_kinds .DotDot hr3 with ⟨k3, k4⟩ | ⟨s4, e4, r4, s4', e4', r4', k3, k4, hr4⟩
              · simp only [k3, k4]; exact Rel.none
              · simp only [k3, k4]
                rcases smallConst_kinds hr4 with ⟨k5, k6⟩ | ⟨hi, s5, e5, r5, s5', e5', r5', k5, k6, hr5⟩
                · simp only [k5, k6]; exact Rel.none
                · simp only [k5, k6]
                  rcases expect_kinds .CloseBracket hr5 with ⟨k7, k8⟩ | ⟨s6, e6, r6, s6', e6', r6', k7, k8, hr6⟩
                  · simp only [k7, k8]; exact Rel.none
                  · simp only [k7, k8]
                    exact Rel.some (by simp only [PEx.erase, hx]) hr6
          | _ => exact Rel.some hx hr

theorem chain_kinds_step (f : Nat) (ih : AllKinds f) : ∀ k tier l l' s e s' e' ts ts', l.erase = l'.erase →
    kinds ts = kinds ts' → Rel PEx.erase (parseChain (f + 1) k tier l s e ts) (parseChain (f + 1) k tier l' s' e' ts') := by
  intro k tier l l' s e s' e' ts ts' hl h
  cases ts with
  | nil =>
    have := kinds_nil_eq h
    subst this
    unfold parseChain
    exact Rel.some hl rfl
  | cons hd tl =>
    obtain ⟨so, t, eo⟩ := hd
    obtain ⟨so', eo', tl', rfl, htl⟩ := kinds_cons_eq h
    unfold parseChain
    simp only
    cases hfind : tier.ops.find? (fun o => o.1 == t) with
    | none => simp only; exact Rel.some hl h
    | some o =>
      obtain ⟨t', op⟩ := o
      simp only
      rcases ih.tier (k + 1) tl tl' htl with ⟨h1, h2⟩ | ⟨x, sx, ex, r, x', sx', ex', r', h1, h2, hx, hr⟩
      · simp only [h1, h2]; exact Rel.none
      · simp only [h1, h2]
        exact ih.chain k tier _ _ _ _ _ _ _ _ (by simp only [PEx.erase, hl, hx]) hr

theorem tier_kinds_step (f : Nat) (ih : AllKinds f) : ∀ k ts ts', kinds ts = kinds ts' →
    Rel PEx.erase (parseTier (f + 1) k ts) (parseTier (f + 1) k ts') := by
  intro k ts ts' h
  unfold parseTier
  cases htk : tiers[k]? with
  | none => simp only; exact ih.term ts ts' h
  | some ot =>
    cases ot with
    | none =>
      simp only
      rcases ih.tier (k + 1) ts ts' h with ⟨h1, h2⟩ | ⟨x, sx, ex, r, x', sx', ex', r', h1, h2, hx, hr⟩
      · simp only [h1, h2]; exact Rel.none
      · simp only [h1, h2]
        cases r with
        | nil =>
          have := kinds_nil_eq hr
          subst this
          exact Rel.some hx rfl
        | cons hd2 r2 =>
          obtain ⟨a, t2, b⟩ := hd2
          obtain ⟨a', b', r2', rfl, hr2⟩ := kinds_cons_eq hr
          cases t2 with
          | In =>
            simp only
            rcases expect_kinds .OpenBrace hr2 with ⟨k3, k4⟩ | ⟨s4, e4, r4, s4', e4', r4', k3, k4, hr4⟩
            · simp only [k3, k4]; exact Rel.none
            · simp only [k3, k4]
              rcases ih.items r4 r4' hr4 with ⟨g1, g2⟩ | ⟨y, sy, ey, r5, y', sy', ey', r5', g1, g2, hy, hr5⟩
              · simp only [g1, g2]; exact Rel.none
              · simp only [g1, g2]
                rcases expect_kinds .CloseBrace hr5 with ⟨k7, k8⟩ | ⟨s6, e6, r6, s6', e6', r6', k7, k8, hr6⟩
                · simp only [k7, k8]; exact Rel.none
                · simp only [k7, k8]
                  exact Rel.some (by simp only [PEx.erase, hx, hy]) hr6
          | _ => exact Rel.some hx hr
    | some tier =>
      simp only
      rcases ih.tier (k + 1) ts ts' h with ⟨h1, h2⟩ | ⟨x, sx, ex, r, x', sx', ex', r', h1, h2, hx, hr⟩
      · simp only [h1, h2]; exact Rel.none
      · simp only [h1, h2]
        by_cases hch : tier.chains = true
        · simp only [hch, if_true]
          exact ih.chain k tier _ _ _ _ _ _ _ _ hx hr
        · simp only [hch]
          cases r with
          | nil =>
            have := kinds_nil_eq hr
            subst this
            exact Rel.some hx rfl
          | cons hd2 r2 =>
            obtain ⟨a, t2, b⟩ := hd2
            obtain ⟨a', b', r2', rfl, hr2⟩ := kinds_cons_eq hr
            simp only
            cases hfind : tier.ops.find? (fun o => o.1 == t2) with
            | none => simp only; exact Rel.some hx hr
            | some o =>
              obtain ⟨t', op⟩ := o
              simp only
              rcases ih.tier (k + 1) r2 r2' hr2 with ⟨g1, g2⟩ | ⟨y, sy, ey, r3, y', sy', ey', r3', g1, g2, hy, hr3⟩
              · simp only [g1, g2]; exact Rel.none
              · simp only [g1, g2]
                exact Rel.some (by simp only [PEx.erase, hx, hy]) hr3

theorem opts_kinds_body (f : Nat) (ih : AllKinds f) (ts ts' : Toks) (h : kinds ts = kinds ts') :
    Rel POpts.erase (match parseTier f 0 ts with
      | none => none
      | some (c, _, _, rest) =>
        match expect .Colon rest with
        | none => none
        | some (_, _, rest1) =>
          match parseTier f 0 rest1 with
          | none => none
          | some (v, _, _, rest2) =>
            match rest2 with
            | (_, .Semicolon, _) :: rest3 =>
              match parseOpts f rest3 with
              | none => none
              | some (more, _, _, rest4) => some (.cons c v more, 0, 0, rest4)
            | _ => some (.cons c v .nil, 0, 0, rest2))
      (match parseTier f 0 ts' with
      | none => none
      | some (c, _, _, rest) =>
        match expect .Colon rest with
        | none => none
        | some (_, _, rest1) =>
          match parseTier f 0 rest1 with
          | none => none
          | some (v, _, _, rest2) =>
            match rest2 with
            | (_, .Semicolon, _) :: rest3 =>
              match parseOpts f rest3 with
              | none => none
              | some (more, _, _, rest4) => some (.cons c v more, 0, 0, rest4)
            | _ => some (.cons c v .nil, 0, 0, rest2)) := by
  rcases ih.tier 0 ts ts' h with ⟨h1, h2⟩ | ⟨c, sc, ec, r, c', sc', ec', r', h1, h2, hc, hr⟩
  · simp only [h1, h2]; exact Rel.none
  · simp only [h1, h2]
    rcases expect_kinds .Colon hr with ⟨k1, k2⟩ | ⟨s1, e1, r1, s1', e1', r1', k1, k2, hr1⟩
    · simp only [k1, k2]; exact Rel.none
    · simp only [k1, k2]
      rcases ih.tier 0 r1 r1' hr1 with ⟨g1, g2⟩ | ⟨v, sv, ev, r2, v', sv', ev', r2', g1, g2, hv, hr2⟩
      · simp only [g1, g2]; exact Rel.none
      · simp only [g1, g2]
        cases r2 with
        | nil =>
          have := kinds_nil_eq hr2
          subst this
          exact Rel.some (by simp only [POpts.erase, hc, hv]) rfl
        | cons hd3 r3 =>
          obtain ⟨a, t3, b⟩ := hd3
          obtain ⟨a', b', r3', rfl, hr3⟩ := kinds_cons_eq hr2
          cases t3 with
          | Semicolon =>
            simp only
            rcases ih.opts r3 r3' hr3 with ⟨m1, m2⟩ | ⟨o, so, eo, r4, o', so', eo', r4', m1, m2, ho, hr4⟩
            · simp only [m1, m2]; exact Rel.none
            · simp only [m1, m2]
              exact Rel.some (by simp only [POpts.erase, hc, hv, ho]) hr4
          | _ => exact Rel.some (by simp only [POpts.erase, hc, hv]) hr2

theorem opts_kinds_step (f : Nat) (ih : AllKinds f) : ∀ ts ts', kinds ts = kinds ts' →
    Rel POpts.erase (parseOpts (f + 1) ts) (parseOpts (f + 1) ts') := by
  intro ts ts' h
  cases ts with
  | nil =>
    have := kinds_nil_eq h
    subst this
    unfold parseOpts
    exact opts_kinds_body f ih [] [] rfl
  | cons hd tl =>
    obtain ⟨s, t, e⟩ := hd
    obtain ⟨s', e', tl', rfl, htl⟩ := kinds_cons_eq h
    cases t with
    | CloseBracket => unfold parseOpts; exact Rel.some rfl h
    | _ => unfold parseOpts; exact opts_kinds_body f ih _ _ h

theorem items_kinds_body (f : Nat) (ih : AllKinds f) (ts ts' : Toks) (h : kinds ts = kinds ts') :
    Rel PExs.erase (match parseTier f 0 ts with
      | none => none
      | some (x, _, _, rest) =>
        match rest with
        | (_, .Comma, _) :: rest1 =>
          match parseItems f rest1 with
          | none => none
          | some (more, _, _, rest2) => some (.cons x more, 0, 0, rest2)
        | _ => some (.cons x .nil, 0, 0, rest))
      (match parseTier f 0 ts' with
      | none => none
      | some (x, _, _, rest) =>
        match rest with
        | (_, .Comma, _) :: rest1 =>
          match parseItems f rest1 with
          | none => none
          | some (more, _, _, rest2) => some (.cons x more, 0, 0, rest2)
        | _ => some (.cons x .nil, 0, 0, rest)) := by
  rcases ih.tier 0 ts ts' h with ⟨h1, h2⟩ | ⟨c, sc, ec, r, c', sc', ec', r', h1, h2, hc, hr⟩
  · simp only [h1, h2]; exact Rel.none
  · simp only [h1, h2]
    cases r with
    | nil =>
      have := kinds_nil_eq hr
      subst this
      exact Rel.some (by simp only [PExs.erase, hc]) rfl
    | cons hd3 r3 =>
      obtain ⟨a, t3, b⟩ := hd3
      obtain ⟨a', b', r3', rfl, hr3⟩ := kinds_cons_eq hr
      cases t3 with
      | Comma =>
        simp only
        rcases ih.items r3 r3' hr3 with ⟨m1, m2⟩ | ⟨o, so, eo, r4, o', so', eo', r4', m1, m2, ho, hr4⟩
        · simp only [m1, m2]; exact Rel.none
        · simp only [m1, m2]
          exact Rel.some (by simp only [PExs.erase, hc, ho]) hr4
      | _ => exact Rel.some (by simp only [PExs.erase, hc]) hr

theorem items_kinds_step (f : Nat) (ih : AllKinds f) : ∀ ts ts', kinds ts = kinds ts' →
    Rel PExs.erase (parseItems (f + 1) ts) (parseItems (f + 1) ts') := by
  intro ts ts' h
  cases ts with
  | nil =>
    have := kinds_nil_eq h
    subst this
    unfold parseItems
    exact items_kinds_body f ih [] [] rfl
  | cons hd tl =>
    obtain ⟨s, t, e⟩ := hd
    obtain ⟨s', e', tl', rfl, htl⟩ := kinds_cons_eq h
    cases t with
    | CloseBrace => unfold parseItems; exact Rel.some rfl h
    | _ => unfold parseItems; exact items_kinds_body f ih _ _ h

theorem allKinds : ∀ f, AllKinds f
  | 0 => allKinds_zero
  | f + 1 =>
    have ih := allKinds f
    { tier := tier_kinds_step f ih, chain := chain_kinds_step f ih, term := term_kinds_step f ih,
      simple := simple_kinds_step f ih, opts := opts_kinds_step f ih, items := items_kinds_step f ih }

theorem Rel.map_eq {α β : Type} {er : α → β} {a b : P α} (h : Rel er a b) :
    Option.map (fun r => (er r.1, kinds r.2.2.2)) a = Option.map (fun r => (er r.1, kinds r.2.2.2)) b := by
  rcases h with ⟨h1, h2⟩ | ⟨x, s, e, r, x', s', e', r', h1, h2, hx, hr⟩
  · rw [h1, h2]
  · rw [h1, h2]
    simp only [Option.map_some, hx, hr]

/-- **Spans do not steer the expression parser**: on token lists of the same kinds, `parseTier` fails on both or
    succeeds on both, with the same tree up to spans and with rests of the same kinds. -/
theorem parseTier_kinds (f k : Nat) (ts ts' : Toks) (h : kinds ts = kinds ts') :
    Option.map (fun r => (r.1.erase, kinds r.2.2.2)) (parseTier f k ts) =
      Option.map (fun r => (r.1.erase, kinds r.2.2.2)) (parseTier f k ts') :=
  ((allKinds f).tier k ts ts' h).map_eq

theorem parseChain_kinds (f k : Nat) (tier : Tier) (l l' : PEx) (s e s' e' : Nat) (ts ts' : Toks)
    (hl : l.erase = l'.erase) (h : kinds ts = kinds ts') :
    Option.map (fun r => (r.1.erase, kinds r.2.2.2)) (parseChain f k tier l s e ts) =
      Option.map (fun r => (r.1.erase, kinds r.2.2.2)) (parseChain f k tier l' s' e' ts') :=
  ((allKinds f).chain k tier l l' s e s' e' ts ts' hl h).map_eq

theorem parseTerm_kinds (f : Nat) (ts ts' : Toks) (h : kinds ts = kinds ts') :
    Option.map (fun r => (r.1.erase, kinds r.2.2.2)) (parseTerm f ts) =
      Option.map (fun r => (r.1.erase, kinds r.2.2.2)) (parseTerm f ts') :=
  ((allKinds f).term ts ts' h).map_eq

theorem parseSimple_kinds (f : Nat) (ts ts' : Toks) (h : kinds ts = kinds ts') :
    Option.map (fun r => (r.1.erase, kinds r.2.2.2)) (parseSimple f ts) =
      Option.map (fun r => (r.1.erase, kinds r.2.2.2)) (parseSimple f ts') :=
  ((allKinds f).simple ts ts' h).map_eq

theorem parseOpts_kinds (f : Nat) (ts ts' : Toks) (h : kinds ts = kinds ts') :
    Option.map (fun r => (r.1.erase, kinds r.2.2.2)) (parseOpts f ts) =
      Option.map (fun r => (r.1.erase, kinds r.2.2.2)) (parseOpts f ts') :=
  ((allKinds f).opts ts ts' h).map_eq

theorem parseItems_kinds (f : Nat) (ts ts' : Toks) (h : kinds ts = kinds ts') :
    Option.map (fun r => (r.1.erase, kinds r.2.2.2)) (parseItems f ts) =
      Option.map (fun r => (r.1.erase, kinds r.2.2.2)) (parseItems f ts') :=
  ((allKinds f).items ts ts' h).map_eq

/-! ### The statement level: its trees carry no spans, so the results are equal -/

/-- two results of a statement-level parser agree: both fail, or both succeed with the SAME value and rests of equal
    kinds -/
def RelS {α : Type} (a b : Option (α × Toks)) : Prop :=
  (a = none ∧ b = none) ∨ ∃ v r r', a = some (v, r) ∧ b = some (v, r') ∧ kinds r = kinds r'

theorem RelS.none {α : Type} : RelS (none : Option (α × Toks)) none := Or.inl ⟨rfl, rfl⟩
theorem RelS.some {α : Type} {v : α} {r r' : Toks} (hr : kinds r = kinds r') :
    RelS (some (v, r)) (some (v, r')) := Or.inr ⟨v, r, r', rfl, rfl, hr⟩

theorem RelS.map_eq {α : Type} {a b : Option (α × Toks)} (h : RelS a b) :
    Option.map (fun r => (r.1, kinds r.2)) a = Option.map (fun r => (r.1, kinds r.2)) b := by
  rcases h with ⟨h1, h2⟩ | ⟨v, r, r', h1, h2, hr⟩
  · rw [h1, h2]
  · rw [h1, h2]
    simp only [Option.map_some, hr]

/-- an expression at a statement-level position: same tree, rests of equal kinds (the fuel `parseE` computes from the
    number of tokens is the same on both sides) -/
theorem parseE_rel {ts ts' : Toks} (h : kinds ts = kinds ts') : RelS (parseE ts) (parseE ts') := by
  unfold parseE
  rw [← kinds_length h]
  rcases (allKinds (14 * ts.length + 40)).tier 0 ts ts' h with ⟨h1, h2⟩ | ⟨x, s, e, r, x', s', e', r', h1, h2, hx, hr⟩
  · simp only [h1, h2]; exact RelS.none
  · simp only [h1, h2, PEx.toEx, hx]; exact RelS.some hr

theorem wireDeclsStep_rel (k k' : Toks → Option (List WireDecl × Toks))
    (hk : ∀ r r', kinds r = kinds r' → RelS (k r) (k' r')) (ts ts' : Toks) (h : kinds ts = kinds ts') :
    RelS (wireDeclsStep k ts) (wireDeclsStep k' ts') := by
  cases ts with
  | nil =>
    have := kinds_nil_eq h
    subst this
    exact RelS.some rfl
  | cons hd tl =>
    obtain ⟨s, t, e⟩ := hd
    obtain ⟨s', e', tl', rfl, htl⟩ := kinds_cons_eq h
    cases t with
    | Identifier name =>
      cases tl with
      | nil =>
        have := kinds_nil_eq htl
        subst this
        exact RelS.some h
      | cons hd2 tl2 =>
        obtain ⟨s2, t2, e2⟩ := hd2
        obtain ⟨s2', e2', tl2', rfl, htl2⟩ := kinds_cons_eq htl
        cases t2 with
        | Colon =>
          unfold wireDeclsStep
          simp only
          rcases smallConst_kinds htl2 with ⟨k1, k2⟩ | ⟨w, s3, e3, r3, s3', e3', r3', k1, k2, hr3⟩
          · simp only [k1, k2]; exact RelS.none
          · simp only [k1, k2]
            cases r3 with
            | nil =>
              have := kinds_nil_eq hr3
              subst this
              exact RelS.some rfl
            | cons hd4 r4 =>
              obtain ⟨s4, t4, e4⟩ := hd4
              obtain ⟨s4', e4', r4', rfl, hr4⟩ := kinds_cons_eq hr3
              cases t4 with
              | Comma =>
                simp only
                rcases hk r4 r4' hr4 with ⟨m1, m2⟩ | ⟨ds, r5, r5', m1, m2, hr5⟩
                · simp only [m1, m2]; exact RelS.none
                · simp only [m1, m2]; exact RelS.some hr5
              | _ => exact RelS.some hr3
        | _ => exact RelS.some h
    | _ => exact RelS.some h

theorem parseWireDecls_rel : ∀ (n : Nat) (ts ts' : Toks), kinds ts = kinds ts' →
    RelS (parseWireDecls n ts) (parseWireDecls n ts')
  | 0, _, _, _ => by unfold parseWireDecls; exact RelS.none
  | n + 1, ts, ts', h => by
    unfold parseWireDecls
    exact wireDeclsStep_rel _ _ (fun r r' hr => parseWireDecls_rel n r r' hr) ts ts' h

theorem wireDecls_rel {ts ts' : Toks} (h : kinds ts = kinds ts') : RelS (wireDecls ts) (wireDecls ts') := by
  unfold wireDecls
  rw [← kinds_length h]
  exact parseWireDecls_rel _ ts ts' h

theorem constDeclsStep_rel (k k' : Toks → Option (List ConstDecl × Toks))
    (hk : ∀ r r', kinds r = kinds r' → RelS (k r) (k' r')) (ts ts' : Toks) (h : kinds ts = kinds ts') :
    RelS (constDeclsStep k ts) (constDeclsStep k' ts') := by
  cases ts with
  | nil =>
    have := kinds_nil_eq h
    subst this
    exact RelS.some rfl
  | cons hd tl =>
    obtain ⟨s, t, e⟩ := hd
    obtain ⟨s', e', tl', rfl, htl⟩ := kinds_cons_eq h
    cases t with
    | Identifier name =>
      cases tl with
      | nil =>
        have := kinds_nil_eq htl
        subst this
        exact RelS.some h
      | cons hd2 tl2 =>
        obtain ⟨s2, t2, e2⟩ := hd2
        obtain ⟨s2', e2', tl2', rfl, htl2⟩ := kinds_cons_eq htl
        cases t2 with
        | Assign =>
          unfold constDeclsStep
          simp only
          rcases parseE_rel htl2 with ⟨k1, k2⟩ | ⟨v, r3, r3', k1, k2, hr3⟩
          · simp only [k1, k2]; exact RelS.none
          · simp only [k1, k2]
            cases r3 with
            | nil =>
              have := kinds_nil_eq hr3
              subst this
              exact RelS.some rfl
            | cons hd4 r4 =>
              obtain ⟨s4, t4, e4⟩ := hd4
              obtain ⟨s4', e4', r4', rfl, hr4⟩ := kinds_cons_eq hr3
              cases t4 with
              | Comma =>
                simp only
                rcases hk r4 r4' hr4 with ⟨m1, m2⟩ | ⟨ds, r5, r5', m1, m2, hr5⟩
                · simp only [m1, m2]; exact RelS.none
                · simp only [m1, m2]; exact RelS.some hr5
              | _ => exact RelS.some hr3
        | _ => exact RelS.some h
    | _ => exact RelS.some h

theorem parseConstDecls_rel : ∀ (n : Nat) (ts ts' : Toks), kinds ts = kinds ts' →
    RelS (parseConstDecls n ts) (parseConstDecls n ts')
  | 0, _, _, _ => by unfold parseConstDecls; exact RelS.none
  | n + 1, ts, ts', h => by
    unfold parseConstDecls
    exact constDeclsStep_rel _ _ (fun r r' hr => parseConstDecls_rel n r r' hr) ts ts' h

theorem constDecls_rel {ts ts' : Toks} (h : kinds ts = kinds ts') : RelS (constDecls ts) (constDecls ts') := by
  unfold constDecls
  rw [← kinds_length h]
  exact parseConstDecls_rel _ ts ts' h

theorem parseTargets_rel_aux : ∀ (n : Nat) (ts ts' : Toks), ts.length ≤ n → kinds ts = kinds ts' →
    (parseTargets ts).1 = (parseTargets ts').1 ∧ kinds (parseTargets ts).2 = kinds (parseTargets ts').2 := by
  intro n
  induction n with
  | zero =>
    intro ts ts' hn h
    cases ts with
    | nil =>
      have := kinds_nil_eq h
      subst this
      exact ⟨rfl, rfl⟩
    | cons hd tl => simp at hn
  | succ n ih =>
    intro ts ts' hn h
    cases ts with
    | nil =>
      have := kinds_nil_eq h
      subst this
      exact ⟨rfl, rfl⟩
    | cons hd tl =>
      obtain ⟨s, t, e⟩ := hd
      obtain ⟨s', e', tl', rfl, htl⟩ := kinds_cons_eq h
      cases t with
      | Identifier name =>
        cases tl with
        | nil =>
          have := kinds_nil_eq htl
          subst this
          exact ⟨rfl, h⟩
        | cons hd2 tl2 =>
          obtain ⟨s2, t2, e2⟩ := hd2
          obtain ⟨s2', e2', tl2', rfl, htl2⟩ := kinds_cons_eq htl
          cases t2 with
          | Assign =>
            simp only [parseTargets]
            obtain ⟨a1, a2⟩ := ih tl2 tl2' (by simp only [List.length_cons] at hn; omega) htl2
            exact ⟨by rw [a1], a2⟩
          | _ => exact ⟨rfl, h⟩
      | _ => exact ⟨rfl, h⟩

theorem parseTargets_rel {ts ts' : Toks} (h : kinds ts = kinds ts') :
    (parseTargets ts).1 = (parseTargets ts').1 ∧ kinds (parseTargets ts).2 = kinds (parseTargets ts').2 :=
  parseTargets_rel_aux ts.length ts ts' (Nat.le_refl _) h

theorem parseAssignment_rel {ts ts' : Toks} (h : kinds ts = kinds ts') :
    RelS (parseAssignment ts) (parseAssignment ts') := by
  obtain ⟨a1, a2⟩ := parseTargets_rel h
  unfold parseAssignment
  generalize parseTargets ts = p at a1 a2
  generalize parseTargets ts' = p' at a1 a2
  obtain ⟨names, rest⟩ := p
  obtain ⟨names', rest'⟩ := p'
  simp only at a1 a2
  subst a1
  cases names with
  | nil => exact RelS.none
  | cons nm nms =>
    simp only
    rcases parseE_rel a2 with ⟨k1, k2⟩ | ⟨v, r3, r3', k1, k2, hr3⟩
    · simp only [k1, k2]; exact RelS.none
    · simp only [k1, k2]; exact RelS.some hr3

theorem assignsStep_rel (k k' : Toks → Option (List Assignment × Toks))
    (hk : ∀ r r', kinds r = kinds r' → RelS (k r) (k' r')) (ts ts' : Toks) (h : kinds ts = kinds ts') :
    RelS (assignsStep k ts) (assignsStep k' ts') := by
  unfold assignsStep
  rcases parseAssignment_rel h with ⟨k1, k2⟩ | ⟨a, r1, r1', k1, k2, hr1⟩
  · simp only [k1, k2]; exact RelS.none
  · simp only [k1, k2]
    cases r1 with
    | nil =>
      have := kinds_nil_eq hr1
      subst this
      exact RelS.some rfl
    | cons hd tl =>
      obtain ⟨s, t, e⟩ := hd
      obtain ⟨s', e', tl', rfl, htl⟩ := kinds_cons_eq hr1
      cases t with
      | Comma =>
        cases tl with
        | nil =>
          have := kinds_nil_eq htl
          subst this
          exact RelS.some rfl
        | cons hd2 tl2 =>
          obtain ⟨s2, t2, e2⟩ := hd2
          obtain ⟨s2', e2', tl2', rfl, htl2⟩ := kinds_cons_eq htl
          cases t2 with
          | Identifier name =>
            simp only
            rcases hk _ _ htl with ⟨m1, m2⟩ | ⟨ds, r5, r5', m1, m2, hr5⟩
            · simp only [m1, m2]; exact RelS.none
            · simp only [m1, m2]; exact RelS.some hr5
          | _ => exact RelS.some htl
      | _ => exact RelS.some hr1

theorem parseAssigns_rel : ∀ (n : Nat) (ts ts' : Toks), kinds ts = kinds ts' →
    RelS (parseAssigns n ts) (parseAssigns n ts')
  | 0, _, _, _ => by unfold parseAssigns; exact RelS.none
  | n + 1, ts, ts', h => by
    unfold parseAssigns
    exact assignsStep_rel _ _ (fun r r' hr => parseAssigns_rel n r r' hr) ts ts' h

theorem assigns_rel {ts ts' : Toks} (h : kinds ts = kinds ts') : RelS (assigns ts) (assigns ts') := by
  unfold assigns
  rw [← kinds_length h]
  exact parseAssigns_rel _ ts ts' h

theorem regDeclsStep_rel (k k' : Toks → Option (List RegDecl × Toks))
    (hk : ∀ r r', kinds r = kinds r' → RelS (k r) (k' r')) (ts ts' : Toks) (h : kinds ts = kinds ts') :
    RelS (regDeclsStep k ts) (regDeclsStep k' ts') := by
  cases ts with
  | nil =>
    have := kinds_nil_eq h
    subst this
    exact RelS.some rfl
  | cons hd tl =>
    obtain ⟨s, t, e⟩ := hd
    obtain ⟨s', e', tl', rfl, htl⟩ := kinds_cons_eq h
    cases t with
    | Identifier name =>
      cases tl with
      | nil =>
        have := kinds_nil_eq htl
        subst this
        exact RelS.some h
      | cons hd2 tl2 =>
        obtain ⟨s2, t2, e2⟩ := hd2
        obtain ⟨s2', e2', tl2', rfl, htl2⟩ := kinds_cons_eq htl
        cases t2 with
        | Colon =>
          unfold regDeclsStep
          simp only
          rcases smallConst_kinds htl2 with ⟨k1, k2⟩ | ⟨w, s3, e3, r3, s3', e3', r3', k1, k2, hr3⟩
          · simp only [k1, k2]; exact RelS.none
          · simp only [k1, k2]
            rcases expect_kinds .Assign hr3 with ⟨k3, k4⟩ | ⟨s4, e4, r4, s4', e4', r4', k3, k4, hr4⟩
            · simp only [k3, k4]; exact RelS.none
            · simp only [k3, k4]
              rcases parseE_rel hr4 with ⟨k5, k6⟩ | ⟨v, r5, r5', k5, k6, hr5⟩
              · simp only [k5, k6]; exact RelS.none
              · simp only [k5, k6]
                cases r5 with
                | nil =>
                  have := kinds_nil_eq hr5
                  subst this
                  exact RelS.some rfl
                | cons hd6 r6 =>
                  obtain ⟨s6, t6, e6⟩ := hd6
                  obtain ⟨s6', e6', r6', rfl, hr6⟩ := kinds_cons_eq hr5
                  cases t6 with
                  | Semicolon =>
                    simp only
                    rcases hk r6 r6' hr6 with ⟨m1, m2⟩ | ⟨ds, r7, r7', m1, m2, hr7⟩
                    · simp only [m1, m2]; exact RelS.none
                    · simp only [m1, m2]; exact RelS.some hr7
                  | _ => exact RelS.some hr5
        | _ => exact RelS.some h
    | _ => exact RelS.some h

theorem parseRegDecls_rel : ∀ (n : Nat) (ts ts' : Toks), kinds ts = kinds ts' →
    RelS (parseRegDecls n ts) (parseRegDecls n ts')
  | 0, _, _, _ => by unfold parseRegDecls; exact RelS.none
  | n + 1, ts, ts', h => by
    unfold parseRegDecls
    exact regDeclsStep_rel _ _ (fun r r' hr => parseRegDecls_rel n r r' hr) ts ts' h

theorem regDecls_rel {ts ts' : Toks} (h : kinds ts = kinds ts') : RelS (regDecls ts) (regDecls ts') := by
  unfold regDecls
  rw [← kinds_length h]
  exact parseRegDecls_rel _ ts ts' h

theorem parseBank_rel {ts ts' : Toks} (h : kinds ts = kinds ts') : RelS (parseBank ts) (parseBank ts') := by
  cases ts with
  | nil =>
    have := kinds_nil_eq h
    subst this
    exact RelS.none
  | cons hd tl =>
    obtain ⟨s, t, e⟩ := hd
    obtain ⟨s', e', tl', rfl, htl⟩ := kinds_cons_eq h
    cases t with
    | Identifier name =>
      cases tl with
      | nil =>
        have := kinds_nil_eq htl
        subst this
        exact RelS.none
      | cons hd2 tl2 =>
        obtain ⟨s2, t2, e2⟩ := hd2
        obtain ⟨s2', e2', tl2', rfl, htl2⟩ := kinds_cons_eq htl
        cases t2 with
        | OpenBrace =>
          unfold parseBank
          simp only
          rcases regDecls_rel htl2 with ⟨k1, k2⟩ | ⟨regs, r3, r3', k1, k2, hr3⟩
          · simp only [k1, k2]; exact RelS.none
          · simp only [k1, k2]
            rcases expect_kinds .CloseBrace hr3 with ⟨k3, k4⟩ | ⟨s4, e4, r4, s4', e4', r4', k3, k4, hr4⟩
            · simp only [k3, k4]; exact RelS.none
            · simp only [k3, k4]; exact RelS.some hr4
        | _ => exact RelS.none
    | _ => exact RelS.none

theorem parseNeedSemi_rel {ts ts' : Toks} (h : kinds ts = kinds ts') :
    RelS (parseNeedSemi ts) (parseNeedSemi ts') := by
  cases ts with
  | nil =>
    have := kinds_nil_eq h
    subst this
    exact RelS.none
  | cons hd tl =>
    obtain ⟨s, t, e⟩ := hd
    obtain ⟨s', e', tl', rfl, htl⟩ := kinds_cons_eq h
    cases t with
    | Wire =>
      unfold parseNeedSemi
      simp only
      rcases wireDecls_rel htl with ⟨k1, k2⟩ | ⟨ds, r3, r3', k1, k2, hr3⟩
      · simp only [k1, k2]; exact RelS.none
      · simp only [k1, k2]; exact RelS.some hr3
    | Const =>
      unfold parseNeedSemi
      simp only
      rcases constDecls_rel htl with ⟨k1, k2⟩ | ⟨ds, r3, r3', k1, k2, hr3⟩
      · simp only [k1, k2]; exact RelS.none
      · simp only [k1, k2]; exact RelS.some hr3
    | Identifier name =>
      unfold parseNeedSemi
      simp only
      rcases assigns_rel h with ⟨k1, k2⟩ | ⟨ds, r3, r3', k1, k2, hr3⟩
      · simp only [k1, k2]; exact RelS.none
      · simp only [k1, k2]; exact RelS.some hr3
    | _ => exact RelS.none

/-- what follows a statement that needs a semicolon -/
theorem stmts_tail_eq (k k' : Toks → Option (List Stmt)) (hk : ∀ r r', kinds r = kinds r' → k r = k' r')
    (started : Bool) (ts ts' : Toks) (h : kinds ts = kinds ts') :
    (match parseNeedSemi ts with
      | none => none
      | some (st, rest1) =>
        match rest1 with
        | (_, .Semicolon, _) :: rest2 =>
          match k rest2 with
          | none => none
          | some more => some (st :: more)
        | [] => if started then some [st] else none
        | _ => none) =
    (match parseNeedSemi ts' with
      | none => none
      | some (st, rest1) =>
        match rest1 with
        | (_, .Semicolon, _) :: rest2 =>
          match k' rest2 with
          | none => none
          | some more => some (st :: more)
        | [] => if started then some [st] else none
        | _ => none) := by
  rcases parseNeedSemi_rel h with ⟨k1, k2⟩ | ⟨st, r1, r1', k1, k2, hr1⟩
  · simp only [k1, k2]
  · simp only [k1, k2]
    cases r1 with
    | nil =>
      have := kinds_nil_eq hr1
      subst this
      rfl
    | cons hd2 r2 =>
      obtain ⟨s2, t2, e2⟩ := hd2
      obtain ⟨s2', e2', r2', rfl, hr2⟩ := kinds_cons_eq hr1
      cases t2 with
      | Semicolon =>
        simp only
        rw [hk r2 r2' hr2]
      | _ => rfl

theorem stmtsStep_kinds (k k' : Toks → Option (List Stmt)) (hk : ∀ r r', kinds r = kinds r' → k r = k' r')
    (started : Bool) (ts ts' : Toks) (h : kinds ts = kinds ts') :
    stmtsStep k started ts = stmtsStep k' started ts' := by
  cases ts with
  | nil =>
    have := kinds_nil_eq h
    subst this
    rfl
  | cons hd tl =>
    obtain ⟨s, t, e⟩ := hd
    obtain ⟨s', e', tl', rfl, htl⟩ := kinds_cons_eq h
    cases t with
    | Semicolon =>
      unfold stmtsStep
      simp only
      rw [hk tl tl' htl]
    | Register =>
      unfold stmtsStep
      simp only
      rcases parseBank_rel htl with ⟨k1, k2⟩ | ⟨b, r1, r1', k1, k2, hr1⟩
      · simp only [k1, k2]
      · simp only [k1, k2]
        rw [hk r1 r1' hr1]
    | _ => exact stmts_tail_eq k k' hk started _ _ h

theorem parseStmtsLoop_kinds : ∀ (n : Nat) (started : Bool) (ts ts' : Toks), kinds ts = kinds ts' →
    parseStmtsLoop n started ts = parseStmtsLoop n started ts'
  | 0, _, _, _, _ => by unfold parseStmtsLoop; rfl
  | n + 1, started, ts, ts', h => by
    unfold parseStmtsLoop
    exact stmtsStep_kinds _ _ (fun r r' hr => parseStmtsLoop_kinds n true r r' hr) started ts ts' h

/-- **Spans do not steer the statement parser**: token lists of the same kinds give the same statements. -/
theorem parseStmts_kinds (f : Nat) (ts ts' : Toks) (h : kinds ts = kinds ts') : parseStmts f ts = parseStmts f ts' :=
  parseStmtsLoop_kinds f false ts ts' h

/-- **Two texts that lex to the same sequence of token kinds mean the same**: whatever differs between them -- blank
    space, comments, line ends, hence all positions -- the statement parser returns the same result, success and
    failure alike. -/
theorem parseProgram_kinds (cls : CharCls) (t1 t2 : List Char) (ts1 ts2 : Toks)
    (h1 : tokensOf (lex cls t1) = some ts1) (h2 : tokensOf (lex cls t2) = some ts2) (h : kinds ts1 = kinds ts2) :
    parseProgram cls t1 = parseProgram cls t2 := by
  unfold parseProgram
  simp only [h1, h2]
  rw [← kinds_length h]
  exact parseStmts_kinds _ ts1 ts2 h

/-- the same for a single expression: `parseExpr` on two texts with the same token kinds gives the same tree up to spans -/
theorem parseExpr_kinds (cls : CharCls) (t1 t2 : List Char) (ts1 ts2 : Toks)
    (h1 : tokensOf (lex cls t1) = some ts1) (h2 : tokensOf (lex cls t2) = some ts2) (h : kinds ts1 = kinds ts2) :
    (parseExpr cls t1).map PEx.erase = (parseExpr cls t2).map PEx.erase := by
  unfold parseExpr
  simp only [h1, h2]
  rw [← kinds_length h]
  rcases (allKinds (14 * ts1.length + 40)).tier 0 ts1 ts2 h with ⟨k1, k2⟩ | ⟨x, s, e, r, x', s', e', r', k1, k2, hx, hr⟩
  · simp only [k1, k2]
  · simp only [k1, k2]
    cases r with
    | nil =>
      have := kinds_nil_eq hr
      subst this
      simp only [Option.map_some, hx]
    | cons hd tl =>
      obtain ⟨a, t, b⟩ := hd
      obtain ⟨a', b', tl', rfl, _⟩ := kinds_cons_eq hr
      rfl

end Parser

#print axioms Parser.parseTier_kinds
#print axioms Parser.parseStmts_kinds
#print axioms Parser.parseProgram_kinds
#print axioms Parser.parseExpr_kinds
